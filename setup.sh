#!/bin/bash
# Run once after a fresh restore: regenerate Gen/ from /repo and build all Coq clusters offline.
cd "$(dirname "$0")"
export PYTHONPATH="$PWD/py:/repo" PYTHONHASHSEED=0 PYTHONDONTWRITEBYTECODE=1
exec /venv/bin/python -m vlib.setup
