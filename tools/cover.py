"""tools/cover.py [deep]: which lines of ikesa.py / ikesacontroller.py do the histories of the handler/endpoint
correspondence (py/props/hdl.py scenario_set) execute?  Lines never executed are places where a divergence between
the hand-written model and the code could not be noticed by the tie.  Measurement aid only (coverage.py)."""
import os, sys, random, warnings
warnings.filterwarnings('ignore')
REPO = os.environ.get('VERIF_REPO', '/repo')
sys.path.insert(0, os.path.join(os.path.dirname(__file__), '..', 'py')); sys.path.insert(0, REPO)
import coverage
cov = coverage.Coverage(include=[REPO + '/ikesa.py', REPO + '/ikesacontroller.py'], branch=True)
cov.start()
from props import hdl


class Ctx:
    seed = 0
    rng = random.Random(0)


deep = len(sys.argv) > 1 and sys.argv[1] == 'deep'
n = 0
for label, actions, conf, seed, skip in hdl.scenario_set(Ctx(), deep):
    logs, problems = hdl.record(actions, conf, seed)
    n += 1
cov.stop()
print('histories', n)
cov.report(show_missing=True)
