#!/bin/bash
# tools/seedtest.sh <PROPERTY> <worktree with the change applied and _seed/{patch.diff,demo.py,notes.md}> <name> [other property ids to run too]
# Confirms: suite unchanged with the change; demo fails with / passes without; runs ./check against the changed tree.
set -u
V=$(cd "$(dirname "$0")/.." && pwd)
P=$1; W=$2; NAME=$3; shift 3; EXTRA="$@"
cd "$W" || exit 2
SUITE_WITH=$(/venv/bin/python -m pytest -q -p no:cacheprovider --timeout=900 2>&1 | tail -1)
/venv/bin/python _seed/demo.py >/tmp/demo_with_$NAME.log 2>&1; DEMO_WITH=$?
git diff -- . ':(exclude)_seed' > /tmp/seed_patch_$NAME.diff
# (git stash is shared between worktrees: never use it here)
git apply -R /tmp/seed_patch_$NAME.diff
/venv/bin/python _seed/demo.py >/tmp/demo_without_$NAME.log 2>&1; DEMO_WITHOUT=$?
SUITE_WITHOUT=$(/venv/bin/python -m pytest -q -p no:cacheprovider --timeout=900 2>&1 | tail -1)
git apply /tmp/seed_patch_$NAME.diff
echo "suite with change:    $SUITE_WITH"
echo "suite without change: $SUITE_WITHOUT"
echo "demo exit with change: $DEMO_WITH   without: $DEMO_WITHOUT"
cd "$V"
OUT=$V/seeded/$NAME
mkdir -p $OUT
cp /tmp/seed_patch_$NAME.diff $OUT/patch.diff; cp $W/_seed/demo.py $OUT/demo.py; cp $W/_seed/notes.md $OUT/notes.md 2>/dev/null
RES=""
for id in $P $EXTRA; do
  VERIF_REPO=$W ./check $id > /tmp/seed_check_$id.log 2>&1; RC=$?
  LINE=$(grep "VIOLATION\|^OK" /tmp/seed_check_$id.log | tail -1 | cut -c1-200)
  FIRST=$(grep "failing input\|broken tie" /tmp/seed_check_$id.log | head -1 | cut -c1-300)
  echo "check $id -> exit $RC: $LINE"; echo "    $FIRST"
  RES="$RES{\"check\": \"$id\", \"exit\": $RC, \"line\": $(python3 -c "import json,sys;print(json.dumps(sys.argv[1]))" "$LINE"), \"first\": $(python3 -c "import json,sys;print(json.dumps(sys.argv[1]))" "$FIRST")},"
done
python3 - "$V" "$P" "$NAME" "$SUITE_WITH" "$SUITE_WITHOUT" "$DEMO_WITH" "$DEMO_WITHOUT" "[${RES%,}]" <<'PY'
import json,sys
v,p,name,sw,swo,dw,dwo,res=sys.argv[1:9]
meta={'property':p,'name':name,'suite_with_change':sw,'suite_without_change':swo,'demo_exit_with_change':int(dw),'demo_exit_without_change':int(dwo),
      'checks_run_against_changed_tree':json.loads(res),
      'what_it_needs_to_manifest':'see notes.md','ran':'tools/seedtest.sh (suite with/without, demo with/without, ./check with VERIF_REPO=<changed worktree>)'}
json.dump(meta,open(f'{v}/seeded/{name}/meta.json','w'),indent=1)
PY
# regenerate Gen/ from the real tree again
for id in $P $EXTRA; do ./check $id > /tmp/seed_after_$id.log 2>&1; echo "unchanged tree $id: $(tail -1 /tmp/seed_after_$id.log | cut -c1-120)"; done
