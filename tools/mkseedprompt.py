#!/usr/bin/env python3
"""tools/mkseedprompt.py <PROPERTY> <worktree> [text describing changes to avoid] -> prompt for an independent
sub-agent (contains only the text of the property; nothing from /verif)."""
import json, sys
pid, wt = sys.argv[1], sys.argv[2]
avoid = sys.argv[3] if len(sys.argv) > 3 else ''
p = next(json.loads(l) for l in open('/verif/properties.jsonl') if json.loads(l)['id'] == pid)
a = p['anchors']
mech = '\n'.join(f"  - {m['name']} ({m['where']})" for m in a.get('mechanism', []))
print(f"""You are helping to evaluate a verification effort for the open-source project pyikev2 (a small didactic IKEv2 daemon in Python). Your job is to play the role of a developer who introduces a subtle REGRESSION.

You have your own scratch git worktree of the repository at {wt} (work ONLY there; never touch /repo or /verif, and do not read anything under /verif). Python is /venv/bin/python. The test suite is run with:
    cd {wt} && /venv/bin/python -m pytest -q -p no:cacheprovider --timeout=900
On the unchanged tree it reports 176 passed and 11 failed (the 11 failures are pre-existing: 4 in test_configuration, 4 TestPayloadMixin in test_message, 3 in test_xfrm - they need network/root and always fail). That result must be EXACTLY the same with your change (same 176 passing tests).

The semantic property you must break:

  {p['id']} - {p['title']}
  {p['statement']}

  Why unit tests cannot settle it: {p['why_tests_cant']}
  Files it is anchored in: {', '.join(a.get('files', []))}
  Mechanisms it is anchored in:
{mech}

Task: make a small, realistic change to the source of pyikev2 (not to its tests) that makes the property FALSE, while the code still imports/compiles and the existing test suite result is unchanged. It should look like a plausible slip or a well-meant refactoring/optimisation by a maintainer (one to ten changed lines; possibly two cooperating sites that each look fine alone), and it must need something SPECIFIC to manifest - a particular interleaving, a crash or fault at a particular point, a multi-step sequence of operations, an unusual input or configuration - not something ordinary use (a plain handshake with the default test configuration) would expose at once. {avoid}

Then write a demonstration: a stand-alone script {wt}/_seed/demo.py (run as `cd {wt} && /venv/bin/python _seed/demo.py`) that drives the REAL code (import the modules from the worktree; mock only the outside world: sockets, netlink/xfrm kernel calls, time, randomness, as test_ikesa.py / test_ikesacontroller.py do) and checks the property's observable statement on a concrete input/sequence. It must exit with status 1 (printing what went wrong) WITH your change and exit 0 WITHOUT it (verify both: `git stash` is NOT allowed because stashes are shared between worktrees - instead save your diff with `git diff > {wt}.diff`, `git apply -R {wt}.diff`, run, `git apply {wt}.diff`). The demonstration must judge the property itself (e.g. compare kernel SAs of two endpoints, count executions of a request, look for a key in log records), not merely detect that a line of code changed.

Leave in the worktree when you finish: the change applied to the source (uncommitted), {wt}/_seed/demo.py, and {wt}/_seed/notes.md saying: what the change is, which clause of the property it breaks, exactly what is needed for it to manifest, and why the existing tests do not notice. Do not commit. Keep the change minimal; do not edit tests; do not add new files outside _seed/.

In your final message give: the diff, the output of the test suite with the change (last line), and the demo's exit status with and without the change.""")
