#!/bin/bash
# tools/reseed.sh <seeded name> <check ids...>: run the given checks against a scratch worktree with the seeded change
# applied, then regenerate Gen/ from the real tree by re-running them on /repo (output shortened).
V=$(cd "$(dirname "$0")/.." && pwd)
NAME=$1; shift
W=/tmp/rs_$NAME
git -C /repo worktree remove --force $W >/dev/null 2>&1
git -C /repo worktree add --detach $W HEAD >/dev/null 2>&1 || exit 2
git -C $W apply $V/seeded/$NAME/patch.diff || { echo "patch does not apply"; git -C /repo worktree remove --force $W; exit 2; }
cd $V
for id in "$@"; do
  VERIF_REPO=$W ./check $id > /tmp/rs_${NAME}_$id.log 2>&1; RC=$?
  echo "[$NAME] $id -> exit $RC: $(grep 'VIOLATION\|^OK' /tmp/rs_${NAME}_$id.log | tail -1 | cut -c1-160)"
  grep "failing input\|broken tie" /tmp/rs_${NAME}_$id.log | head -2 | cut -c1-330
done
git -C /repo worktree remove --force $W
for id in "$@"; do ./check $id > /tmp/rs_after_$id.log 2>&1; echo "unchanged $id: $(grep -v WARNING /tmp/rs_after_$id.log | tail -1 | cut -c1-140)"; done
