(** C13 for the whole endpoint: the timer section of main_loop over a table of several IkeSas.

    Props/C13.v proves the timer clauses for ONE IkeSa in isolation (the parametric shell).  Here they are lifted to
    the endpoint of Endpoint.v, where the entries share one timer section:
    - [rt_loop] models Python's [for ikesa in self.ike_sas:] whose body may [self.ike_sas.remove(ikesa)]: the
      iterator keeps an index, so the entry that FOLLOWS a removed one is not visited in that sweep.  Section C
      characterises exactly which positions are visited (as a relation, and in closed form under unique creation
      indices) and shows that an entry is passed over exactly when its predecessor was visited and removed in the
      same sweep; section G bounds the delay (an entry at position p is visited within p+1 iterations, for every
      history) and shows that a visited entry whose retransmission is due does retransmit.
    - the DPD and lifetime sweeps iterate over a snapshot of the creation indices: every entry is visited exactly
      once (section D).
    - a call on one entry leaves every other entry untouched; a timer that is not due leaves its own entry
      untouched up to the environment fields that [enter] overwrites anyway (section B).
    - a visited entry whose retransmission budget is exhausted is removed with its kernel SAs (section F).
    - the timer section never adds an entry or a creation index (section E).
    Non-vacuity, tightness of the bound and two refuted statements: concrete tables of three entries (section H). *)
From Coq Require Import ZArith NArith Bool List Lia ZifyBool PeanoNat.
From RecordUpdate Require Import RecordSet.
From VLib Require Import Bytes.
From IkeSa Require Import Gen.IkeFacts Shell ShellProofs Hdl HdlSad Endpoint EndpointSad.
Import ListNotations RecordSetNotations.
Open Scope Z_scope.

(* ------------------------------------------------------------------------------------------------ *)
(** * A. Lists: subsequences, first index *)

Inductive subseq {A : Type} : list A -> list A -> Prop :=
| ss_nil : subseq [] []
| ss_skip x l' l : subseq l' l -> subseq l' (x :: l)
| ss_keep x l' l : subseq l' l -> subseq (x :: l') (x :: l).

Lemma subseq_refl {A} (l : list A) : subseq l l.
Proof. induction l as [|x r IH]; [constructor|apply ss_keep; exact IH]. Qed.
Lemma subseq_nil_l {A} (l : list A) : subseq [] l.
Proof. induction l as [|x r IH]; [constructor|apply ss_skip; exact IH]. Qed.
Lemma subseq_trans {A} (a b c : list A) : subseq a b -> subseq b c -> subseq a c.
Proof.
  intros Hab Hbc. revert a Hab. induction Hbc as [|x l' l Hbc IH|x l' l Hbc IH]; intros a Hab.
  - exact Hab.
  - apply ss_skip. apply IH. exact Hab.
  - inversion Hab as [|y a' b' Hab'|y a' b' Hab']; subst.
    + apply ss_skip. apply IH. exact Hab'.
    + apply ss_keep. apply IH. exact Hab'.
Qed.
Lemma subseq_incl {A} (a b : list A) : subseq a b -> incl a b.
Proof.
  intros H. induction H as [|x l' l H IH|x l' l H IH]; intros y Hy.
  - exact Hy.
  - right. apply IH. exact Hy.
  - destruct Hy as [Hy|Hy]; [left; exact Hy|right; apply IH; exact Hy].
Qed.
Lemma subseq_length {A} (a b : list A) : subseq a b -> (length a <= length b)%nat.
Proof. intros H. induction H; cbn; lia. Qed.
Lemma subseq_NoDup {A} (a b : list A) : subseq a b -> NoDup b -> NoDup a.
Proof.
  intros H. induction H as [|x l' l H IH|x l' l H IH]; intros Hn.
  - exact Hn.
  - inversion Hn; subst. apply IH. assumption.
  - inversion Hn as [|? ? Hx Hr]; subst. constructor; [|apply IH; exact Hr].
    intros Hin. apply Hx. eapply subseq_incl; eassumption.
Qed.
Lemma subseq_app {A} (a a' b b' : list A) : subseq a a' -> subseq b b' -> subseq (a ++ b) (a' ++ b').
Proof.
  intros Ha Hb. induction Ha as [|x l' l H IH|x l' l H IH]; cbn.
  - exact Hb.
  - apply ss_skip. exact IH.
  - apply ss_keep. exact IH.
Qed.

(** first index of [c] in [l] ([length l] when absent) *)
Fixpoint idx (c : nat) (l : list nat) : nat :=
  match l with
  | [] => O
  | x :: r => if Nat.eqb x c then O else S (idx c r)
  end.
Lemma idx_le c l : (idx c l <= length l)%nat.
Proof. induction l as [|x r IH]; cbn; [lia|]. destruct (Nat.eqb x c); lia. Qed.
Lemma idx_in c l : In c l <-> (idx c l < length l)%nat.
Proof.
  induction l as [|x r IH]; cbn; [split; [contradiction|lia]|].
  destruct (Nat.eqb x c) eqn:Ex.
  - apply Nat.eqb_eq in Ex. split; [lia|auto].
  - apply Nat.eqb_neq in Ex. rewrite IH. split; [intros [H|H]; [contradiction|lia]|intros H; right; lia].
Qed.
Lemma idx_nth c l : In c l -> nth_error l (idx c l) = Some c.
Proof.
  induction l as [|x r IH]; cbn; [contradiction|]. destruct (Nat.eqb x c) eqn:Ex.
  - apply Nat.eqb_eq in Ex. subst x. reflexivity.
  - apply Nat.eqb_neq in Ex. intros [H|H]; [contradiction|]. cbn. apply IH. exact H.
Qed.
Lemma nth_idx c l i : NoDup l -> nth_error l i = Some c -> idx c l = i.
Proof.
  revert i. induction l as [|x r IH]; intros i Hn Hi; [destruct i; discriminate Hi|].
  inversion Hn as [|? ? Hx Hr]; subst. destruct i as [|i]; cbn in *.
  - injection Hi as ->. rewrite Nat.eqb_refl. reflexivity.
  - destruct (Nat.eqb x c) eqn:Ex.
    + apply Nat.eqb_eq in Ex. subst x. exfalso. apply Hx. eapply nth_error_In. exact Hi.
    + f_equal. apply IH; assumption.
Qed.
Lemma idx_app_l c a b : In c a -> idx c (a ++ b) = idx c a.
Proof.
  induction a as [|x r IH]; cbn; [contradiction|]. destruct (Nat.eqb x c) eqn:Ex; [reflexivity|].
  apply Nat.eqb_neq in Ex. intros [H|H]; [contradiction|]. f_equal. apply IH. exact H.
Qed.
Lemma idx_app_r c a b : ~ In c a -> idx c (a ++ b) = (length a + idx c b)%nat.
Proof.
  induction a as [|x r IH]; cbn; [reflexivity|]. intros Hn. destruct (Nat.eqb x c) eqn:Ex.
  - apply Nat.eqb_eq in Ex. exfalso. apply Hn. left. exact Ex.
  - f_equal. apply IH. intros H. apply Hn. right. exact H.
Qed.
(** in a subsequence of a duplicate-free list nothing moves to the right *)
Lemma subseq_idx c (a b : list nat) : subseq a b -> NoDup b -> In c a -> (idx c a <= idx c b)%nat.
Proof.
  intros H. induction H as [|x l' l H IH|x l' l H IH]; intros Hn Hin.
  - contradiction.
  - inversion Hn as [|? ? Hx Hr]; subst. cbn. destruct (Nat.eqb x c) eqn:Ex.
    + apply Nat.eqb_eq in Ex. subst x. exfalso. apply Hx. eapply subseq_incl; eassumption.
    + specialize (IH Hr Hin). lia.
  - inversion Hn as [|? ? Hx Hr]; subst. cbn. destruct (Nat.eqb x c) eqn:Ex; [lia|].
    apply Nat.eqb_neq in Ex. destruct Hin as [Hin|Hin]; [contradiction|]. specialize (IH Hr Hin). lia.
Qed.
Lemma idx_spec c l :
  (idx c l <= length l)%nat /\ (In c l <-> (idx c l < length l)%nat)
  /\ (In c l -> nth_error l (idx c l) = Some c)
  /\ (NoDup l -> forall i, nth_error l i = Some c -> idx c l = i).
Proof.
  split; [apply idx_le|]. split; [apply idx_in|]. split; [apply idx_nth|]. intros Hn i Hi. apply nth_idx; assumption.
Qed.
Lemma subseq_facts {A} (a b : list A) :
  subseq a b -> incl a b /\ (length a <= length b)%nat /\ (NoDup b -> NoDup a).
Proof. intros H. split; [apply subseq_incl; exact H|]. split; [apply subseq_length; exact H|apply subseq_NoDup; exact H]. Qed.

(* ------------------------------------------------------------------------------------------------ *)
(** * B. One call on one table entry: what it touches *)

Section Timers.
  Variable E : env.
  Notation P := (hdl_iface E).
  Notation esa := (Endpoint.esa E).
  Notation endpoint := (Endpoint.endpoint E).
  Notation table := (Endpoint.table E).
  Notation next_cid := (Endpoint.next_cid E).
  Notation ep_kops := (Endpoint.ep_kops E).
  Notation ep_now := (Endpoint.ep_now E).
  Notation enter := (Endpoint.enter E).
  Notation leave := (Endpoint.leave E).
  Notation replace := (Endpoint.replace E).
  Notation remove_cid := (Endpoint.remove_cid E).
  Notation do_call := (EndpointSad.do_call E).
  Notation teardown := (Endpoint.teardown E).
  Notation rt_loop := (Endpoint.rt_loop E).
  Notation sweep := (Endpoint.sweep E).
  Notation timers := (Endpoint.timers E).
  Notation timer_fn := (esa -> Z -> esa * option (dgram body)).

  (** the creation indices of the table, in table order *)
  Definition cids (ep : endpoint) : list nat := map fst (table ep).

  (** what [enter] ... [leave] does to an IkeSa when the call in between does nothing: the four environment fields
      of the handler state (clock, tape, kernel log, pushed rekey time) are reset - [enter] overwrites them before
      every call, so they carry no information between calls; everything else is untouched *)
  Definition settle (t : Z) (s : esa) : esa :=
    with_inner P s ((inner P s) <| now := t |> <| tape := [] |> <| kops := [] |> <| rek_push := None |>).
  (** the entry after one call of the timer function [f] made from the endpoint [ep] *)
  Definition call_result (f : timer_fn) (ep : endpoint) (s : esa) : esa :=
    snd (leave ep (fst (f (enter ep s) (ep_now ep)))).

  Lemma leave_enter ep (s : esa) : snd (leave ep (enter ep s)) = settle (ep_now ep) s.
  Proof. reflexivity. Qed.

  Lemma settle_fields t (s : esa) :
    co (inner P (settle t s)) = co (inner P s) /\ new_sa (inner P (settle t s)) = new_sa (inner P s)
    /\ state P (settle t s) = state P s /\ is_init P (settle t s) = is_init P s
    /\ my_spi P (settle t s) = my_spi P s /\ my_id P (settle t s) = my_id P s /\ peer_id P (settle t s) = peer_id P s
    /\ last_resp P (settle t s) = last_resp P s /\ req_data P (settle t s) = req_data P s
    /\ rt_at P (settle t s) = rt_at P s /\ rt_n P (settle t s) = rt_n P s /\ dpd_at P (settle t s) = dpd_at P s
    /\ rek_at P (settle t s) = rek_at P s /\ del_at P (settle t s) = del_at P s
    /\ dpd_cfg P (settle t s) = dpd_cfg P s /\ pending P (settle t s) = pending P s.
  Proof. repeat split; reflexivity. Qed.
  Lemma settle_settle t t' (s : esa) : settle t' (settle t s) = settle t' s.
  Proof. reflexivity. Qed.

  Lemma enter_fields ep (s : esa) :
    state P (enter ep s) = state P s /\ rt_at P (enter ep s) = rt_at P s /\ rt_n P (enter ep s) = rt_n P s
    /\ dpd_at P (enter ep s) = dpd_at P s /\ rek_at P (enter ep s) = rek_at P s /\ del_at P (enter ep s) = del_at P s
    /\ req_data P (enter ep s) = req_data P s.
  Proof. repeat split; reflexivity. Qed.

  Lemma do_call_facts ep c (r : esa * option (dgram body)) :
    table (do_call ep c r) = replace (table ep) c (snd (leave ep (fst r)))
    /\ next_cid (do_call ep c r) = next_cid ep /\ ep_now (do_call ep c r) = ep_now ep
    /\ ep_kops (do_call ep c r) = ep_kops ep ++ kops (inner P (fst r)).
  Proof.
    unfold EndpointSad.do_call. destruct (send_facts E (put E ep c (fst r)) (snd r)) as (S1 & S2 & S3 & S4 & _).
    destruct (put_facts E ep c (fst r)) as (P1 & P2 & P3 & P4 & _).
    rewrite S1, S2, S3, S4. auto.
  Qed.
  Lemma teardown_facts2 ep c (s : esa) :
    table (teardown ep c s) = remove_cid (table ep) c /\ next_cid (teardown ep c s) = next_cid ep
    /\ ep_now (teardown ep c s) = ep_now ep
    /\ ep_kops (teardown ep c s) = ep_kops ep ++ kops (snd (delete_child_sas (inner P (enter ep s)))).
  Proof.
    destruct (teardown_facts E ep c s) as (T1 & T2 & T3). split; [exact T2|]. split; [exact T3|]. split; [|exact T1].
    unfold Endpoint.teardown. destruct (delete_child_sas (inner P (enter ep s))) as [r i'].
    unfold Endpoint.leave. cbn. destruct (rek_push i'); reflexivity.
  Qed.

  (** ** frame: a call on the entry [c] and the other entries *)
  Lemma replace_nth_other (t : list (nat * esa)) c (s' : esa) : forall j c' (s : esa),
    nth_error t j = Some (c', s) -> c' <> c -> nth_error (replace t c s') j = Some (c', s).
  Proof.
    induction t as [|[c0 x] r IH]; intros j c' s Hj Hne; [destruct j; discriminate Hj|].
    cbn. destruct (Nat.eqb c0 c) eqn:Ec.
    - apply Nat.eqb_eq in Ec. subst c0. destruct j as [|j]; cbn in *; [|exact Hj].
      injection Hj as -> ->. contradiction.
    - destruct j as [|j]; cbn in *; [exact Hj|]. apply IH; assumption.
  Qed.
  Lemma replace_nth_self (t : list (nat * esa)) c (s' : esa) : forall j (s : esa),
    NoDup (map fst t) -> nth_error t j = Some (c, s) -> nth_error (replace t c s') j = Some (c, s').
  Proof.
    induction t as [|[c0 x] r IH]; intros j s Hn Hj; [destruct j; discriminate Hj|].
    cbn in Hn. inversion Hn as [|? ? Hx Hr]; subst. cbn. destruct (Nat.eqb c0 c) eqn:Ec.
    - apply Nat.eqb_eq in Ec. subst c0. destruct j as [|j]; cbn in *; [reflexivity|].
      exfalso. apply Hx. apply in_map_iff. exists (c, s). split; [reflexivity|]. eapply nth_error_In. exact Hj.
    - destruct j as [|j]; cbn in *.
      + injection Hj as -> ->. rewrite Nat.eqb_refl in Ec. discriminate Ec.
      + eapply IH; eassumption.
  Qed.
  Lemma replace_length (t : list (nat * esa)) c (s' : esa) : length (replace t c s') = length t.
  Proof. rewrite <- (map_length fst), replace_fst, map_length. reflexivity. Qed.
  Lemma replace_other_in (t : list (nat * esa)) c (s' : esa) c' (s : esa) :
    c' <> c -> (In (c', s) (replace t c s') <-> In (c', s) t).
  Proof.
    intros Hne. induction t as [|[c0 x] r IH]; cbn; [tauto|]. destruct (Nat.eqb c0 c) eqn:Ec.
    - apply Nat.eqb_eq in Ec. subst c0. cbn. split; intros [H|H]; auto; injection H as H1 H2; congruence.
    - cbn. rewrite IH. tauto.
  Qed.
  Lemma remove_other_in (t : list (nat * esa)) c c' (s : esa) :
    c' <> c -> (In (c', s) (remove_cid t c) <-> In (c', s) t).
  Proof.
    intros Hne. induction t as [|[c0 x] r IH]; cbn; [tauto|]. destruct (Nat.eqb c0 c) eqn:Ec.
    - apply Nat.eqb_eq in Ec. subst c0. split; [auto|]. intros [H|H]; [injection H as H1 H2; congruence|exact H].
    - cbn. rewrite IH. tauto.
  Qed.
  Lemma remove_cid_subseq (t : list (nat * esa)) c : subseq (remove_cid t c) t.
  Proof.
    induction t as [|[c0 x] r IH]; cbn; [constructor|]. destruct (Nat.eqb c0 c).
    - apply ss_skip. apply subseq_refl.
    - apply ss_keep. exact IH.
  Qed.
  Lemma subseq_map {A B} (f : A -> B) (a b : list A) : subseq a b -> subseq (map f a) (map f b).
  Proof. intros H. induction H; cbn; constructor; assumption. Qed.
  Lemma remove_cid_notin (t : list (nat * esa)) c : NoDup (map fst t) -> ~ In c (map fst (remove_cid t c)).
  Proof.
    induction t as [|[c0 x] r IH]; cbn; intros Hn; [tauto|]. inversion Hn as [|? ? Hx Hr]; subst.
    destruct (Nat.eqb c0 c) eqn:Ec.
    - apply Nat.eqb_eq in Ec. subst c0. exact Hx.
    - apply Nat.eqb_neq in Ec. cbn. intros [H|H]; [contradiction|]. apply (IH Hr H).
  Qed.

  (** every OTHER entry keeps its position and its value; the creation indices and their order stay *)
  Lemma call_frame ep c (r : esa * option (dgram body)) :
    cids (do_call ep c r) = cids ep
    /\ (forall j c' (s : esa), nth_error (table ep) j = Some (c', s) -> c' <> c ->
          nth_error (table (do_call ep c r)) j = Some (c', s))
    /\ (forall j (s : esa), NoDup (cids ep) -> nth_error (table ep) j = Some (c, s) ->
          nth_error (table (do_call ep c r)) j = Some (c, snd (leave ep (fst r)))).
  Proof.
    destruct (do_call_facts ep c r) as (T & _). unfold cids. rewrite T. split; [apply replace_fst|]. split.
    - intros j c' s Hj Hne. apply replace_nth_other; assumption.
    - intros j s Hn Hj. eapply replace_nth_self; eassumption.
  Qed.

  (** ** a timer that is not due: its own entry is untouched as well (up to the environment fields) *)
  Lemma rt_not_due ep (s : esa) :
    rt_states (state P s) = false \/ ep_now ep <= rt_at P s ->
    check_retransmission P (enter ep s) (ep_now ep) = (enter ep s, None)
    /\ call_result (check_retransmission P) ep s = settle (ep_now ep) s.
  Proof.
    intros H.
    assert (Hc : check_retransmission P (enter ep s) (ep_now ep) = (enter ep s, None)).
    { destruct H as [H|H]; [apply no_retransmission_when_not_waiting|apply no_retransmission_before_deadline]; exact H. }
    split; [exact Hc|]. unfold call_result. rewrite Hc. reflexivity.
  Qed.
  Lemma dpd_not_due ep (s : esa) :
    state P s <> ST_ESTABLISHED \/ ep_now ep <= dpd_at P s ->
    check_dpd P (enter ep s) (ep_now ep) = (enter ep s, None)
    /\ call_result (check_dpd P) ep s = settle (ep_now ep) s.
  Proof.
    intros H. assert (Hc : check_dpd P (enter ep s) (ep_now ep) = (enter ep s, None)) by (apply dpd_silent; exact H).
    split; [exact Hc|]. unfold call_result. rewrite Hc. reflexivity.
  Qed.
  Lemma lifetime_not_due ep (s : esa) :
    state P s <> ST_ESTABLISHED \/ (ep_now ep <= del_at P s /\ ep_now ep <= rek_at P s) ->
    check_lifetime P (enter ep s) (ep_now ep) = (enter ep s, None)
    /\ call_result (check_lifetime P) ep s = settle (ep_now ep) s.
  Proof.
    intros H.
    assert (Hc : check_lifetime P (enter ep s) (ep_now ep) = (enter ep s, None)).
    { destruct H as [H|[H1 H2]]; [apply lifetime_silent; exact H|].
      destruct (Z.eq_dec (state P s) ST_ESTABLISHED) as [He|He]; [|apply lifetime_silent; exact He].
      destruct (lifetime_fires P (enter ep s) (ep_now ep) He) as (_ & _ & H3). apply H3; assumption. }
    split; [exact Hc|]. unfold call_result. rewrite Hc. reflexivity.
  Qed.

  (** ** the retransmission check does not look at the environment: on a table entry it is the shell function *)
  Lemma rt_enter ep (s : esa) t :
    check_retransmission P (enter ep s) t
    = (enter ep (fst (check_retransmission P s t)), snd (check_retransmission P s t)).
  Proof.
    unfold check_retransmission. change (state P (enter ep s)) with (state P s).
    change (rt_at P (enter ep s)) with (rt_at P s). change (rt_n P (enter ep s)) with (rt_n P s).
    destruct (rt_states (state P s)); [|reflexivity]. destruct (rt_due (rt_at P s) t); [|reflexivity].
    destruct (rt_giveup (rt_n P s)); reflexivity.
  Qed.
  Lemma rt_call_result ep (s : esa) :
    call_result (check_retransmission P) ep s = settle (ep_now ep) (fst (check_retransmission P s (ep_now ep))).
  Proof. unfold call_result. rewrite rt_enter. reflexivity. Qed.

  (** the visited entry is to be removed: the shell has marked it DELETED (or it was DELETED before) *)
  Definition rt_gone (t : Z) (s : esa) : bool := dispatch_remove (state P (fst (check_retransmission P s t))).
  Lemma rt_gone_result ep (s : esa) :
    dispatch_remove (state P (call_result (check_retransmission P) ep s)) = rt_gone (ep_now ep) s.
  Proof. rewrite rt_call_result. reflexivity. Qed.

  Lemma hdl_istate_set : forall (i : Shell.I P) z, Shell.istate P (Shell.set_state P i z) = z.
  Proof. reflexivity. Qed.

  Lemma rt_gone_iff t (s : esa) :
    rt_gone t s = true <->
    state P s = ST_DELETED \/ (rt_states (state P s) = true /\ rt_at P s < t /\ rt_n P s >= MAX_RETRANSMISSIONS).
  Proof.
    unfold rt_gone, check_retransmission, dispatch_remove, rt_due, rt_giveup.
    destruct (rt_states (state P s)) eqn:Ew.
    - assert (Hnd : state P s <> ST_DELETED) by (intros Hd; rewrite Hd in Ew; discriminate Ew).
      destruct (Z.ltb (rt_at P s) t) eqn:Ed.
      + destruct (Z.geb (rt_n P s) MAX_RETRANSMISSIONS) eqn:Eg; cbn [fst].
        * change (state P (with_state P s ST_DELETED)) with ST_DELETED. split; [intros _; right|reflexivity].
          split; [reflexivity|]. lia.
        * change (state P (mk_sa P (inner P s) (is_init P s) (my_spi P s) (my_id P s) (peer_id P s) (last_resp P s)
                                 (req_data P s) (rt_next_at (rt_at P s) (rt_n P s + 1)) (rt_n P s + 1) (dpd_at P s)
                                 (rek_at P s) (del_at P s) (dpd_cfg P s) (pending P s))) with (state P s).
          split; [intros H; left; lia|intros [H|(_ & _ & H)]; lia].
      + cbn [fst]. split; [intros H; left; lia|intros [H|(_ & H & _)]; lia].
    - cbn [fst]. split; [intros H; left; lia|intros [H|(H & _)]; [lia|discriminate H]].
  Qed.

  (** ** one visit of the retransmission loop *)
  Definition rt_visit (ep : endpoint) (cid : nat) (s : esa) : endpoint :=
    let r := check_retransmission P (enter ep s) (ep_now ep) in
    let ep2 := do_call ep cid r in
    let s2 := call_result (check_retransmission P) ep s in
    if rt_gone (ep_now ep) s then teardown ep2 cid s2 else ep2.

  Lemma rt_loop_unfold fuel i ep :
    rt_loop (S fuel) i ep =
    match nth_error (table ep) i with
    | None => ep
    | Some (cid, s) => rt_loop fuel (S i) (rt_visit ep cid s)
    end.
  Proof.
    destruct (nth_error (table ep) i) as [[cid s]|] eqn:Hn; [|cbn [Endpoint.rt_loop]; rewrite Hn; reflexivity].
    rewrite (rt_loop_step E fuel i ep cid s Hn). cbv zeta. unfold rt_visit. cbv zeta.
    change (snd (leave ep (fst (check_retransmission P (enter ep s) (ep_now ep)))))
      with (call_result (check_retransmission P) ep s).
    rewrite rt_gone_result. destruct (rt_gone (ep_now ep) s); reflexivity.
  Qed.

  Lemma rt_visit_facts ep cid (s : esa) :
    table (rt_visit ep cid s)
    = (if rt_gone (ep_now ep) s then remove_cid (table ep) cid
       else replace (table ep) cid (settle (ep_now ep) (fst (check_retransmission P s (ep_now ep)))))
    /\ next_cid (rt_visit ep cid s) = next_cid ep /\ ep_now (rt_visit ep cid s) = ep_now ep
    /\ ep_kops (rt_visit ep cid s)
       = ep_kops ep ++ (if rt_gone (ep_now ep) s
                        then kops (snd (delete_child_sas
                               (inner P (enter (do_call ep cid (check_retransmission P (enter ep s) (ep_now ep)))
                                               (call_result (check_retransmission P) ep s)))))
                        else []).
  Proof.
    unfold rt_visit. cbv zeta.
    destruct (do_call_facts ep cid (check_retransmission P (enter ep s) (ep_now ep))) as (D1 & D2 & D3 & D4).
    match type of D4 with _ = _ ++ ?k => assert (Hk : k = []) by (rewrite rt_enter; reflexivity); rewrite Hk in D4 end.
    rewrite app_nil_r in D4.
    change (snd (leave ep (fst (check_retransmission P (enter ep s) (ep_now ep)))))
      with (call_result (check_retransmission P) ep s) in D1.
    destruct (rt_gone (ep_now ep) s).
    - destruct (teardown_facts2 (do_call ep cid (check_retransmission P (enter ep s) (ep_now ep))) cid
                                (call_result (check_retransmission P) ep s)) as (T1 & T2 & T3 & T4).
      rewrite T1, T2, T3, T4, D1, D2, D3, D4. rewrite remove_replace. auto.
    - rewrite D1, D2, D3, D4, app_nil_r, rt_call_result. auto.
  Qed.

  (* ---------------------------------------------------------------------------------------------- *)
  (** * C. The retransmission loop: which positions it visits *)

  (** the visits of [rt_loop fuel i ep], in order: the position (in the table of that moment), the creation index,
      the endpoint and the entry just before the visit *)
  Definition visit := (nat * nat * endpoint * esa)%type.
  Definition v_pos (v : visit) : nat := fst (fst (fst v)).
  Definition v_cid (v : visit) : nat := snd (fst (fst v)).
  Definition v_ep (v : visit) : endpoint := snd (fst v).
  Definition v_sa (v : visit) : esa := snd v.
  Fixpoint rt_log (fuel i : nat) (ep : endpoint) : list visit :=
    match fuel with
    | O => []
    | S f => match nth_error (table ep) i with
             | None => []
             | Some (cid, s) => (i, cid, ep, s) :: rt_log f (S i) (rt_visit ep cid s)
             end
    end.

  (** the loop as a relation: at index [i] of the CURRENT table; after the visit the index is [i+1] in the NEW table *)
  Inductive rt_run : nat -> endpoint -> list visit -> endpoint -> Prop :=
  | rr_end i ep : nth_error (table ep) i = None -> rt_run i ep [] ep
  | rr_visit i ep cid s log ep' :
      nth_error (table ep) i = Some (cid, s) -> rt_run (S i) (rt_visit ep cid s) log ep' ->
      rt_run i ep ((i, cid, ep, s) :: log) ep'.

  Lemma rt_visit_length ep cid (s : esa) : (length (table (rt_visit ep cid s)) <= length (table ep))%nat.
  Proof.
    destruct (rt_visit_facts ep cid s) as (T & _). rewrite T. destruct (rt_gone (ep_now ep) s).
    - apply subseq_length. apply remove_cid_subseq.
    - rewrite replace_length. lia.
  Qed.

  (** the fuel [S (length (table ep))] that [timers] gives is never what stops the loop *)
  Lemma rt_loop_run fuel : forall i ep,
    (length (table ep) <= fuel + i)%nat -> rt_run i ep (rt_log fuel i ep) (rt_loop fuel i ep).
  Proof.
    induction fuel as [|f IH]; intros i ep Hf.
    - cbn. apply rr_end. apply nth_error_None. lia.
    - rewrite rt_loop_unfold. cbn [rt_log]. destruct (nth_error (table ep) i) as [[cid s]|] eqn:Hn.
      + apply rr_visit; [exact Hn|]. apply IH. pose proof (rt_visit_length ep cid s). lia.
      + apply rr_end. exact Hn.
  Qed.

  Lemma rt_run_invariants i ep log ep' :
    rt_run i ep log ep' ->
    ep_now ep' = ep_now ep /\ next_cid ep' = next_cid ep /\ subseq (cids ep') (cids ep)
    /\ Forall (fun v => ep_now (v_ep v) = ep_now ep) log.
  Proof.
    intros H. induction H as [i ep Hn|i ep cid s log ep' Hn H IH].
    - split; [reflexivity|]. split; [reflexivity|]. split; [apply subseq_refl|constructor].
    - destruct IH as (I1 & I2 & I3 & I4). destruct (rt_visit_facts ep cid s) as (T & N & W & _).
      split; [congruence|]. split; [congruence|]. split.
      + eapply subseq_trans; [exact I3|]. unfold cids. rewrite T. destruct (rt_gone (ep_now ep) s).
        * apply subseq_map. apply remove_cid_subseq.
        * rewrite replace_fst. apply subseq_refl.
      + constructor; [reflexivity|]. eapply Forall_impl; [|exact I4]. cbv beta. intros v Hv. congruence.
  Qed.

  (** ** closed form (unique creation indices): flags, visited entries and resulting table as functions of the
      table at the start of the sweep.  [skip]: the entry at the head is passed over (its predecessor was removed) *)
  Fixpoint rt_pat (t : Z) (skip : bool) (l : list (nat * esa)) : list bool :=
    match l with
    | [] => []
    | (c, s) :: r => if skip then false :: rt_pat t false r else true :: rt_pat t (rt_gone t s) r
    end.
  Fixpoint rt_vis (t : Z) (skip : bool) (l : list (nat * esa)) : list (nat * esa) :=
    match l with
    | [] => []
    | (c, s) :: r => if skip then rt_vis t false r else (c, s) :: rt_vis t (rt_gone t s) r
    end.
  Fixpoint rt_tab (t : Z) (skip : bool) (l : list (nat * esa)) : list (nat * esa) :=
    match l with
    | [] => []
    | (c, s) :: r =>
        if skip then (c, s) :: rt_tab t false r
        else if rt_gone t s then rt_tab t true r
        else (c, settle t (fst (check_retransmission P s t))) :: rt_tab t false r
    end.

  Lemma rt_closed (rest : list (nat * esa)) : forall (skip : bool) (pre : list (nat * esa)) fuel ep,
    table ep = pre ++ rest -> NoDup (map fst (pre ++ rest)) -> (length rest <= fuel)%nat ->
    let i := (length pre + (if skip then 1 else 0))%nat in
    table (rt_loop fuel i ep) = pre ++ rt_tab (ep_now ep) skip rest
    /\ map (fun v => (v_cid v, v_sa v)) (rt_log fuel i ep) = rt_vis (ep_now ep) skip rest.
  Proof.
    induction rest as [|[c s] r IH]; intros skip pre fuel ep Ht Hn Hf; cbv zeta.
    - assert (Hnone : nth_error (table ep) (length pre + (if skip then 1 else 0)) = None).
      { apply nth_error_None. rewrite Ht, app_nil_r. lia. }
      destruct fuel as [|f]; [split; [exact Ht|reflexivity]|].
      rewrite rt_loop_unfold. cbn [rt_log]. rewrite Hnone. split; [exact Ht|reflexivity].
    - destruct skip.
      + (* the head is passed over *)
        assert (Hi : (length pre + 1 = length (pre ++ [(c, s)]) + 0)%nat) by (rewrite app_length; cbn; lia).
        rewrite Hi. cbn [rt_tab rt_vis].
        destruct (IH false (pre ++ [(c, s)]) fuel ep) as [I1 I2].
        * rewrite <- app_assoc. exact Ht.
        * rewrite <- app_assoc. exact Hn.
        * cbn in Hf. lia.
        * cbv zeta in I1, I2. rewrite I1, I2, <- app_assoc. split; reflexivity.
      + (* the head is visited *)
        destruct fuel as [|f]; [cbn in Hf; lia|].
        assert (Hnth : nth_error (table ep) (length pre + 0) = Some (c, s)).
        { rewrite Ht, Nat.add_0_r, nth_error_app2, Nat.sub_diag by lia. reflexivity. }
        rewrite rt_loop_unfold. cbn [rt_log rt_tab rt_vis]. rewrite Hnth.
        assert (Hc : ~ In c (map fst pre)).
        { rewrite map_app in Hn. cbn in Hn. apply NoDup_remove_2 in Hn. intros H. apply Hn. apply in_or_app. left. exact H. }
        destruct (rt_visit_facts ep c s) as (T & _ & W & _). rewrite Ht in T.
        destruct (rt_gone (ep_now ep) s) eqn:Eg.
        * rewrite (remove_split E pre r c s Hc) in T.
          destruct (IH true pre f (rt_visit ep c s) T) as [I1 I2].
          { rewrite map_app in *. cbn in Hn. apply NoDup_remove_1 in Hn. exact Hn. }
          { cbn in Hf. lia. }
          cbv zeta in I1, I2. rewrite W in I1, I2.
          replace (S (length pre + 0)) with (length pre + 1)%nat by lia. rewrite I1. cbn [map v_cid v_sa fst snd].
          rewrite I2. split; reflexivity.
        * rewrite (replace_split E pre r c s _ Hc) in T.
          set (s' := settle (ep_now ep) (fst (check_retransmission P s (ep_now ep)))) in *.
          destruct (IH false (pre ++ [(c, s')]) f (rt_visit ep c s)) as [I1 I2].
          { rewrite <- app_assoc. exact T. }
          { rewrite <- app_assoc. rewrite map_app in *. exact Hn. }
          { cbn in Hf. lia. }
          cbv zeta in I1, I2. rewrite W in I1, I2.
          replace (S (length pre + 0)) with (length (pre ++ [(c, s')]) + 0)%nat by (rewrite app_length; cbn; lia).
          rewrite I1. cbn [map v_cid v_sa fst snd]. rewrite I2, <- app_assoc. split; reflexivity.
  Qed.

  Lemma rt_pat_length t l : forall skip, length (rt_pat t skip l) = length l.
  Proof. induction l as [|[c s] r IH]; intros skip; cbn; [reflexivity|]. destruct skip; cbn; rewrite IH; reflexivity. Qed.

  (** the pattern: the first position is visited; position p+1 is passed over exactly when position p was visited
      and its entry removed *)
  Lemma rt_pat_head t (l : list (nat * esa)) skip : l <> [] -> nth_error (rt_pat t skip l) 0 = Some (negb skip).
  Proof. destruct l as [|[c s] r]; [intros H; contradiction|]. intros _. destruct skip; reflexivity. Qed.
  Lemma rt_pat_succ t (l : list (nat * esa)) : forall skip p c (s : esa) a b,
    nth_error l p = Some (c, s) -> nth_error (rt_pat t skip l) p = Some a ->
    nth_error (rt_pat t skip l) (S p) = Some b -> b = negb (a && rt_gone t s).
  Proof.
    induction l as [|[c0 s0] r IH]; intros skip p c s a b Hl Ha Hb; [destruct p; discriminate Hl|].
    destruct p as [|p].
    - cbn in Hl. injection Hl as -> ->.
      assert (Hr : r <> []) by (intros ->; destruct skip; discriminate Hb).
      destruct skip.
      + change (nth_error (rt_pat t false r) 0 = Some b) in Hb. cbn in Ha. injection Ha as <-.
        rewrite (rt_pat_head t r _ Hr) in Hb. injection Hb as <-. reflexivity.
      + change (nth_error (rt_pat t (rt_gone t s) r) 0 = Some b) in Hb. cbn in Ha. injection Ha as <-.
        rewrite (rt_pat_head t r _ Hr) in Hb. injection Hb as <-. reflexivity.
    - cbn in Hl. destruct skip.
      + change (nth_error (rt_pat t false r) p = Some a) in Ha.
        change (nth_error (rt_pat t false r) (S p) = Some b) in Hb. eapply IH; eassumption.
      + change (nth_error (rt_pat t (rt_gone t s0) r) p = Some a) in Ha.
        change (nth_error (rt_pat t (rt_gone t s0) r) (S p) = Some b) in Hb. eapply IH; eassumption.
  Qed.

  Lemma rt_vis_in t (l : list (nat * esa)) : forall skip c (s : esa),
    In (c, s) (rt_vis t skip l) <-> exists p, nth_error l p = Some (c, s) /\ nth_error (rt_pat t skip l) p = Some true.
  Proof.
    induction l as [|[c0 s0] r IH]; intros skip c s.
    - cbn. split; [contradiction|]. intros (p & Hp & _). destruct p; discriminate Hp.
    - destruct skip; cbn [rt_vis rt_pat].
      + rewrite IH. split.
        * intros (p & H1 & H2). exists (S p). auto.
        * intros (p & H1 & H2). destruct p as [|p]; [discriminate H2|]. exists p. auto.
      + cbn [In]. rewrite IH. split.
        * intros [H|(p & H1 & H2)]; [exists O; cbn; rewrite H; auto|exists (S p); auto].
        * intros (p & H1 & H2). destruct p as [|p]; [left; cbn in H1; congruence|right; exists p; auto].
  Qed.

  Lemma nth_error_fst_unique (l : list (nat * esa)) p q c (s s' : esa) :
    NoDup (map fst l) -> nth_error l p = Some (c, s) -> nth_error l q = Some (c, s') -> p = q /\ s = s'.
  Proof.
    intros Hn Hp Hq.
    assert (H1 : nth_error (map fst l) p = Some c) by (rewrite nth_error_map, Hp; reflexivity).
    assert (H2 : nth_error (map fst l) q = Some c) by (rewrite nth_error_map, Hq; reflexivity).
    assert (Hpq : p = q) by (rewrite <- (nth_idx c _ p Hn H1); apply (nth_idx c _ q Hn H2)).
    subst q. split; [reflexivity|congruence].
  Qed.

  (** an entry is passed over ONLY IF the entry just before it was visited and removed in this sweep *)
  Lemma rt_skipped_only_after_removed t (l : list (nat * esa)) p c (s : esa) :
    nth_error l p = Some (c, s) -> ~ In (c, s) (rt_vis t false l) ->
    exists p' c' s', p = S p' /\ nth_error l p' = Some (c', s') /\ In (c', s') (rt_vis t false l) /\ rt_gone t s' = true.
  Proof.
    intros Hp Hv.
    assert (Hlen : (p < length (rt_pat t false l))%nat) by (rewrite rt_pat_length; apply nth_error_Some; congruence).
    destruct (nth_error (rt_pat t false l) p) as [a|] eqn:Ea; [|apply nth_error_None in Ea; lia].
    destruct a; [exfalso; apply Hv; apply rt_vis_in; exists p; auto|].
    destruct p as [|p'].
    - rewrite rt_pat_head in Ea by (intros ->; discriminate Hp). discriminate Ea.
    - destruct (nth_error l p') as [[c' s']|] eqn:Hp'; [|apply nth_error_None in Hp'; assert (S p' < length l)%nat by (apply nth_error_Some; congruence); lia].
      destruct (nth_error (rt_pat t false l) p') as [a'|] eqn:Ea'; [|apply nth_error_None in Ea'; lia].
      pose proof (rt_pat_succ t l false p' c' s' a' false Hp' Ea' Ea) as Hs.
      symmetry in Hs. apply negb_false_iff in Hs. apply andb_true_iff in Hs. destruct Hs as [-> Hg].
      exists p', c', s'. split; [reflexivity|]. split; [exact Hp'|]. split; [apply rt_vis_in; exists p'; auto|exact Hg].
  Qed.
  (** ... and IF: the successor of a visited entry that was removed is passed over *)
  Lemma rt_removed_skips_next t (l : list (nat * esa)) p c (s : esa) c2 (s2 : esa) :
    NoDup (map fst l) ->
    nth_error l p = Some (c, s) -> In (c, s) (rt_vis t false l) -> rt_gone t s = true ->
    nth_error l (S p) = Some (c2, s2) -> ~ In c2 (map fst (rt_vis t false l)).
  Proof.
    intros Hn Hp Hv Hg Hp2 Hin. apply in_map_iff in Hin. destruct Hin as ([c2' s2'] & Hc & Hin). cbn in Hc. subst c2'.
    apply rt_vis_in in Hin. destruct Hin as (q & Hq & Hqa). apply rt_vis_in in Hv. destruct Hv as (q0 & Hq0 & Hq0a).
    destruct (nth_error_fst_unique l _ _ _ _ _ Hn Hq Hp2) as [-> _].
    destruct (nth_error_fst_unique l _ _ _ _ _ Hn Hq0 Hp) as [-> _].
    pose proof (rt_pat_succ t l false p c s true true Hp Hq0a Hqa) as Hs. rewrite Hg in Hs. discriminate Hs.
  Qed.
  (** the successor of an entry that stays in the table is always visited *)
  Lemma rt_after_kept_is_visited t (l : list (nat * esa)) p c (s : esa) c2 (s2 : esa) :
    nth_error l p = Some (c, s) -> rt_gone t s = false -> nth_error l (S p) = Some (c2, s2) ->
    In (c2, s2) (rt_vis t false l).
  Proof.
    intros Hp Hg Hp2. apply rt_vis_in. exists (S p). split; [exact Hp2|].
    assert (Hl : (S p < length (rt_pat t false l))%nat) by (rewrite rt_pat_length; apply nth_error_Some; congruence).
    destruct (nth_error (rt_pat t false l) (S p)) as [b|] eqn:Eb; [|apply nth_error_None in Eb; lia].
    destruct (nth_error (rt_pat t false l) p) as [a|] eqn:Ea; [|apply nth_error_None in Ea; lia].
    rewrite (rt_pat_succ t l false p c s a b Hp Ea Eb), Hg, andb_false_r. reflexivity.
  Qed.

  (** what the sweep leaves in the table *)
  Lemma rt_tab_fst t (l : list (nat * esa)) : forall skip, subseq (map fst (rt_tab t skip l)) (map fst l).
  Proof.
    induction l as [|[c s] r IH]; intros skip; cbn; [constructor|]. destruct skip; cbn.
    - apply ss_keep. apply IH.
    - destruct (rt_gone t s); cbn; [apply ss_skip|apply ss_keep]; apply IH.
  Qed.
  Lemma rt_tab_spec t (l : list (nat * esa)) : forall skip p c (s : esa) a,
    nth_error l p = Some (c, s) -> nth_error (rt_pat t skip l) p = Some a ->
    (a = false -> In (c, s) (rt_tab t skip l))
    /\ (a = true -> rt_gone t s = false -> In (c, settle t (fst (check_retransmission P s t))) (rt_tab t skip l))
    /\ (a = true -> rt_gone t s = true -> NoDup (map fst l) -> ~ In c (map fst (rt_tab t skip l))).
  Proof.
    induction l as [|[c0 s0] r IH]; intros skip p c s a Hl Ha; [destruct p; discriminate Hl|].
    destruct p as [|p].
    - cbn in Hl. injection Hl as -> ->. destruct skip; cbn in Ha; injection Ha as <-; cbn [rt_tab].
      + split; [intros _; left; reflexivity|split; intros H; discriminate H].
      + split; [intros H; discriminate H|]. split.
        * intros _ Hg. rewrite Hg. left. reflexivity.
        * intros _ Hg Hn. rewrite Hg. cbn in Hn. inversion Hn as [|? ? Hx Hr]; subst.
          intros Hin. apply Hx. eapply subseq_incl; [apply rt_tab_fst|exact Hin].
    - cbn in Hl.
      assert (Hne : NoDup (map fst ((c0, s0) :: r)) -> c <> c0).
      { intros Hn. cbn in Hn. inversion Hn as [|? ? Hx Hr]; subst. intros ->. apply Hx.
        apply in_map_iff. exists (c0, s). split; [reflexivity|]. eapply nth_error_In. exact Hl. }
      assert (Htl : NoDup (map fst ((c0, s0) :: r)) -> NoDup (map fst r)).
      { intros Hn. cbn in Hn. apply NoDup_cons_iff in Hn. apply Hn. }
      destruct skip; cbn in Ha; cbn [rt_tab].
      + destruct (IH false p c s a Hl Ha) as (I1 & I2 & I3).
        split; [intros H; right; auto|]. split; [intros H1 H2; right; auto|].
        intros H1 H2 Hn. cbn. intros [H|H]; [apply (Hne Hn); auto|]. apply (I3 H1 H2 (Htl Hn)). exact H.
      + destruct (rt_gone t s0).
        * destruct (IH true p c s a Hl Ha) as (I1 & I2 & I3). split; [exact I1|]. split; [exact I2|].
          intros H1 H2 Hn. apply (I3 H1 H2 (Htl Hn)).
        * destruct (IH false p c s a Hl Ha) as (I1 & I2 & I3).
          split; [intros H; right; auto|]. split; [intros H1 H2; right; auto|].
          intros H1 H2 Hn. cbn. intros [H|H]; [apply (Hne Hn); auto|]. apply (I3 H1 H2 (Htl Hn)). exact H.
  Qed.

  (** an entry that was passed over has moved towards the head of the table *)
  Lemma rt_tab_idx t (l : list (nat * esa)) : forall skip p c (s : esa),
    NoDup (map fst l) -> nth_error l p = Some (c, s) -> nth_error (rt_pat t skip l) p = Some false ->
    if skip then (idx c (map fst (rt_tab t skip l)) <= idx c (map fst l))%nat
    else (idx c (map fst (rt_tab t skip l)) < idx c (map fst l))%nat.
  Proof.
    induction l as [|[c0 s0] r IH]; intros skip p c s Hn Hl Ha; [destruct p; discriminate Hl|].
    cbn in Hn. inversion Hn as [|? ? Hx Hr]; subst.
    destruct p as [|p].
    - cbn in Hl. injection Hl as -> ->. destruct skip; cbn in Ha; [|discriminate Ha].
      cbn. rewrite Nat.eqb_refl. lia.
    - cbn in Hl.
      assert (Hne : Nat.eqb c0 c = false).
      { apply Nat.eqb_neq. intros ->. apply Hx. apply in_map_iff. exists (c, s). split; [reflexivity|].
        eapply nth_error_In. exact Hl. }
      destruct skip; cbn in Ha; cbn [rt_tab map fst idx]; rewrite Hne.
      + pose proof (IH false p c s Hr Hl Ha) as H. cbv iota in H. lia.
      + destruct (rt_gone t s0).
        * pose proof (IH true p c s Hr Hl Ha) as H. cbv iota in H. lia.
        * cbn [map fst idx]. rewrite Hne. pose proof (IH false p c s Hr Hl Ha) as H. cbv iota in H. lia.
  Qed.

  (* ---------------------------------------------------------------------------------------------- *)
  (** * D. The DPD and lifetime sweeps: a snapshot of the creation indices, nothing is passed over *)

  (** the calls of [sweep f cs ep], in order: creation index, the endpoint and the entry just before the call *)
  Definition scall := (nat * endpoint * esa)%type.
  Definition c_cid (v : scall) : nat := fst (fst v).
  Definition c_ep (v : scall) : endpoint := snd (fst v).
  Definition c_sa (v : scall) : esa := snd v.
  Fixpoint sweep_log (f : timer_fn) (cs : list nat) (ep : endpoint) : list scall :=
    match cs with
    | [] => []
    | cid :: r =>
        match find (fun x => Nat.eqb (fst x) cid) (table ep) with
        | None => sweep_log f r ep
        | Some (_, s) => (cid, ep, s) :: sweep_log f r (do_call ep cid (f (enter ep s) (ep_now ep)))
        end
    end.

  Lemma sweep_unfold (f : timer_fn) cid r ep :
    sweep f (cid :: r) ep =
    match find (fun x => Nat.eqb (fst x) cid) (table ep) with
    | None => sweep f r ep
    | Some (_, s) => sweep f r (do_call ep cid (f (enter ep s) (ep_now ep)))
    end.
  Proof.
    destruct (find (fun x => Nat.eqb (fst x) cid) (table ep)) as [[c' s]|] eqn:Ef.
    - apply (sweep_step E f cid r ep c' s Ef).
    - cbn [Endpoint.sweep]. rewrite Ef. reflexivity.
  Qed.

  Lemma sweep_invariants (f : timer_fn) cs : forall ep,
    cids (sweep f cs ep) = cids ep /\ ep_now (sweep f cs ep) = ep_now ep /\ next_cid (sweep f cs ep) = next_cid ep
    /\ Forall (fun v => ep_now (c_ep v) = ep_now ep /\ cids (c_ep v) = cids ep /\ In (c_cid v, c_sa v) (table (c_ep v)))
              (sweep_log f cs ep).
  Proof.
    induction cs as [|cid r IH]; intros ep; [repeat split; constructor|].
    rewrite sweep_unfold. cbn [sweep_log].
    destruct (find (fun x => Nat.eqb (fst x) cid) (table ep)) as [[c' s]|] eqn:Ef; [|apply IH].
    destruct (IH (do_call ep cid (f (enter ep s) (ep_now ep)))) as (I1 & I2 & I3 & I4).
    destruct (do_call_facts ep cid (f (enter ep s) (ep_now ep))) as (_ & D2 & D3 & _).
    destruct (call_frame ep cid (f (enter ep s) (ep_now ep))) as (F1 & _).
    split; [congruence|]. split; [congruence|]. split; [congruence|].
    constructor.
    - cbn. split; [reflexivity|]. split; [reflexivity|]. apply find_some in Ef. destruct Ef as [Hi He].
      cbn in He. apply Nat.eqb_eq in He. subst c'. exact Hi.
    - eapply Forall_impl; [|exact I4]. cbv beta. intros v (V1 & V2 & V3). split; [congruence|]. split; [congruence|exact V3].
  Qed.

  Lemma find_cid_some (t : list (nat * esa)) c : In c (map fst t) -> find (fun x => Nat.eqb (fst x) c) t <> None.
  Proof.
    induction t as [|[c0 x] r IH]; cbn; [contradiction|]. destruct (Nat.eqb c0 c) eqn:Ec; [discriminate|].
    apply Nat.eqb_neq in Ec. intros [H|H]; [contradiction|]. apply IH. exact H.
  Qed.
  Lemma find_cid_split (pre r : list (nat * esa)) c (s : esa) :
    ~ In c (map fst pre) -> find (fun x => Nat.eqb (fst x) c) (pre ++ (c, s) :: r) = Some (c, s).
  Proof.
    induction pre as [|[c0 x] p IH]; cbn; intros Hn; [rewrite Nat.eqb_refl; reflexivity|].
    destruct (Nat.eqb c0 c) eqn:Ec; [apply Nat.eqb_eq in Ec; exfalso; apply Hn; left; exact Ec|].
    apply IH. intros H. apply Hn. right. exact H.
  Qed.

  (** every creation index of the snapshot that is in the table gets exactly one call, in snapshot order *)
  Lemma sweep_log_all (f : timer_fn) cs : forall ep, incl cs (cids ep) -> map c_cid (sweep_log f cs ep) = cs.
  Proof.
    induction cs as [|cid r IH]; intros ep Hi; [reflexivity|]. cbn [sweep_log].
    assert (Hc : In cid (cids ep)) by (apply Hi; left; reflexivity).
    destruct (find (fun x => Nat.eqb (fst x) cid) (table ep)) as [[c' s]|] eqn:Ef; [|exfalso; exact (find_cid_some _ _ Hc Ef)].
    cbn [map c_cid fst]. f_equal. apply IH.
    destruct (call_frame ep cid (f (enter ep s) (ep_now ep))) as (F1 & _). rewrite F1.
    intros x Hx. apply Hi. right. exact Hx.
  Qed.

  (** the result of one call of [f] at time [t] on the entry [x] is the entry [y] *)
  Definition swept (f : timer_fn) (t : Z) (x y : nat * esa) : Prop :=
    fst y = fst x /\ exists ep', ep_now ep' = t /\ snd y = call_result f ep' (snd x).

  (** closed form (unique creation indices): entry by entry, ONE call of [f] on the entry as it was when the sweep
      began - calls on other entries do not touch it, before or after *)
  Lemma sweep_closed (f : timer_fn) (rest : list (nat * esa)) : forall (pre : list (nat * esa)) ep,
    table ep = pre ++ rest -> NoDup (map fst (pre ++ rest)) ->
    exists rest', table (sweep f (map fst rest) ep) = pre ++ rest' /\ Forall2 (swept f (ep_now ep)) rest rest'
                  /\ map (fun v => (c_cid v, c_sa v)) (sweep_log f (map fst rest) ep) = rest.
  Proof.
    induction rest as [|[c s] r IH]; intros pre ep Ht Hn.
    - exists []. split; [exact Ht|]. split; [constructor|reflexivity].
    - cbn [map fst]. rewrite sweep_unfold. cbn [sweep_log].
      assert (Hc : ~ In c (map fst pre)).
      { rewrite map_app in Hn. cbn in Hn. apply NoDup_remove_2 in Hn. intros H. apply Hn. apply in_or_app. left. exact H. }
      rewrite Ht, (find_cid_split pre r c s Hc).
      destruct (do_call_facts ep c (f (enter ep s) (ep_now ep))) as (D1 & _ & D3 & _).
      rewrite Ht, (replace_split E pre r c s _ Hc) in D1.
      change (snd (leave ep (fst (f (enter ep s) (ep_now ep))))) with (call_result f ep s) in D1.
      destruct (IH (pre ++ [(c, call_result f ep s)]) (do_call ep c (f (enter ep s) (ep_now ep)))) as (r' & R1 & R2 & R3).
      { rewrite <- app_assoc. exact D1. }
      { rewrite <- app_assoc. rewrite map_app in *. exact Hn. }
      exists ((c, call_result f ep s) :: r'). split; [rewrite R1, <- app_assoc; reflexivity|]. split.
      + constructor; [split; [reflexivity|]; exists ep; split; reflexivity|]. rewrite D3 in R2. exact R2.
      + cbn [map c_cid c_sa fst snd]. rewrite R3. reflexivity.
  Qed.

  Theorem sweep_visits_all (f : timer_fn) ep :
    map c_cid (sweep_log f (cids ep) ep) = cids ep
    /\ cids (sweep f (cids ep) ep) = cids ep
    /\ (NoDup (cids ep) ->
        map (fun v => (c_cid v, c_sa v)) (sweep_log f (cids ep) ep) = table ep
        /\ Forall2 (swept f (ep_now ep)) (table ep) (table (sweep f (cids ep) ep))).
  Proof.
    split; [apply sweep_log_all; apply incl_refl|]. split; [apply sweep_invariants|].
    intros Hn. destruct (sweep_closed f (table ep) [] ep eq_refl Hn) as (r' & R1 & R2 & R3).
    split; [exact R3|]. unfold cids. rewrite R1. exact R2.
  Qed.

  (* ---------------------------------------------------------------------------------------------- *)
  (** * E. The timer section as a whole *)

  Definition after_rt (ep : endpoint) : endpoint := rt_loop (S (length (table ep))) 0 ep.
  Definition after_dpd (ep : endpoint) : endpoint := sweep (check_dpd P) (cids (after_rt ep)) (after_rt ep).
  Lemma timers_eq ep : timers ep = sweep (check_lifetime P) (cids (after_dpd ep)) (after_dpd ep).
  Proof. reflexivity. Qed.

  (** the visits of the retransmission sweep of [timers ep] *)
  Definition rt_visits (ep : endpoint) : list visit := rt_log (S (length (table ep))) 0 ep.
  Definition rt_visited (ep : endpoint) (cid : nat) : Prop := In cid (map v_cid (rt_visits ep)).

  Lemma after_rt_run ep : rt_run 0 ep (rt_visits ep) (after_rt ep).
  Proof. apply rt_loop_run. lia. Qed.

  (** [timers] never adds an entry, never creates a creation index, keeps the order of those that stay *)
  Theorem timers_cids ep :
    subseq (cids (timers ep)) (cids ep) /\ cids (timers ep) = cids (after_rt ep)
    /\ next_cid (timers ep) = next_cid ep /\ ep_now (timers ep) = ep_now ep.
  Proof.
    destruct (rt_run_invariants _ _ _ _ (after_rt_run ep)) as (R1 & R2 & R3 & _).
    destruct (sweep_invariants (check_dpd P) (cids (after_rt ep)) (after_rt ep)) as (D1 & D2 & D3 & _).
    fold (after_dpd ep) in D1, D2, D3.
    destruct (sweep_invariants (check_lifetime P) (cids (after_dpd ep)) (after_dpd ep)) as (L1 & L2 & L3 & _).
    rewrite timers_eq. rewrite L1, L2, L3, D1, D2, D3. auto.
  Qed.
  Corollary timers_total ep :
    (length (table (timers ep)) <= length (table ep))%nat
    /\ incl (cids (timers ep)) (cids ep)
    /\ (NoDup (cids ep) -> NoDup (cids (timers ep)))
    /\ (forall n, CidOK E (table ep) n -> CidOK E (table (timers ep)) n).
  Proof.
    destruct (timers_cids ep) as (S1 & _).
    split; [unfold cids in S1; apply subseq_length in S1; rewrite !map_length in S1; exact S1|].
    split; [apply subseq_incl; exact S1|]. split; [intros Hn; eapply subseq_NoDup; eassumption|].
    intros n [C1 C2]. split; [eapply subseq_NoDup; [exact S1|exact C1]|].
    intros c Hc. apply C2. eapply subseq_incl; [exact S1|exact Hc].
  Qed.

  (** closed form of the whole timer section under unique creation indices *)
  Theorem timers_closed ep :
    NoDup (cids ep) ->
    table (after_rt ep) = rt_tab (ep_now ep) false (table ep)
    /\ map (fun v => (v_cid v, v_sa v)) (rt_visits ep) = rt_vis (ep_now ep) false (table ep)
    /\ exists t2, Forall2 (swept (check_dpd P) (ep_now ep)) (table (after_rt ep)) t2
                  /\ Forall2 (swept (check_lifetime P) (ep_now ep)) t2 (table (timers ep)).
  Proof.
    intros Hn.
    destruct (rt_closed (table ep) false [] (S (length (table ep))) ep eq_refl Hn) as [C1 C2]; [lia|].
    cbv zeta in C1, C2. cbn [length Nat.add app] in C1, C2. fold (after_rt ep) in C1. fold (rt_visits ep) in C2.
    split; [exact C1|]. split; [exact C2|].
    destruct (rt_run_invariants _ _ _ _ (after_rt_run ep)) as (R1 & _ & R3 & _).
    assert (N1 : NoDup (cids (after_rt ep))) by (eapply subseq_NoDup; eassumption).
    destruct (sweep_visits_all (check_dpd P) (after_rt ep)) as (_ & D1 & D2). destruct (D2 N1) as [_ D3].
    fold (after_dpd ep) in D1, D3.
    assert (N2 : NoDup (cids (after_dpd ep))) by (rewrite D1; exact N1).
    destruct (sweep_visits_all (check_lifetime P) (after_dpd ep)) as (_ & _ & L2). destruct (L2 N2) as [_ L3].
    rewrite <- timers_eq in L3.
    destruct (sweep_invariants (check_dpd P) (cids (after_rt ep)) (after_rt ep)) as (_ & W & _). fold (after_dpd ep) in W.
    exists (table (after_dpd ep)). rewrite R1 in D3. rewrite W, R1 in L3. split; assumption.
  Qed.

  (* ---------------------------------------------------------------------------------------------- *)
  (** * F. Giving up: the exhausted entry is removed with its kernel SAs *)

  (** the link to the parametric theorems of ShellProofs.v / Props/C13.v: when the budget of an outstanding request
      is exhausted and its last deadline has passed, the shell marks the IkeSa DELETED, which is what makes the
      loop remove the entry *)
  Lemma give_up_gone t (s : esa) :
    rt_states (state P s) = true -> rt_at P s < t -> rt_n P s >= MAX_RETRANSMISSIONS ->
    check_retransmission P s t = (with_state P s ST_DELETED, None) /\ rt_gone t s = true.
  Proof.
    intros H1 H2 H3. destruct (retransmission_gives_up P hdl_istate_set s t H1 H2 H3) as [A B].
    split; [exact A|]. apply rt_gone_iff. right. auto.
  Qed.
  (** on the retransmission schedule of a request first sent at [t0] (C13_schedule): after the last retransmission
      the deadline is t0 + 20 s *)
  Lemma budget_exhausted_gone t0 t (s : esa) :
    on_schedule P t0 s -> rt_states (state P s) = true -> rt_n P s = MAX_RETRANSMISSIONS ->
    t0 + RETRANSMISSION_DELAY * 10 < t -> rt_gone t s = true.
  Proof.
    intros [_ Hs] Hw Hn Ht. apply rt_gone_iff. right. split; [exact Hw|]. rewrite Hn in *.
    unfold MAX_RETRANSMISSIONS, RETRANSMISSION_DELAY in *. lia.
  Qed.
  (** where no entry is DELETED between iterations ([AllQ], EndpointSad.v) removal by the sweep IS giving up *)
  Lemma gone_is_give_up t c (s : esa) (tb : list (nat * esa)) :
    AllQ E tb -> In (c, s) tb ->
    (rt_gone t s = true <-> rt_states (state P s) = true /\ rt_at P s < t /\ rt_n P s >= MAX_RETRANSMISSIONS).
  Proof.
    intros Ha Hin. rewrite rt_gone_iff. split; [|auto]. intros [H|H]; [|exact H].
    destruct (Ha c s Hin) as [Hq _]. contradiction.
  Qed.

  (** a creation index was visited / was not visited, in terms of the closed form *)
  Lemma visited_flag ep cid (s : esa) :
    NoDup (cids ep) -> In (cid, s) (table ep) ->
    exists p a, nth_error (table ep) p = Some (cid, s) /\ nth_error (rt_pat (ep_now ep) false (table ep)) p = Some a
                /\ (a = true <-> rt_visited ep cid).
  Proof.
    intros Hn Hin. destruct (In_nth_error _ _ Hin) as [p Hp]. exists p.
    assert (Hl : (p < length (rt_pat (ep_now ep) false (table ep)))%nat)
      by (rewrite rt_pat_length; apply nth_error_Some; congruence).
    destruct (nth_error (rt_pat (ep_now ep) false (table ep)) p) as [a|] eqn:Ea; [|apply nth_error_None in Ea; lia].
    exists a. split; [exact Hp|]. split; [reflexivity|].
    destruct (timers_closed ep Hn) as (_ & C2 & _). unfold rt_visited. split.
    - intros ->. assert (Hv : In (cid, s) (rt_vis (ep_now ep) false (table ep))) by (apply rt_vis_in; exists p; auto).
      rewrite <- C2 in Hv. apply in_map_iff in Hv. destruct Hv as (v & Hv1 & Hv2). apply in_map_iff. exists v.
      split; [congruence|exact Hv2].
    - intros Hv. apply in_map_iff in Hv. destruct Hv as (v & Hv1 & Hv2).
      assert (Hv3 : In (v_cid v, v_sa v) (rt_vis (ep_now ep) false (table ep))).
      { rewrite <- C2. apply in_map_iff. exists v. auto. }
      apply rt_vis_in in Hv3. destruct Hv3 as (q & Hq1 & Hq2). rewrite Hv1 in Hq1.
      destruct (nth_error_fst_unique _ _ _ _ _ _ Hn Hq1 Hp) as [-> _]. congruence.
  Qed.

  (** the visits are visits of table entries as they were when the sweep began (unique creation indices) *)
  Lemma visits_original ep v :
    NoDup (cids ep) -> In v (rt_visits ep) -> In (v_cid v, v_sa v) (table ep) /\ ep_now (v_ep v) = ep_now ep.
  Proof.
    intros Hn Hv. destruct (timers_closed ep Hn) as (_ & C2 & _). split.
    - assert (H : In (v_cid v, v_sa v) (rt_vis (ep_now ep) false (table ep))).
      { rewrite <- C2. apply in_map_iff. exists v. auto. }
      apply rt_vis_in in H. destruct H as (p & Hp & _). eapply nth_error_In. exact Hp.
    - destruct (rt_run_invariants _ _ _ _ (after_rt_run ep)) as (_ & _ & _ & F). rewrite Forall_forall in F. apply F. exact Hv.
  Qed.

  (** (1) the entry is gone from the table: after the retransmission sweep, hence after the timer section *)
  Theorem give_up_removes ep cid (s : esa) :
    NoDup (cids ep) -> In (cid, s) (table ep) -> rt_visited ep cid -> rt_gone (ep_now ep) s = true ->
    ~ In cid (cids (after_rt ep)) /\ ~ In cid (cids (timers ep)).
  Proof.
    intros Hn Hin Hv Hg. destruct (visited_flag ep cid s Hn Hin) as (p & a & Hp & Ha & Hav).
    apply Hav in Hv. subst a.
    destruct (rt_tab_spec (ep_now ep) (table ep) false p cid s true Hp Ha) as (_ & _ & H3).
    destruct (timers_closed ep Hn) as (C1 & _). destruct (timers_cids ep) as (_ & T2 & _).
    assert (H : ~ In cid (cids (after_rt ep))) by (unfold cids; rewrite C1; apply H3; auto).
    split; [exact H|rewrite T2; exact H].
  Qed.
  (** an entry that is visited and not removed, and an entry that is passed over, stay *)
  Theorem kept_stays ep cid (s : esa) :
    NoDup (cids ep) -> In (cid, s) (table ep) ->
    (rt_visited ep cid -> rt_gone (ep_now ep) s = false ->
       In (cid, settle (ep_now ep) (fst (check_retransmission P s (ep_now ep)))) (table (after_rt ep)))
    /\ (~ rt_visited ep cid -> In (cid, s) (table (after_rt ep))).
  Proof.
    intros Hn Hin. destruct (visited_flag ep cid s Hn Hin) as (p & a & Hp & Ha & Hav).
    destruct (rt_tab_spec (ep_now ep) (table ep) false p cid s a Hp Ha) as (H1 & H2 & _).
    destruct (timers_closed ep Hn) as (C1 & _). rewrite C1. split.
    - intros Hv Hg. apply H2; [apply Hav; exact Hv|exact Hg].
    - intros Hv. apply H1. destruct a; [exfalso; apply Hv; apply Hav; reflexivity|reflexivity].
  Qed.

  (** (2) its kernel SAs are deleted: the kernel operations of the iteration contain those of delete_child_sas on
      the entry, which are a DELSA for the outbound and for the inbound SA of every CHILD_SA it tracks *)
  Definition rt_teardown_state (v : visit) : isa :=
    let ep := v_ep v in
    inner P (enter (do_call ep (v_cid v) (check_retransmission P (enter ep (v_sa v)) (ep_now ep)))
                   (call_result (check_retransmission P) ep (v_sa v))).
  Definition rt_teardown_kops (v : visit) : list kop := kops (snd (delete_child_sas (rt_teardown_state v))).

  Lemma teardown_delops (i0 : isa) :
    Forall spi4 (children (co i0)) -> kops i0 = [] -> fst (delete_child_sas i0) <> Stuck ->
    DelOps (co i0) (children (co i0)) (kops (snd (delete_child_sas i0))).
  Proof.
    unfold delete_child_sas. intros H4 Hk.
    change ((c <- getc;; delete_all (children c);;; modc (fun c0 => c0 <| children := [] |>)) i0)
      with ((delete_all (children (co i0));;; modc (fun c0 => c0 <| children := [] |>)) i0).
    unfold bind. pose proof (delete_all_spec (children (co i0)) i0 H4) as H. unfold post in H.
    destruct (delete_all (children (co i0)) i0) as [[[]|e|] s1]; cbn in *.
    - intros _. destruct H as [H|(_ & ks & [H1 H2] & Hd)]; [discriminate H|].
      rewrite Hk in H1. cbn in H1. rewrite H1. exact Hd.
    - destruct H as [H|[H _]]; discriminate H.
    - intros H0. exfalso. apply H0. reflexivity.
  Qed.
  Lemma delops_addr c c' l ks :
    my_addr c' = my_addr c -> peer_addr c' = peer_addr c -> DelOps c l ks -> DelOps c' l ks.
  Proof.
    intros A B H. induction H as [|ch l k1 k2 Hd Hl IH]; constructor; [|exact IH].
    eapply deletes_keys; [| |exact Hd]; unfold kout, kin; congruence.
  Qed.

  Lemma rt_teardown_state_facts (v : visit) :
    children (co (rt_teardown_state v)) = children (co (inner P (v_sa v)))
    /\ my_addr (co (rt_teardown_state v)) = my_addr (co (inner P (v_sa v)))
    /\ peer_addr (co (rt_teardown_state v)) = peer_addr (co (inner P (v_sa v)))
    /\ new_sa (rt_teardown_state v) = new_sa (inner P (v_sa v))
    /\ kops (rt_teardown_state v) = [].
  Proof.
    unfold rt_teardown_state. cbv zeta. rewrite rt_call_result.
    unfold check_retransmission. destruct (rt_states (state P (v_sa v))); [|repeat split; reflexivity].
    destruct (rt_due _ _); [|repeat split; reflexivity]. destruct (rt_giveup _); repeat split; reflexivity.
  Qed.

  Lemma extends_rt_run i ep log ep' :
    rt_run i ep log ep' ->
    extends E ep ep' /\ forall v, In v log -> extends E (rt_visit (v_ep v) (v_cid v) (v_sa v)) ep'.
  Proof.
    intros H. induction H as [i ep Hn|i ep cid s log ep' Hn H IH].
    - split; [apply extends_refl|intros v []].
    - destruct IH as [I1 I2]. split.
      + eapply extends_trans; [|exact I1]. destruct (rt_visit_facts ep cid s) as (_ & _ & _ & K). eexists. exact K.
      + intros v [<-|Hv]; [exact I1|apply I2; exact Hv].
  Qed.
  Lemma extends_sweep (f : timer_fn) cs : forall ep, extends E ep (sweep f cs ep).
  Proof.
    induction cs as [|cid r IH]; intros ep; [apply extends_refl|]. rewrite sweep_unfold.
    destruct (find (fun x => Nat.eqb (fst x) cid) (table ep)) as [[c' s]|]; [|apply IH].
    eapply extends_trans; [|apply IH]. destruct (do_call_facts ep cid (f (enter ep s) (ep_now ep))) as (_ & _ & _ & K).
    eexists. exact K.
  Qed.
  Lemma extends_timers ep : extends E ep (after_rt ep) /\ extends E (after_rt ep) (timers ep).
  Proof.
    split; [apply (extends_rt_run _ _ _ _ (after_rt_run ep))|]. rewrite timers_eq.
    eapply extends_trans; [|apply extends_sweep]. apply extends_sweep.
  Qed.

  Theorem give_up_kops ep v :
    In v (rt_visits ep) -> rt_gone (ep_now (v_ep v)) (v_sa v) = true ->
    (exists ks2, ep_kops (timers ep) = ep_kops (v_ep v) ++ rt_teardown_kops v ++ ks2)
    /\ (Forall spi4 (children (co (inner P (v_sa v)))) -> fst (delete_child_sas (rt_teardown_state v)) <> Stuck ->
        DelOps (co (inner P (v_sa v))) (children (co (inner P (v_sa v)))) (rt_teardown_kops v)).
  Proof.
    intros Hv Hg. split.
    - destruct (extends_rt_run _ _ _ _ (after_rt_run ep)) as [_ X]. destruct (X v Hv) as [k1 K1].
      destruct (extends_timers ep) as [_ [k2 K2]].
      destruct (rt_visit_facts (v_ep v) (v_cid v) (v_sa v)) as (_ & _ & _ & K). rewrite Hg in K.
      exists (k1 ++ k2). rewrite K2, K1, K. unfold rt_teardown_kops, rt_teardown_state. cbv zeta.
      rewrite <- !app_assoc. reflexivity.
    - intros H4 Hns. destruct (rt_teardown_state_facts v) as (F1 & F2 & F3 & _ & F5).
      rewrite <- F1 in H4. pose proof (teardown_delops _ H4 F5 Hns) as Hd. rewrite F1 in Hd.
      eapply delops_addr; [| |exact Hd]; congruence.
  Qed.

  (* ---------------------------------------------------------------------------------------------- *)
  (** * G. Nobody is starved: an entry at position p is visited within p+1 iterations *)

  (** between two retransmission sweeps entries are replaced in place, removed, or appended with a fresh creation
      index: given unique indices below [next_cid], these stay so and no surviving entry moves away from the head *)
  Definition PLt (t : list (nat * esa)) (n : nat) (t' : list (nat * esa)) (n' : nat) : Prop :=
    CidOK E t n ->
    CidOK E t' n' /\ (n <= n')%nat
    /\ forall c, In c (map fst t') ->
         (In c (map fst t) /\ (idx c (map fst t') <= idx c (map fst t))%nat) \/ (n <= c)%nat.
  Definition PL (ep ep' : endpoint) : Prop := PLt (table ep) (next_cid ep) (table ep') (next_cid ep').

  Lemma PLt_refl t n : PLt t n t n.
  Proof. intros H. split; [exact H|]. split; [lia|]. intros c Hc. left. split; [exact Hc|lia]. Qed.
  Lemma PLt_trans t n t1 n1 t2 n2 : PLt t n t1 n1 -> PLt t1 n1 t2 n2 -> PLt t n t2 n2.
  Proof.
    intros H1 H2 H0. destruct (H1 H0) as (A1 & A2 & A3). destruct (H2 A1) as (B1 & B2 & B3).
    split; [exact B1|]. split; [lia|]. intros c Hc. destruct (B3 c Hc) as [[Hin Hle]|Hge]; [|right; lia].
    destruct (A3 c Hin) as [[Hin' Hle']|Hge]; [left; split; [exact Hin'|lia]|right; exact Hge].
  Qed.
  Lemma PLt_sub t n t' : subseq (map fst t') (map fst t) -> PLt t n t' n.
  Proof.
    intros Hs [C1 C2]. split; [split; [eapply subseq_NoDup; eassumption|]|].
    - intros c Hc. apply C2. eapply subseq_incl; eassumption.
    - split; [lia|]. intros c Hc. left. split; [eapply subseq_incl; eassumption|]. apply subseq_idx; assumption.
  Qed.
  Lemma PLt_append t n (x : esa) : PLt t n (t ++ [(n, x)]) (S n).
  Proof.
    intros C. split; [apply cidok_append; exact C|]. split; [lia|]. intros c Hc. rewrite map_app in *. cbn in Hc.
    apply in_app_or in Hc. destruct Hc as [Hc|[<-|[]]]; [|right; lia]. left. split; [exact Hc|].
    rewrite idx_app_l by exact Hc. lia.
  Qed.
  Lemma PLt_register t n cid (s' x : esa) : PLt t n (replace t cid s' ++ [(n, x)]) (S n).
  Proof.
    eapply PLt_trans; [|apply PLt_append]. apply PLt_sub. rewrite replace_fst. apply subseq_refl.
  Qed.

  Lemma PL_refl ep : PL ep ep.
  Proof. apply PLt_refl. Qed.
  Lemma PL_trans a b c : PL a b -> PL b c -> PL a c.
  Proof. apply PLt_trans. Qed.
  Lemma PL_sub ep ep' : subseq (cids ep') (cids ep) -> next_cid ep' = next_cid ep -> PL ep ep'.
  Proof. intros H1 H2. unfold PL. rewrite H2. apply PLt_sub. exact H1. Qed.
  Lemma PL_same ep ep' : table ep' = table ep -> next_cid ep' = next_cid ep -> PL ep ep'.
  Proof. intros H1 H2. apply PL_sub; [unfold cids; rewrite H1; apply subseq_refl|exact H2]. Qed.

  Lemma PL_do_call ep c r : PL ep (do_call ep c r).
  Proof.
    destruct (do_call_facts ep c r) as (_ & D2 & _). destruct (call_frame ep c r) as (F1 & _).
    apply PL_sub; [rewrite F1; apply subseq_refl|exact D2].
  Qed.
  Lemma PL_teardown ep c (s : esa) : PL ep (teardown ep c s).
  Proof.
    destruct (teardown_facts2 ep c s) as (T1 & T2 & _). apply PL_sub; [|exact T2].
    unfold cids. rewrite T1. apply subseq_map. apply remove_cid_subseq.
  Qed.
  Lemma with_table_table ep t : table (with_table E ep t) = t.
  Proof. reflexivity. Qed.
  Lemma with_table_next ep t : next_cid (with_table E ep t) = next_cid ep.
  Proof. reflexivity. Qed.
  Lemma PL_finish ep cid (s : esa) : PL ep (finish E ep cid s).
  Proof.
    rewrite finish_eq.
    assert (Hpre : PL ep (fst (finish_pre E ep cid s))).
    { unfold finish_pre. destruct (new_sa (inner P s)) as [nc|].
      - destruct (dispatch_register_successor (state P s) true); cbn [fst].
        + unfold PL. cbn. apply PLt_register.
        + apply PL_sub; [unfold cids; cbn; rewrite replace_fst; apply subseq_refl|reflexivity].
      - apply PL_sub; [unfold cids; cbn; rewrite replace_fst; apply subseq_refl|reflexivity]. }
    destruct (dispatch_remove _); [|exact Hpre]. eapply PL_trans; [exact Hpre|apply PL_teardown].
  Qed.
  Lemma PL_handle ep cid (s : esa) m : PL ep (handle E ep cid s m).
  Proof.
    unfold handle. cbv zeta. set (r := process_message P (enter ep s) m (ep_now ep)).
    eapply PL_trans; [|apply PL_finish].
    destruct (send_facts E (fst (leave ep (fst r))) (snd r)) as (S1 & S2 & _).
    destruct (leave_facts E ep (fst r)) as (_ & _ & L3 & L4 & _).
    apply PL_same; congruence.
  Qed.
  Lemma PL_handle_fresh ep cid (s : esa) m : PL ep (handle_fresh E ep cid s m).
  Proof.
    unfold handle_fresh. cbv zeta. set (r := process_message P (enter ep s) m (ep_now ep)).
    destruct (Z.eqb _ ST_INITIAL); [|apply PL_handle].
    destruct (send_facts E (with_table E (fst (leave ep (fst r))) (remove_cid (table (fst (leave ep (fst r)))) cid)) (snd r))
      as (S1 & S2 & _).
    destruct (leave_facts E ep (fst r)) as (_ & _ & L3 & L4 & _).
    apply PL_sub.
    - unfold cids. rewrite S1, with_table_table, L3. apply subseq_map. apply remove_cid_subseq.
    - rewrite S2, with_table_next. exact L4.
  Qed.
  Lemma PL_create ep ii pspi c my peer ep0 cid (s0 : esa) :
    create E ep ii pspi c my peer = Some (ep0, cid, s0) -> PL ep ep0.
  Proof.
    intros Hc. destruct (create_facts E _ _ _ _ _ _ _ _ _ Hc) as (-> & Ht & Hn & _).
    unfold PL. rewrite Ht, Hn. apply PLt_append.
  Qed.
  Lemma PL_dispatch ep d : PL ep (dispatch E ep d).
  Proof.
    destruct d as [|h my peer parsed]; [apply PL_refl|]. unfold dispatch.
    destruct (dispatch_is_init_request (h_exch h) (negb (h_resp h))).
    - destruct (find_conf E ep my peer) as [c|]; [|apply PL_refl].
      destruct (create E ep false (be_encode 8 (Z.to_N (h_spi_i h))) c my peer) as [[[ep0 cid] s0]|] eqn:Ec; [|apply PL_refl].
      eapply PL_trans; [apply (PL_create _ _ _ _ _ _ _ _ _ Ec)|].
      fold (arm E ep0 s0).
      destruct parsed as [m|].
      + match goal with |- context [process_message P (Endpoint.enter E ?e ?s) m _] =>
          rewrite (handle_fresh_unfold E e cid s m) end.
        eapply PL_trans; [|apply PL_handle_fresh].
        apply PL_sub; [unfold cids; cbn; rewrite replace_fst; apply subseq_refl|reflexivity].
      + apply PL_sub; [|reflexivity]. unfold cids. cbn. eapply subseq_trans; [apply subseq_map; apply remove_cid_subseq|].
        rewrite replace_fst. apply subseq_refl.
    - cbv zeta. match goal with |- context [find ?f (table ep)] => destruct (find f (table ep)) as [[cid s]|] eqn:Ef end; [|apply PL_refl].
      destruct parsed as [m|]; [|apply PL_same; reflexivity].
      match goal with |- context [process_message P (Endpoint.enter E ?e ?s) m _] =>
        rewrite (handle_unfold E e cid s m) end.
      eapply PL_trans; [|apply PL_handle]. apply PL_same; reflexivity.
  Qed.
  Lemma PL_acquire ep my peer a b i : PL ep (acquire E ep my peer a b i).
  Proof.
    rewrite acquire_eq.
    match goal with |- context [find ?f (table ep)] => destruct (find f (table ep)) as [[cid s]|] eqn:Ef end.
    - apply PL_do_call.
    - destruct (find_conf E ep my peer) as [c|]; [|apply PL_refl].
      destruct (create E ep true (repeat 0%N 8) c my peer) as [[[ep0 cid] s]|] eqn:Ec; [|apply PL_refl].
      eapply PL_trans; [apply (PL_create _ _ _ _ _ _ _ _ _ Ec)|].
      unfold acquire_fresh. cbv zeta.
      set (r := process_trigger P (enter ep0 s) (ep_now ep0) (E_acquire a b i)).
      destruct (acquire_drop_unstarted _); [|apply PL_do_call].
      destruct (send_facts E (with_table E (fst (leave ep0 (fst r))) (remove_cid (table (fst (leave ep0 (fst r)))) cid)) (snd r))
        as (S1 & S2 & _).
      destruct (leave_facts E ep0 (fst r)) as (_ & _ & L3 & L4 & _).
      apply PL_sub.
      + unfold cids. rewrite S1, with_table_table, L3. apply subseq_map. apply remove_cid_subseq.
      + rewrite S2, with_table_next. exact L4.
  Qed.
  Lemma PL_expire ep spi hard : PL ep (expire E ep spi hard).
  Proof.
    rewrite expire_eq.
    match goal with |- context [find ?f (table ep)] => destruct (find f (table ep)) as [[cid s]|] eqn:Ef end; [|apply PL_refl].
    apply PL_do_call.
  Qed.

  (** the endpoint when the timer section of the iteration begins *)
  Definition pre_timers (ep : endpoint) (tnow : Z) (tp : list draw) (e : event) : endpoint :=
    event_step E (start E ep tnow tp) e.
  Lemma iteration_pre ep tnow tp e : iteration E ep tnow tp e = timers (pre_timers ep tnow tp e).
  Proof. reflexivity. Qed.

  Lemma PL_pre_timers ep tnow tp e : PL ep (pre_timers ep tnow tp e).
  Proof.
    unfold pre_timers. eapply PL_trans; [apply (PL_same ep (start E ep tnow tp)); reflexivity|].
    destruct e as [d|my peer a b i|spi hard| |]; cbn [event_step].
    - apply PL_dispatch.
    - apply PL_acquire.
    - apply PL_expire.
    - apply PL_same; reflexivity.
    - apply PL_refl.
  Qed.
  Lemma PL_timers ep : PL ep (timers ep).
  Proof. destruct (timers_cids ep) as (S1 & _ & N & _). apply PL_sub; assumption. Qed.
  Lemma PL_iteration ep tnow tp e : PL ep (iteration E ep tnow tp e).
  Proof. rewrite iteration_pre. eapply PL_trans; [apply PL_pre_timers|apply PL_timers]. Qed.

  (** unique creation indices below [next_cid] are an invariant of EVERY iteration (no condition on tape or verdicts) *)
  Theorem cidok_iteration ep tnow tp e :
    CidOK E (table ep) (next_cid ep) ->
    CidOK E (table (pre_timers ep tnow tp e)) (next_cid (pre_timers ep tnow tp e))
    /\ CidOK E (table (iteration E ep tnow tp e)) (next_cid (iteration E ep tnow tp e)).
  Proof. intros H. split; [apply (PL_pre_timers ep tnow tp e H)|apply (PL_iteration ep tnow tp e H)]. Qed.

  (** an entry that the retransmission sweep passed over: it is still in the table, literally unchanged by that
      sweep, its predecessor was visited and removed, and it is now strictly closer to the head of the table *)
  Theorem skipped_moves_up ep cid (s : esa) :
    NoDup (cids ep) -> In (cid, s) (table ep) -> ~ rt_visited ep cid ->
    In (cid, s) (table (after_rt ep))
    /\ (exists p c' s', nth_error (table ep) p = Some (c', s') /\ nth_error (table ep) (S p) = Some (cid, s)
                        /\ rt_visited ep c' /\ rt_gone (ep_now ep) s' = true /\ ~ In c' (cids (timers ep)))
    /\ In cid (cids (timers ep))
    /\ (idx cid (cids (timers ep)) < idx cid (cids ep))%nat.
  Proof.
    intros Hn Hin Hv. destruct (visited_flag ep cid s Hn Hin) as (p & a & Hp & Ha & Hav).
    assert (a = false) by (destruct a; [exfalso; apply Hv; apply Hav; reflexivity|reflexivity]). subst a.
    destruct (kept_stays ep cid s Hn Hin) as [_ K]. specialize (K Hv).
    destruct (timers_closed ep Hn) as (C1 & C2 & _). destruct (timers_cids ep) as (_ & T2 & _).
    split; [exact K|]. split.
    - assert (Hnv : ~ In (cid, s) (rt_vis (ep_now ep) false (table ep))).
      { intros H. apply rt_vis_in in H. destruct H as (q & Hq1 & Hq2).
        destruct (nth_error_fst_unique _ _ _ _ _ _ Hn Hq1 Hp) as [-> _]. congruence. }
      destruct (rt_skipped_only_after_removed _ _ _ _ _ Hp Hnv) as (p' & c' & s' & -> & Hp' & Hv' & Hg').
      exists p', c', s'. split; [exact Hp'|]. split; [exact Hp|].
      assert (Hin' : In (c', s') (table ep)) by (eapply nth_error_In; exact Hp').
      assert (Hvis : rt_visited ep c').
      { unfold rt_visited. rewrite <- C2 in Hv'. apply in_map_iff in Hv'. destruct Hv' as (v & Hv1 & Hv2).
        apply in_map_iff. exists v. split; [congruence|exact Hv2]. }
      split; [exact Hvis|]. split; [exact Hg'|]. apply (give_up_removes ep c' s' Hn Hin' Hvis Hg').
    - rewrite T2. split.
      + apply in_map_iff. exists (cid, s). auto.
      + unfold cids at 1. rewrite C1. apply (rt_tab_idx (ep_now ep) (table ep) false p cid s Hn Hp Ha).
  Qed.

  (** the bound: whatever happens in the iterations (events, tapes, verdicts), an entry at position p of the table
      is visited by the retransmission sweep of one of the next p+1 iterations - or has left the table before *)
  Theorem served_within (evs : list step_in) : forall ep cid,
    CidOK E (table ep) (next_cid ep) -> In cid (cids ep) -> (idx cid (cids ep) < length evs)%nat ->
    exists k tnow tp e,
      (k <= idx cid (cids ep))%nat /\ nth_error evs k = Some (tnow, tp, e)
      /\ (rt_visited (pre_timers (run E ep (firstn k evs)) tnow tp e) cid
          \/ ~ In cid (cids (pre_timers (run E ep (firstn k evs)) tnow tp e))).
  Proof.
    induction evs as [|[[tnow tp] e] r IH]; intros ep cid Hok Hin Hlen; [cbn in Hlen; lia|].
    set (ep1 := pre_timers ep tnow tp e).
    destruct (PL_pre_timers ep tnow tp e Hok) as (Hok1 & _ & Hpos). fold ep1 in Hok1, Hpos.
    destruct (in_dec Nat.eq_dec cid (cids ep1)) as [Hin1|Hnin1].
    2:{ exists O, tnow, tp, e. split; [lia|]. split; [reflexivity|]. right. exact Hnin1. }
    destruct (in_dec Nat.eq_dec cid (map v_cid (rt_visits ep1))) as [Hv|Hnv].
    { exists O, tnow, tp, e. split; [lia|]. split; [reflexivity|]. left. exact Hv. }
    assert (Hle : (idx cid (cids ep1) <= idx cid (cids ep))%nat).
    { destruct (Hpos cid Hin1) as [[_ H]|H]; [exact H|]. destruct Hok as [_ Hlt]. specialize (Hlt cid Hin). lia. }
    unfold cids in Hin1. apply in_map_iff in Hin1. destruct Hin1 as ([c0 s] & Hc0 & Hin1). cbn in Hc0. subst c0.
    destruct (skipped_moves_up ep1 cid s (proj1 Hok1) Hin1 Hnv) as (_ & _ & Hin2 & Hlt2).
    destruct (cidok_iteration ep tnow tp e Hok) as [_ Hok2].
    change (timers ep1) with (iteration E ep tnow tp e) in Hin2, Hlt2.
    destruct (IH (iteration E ep tnow tp e) cid Hok2 Hin2) as (k & tnow' & tp' & e' & Hk & Hnth & Hres).
    { cbn in Hlen. lia. }
    exists (S k), tnow', tp', e'. split; [lia|]. split; [exact Hnth|]. exact Hres.
  Qed.

  (** the clock of the iteration is what every timer of the iteration sees *)
  Lemma now_finish ep cid (s : esa) : ep_now (finish E ep cid s) = ep_now ep.
  Proof.
    rewrite finish_eq.
    assert (Hpre : ep_now (fst (finish_pre E ep cid s)) = ep_now ep).
    { unfold finish_pre. destruct (new_sa (inner P s)); [destruct (dispatch_register_successor _ _)|]; reflexivity. }
    destruct (dispatch_remove _); [|exact Hpre].
    destruct (teardown_facts2 (fst (finish_pre E ep cid s)) cid (snd (finish_pre E ep cid s))) as (_ & _ & T & _). congruence.
  Qed.
  Lemma now_handle ep cid (s : esa) m : ep_now (handle E ep cid s m) = ep_now ep.
  Proof.
    unfold handle. cbv zeta. rewrite now_finish.
    destruct (send_facts E (fst (leave ep (fst (process_message P (enter ep s) m (ep_now ep)))))
                         (snd (process_message P (enter ep s) m (ep_now ep)))) as (_ & _ & _ & S4 & _).
    destruct (leave_facts E ep (fst (process_message P (enter ep s) m (ep_now ep)))) as (_ & _ & _ & _ & L5 & _). congruence.
  Qed.
  Lemma now_handle_fresh ep cid (s : esa) m : ep_now (handle_fresh E ep cid s m) = ep_now ep.
  Proof.
    unfold handle_fresh. cbv zeta. destruct (Z.eqb _ ST_INITIAL); [|apply now_handle].
    match goal with |- ep_now (send E ?a ?b) = _ => destruct (send_facts E a b) as (_ & _ & _ & S4 & _); rewrite S4 end.
    destruct (leave_facts E ep (fst (process_message P (enter ep s) m (ep_now ep)))) as (_ & _ & _ & _ & L5 & _). exact L5.
  Qed.
  Lemma now_create ep ii pspi c my peer ep0 cid (s0 : esa) :
    create E ep ii pspi c my peer = Some (ep0, cid, s0) -> ep_now ep0 = ep_now ep.
  Proof.
    unfold create. destruct (new_core ii pspi (empty_core c my peer) _) as [[nc|e|] i1]; try discriminate.
    intros H. injection H as <- _ _. reflexivity.
  Qed.
  Lemma now_dispatch ep d : ep_now (dispatch E ep d) = ep_now ep.
  Proof.
    destruct d as [|h my peer parsed]; [reflexivity|]. unfold dispatch.
    destruct (dispatch_is_init_request (h_exch h) (negb (h_resp h))).
    - destruct (find_conf E ep my peer) as [c|]; [|reflexivity].
      destruct (create E ep false (be_encode 8 (Z.to_N (h_spi_i h))) c my peer) as [[[ep0 cid] s0]|] eqn:Ec; [|reflexivity].
      rewrite <- (now_create _ _ _ _ _ _ _ _ _ Ec). fold (arm E ep0 s0).
      destruct parsed as [m|]; [|reflexivity].
      match goal with |- context [process_message P (Endpoint.enter E ?e ?s) m _] =>
        rewrite (handle_fresh_unfold E e cid s m) end.
      rewrite now_handle_fresh. reflexivity.
    - cbv zeta. match goal with |- context [find ?f (table ep)] => destruct (find f (table ep)) as [[cid s]|] eqn:Ef end; [|reflexivity].
      destruct parsed as [m|]; [|reflexivity].
      match goal with |- context [process_message P (Endpoint.enter E ?e ?s) m _] =>
        rewrite (handle_unfold E e cid s m) end.
      rewrite now_handle. reflexivity.
  Qed.
  Lemma now_do_call ep c r : ep_now (do_call ep c r) = ep_now ep.
  Proof. apply do_call_facts. Qed.
  Lemma now_acquire ep my peer a b i : ep_now (acquire E ep my peer a b i) = ep_now ep.
  Proof.
    rewrite acquire_eq.
    match goal with |- context [find ?f (table ep)] => destruct (find f (table ep)) as [[cid s]|] eqn:Ef end.
    - apply now_do_call.
    - destruct (find_conf E ep my peer) as [c|]; [|reflexivity].
      destruct (create E ep true (repeat 0%N 8) c my peer) as [[[ep0 cid] s]|] eqn:Ec; [|reflexivity].
      rewrite <- (now_create _ _ _ _ _ _ _ _ _ Ec). unfold acquire_fresh. cbv zeta.
      destruct (acquire_drop_unstarted _); [|apply now_do_call].
      match goal with |- ep_now (send E ?a ?b) = _ => destruct (send_facts E a b) as (_ & _ & _ & S4 & _); rewrite S4 end.
      match goal with |- ep_now (with_table E (fst (leave ep0 ?x)) _) = _ =>
        destruct (leave_facts E ep0 x) as (_ & _ & _ & _ & L5 & _); exact L5 end.
  Qed.
  Lemma now_expire ep spi hard : ep_now (expire E ep spi hard) = ep_now ep.
  Proof.
    rewrite expire_eq.
    match goal with |- context [find ?f (table ep)] => destruct (find f (table ep)) as [[cid s]|] eqn:Ef end; [|reflexivity].
    apply now_do_call.
  Qed.
  Lemma now_pre_timers ep tnow tp e : ep_now (pre_timers ep tnow tp e) = tnow.
  Proof.
    unfold pre_timers. destruct e as [d|my peer a b i|spi hard| |]; cbn [event_step];
      [rewrite now_dispatch|rewrite now_acquire|rewrite now_expire| |]; reflexivity.
  Qed.

  (** (3) with the SAD invariant (C10E): after the iteration in which a visited entry gave up, no entry has its
      creation index and every installed kernel SA belongs to an entry that is still in the table *)
  Theorem give_up_iteration ep sd tnow tp e cid (s : esa) :
    EInv E ep sd -> iter_ok E ep tnow tp e -> faithful_run sd (ep_kops (iteration E ep tnow tp e)) ->
    In (cid, s) (table (pre_timers ep tnow tp e)) -> rt_visited (pre_timers ep tnow tp e) cid -> rt_gone tnow s = true ->
    EInv E (iteration E ep tnow tp e) (apply_kops sd (ep_kops (iteration E ep tnow tp e)))
    /\ ~ In cid (cids (iteration E ep tnow tp e))
    /\ forall k, In k (apply_kops sd (ep_kops (iteration E ep tnow tp e))) ->
         exists c s', c <> cid /\ In (c, s') (table (iteration E ep tnow tp e)) /\ In k (tracked (inner P s')).
  Proof.
    intros Hi Hok Hf Hin Hv Hg.
    assert (Hc : CidOK E (table ep) (next_cid ep)) by (apply (cids_unique E ep sd Hi)).
    destruct (cidok_iteration ep tnow tp e Hc) as [[Hn1 _] _].
    pose proof (iteration_sad E ep sd tnow tp e Hi Hok Hf) as Hi'.
    rewrite <- (now_pre_timers ep tnow tp e) in Hg.
    destruct (give_up_removes _ cid s Hn1 Hin Hv Hg) as [_ Hr]. rewrite <- iteration_pre in Hr.
    split; [exact Hi'|]. split; [exact Hr|]. intros k Hk.
    destruct (einv_owner E _ _ k Hi' Hk) as (c & s' & H1 & H2). exists c, s'. split; [|auto].
    intros ->. apply Hr. apply in_map_iff. exists (cid, s'). auto.
  Qed.

  (** an entry of the table after the retransmission sweep - visited or passed over - gets its DPD check and then
      its lifetime check in the same timer section, each exactly once, on the value the previous step left *)
  Lemma Forall2_in_l {A B} (R : A -> B -> Prop) l l' x : Forall2 R l l' -> In x l -> exists y, In y l' /\ R x y.
  Proof.
    intros H. induction H as [|a b l l' Hab H IH]; [contradiction|].
    intros [<-|Hx]; [exists b; split; [left; reflexivity|exact Hab]|].
    destruct (IH Hx) as (y & Hy & Hr). exists y. split; [right; exact Hy|exact Hr].
  Qed.
  Theorem timers_entry ep cid (s1 : esa) :
    NoDup (cids ep) -> In (cid, s1) (table (after_rt ep)) ->
    exists ep2 ep3, ep_now ep2 = ep_now ep /\ ep_now ep3 = ep_now ep
      /\ In (cid, call_result (check_lifetime P) ep3 (call_result (check_dpd P) ep2 s1)) (table (timers ep)).
  Proof.
    intros Hn Hin. destruct (timers_closed ep Hn) as (_ & _ & t2 & F1 & F2).
    destruct (Forall2_in_l _ _ _ _ F1 Hin) as ([c2 s2] & Hin2 & Hc2 & ep2 & W2 & R2). cbn in Hc2, R2. subst c2 s2.
    destruct (Forall2_in_l _ _ _ _ F2 Hin2) as ([c3 s3] & Hin3 & Hc3 & ep3 & W3 & R3). cbn in Hc3, R3. subst c3 s3.
    exists ep2, ep3. auto.
  Qed.

  (** ** what a visit sends; the head of the table and the successor of a kept entry are always visited *)
  Definition opt_list {A} (o : option A) : list A := match o with Some x => [x] | None => [] end.
  Lemma do_call_sent ep c (r : esa * option (dgram body)) :
    ep_sent E (do_call ep c r) = ep_sent E ep ++ opt_list (snd r).
  Proof.
    unfold EndpointSad.do_call, put, Endpoint.leave, Endpoint.send.
    destruct (snd r); destruct (rek_push (inner P (fst r))); cbn; rewrite ?app_nil_r; reflexivity.
  Qed.
  Lemma teardown_sent ep c (s : esa) : ep_sent E (teardown ep c s) = ep_sent E ep.
  Proof.
    unfold Endpoint.teardown. destruct (delete_child_sas (inner P (enter ep s))) as [r i'].
    unfold Endpoint.leave. cbn. destruct (rek_push i'); reflexivity.
  Qed.
  Lemma rt_visit_sent ep cid (s : esa) :
    ep_sent E (rt_visit ep cid s) = ep_sent E ep ++ opt_list (snd (check_retransmission P s (ep_now ep))).
  Proof.
    unfold rt_visit. cbv zeta.
    assert (H : ep_sent E (do_call ep cid (check_retransmission P (enter ep s) (ep_now ep)))
                = ep_sent E ep ++ opt_list (snd (check_retransmission P s (ep_now ep)))).
    { rewrite do_call_sent, rt_enter. reflexivity. }
    destruct (rt_gone (ep_now ep) s); [rewrite teardown_sent|]; exact H.
  Qed.
  Definition sent_ext (ep ep' : endpoint) : Prop := exists l, ep_sent E ep' = ep_sent E ep ++ l.
  Lemma sent_ext_refl ep : sent_ext ep ep.
  Proof. exists []. symmetry. apply app_nil_r. Qed.
  Lemma sent_ext_trans a b c : sent_ext a b -> sent_ext b c -> sent_ext a c.
  Proof. intros [l1 H1] [l2 H2]. exists (l1 ++ l2). rewrite H2, H1. symmetry. apply app_assoc. Qed.
  Lemma sent_rt_run i ep log ep' :
    rt_run i ep log ep' ->
    sent_ext ep ep' /\ forall v, In v log -> sent_ext (rt_visit (v_ep v) (v_cid v) (v_sa v)) ep'.
  Proof.
    intros H. induction H as [i ep Hn|i ep cid s log ep' Hn H IH].
    - split; [apply sent_ext_refl|intros v []].
    - destruct IH as [I1 I2]. split.
      + eapply sent_ext_trans; [|exact I1]. eexists. apply rt_visit_sent.
      + intros v [<-|Hv]; [exact I1|apply I2; exact Hv].
  Qed.
  Lemma sent_sweep (f : timer_fn) cs : forall ep, sent_ext ep (sweep f cs ep).
  Proof.
    induction cs as [|cid r IH]; intros ep; [apply sent_ext_refl|]. rewrite sweep_unfold.
    destruct (find (fun x => Nat.eqb (fst x) cid) (table ep)) as [[c' s]|]; [|apply IH].
    eapply sent_ext_trans; [|apply IH]. eexists. apply do_call_sent.
  Qed.

  Lemma shell_retransmits t (s : esa) d :
    rt_states (state P s) = true -> rt_at P s < t -> rt_n P s < MAX_RETRANSMISSIONS -> req_data P s = Some d ->
    snd (check_retransmission P s t) = Some d /\ rt_gone t s = false
    /\ rt_n P (fst (check_retransmission P s t)) = rt_n P s + 1
    /\ rt_at P (fst (check_retransmission P s t)) = rt_at P s + (rt_n P s + 1) * RETRANSMISSION_DELAY
    /\ req_data P (fst (check_retransmission P s t)) = Some d.
  Proof.
    intros H1 H2 H3 H4.
    assert (E1 : Z.ltb (rt_at P s) t = true) by lia.
    assert (E2 : Z.geb (rt_n P s) MAX_RETRANSMISSIONS = false) by lia.
    assert (Hc : check_retransmission P s t
                 = (mk_sa P (inner P s) (is_init P s) (my_spi P s) (my_id P s) (peer_id P s) (last_resp P s) (req_data P s)
                          (rt_next_at (rt_at P s) (rt_n P s + 1)) (rt_n P s + 1) (dpd_at P s) (rek_at P s) (del_at P s)
                          (dpd_cfg P s) (pending P s), req_data P s)).
    { unfold check_retransmission, rt_due, rt_giveup. rewrite H1, E1, E2. reflexivity. }
    unfold rt_gone. rewrite Hc. cbn [fst snd rt_n rt_at req_data]. unfold rt_next_at.
    split; [exact H4|]. split; [|split; [reflexivity|split; [lia|exact H4]]].
    unfold dispatch_remove.
    change (state P (mk_sa P (inner P s) (is_init P s) (my_spi P s) (my_id P s) (peer_id P s) (last_resp P s) (req_data P s)
                          (rt_at P s + (rt_n P s + 1) * RETRANSMISSION_DELAY) (rt_n P s + 1) (dpd_at P s) (rek_at P s)
                          (del_at P s) (dpd_cfg P s) (pending P s))) with (state P s).
    destruct (Z.eqb_spec (state P s) ST_DELETED) as [e|e]; [rewrite e in H1; discriminate H1|reflexivity].
  Qed.

  (** a VISITED entry whose retransmission is due retransmits in this very timer section: the stored request goes
      out, the counter and the deadline advance as in C13 (compare [due_retransmission_sent_refuted] below) *)
  Theorem visited_due_is_retransmitted ep cid (s : esa) d :
    NoDup (cids ep) -> In (cid, s) (table ep) -> rt_visited ep cid ->
    rt_states (state P s) = true -> rt_at P s < ep_now ep -> rt_n P s < MAX_RETRANSMISSIONS -> req_data P s = Some d ->
    In d (ep_sent E (timers ep))
    /\ exists s', In (cid, s') (table (after_rt ep)) /\ rt_n P s' = rt_n P s + 1
                  /\ rt_at P s' = rt_at P s + (rt_n P s + 1) * RETRANSMISSION_DELAY /\ req_data P s' = Some d
                  /\ state P s' = state P s.
  Proof.
    intros Hn Hin Hv H1 H2 H3 H4.
    destruct (shell_retransmits (ep_now ep) s d H1 H2 H3 H4) as (R1 & R2 & R3 & R4 & R5). split.
    - unfold rt_visited in Hv. apply in_map_iff in Hv. destruct Hv as (v & Hc & Hv).
      destruct (visits_original ep v Hn Hv) as [Ho Hw]. rewrite Hc in Ho.
      assert (Hs : v_sa v = s).
      { destruct (In_nth_error _ _ Ho) as [p Hp]. destruct (In_nth_error _ _ Hin) as [q Hq].
        apply (nth_error_fst_unique _ _ _ _ _ _ Hn Hp Hq). }
      destruct (sent_rt_run _ _ _ _ (after_rt_run ep)) as [_ X]. destruct (X v Hv) as [l1 L1].
      assert (L2 : sent_ext (after_rt ep) (timers ep)).
      { rewrite timers_eq. eapply sent_ext_trans; [|apply sent_sweep]. apply sent_sweep. }
      destruct L2 as [l2 L2]. rewrite L2, L1, rt_visit_sent, Hs, Hw, R1. cbn [opt_list].
      apply in_or_app. left. apply in_or_app. left. apply in_or_app. right. left. reflexivity.
    - destruct (kept_stays ep cid s Hn Hin) as [K _]. specialize (K Hv R2).
      exists (settle (ep_now ep) (fst (check_retransmission P s (ep_now ep)))). split; [exact K|].
      split; [exact R3|]. split; [exact R4|]. split; [exact R5|].
      change (state P (fst (check_retransmission P s (ep_now ep))) = state P s).
      unfold check_retransmission. rewrite H1. destruct (rt_due _ _); [|reflexivity].
      unfold rt_giveup. destruct (Z.geb (rt_n P s) MAX_RETRANSMISSIONS) eqn:E2; [lia|reflexivity].
  Qed.

  Theorem head_always_visited ep cid (s : esa) r : table ep = (cid, s) :: r -> rt_visited ep cid.
  Proof. intros H. unfold rt_visited, rt_visits. cbn [rt_log]. rewrite H. cbn. left. reflexivity. Qed.

  Theorem successor_of_kept_is_visited ep p c (s : esa) c2 (s2 : esa) :
    NoDup (cids ep) -> nth_error (table ep) p = Some (c, s) -> rt_gone (ep_now ep) s = false ->
    nth_error (table ep) (S p) = Some (c2, s2) -> rt_visited ep c2.
  Proof.
    intros Hn Hp Hg Hp2. pose proof (rt_after_kept_is_visited _ _ _ _ _ _ _ Hp Hg Hp2) as H.
    destruct (timers_closed ep Hn) as (_ & C2 & _). rewrite <- C2 in H. apply in_map_iff in H. destruct H as (v & Hv1 & Hv2).
    apply in_map_iff. exists v. split; [congruence|exact Hv2].
  Qed.

  (** ** statements for Props/C13E.v *)
  Lemma call_result_def (f : timer_fn) ep (s : esa) :
    call_result f ep s = snd (leave ep (fst (f (enter ep s) (ep_now ep)))).
  Proof. reflexivity. Qed.
  Lemma settle_def t (s : esa) :
    settle t s = with_inner P s ((inner P s) <| now := t |> <| tape := [] |> <| kops := [] |> <| rek_push := None |>)
    /\ forall ep, snd (leave ep (enter ep s)) = settle (ep_now ep) s.
  Proof. split; reflexivity. Qed.

  Lemma rt_run_iff i ep log ep' :
    rt_run i ep log ep' <->
    match nth_error (table ep) i with
    | None => log = [] /\ ep' = ep
    | Some (cid, s) => exists log', log = (i, cid, ep, s) :: log' /\ rt_run (S i) (rt_visit ep cid s) log' ep'
    end.
  Proof.
    split.
    - intros H. destruct H as [i ep Hn|i ep cid s log ep' Hn H]; rewrite Hn; [auto|]. exists log. auto.
    - destruct (nth_error (table ep) i) as [[cid s]|] eqn:Hn.
      + intros (log' & -> & H). apply rr_visit; assumption.
      + intros [-> ->]. apply rr_end. exact Hn.
  Qed.

  Lemma rt_visit_frame ep cid (s : esa) c' (s' : esa) :
    c' <> cid -> (In (c', s') (table (rt_visit ep cid s)) <-> In (c', s') (table ep)).
  Proof.
    intros Hne. destruct (rt_visit_facts ep cid s) as (T & _). rewrite T. destruct (rt_gone (ep_now ep) s).
    - apply remove_other_in. exact Hne.
    - apply replace_other_in. exact Hne.
  Qed.

  Lemma rt_pattern_spec t (l : list (nat * esa)) :
    length (rt_pat t false l) = length l
    /\ (l <> [] -> nth_error (rt_pat t false l) 0 = Some true)
    /\ (forall p c (s : esa) a b, nth_error l p = Some (c, s) -> nth_error (rt_pat t false l) p = Some a ->
          nth_error (rt_pat t false l) (S p) = Some b -> b = negb (a && rt_gone t s))
    /\ (forall c (s : esa), In (c, s) (rt_vis t false l) <->
          exists p, nth_error l p = Some (c, s) /\ nth_error (rt_pat t false l) p = Some true)
    /\ (forall p c (s : esa) a, nth_error l p = Some (c, s) -> nth_error (rt_pat t false l) p = Some a ->
          (a = false -> In (c, s) (rt_tab t false l))
          /\ (a = true -> rt_gone t s = false -> In (c, settle t (fst (check_retransmission P s t))) (rt_tab t false l))
          /\ (a = true -> rt_gone t s = true -> NoDup (map fst l) -> ~ In c (map fst (rt_tab t false l)))).
  Proof.
    split; [apply rt_pat_length|]. split; [intros H; apply (rt_pat_head t l false H)|].
    split; [apply rt_pat_succ|]. split; [apply rt_vis_in|apply rt_tab_spec].
  Qed.

  Theorem removed_skips_next ep p c (s : esa) c2 (s2 : esa) :
    NoDup (cids ep) -> nth_error (table ep) p = Some (c, s) -> rt_visited ep c -> rt_gone (ep_now ep) s = true ->
    nth_error (table ep) (S p) = Some (c2, s2) -> ~ rt_visited ep c2.
  Proof.
    intros Hn Hp Hv Hg Hp2.
    destruct (timers_closed ep Hn) as (_ & C2 & _).
    assert (Hin : In (c, s) (table ep)) by (eapply nth_error_In; exact Hp).
    destruct (visited_flag ep c s Hn Hin) as (q & a & Hq & Ha & Hav). apply Hav in Hv. subst a.
    assert (Hvis : In (c, s) (rt_vis (ep_now ep) false (table ep))) by (apply rt_vis_in; exists q; auto).
    pose proof (rt_removed_skips_next _ _ _ _ _ _ _ Hn Hp Hvis Hg Hp2) as H.
    intros Hv2. apply H. unfold rt_visited in Hv2. rewrite <- C2. rewrite map_map. cbn [fst]. exact Hv2.
  Qed.

  Lemma timers_total_and_cids ep :
    subseq (cids (timers ep)) (cids ep) /\ cids (timers ep) = cids (after_rt ep)
    /\ next_cid (timers ep) = next_cid ep /\ ep_now (timers ep) = ep_now ep
    /\ (length (table (timers ep)) <= length (table ep))%nat
    /\ incl (cids (timers ep)) (cids ep)
    /\ (NoDup (cids ep) -> NoDup (cids (timers ep)))
    /\ (forall n, CidOK E (table ep) n -> CidOK E (table (timers ep)) n).
  Proof.
    destruct (timers_cids ep) as (A1 & A2 & A3 & A4). destruct (timers_total ep) as (B1 & B2 & B3 & B4).
    exact (conj A1 (conj A2 (conj A3 (conj A4 (conj B1 (conj B2 (conj B3 B4))))))).
  Qed.

  (** the definitions used in the statements, written out *)
  Lemma timers_parts ep :
    after_rt ep = rt_loop (S (length (table ep))) 0 ep
    /\ after_dpd ep = sweep (check_dpd P) (map fst (table (after_rt ep))) (after_rt ep)
    /\ timers ep = sweep (check_lifetime P) (map fst (table (after_dpd ep))) (after_dpd ep)
    /\ rt_visits ep = rt_log (S (length (table ep))) 0 ep
    /\ (forall cid, rt_visited ep cid <-> In cid (map v_cid (rt_visits ep)))
    /\ cids ep = map fst (table ep).
  Proof. repeat split; auto. Qed.
  Lemma rt_log_def fuel i ep :
    rt_log 0 i ep = []
    /\ rt_log (S fuel) i ep = match nth_error (table ep) i with
                              | None => []
                              | Some (cid, s) => (i, cid, ep, s) :: rt_log fuel (S i) (rt_visit ep cid s)
                              end.
  Proof. split; reflexivity. Qed.
  Lemma rt_visit_def ep cid (s : esa) :
    rt_visit ep cid s =
    (if rt_gone (ep_now ep) s
     then teardown (do_call ep cid (check_retransmission P (enter ep s) (ep_now ep))) cid
                   (call_result (check_retransmission P) ep s)
     else do_call ep cid (check_retransmission P (enter ep s) (ep_now ep)))
    /\ rt_gone (ep_now ep) s = dispatch_remove (state P (call_result (check_retransmission P) ep s)).
  Proof. split; [reflexivity|symmetry; apply rt_gone_result]. Qed.
  Lemma sweep_log_def (f : timer_fn) cid r ep :
    sweep_log f [] ep = []
    /\ sweep_log f (cid :: r) ep =
       match find (fun x => Nat.eqb (fst x) cid) (table ep) with
       | None => sweep_log f r ep
       | Some (_, s) => (cid, ep, s) :: sweep_log f r (do_call ep cid (f (enter ep s) (ep_now ep)))
       end.
  Proof. split; reflexivity. Qed.
  Lemma swept_def (f : timer_fn) t (x y : nat * esa) :
    swept f t x y <-> fst y = fst x /\ exists ep', ep_now ep' = t /\ snd y = call_result f ep' (snd x).
  Proof. reflexivity. Qed.
  Lemma rt_closed_defs t c (s : esa) (r : list (nat * esa)) :
    (rt_pat t false [] = [] /\ rt_pat t true [] = []
     /\ rt_pat t true ((c, s) :: r) = false :: rt_pat t false r
     /\ rt_pat t false ((c, s) :: r) = true :: rt_pat t (rt_gone t s) r)
    /\ (rt_vis t false [] = [] /\ rt_vis t true [] = []
        /\ rt_vis t true ((c, s) :: r) = rt_vis t false r
        /\ rt_vis t false ((c, s) :: r) = (c, s) :: rt_vis t (rt_gone t s) r)
    /\ (rt_tab t false [] = [] /\ rt_tab t true [] = []
        /\ rt_tab t true ((c, s) :: r) = (c, s) :: rt_tab t false r
        /\ rt_tab t false ((c, s) :: r)
           = if rt_gone t s then rt_tab t true r
             else (c, settle t (fst (check_retransmission P s t))) :: rt_tab t false r).
  Proof. repeat split; reflexivity. Qed.
  Lemma rt_teardown_def (v : visit) :
    rt_teardown_state v
    = inner P (enter (do_call (v_ep v) (v_cid v) (check_retransmission P (enter (v_ep v) (v_sa v)) (ep_now (v_ep v))))
                     (call_result (check_retransmission P) (v_ep v) (v_sa v)))
    /\ rt_teardown_kops v = kops (snd (delete_child_sas (rt_teardown_state v)))
    /\ children (co (rt_teardown_state v)) = children (co (inner P (v_sa v)))
    /\ my_addr (co (rt_teardown_state v)) = my_addr (co (inner P (v_sa v)))
    /\ peer_addr (co (rt_teardown_state v)) = peer_addr (co (inner P (v_sa v)))
    /\ new_sa (rt_teardown_state v) = new_sa (inner P (v_sa v))
    /\ kops (rt_teardown_state v) = [].
  Proof. split; [reflexivity|]. split; [reflexivity|]. apply rt_teardown_state_facts. Qed.
  Lemma pre_timers_def ep tnow tp e :
    iteration E ep tnow tp e = timers (pre_timers ep tnow tp e)
    /\ ep_now (pre_timers ep tnow tp e) = tnow
    /\ pre_timers ep tnow tp e = event_step E (start E ep tnow tp) e
    /\ table (pre_timers ep tnow tp Ev_none) = table ep.
  Proof. split; [reflexivity|]. split; [apply now_pre_timers|]. split; reflexivity. Qed.
End Timers.

(* ------------------------------------------------------------------------------------------------ *)
(** * H. Non-vacuity: a table of three IkeSas with outstanding requests *)
Module TimersExample.
  Import HdlSad.Example.
  Notation P0 := (hdl_iface E0).

  Definition rq (id : Z) : dgram body := mk_dgram (mk_hdr 1 2 2 0 EX_INFORMATIONAL false true id) ([], []).
  (** an IkeSa with an outstanding request: CHILD_SAs, local SPI, retransmission deadline and count, request bytes *)
  Definition ent (chs : list child) (spi : Z) (at_ n : Z) (d : option (dgram body)) : esa E0 :=
    mk_sa P0 (mk_isa (core0 ST_NEW_CHILD_REQ_SENT chs) None None 0 [] []) false spi 0 0 None d at_ n 1000 2000 3000 60 [].
  (** A has used up its retransmissions (and owns the CHILD_SA whose keys are installed), B and C have not *)
  Definition sA : esa E0 := ent [ch1] 11 10 4 (Some (rq 6)).
  Definition sB : esa E0 := ent [] 12 10 1 (Some (rq 7)).
  Definition sC : esa E0 := ent [] 13 10 2 (Some (rq 8)).
  Definition ep3 : endpoint E0 :=
    mk_ep E0 [(0%nat, sA); (1%nat, sB); (2%nat, sC)] 3 EpExample.cfs [9%N] [] 0 [] [] None None.
  Definition tp1 : list draw := [D_verdict true; D_verdict true].
  Definition it1 : endpoint E0 := iteration E0 ep3 100 tp1 Ev_none.
  Definition it2 : endpoint E0 := iteration E0 it1 101 [] Ev_none.
  (** creation index, state, retransmissions, deadline of every entry *)
  Definition obs (ep : endpoint E0) : list (nat * Z * Z * Z) :=
    map (fun x : nat * esa E0 => (fst x, state P0 (snd x), rt_n P0 (snd x), rt_at P0 (snd x))) (table E0 ep).

  (** the sweep at t = 100: A (position 0) gives up and is removed with its two kernel SAs; B (position 1) is passed
      over - its retransmission, due since t = 10, is NOT sent and its counter stays 1; C (position 2) is visited
      and retransmits *)
  Example first_iteration :
    map (v_cid E0) (rt_visits E0 (pre_timers E0 ep3 100 tp1 Ev_none)) = [0%nat; 2%nat]
    /\ obs it1 = [(1%nat, ST_NEW_CHILD_REQ_SENT, 1, 10); (2%nat, ST_NEW_CHILD_REQ_SENT, 3, 16)]
    /\ ep_sent E0 it1 = [rq 8]
    /\ ep_kops E0 it1 = [K_del 20 50 [0;0;0;2]%N true; K_del 10 50 [0;0;0;1]%N true]
    /\ apply_kops own1 (ep_kops E0 it1) = [].
  Proof. repeat split; vm_compute; reflexivity. Qed.
  (** the next iteration: B, now at position 0, is visited and retransmits *)
  Example second_iteration :
    map (v_cid E0) (rt_visits E0 (pre_timers E0 it1 101 [] Ev_none)) = [1%nat; 2%nat]
    /\ obs it2 = [(1%nat, ST_NEW_CHILD_REQ_SENT, 2, 14); (2%nat, ST_NEW_CHILD_REQ_SENT, 4, 24)]
    /\ ep_sent E0 it2 = [rq 7; rq 8] /\ ep_kops E0 it2 = [].
  Proof. repeat split; vm_compute; reflexivity. Qed.

  (** the hypotheses of the theorems of sections F and G hold for this endpoint *)
  Example ep3_inv : EInv E0 ep3 own1.
  Proof.
    split.
    - unfold TInv. split; [nodup_tac|]. split; [intros k; vm_compute; tauto|]. split; [vm_compute; nodup_tac|].
      split; [intros c s [H|[H|[H|[]]]]; injection H as <- <-; apply WF_no_successor; reflexivity|].
      split; [cbn; nodup_tac|]. split; [intros c [<-|[<-|[<-|[]]]]; cbn; lia|].
      intros c s [H|[H|[H|[]]]]; injection H as <- <-; (split; [cbn; repeat constructor|intros n Hn; discriminate Hn]).
    - intros c s [H|[H|[H|[]]]]; injection H as <- <-; intros n Hn; discriminate Hn.
  Qed.
  Example ep3_ok : iter_ok E0 ep3 100 tp1 Ev_none /\ faithful_run own1 (ep_kops E0 (iteration E0 ep3 100 tp1 Ev_none)).
  Proof. split; EpExample.ok_tac. Qed.
  Example ep3_give_up :
    In (0%nat, sA) (table E0 (pre_timers E0 ep3 100 tp1 Ev_none))
    /\ rt_visited E0 (pre_timers E0 ep3 100 tp1 Ev_none) 0 /\ rt_gone E0 100 sA = true
    /\ on_schedule P0 (-10) sA /\ rt_n P0 sA = MAX_RETRANSMISSIONS.
  Proof.
    split; [left; reflexivity|]. split; [vm_compute; left; reflexivity|]. split; [vm_compute; reflexivity|].
    split; [|vm_compute; reflexivity]. unfold on_schedule. vm_compute. split; [discriminate|reflexivity].
  Qed.
  Example ep3_all :
    EInv E0 ep3 own1 /\ iter_ok E0 ep3 100 tp1 Ev_none /\ faithful_run own1 (ep_kops E0 (iteration E0 ep3 100 tp1 Ev_none))
    /\ In (0%nat, sA) (table E0 (pre_timers E0 ep3 100 tp1 Ev_none))
    /\ rt_visited E0 (pre_timers E0 ep3 100 tp1 Ev_none) 0 /\ rt_gone E0 100 sA = true.
  Proof.
    destruct ep3_ok as [H1 H2]. destruct ep3_give_up as (H3 & H4 & H5 & _).
    exact (conj ep3_inv (conj H1 (conj H2 (conj H3 (conj H4 H5))))).
  Qed.
  (** B is passed over in the first iteration although its retransmission is due *)
  Example ep3_skipped :
    NoDup (cids E0 (pre_timers E0 ep3 100 tp1 Ev_none))
    /\ In (1%nat, sB) (table E0 (pre_timers E0 ep3 100 tp1 Ev_none))
    /\ ~ rt_visited E0 (pre_timers E0 ep3 100 tp1 Ev_none) 1
    /\ rt_states (state P0 sB) = true /\ rt_at P0 sB < 100 /\ rt_n P0 sB < MAX_RETRANSMISSIONS
    /\ req_data P0 sB = Some (rq 7) /\ ~ In (rq 7) (ep_sent E0 (timers E0 (pre_timers E0 ep3 100 tp1 Ev_none))).
  Proof.
    split. { vm_compute. nodup_tac. }
    split. { right. left. reflexivity. }
    split. { vm_compute. intros [H|[H|[]]]; discriminate H. }
    split. { vm_compute. reflexivity. }
    split. { vm_compute. reflexivity. }
    split. { vm_compute. reflexivity. }
    split. { vm_compute. reflexivity. }
    vm_compute. intros [H|[]]. discriminate H.
  Qed.

  (** the bound of [served_within] is attained: C, at position 2, is passed over twice (first B, then A gives up
      just in front of it) and is visited in the third iteration *)
  Definition ep3b : endpoint E0 :=
    mk_ep E0 [(0%nat, ent [] 11 100 4 (Some (rq 6))); (1%nat, ent [] 12 10 4 (Some (rq 7))); (2%nat, ent [] 13 10 1 (Some (rq 8)))]
          3 EpExample.cfs [9%N] [] 0 [] [] None None.
  Definition hist3b : list step_in := [(100, [], Ev_none); (101, [], Ev_none); (102, [], Ev_none)].
  Example bound_is_tight :
    idx 2 (cids E0 ep3b) = 2%nat
    /\ map (v_cid E0) (rt_visits E0 (pre_timers E0 ep3b 100 [] Ev_none)) = [0%nat; 1%nat]
    /\ map (v_cid E0) (rt_visits E0 (pre_timers E0 (run E0 ep3b (firstn 1 hist3b)) 101 [] Ev_none)) = [0%nat]
    /\ map (v_cid E0) (rt_visits E0 (pre_timers E0 (run E0 ep3b (firstn 2 hist3b)) 102 [] Ev_none)) = [2%nat]
    /\ cids E0 (run E0 ep3b hist3b) = [2%nat] /\ ep_sent E0 (run E0 ep3b hist3b) = [rq 8].
  Proof. repeat split; vm_compute; reflexivity. Qed.

  (** what is FALSE of the model (and of main_loop): that every entry is visited by the retransmission sweep of
      every iteration, and that a retransmission that is due is sent in the iteration that finds it due *)
  Theorem every_entry_visited_refuted :
    ~ (forall (E : env) (ep : endpoint E) (cid : nat),
         NoDup (cids E ep) -> In cid (cids E ep) -> rt_visited E ep cid).
  Proof.
    intros H. destruct ep3_skipped as (H1 & H2 & H3 & _). apply H3. apply H; [exact H1|].
    apply in_map_iff. exists (1%nat, sB). auto.
  Qed.
  Theorem due_retransmission_sent_refuted :
    ~ (forall (E : env) (ep : endpoint E) (cid : nat) (s : esa E) (d : dgram body),
         NoDup (cids E ep) -> In (cid, s) (table E ep) ->
         rt_states (state (hdl_iface E) s) = true -> rt_at (hdl_iface E) s < ep_now E ep ->
         rt_n (hdl_iface E) s < MAX_RETRANSMISSIONS -> req_data (hdl_iface E) s = Some d ->
         In d (ep_sent E (timers E ep))).
  Proof.
    intros H. destruct ep3_skipped as (H1 & H2 & _ & H4 & H5 & H6 & H7 & H8). apply H8.
    apply (H E0 _ 1%nat sB (rq 7) H1 H2 H4); [|exact H6|exact H7].
    rewrite now_pre_timers. exact H5.
  Qed.
End TimersExample.
