(** Executable model of ikesacontroller.py: the IKE_SA table, dispatch_message, and the three timer loops of
    main_loop (including Python's semantics of removing from the list that is being iterated).

    Parametric in the behaviour of an IkeSa: [SA] is abstract, with the observations the controller makes
    (my_spi, state, peer address, successor, tracked kernel SAs) and its entry points as parameters, so the
    theorems hold for EVERY IkeSa behaviour.  Tests come from Gen/IkeFacts.v. *)
From Coq Require Import ZArith Bool List.
From IkeSa Require Import Gen.IkeFacts.
Import ListNotations.
Open Scope Z_scope.

(** what IkeSa.process_message can do as seen from dispatch_message *)
Inductive presult (SA D : Type) :=
| PDone (s : SA) (reply : option D)        (* returned normally *)
| PRaised (s : SA) (e : exn_class).        (* an exception escaped (only parse errors can) *)
Arguments PDone {SA D}. Arguments PRaised {SA D}.

Record ciface := mk_ciface {
  SA : Type; D : Type;
  sa_cid : SA -> nat;                       (* creation index: stands for Python object identity *)
  sa_my_spi : SA -> Z;
  sa_state : SA -> Z;
  sa_successor : SA -> option SA;           (* new_ike_sa *)
  sa_clear_successor : SA -> SA;            (* new_ike_sa = None *)
  sa_arm_cookie : SA -> SA;                 (* cookie_secret = controller's secret *)
  sa_kernel_keys : SA -> list Z;            (* identifiers of the kernel SAs of its CHILD_SAs *)
  sa_clear_children : SA -> SA;             (* delete_child_sas(): child_sas.clear() after the DELSAs *)
  sa_process : SA -> D -> presult SA D;     (* IkeSa.process_message(data) *)
  sa_check_retransmission : SA -> Z -> SA * option D;
  sa_check_dpd : SA -> Z -> SA * option D;
  sa_check_lifetime : SA -> Z -> SA * option D }.

Section Controller.
  Variable C : ciface.
  Notation SA := (SA C). Notation D := (D C).

  Definition table := list SA.

  (** header-only parse of the datagram, done by the caller's environment (the codec is C05/C06's subject) *)
  Inductive hparse := HBad (e : exn_class) | HOk (h_exch : Z) (h_req h_init : bool) (h_spi_i h_spi_r : Z).
  (** configuration lookup for (my_addr, peer_addr) and construction of the responder IkeSa *)
  Inductive newsa := NoConf (e : exn_class) | Fresh (s : SA).

  Definition catches (l : list exn_class) (e : exn_class) : bool :=
    existsb (fun c => match c, e with
                      | E_Exception, _ => true
                      | E_OSError, (E_OSError | E_gaierror) => true
                      | E_gaierror, E_gaierror => true
                      | E_KeyError, E_KeyError => true
                      | E_IkeSaError, E_IkeSaError => true
                      | E_ConfigurationNotFound, E_ConfigurationNotFound => true
                      | _, _ => false
                      end) l.

  Definition halfopen (t : table) : Z :=
    Z.of_nat (length (filter (fun s => Z.ltb (sa_state C s) ST_ESTABLISHED) t)).

  Fixpoint replace (t : table) (s : SA) : table :=
    match t with
    | [] => []
    | x :: r => if Nat.eqb (sa_cid C x) (sa_cid C s) then s :: r else x :: replace r s
    end.
  Fixpoint remove_cid (t : table) (c : nat) : table :=
    match t with
    | [] => []
    | x :: r => if Nat.eqb (sa_cid C x) c then r else x :: remove_cid r c
    end.

  (** outcome of one call of dispatch_message *)
  Record dres := mk_dres {
    dr_table : table;
    dr_reply : option D;
    dr_escaped : option exn_class;          (* exception leaving dispatch_message *)
    dr_handled_by : option nat;             (* cid of the IkeSa whose process_message ran *)
    dr_delsa : list Z }.                    (* kernel SAs deleted because the IkeSa was removed *)

  Definition finish (t : table) (s : SA) (reply : option D) : dres :=
    (* if rekeyed, add the new IkeSa (once) *)
    let '(t1, s1) :=
      match sa_successor C s with
      | Some n => if dispatch_register_successor (sa_state C s) true
                  then let s' := sa_clear_successor C s in (replace t s' ++ [n], s')
                  else (replace t s, s)
      | None => (replace t s, s)
      end in
    (* if the IKE_SA needs to be closed *)
    if dispatch_remove (sa_state C s1)
    then mk_dres (remove_cid t1 (sa_cid C s1)) reply None (Some (sa_cid C s1)) (sa_kernel_keys C s1)
    else mk_dres t1 reply None (Some (sa_cid C s1)) [].

  Definition dispatch (t : table) (hp : hparse) (mk : newsa) (data : D) : dres :=
    match hp with
    | HBad e => if catches dispatch_header_catches e then mk_dres t None None None []
                else mk_dres t None (Some e) None []
    | HOk exch req init spi_i spi_r =>
        if dispatch_is_init_request exch req then
          match mk with
          | NoConf e => if catches dispatch_conf_catches e then mk_dres t None None None []
                        else mk_dres t None (Some e) None []
          | Fresh s0 =>
              let t0 := t ++ [s0] in
              let s1 := if dispatch_arm_cookie (halfopen t0) then sa_arm_cookie C s0 else s0 in
              match sa_process C s1 data with
              | PRaised s2 e =>
                  if catches dispatch_process_catches e
                  then mk_dres (remove_cid (replace t0 s2) (sa_cid C s2)) None None (Some (sa_cid C s2)) []
                  else mk_dres (replace t0 s2) None (Some e) (Some (sa_cid C s2)) []
              | PDone s2 reply =>
                  (* an IKE_SA_INIT request that was ignored leaves the fresh IkeSa in INITIAL: it is dropped *)
                  if dispatch_drop_ignored (sa_state C s2)
                  then mk_dres (remove_cid (replace t0 s2) (sa_cid C s2)) reply None (Some (sa_cid C s2)) []
                  else finish t0 s2 reply
              end
          end
        else
          let spi := dispatch_my_spi init spi_i spi_r in
          match find (fun s => Z.eqb (sa_my_spi C s) spi) t with
          | None => mk_dres t None None None []
          | Some s =>
              match sa_process C s data with
              | PRaised s2 e =>
                  if catches dispatch_process_catches e
                  then mk_dres (replace t s2) None None (Some (sa_cid C s2)) []
                  else mk_dres (replace t s2) None (Some e) (Some (sa_cid C s2)) []
              | PDone s2 reply => finish t s2 reply
              end
          end
    end.

  (** `for ikesa in self.ike_sas:` with `self.ike_sas.remove(ikesa)` in the body: Python's list iterator keeps an
      index, so the element that follows a removed one is skipped in that sweep *)
  Fixpoint rt_loop (fuel : nat) (i : nat) (t : table) (now : Z) (out : list D) (del : list Z)
    : table * list D * list Z :=
    match fuel with
    | O => (t, out, del)
    | S fuel' =>
        match nth_error t i with
        | None => (t, out, del)
        | Some s =>
            let '(s1, o) := sa_check_retransmission C s now in
            let out' := match o with Some d => out ++ [d] | None => out end in
            if dispatch_remove (sa_state C s1)
            then rt_loop fuel' (S i) (remove_cid (replace t s1) (sa_cid C s1)) now out' (del ++ sa_kernel_keys C s1)
            else rt_loop fuel' (S i) (replace t s1) now out' del
        end
    end.

  Fixpoint map_loop (f : SA -> Z -> SA * option D) (t : table) (now : Z) : table * list D :=
    match t with
    | [] => ([], [])
    | s :: r =>
        let '(s1, o) := f s now in
        let '(r1, os) := map_loop f r now in
        (s1 :: r1, match o with Some d => d :: os | None => os end)
    end.

  Definition timers (t : table) (now : Z) : table * list D * list Z :=
    let '(t1, o1, del) := rt_loop (S (length t)) 0 t now [] [] in
    let '(t2, o2) := map_loop (sa_check_dpd C) t1 now in
    let '(t3, o3) := map_loop (sa_check_lifetime C) t2 now in
    (t3, o1 ++ o2 ++ o3, del).

End Controller.
