(** Entry point of the C09 correspondence: observed state transitions and collision answers of the real code. *)
From Coq Require Import ZArith Bool List String.
From VLib Require Import Sx.
From IkeSa Require Import Gen.IkeFacts Transitions.
Import ListNotations.
Open Scope Z_scope.

Definition pair_in (a b : Z) (l : list (Z * Z)) : bool := existsb (fun t => Z.eqb (fst t) a && Z.eqb (snd t) b) l.
(** one entry point call may chain two steps (a response handler followed by a queued trigger) *)
Definition step_ok (a b : Z) : bool :=
  Z.eqb a b || Z.eqb b ST_DELETED || pair_in a b code_transitions.
Definition observed_ok (a b : Z) : bool :=
  allowed a b && step_ok a b
  || existsb (fun c => allowed a c && step_ok a c && allowed c b && step_ok c b) all_states.

Definition coll_code (c : collision) : Z := match c with TemporaryFailure => 43 | ChildSaNotFound => 44 | NoCollision => 0 end.

Definition run_trans (x : sx) : sx :=
  match x with
  | SxL [SxZ 0; SxZ a; SxZ b] => sx_bool (observed_ok a b)
  | SxL [SxZ 1; SxZ st; SxZ rk; SxZ found; SxZ sd; SxZ sr] =>
      SxZ (coll_code (child_request_collision st (Z.eqb rk 1) (Z.eqb found 1) (Z.eqb sd 1) (Z.eqb sr 1)))
  | SxL [SxZ 2; SxZ st] => SxZ (coll_code (ike_rekey_request_collision st))
  | _ => bad_input
  end.
