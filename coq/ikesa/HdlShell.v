(** Consequences of the parametric shell theorems for the concrete IkeSa model (shell + handler model), and the one
    shell-owned field a handler writes (rekey_ike_sa_at, through [rek_push]): the hard lifetime deadline
    delete_ike_sa_at is never written after creation. *)
From Coq Require Import ZArith Bool List.
From RecordUpdate Require Import RecordSet.
From VLib Require Import Bytes.
From IkeSa Require Import Gen.IkeFacts Shell ShellProofs ShellTrace Hdl.
Import ListNotations RecordSetNotations.
Open Scope Z_scope.

Section Concrete.
  Variable E : env.
  Let P := hdl_iface E.

  (** C03 for the concrete model: an unauthenticated datagram to an IkeSa that has keys leaves the complete concrete
      state - state, key ring, CHILD_SAs, exchange context, successor, kernel operations issued, timers, caches -
      exactly as it was *)
  Lemma unauthenticated_no_effect_concrete : forall (s : sa P) (m : pmsg body) (now : Z),
    cprop (co (inner P s)) <> None -> p_auth m = false ->
    let s' := fst (process_message P s m now) in
    s' = s /\ children (co (inner P s')) = children (co (inner P s)) /\ kops (inner P s') = kops (inner P s)
    /\ kr (co (inner P s')) = kr (co (inner P s)) /\ st (co (inner P s')) = st (co (inner P s))
    /\ (snd (process_message P s m now) = None \/ snd (process_message P s m now) = last_resp P s).
  Proof.
    intros s m now Hk Ha.
    assert (Hkeys : has_keys P (inner P s) = true).
    { unfold P in *. cbn [has_keys hdl_iface]. destruct (cprop (co (inner (hdl_iface E) s))) eqn:Ec; [reflexivity|].
      exfalso. apply Hk. reflexivity. }
    destruct (unauthenticated_no_effect P s m now Hkeys Ha) as [H | [H _]]; rewrite H; cbn [fst snd];
      repeat split; auto.
  Qed.

  (** the shell never writes the hard deadline, whatever the handlers do *)
  Ltac crush :=
    repeat (cbn [fst snd del_at with_inner with_state set_my_id set_pending set_dpd_at send_request] in *;
            match goal with
            | |- context [let '(_, _) := ?x in _] => destruct x eqn:?
            | |- context [match ?x with _ => _ end] => destruct x eqn:?
            | H : context [match ?x with _ => _ end] |- _ => destruct x eqn:?
            | H : (_, _) = (_, _) |- _ => inversion H; subst; clear H
            end);
    cbn [fst snd del_at] in *; try reflexivity; try assumption.

  Lemma del_at_process_trigger : forall (s : sa P) now e, del_at P (fst (process_trigger P s now e)) = del_at P s.
  Proof. intros s now e. unfold process_trigger, with_inner, set_pending, send_request. crush. Qed.

  Lemma del_at_run_pending : forall evs (s : sa P) now, del_at P (fst (run_pending P evs s now)) = del_at P s.
  Proof.
    induction evs as [|e rest IH]; intros s now; cbn [run_pending fst]; [reflexivity|].
    pose proof (del_at_process_trigger (set_pending P s (tl (pending P s))) now e) as Ht.
    destruct (process_trigger P (set_pending P s (tl (pending P s))) now e) as [s1 [d|]]; cbn [fst] in *.
    - exact Ht.
    - rewrite IH. exact Ht.
  Qed.

  Lemma del_at_process_request : forall (s : sa P) m, del_at P (fst (process_request P s m)) = del_at P s.
  Proof. intros s m. unfold process_request, with_state, with_inner. crush. Qed.

  Lemma del_at_process_response : forall (s : sa P) m now, del_at P (fst (process_response P s m now)) = del_at P s.
  Proof.
    intros s m now. unfold process_response.
    destruct (res_id_unexpected _ _ _); [reflexivity|].
    destruct (negb _); [reflexivity|].
    destruct (handle_response P _ m) as [i' out].
    destruct out as [[[exch bd]|] rs|]; unfold with_state, with_inner, set_my_id, send_request; try (crush; fail).
    set (s2 := if rs then _ else _).
    assert (H2 : del_at P s2 = del_at P s) by (unfold s2; destruct rs; reflexivity).
    destruct (Z.eqb (state P s2) ST_ESTABLISHED); [| exact H2].
    rewrite del_at_run_pending. exact H2.
  Qed.

  Lemma del_at_process_message : forall (s : sa P) m now, del_at P (fst (process_message P s m now)) = del_at P s.
  Proof.
    intros s m now. unfold process_message.
    destruct (process_message_decision _ _ _ _ _ _ _ _ _ _ _ _ _ _) as [reset ret].
    set (s0 := if reset then set_dpd_at P s (now + dpd_cfg P s) else s).
    assert (H0 : del_at P s0 = del_at P s) by (unfold s0; destruct reset; reflexivity).
    destruct ret; cbn [fst]; try exact H0.
    - rewrite del_at_process_request. exact H0.
    - rewrite del_at_process_response. exact H0.
  Qed.

  Lemma del_at_timers : forall (s : sa P) now,
    del_at P (fst (check_retransmission P s now)) = del_at P s /\
    del_at P (fst (check_dpd P s now)) = del_at P s /\
    del_at P (fst (check_lifetime P s now)) = del_at P s.
  Proof.
    intros s now. unfold check_retransmission, check_dpd, check_lifetime, with_state, with_inner, send_request.
    repeat split; crush.
  Qed.
End Concrete.
