(** C16 (status): the control-socket status query on the whole-endpoint model of Endpoint.v.

    The query is the event [Ev_status] of [iteration].  The answer ([ep_status]) is written by the event step only,
    from the table as it is when the query arrives; no other event and no part of the timer section writes it; and
    writing it has no effect on anything else the iteration does.  All of this follows from one commutation fact:
    every controller-level function commutes with overwriting [ep_status] ([ws]). *)
From Coq Require Import ZArith NArith Bool List.
From RecordUpdate Require Import RecordSet.
From VLib Require Import Bytes.
From IkeSa Require Import Gen.IkeFacts Shell Hdl HdlSad Endpoint EndpointSad EndpointTimers.
Import ListNotations RecordSetNotations.
Open Scope Z_scope.

Section Status.
  Variable E : env.
  Let P := hdl_iface E.
  Notation endpoint := (endpoint E).
  Notation esa := (esa E).
  Notation answer := (option (list (status_entry))).

  (** overwrite the answer field *)
  Definition ws (x : answer) (ep : endpoint) : endpoint := set (Endpoint.ep_status E) (fun _ => x) ep.

  Lemma ws_status x ep : ep_status E (ws x ep) = x.
  Proof. reflexivity. Qed.
  Lemma ws_self ep : ws (ep_status E ep) ep = ep.
  Proof. destruct ep; reflexivity. Qed.
  Lemma ws_table x ep : table E (ws x ep) = table E ep.
  Proof. reflexivity. Qed.

  (** ** what one entry of the answer says *)
  Lemma def_status_of (s : esa) :
    su_my_spi (status_of E s) = my_spi_b (co (inner P s))
    /\ su_peer_spi (status_of E s) = peer_spi_b (co (inner P s))
    /\ su_init (status_of E s) = is_init P s
    /\ su_state (status_of E s) = state P s
    /\ su_msg_id (status_of E s) = my_id P s
    /\ su_children (status_of E s)
       = map (fun ch => (c_in ch, c_out ch, pr_proto (c_prop ch), c_mode ch)) (children (co (inner P s))).
  Proof. repeat split. Qed.

  (** ** every controller-level function commutes with [ws] *)
  Lemma enter_ws x ep (s : esa) : enter E (ws x ep) s = enter E ep s.
  Proof. reflexivity. Qed.
  Lemma leave_ws x ep (s : esa) : leave E (ws x ep) s = (ws x (fst (leave E ep s)), snd (leave E ep s)).
  Proof. reflexivity. Qed.
  Lemma send_ws x ep d : send E (ws x ep) d = ws x (send E ep d).
  Proof. destruct d; reflexivity. Qed.
  Lemma find_conf_ws x ep my peer : find_conf E (ws x ep) my peer = find_conf E ep my peer.
  Proof. reflexivity. Qed.

  Lemma teardown_ws x ep cid (s : esa) : teardown E (ws x ep) cid s = ws x (teardown E ep cid s).
  Proof.
    unfold teardown. rewrite enter_ws.
    destruct (delete_child_sas (inner (hdl_iface E) (enter E ep s))) as [r i'].
    rewrite leave_ws. destruct (leave E ep (with_inner (hdl_iface E) (enter E ep s) i')) as [ep1 s1]. reflexivity.
  Qed.

  Lemma finish_ws x ep cid (s : esa) : finish E (ws x ep) cid s = ws x (finish E ep cid s).
  Proof.
    unfold finish.
    destruct (new_sa (inner (hdl_iface E) s)) as [nc|].
    - destruct (dispatch_register_successor (state (hdl_iface E) s) true).
      + match goal with |- (if ?b then _ else _) = _ => destruct b end; [|reflexivity].
        match goal with |- teardown E ?a ?c ?t = ws x (teardown E ?b ?c ?t) =>
          change a with (ws x b); apply teardown_ws end.
      + match goal with |- (if ?b then _ else _) = _ => destruct b end; [|reflexivity].
        match goal with |- teardown E ?a ?c ?t = ws x (teardown E ?b ?c ?t) =>
          change a with (ws x b); apply teardown_ws end.
    - match goal with |- (if ?b then _ else _) = _ => destruct b end; [|reflexivity].
      match goal with |- teardown E ?a ?c ?t = ws x (teardown E ?b ?c ?t) =>
        change a with (ws x b); apply teardown_ws end.
  Qed.

  Definition ws3 (x : answer) (r : option (endpoint * nat * esa)) : option (endpoint * nat * esa) :=
    match r with Some (ep0, cid, s) => Some (ws x ep0, cid, s) | None => None end.
  Lemma create_ws x ep ii pspi c my peer : create E (ws x ep) ii pspi c my peer = ws3 x (create E ep ii pspi c my peer).
  Proof.
    unfold create. change (ep_now E (ws x ep)) with (ep_now E ep). change (ep_tape E (ws x ep)) with (ep_tape E ep).
    destruct (new_core ii pspi (empty_core c my peer) _) as [[nc|z|] i1]; reflexivity.
  Qed.

  Lemma dispatch_ws x ep d : dispatch E (ws x ep) d = ws x (dispatch E ep d).
  Proof.
    destruct d as [|h my peer parsed]; [reflexivity|]. unfold dispatch.
    destruct (dispatch_is_init_request (h_exch h) (negb (h_resp h))).
    - rewrite find_conf_ws. destruct (find_conf E ep my peer) as [c|]; [|reflexivity].
      rewrite create_ws. destruct (create E ep false (be_encode 8 (Z.to_N (h_spi_i h))) c my peer) as [[[ep0 cid] s0]|];
        [|reflexivity].
      cbn [ws3]. change (table E (ws x ep0)) with (table E ep0).
      change (ep_cookie_secret E (ws x ep0)) with (ep_cookie_secret E ep0).
      match goal with |- context [if dispatch_arm_cookie ?a then ?b else s0] =>
        set (s1 := if dispatch_arm_cookie a then b else s0) end.
      destruct parsed as [m|]; [|reflexivity].
      set (ep1 := set (Endpoint.ep_routed E) _ (set (Endpoint.table E) _ ep0)).
      match goal with |- context [process_message _ (enter E ?a s1) m (ep_now E ?a)] => change a with (ws x ep1) end.
      rewrite enter_ws. change (ep_now E (ws x ep1)) with (ep_now E ep1).
      destruct (process_message (hdl_iface E) (enter E ep1 s1) m (ep_now E ep1)) as [s2 reply].
      rewrite leave_ws. destruct (leave E ep1 s2) as [ep2 s3]. cbn [fst snd].
      destruct (Z.eqb (state (hdl_iface E) s3) ST_INITIAL).
      + match goal with |- send E ?a reply = ws x (send E ?b reply) => change a with (ws x b); apply send_ws end.
      + rewrite send_ws. apply finish_ws.
    - change (table E (ws x ep)) with (table E ep).
      match goal with |- context [find ?f (table E ep)] => destruct (find f (table E ep)) as [[cid s]|] end; [|reflexivity].
      destruct parsed as [m|]; [|reflexivity].
      set (ep1 := set (Endpoint.ep_routed E) _ ep).
      match goal with |- context [process_message _ (enter E ?a s) m (ep_now E ?a)] => change a with (ws x ep1) end.
      rewrite enter_ws. change (ep_now E (ws x ep1)) with (ep_now E ep1).
      destruct (process_message (hdl_iface E) (enter E ep1 s) m (ep_now E ep1)) as [s2 reply].
      rewrite leave_ws. destruct (leave E ep1 s2) as [ep2 s3]. cbn [fst snd].
      rewrite send_ws. apply finish_ws.
  Qed.

  Lemma acquire_ws x ep my peer tsi tsr index :
    acquire E (ws x ep) my peer tsi tsr index = ws x (acquire E ep my peer tsi tsr index).
  Proof.
    unfold acquire. change (table E (ws x ep)) with (table E ep). rewrite find_conf_ws.
    match goal with |- context [find ?f (table E ep)] => destruct (find f (table E ep)) as [[cid s]|] end.
    - rewrite enter_ws. change (ep_now E (ws x ep)) with (ep_now E ep).
      destruct (process_trigger (hdl_iface E) (enter E ep s) (ep_now E ep) (E_acquire tsi tsr index)) as [s2 reply].
      rewrite leave_ws. destruct (leave E ep s2) as [ep2 s3]. cbn [fst snd andb].
      match goal with |- send E ?a reply = ws x (send E ?b reply) => change a with (ws x b); apply send_ws end.
    - destruct (find_conf E ep my peer) as [c|]; [|reflexivity].
      rewrite create_ws. destruct (create E ep true (repeat 0%N 8) c my peer) as [[[ep0 cid] s]|]; [|reflexivity].
      cbn [ws3]. rewrite enter_ws. change (ep_now E (ws x ep0)) with (ep_now E ep0).
      destruct (process_trigger (hdl_iface E) (enter E ep0 s) (ep_now E ep0) (E_acquire tsi tsr index)) as [s2 reply].
      rewrite leave_ws. destruct (leave E ep0 s2) as [ep2 s3]. cbn [fst snd andb].
      destruct (acquire_drop_unstarted (state (hdl_iface E) s3));
        match goal with |- send E ?a reply = ws x (send E ?b reply) => change a with (ws x b); apply send_ws end.
  Qed.

  Lemma expire_ws x ep spi hard : expire E (ws x ep) spi hard = ws x (expire E ep spi hard).
  Proof.
    unfold expire. change (table E (ws x ep)) with (table E ep).
    match goal with |- context [find ?f (table E ep)] => destruct (find f (table E ep)) as [[cid s]|] end; [|reflexivity].
    rewrite enter_ws. change (ep_now E (ws x ep)) with (ep_now E ep).
    destruct (process_trigger (hdl_iface E) (enter E ep s) (ep_now E ep) (E_expire spi hard)) as [s2 reply].
    rewrite leave_ws. destruct (leave E ep s2) as [ep2 s3]. cbn [fst snd].
    match goal with |- send E ?a reply = ws x (send E ?b reply) => change a with (ws x b); apply send_ws end.
  Qed.

  Lemma rt_loop_ws x fuel : forall i ep, rt_loop E fuel i (ws x ep) = ws x (rt_loop E fuel i ep).
  Proof.
    induction fuel as [|fuel IH]; intros i ep; [reflexivity|]. cbn [rt_loop].
    change (table E (ws x ep)) with (table E ep).
    destruct (nth_error (table E ep) i) as [[cid s]|]; [|reflexivity].
    rewrite enter_ws. change (ep_now E (ws x ep)) with (ep_now E ep).
    destruct (check_retransmission (hdl_iface E) (enter E ep s) (ep_now E ep)) as [s1 o].
    rewrite leave_ws. destruct (leave E ep s1) as [ep1 s2]. cbn [fst snd].
    match goal with |- context [send E ?a o] =>
      match a with context [ws x ep1] =>
        match goal with |- _ = ws x (if _ then rt_loop E _ _ (teardown E (send E ?b o) _ _) else _) =>
          change a with (ws x b) end end end.
    rewrite send_ws.
    destruct (dispatch_remove (state (hdl_iface E) s2)); [rewrite teardown_ws|]; apply IH.
  Qed.

  Lemma sweep_ws x f cids : forall ep, sweep E f cids (ws x ep) = ws x (sweep E f cids ep).
  Proof.
    induction cids as [|cid r IH]; intros ep; [reflexivity|]. cbn [sweep].
    change (table E (ws x ep)) with (table E ep).
    match goal with |- context [find ?f (table E ep)] => destruct (find f (table E ep)) as [[c s]|] end; [|apply IH].
    rewrite enter_ws. change (ep_now E (ws x ep)) with (ep_now E ep).
    destruct (f (enter E ep s) (ep_now E ep)) as [s1 o].
    rewrite leave_ws. destruct (leave E ep s1) as [ep1 s2]. cbn [fst snd].
    match goal with |- sweep E f r (send E ?a o) = ws x (sweep E f r (send E ?b o)) => change a with (ws x b) end.
    rewrite send_ws. apply IH.
  Qed.

  Lemma timers_ws x ep : timers E (ws x ep) = ws x (timers E ep).
  Proof.
    unfold timers. change (table E (ws x ep)) with (table E ep).
    rewrite rt_loop_ws. rewrite ws_table. rewrite sweep_ws. rewrite ws_table. apply sweep_ws.
  Qed.

  (** ** a function that commutes with [ws] neither writes the answer nor depends on it *)
  Lemma commutes_keeps (f : endpoint -> endpoint) :
    (forall x ep, f (ws x ep) = ws x (f ep)) -> forall ep, ep_status E (f ep) = ep_status E ep.
  Proof. intros H ep. rewrite <- (ws_self ep) at 1. rewrite H. reflexivity. Qed.

  Theorem timers_keep_status ep : ep_status E (timers E ep) = ep_status E ep.
  Proof. apply (commutes_keeps (timers E)). exact timers_ws. Qed.
  Lemma dispatch_keeps_status ep d : ep_status E (dispatch E ep d) = ep_status E ep.
  Proof. apply (commutes_keeps (fun ep => dispatch E ep d)). intros; apply dispatch_ws. Qed.
  Lemma acquire_keeps_status ep my peer a b i : ep_status E (acquire E ep my peer a b i) = ep_status E ep.
  Proof. apply (commutes_keeps (fun ep => acquire E ep my peer a b i)). intros; apply acquire_ws. Qed.
  Lemma expire_keeps_status ep spi hard : ep_status E (expire E ep spi hard) = ep_status E ep.
  Proof. apply (commutes_keeps (fun ep => expire E ep spi hard)). intros; apply expire_ws. Qed.

  (** ** the iteration *)
  Lemma iteration_status_eq ep tnow tp :
    iteration E ep tnow tp Ev_status
    = ws (Some (map (fun x => status_of E (snd x)) (table E ep))) (iteration E ep tnow tp Ev_none).
  Proof. rewrite !iteration_eq. cbn [event_step]. apply (timers_ws _ (start E ep tnow tp)). Qed.

  Theorem status_query_reports_the_table ep tnow tp :
    ep_status E (iteration E ep tnow tp Ev_status) = Some (map (fun x => status_of E (snd x)) (table E ep)).
  Proof. rewrite iteration_status_eq. reflexivity. Qed.

  Theorem status_query_length ep tnow tp :
    exists l, ep_status E (iteration E ep tnow tp Ev_status) = Some l /\ length l = length (table E ep)
              /\ forall n c s, nth_error (table E ep) n = Some (c, s) -> nth_error l n = Some (status_of E s).
  Proof.
    eexists. split; [apply status_query_reports_the_table|]. split; [apply map_length|].
    intros n c s H. rewrite nth_error_map, H. reflexivity.
  Qed.

  Theorem no_status_without_query ep tnow tp e :
    e <> Ev_status -> ep_status E (iteration E ep tnow tp e) = None.
  Proof.
    intros He. rewrite iteration_eq, timers_keep_status.
    destruct e as [d|my peer a b i|spi hard| |]; cbn [event_step].
    - apply dispatch_keeps_status.
    - apply acquire_keeps_status.
    - apply expire_keeps_status.
    - exfalso; apply He; reflexivity.
    - reflexivity.
  Qed.

  Theorem no_status_for_other_events ep tnow tp :
    (forall d, ep_status E (iteration E ep tnow tp (Ev_datagram d)) = None)
    /\ (forall my peer tsi tsr index, ep_status E (iteration E ep tnow tp (Ev_acquire my peer tsi tsr index)) = None)
    /\ (forall spi hard, ep_status E (iteration E ep tnow tp (Ev_expire spi hard)) = None)
    /\ ep_status E (iteration E ep tnow tp Ev_none) = None.
  Proof. repeat split; intros; apply no_status_without_query; discriminate. Qed.

  Theorem status_query_changes_nothing_else ep tnow tp :
    let a := iteration E ep tnow tp Ev_status in
    let b := iteration E ep tnow tp Ev_none in
    table E a = table E b /\ next_cid E a = next_cid E b /\ confs E a = confs E b
    /\ ep_cookie_secret E a = ep_cookie_secret E b /\ ep_tape E a = ep_tape E b /\ ep_now E a = ep_now E b
    /\ ep_kops E a = ep_kops E b /\ ep_sent E a = ep_sent E b /\ ep_routed E a = ep_routed E b.
  Proof.
    cbv zeta. rewrite iteration_status_eq. generalize (iteration E ep tnow tp Ev_none); intros b.
    repeat split.
  Qed.
End Status.

(** ** a concrete endpoint with two IkeSas: A has used up its retransmissions and is removed by the timer section of
    the very iteration that carries the query - the answer still lists it (the query is answered first) *)
Module StatusExample.
  Import HdlSad.Example TimersExample.
  Definition ep2 : endpoint E0 :=
    mk_ep E0 [(0%nat, sA); (1%nat, sB)] 2 EpExample.cfs [9%N] [] 0 [] [] None None.
  Definition after : endpoint E0 := iteration E0 ep2 100 tp1 Ev_status.
  Definition brief (l : option (list (status_entry))) : option (list (bytes * bool * Z * Z * nat)) :=
    match l with
    | Some l => Some (map (fun u => (su_my_spi u, su_init u, su_state u, su_msg_id u,
                                     length (su_children u))) l)
    | None => None
    end.
  Example status_answer :
    brief (ep_status E0 after)
    = Some [(my_spi_b (co (inner P0 sA)), false, ST_NEW_CHILD_REQ_SENT, 0, 1%nat);
            (my_spi_b (co (inner P0 sB)), false, ST_NEW_CHILD_REQ_SENT, 0, 0%nat)]
    /\ ep_status E0 after = Some [status_of E0 sA; status_of E0 sB]
    /\ map fst (table E0 after) = [1%nat]
    /\ ep_status E0 (iteration E0 ep2 100 tp1 Ev_none) = None.
  Proof. repeat split; vm_compute; reflexivity. Qed.
End StatusExample.
