(** C01 model: how the two roles of a CHILD_SA negotiation build their ChildSa from the messages, and how
    Xfrm.create_child_sa turns a ChildSa and a keyring into the two kernel SAs.  Every field value is an abstract
    [V] (SPIs, selectors, proposals, keys, addresses are opaque here); WHICH value goes WHERE is given by the
    generated tables of Gen/IkeFacts.v, interpreted below. *)
From Coq Require Import ZArith Bool List.
From IkeSa Require Import Gen.IkeFacts.
Import ListNotations.

Section Mirror.
  Variable V : Type.

  Record childsa := mk_childsa { c_in : V; c_out : V; c_prop : V; c_tsi : V; c_tsr : V; c_mode : V }.
  Record keyring := mk_keyring { sk_ei : V; sk_er : V; sk_ai : V; sk_ar : V }.

  Definition set_field (c : childsa) (f : cfield) (v : V) : childsa :=
    match f with
    | F_inbound_spi => mk_childsa v (c_out c) (c_prop c) (c_tsi c) (c_tsr c) (c_mode c)
    | F_outbound_spi => mk_childsa (c_in c) v (c_prop c) (c_tsi c) (c_tsr c) (c_mode c)
    | F_proposal => mk_childsa (c_in c) (c_out c) v (c_tsi c) (c_tsr c) (c_mode c)
    | F_tsi => mk_childsa (c_in c) (c_out c) (c_prop c) v (c_tsr c) (c_mode c)
    | F_tsr => mk_childsa (c_in c) (c_out c) (c_prop c) (c_tsi c) v (c_mode c)
    | F_mode => mk_childsa (c_in c) (c_out c) (c_prop c) (c_tsi c) (c_tsr c) v
    end.

  (** what the responder sees / draws when it handles the request *)
  Record resp_env := mk_resp_env {
    req_spi : V;          (* SPI of the chosen proposal = the SPI the initiator put into its SA payload *)
    fresh_spi : V;        (* os.urandom(4) *)
    chosen_prop : V; chosen_tsi : V; chosen_tsr : V; req_mode : V; conf_life : V; conf_prop : V }.
  Definition rsrc (e : resp_env) (s : rsource) : V :=
    match s with
    | S_REQ_SPI => req_spi e | S_FRESH => fresh_spi e | S_CHOSEN_PROP => chosen_prop e | S_CHOSEN_TSR => chosen_tsr e
    | S_CHOSEN_TSI => chosen_tsi e | S_REQ_MODE => req_mode e | S_CONF_LIFE => conf_life e | S_CONF_PROP => conf_prop e
    end.
  (** ChildSa(...) of _process_create_child_sa_negotiation_req *)
  Definition responder_child (dflt : childsa) (e : resp_env) : childsa :=
    fold_left (fun c fs => set_field c (fst fs) (rsrc e (snd fs))) resp_child dflt.

  (** what the response carries: SA payload with the responder's inbound SPI, TSi = chosen_tsi, TSr = chosen_tsr *)
  Record response := mk_response { res_spi : V; res_prop : V; res_tsi : V; res_tsr : V; res_mode : V }.
  Definition response_of (e : resp_env) (r : childsa) : response :=
    mk_response (c_in r) (chosen_prop e) (chosen_tsi e) (chosen_tsr e) (req_mode e).
  Definition isrc (r : response) (s : isource) : V :=
    match s with S_RES_SPI => res_spi r | S_RES_PROP => res_prop r | S_RES_TSI => res_tsi r | S_RES_TSR => res_tsr r end.
  (** creating_child_sa._replace(...) of _process_create_child_sa_negotiation_res *)
  Definition initiator_child (creating : childsa) (r : response) : childsa :=
    fold_left (fun c fs => set_field c (fst fs) (isrc r (snd fs))) init_replace creating.

  (** Xfrm.create_child_sa: parameters of the two create_sa calls *)
  Record sa_params := mk_sa_params {
    p_src_sel : V; p_dst_sel : V; p_spi : V; p_mode : V; p_src : V; p_dst : V; p_ekey : V; p_akey : V; p_prop : V }.

  Definition pick_key (k : keyring) (n : keyname) : V :=
    match n with K_sk_ei => sk_ei k | K_sk_er => sk_er k | K_sk_ai => sk_ai k | K_sk_ar => sk_ar k end.
  (** local names (sk_ei, sk_er, sk_ai, sk_ar) after the role-dependent assignment *)
  Definition local_keys (k : keyring) (is_initiator : bool) : keyring :=
    match map (pick_key k) (if is_initiator then keys_init else keys_resp) with
    | [a; b; c; d] => mk_keyring a b c d
    | _ => k
    end.

  Definition arg_val (c : childsa) (k : keyring) (my_addr peer_addr : V) (a : sa_arg) : V :=
    match a with
    | A_SRC_SEL | A_SRC_PORT | A_IP_PROTO => c_tsi c     (* selector, port and protocol all come from child_sa.tsi *)
    | A_DST_SEL | A_DST_PORT => c_tsr c
    | A_OUT_SPI => c_out c | A_IN_SPI => c_in c
    | A_IPSEC_PROTO | A_ENCR_ALG | A_INTEG_ALG => c_prop c
    | A_MODE => c_mode c | A_MY_ADDR => my_addr | A_PEER_ADDR => peer_addr
    | A_SK_EI => sk_ei k | A_SK_ER => sk_er k | A_SK_AI => sk_ai k | A_SK_AR => sk_ar k
    | A_LIFETIME => c_mode c                              (* lifetimes are local (jitter): not part of the mirror *)
    end.

  Definition lookup (l : list (sa_param * sa_arg)) (p : sa_param) (d : sa_arg) : sa_arg :=
    match find (fun pa => match fst pa, p with
                          | P_src_selector, P_src_selector | P_dst_selector, P_dst_selector | P_spi, P_spi
                          | P_mode, P_mode | P_src, P_src | P_dst, P_dst | P_sk_e, P_sk_e | P_sk_a, P_sk_a
                          | P_ipsec_proto, P_ipsec_proto => true
                          | _, _ => false
                          end) l with
    | Some pa => snd pa
    | None => d
    end.

  Definition build (call : list (sa_param * sa_arg)) (c : childsa) (k : keyring) (my_addr peer_addr : V) : sa_params :=
    let g p := arg_val c k my_addr peer_addr (lookup call p A_LIFETIME) in
    mk_sa_params (g P_src_selector) (g P_dst_selector) (g P_spi) (g P_mode) (g P_src) (g P_dst) (g P_sk_e) (g P_sk_a)
                 (g P_ipsec_proto).

  (** (outbound SA, inbound SA) an endpoint installs *)
  Definition create_child_sa (c : childsa) (k : keyring) (is_initiator : bool) (my_addr peer_addr : V)
    : sa_params * sa_params :=
    let lk := local_keys k is_initiator in
    (build out_call c lk my_addr peer_addr, build in_call c lk my_addr peer_addr).

End Mirror.
