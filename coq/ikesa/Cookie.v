(** C18 model: the responder's cookie check (first thing _process_ike_sa_negotiation_request does after looking the
    three payloads up), the COOKIE reply built by the shell from the CookieRequired exception, the arming of the
    cookie secret by the controller, and the initiator's retry.  [mac] is HMAC-SHA256 (a Section variable). *)
From Coq Require Import ZArith Bool List.
From VLib Require Import Bytes.
From IkeSa Require Import Gen.IkeFacts.
Import ListNotations.
Open Scope Z_scope.

Section Cookie.
  Variable mac : bytes -> bytes -> bytes.

  Definition expected_cookie (secret spi_i nonce addr : bytes) : bytes := mac secret (spi_i ++ nonce ++ addr).

  Fixpoint bytes_eqb (a b : bytes) : bool :=
    match a, b with
    | [], [] => true
    | x :: r, y :: s => N.eqb x y && bytes_eqb r s
    | _, _ => false
    end.

  (** outcome of the part of the IKE_SA_INIT request handler that precedes all negotiation work *)
  Inductive pre :=
  | PayloadMissing                 (* PayloadNotFound: SA, NONCE or KE absent -> single error notify, DELETED *)
  | CookieRequired (c : bytes)     (* -> response whose only payload is N(COOKIE, c); IKE_SA DELETED and removed *)
  | Proceed.                       (* proposal selection, nonce, Diffie-Hellman, key derivation follow *)

  (** [dh_calls] counts Diffie-Hellman key generations: the prefix performs none (the only DH call of the handler is
      after it, see the statement-order check of the translator) *)
  Definition request_prefix (secret : option bytes) (has_sa has_nonce has_ke : bool)
             (spi_i nonce addr : bytes) (cookies : list bytes) : pre * nat :=
    if negb (has_sa && has_nonce && has_ke) then (PayloadMissing, O)
    else match secret with
         | None => (Proceed, O)
         | Some k =>
             let e := expected_cookie k spi_i nonce addr in
             let first_equal := match cookies with c :: _ => bytes_eqb c e | [] => false end in
             if cookie_reject (Z.of_nat (length cookies)) first_equal then (CookieRequired e, O) else (Proceed, O)
         end.

  (** the initiator's reaction to N(COOKIE): the stored request with the notify placed first, Message ID 0 *)
  Definition cookie_retry {A} (payloads : list A) (cookie : A) : list A * Z := (cookie :: payloads, 0).

End Cookie.
