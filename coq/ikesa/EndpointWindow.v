(** C03 and C08 on the whole endpoint (Endpoint.v): what a datagram that the Message-ID window or the integrity check
    turns away does to the endpoint - the table, the kernel log, the tape, the datagrams sent - and which table entries
    a datagram can touch at all.

    A. shell level (every interface [P]): a message whose request handler does not run and which is not taken as a
       response has a closed-form result ([touch], [window_reply]); what a call of process_message / process_trigger /
       a timer check can emit.
    B. endpoint level: [dispatch] on such a message, as an equation between endpoints.
    C. the cases: unauthenticated with keys (C03), stale / retransmitted request, stale response (C08).
    D. any datagram: every entry other than the routed one is literally unchanged, in order.
    E. the timer section does not see the four environment fields of the entries: iteration-level corollary.
    F. request numbering at the call sites of the endpoint.
    G. concrete endpoints. *)
From Coq Require Import ZArith NArith Bool List Lia ZifyBool.
From RecordUpdate Require Import RecordSet.
From VLib Require Import Bytes.
From IkeSa Require Import Gen.IkeFacts Shell ShellProofs ShellTrace Hdl HdlSad HdlShell Endpoint EndpointSad EndpointTimers.
Import ListNotations RecordSetNotations.
Open Scope Z_scope.

Definition olist {A} (o : option A) : list A := match o with Some x => [x] | None => [] end.

(* ------------------------------------------------------------------------------------------------ *)
(** * A. Shell level *)
Section ShellWindow.
  Variable P : iface.
  Notation sa := (Shell.sa P).
  Notation pmsg := (Shell.pmsg (B P)).

  (** the only write of process_message before the window tests: the liveness (DPD) timer, re-armed when the message
      reaches _process_request / _process_response *)
  Definition touch (s : sa) (m : pmsg) (now : Z) : sa :=
    if fst (decision P s m) then set_dpd_at P s (now + dpd_cfg P s) else s.
  (** what a message that is turned away can obtain: the stored response, or nothing *)
  Definition window_reply (s : sa) (m : pmsg) : option (dgram (B P)) :=
    match snd (decision P s m) with
    | RCached => last_resp P s
    | RRequest => if req_is_retransmission (h_id (p_hdr m)) (peer_id P s) (my_id P s) then last_resp P s else None
    | _ => None
    end.

  Lemma touch_fields s m now :
    inner P (touch s m now) = inner P s /\ is_init P (touch s m now) = is_init P s
    /\ my_spi P (touch s m now) = my_spi P s /\ my_id P (touch s m now) = my_id P s
    /\ peer_id P (touch s m now) = peer_id P s /\ last_resp P (touch s m now) = last_resp P s
    /\ req_data P (touch s m now) = req_data P s /\ rt_at P (touch s m now) = rt_at P s
    /\ rt_n P (touch s m now) = rt_n P s /\ rek_at P (touch s m now) = rek_at P s
    /\ del_at P (touch s m now) = del_at P s /\ dpd_cfg P (touch s m now) = dpd_cfg P s
    /\ pending P (touch s m now) = pending P s
    /\ dpd_at P (touch s m now) = (if fst (decision P s m) then now + dpd_cfg P s else dpd_at P s).
  Proof. unfold touch. destruct (fst (decision P s m)); repeat split; reflexivity. Qed.

  (** a message whose request handler does not run and that is not taken as a response *)
  Lemma quiet_message s m now :
    executes P s m = false -> accepts P s m = false ->
    process_message P s m now = (touch s m now, window_reply s m).
  Proof.
    intros He Ha. unfold executes, accepts in *. unfold process_message, touch, window_reply.
    change (process_message_decision _ _ _ _ _ _ _ _ _ _ _ _ _ _) with (decision P s m).
    destruct (decision P s m) as [reset ret]. cbn [fst snd] in *.
    destruct (reset_ids P reset s (now + dpd_cfg P s)) as (Rp & Rm & Ri & Rl).
    set (s0 := if reset then set_dpd_at P s (now + dpd_cfg P s) else s) in *.
    destruct ret.
    - reflexivity.
    - rewrite Rl. reflexivity.
    - unfold process_request. rewrite Rp, Rm, Rl.
      unfold req_is_retransmission, req_id_unexpected in *.
      destruct (Z.eqb (h_id (p_hdr m)) (Z.sub (peer_id P s) 1)); [reflexivity|].
      destruct (Z.eqb (h_id (p_hdr m)) (peer_id P s)); cbn [negb andb] in *; [|reflexivity].
      rewrite He. reflexivity.
    - unfold process_response, res_id_unexpected. rewrite Rm, Ha. reflexivity.
  Qed.

  (** ** the cases *)
  (** C03: keys exist and the integrity check failed *)
  Lemma decision_unauthenticated s m :
    has_keys P (inner P s) = true -> p_auth m = false ->
    fst (decision P s m) = false /\ executes P s m = false /\ accepts P s m = false
    /\ (window_reply s m = None
        \/ (window_reply s m = last_resp P s /\ snd (decision P s m) = RCached
            /\ h_exch (p_hdr m) = EX_IKE_SA_INIT /\ h_resp (p_hdr m) = false /\ state P s = ST_INIT_RES_SENT
            /\ h_id (p_hdr m) = peer_id P s - 1)).
  Proof.
    intros Hk Ha. unfold executes, accepts, window_reply, decision, process_message_decision. rewrite Hk, Ha.
    repeat match goal with |- context [if ?c then (_, _) else _] => destruct c eqn:? end;
      cbn [andb negb fst snd] in *; try discriminate; try (repeat split; try reflexivity; left; reflexivity).
    repeat split; try reflexivity. right. repeat split; try reflexivity; lia.
  Qed.

  (** the liveness timer is re-armed exactly when the message is let through to the window tests and is FRESH: it
      carries the receive counter (request) / the send counter (response) *)
  Definition addressed (s : sa) (m : pmsg) : bool :=
    negb (Bool.eqb (h_init (p_hdr m)) (is_init P s))
    && (Z.eqb (h_exch (p_hdr m)) EX_IKE_SA_INIT
        || (Z.eqb (h_spi_i (p_hdr m)) (spi_i P s) && Z.eqb (h_spi_r (p_hdr m)) (spi_r P s))).
  Definition fresh (s : sa) (m : pmsg) : bool :=
    Z.eqb (h_id (p_hdr m)) (if h_resp (p_hdr m) then my_id P s else peer_id P s).
  Lemma decision_let_through s m :
    (has_keys P (inner P s) && negb (p_auth m))%bool = false ->
    decision P s m
    = if addressed s m then (fresh s m, if h_resp (p_hdr m) then RResponse else RRequest) else (false, RNone).
  Proof.
    intros Ha. unfold decision, addressed, fresh, process_message_decision. rewrite Ha.
    destruct (Bool.eqb _ _); cbn [negb andb]; [reflexivity|].
    destruct (Z.eqb (h_exch (p_hdr m)) EX_IKE_SA_INIT); cbn [negb andb orb].
    - destruct (h_resp (p_hdr m)); cbn [negb]; destruct (Z.eqb _ _); reflexivity.
    - destruct (Z.eqb (h_spi_i (p_hdr m)) (spi_i P s) && Z.eqb (h_spi_r (p_hdr m)) (spi_r P s)); cbn [negb];
        [|reflexivity].
      destruct (h_resp (p_hdr m)); cbn [negb]; destruct (Z.eqb _ _); reflexivity.
  Qed.
  Lemma decision_authentic s m :
    p_auth m = true ->
    decision P s m
    = if addressed s m then (fresh s m, if h_resp (p_hdr m) then RResponse else RRequest) else (false, RNone).
  Proof. intros Ha. apply decision_let_through. rewrite Ha. apply andb_false_r. Qed.
  Lemma decision_rearm_iff s m :
    fst (decision P s m) = true
    <-> ((has_keys P (inner P s) = false \/ p_auth m = true) /\ addressed s m = true /\ fresh s m = true).
  Proof.
    destruct (has_keys P (inner P s) && negb (p_auth m))%bool eqn:Hk.
    - apply andb_prop in Hk. destruct Hk as [Hk Ha]. apply negb_true_iff in Ha. split.
      + intros H. exfalso. unfold decision, process_message_decision in H. rewrite Hk, Ha in H. cbn [andb negb] in H.
        repeat match type of H with context [if ?c then (_, _) else _] => destruct c end; cbn [fst] in H; discriminate H.
      + intros [[H|H] _]; congruence.
    - rewrite (decision_let_through s m Hk). split.
      + intros H. destruct (addressed s m); cbn [fst] in H; [|discriminate H]. split; [|split; [reflexivity|exact H]].
        apply andb_false_iff in Hk. destruct Hk as [Hk|Hk]; [left; exact Hk|right; apply negb_false_iff; exact Hk].
      + intros (_ & -> & H). exact H.
  Qed.

  (** C08: a request outside the window *)
  Lemma decision_stale_request s m :
    h_resp (p_hdr m) = false -> h_id (p_hdr m) <> peer_id P s -> h_id (p_hdr m) <> peer_id P s - 1 ->
    fst (decision P s m) = false /\ executes P s m = false /\ accepts P s m = false /\ window_reply s m = None.
  Proof.
    intros Hr H1 H2. pose proof (decision_request P s m Hr) as Hq.
    assert (Hf : fst (decision P s m) = false).
    { destruct (fst (decision P s m)) eqn:Hd; [|reflexivity]. apply decision_rearm_iff in Hd. destruct Hd as (_ & _ & Hd).
      unfold fresh in Hd. rewrite Hr in Hd. lia. }
    split; [exact Hf|].
    unfold executes, accepts, window_reply in *. unfold req_is_retransmission.
    destruct (snd (decision P s m)) eqn:Ed; try (repeat split; reflexivity); try congruence.
    - (* RCached: only with id = peer_id - 1 *)
      exfalso. unfold decision, process_message_decision in Ed.
      repeat match type of Ed with context [if ?c then (_, _) else _] => destruct c eqn:? end;
        cbn [snd andb] in *; try discriminate. lia.
    - assert (Z.eqb (h_id (p_hdr m)) (peer_id P s) = false) as -> by lia.
      assert (Z.eqb (h_id (p_hdr m)) (Z.sub (peer_id P s) 1) = false) as -> by lia.
      repeat split; reflexivity.
  Qed.

  (** C08: a copy of the previous request *)
  Lemma decision_retransmitted_request s m :
    h_resp (p_hdr m) = false -> h_id (p_hdr m) = peer_id P s - 1 ->
    fst (decision P s m) = false /\ executes P s m = false /\ accepts P s m = false
    /\ (snd (decision P s m) = RNone /\ window_reply s m = None
        \/ (snd (decision P s m) = RCached \/ snd (decision P s m) = RRequest) /\ window_reply s m = last_resp P s).
  Proof.
    intros Hr H1. pose proof (decision_request P s m Hr) as Hq.
    assert (Hf : fst (decision P s m) = false).
    { destruct (fst (decision P s m)) eqn:Hd; [|reflexivity]. apply decision_rearm_iff in Hd. destruct Hd as (_ & _ & Hd).
      unfold fresh in Hd. rewrite Hr in Hd. lia. }
    split; [exact Hf|].
    unfold executes, accepts, window_reply in *. unfold req_is_retransmission.
    assert (Z.eqb (h_id (p_hdr m)) (peer_id P s) = false) as -> by lia.
    assert (Z.eqb (h_id (p_hdr m)) (Z.sub (peer_id P s) 1) = true) as -> by lia.
    destruct (snd (decision P s m)) eqn:Ed; try congruence; cbn [andb]; repeat split; auto.
  Qed.

  (** C08: a response that is not the one awaited *)
  Lemma decision_stale_response s m :
    h_resp (p_hdr m) = true -> h_id (p_hdr m) <> my_id P s ->
    fst (decision P s m) = false /\ executes P s m = false /\ accepts P s m = false /\ window_reply s m = None.
  Proof.
    intros Hr H1. destruct (decision_response P s m Hr) as [Hq1 Hq2].
    assert (Hf : fst (decision P s m) = false).
    { destruct (fst (decision P s m)) eqn:Hd; [|reflexivity]. apply decision_rearm_iff in Hd. destruct Hd as (_ & _ & Hd).
      unfold fresh in Hd. rewrite Hr in Hd. lia. }
    split; [exact Hf|].
    unfold executes, accepts, window_reply in *.
    destruct (snd (decision P s m)) eqn:Ed; try congruence; repeat split; try reflexivity. lia.
  Qed.

  (** the liveness deadline after process_message, whatever the handlers do: the shell writes it in one place *)
  Lemma dpd_at_process_trigger s now e : dpd_at P (fst (process_trigger P s now e)) = dpd_at P s.
  Proof.
    unfold process_trigger. destruct (if ev_is_acquire P e then _ else _); [reflexivity|].
    destruct (handle_trigger P (inner P s) e) as [i' [[exch body]|]]; reflexivity.
  Qed.
  Lemma dpd_at_run_pending evs : forall s now, dpd_at P (fst (run_pending P evs s now)) = dpd_at P s.
  Proof.
    induction evs as [|e rest IH]; intros s now; cbn [run_pending fst]; [reflexivity|].
    pose proof (dpd_at_process_trigger (set_pending P s (tl (pending P s))) now e) as Ht.
    destruct (process_trigger P (set_pending P s (tl (pending P s))) now e) as [s1 [d|]]; cbn [fst] in *.
    - exact Ht.
    - rewrite IH. exact Ht.
  Qed.
  Lemma dpd_at_process_request s m : dpd_at P (fst (process_request P s m)) = dpd_at P s.
  Proof.
    unfold process_request. destruct (req_is_retransmission _ _ _); [reflexivity|].
    destruct (req_id_unexpected _ _ _); [reflexivity|]. destruct (negb _); [reflexivity|].
    destruct (handle_request P (inner P s) m) as [i' [b|b]]; reflexivity.
  Qed.
  Lemma dpd_at_process_response s m now : dpd_at P (fst (process_response P s m now)) = dpd_at P s.
  Proof.
    unfold process_response. destruct (res_id_unexpected _ _ _); [reflexivity|]. destruct (negb _); [reflexivity|].
    destruct (handle_response P _ m) as [i' out].
    destruct out as [[[exch bd]|] rs|rs]; try (destruct rs; reflexivity).
    set (s2 := if rs then _ else _).
    assert (H2 : dpd_at P s2 = dpd_at P s) by (unfold s2; destruct rs; reflexivity).
    destruct (Z.eqb (state P s2) ST_ESTABLISHED); [|exact H2]. rewrite dpd_at_run_pending. exact H2.
  Qed.
  Lemma dpd_at_process_message s m now :
    dpd_at P (fst (process_message P s m now)) = if fst (decision P s m) then now + dpd_cfg P s else dpd_at P s.
  Proof.
    unfold process_message. change (process_message_decision _ _ _ _ _ _ _ _ _ _ _ _ _ _) with (decision P s m).
    destruct (decision P s m) as [reset ret]. cbn [fst].
    set (s0 := if reset then set_dpd_at P s (now + dpd_cfg P s) else s).
    assert (H0 : dpd_at P s0 = if reset then now + dpd_cfg P s else dpd_at P s) by (unfold s0; destruct reset; reflexivity).
    destruct ret; cbn [fst]; try exact H0.
    - rewrite dpd_at_process_request. exact H0.
    - rewrite dpd_at_process_response. exact H0.
  Qed.

  (** ** what one call can emit *)
  (** process_message: the stored response again, or a fresh response that carries the ID of the request just executed
      and is stored, or a request that carries the send counter and is stored as the outstanding request *)
  Lemma process_request_output s m s' d :
    process_request P s m = (s', Some d) ->
    (s' = s /\ last_resp P s = Some d /\ h_id (p_hdr m) = peer_id P s - 1)
    \/ (last_resp P s' = Some d /\ h_resp (d_hdr d) = true /\ h_id (d_hdr d) = peer_id P s
        /\ h_id (p_hdr m) = peer_id P s /\ peer_id P s' = peer_id P s + 1 /\ my_id P s' = my_id P s
        /\ req_data P s' = req_data P s).
  Proof.
    unfold process_request, req_is_retransmission, req_id_unexpected.
    destruct (Z.eqb (h_id (p_hdr m)) (Z.sub (peer_id P s) 1)) eqn:E1.
    { intros H. injection H as <- Hl. left. repeat split; [exact Hl|lia]. }
    destruct (Z.eqb (h_id (p_hdr m)) (peer_id P s)) eqn:E2; cbn [negb]; [|discriminate].
    destruct (negb (existsb (Z.eqb (h_exch (p_hdr m))) request_exchanges)); [discriminate|].
    destruct (handle_request P (inner P s) m) as [i' [b|b]]; intros H; injection H as <- <-; right; cbn;
      repeat split; try reflexivity; lia.
  Qed.

  Lemma send_request_output s now d0 s' d :
    send_request P s now d0 = (s', d) ->
    d = d0 /\ req_data P s' = Some d /\ my_id P s' = my_id P s /\ peer_id P s' = peer_id P s /\ inner P s' = inner P s
    /\ last_resp P s' = last_resp P s.
  Proof. unfold send_request. intros H. injection H as <- <-. repeat split; reflexivity. Qed.

  Lemma process_trigger_output s now ev s' d :
    process_trigger P s now ev = (s', Some d) ->
    h_id (d_hdr d) = my_id P s' /\ h_resp (d_hdr d) = false /\ req_data P s' = Some d /\ my_id P s' = my_id P s
    /\ peer_id P s' = peer_id P s /\ last_resp P s' = last_resp P s.
  Proof.
    unfold process_trigger.
    destruct (if ev_is_acquire P ev then acquire_must_queue (state P s) else expire_must_queue (state P s));
      [discriminate|].
    destruct (handle_trigger P (inner P s) ev) as [i' [[exch body]|]]; [|discriminate].
    cbn. intros H. injection H as <- <-. cbn. repeat split; reflexivity.
  Qed.

  Lemma run_pending_output evs : forall s now s' d,
    run_pending P evs s now = (s', Some d) ->
    h_id (d_hdr d) = my_id P s' /\ h_resp (d_hdr d) = false /\ req_data P s' = Some d /\ my_id P s' = my_id P s
    /\ peer_id P s' = peer_id P s /\ last_resp P s' = last_resp P s.
  Proof.
    induction evs as [|e r IH]; intros s now s' d; [discriminate|].
    cbn [run_pending].
    destruct (process_trigger P (set_pending P s (tl (pending P s))) now e) as [s1 [d1|]] eqn:Ht.
    - intros H. injection H as <- <-. exact (process_trigger_output _ _ _ _ _ Ht).
    - intros H. destruct (IH _ _ _ _ H) as (A1 & A2 & A3 & A4 & A5 & A6).
      destruct (trigger_ids P (set_pending P s (tl (pending P s))) now e) as [T1 T2]. rewrite Ht in T1, T2. cbn [fst] in *.
      change (peer_id P s1 = peer_id P s) in T1. change (my_id P s1 = my_id P s) in T2.
      assert (T3 : last_resp P s1 = last_resp P s).
      { revert Ht. unfold process_trigger.
        destruct (if ev_is_acquire P e then _ else _); [intros H1; injection H1 as <-; reflexivity|].
        destruct (handle_trigger P _ e) as [i' [[exch body]|]]; cbn; [discriminate|]. intros H1. injection H1 as <-. reflexivity. }
      repeat split; try assumption; congruence.
  Qed.

  Lemma process_response_output s m now s' d :
    process_response P s m now = (s', Some d) ->
    h_id (d_hdr d) = my_id P s' /\ h_resp (d_hdr d) = false /\ req_data P s' = Some d
    /\ h_id (p_hdr m) = my_id P s /\ (my_id P s' = my_id P s + 1 \/ my_id P s' = 0) /\ peer_id P s' = peer_id P s
    /\ last_resp P s' = last_resp P s.
  Proof.
    unfold process_response, res_id_unexpected.
    destruct (Z.eqb (h_id (p_hdr m)) (my_id P s)) eqn:E; cbn [negb]; [|discriminate].
    destruct (negb (existsb (Z.eqb (h_exch (p_hdr m))) response_exchanges)); [discriminate|].
    destruct (handle_response P (inner P (set_my_id P s (my_id P s + 1))) m) as [i' [[[exch body]|] reset|reset']].
    - destruct reset; cbn; intros H; injection H as <- <-; cbn; repeat split; try reflexivity; try lia; auto.
    - set (s2 := if reset then _ else _).
      assert (H2 : (my_id P s2 = my_id P s + 1 \/ my_id P s2 = 0) /\ peer_id P s2 = peer_id P s
                   /\ last_resp P s2 = last_resp P s).
      { unfold s2. destruct reset; cbn; repeat split; auto. }
      destruct (Z.eqb (state P s2) ST_ESTABLISHED); [|discriminate].
      intros H. destruct (run_pending_output _ _ _ _ _ H) as (A1 & A2 & A3 & A4 & A5 & A6).
      destruct H2 as (B1 & B2 & B3). repeat split; try assumption; try lia; try congruence.
    - discriminate.
  Qed.

  Lemma process_message_output s m now s' d :
    process_message P s m now = (s', Some d) ->
    (last_resp P s = Some d /\ last_resp P s' = Some d /\ h_resp (p_hdr m) = false /\ h_id (p_hdr m) = peer_id P s - 1
     /\ my_id P s' = my_id P s /\ peer_id P s' = peer_id P s /\ inner P s' = inner P s)
    \/ (last_resp P s' = Some d /\ h_resp (d_hdr d) = true /\ h_id (d_hdr d) = peer_id P s
        /\ h_resp (p_hdr m) = false /\ h_id (p_hdr m) = peer_id P s /\ peer_id P s' = peer_id P s + 1
        /\ my_id P s' = my_id P s /\ req_data P s' = req_data P s)
    \/ (h_resp (d_hdr d) = false /\ h_id (d_hdr d) = my_id P s' /\ req_data P s' = Some d
        /\ h_resp (p_hdr m) = true /\ h_id (p_hdr m) = my_id P s /\ (my_id P s' = my_id P s + 1 \/ my_id P s' = 0)
        /\ peer_id P s' = peer_id P s /\ last_resp P s' = last_resp P s).
  Proof.
    unfold process_message.
    change (process_message_decision _ _ _ _ _ _ _ _ _ _ _ _ _ _) with (decision P s m).
    pose proof (decision_request P s m) as Hreq. pose proof (decision_response P s m) as Hres.
    destruct (decision P s m) as [reset ret] eqn:Ed. cbn [snd] in *.
    destruct (reset_ids P reset s (now + dpd_cfg P s)) as (Rp & Rm & Ri & Rl).
    assert (Rq : req_data P (if reset then set_dpd_at P s (now + dpd_cfg P s) else s) = req_data P s)
      by (destruct reset; reflexivity).
    set (s0 := if reset then set_dpd_at P s (now + dpd_cfg P s) else s) in *.
    assert (Hq : ret = RCached \/ ret = RRequest -> h_resp (p_hdr m) = false).
    { intros Hn. destruct (h_resp (p_hdr m)) eqn:Hr; [|reflexivity]. destruct (Hres eq_refl) as [X Y].
      destruct Hn; congruence. }
    destruct ret.
    - discriminate.
    - intros H. injection H as <- Hl. left. rewrite Rl in Hl.
      assert (Hid : h_id (p_hdr m) = peer_id P s - 1).
      { unfold decision, process_message_decision in Ed.
        repeat match type of Ed with context [if ?c then (_, _) else _] => destruct c eqn:? end;
          cbn [andb] in *; try discriminate. lia. }
      repeat split; try assumption; try (apply Hq; auto; fail). rewrite Rl. exact Hl.
    - intros H. destruct (process_request_output _ _ _ _ H) as [(-> & A2 & A3)|(A1 & A2 & A3 & A4 & A5 & A6 & A7)].
      + left. rewrite Rl in A2. rewrite Rp in A3. repeat split; try assumption; try (apply Hq; auto; fail).
        rewrite Rl. exact A2.
      + right. left. rewrite Rp in *. rewrite Rm in *. rewrite Rq in *.
        repeat split; try assumption; apply Hq; auto.
    - intros H. destruct (process_response_output _ _ _ _ _ H) as (A1 & A2 & A3 & A4 & A5 & A6 & A7).
      right. right. rewrite Rm in *. rewrite Rp in *. rewrite Rl in *. repeat split; try assumption.
      destruct (h_resp (p_hdr m)) eqn:Hr; [reflexivity|]. exfalso. exact (Hreq eq_refl eq_refl).
  Qed.

  (** the timer checks: a retransmission is the stored request; DPD and lifetime build a request with the send counter *)
  Lemma check_dpd_output s now s' d :
    check_dpd P s now = (s', Some d) ->
    h_id (d_hdr d) = my_id P s' /\ h_resp (d_hdr d) = false /\ req_data P s' = Some d /\ my_id P s' = my_id P s.
  Proof.
    unfold check_dpd. destruct (dpd_due _ _ _); [|discriminate].
    destruct (gen_dpd P (inner P s)) as [i' [exch body]]. cbn. intros H. injection H as <- <-. cbn. repeat split; reflexivity.
  Qed.
  Lemma check_lifetime_output s now s' d :
    check_lifetime P s now = (s', Some d) ->
    h_id (d_hdr d) = my_id P s' /\ h_resp (d_hdr d) = false /\ req_data P s' = Some d /\ my_id P s' = my_id P s.
  Proof.
    unfold check_lifetime. destruct (Z.eqb (state P s) ST_ESTABLISHED); [|discriminate].
    destruct (life_delete_due _ _).
    - destruct (gen_delete_ike P (inner P s)) as [i' [exch body]]. cbn. intros H. injection H as <- <-. cbn.
      repeat split; reflexivity.
    - destruct (life_rekey_due _ _); [|discriminate].
      destruct (gen_rekey_ike P (inner P s)) as [i' [exch body]]. cbn. intros H. injection H as <- <-. cbn.
      repeat split; reflexivity.
  Qed.
  Lemma check_retransmission_output s now s' d :
    check_retransmission P s now = (s', Some d) ->
    req_data P s = Some d /\ req_data P s' = Some d /\ my_id P s' = my_id P s /\ inner P s' = inner P s.
  Proof.
    unfold check_retransmission. destruct (rt_states _); [|discriminate]. destruct (rt_due _ _); [|discriminate].
    destruct (rt_giveup _); [discriminate|]. intros H. injection H as <- Hd. cbn. repeat split; assumption.
  Qed.
End ShellWindow.

(* ------------------------------------------------------------------------------------------------ *)
(** * B. The dispatcher on a message that is turned away *)
Section EpWindow.
  Variable E : env.
  Notation P := (hdl_iface E).
  Notation esa := (Endpoint.esa E).
  Notation endpoint := (Endpoint.endpoint E).
  Notation table := (Endpoint.table E).
  Notation next_cid := (Endpoint.next_cid E).
  Notation ep_kops := (Endpoint.ep_kops E).
  Notation ep_sent := (Endpoint.ep_sent E).
  Notation ep_tape := (Endpoint.ep_tape E).
  Notation ep_now := (Endpoint.ep_now E).
  Notation enter := (Endpoint.enter E).
  Notation leave := (Endpoint.leave E).
  Notation replace := (Endpoint.replace E).
  Notation remove_cid := (Endpoint.remove_cid E).
  Notation settle := (EndpointTimers.settle E).

  (** the header-selected table entry *)
  Definition selects (h : hdr) (x : nat * esa) : bool :=
    Z.eqb (my_spi P (snd x)) (dispatch_my_spi (h_init h) (h_spi_i h) (h_spi_r h)).

  (** the endpoint after a call on the entry [cid] that ran no handler: the entry is written back, the reply (if any)
      is sent, the routing is recorded; nothing else *)
  Definition turned_away (ep : endpoint) (cid : nat) (s' : esa) (o : option (dgram body)) : endpoint :=
    mk_ep E (replace (table ep) cid s') (next_cid ep) (confs E ep) (ep_cookie_secret E ep) (ep_tape ep) (ep_now ep)
          (ep_kops ep) (ep_sent ep ++ olist o) (Some cid) (ep_status E ep).

  Lemma decision_enter ep (s : esa) m : decision P (enter ep s) m = decision P s m.
  Proof. reflexivity. Qed.
  Lemma executes_enter ep (s : esa) m : executes P (enter ep s) m = executes P s m.
  Proof. reflexivity. Qed.
  Lemma accepts_enter ep (s : esa) m : accepts P (enter ep s) m = accepts P s m.
  Proof. reflexivity. Qed.
  Lemma window_reply_enter ep (s : esa) m : window_reply P (enter ep s) m = window_reply P s m.
  Proof. reflexivity. Qed.
  Lemma leave_touch_enter ep (s : esa) m t :
    snd (leave ep (touch P (enter ep s) m t)) = settle (ep_now ep) (touch P s m t).
  Proof. unfold touch. rewrite decision_enter. destruct (fst (decision P s m)); reflexivity. Qed.
  Lemma fst_leave_touch_enter ep (s : esa) m t :
    fst (leave ep (touch P (enter ep s) m t))
    = set (Endpoint.ep_kops E) (fun _ => ep_kops ep ++ []) (set (Endpoint.ep_tape E) (fun _ => ep_tape ep) ep).
  Proof. unfold touch. rewrite decision_enter. destruct (fst (decision P s m)); reflexivity. Qed.

  Lemma Qe_settle t (s : esa) : Qe (inner P s) -> Qe (inner P (settle t s)).
  Proof. intros H. exact H. Qed.
  Lemma Qe_touch (s : esa) m t : Qe (inner P s) -> Qe (inner P (touch P s m t)).
  Proof. intros H. destruct (touch_fields P s m t) as (-> & _). exact H. Qed.

  (** the tail of dispatch_message on an entry that satisfies the table invariant: written back, nothing else *)
  Lemma finish_plain ep cid (s : esa) :
    Qe (inner P s) -> finish E ep cid s = with_table E ep (replace (table ep) cid s).
  Proof.
    intros [Hd Hh]. rewrite finish_eq.
    assert (Hp : finish_pre E ep cid s = (with_table E ep (replace (table ep) cid s), s)).
    { unfold finish_pre. destruct (new_sa (inner P s)) as [nc|] eqn:En; [|reflexivity].
      destruct (dispatch_register_successor (state P s) true) eqn:Er; [|reflexivity].
      exfalso. unfold dispatch_register_successor in Er. change (state P s) with (st (co (inner P s))) in Er.
      assert (Hx : handed (st (co (inner P s)))) by (unfold handed; lia).
      pose proof (Hh Hx) as Hn0. congruence. }
    rewrite Hp. cbn [fst snd].
    assert (Hr : dispatch_remove (state P s) = false).
    { unfold dispatch_remove. change (state P s) with (st (co (inner P s))). lia. }
    rewrite Hr. reflexivity.
  Qed.

  Lemma handle_turned_away ep cid (s : esa) (m : pmsg body) :
    Qe (inner P s) -> executes P s m = false -> accepts P s m = false ->
    handle E ep cid s m
    = mk_ep E (replace (table ep) cid (settle (ep_now ep) (touch P s m (ep_now ep)))) (next_cid ep) (confs E ep)
            (ep_cookie_secret E ep) (ep_tape ep) (ep_now ep) (ep_kops ep) (ep_sent ep ++ olist (window_reply P s m))
            (ep_routed E ep) (ep_status E ep).
  Proof.
    intros Hq He Ha. unfold handle. cbv zeta.
    rewrite (quiet_message P (enter ep s) m (ep_now ep)) by assumption. cbn [fst snd].
    rewrite leave_touch_enter, fst_leave_touch_enter, window_reply_enter.
    rewrite finish_plain by (apply Qe_settle, Qe_touch; exact Hq).
    destruct ep as [t n c k tp nw ko se ro su]. destruct (window_reply P s m); cbn; rewrite !app_nil_r; reflexivity.
  Qed.

  Theorem dispatch_turned_away ep h my peer (m : pmsg body) cid (s : esa) :
    dispatch_is_init_request (h_exch h) (negb (h_resp h)) = false ->
    find (selects h) (table ep) = Some (cid, s) -> Qe (inner P s) ->
    executes P s m = false -> accepts P s m = false ->
    dispatch E ep (Dg h my peer (Some m))
    = turned_away ep cid (settle (ep_now ep) (touch P s m (ep_now ep))) (window_reply P s m).
  Proof.
    intros Hi Hf Hq He Ha. destruct (dispatch_routes E ep h my peer m cid s Hi Hf) as [Hd _].
    etransitivity; [exact Hd|]. rewrite handle_turned_away by assumption. reflexivity.
  Qed.

  (** writing an entry back unchanged: the table is the table *)
  Lemma replace_same (t : list (nat * esa)) cid (s : esa) :
    NoDup (map fst t) -> In (cid, s) t -> replace t cid s = t.
  Proof.
    intros Hn Hin. destruct (table_split E t cid s Hin Hn) as (t1 & t2 & -> & Hc & _).
    apply replace_split. exact Hc.
  Qed.

  Lemma selected_in ep h cid (s : esa) : find (selects h) (table ep) = Some (cid, s) -> In (cid, s) (table ep).
  Proof. intros H. apply find_some in H. exact (proj1 H). Qed.
  Lemma selected_Qe ep h cid (s : esa) :
    AllQ E (table ep) -> find (selects h) (table ep) = Some (cid, s) -> Qe (inner P s).
  Proof. intros Ha Hf. exact (Ha cid s (selected_in ep h cid s Hf)). Qed.

  Lemma has_keys_cprop (s : esa) : cprop (co (inner P s)) <> None -> has_keys P (inner P s) = true.
  Proof. intros Hk. cbn [has_keys hdl_iface]. destruct (cprop (co (inner P s))); [reflexivity|]. exfalso. apply Hk. reflexivity. Qed.

  Lemma turned_away_fields ep cid (s' : esa) o :
    table (turned_away ep cid s' o) = replace (table ep) cid s' /\ next_cid (turned_away ep cid s' o) = next_cid ep
    /\ confs E (turned_away ep cid s' o) = confs E ep
    /\ ep_cookie_secret E (turned_away ep cid s' o) = ep_cookie_secret E ep
    /\ ep_tape (turned_away ep cid s' o) = ep_tape ep /\ ep_now (turned_away ep cid s' o) = ep_now ep
    /\ ep_kops (turned_away ep cid s' o) = ep_kops ep /\ ep_sent (turned_away ep cid s' o) = ep_sent ep ++ olist o
    /\ ep_routed E (turned_away ep cid s' o) = Some cid /\ ep_status E (turned_away ep cid s' o) = ep_status E ep.
  Proof. repeat split; reflexivity. Qed.

  (* ---------------------------------------------------------------------------------------------- *)
  (** * C. The cases *)

  (** ** C03 *)
  Theorem unauthenticated_datagram ep h my peer (m : pmsg body) cid (s : esa) :
    dispatch_is_init_request (h_exch h) (negb (h_resp h)) = false ->
    find (selects h) (table ep) = Some (cid, s) -> AllQ E (table ep) ->
    cprop (co (inner P s)) <> None -> p_auth m = false ->
    exists o,
      dispatch E ep (Dg h my peer (Some m)) = turned_away ep cid (settle (ep_now ep) s) o
      /\ (o = None
          \/ (o = last_resp P s /\ snd (decision P s m) = RCached /\ h_exch (p_hdr m) = EX_IKE_SA_INIT
              /\ h_resp (p_hdr m) = false /\ state P s = ST_INIT_RES_SENT /\ h_id (p_hdr m) = peer_id P s - 1)).
  Proof.
    intros Hi Hf Hq Hk Ha.
    destruct (decision_unauthenticated P s m (has_keys_cprop s Hk) Ha) as (D1 & D2 & D3 & D4).
    exists (window_reply P s m). split; [|exact D4].
    rewrite (dispatch_turned_away ep h my peer m cid s Hi Hf (selected_Qe ep h cid s Hq Hf) D2 D3).
    unfold touch. rewrite D1. reflexivity.
  Qed.

  (** the entry is literally the old one when it is stored as of this clock value *)
  Corollary unauthenticated_datagram_table ep h my peer (m : pmsg body) cid (s : esa) :
    dispatch_is_init_request (h_exch h) (negb (h_resp h)) = false ->
    find (selects h) (table ep) = Some (cid, s) -> AllQ E (table ep) -> NoDup (map fst (table ep)) ->
    cprop (co (inner P s)) <> None -> p_auth m = false -> settle (ep_now ep) s = s ->
    table (dispatch E ep (Dg h my peer (Some m))) = table ep.
  Proof.
    intros Hi Hf Hq Hn Hk Ha Hs. destruct (unauthenticated_datagram ep h my peer m cid s Hi Hf Hq Hk Ha) as (o & -> & _).
    cbn [turned_away Endpoint.table]. rewrite Hs. apply replace_same; [exact Hn|]. exact (selected_in ep h cid s Hf).
  Qed.

  (** when the header the dispatcher read is the header of the parsed message (one datagram), nothing is sent at all:
      the branch that re-sends the stored IKE_SA_INIT response cannot be reached through the dispatcher, which hands
      every IKE_SA_INIT request to a NEW IkeSa *)
  Corollary unauthenticated_datagram_one_header ep h my peer (m : pmsg body) cid (s : esa) :
    dispatch_is_init_request (h_exch h) (negb (h_resp h)) = false ->
    find (selects h) (table ep) = Some (cid, s) -> AllQ E (table ep) ->
    cprop (co (inner P s)) <> None -> p_auth m = false -> p_hdr m = h ->
    dispatch E ep (Dg h my peer (Some m)) = turned_away ep cid (settle (ep_now ep) s) None.
  Proof.
    intros Hi Hf Hq Hk Ha Hh. destruct (unauthenticated_datagram ep h my peer m cid s Hi Hf Hq Hk Ha) as (o & -> & [->|Ho]);
      [reflexivity|].
    exfalso. destruct Ho as (_ & _ & H1 & H2 & _). rewrite Hh in H1, H2. unfold dispatch_is_init_request in Hi.
    rewrite H1, H2 in Hi. discriminate Hi.
  Qed.

  Theorem stored_init_response_branch_unreachable ep h (m : pmsg body) cid (s : esa) :
    dispatch_is_init_request (h_exch h) (negb (h_resp h)) = false ->
    find (selects h) (table ep) = Some (cid, s) -> p_hdr m = h ->
    snd (decision P s m) <> RCached.
  Proof.
    intros Hi Hf Hh Hd. unfold decision, process_message_decision in Hd. subst h. change (B P) with body in *.
    unfold dispatch_is_init_request in Hi.
    repeat match type of Hd with context [if ?c then (_, _) else _] => destruct c eqn:? end;
      cbn [snd] in *; try discriminate.
    match goal with H : (_ && (_ && _))%bool = true |- _ => apply andb_prop in H; destruct H as [H1 H2];
      apply andb_prop in H2; destruct H2 as [H2 _] end.
    rewrite H1, H2 in Hi. discriminate Hi.
  Qed.

  Theorem unparsable_datagram ep h my peer cid (s : esa) :
    dispatch_is_init_request (h_exch h) (negb (h_resp h)) = false ->
    find (selects h) (table ep) = Some (cid, s) ->
    dispatch E ep (Dg h my peer None)
    = mk_ep E (table ep) (next_cid ep) (confs E ep) (ep_cookie_secret E ep) (ep_tape ep) (ep_now ep) (ep_kops ep)
            (ep_sent ep) (Some cid) (ep_status E ep).
  Proof.
    intros Hi Hf. rewrite (dispatch_unparsable E ep h my peer cid s Hi Hf). destruct ep. reflexivity.
  Qed.

  Theorem cached_reply_only_for_previous_request ep h my peer (m : pmsg body) cid (s : esa) :
    dispatch_is_init_request (h_exch h) (negb (h_resp h)) = false ->
    find (selects h) (table ep) = Some (cid, s) -> AllQ E (table ep) ->
    cprop (co (inner P s)) <> None -> p_auth m = false ->
    ep_sent (dispatch E ep (Dg h my peer (Some m))) <> ep_sent ep ->
    exists d, last_resp P s = Some d
              /\ ep_sent (dispatch E ep (Dg h my peer (Some m))) = ep_sent ep ++ [d]
              /\ snd (decision P s m) = RCached /\ h_exch (p_hdr m) = EX_IKE_SA_INIT /\ h_resp (p_hdr m) = false
              /\ state P s = ST_INIT_RES_SENT /\ h_id (p_hdr m) = peer_id P s - 1 /\ p_hdr m <> h.
  Proof.
    intros Hi Hf Hq Hk Ha Hs. destruct (unauthenticated_datagram ep h my peer m cid s Hi Hf Hq Hk Ha) as (o & Hd & Ho).
    rewrite Hd in *. cbn [turned_away Endpoint.ep_sent] in *. destruct Ho as [->|(-> & H1 & H2 & H3 & H4 & H5)].
    - exfalso. apply Hs. cbn. apply app_nil_r.
    - destruct (last_resp P s) as [d|] eqn:El; [|exfalso; apply Hs; cbn; apply app_nil_r].
      exists d. repeat split; try assumption; try reflexivity.
      intros Hh. exact (stored_init_response_branch_unreachable ep h m cid s Hi Hf Hh H1).
  Qed.

  (** ** C08 *)
  Lemma turned_away_table_same ep cid (s : esa) o :
    NoDup (map fst (table ep)) -> In (cid, s) (table ep) -> settle (ep_now ep) s = s ->
    table (turned_away ep cid (settle (ep_now ep) s) o) = table ep.
  Proof. intros Hn Hin Hs. cbn [turned_away Endpoint.table]. rewrite Hs. apply replace_same; assumption. Qed.

  (** a message that is turned away and is not fresh: the entry is exactly [settle now s] *)
  Theorem dispatch_turned_away_unchanged ep h my peer (m : pmsg body) cid (s : esa) :
    dispatch_is_init_request (h_exch h) (negb (h_resp h)) = false ->
    find (selects h) (table ep) = Some (cid, s) -> AllQ E (table ep) ->
    fst (decision P s m) = false -> executes P s m = false -> accepts P s m = false ->
    dispatch E ep (Dg h my peer (Some m)) = turned_away ep cid (settle (ep_now ep) s) (window_reply P s m)
    /\ (NoDup (map fst (table ep)) -> settle (ep_now ep) s = s ->
        table (dispatch E ep (Dg h my peer (Some m))) = table ep).
  Proof.
    intros Hi Hf Hq D0 D1 D2.
    assert (Hd : dispatch E ep (Dg h my peer (Some m)) = turned_away ep cid (settle (ep_now ep) s) (window_reply P s m)).
    { rewrite (dispatch_turned_away ep h my peer m cid s Hi Hf (selected_Qe ep h cid s Hq Hf) D1 D2).
      unfold touch. rewrite D0. reflexivity. }
    split; [exact Hd|]. intros Hn Hs. rewrite Hd. apply turned_away_table_same; [exact Hn| |exact Hs].
    exact (selected_in ep h cid s Hf).
  Qed.

  (** a request outside the window: neither the expected ID nor the one before *)
  Theorem stale_request ep h my peer (m : pmsg body) cid (s : esa) :
    dispatch_is_init_request (h_exch h) (negb (h_resp h)) = false ->
    find (selects h) (table ep) = Some (cid, s) -> AllQ E (table ep) ->
    h_resp (p_hdr m) = false -> h_id (p_hdr m) <> peer_id P s -> h_id (p_hdr m) <> peer_id P s - 1 ->
    dispatch E ep (Dg h my peer (Some m)) = turned_away ep cid (settle (ep_now ep) s) None
    /\ (NoDup (map fst (table ep)) -> settle (ep_now ep) s = s ->
        table (dispatch E ep (Dg h my peer (Some m))) = table ep).
  Proof.
    intros Hi Hf Hq Hr H1 H2. destruct (decision_stale_request P s m Hr H1 H2) as (D0 & D1 & D2 & D3).
    destruct (dispatch_turned_away_unchanged ep h my peer m cid s Hi Hf Hq D0 D1 D2) as [A1 A2].
    rewrite D3 in A1. split; assumption.
  Qed.

  Corollary stale_request_dropped ep h my peer (m : pmsg body) cid (s : esa) :
    dispatch_is_init_request (h_exch h) (negb (h_resp h)) = false ->
    find (selects h) (table ep) = Some (cid, s) -> AllQ E (table ep) ->
    h_resp (p_hdr m) = false -> h_id (p_hdr m) <> peer_id P s -> h_id (p_hdr m) <> peer_id P s - 1 ->
    dispatch E ep (Dg h my peer (Some m)) = turned_away ep cid (settle (ep_now ep) s) None.
  Proof. intros Hi Hf Hq Hr H1 H2. exact (proj1 (stale_request ep h my peer m cid s Hi Hf Hq Hr H1 H2)). Qed.

  (** [touch]: re-arm the liveness timer iff the message is let through, addressed to this IKE_SA and fresh *)
  Lemma touch_authentic (s : esa) (m : pmsg body) t :
    p_auth m = true ->
    touch P s m t = if (addressed P s m && fresh P s m)%bool then set_dpd_at P s (t + dpd_cfg P s) else s.
  Proof.
    intros Ha. unfold touch. rewrite (decision_authentic P s m Ha). destruct (addressed P s m); cbn [andb fst]; reflexivity.
  Qed.

  Theorem retransmitted_request ep h my peer (m : pmsg body) cid (s : esa) :
    dispatch_is_init_request (h_exch h) (negb (h_resp h)) = false ->
    find (selects h) (table ep) = Some (cid, s) -> AllQ E (table ep) ->
    h_resp (p_hdr m) = false -> h_id (p_hdr m) = peer_id P s - 1 -> p_auth m = true -> addressed P s m = true ->
    dispatch E ep (Dg h my peer (Some m)) = turned_away ep cid (settle (ep_now ep) s) (last_resp P s)
    /\ (NoDup (map fst (table ep)) -> settle (ep_now ep) s = s ->
        table (dispatch E ep (Dg h my peer (Some m))) = table ep).
  Proof.
    intros Hi Hf Hq Hr H1 Ha Hadd. destruct (decision_retransmitted_request P s m Hr H1) as (D0 & D1 & D2 & D3).
    assert (Hw : window_reply P s m = last_resp P s).
    { destruct D3 as [[D3 _]|[_ D3]]; [|exact D3]. rewrite (decision_authentic P s m Ha), Hadd in D3.
      change (B P) with body in D3. rewrite Hr in D3. discriminate D3. }
    destruct (dispatch_turned_away_unchanged ep h my peer m cid s Hi Hf Hq D0 D1 D2) as [A1 A2].
    rewrite Hw in A1. split; assumption.
  Qed.

  (** without the two hypotheses on the message: the same frame, and the reply is the stored response or nothing *)
  Theorem retransmitted_request_any ep h my peer (m : pmsg body) cid (s : esa) :
    dispatch_is_init_request (h_exch h) (negb (h_resp h)) = false ->
    find (selects h) (table ep) = Some (cid, s) -> AllQ E (table ep) ->
    h_resp (p_hdr m) = false -> h_id (p_hdr m) = peer_id P s - 1 ->
    exists o, dispatch E ep (Dg h my peer (Some m)) = turned_away ep cid (settle (ep_now ep) s) o
              /\ (o = None \/ o = last_resp P s).
  Proof.
    intros Hi Hf Hq Hr H1. destruct (decision_retransmitted_request P s m Hr H1) as (D0 & D1 & D2 & D3).
    exists (window_reply P s m). split.
    - exact (proj1 (dispatch_turned_away_unchanged ep h my peer m cid s Hi Hf Hq D0 D1 D2)).
    - destruct D3 as [[_ D3]|[_ D3]]; auto.
  Qed.

  Theorem stale_response ep h my peer (m : pmsg body) cid (s : esa) :
    dispatch_is_init_request (h_exch h) (negb (h_resp h)) = false ->
    find (selects h) (table ep) = Some (cid, s) -> AllQ E (table ep) ->
    h_resp (p_hdr m) = true -> h_id (p_hdr m) <> my_id P s ->
    dispatch E ep (Dg h my peer (Some m)) = turned_away ep cid (settle (ep_now ep) s) None
    /\ (NoDup (map fst (table ep)) -> settle (ep_now ep) s = s ->
        table (dispatch E ep (Dg h my peer (Some m))) = table ep).
  Proof.
    intros Hi Hf Hq Hr H1. destruct (decision_stale_response P s m Hr H1) as (D0 & D1 & D2 & D3).
    destruct (dispatch_turned_away_unchanged ep h my peer m cid s Hi Hf Hq D0 D1 D2) as [A1 A2].
    rewrite D3 in A1. split; assumption.
  Qed.

  (** what [settle t (touch ...)] leaves of the entry: everything but the liveness deadline and the four environment
      fields of the handler state *)
  Lemma settle_touch_fields (s : esa) (m : pmsg body) t :
    let s' := settle t (touch P s m t) in
    co (inner P s') = co (inner P s) /\ new_sa (inner P s') = new_sa (inner P s)
    /\ is_init P s' = is_init P s /\ my_spi P s' = my_spi P s /\ my_id P s' = my_id P s /\ peer_id P s' = peer_id P s
    /\ last_resp P s' = last_resp P s /\ req_data P s' = req_data P s /\ rt_at P s' = rt_at P s /\ rt_n P s' = rt_n P s
    /\ rek_at P s' = rek_at P s /\ del_at P s' = del_at P s /\ dpd_cfg P s' = dpd_cfg P s /\ pending P s' = pending P s
    /\ dpd_at P s' = (if fst (decision P s m) then t + dpd_cfg P s else dpd_at P s).
  Proof. cbv zeta. unfold touch. destruct (fst (decision P s m)); repeat split; reflexivity. Qed.
End EpWindow.

(* ------------------------------------------------------------------------------------------------ *)
(** * D. Any datagram: the entries other than the routed one *)
Section Others.
  Variable E : env.
  Notation P := (hdl_iface E).
  Notation esa := (Endpoint.esa E).
  Notation endpoint := (Endpoint.endpoint E).
  Notation table := (Endpoint.table E).
  Notation next_cid := (Endpoint.next_cid E).
  Notation enter := (Endpoint.enter E).
  Notation leave := (Endpoint.leave E).
  Notation replace := (Endpoint.replace E).
  Notation remove_cid := (Endpoint.remove_cid E).

  (** the entries that existed before (creation index below [bound]) and are not the entry [cid] *)
  Definition other_old (cid bound : nat) (x : nat * esa) : bool := negb (Nat.eqb (fst x) cid) && Nat.ltb (fst x) bound.
  Definition other (cid : nat) (x : nat * esa) : bool := negb (Nat.eqb (fst x) cid).

  Lemma other_old_self cid b c0 (y : esa) : Nat.eqb c0 cid = true -> other_old cid b (c0, y) = false.
  Proof. intros H. unfold other_old. cbn [fst]. rewrite H. reflexivity. Qed.
  Lemma filter_replace cid b (s' : esa) t : filter (other_old cid b) (replace t cid s') = filter (other_old cid b) t.
  Proof.
    induction t as [|[c0 x] r IH]; [reflexivity|]. cbn [Endpoint.replace]. destruct (Nat.eqb c0 cid) eqn:Ec.
    - cbn [filter]. rewrite !(other_old_self _ _ _ _ Ec). reflexivity.
    - cbn [filter]. rewrite IH. reflexivity.
  Qed.
  Lemma filter_remove cid b t : filter (other_old cid b) (remove_cid t cid) = filter (other_old cid b) t.
  Proof.
    induction t as [|[c0 x] r IH]; [reflexivity|]. cbn [Endpoint.remove_cid]. destruct (Nat.eqb c0 cid) eqn:Ec.
    - cbn [filter]. rewrite (other_old_self _ _ _ _ Ec). reflexivity.
    - cbn [filter]. rewrite IH. reflexivity.
  Qed.
  Lemma filter_fresh cid b n (x : esa) t : (b <= n)%nat -> filter (other_old cid b) (t ++ [(n, x)]) = filter (other_old cid b) t.
  Proof.
    intros Hb. rewrite filter_app. cbn [filter].
    assert (other_old cid b (n, x) = false) as ->; [|apply app_nil_r].
    unfold other_old. cbn [fst]. assert (Nat.ltb n b = false) as -> by (apply Nat.ltb_ge; exact Hb). apply andb_false_r.
  Qed.
  Lemma filter_bound cid b t : (forall c, In c (map fst t) -> (c < b)%nat) -> filter (other_old cid b) t = filter (other cid) t.
  Proof.
    intros Hb. apply filter_ext_in. intros [c x] Hin. unfold other_old, other. cbn [fst].
    assert (Nat.ltb c b = true) as ->; [|apply andb_true_r]. apply Nat.ltb_lt. apply Hb. apply in_map_iff. exists (c, x). auto.
  Qed.

  Lemma routed_leave ep (s : esa) : ep_routed E (fst (leave ep s)) = ep_routed E ep.
  Proof. unfold Endpoint.leave. destruct (rek_push (inner P s)); reflexivity. Qed.
  Lemma routed_send ep d : ep_routed E (send E ep d) = ep_routed E ep.
  Proof. destruct d; reflexivity. Qed.
  Lemma routed_teardown ep c (s : esa) : ep_routed E (teardown E ep c s) = ep_routed E ep.
  Proof.
    unfold Endpoint.teardown. destruct (delete_child_sas (inner P (enter ep s))) as [r i'].
    unfold Endpoint.leave. cbn. destruct (rek_push i'); reflexivity.
  Qed.
  Lemma routed_finish_pre ep cid (s : esa) : ep_routed E (fst (finish_pre E ep cid s)) = ep_routed E ep.
  Proof.
    unfold finish_pre. destruct (new_sa (inner P s)); [|reflexivity].
    destruct (dispatch_register_successor (state P s) true); reflexivity.
  Qed.

  Lemma finish_others ep cid (s : esa) b :
    (b <= next_cid ep)%nat ->
    filter (other_old cid b) (table (finish E ep cid s)) = filter (other_old cid b) (table ep)
    /\ ep_routed E (finish E ep cid s) = ep_routed E ep.
  Proof.
    intros Hb. rewrite finish_eq.
    assert (Hp : filter (other_old cid b) (table (fst (finish_pre E ep cid s))) = filter (other_old cid b) (table ep)).
    { unfold finish_pre. destruct (new_sa (inner P s)) as [nc|]; [|cbn [fst]; rewrite with_table_table; apply filter_replace].
      destruct (dispatch_register_successor (state P s) true); cbn [fst]; [|rewrite with_table_table; apply filter_replace].
      change (table (set (Endpoint.next_cid E) (fun _ => S (next_cid ep))
                         (with_table E ep (replace (table ep) cid (with_inner P s (set new_sa (fun _ => None) (inner P s)))
                                           ++ [(next_cid ep, sa_of_core E nc)]))))
        with (replace (table ep) cid (with_inner P s (set new_sa (fun _ => None) (inner P s))) ++ [(next_cid ep, sa_of_core E nc)]).
      rewrite (filter_fresh _ _ _ _ _ Hb). apply filter_replace. }
    destruct (dispatch_remove _).
    - destruct (teardown_facts E (fst (finish_pre E ep cid s)) cid (snd (finish_pre E ep cid s))) as (_ & T2 & _).
      rewrite T2, filter_remove, routed_teardown, routed_finish_pre. split; [exact Hp|reflexivity].
    - rewrite routed_finish_pre. split; [exact Hp|reflexivity].
  Qed.

  Lemma handle_others ep cid (s : esa) (m : pmsg body) b :
    (b <= next_cid ep)%nat ->
    filter (other_old cid b) (table (handle E ep cid s m)) = filter (other_old cid b) (table ep)
    /\ ep_routed E (handle E ep cid s m) = ep_routed E ep.
  Proof.
    intros Hb. unfold handle. cbv zeta. set (r := process_message P (enter ep s) m (ep_now E ep)).
    destruct (leave_facts E ep (fst r)) as (_ & _ & L3 & L4 & _).
    destruct (send_facts E (fst (leave ep (fst r))) (snd r)) as (S1 & S2 & _).
    destruct (finish_others (send E (fst (leave ep (fst r))) (snd r)) cid (snd (leave ep (fst r))) b) as [F1 F2].
    { rewrite S2, L4. exact Hb. }
    rewrite F1, F2, S1, L3, routed_send, routed_leave. split; reflexivity.
  Qed.

  Lemma handle_fresh_others ep cid (s : esa) (m : pmsg body) b :
    (b <= next_cid ep)%nat ->
    filter (other_old cid b) (table (handle_fresh E ep cid s m)) = filter (other_old cid b) (table ep)
    /\ ep_routed E (handle_fresh E ep cid s m) = ep_routed E ep.
  Proof.
    intros Hb. unfold handle_fresh. cbv zeta. set (r := process_message P (enter ep s) m (ep_now E ep)).
    destruct (Z.eqb _ ST_INITIAL); [|apply handle_others; exact Hb].
    destruct (leave_facts E ep (fst r)) as (_ & _ & L3 & _).
    destruct (send_facts E (with_table E (fst (leave ep (fst r))) (remove_cid (table (fst (leave ep (fst r)))) cid)) (snd r))
      as (S1 & _).
    rewrite S1, with_table_table, filter_remove, L3, routed_send.
    split; [reflexivity|]. change (ep_routed E (with_table E (fst (leave ep (fst r))) (remove_cid (table (fst (leave ep (fst r)))) cid)))
      with (ep_routed E (fst (leave ep (fst r)))). apply routed_leave.
  Qed.

  (** for ANY datagram - authentic or not, whatever it contains - either the endpoint is literally unchanged, or the
      dispatcher called process_message on ONE entry [cid] (recorded in [ep_routed]) and every other entry that existed
      is in the table afterwards, unchanged, in the same order; all that can be new besides has a fresh creation index
      (the responder created for an IKE_SA_INIT request, the successor registered by a rekey) *)
  Theorem only_routed_entry_may_change ep d :
    CidOK E (table ep) (next_cid ep) ->
    dispatch E ep d = ep
    \/ exists cid, ep_routed E (dispatch E ep d) = Some cid
                   /\ filter (other_old cid (next_cid ep)) (table (dispatch E ep d)) = filter (other cid) (table ep).
  Proof.
    intros [_ Hlt]. destruct d as [|h my peer parsed]; [left; reflexivity|].
    destruct (dispatch_is_init_request (h_exch h) (negb (h_resp h))) eqn:Hi.
    - destruct (find_conf E ep my peer) as [c|] eqn:Hc; [|left; apply dispatch_unconfigured; assumption].
      destruct (create E ep false (be_encode 8 (Z.to_N (h_spi_i h))) c my peer) as [[[ep0 cid] s0]|] eqn:Ec.
      2:{ left. unfold dispatch. rewrite Hi, Hc, Ec. reflexivity. }
      right. exists cid. destruct (create_facts E _ _ _ _ _ _ _ _ _ Ec) as (Hcid & Ht & Hn & _).
      assert (Hbase : filter (other_old cid (next_cid ep)) (replace (table ep0) cid (arm E ep0 s0)) = filter (other cid) (table ep)).
      { rewrite filter_replace, Ht, filter_fresh by (rewrite Hcid; apply Nat.le_refl). apply filter_bound. exact Hlt. }
      destruct parsed as [m|].
      + destruct (dispatch_init_request E ep h my peer m c ep0 cid s0 Hi Hc Ec) as (_ & _ & ->).
        set (ep1 := routed E (with_table E ep0 (replace (table ep0) cid (arm E ep0 s0))) cid).
        destruct (handle_fresh_others ep1 cid (arm E ep0 s0) m (next_cid ep)) as [F1 F2].
        { change (next_cid ep1) with (next_cid ep0). rewrite Hn. apply Nat.le_succ_diag_r. }
        rewrite F1, F2. split; [reflexivity|exact Hbase].
      + unfold dispatch. rewrite Hi, Hc, Ec. fold (arm E ep0 s0). cbn [Endpoint.ep_routed Endpoint.table set].
        split; [reflexivity|]. cbn. rewrite filter_remove. exact Hbase.
    - destruct (find (fun x : nat * esa => Z.eqb (my_spi P (snd x)) (dispatch_my_spi (h_init h) (h_spi_i h) (h_spi_r h)))
                     (table ep)) as [[cid s]|] eqn:Hf; [|left; apply dispatch_unknown_spi; assumption].
      right. exists cid. destruct parsed as [m|].
      + destruct (dispatch_routes E ep h my peer m cid s Hi Hf) as [-> _].
        destruct (handle_others (routed E ep cid) cid s m (next_cid ep) (Nat.le_refl _)) as [F1 F2].
        rewrite F1, F2. split; [reflexivity|]. apply filter_bound. exact Hlt.
      + rewrite (dispatch_unparsable E ep h my peer cid s Hi Hf). split; [reflexivity|]. apply filter_bound. exact Hlt.
  Qed.

  (** the same, entry by entry *)
  Corollary other_entries_unchanged ep d cid :
    CidOK E (table ep) (next_cid ep) -> ep_routed E (dispatch E ep d) = Some cid \/ dispatch E ep d = ep ->
    forall c (s : esa), c <> cid ->
      (In (c, s) (table ep) <-> In (c, s) (table (dispatch E ep d)) /\ (c < next_cid ep)%nat).
  Proof.
    intros Hok Hr c s Hne.
    assert (Hlt : forall x, In x (table ep) -> (fst x < next_cid ep)%nat).
    { intros x Hx. apply (proj2 Hok). apply in_map. exact Hx. }
    destruct (only_routed_entry_may_change ep d Hok) as [He|(cid' & Hr' & Hfl)].
    - rewrite He. split; [intros H; split; [exact H|apply (Hlt _ H)]|intros [H _]; exact H].
    - destruct Hr as [Hr|He]; [|rewrite He; split; [intros H; split; [exact H|apply (Hlt _ H)]|intros [H _]; exact H]].
      rewrite Hr in Hr'. injection Hr' as <-.
      assert (Ho : other cid (c, s) = true) by (unfold other; cbn [fst]; apply negb_true_iff, Nat.eqb_neq; exact Hne).
      split.
      + intros H. assert (Hin : In (c, s) (filter (other cid) (table ep))) by (apply filter_In; auto).
        rewrite <- Hfl in Hin. apply filter_In in Hin. destruct Hin as [H1 _]. split; [exact H1|apply (Hlt _ H)].
      + intros [H Hc]. assert (Hin : In (c, s) (filter (other_old cid (next_cid ep)) (table (dispatch E ep d)))).
        { apply filter_In. split; [exact H|]. unfold other_old. cbn [fst]. apply andb_true_intro. split; [exact Ho|].
          apply Nat.ltb_lt. exact Hc. }
        rewrite Hfl in Hin. apply filter_In in Hin. exact (proj1 Hin).
  Qed.
End Others.

(* ------------------------------------------------------------------------------------------------ *)
(** * E. The timer section does not see the environment fields of the entries *)
Section Sim.
  Variable E : env.
  Notation P := (hdl_iface E).
  Notation esa := (Endpoint.esa E).
  Notation endpoint := (Endpoint.endpoint E).
  Notation table := (Endpoint.table E).
  Notation next_cid := (Endpoint.next_cid E).
  Notation ep_kops := (Endpoint.ep_kops E).
  Notation ep_sent := (Endpoint.ep_sent E).
  Notation ep_tape := (Endpoint.ep_tape E).
  Notation ep_now := (Endpoint.ep_now E).
  Notation enter := (Endpoint.enter E).
  Notation leave := (Endpoint.leave E).
  Notation replace := (Endpoint.replace E).
  Notation remove_cid := (Endpoint.remove_cid E).
  Notation settle := (EndpointTimers.settle E).
  Notation do_call := (EndpointSad.do_call E).
  Notation teardown := (Endpoint.teardown E).
  Notation rt_loop := (Endpoint.rt_loop E).
  Notation sweep := (Endpoint.sweep E).
  Notation timers := (Endpoint.timers E).
  Notation timer_fn := (esa -> Z -> esa * option (dgram body)).
  Notation cids := (EndpointTimers.cids E).

  (** two entries that differ at most in the four environment fields of the handler state, which [enter] overwrites
      before every call *)
  Definition esim (s s' : esa) : Prop := settle 0 s = settle 0 s'.
  Lemma esim_refl s : esim s s.
  Proof. reflexivity. Qed.
  Lemma esim_settle t s : esim s (settle t s).
  Proof. reflexivity. Qed.
  Lemma enter_esim ep ep' (s s' : esa) :
    ep_tape ep' = ep_tape ep -> ep_now ep' = ep_now ep -> esim s s' -> enter ep' s' = enter ep s.
  Proof.
    intros Ht Hn He. transitivity (enter ep' (settle 0 s')); [reflexivity|].
    transitivity (enter ep' (settle 0 s)); [exact (f_equal (enter ep') (eq_sym He))|].
    change (enter ep' s = enter ep s). unfold Endpoint.enter. rewrite Ht, Hn. reflexivity.
  Qed.

  (** entries related pairwise; those whose creation index satisfies [D] are equal *)
  Definition R (D : nat -> Prop) (x y : nat * esa) : Prop :=
    fst y = fst x /\ esim (snd x) (snd y) /\ (D (fst x) -> snd y = snd x).
  Definition tsim (D : nat -> Prop) (t t' : list (nat * esa)) : Prop := Forall2 (R D) t t'.

  Lemma tsim_weaken (D D' : nat -> Prop) t t' : (forall c, D' c -> D c) -> tsim D t t' -> tsim D' t t'.
  Proof.
    intros Hd H. induction H as [|x y l l' Hxy _ IH]; constructor; [|exact IH].
    destruct Hxy as (A & B & C). split; [exact A|]. split; [exact B|]. intros Hc. apply C. apply Hd. exact Hc.
  Qed.
  Lemma tsim_refl D t : tsim D t t.
  Proof. induction t as [|x r IH]; constructor; [|exact IH]. repeat split. Qed.
  Lemma tsim_fst D t t' : tsim D t t' -> map fst t' = map fst t.
  Proof. intros H. induction H as [|x y l l' (A & _) _ IH]; [reflexivity|]. cbn. rewrite A, IH. reflexivity. Qed.
  Lemma tsim_nth D t t' : tsim D t t' -> forall i,
    match nth_error t i with
    | Some (c, s) => exists s', nth_error t' i = Some (c, s') /\ esim s s'
    | None => nth_error t' i = None
    end.
  Proof.
    intros H. induction H as [|[c s] [c' s'] l l' (A & B & _) _ IH]; intros i; [destruct i; reflexivity|].
    destruct i as [|i]; cbn [nth_error]; [|apply IH]. cbn in A, B. subst c'. exists s'. split; [reflexivity|exact B].
  Qed.
  Lemma tsim_find D t t' c : tsim D t t' ->
    match find (fun x : nat * esa => Nat.eqb (fst x) c) t with
    | Some (c0, s) => exists s', find (fun x : nat * esa => Nat.eqb (fst x) c) t' = Some (c0, s') /\ esim s s'
    | None => find (fun x : nat * esa => Nat.eqb (fst x) c) t' = None
    end.
  Proof.
    intros H. induction H as [|[c1 s] [c' s'] l l' (A & B & _) _ IH]; [reflexivity|].
    cbn in A, B. subst c'. cbn [find fst]. destruct (Nat.eqb c1 c); [|exact IH]. exists s'. split; [reflexivity|exact B].
  Qed.
  Lemma tsim_replace D t t' c (x : esa) : tsim D t t' -> tsim D (replace t c x) (replace t' c x).
  Proof.
    intros H. induction H as [|[c1 s] [c' s'] l l' Hxy Hl IH]; [constructor|].
    destruct Hxy as (A & B & C). cbn in A. subst c'. cbn [Endpoint.replace]. destruct (Nat.eqb c1 c).
    - constructor; [|exact Hl]. repeat split.
    - constructor; [|exact IH]. split; [reflexivity|]. split; [exact B|exact C].
  Qed.
  Lemma tsim_mark_absent (D : nat -> Prop) t t' c :
    ~ In c (map fst t) -> tsim D t t' -> tsim (fun k => k = c \/ D k) t t'.
  Proof.
    intros Hc H. induction H as [|x y l l' (A & B & C) _ IH]; constructor.
    - split; [exact A|]. split; [exact B|]. intros [Hk|Hk]; [|exact (C Hk)]. exfalso. apply Hc. left. exact Hk.
    - apply IH. intros Hin. apply Hc. right. exact Hin.
  Qed.
  Lemma tsim_replace_mark (D : nat -> Prop) t t' c (x : esa) :
    NoDup (map fst t) -> tsim D t t' -> tsim (fun k => k = c \/ D k) (replace t c x) (replace t' c x).
  Proof.
    intros Hn H. induction H as [|[c1 s] [c' s'] l l' Hxy Hl IH]; [constructor|].
    destruct Hxy as (A & B & C). cbn in A. subst c'. cbn [Endpoint.replace]. cbn [map fst] in Hn.
    inversion Hn as [|? ? Hx Hr]; subst.
    destruct (Nat.eqb c1 c) eqn:Ec.
    - apply Nat.eqb_eq in Ec. subst c1. constructor; [repeat split|]. apply tsim_mark_absent; assumption.
    - apply Nat.eqb_neq in Ec. constructor; [|apply IH; exact Hr].
      split; [reflexivity|]. split; [exact B|]. cbn [fst snd] in *. intros [Hk|Hk]; [contradiction|exact (C Hk)].
  Qed.
  Lemma tsim_remove D t t' c : tsim D t t' -> tsim D (remove_cid t c) (remove_cid t' c).
  Proof.
    intros H. induction H as [|[c1 s] [c' s'] l l' Hxy Hl IH]; [constructor|].
    destruct Hxy as (A & B & C). cbn in A. subst c'. cbn [Endpoint.remove_cid]. destruct (Nat.eqb c1 c); [exact Hl|].
    constructor; [|exact IH]. split; [reflexivity|]. split; [exact B|exact C].
  Qed.
  Lemma tsim_all (D : nat -> Prop) t t' : tsim D t t' -> (forall x, In x t -> D (fst x)) -> t' = t.
  Proof.
    intros H. induction H as [|[c1 s] [c' s'] l l' (A & _ & C) _ IH]; intros Hd; [reflexivity|].
    cbn in A, C. subst c'. rewrite (C (Hd (c1, s) (or_introl eq_refl))). f_equal. apply IH. intros x Hx. apply Hd. right. exact Hx.
  Qed.

  (** two endpoints that agree up to the environment fields of their entries, the routing / status records, and a
      prefix [pre] of datagrams already sent *)
  Definition epsim (D : nat -> Prop) (pre : list (dgram body)) (ep ep' : endpoint) : Prop :=
    tsim D (table ep) (table ep') /\ next_cid ep' = next_cid ep /\ ep_tape ep' = ep_tape ep /\ ep_now ep' = ep_now ep
    /\ ep_kops ep' = ep_kops ep /\ ep_sent ep' = pre ++ ep_sent ep.
  Lemma epsim_weaken (D D' : nat -> Prop) pre ep ep' : (forall c, D' c -> D c) -> epsim D pre ep ep' -> epsim D' pre ep ep'.
  Proof. intros Hd (A & B). split; [eapply tsim_weaken; eassumption|exact B]. Qed.

  Lemma do_call_all ep c (r : esa * option (dgram body)) :
    table (do_call ep c r) = replace (table ep) c (snd (leave ep (fst r))) /\ next_cid (do_call ep c r) = next_cid ep
    /\ ep_tape (do_call ep c r) = tape (inner P (fst r)) /\ ep_now (do_call ep c r) = ep_now ep
    /\ ep_kops (do_call ep c r) = ep_kops ep ++ kops (inner P (fst r))
    /\ ep_sent (do_call ep c r) = ep_sent ep ++ olist (snd r).
  Proof.
    unfold EndpointSad.do_call, put, Endpoint.leave, Endpoint.send. destruct (rek_push (inner P (fst r))); destruct (snd r);
      cbn; rewrite ?app_nil_r; repeat split; reflexivity.
  Qed.
  Lemma leave_snd ep ep' (x : esa) : snd (leave ep' x) = snd (leave ep x).
  Proof. reflexivity. Qed.
  Lemma teardown_all ep c (s : esa) :
    table (teardown ep c s) = remove_cid (table ep) c /\ next_cid (teardown ep c s) = next_cid ep
    /\ ep_tape (teardown ep c s) = tape (snd (delete_child_sas (inner P (enter ep s)))) /\ ep_now (teardown ep c s) = ep_now ep
    /\ ep_kops (teardown ep c s) = ep_kops ep ++ kops (snd (delete_child_sas (inner P (enter ep s))))
    /\ ep_sent (teardown ep c s) = ep_sent ep.
  Proof.
    unfold Endpoint.teardown. destruct (delete_child_sas (inner P (enter ep s))) as [r i']. cbn [snd].
    unfold Endpoint.leave. cbn. destruct (rek_push i'); cbn; repeat split; reflexivity.
  Qed.

  (** one call on related entries of related endpoints *)
  Lemma sim_do_call (D : nat -> Prop) pre ep ep' c (s s' : esa) (f : timer_fn) :
    epsim D pre ep ep' -> esim s s' ->
    f (enter ep' s') (ep_now ep') = f (enter ep s) (ep_now ep)
    /\ epsim D pre (do_call ep c (f (enter ep s) (ep_now ep))) (do_call ep' c (f (enter ep' s') (ep_now ep')))
    /\ (NoDup (map fst (table ep)) ->
        epsim (fun k => k = c \/ D k) pre (do_call ep c (f (enter ep s) (ep_now ep)))
              (do_call ep' c (f (enter ep' s') (ep_now ep')))).
  Proof.
    intros (A1 & A2 & A3 & A4 & A5 & A6) He.
    assert (Hr : f (enter ep' s') (ep_now ep') = f (enter ep s) (ep_now ep)) by (rewrite (enter_esim ep ep' s s' A3 A4 He), A4; reflexivity).
    split; [exact Hr|]. rewrite Hr. set (r := f (enter ep s) (ep_now ep)).
    destruct (do_call_all ep c r) as (T1 & T2 & T3 & T4 & T5 & T6).
    destruct (do_call_all ep' c r) as (U1 & U2 & U3 & U4 & U5 & U6).
    assert (Hrest : next_cid (do_call ep' c r) = next_cid (do_call ep c r) /\ ep_tape (do_call ep' c r) = ep_tape (do_call ep c r)
                    /\ ep_now (do_call ep' c r) = ep_now (do_call ep c r) /\ ep_kops (do_call ep' c r) = ep_kops (do_call ep c r)
                    /\ ep_sent (do_call ep' c r) = pre ++ ep_sent (do_call ep c r)).
    { rewrite T2, T3, T4, T5, T6, U2, U3, U4, U5, U6, A2, A4, A5, A6, app_assoc. repeat split; reflexivity. }
    split.
    - split; [|exact Hrest]. rewrite T1, U1, (leave_snd ep ep'). apply tsim_replace. exact A1.
    - intros Hn. split; [|exact Hrest]. rewrite T1, U1, (leave_snd ep ep'). apply tsim_replace_mark; assumption.
  Qed.

  Lemma sim_teardown D pre ep ep' c (s : esa) :
    epsim D pre ep ep' -> epsim D pre (teardown ep c s) (teardown ep' c s).
  Proof.
    intros (A1 & A2 & A3 & A4 & A5 & A6).
    destruct (teardown_all ep c s) as (T1 & T2 & T3 & T4 & T5 & T6).
    destruct (teardown_all ep' c s) as (U1 & U2 & U3 & U4 & U5 & U6).
    assert (He : enter ep' s = enter ep s) by (apply enter_esim; [exact A3|exact A4|apply esim_refl]).
    unfold epsim. rewrite T1, T2, T3, T4, T5, T6, U1, U2, U3, U4, U5, U6, He, A2, A4, A5, A6.
    split; [apply tsim_remove; exact A1|]. repeat split; reflexivity.
  Qed.

  Lemma sim_rt_visit D pre ep ep' cid (s s' : esa) :
    epsim D pre ep ep' -> esim s s' -> epsim D pre (rt_visit E ep cid s) (rt_visit E ep' cid s').
  Proof.
    intros Hs He. destruct (sim_do_call D pre ep ep' cid s s' (check_retransmission P) Hs He) as (Hr & Hc & _).
    unfold rt_visit. cbv zeta.
    assert (Hcr : call_result E (check_retransmission P) ep' s' = call_result E (check_retransmission P) ep s).
    { unfold call_result. rewrite Hr. reflexivity. }
    assert (Hg : rt_gone E (ep_now ep') s' = rt_gone E (ep_now ep) s).
    { rewrite <- (rt_gone_result E ep' s'), <- (rt_gone_result E ep s), Hcr. reflexivity. }
    rewrite Hg, Hcr. destruct (rt_gone E (ep_now ep) s); [|exact Hc]. apply sim_teardown. exact Hc.
  Qed.

  Lemma sim_rt D pre fuel : forall i ep ep', epsim D pre ep ep' -> epsim D pre (rt_loop fuel i ep) (rt_loop fuel i ep').
  Proof.
    induction fuel as [|fuel IH]; intros i ep ep' Hs; [exact Hs|].
    rewrite !rt_loop_unfold. pose proof (tsim_nth D _ _ (proj1 Hs) i) as Hn.
    destruct (nth_error (table ep) i) as [[cid s]|].
    - destruct Hn as (s' & -> & He). apply IH. apply sim_rt_visit; assumption.
    - rewrite Hn. exact Hs.
  Qed.

  Lemma sim_sweep (f : timer_fn) pre cs : forall (D : nat -> Prop) ep ep',
    NoDup (cids ep) -> epsim D pre ep ep' -> epsim (fun k => In k cs \/ D k) pre (sweep f cs ep) (sweep f cs ep').
  Proof.
    induction cs as [|cid r IH]; intros D ep ep' Hn Hs.
    - eapply epsim_weaken; [|exact Hs]. intros c [[]|H]; exact H.
    - rewrite !sweep_unfold. pose proof (tsim_find D _ _ cid (proj1 Hs)) as Hf.
      destruct (find (fun x : nat * esa => Nat.eqb (fst x) cid) (table ep)) as [[c0 s]|] eqn:Ef.
      + destruct Hf as (s' & -> & He).
        destruct (sim_do_call D pre ep ep' cid s s' f Hs He) as (_ & _ & Hc). specialize (Hc Hn).
        eapply epsim_weaken; [|apply IH; [|exact Hc]].
        * cbv beta. intros c [[<-|H]|H]; [right; left; reflexivity|left; exact H|right; right; exact H].
        * destruct (call_frame E ep cid (f (enter ep s) (ep_now ep))) as (F1 & _). rewrite F1. exact Hn.
      + rewrite Hf.
        assert (Hs' : epsim (fun k => k = cid \/ D k) pre ep ep').
        { destruct Hs as (A1 & A2). split; [|exact A2]. apply tsim_mark_absent; [|exact A1].
          intros Hin. exact (find_cid_some E _ _ Hin Ef). }
        eapply epsim_weaken; [|apply IH; [exact Hn|exact Hs']].
        cbv beta. intros c [[<-|H]|H]; [right; left; reflexivity|left; exact H|right; right; exact H].
  Qed.

  (** the timer section on related endpoints: the SAME table afterwards (every entry is entered by the lifetime
      sweep), the same kernel operations, the same tape left, the same datagrams after the prefix *)
  Theorem sim_timers pre ep ep' :
    NoDup (cids ep) -> epsim (fun _ => False) pre ep ep' ->
    table (timers ep') = table (timers ep) /\ next_cid (timers ep') = next_cid (timers ep)
    /\ ep_tape (timers ep') = ep_tape (timers ep) /\ ep_now (timers ep') = ep_now (timers ep)
    /\ ep_kops (timers ep') = ep_kops (timers ep) /\ ep_sent (timers ep') = pre ++ ep_sent (timers ep).
  Proof.
    intros Hn Hs.
    assert (Hlen : length (table ep') = length (table ep)).
    { rewrite <- (map_length fst (table ep')), (tsim_fst _ _ _ (proj1 Hs)), map_length. reflexivity. }
    pose proof (sim_rt _ pre (S (length (table ep))) 0 ep ep' Hs) as H1.
    destruct (rt_run_invariants E _ _ _ _ (after_rt_run E ep)) as (_ & _ & R3 & _).
    assert (N1 : NoDup (cids (after_rt E ep))) by (eapply subseq_NoDup; eassumption).
    fold (after_rt E ep) in H1.
    pose proof (sim_sweep (check_dpd P) pre (cids (after_rt E ep)) _ _ _ N1 H1) as H2. fold (after_dpd E ep) in H2.
    destruct (sweep_invariants E (check_dpd P) (cids (after_rt E ep)) (after_rt E ep)) as (D1 & _). fold (after_dpd E ep) in D1.
    assert (N2 : NoDup (cids (after_dpd E ep))) by (rewrite D1; exact N1).
    pose proof (sim_sweep (check_lifetime P) pre (cids (after_dpd E ep)) _ _ _ N2 H2) as H3.
    rewrite <- timers_eq in H3.
    assert (Hep' : timers ep' = sweep (check_lifetime P) (cids (after_dpd E ep))
                                     (sweep (check_dpd P) (cids (after_rt E ep)) (rt_loop (S (length (table ep))) 0 ep'))).
    { unfold Endpoint.timers. rewrite Hlen.
      change (map fst (table (rt_loop (S (length (table ep))) 0 ep'))) with (cids (rt_loop (S (length (table ep))) 0 ep')).
      assert (C1 : cids (rt_loop (S (length (table ep))) 0 ep') = cids (after_rt E ep)).
      { unfold EndpointTimers.cids. apply (tsim_fst _ _ _ (proj1 H1)). }
      rewrite C1.
      change (map fst (table (sweep (check_dpd P) (cids (after_rt E ep)) (rt_loop (S (length (table ep))) 0 ep'))))
        with (cids (sweep (check_dpd P) (cids (after_rt E ep)) (rt_loop (S (length (table ep))) 0 ep'))).
      assert (C2 : cids (sweep (check_dpd P) (cids (after_rt E ep)) (rt_loop (S (length (table ep))) 0 ep')) = cids (after_dpd E ep)).
      { unfold EndpointTimers.cids. apply (tsim_fst _ _ _ (proj1 H2)). }
      rewrite C2. reflexivity. }
    rewrite Hep'. destruct H3 as (A1 & A2 & A3 & A4 & A5 & A6).
    split; [|repeat split; assumption].
    eapply tsim_all; [exact A1|]. intros x Hx. left.
    destruct (sweep_invariants E (check_lifetime P) (cids (after_dpd E ep)) (after_dpd E ep)) as (L1 & _).
    rewrite <- timers_eq in L1. rewrite <- L1. unfold EndpointTimers.cids. apply in_map. exact Hx.
  Qed.

  (** ** the iteration-level corollary *)
  Lemma epsim_turned_away ep cid (s : esa) o :
    NoDup (map fst (table ep)) -> In (cid, s) (table ep) ->
    epsim (fun _ => False) (olist o) (set (Endpoint.ep_sent E) (fun _ => []) ep)
          (turned_away E (set (Endpoint.ep_sent E) (fun _ => []) ep) cid (settle (ep_now ep) s) o).
  Proof.
    intros Hn Hin. split; [|cbn; rewrite app_nil_r; repeat split; reflexivity].
    cbn [turned_away Endpoint.table]. change (table (set (Endpoint.ep_sent E) (fun _ => []) ep)) with (table ep).
    destruct (table_split E (table ep) cid s Hin Hn) as (t1 & t2 & Ht & Hc & _). rewrite Ht, (replace_split E t1 t2 cid s _ Hc).
    apply Forall2_app; [apply tsim_refl|]. constructor; [|apply tsim_refl]. split; [reflexivity|]. split; [apply esim_settle|intros []].
  Qed.

  Theorem iteration_turned_away ep tnow tp d cid (s : esa) o :
    NoDup (map fst (table ep)) -> In (cid, s) (table ep) ->
    dispatch E (start E ep tnow tp) d = turned_away E (start E ep tnow tp) cid (settle tnow s) o ->
    let a := iteration E ep tnow tp (Ev_datagram d) in
    let b := iteration E ep tnow tp Ev_none in
    table a = table b /\ next_cid a = next_cid b /\ ep_tape a = ep_tape b /\ ep_kops a = ep_kops b
    /\ ep_sent a = olist o ++ ep_sent b.
  Proof.
    intros Hn Hin Hd. cbv zeta. rewrite !iteration_eq. cbn [event_step]. rewrite Hd.
    destruct (sim_timers (olist o) (start E ep tnow tp)
                (turned_away E (start E ep tnow tp) cid (settle tnow s) o)) as (A1 & A2 & A3 & _ & A5 & A6).
    - exact Hn.
    - exact (epsim_turned_away (start E (set (Endpoint.ep_sent E) (fun _ => []) ep) tnow tp) cid s o Hn Hin).
    - repeat split; assumption.
  Qed.
End Sim.

(* ------------------------------------------------------------------------------------------------ *)
(** * E'. C03 at the level of one iteration of the main loop *)
Section IterC03.
  Variable E : env.
  Notation P := (hdl_iface E).
  Notation esa := (Endpoint.esa E).
  Notation table := (Endpoint.table E).

  Lemma olist_none_app {A} (l : list A) : olist None ++ l = l.
  Proof. reflexivity. Qed.

  (** the forged datagram has no effect beyond what time alone does: table, creation counter, tape left, kernel
      operations are those of the iteration without any event; what is sent is what that iteration sends, preceded by
      the reply [o] (nothing, or the stored response) *)
  Theorem unauthenticated_datagram_iteration (ep : endpoint E) tnow tp h my peer (m : pmsg body) cid (s : esa) :
    dispatch_is_init_request (h_exch h) (negb (h_resp h)) = false ->
    find (selects E h) (table ep) = Some (cid, s) -> AllQ E (table ep) -> NoDup (map fst (table ep)) ->
    cprop (co (inner P s)) <> None -> p_auth m = false ->
    exists o,
      (o = None
       \/ (o = last_resp P s /\ snd (decision P s m) = RCached /\ h_exch (p_hdr m) = EX_IKE_SA_INIT
           /\ h_resp (p_hdr m) = false /\ state P s = ST_INIT_RES_SENT /\ h_id (p_hdr m) = peer_id P s - 1 /\ p_hdr m <> h))
      /\ let a := iteration E ep tnow tp (Ev_datagram (Dg h my peer (Some m))) in
         let b := iteration E ep tnow tp Ev_none in
         table a = table b /\ next_cid E a = next_cid E b /\ ep_tape E a = ep_tape E b /\ ep_kops E a = ep_kops E b
         /\ ep_sent E a = olist o ++ ep_sent E b.
  Proof.
    intros Hi Hf Hq Hn Hk Ha.
    destruct (unauthenticated_datagram E (start E ep tnow tp) h my peer m cid s Hi Hf Hq Hk Ha) as (o & Hd & Ho).
    exists o. split.
    - destruct Ho as [Ho|(H0 & H1 & H2 & H3 & H4 & H5)]; [left; exact Ho|right].
      repeat split; try assumption. intros Hh.
      exact (stored_init_response_branch_unreachable E ep h m cid s Hi Hf Hh H1).
    - apply (iteration_turned_away E ep tnow tp _ cid s o Hn (selected_in E ep h cid s Hf)). exact Hd.
  Qed.

  Corollary unauthenticated_datagram_iteration_one_header (ep : endpoint E) tnow tp h my peer (m : pmsg body) cid (s : esa) :
    dispatch_is_init_request (h_exch h) (negb (h_resp h)) = false ->
    find (selects E h) (table ep) = Some (cid, s) -> AllQ E (table ep) -> NoDup (map fst (table ep)) ->
    cprop (co (inner P s)) <> None -> p_auth m = false -> p_hdr m = h ->
    let a := iteration E ep tnow tp (Ev_datagram (Dg h my peer (Some m))) in
    let b := iteration E ep tnow tp Ev_none in
    table a = table b /\ next_cid E a = next_cid E b /\ ep_tape E a = ep_tape E b /\ ep_kops E a = ep_kops E b
    /\ ep_sent E a = ep_sent E b.
  Proof.
    intros Hi Hf Hq Hn Hk Ha Hh.
    destruct (unauthenticated_datagram_iteration ep tnow tp h my peer m cid s Hi Hf Hq Hn Hk Ha) as (o & Ho & Hr).
    destruct Ho as [Ho|(_ & _ & _ & _ & _ & _ & Hx)]; [|exfalso; exact (Hx Hh)].
    subst o. cbv zeta in Hr |- *. destruct Hr as (R1 & R2 & R3 & R4 & R5). rewrite olist_none_app in R5.
    split; [exact R1|]. split; [exact R2|]. split; [exact R3|]. split; [exact R4|exact R5].
  Qed.
  (** the same for every message that is turned away and is not fresh (stale request, copy of the previous request,
      stale response): only the reply, if any, distinguishes the iteration from the one without the datagram *)
  Theorem turned_away_iteration (ep : endpoint E) tnow tp h my peer (m : pmsg body) cid (s : esa) :
    dispatch_is_init_request (h_exch h) (negb (h_resp h)) = false ->
    find (selects E h) (table ep) = Some (cid, s) -> AllQ E (table ep) -> NoDup (map fst (table ep)) ->
    fst (decision P s m) = false -> executes P s m = false -> accepts P s m = false ->
    let a := iteration E ep tnow tp (Ev_datagram (Dg h my peer (Some m))) in
    let b := iteration E ep tnow tp Ev_none in
    table a = table b /\ next_cid E a = next_cid E b /\ ep_tape E a = ep_tape E b /\ ep_kops E a = ep_kops E b
    /\ ep_sent E a = olist (window_reply P s m) ++ ep_sent E b.
  Proof.
    intros Hi Hf Hq Hn D0 D1 D2.
    destruct (dispatch_turned_away_unchanged E (start E ep tnow tp) h my peer m cid s Hi Hf Hq D0 D1 D2) as [Hd _].
    apply (iteration_turned_away E ep tnow tp _ cid s _ Hn (selected_in E ep h cid s Hf)). exact Hd.
  Qed.
End IterC03.

(* ------------------------------------------------------------------------------------------------ *)
(** * F. Request numbering at the call sites of the endpoint *)
Section Numbering.
  Variable E : env.
  Notation P := (hdl_iface E).
  Notation esa := (Endpoint.esa E).
  Notation endpoint := (Endpoint.endpoint E).
  Notation table := (Endpoint.table E).
  Notation ep_sent := (Endpoint.ep_sent E).
  Notation ep_now := (Endpoint.ep_now E).
  Notation enter := (Endpoint.enter E).
  Notation leave := (Endpoint.leave E).
  Notation do_call := (EndpointSad.do_call E).

  (** what [leave] stores has the counters, the stored response and the outstanding request of what the call returned *)
  Lemma leave_ids ep (x : esa) :
    my_id P (snd (leave ep x)) = my_id P x /\ peer_id P (snd (leave ep x)) = peer_id P x
    /\ req_data P (snd (leave ep x)) = req_data P x /\ last_resp P (snd (leave ep x)) = last_resp P x.
  Proof. unfold Endpoint.leave. destruct (rek_push (inner P x)); repeat split; reflexivity. Qed.

  Lemma sent_leave ep (x : esa) : ep_sent (fst (leave ep x)) = ep_sent ep.
  Proof. unfold Endpoint.leave. destruct (rek_push (inner P x)); reflexivity. Qed.
  Lemma sent_send ep o : ep_sent (send E ep o) = ep_sent ep ++ olist o.
  Proof. destruct o; cbn; [reflexivity|symmetry; apply app_nil_r]. Qed.
  Lemma sent_teardown ep c (s : esa) : ep_sent (teardown E ep c s) = ep_sent ep.
  Proof. destruct (teardown_all E ep c s) as (_ & _ & _ & _ & _ & H). exact H. Qed.
  Lemma sent_finish ep cid (s : esa) : ep_sent (finish E ep cid s) = ep_sent ep.
  Proof.
    rewrite finish_eq.
    assert (Hp : ep_sent (fst (finish_pre E ep cid s)) = ep_sent ep).
    { unfold finish_pre. destruct (new_sa (inner P s)); [|reflexivity].
      destruct (dispatch_register_successor (state P s) true); reflexivity. }
    destruct (dispatch_remove _); [rewrite sent_teardown|]; exact Hp.
  Qed.

  (** the dispatcher: what a datagram routed to the entry [(cid, s)] makes the endpoint send is what process_message
      returned, and that is (1) the stored response, byte for byte, to a copy of the previous request, or (2) the
      response to the request just executed, carrying its Message ID and now stored, or (3) a request carrying the send
      counter of the IkeSa as written back, recorded as its outstanding request *)
  Theorem dispatch_emits ep h my peer (m : pmsg body) cid (s : esa) :
    dispatch_is_init_request (h_exch h) (negb (h_resp h)) = false ->
    find (selects E h) (table ep) = Some (cid, s) ->
    let r := process_message P (enter ep s) m (ep_now ep) in
    let s' := snd (leave (routed E ep cid) (fst r)) in
    ep_sent (dispatch E ep (Dg h my peer (Some m))) = ep_sent ep ++ olist (snd r)
    /\ forall d, snd r = Some d ->
         (last_resp P s = Some d /\ last_resp P s' = Some d /\ h_resp (p_hdr m) = false /\ h_id (p_hdr m) = peer_id P s - 1
          /\ my_id P s' = my_id P s /\ peer_id P s' = peer_id P s)
         \/ (last_resp P s' = Some d /\ h_resp (d_hdr d) = true /\ h_id (d_hdr d) = peer_id P s
             /\ h_resp (p_hdr m) = false /\ h_id (p_hdr m) = peer_id P s /\ peer_id P s' = peer_id P s + 1
             /\ my_id P s' = my_id P s /\ req_data P s' = req_data P s)
         \/ (h_resp (d_hdr d) = false /\ h_id (d_hdr d) = my_id P s' /\ req_data P s' = Some d
             /\ h_resp (p_hdr m) = true /\ h_id (p_hdr m) = my_id P s /\ (my_id P s' = my_id P s + 1 \/ my_id P s' = 0)
             /\ peer_id P s' = peer_id P s /\ last_resp P s' = last_resp P s).
  Proof.
    intros Hi Hf. cbv zeta. destruct (dispatch_routes E ep h my peer m cid s Hi Hf) as [Hd _].
    change (ep_now ep) with (ep_now (routed E ep cid)). change (enter ep s) with (enter (routed E ep cid) s).
    set (ep1 := routed E ep cid). set (r := process_message P (enter ep1 s) m (ep_now ep1)).
    split.
    - etransitivity; [exact (f_equal ep_sent Hd)|]. unfold handle. cbv zeta. fold r.
      rewrite sent_finish, sent_send, sent_leave. reflexivity.
    - intros d Hsd. destruct (leave_ids ep1 (fst r)) as (L1 & L2 & L3 & L4). rewrite L1, L2, L3, L4.
      assert (Hr : process_message P (enter ep1 s) m (ep_now ep1) = (fst r, Some d)).
      { fold r. rewrite <- Hsd. destruct r; reflexivity. }
      destruct (process_message_output P _ _ _ _ _ Hr) as [H|[H|H]].
      + left. destruct H as (A1 & A2 & A3 & A4 & A5 & A6 & _). repeat split; assumption.
      + right. left. exact H.
      + right. right. exact H.
  Qed.

  (** a kernel EXPIRE: the request sent for it (a rekey or a delete of the CHILD_SA) carries the send counter of the
      entry as written back and is its outstanding request *)
  Theorem expire_emits ep spi hard cid (s : esa) :
    find (fun x : nat * esa => owns_spi E spi (snd x)) (table ep) = Some (cid, s) ->
    let r := process_trigger P (enter ep s) (ep_now ep) (E_expire spi hard) in
    let s' := snd (leave ep (fst r)) in
    table (expire E ep spi hard) = Endpoint.replace E (table ep) cid s'
    /\ ep_sent (expire E ep spi hard) = ep_sent ep ++ olist (snd r)
    /\ forall d, snd r = Some d ->
         h_resp (d_hdr d) = false /\ h_id (d_hdr d) = my_id P s' /\ req_data P s' = Some d /\ my_id P s' = my_id P s.
  Proof.
    intros Hf. cbv zeta. rewrite expire_eq.
    match goal with |- context [find ?f (table ep)] => assert (Hx : find f (table ep) = Some (cid, s)) by exact Hf; rewrite Hx end.
    set (r := process_trigger P (enter ep s) (ep_now ep) (E_expire spi hard)).
    destruct (do_call_all E ep cid r) as (T1 & _ & _ & _ & _ & T6). split; [exact T1|]. split; [exact T6|].
    intros d Hsd. destruct (leave_ids ep (fst r)) as (L1 & _ & L3 & _). rewrite L1, L3.
    assert (Hr : process_trigger P (enter ep s) (ep_now ep) (E_expire spi hard) = (fst r, Some d)).
    { fold r. rewrite <- Hsd. destruct r; reflexivity. }
    destruct (process_trigger_output P _ _ _ _ _ Hr) as (A1 & A2 & A3 & A4 & _). repeat split; assumption.
  Qed.

  (** one call of a timer check on the entry [(cid, s)] (each visit of the three sweeps is such a call): the liveness
      and lifetime checks emit a request carrying the send counter of the entry as written back; the retransmission
      check emits the outstanding request again, byte for byte *)
  Theorem timer_call_emits ep cid (s : esa) (f : esa -> Z -> esa * option (dgram body)) :
    let r := f (enter ep s) (ep_now ep) in
    let s' := snd (leave ep (fst r)) in
    table (do_call ep cid r) = Endpoint.replace E (table ep) cid s'
    /\ ep_sent (do_call ep cid r) = ep_sent ep ++ olist (snd r)
    /\ forall d, snd r = Some d ->
         (f = check_dpd P \/ f = check_lifetime P ->
          h_resp (d_hdr d) = false /\ h_id (d_hdr d) = my_id P s' /\ req_data P s' = Some d /\ my_id P s' = my_id P s)
         /\ (f = check_retransmission P -> req_data P s = Some d /\ req_data P s' = Some d /\ my_id P s' = my_id P s).
  Proof.
    cbv zeta. set (r := f (enter ep s) (ep_now ep)).
    destruct (do_call_all E ep cid r) as (T1 & _ & _ & _ & _ & T6). split; [exact T1|]. split; [exact T6|].
    intros d Hsd. destruct (leave_ids ep (fst r)) as (L1 & _ & L3 & _). rewrite L1, L3.
    assert (Hr : f (enter ep s) (ep_now ep) = (fst r, Some d)) by (fold r; rewrite <- Hsd; destruct r; reflexivity).
    split.
    - intros [->| ->].
      + destruct (check_dpd_output P _ _ _ _ Hr) as (A1 & A2 & A3 & A4). repeat split; assumption.
      + destruct (check_lifetime_output P _ _ _ _ Hr) as (A1 & A2 & A3 & A4). repeat split; assumption.
    - intros ->. destruct (check_retransmission_output P _ _ _ _ Hr) as (A1 & A2 & A3 & _). repeat split; assumption.
  Qed.
End Numbering.

(* ------------------------------------------------------------------------------------------------ *)
(** * F'. The liveness deadline of the routed entry *)
Section Liveness.
  Variable E : env.
  Notation P := (hdl_iface E).
  Notation esa := (Endpoint.esa E).
  Notation endpoint := (Endpoint.endpoint E).
  Notation table := (Endpoint.table E).
  Notation next_cid := (Endpoint.next_cid E).
  Notation ep_now := (Endpoint.ep_now E).
  Notation enter := (Endpoint.enter E).
  Notation leave := (Endpoint.leave E).
  Notation replace := (Endpoint.replace E).

  Lemma fst_unique (l : list (nat * esa)) c a b : NoDup (map fst l) -> In (c, a) l -> In (c, b) l -> a = b.
  Proof.
    induction l as [|[c0 x] r IH]; cbn; intros Hn Ha Hb; [contradiction|]. inversion Hn as [|? ? Hx Hr]; subst.
    destruct Ha as [Ha|Ha], Hb as [Hb|Hb].
    - congruence.
    - injection Ha as -> ->. exfalso. apply Hx. apply in_map_iff. exists (c, b). auto.
    - injection Hb as -> ->. exfalso. apply Hx. apply in_map_iff. exists (c, a). auto.
    - apply IH; assumption.
  Qed.
  Lemma replace_In_unique (t : list (nat * esa)) c (s' x : esa) :
    NoDup (map fst t) -> In (c, x) (replace t c s') -> x = s'.
  Proof.
    intros Hn Hin.
    assert (Hc : In c (map fst t)).
    { rewrite <- (replace_fst E t c s'). apply in_map_iff. exists (c, x). auto. }
    apply (fst_unique (replace t c s') c x s'); [rewrite replace_fst; exact Hn|exact Hin|].
    apply In_replace_self. exact Hc.
  Qed.
  Lemma finish_entry_dpd ep cid (s x : esa) :
    CidOK E (table ep) (next_cid ep) -> In cid (map fst (table ep)) -> In (cid, x) (table (finish E ep cid s)) ->
    dpd_at P x = dpd_at P s.
  Proof.
    intros [Hn Hlt] Hc Hin. rewrite finish_eq in Hin.
    assert (Hp : In (cid, x) (table (fst (finish_pre E ep cid s)))).
    { destruct (dispatch_remove _); [|exact Hin].
      destruct (teardown_facts E (fst (finish_pre E ep cid s)) cid (snd (finish_pre E ep cid s))) as (_ & T2 & _).
      rewrite T2 in Hin. eapply In_remove. exact Hin. }
    clear Hin. unfold finish_pre in Hp.
    assert (Hplain : In (cid, x) (replace (table ep) cid s) -> dpd_at P x = dpd_at P s).
    { intros H. rewrite (replace_In_unique _ _ _ _ Hn H). reflexivity. }
    destruct (new_sa (inner P s)) as [nc|]; [|exact (Hplain Hp)].
    destruct (dispatch_register_successor (state P s) true); [|exact (Hplain Hp)].
    cbn [fst] in Hp.
    change (In (cid, x) (replace (table ep) cid (with_inner P s (set new_sa (fun _ => None) (inner P s)))
                          ++ [(next_cid ep, sa_of_core E nc)])) in Hp.
    apply in_app_or in Hp. destruct Hp as [Hp|[Hp|[]]].
    - rewrite (replace_In_unique _ _ _ _ Hn Hp). reflexivity.
    - injection Hp as Hp _. exfalso. apply Hlt in Hc. rewrite Hp in Hc. exact (Nat.lt_irrefl _ Hc).
  Qed.

  (** whatever the datagram routed to [(cid, s)] is and whatever the handlers do with it: if the entry is still in the
      table afterwards, its liveness deadline is the old one, or - exactly when the generated decision function says
      "re-arm" - the clock plus the configured delay *)
  Theorem liveness_deadline_after_dispatch ep h my peer (m : pmsg body) cid (s x : esa) :
    dispatch_is_init_request (h_exch h) (negb (h_resp h)) = false ->
    find (selects E h) (table ep) = Some (cid, s) -> CidOK E (table ep) (next_cid ep) ->
    In (cid, x) (table (dispatch E ep (Dg h my peer (Some m)))) ->
    dpd_at P x = if fst (decision P s m) then ep_now ep + dpd_cfg P s else dpd_at P s.
  Proof.
    intros Hi Hf Hok Hin. destruct (dispatch_routes E ep h my peer m cid s Hi Hf) as [Hd _].
    assert (Hin' : In (cid, x) (table (handle E (routed E ep cid) cid s m))) by (rewrite <- Hd; exact Hin).
    clear Hin Hd. unfold handle in Hin'. cbv zeta in Hin'.
    set (ep1 := routed E ep cid) in *. set (r := process_message P (enter ep1 s) m (ep_now ep1)) in *.
    destruct (leave_facts E ep1 (fst r)) as (_ & _ & L3 & L4 & _).
    destruct (send_facts E (fst (leave ep1 (fst r))) (snd r)) as (S1 & S2 & _).
    assert (Hx : dpd_at P x = dpd_at P (snd (leave ep1 (fst r)))).
    { apply (finish_entry_dpd (send E (fst (leave ep1 (fst r))) (snd r)) cid (snd (leave ep1 (fst r))) x);
        [|rewrite S1, L3|exact Hin'].
      - rewrite S1, S2, L3, L4. exact Hok.
      - apply in_map_iff. exists (cid, s). split; [reflexivity|exact (selected_in E ep h cid s Hf)]. }
    rewrite Hx.
    assert (Hl : dpd_at P (snd (leave ep1 (fst r))) = dpd_at P (fst r)).
    { unfold Endpoint.leave. destruct (rek_push (inner P (fst r))); reflexivity. }
    rewrite Hl. unfold r. rewrite (dpd_at_process_message P (enter ep1 s) m (ep_now ep1)). reflexivity.
  Qed.

  Corollary liveness_timer_rearmed_only_by_fresh_message ep h my peer (m : pmsg body) cid (s x : esa) :
    dispatch_is_init_request (h_exch h) (negb (h_resp h)) = false ->
    find (selects E h) (table ep) = Some (cid, s) -> CidOK E (table ep) (next_cid ep) ->
    In (cid, x) (table (dispatch E ep (Dg h my peer (Some m)))) -> dpd_at P x <> dpd_at P s ->
    dpd_at P x = ep_now ep + dpd_cfg P s /\ fst (decision P s m) = true
    /\ (has_keys P (inner P s) = false \/ p_auth m = true) /\ addressed P s m = true
    /\ h_id (p_hdr m) = (if h_resp (p_hdr m) then my_id P s else peer_id P s).
  Proof.
    intros Hi Hf Hok Hin Hne. pose proof (liveness_deadline_after_dispatch ep h my peer m cid s x Hi Hf Hok Hin) as Hd.
    destruct (fst (decision P s m)) eqn:Hdec; [|contradiction].
    split; [exact Hd|]. split; [reflexivity|]. apply decision_rearm_iff in Hdec. destruct Hdec as (A & B0 & C).
    split; [exact A|]. split; [exact B0|]. unfold fresh in C. apply Z.eqb_eq. exact C.
  Qed.
End Liveness.

(* ------------------------------------------------------------------------------------------------ *)
(** * G. Concrete endpoints *)
Module WindowExample.
  Import HdlSad.Example.
  (** two established responder IkeSas with sane deadlines: A (SPIs 1/2, one CHILD_SA), B (SPIs 3/4) *)
  Definition core_a : core := (core0 ST_ESTABLISHED [ch1]) <| dpd0 := 1000 |> <| rek0 := 2000 |> <| del0 := 3000 |>.
  Definition core_b : core :=
    (core0 ST_ESTABLISHED []) <| my_spi_b := [3]%N |> <| peer_spi_b := [4]%N |> <| dpd0 := 1000 |> <| rek0 := 2000 |>
                              <| del0 := 3000 |>.
  Definition sa_a : esa E0 := sa_of_core E0 core_a.
  Definition sa_b : esa E0 := sa_of_core E0 core_b.
  Definition ep_two (tp : list draw) : endpoint E0 :=
    mk_ep E0 [(0%nat, sa_a); (1%nat, sa_b)] 2 EpExample.cfs [9%N] tp 0 [] [] None None.
  Lemma ep_two_table tp : AllQ E0 (table E0 (ep_two tp)).
  Proof. intros c s [H|[H|[]]]; injection H as <- <-; (split; [vm_compute; discriminate|intros _; reflexivity]). Qed.
  Lemma ep_two_cids tp : CidOK E0 (table E0 (ep_two tp)) (next_cid E0 (ep_two tp)).
  Proof. split; [cbn [map fst table ep_two]; nodup_tac|]. cbn [map fst table ep_two next_cid]. intros c [<-|[<-|[]]]; lia. Qed.
  Ltac vm_conj := repeat match goal with |- _ /\ _ => split end; vm_compute; reflexivity.

  (** a datagram for IkeSa A: the peer's SPIs, initiator flag, request *)
  Definition hd (exch id : Z) : hdr := mk_hdr 2 1 2 0 exch false true id.
  Definition dgm (auth : bool) (exch id : Z) (ps : list payload) : datagram :=
    Dg (hd exch id) 10 20 (Some (mk_pmsg (hd exch id) auth ([], ps))).
  Definition del_ike := [P_DELETE PROTO_IKE []].
  Definition vv := [D_verdict true; D_verdict true].
  Definition view (ep : endpoint E0) :=
    (map (fun x : nat * esa E0 => (fst x, st (co (inner (hdl_iface E0) (snd x))), my_id _ (snd x), peer_id _ (snd x),
                                  dpd_at _ (snd x), length (children (co (inner (hdl_iface E0) (snd x)))))) (table E0 ep),
     ep_kops E0 ep, length (ep_sent E0 ep), ep_tape E0 ep, ep_routed E0 ep, next_cid E0 ep).

  (** every field of a table entry (the record itself carries the interface as a parameter, which vm_compute would
      normalise) *)
  Definition fields (x : nat * esa E0) :=
    let s := snd x in
    (fst x, inner _ s, is_init _ s, my_spi _ s, my_id _ s, peer_id _ s, last_resp _ s, req_data _ s, rt_at _ s, rt_n _ s,
     dpd_at _ s, rek_at _ s, del_at _ s, dpd_cfg _ s, pending _ s).

  (** a forged cleartext INFORMATIONAL request (DELETE of the IKE_SA) with the right SPIs and the next Message ID: the
      endpoint is the old endpoint with the routing recorded - both IkeSas literally unchanged, nothing sent, no kernel
      operation, the tape untouched; after the timer section the table is what time alone would have made of it *)
  Example forged_delete :
    dispatch E0 (ep_two vv) (dgm false EX_INFORMATIONAL 0 del_ike)
    = mk_ep E0 [(0%nat, sa_a); (1%nat, sa_b)] 2 EpExample.cfs [9%N] vv 0 [] [] (Some 0%nat) None
    /\ map fields (table E0 (iteration E0 (ep_two []) 5 vv (Ev_datagram (dgm false EX_INFORMATIONAL 0 del_ike))))
       = map fields (table E0 (iteration E0 (ep_two []) 5 vv Ev_none))
    /\ ep_sent E0 (iteration E0 (ep_two []) 5 vv (Ev_datagram (dgm false EX_INFORMATIONAL 0 del_ike))) = []
    /\ ep_kops E0 (iteration E0 (ep_two []) 5 vv (Ev_datagram (dgm false EX_INFORMATIONAL 0 del_ike))) = [].
  Proof. vm_conj. Qed.
  (** the same datagram, authentic: IkeSa A is deleted with its kernel SAs and the response is sent (so the example
      above is not vacuous) *)
  Example authentic_delete :
    view (dispatch E0 (ep_two vv) (dgm true EX_INFORMATIONAL 0 del_ike))
    = ([(1%nat, ST_ESTABLISHED, 0, 0, 1000, 0%nat)],
       [K_del 20 50 [0;0;0;2]%N true; K_del 10 50 [0;0;0;1]%N true], 1%nat, [], Some 0%nat, 2%nat).
  Proof. vm_compute. reflexivity. Qed.
  (** a forged cleartext CREATE_CHILD_SA request likewise *)
  Definition tape_new := [D_num 16; D_bytes [5%N]; D_bytes [0;0;0;7]%N; D_verdict true; D_verdict true].
  Definition new_child := [P_SA [esp_prop [0;0;0;8]%N]; P_TSi [ts1]; P_TSr [ts0]; P_NONCE [8%N]].
  Example forged_create_child :
    dispatch E0 (ep_two tape_new) (dgm false EX_CREATE_CHILD_SA 0 new_child)
    = mk_ep E0 [(0%nat, sa_a); (1%nat, sa_b)] 2 EpExample.cfs [9%N] tape_new 0 [] [] (Some 0%nat) None.
  Proof. vm_compute. reflexivity. Qed.

  (** the same authentic CREATE_CHILD_SA request twice (iterations at t = 5 and t = 6, the same tape offered): the
      first is executed - two NEWSA, a second CHILD_SA, receive counter 1 -, the second is answered with the
      byte-identical response: no kernel operation, no third CHILD_SA, the tape not consumed, the counter and the
      liveness deadline (65) stay *)
  Definition once := iteration E0 (ep_two []) 5 tape_new (Ev_datagram (dgm true EX_CREATE_CHILD_SA 0 new_child)).
  Definition twice := iteration E0 once 6 tape_new (Ev_datagram (dgm true EX_CREATE_CHILD_SA 0 new_child)).
  Example replayed_create_child :
    view once = ([(0%nat, ST_ESTABLISHED, 0, 1, 65, 2%nat); (1%nat, ST_ESTABLISHED, 0, 0, 1000, 0%nat)],
                 ep_kops E0 once, 1%nat, [], Some 0%nat, 2%nat)
    /\ length (ep_kops E0 once) = 2%nat
    /\ view twice = ([(0%nat, ST_ESTABLISHED, 0, 1, 65, 2%nat); (1%nat, ST_ESTABLISHED, 0, 0, 1000, 0%nat)],
                     [], 1%nat, tape_new, Some 0%nat, 2%nat)
    /\ ep_sent E0 twice = ep_sent E0 once
    /\ map (fun x : nat * esa E0 => co (inner (hdl_iface E0) (snd x))) (table E0 twice)
       = map (fun x : nat * esa E0 => co (inner (hdl_iface E0) (snd x))) (table E0 once).
  Proof. vm_conj. Qed.

  (** a stale authentic request (Message ID 7 when 1 is expected): dropped - nothing sent, no kernel operation, the
      tape whole, the handler state untouched, and the liveness deadline of the entry stays (65): every field of every
      entry is what it was *)
  Definition stale := dgm true EX_CREATE_CHILD_SA 7 new_child.
  Example stale_request_changes_nothing :
    view (dispatch E0 (start E0 once 6 tape_new) stale)
    = ([(0%nat, ST_ESTABLISHED, 0, 1, 65, 2%nat); (1%nat, ST_ESTABLISHED, 0, 0, 1000, 0%nat)],
       [], 0%nat, tape_new, Some 0%nat, 2%nat)
    /\ map (fun x : nat * esa E0 => dpd_at _ (snd x)) (table E0 (start E0 once 6 tape_new)) = [65; 1000]
    /\ map (fun x : nat * esa E0 => fields (fst x, EndpointTimers.settle E0 0 (snd x)))
           (table E0 (dispatch E0 (start E0 once 6 tape_new) stale))
       = map (fun x : nat * esa E0 => fields (fst x, EndpointTimers.settle E0 0 (snd x))) (table E0 (start E0 once 6 tape_new))
    /\ dispatch E0 (ep_two tape_new) stale
       = mk_ep E0 [(0%nat, sa_a); (1%nat, sa_b)] 2 EpExample.cfs [9%N] tape_new 0 [] [] (Some 0%nat) None.
  Proof. vm_conj. Qed.
End WindowExample.

(* ------------------------------------------------------------------------------------------------ *)
(** * the definitions used in the statements, written out *)
Lemma olist_def {A} (o : option A) : olist o = match o with Some x => [x] | None => [] end.
Proof. reflexivity. Qed.
Lemma selects_def E h (x : nat * esa E) :
  selects E h x = Z.eqb (my_spi (hdl_iface E) (snd x)) (dispatch_my_spi (h_init h) (h_spi_i h) (h_spi_r h)).
Proof. reflexivity. Qed.
Lemma settle_def E t (s : esa E) :
  EndpointTimers.settle E t s
  = with_inner (hdl_iface E) s (mk_isa (co (inner (hdl_iface E) s)) (new_sa (inner (hdl_iface E) s)) None t [] []).
Proof. reflexivity. Qed.
Lemma decision_def (P : iface) (s : sa P) (m : pmsg (B P)) :
  decision P s m
  = process_message_decision (h_init (p_hdr m)) (is_init P s) (h_exch (p_hdr m)) (h_spi_i (p_hdr m)) (h_spi_r (p_hdr m))
      (spi_i P s) (spi_r P s) (has_keys P (inner P s)) (p_auth m) (negb (h_resp (p_hdr m))) (state P s) (h_id (p_hdr m))
      (peer_id P s) (my_id P s).
Proof. reflexivity. Qed.
Lemma touch_def (P : iface) (s : sa P) (m : pmsg (B P)) now :
  touch P s m now = if fst (decision P s m) then set_dpd_at P s (now + dpd_cfg P s) else s.
Proof. reflexivity. Qed.
Lemma window_reply_def (P : iface) (s : sa P) (m : pmsg (B P)) :
  window_reply P s m
  = match snd (decision P s m) with
    | RCached => last_resp P s
    | RRequest => if Z.eqb (h_id (p_hdr m)) (peer_id P s - 1) then last_resp P s else None
    | _ => None
    end.
Proof. reflexivity. Qed.
Lemma addressed_def (P : iface) (s : sa P) (m : pmsg (B P)) :
  addressed P s m
  = (negb (Bool.eqb (h_init (p_hdr m)) (is_init P s))
     && (Z.eqb (h_exch (p_hdr m)) EX_IKE_SA_INIT
         || (Z.eqb (h_spi_i (p_hdr m)) (spi_i P s) && Z.eqb (h_spi_r (p_hdr m)) (spi_r P s))))%bool.
Proof. reflexivity. Qed.
Lemma fresh_def (P : iface) (s : sa P) (m : pmsg (B P)) :
  fresh P s m = Z.eqb (h_id (p_hdr m)) (if h_resp (p_hdr m) then my_id P s else peer_id P s).
Proof. reflexivity. Qed.
Lemma other_old_def E cid bound (x : nat * esa E) :
  other_old E cid bound x = (negb (Nat.eqb (fst x) cid) && Nat.ltb (fst x) bound)%bool.
Proof. reflexivity. Qed.
Lemma other_def E cid (x : nat * esa E) : other E cid x = negb (Nat.eqb (fst x) cid).
Proof. reflexivity. Qed.
