(** Entry point of the C18 correspondence. input: SxL [halfopen incl. new; secret set (as observed: the model
    recomputes it from the count); has_sa; has_nonce; has_ke; number of cookies; first cookie equals the expected one]
    output: SxL [armed; kind (0 payload missing, 1 cookie required, 2 proceed); DH calls of the prefix]. *)
From Coq Require Import ZArith Bool List String.
From VLib Require Import Sx Bytes.
From IkeSa Require Import Gen.IkeFacts Cookie.
Import ListNotations.
Open Scope Z_scope.

Definition toy_mac (k d : bytes) : bytes := List.app k d.

Definition run_cookie (x : sx) : sx :=
  match x with
  | SxL [SxZ h; SxZ _; SxZ a; SxZ b; SxZ c; SxZ n; SxZ fe] =>
      let armed := dispatch_arm_cookie h in
      (* a cookie list with the observed shape: n cookies, the first one right or wrong *)
      let e := expected_cookie toy_mac [1%N] [2%N] [3%N] [4%N] in
      let cookies := match Z.to_nat n with
                     | O => []
                     | S m => (if Z.eqb fe 1 then e else [0%N]) :: repeat [9%N] m
                     end in
      let '(p, dh) := request_prefix toy_mac (if armed then Some [1%N] else None) (Z.eqb a 1) (Z.eqb b 1) (Z.eqb c 1)
                                     [2%N] [3%N] [4%N] cookies in
      SxL [sx_bool armed; SxZ (match p with PayloadMissing => 0 | CookieRequired _ => 1 | Proceed => 2 end);
           SxZ (Z.of_nat dh)]
  | _ => bad_input
  end.
