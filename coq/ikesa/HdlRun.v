(** Entry point of the handler-model correspondence: a whole endpoint (every IkeSa it ever held) is replayed from
    the recorded calls; cryptography / serialisation are tables recorded from the real run, draws and kernel
    verdicts come from the recorded tape of each call.  Output: after every call the complete state of the IkeSa
    the call was made on, the reply, and the kernel operations issued. *)
From Coq Require Import ZArith NArith Bool List String.
From RecordUpdate Require Import RecordSet.
From VLib Require Import Sx Bytes.
From IkeSa Require Import Gen.IkeFacts Shell Hdl.
Import ListNotations RecordSetNotations.
Open Scope Z_scope.

(* ---- encoders ------------------------------------------------------------------------------------ *)
Definition sx_optZ (o : option Z) : sx := match o with Some z => SxZ z | None => SxNone end.
Definition sx_tr (t : transform) : sx := SxL [SxZ (tr_type t); SxZ (tr_id t); sx_optZ (tr_keylen t)].
Definition sx_prop (p : proposal) : sx :=
  SxL [SxZ (pr_num p); SxZ (pr_proto p); sx_bytes (pr_spi p); sx_list sx_tr (pr_trs p)].
Definition sx_ts (t : ts) : sx :=
  SxL [SxZ (ts_type t); SxZ (ts_proto t); SxZ (ts_sport t); SxZ (ts_eport t); SxZ (ts_saddr t); SxZ (ts_eaddr t)].
Definition sx_payload (p : payload) : sx :=
  match p with
  | P_SA ps => SxL [SxZ 33; sx_list sx_prop ps]
  | P_KE g d => SxL [SxZ 34; SxZ g; sx_bytes d]
  | P_IDi t d => SxL [SxZ 35; SxZ t; sx_bytes d]
  | P_IDr t d => SxL [SxZ 36; SxZ t; sx_bytes d]
  | P_AUTH m d => SxL [SxZ 39; SxZ m; sx_bytes d]
  | P_NONCE n => SxL [SxZ 40; sx_bytes n]
  | P_NOTIFY pr ty spi d => SxL [SxZ 41; SxZ pr; SxZ ty; sx_bytes spi; sx_bytes d]
  | P_DELETE pr spis => SxL [SxZ 42; SxZ pr; sx_list sx_bytes spis]
  | P_VENDOR d => SxL [SxZ 43; sx_bytes d]
  | P_TSi l => SxL [SxZ 44; sx_list sx_ts l]
  | P_TSr l => SxL [SxZ 45; sx_list sx_ts l]
  | P_OTHER ty => SxL [SxZ ty]
  end.
Definition sx_hdr (h : hdr) : sx :=
  SxL [SxZ (h_spi_i h); SxZ (h_spi_r h); SxZ (h_major h); SxZ (h_minor h); SxZ (h_exch h); sx_bool (h_resp h);
       sx_bool (h_init h); SxZ (h_id h)].
Definition sx_amsg (m : amsg) : sx :=
  SxL [sx_hdr (fst m); sx_list sx_payload (fst (snd m)); sx_list sx_payload (snd (snd m))].
Definition sx_dgram (d : option (dgram body)) : sx :=
  match d with None => SxNone | Some d => sx_amsg (d_hdr d, d_body d) end.
(** Fingerprints: the state recorded after EVERY call would otherwise repeat whole messages and keys (the literals
    dominate the evaluation time).  Long byte strings inside the STATE are compared by length and first 8 octets;
    what is SENT (the reply) and all inputs are compared in full. *)
Definition sx_short (b : bytes) : sx :=
  if Nat.leb (List.length b) 12 then sx_bytes b else SxL [sx_nat (List.length b); sx_bytes (firstn 8 b)].
Definition fp_prop (p : proposal) : sx :=
  SxL [SxZ (pr_num p); SxZ (pr_proto p); sx_short (pr_spi p); sx_list sx_tr (pr_trs p)].
Definition fp_payload (p : payload) : sx :=
  match p with
  | P_SA ps => SxL [SxZ 33; sx_list fp_prop ps]
  | P_KE g d => SxL [SxZ 34; SxZ g; sx_short d]
  | P_IDi t d => SxL [SxZ 35; SxZ t; sx_short d]
  | P_IDr t d => SxL [SxZ 36; SxZ t; sx_short d]
  | P_AUTH m d => SxL [SxZ 39; SxZ m; sx_short d]
  | P_NONCE n => SxL [SxZ 40; sx_short n]
  | P_NOTIFY pr ty spi d => SxL [SxZ 41; SxZ pr; SxZ ty; sx_short spi; sx_short d]
  | P_DELETE pr spis => SxL [SxZ 42; SxZ pr; sx_list sx_short spis]
  | P_VENDOR d => SxL [SxZ 43; sx_short d]
  | P_TSi l => SxL [SxZ 44; sx_list sx_ts l]
  | P_TSr l => SxL [SxZ 45; sx_list sx_ts l]
  | P_OTHER ty => SxL [SxZ ty]
  end.
Definition fp_amsg (m : amsg) : sx :=
  SxL [sx_hdr (fst m); sx_list fp_payload (fst (snd m)); sx_list fp_payload (snd (snd m))].
Definition fp_dgram (d : option (dgram body)) : sx :=
  match d with None => SxNone | Some d => fp_amsg (d_hdr d, d_body d) end.
Definition fp_kr (k : keyring) : sx :=
  SxL [sx_short (sk_d k); sx_short (sk_ai k); sx_short (sk_ar k); sx_short (sk_ei k); sx_short (sk_er k);
       sx_short (sk_pi k); sx_short (sk_pr k)].
Definition sx_kr (k : keyring) : sx :=
  SxL [sx_bytes (sk_d k); sx_bytes (sk_ai k); sx_bytes (sk_ar k); sx_bytes (sk_ei k); sx_bytes (sk_er k);
       sx_bytes (sk_pi k); sx_bytes (sk_pr k)].
(** the SPI of the proposal kept in a ChildSa is not compared (shared mutable objects, see Hdl.v) *)
Definition sx_child (c : child) : sx :=
  SxL [sx_bytes (c_in c); sx_bytes (c_out c); SxZ (pr_proto (c_prop c)); SxZ (c_mode c); sx_list sx_ts (c_tsi c);
       sx_list sx_ts (c_tsr c); sx_list sx_tr (pr_trs (c_prop c)); SxZ (c_life c)].
Definition sx_child_id (c : child) : sx := SxL [sx_bytes (c_in c); sx_bytes (c_out c)].
Definition ts_port (t : ts) : Z := if Z.eqb (ts_sport t) 0 && Z.eqb (ts_eport t) 65535 then 0 else ts_eport t.
Definition sx_ksa (k : ksa) : sx :=
  SxL [sx_bytes (k_spi k); SxZ (k_src k); SxZ (k_dst k); SxZ (k_proto k); SxZ (k_mode k); SxZ (ts_proto (k_sel_src k));
       SxZ (ts_port (k_sel_src k)); SxZ (ts_port (k_sel_dst k)); sx_bytes (k_enc k); sx_bytes (k_auth k); SxZ (k_life k)].
Definition sx_kop (k : kop) : sx :=
  match k with
  | K_add s ok => SxL [SxZ 0; sx_ksa s; sx_bool ok]
  | K_del d p spi ok => SxL [SxZ 1; SxZ d; SxZ p; sx_bytes spi; sx_bool ok]
  end.
(** self.request keeps references to shared, mutable Proposal objects of the configuration (their SPI is rewritten
    by every later request of the same connection): the SPIs inside the stored request are not compared; what was
    SENT is compared through the reply and request_data. *)
Definition blank_spi (p : payload) : payload :=
  match p with P_SA ps => P_SA (map (fun x => x <| pr_spi := [] |>) ps) | _ => p end.
Definition sx_req (r : option (Z * list payload)) : sx :=
  match r with None => SxNone | Some (e, ps) => SxL [SxZ e; sx_list fp_payload (map blank_spi ps)] end.
Definition sx_core (c : core) : sx :=
  SxL [SxZ (st c); sx_bytes (my_spi_b c); sx_bytes (peer_spi_b c); sx_opt fp_kr (kr c);
       sx_opt (fun p => sx_list sx_tr (pr_trs p)) (chosen c); sx_list sx_child (children c);
       sx_opt sx_child_id (creating c); sx_opt sx_child_id (rekeying c); sx_opt sx_child_id (deleting c);
       sx_opt (fun d => SxZ (fst d)) (dh c); sx_req (request c); sx_opt fp_amsg (init_req c);
       sx_opt fp_amsg (init_res c); sx_bool (match cprop c with Some _ => true | None => false end)].

(* ---- decoders ------------------------------------------------------------------------------------ *)
Definition bytes_of (x : sx) : bytes := match get_bytes x with Some b => b | None => [] end.
Definition Z_of (x : sx) : Z := match x with SxZ z => z | _ => 0 end.
Definition bool_of (x : sx) : bool := match x with SxZ 1 => true | _ => false end.
Definition optZ_of (x : sx) : option Z := match x with SxZ z => Some z | _ => None end.
Definition list_of (x : sx) : list sx := match x with SxL l => l | _ => [] end.
Definition tr_of (x : sx) : transform :=
  match x with SxL [a; b; c] => mk_tr (Z_of a) (Z_of b) (optZ_of c) | _ => mk_tr 0 0 None end.
Definition prop_of (x : sx) : proposal :=
  match x with
  | SxL [n; p; s; SxL trs] => mk_prop (Z_of n) (Z_of p) (bytes_of s) (map tr_of trs)
  | _ => mk_prop 0 0 [] []
  end.
Definition ts_of (x : sx) : ts :=
  match x with
  | SxL [a; b; c; d; e; f] => mk_ts (Z_of a) (Z_of b) (Z_of c) (Z_of d) (Z_of e) (Z_of f)
  | _ => mk_ts 0 0 0 0 0 0
  end.
Definition payload_of (x : sx) : payload :=
  match x with
  | SxL [SxZ 33; SxL ps] => P_SA (map prop_of ps)
  | SxL [SxZ 34; g; d] => P_KE (Z_of g) (bytes_of d)
  | SxL [SxZ 35; t; d] => P_IDi (Z_of t) (bytes_of d)
  | SxL [SxZ 36; t; d] => P_IDr (Z_of t) (bytes_of d)
  | SxL [SxZ 39; m; d] => P_AUTH (Z_of m) (bytes_of d)
  | SxL [SxZ 40; n] => P_NONCE (bytes_of n)
  | SxL [SxZ 41; pr; ty; spi; d] => P_NOTIFY (Z_of pr) (Z_of ty) (bytes_of spi) (bytes_of d)
  | SxL [SxZ 42; pr; SxL spis] => P_DELETE (Z_of pr) (map bytes_of spis)
  | SxL [SxZ 43; d] => P_VENDOR (bytes_of d)
  | SxL [SxZ 44; SxL l] => P_TSi (map ts_of l)
  | SxL [SxZ 45; SxL l] => P_TSr (map ts_of l)
  | SxL [SxZ ty] => P_OTHER ty
  | _ => P_OTHER (-1)
  end.
Definition hdr_of_sx (x : sx) : hdr :=
  match x with
  | SxL [a; b; c; d; e; f; g; h] => mk_hdr (Z_of a) (Z_of b) (Z_of c) (Z_of d) (Z_of e) (bool_of f) (bool_of g) (Z_of h)
  | _ => mk_hdr 0 0 0 0 0 false false 0
  end.
Definition protect_of (x : sx) : protect :=
  match x with
  | SxL [i; p; a; b; m; l] => mk_protect (Z_of i) (prop_of p) (ts_of a) (ts_of b) (Z_of m) (Z_of l)
  | _ => mk_protect 0 (prop_of SxNone) (ts_of SxNone) (ts_of SxNone) 0 0
  end.
Definition auth_of (x : sx) : authc :=
  match x with
  | SxL [t; d; psk; pr; pu] =>
      mk_authc (Z_of t) (bytes_of d) (match psk with SxNone => None | _ => Some (bytes_of psk) end) (bool_of pr) (bool_of pu)
  | _ => mk_authc 0 [] None false false
  end.
Definition conf_of (x : sx) : conf :=
  match x with
  | SxL [p; SxL prot; ma; pa; dpd; life] =>
      mk_conf (prop_of p) (map protect_of prot) (auth_of ma) (auth_of pa) (Z_of dpd) (Z_of life)
  | _ => mk_conf (prop_of SxNone) [] (auth_of SxNone) (auth_of SxNone) 0 0
  end.
Definition draw_of (x : sx) : draw :=
  match x with
  | SxL [SxZ 0; b] => D_bytes (bytes_of b)
  | SxL [SxZ 1; z] => D_num (Z_of z)
  | SxL [SxZ 2; g; h; pub] => D_dh (Z_of g) (bytes_of h) (bytes_of pub)
  | SxL [SxZ 3; g] => D_dhfail (Z_of g)
  | SxL [SxZ 4; ok] => D_verdict (bool_of ok)
  | _ => D_num 0
  end.

(* ---- the environment: tables recorded from the real run -------------------------------------------- *)
Fixpoint lookup (k : sx) (t : list sx) : option sx :=
  match t with
  | SxL [k'; v] :: r => if sx_eqb k k' then Some v else lookup k r
  | _ :: r => lookup k r
  | [] => None
  end.
Definition kr_of (x : sx) : option keyring :=
  match x with
  | SxL [a; b; c; d; e; f; g] =>
      Some (mk_kr (bytes_of a) (bytes_of b) (bytes_of c) (bytes_of d) (bytes_of e) (bytes_of f) (bytes_of g))
  | _ => None
  end.
Definition ckr_of (x : sx) : option ckeyring :=
  match x with
  | SxL [a; b; c; d] => Some (mk_ckr (bytes_of a) (bytes_of b) (bytes_of c) (bytes_of d))
  | _ => None
  end.
Definition prf_id (p : proposal) : Z := match get_transforms p T_PRF with t :: _ => tr_id t | [] => -1 end.
(** a value looked up but never recorded is answered with a marker that cannot equal anything recorded *)
Definition MISSING : bytes := [222; 173; 190; 239; 0; 0; 0; 0]%N.

Definition env_of (x : sx) : env :=
  match x with
  | SxL [SxL t_ike; SxL t_child; SxL t_dh; SxL t_prf; SxL t_sign; SxL t_verify; SxL t_ser; SxL t_cookie; SxL t_addr] =>
      mk_env
        (fun p ni nr si sr sec old =>
           match lookup (SxL [sx_list sx_tr (pr_trs p); sx_bytes ni; sx_bytes nr; sx_bytes si; sx_bytes sr; sx_bytes sec;
                              sx_opt sx_bytes old]) t_ike with
           | Some v => kr_of v | None => None end)
        (fun cp p seed skd =>
           match lookup (SxL [SxZ (prf_id cp); SxZ (pr_proto p); sx_list sx_tr (pr_trs p); sx_bytes seed; sx_bytes skd])
                        t_child with
           | Some v => ckr_of v | None => None end)
        (fun g h pub => match lookup (SxL [SxZ g; sx_bytes h; sx_bytes pub]) t_dh with
                        | Some (SxH s) => get_bytes (SxH s) | _ => None end)
        (fun cp k d => match lookup (SxL [SxZ (prf_id cp); sx_bytes k; sx_bytes d]) t_prf with
                       | Some v => bytes_of v | None => MISSING end)
        (fun d => match lookup (sx_bytes d) t_sign with Some v => bytes_of v | None => MISSING end)
        (fun sg d => match lookup (SxL [sx_bytes sg; sx_bytes d]) t_verify with Some v => bool_of v | None => false end)
        (fun m => match lookup (sx_amsg m) t_ser with Some v => bytes_of v | None => MISSING end)
        (fun k d => match lookup (SxL [sx_bytes k; sx_bytes d]) t_cookie with Some v => bytes_of v | None => MISSING end)
        (fun a => match lookup (SxZ a) t_addr with Some v => bytes_of v | None => MISSING end)
  | _ => mk_env (fun _ _ _ _ _ _ _ => None) (fun _ _ _ _ => None) (fun _ _ _ => None) (fun _ _ _ => MISSING)
                (fun _ => MISSING) (fun _ _ => false) (fun _ => MISSING) (fun _ _ => MISSING) (fun _ => MISSING)
  end.

(* ---- the endpoint ---------------------------------------------------------------------------------- *)
Section Run.
  Variable E : env.
  Let P := hdl_iface E.
  Definition msa := sa P.

  Definition empty_core (c : conf) (my peer : Z) : core :=
    mk_core ST_INITIAL false [] [] my peer c None None None [] None None None None None None None None 0 0 0 false.

  Definition sa_of_core (nc : core) : msa :=
    mk_sa P (mk_isa nc None None 0 [] []) (c_init nc) (spiZ (my_spi_b nc)) 0 0 None None 0 0
          (dpd0 nc) (rek0 nc) (del0 nc) (cf_dpd (cfg nc)) [].

  Definition with_call (s : msa) (tnow : Z) (tp : list draw) : msa :=
    with_inner P s ((inner P s) <| now := tnow |> <| tape := tp |> <| kops := [] |> <| rek_push := None |>).
  (** rekey_ike_sa_at is written by one handler (TEMPORARY_FAILURE answer to an IKE_SA rekey) *)
  Definition after_call (s : msa) : msa :=
    match rek_push (inner P s) with
    | Some z => mk_sa P (inner P s) (is_init P s) (my_spi P s) (my_id P s) (peer_id P s) (last_resp P s) (req_data P s)
                      (rt_at P s) (rt_n P s) (dpd_at P s) z (del_at P s) (dpd_cfg P s) (pending P s)
    | None => s
    end.

  Definition sx_state (s : msa) : sx :=
    let i := inner P s in
    SxL [sx_core (co i); sx_opt sx_core (new_sa i);
         SxL [SxZ (my_id P s); SxZ (peer_id P s); SxZ (rt_at P s); SxZ (rt_n P s); SxZ (dpd_at P s); SxZ (rek_at P s);
              SxZ (del_at P s); SxZ (Z.of_nat (List.length (pending P s)))];
         fp_dgram (last_resp P s); fp_dgram (req_data P s);
         SxZ (Z.of_nat (List.length (tape i)))].
  Definition sx_result (r : msa * option (dgram body)) : sx :=
    SxL [sx_state (fst r); sx_dgram (snd r); sx_list sx_kop (kops (inner P (fst r)))].

  Fixpoint find_sa (id : Z) (l : list (Z * msa)) : option msa :=
    match l with [] => None | (k, s) :: r => if Z.eqb k id then Some s else find_sa id r end.
  Fixpoint put_sa (id : Z) (s : msa) (l : list (Z * msa)) : list (Z * msa) :=
    match l with
    | [] => [(id, s)]
    | (k, s') :: r => if Z.eqb k id then (k, s) :: r else (k, s') :: put_sa id s r
    end.

  Definition run_H {A} (s : msa) (m : H A) : msa :=
    match m (inner P s) with (_, i') => with_inner P s i' end.

  Definition step (confs : list conf) (tbl : list (Z * msa)) (call : sx) : list (Z * msa) * sx :=
    match call with
    | SxL [SxZ kind; SxZ id; SxL args; SxL tp; SxZ tnow] =>
        let tp' := map draw_of tp in
        match kind, args with
        | 0, [ini; pspi; cidx; my; peer; csec] =>        (* IkeSa(...) by the controller *)
            let c0 := empty_core (nth (Z.to_nat (Z_of cidx)) confs (conf_of SxNone)) (Z_of my) (Z_of peer) in
            let i0 := mk_isa c0 None None tnow tp' [] in
            match new_core (bool_of ini) (bytes_of pspi) c0 i0 with
            | (Ok nc, i1) =>
                let nc' := nc <| cookie_secret := match csec with SxNone => None | _ => Some (bytes_of csec) end |> in
                let s := sa_of_core nc' in
                (put_sa id s tbl, SxL [sx_state (with_inner P s ((inner P s) <| tape := tape i1 |>)); SxNone; SxL []])
            | _ => (tbl, SxS "STUCK-CREATE")
            end
        | _, _ =>
            match find_sa id tbl with
            | None => (tbl, SxS "NO-SUCH-SA")
            | Some s0 =>
                let s := with_call s0 tnow tp' in
                let fin (r : msa * option (dgram body)) :=
                  let r' := (after_call (fst r), snd r) in (put_sa id (fst r') tbl, sx_result r') in
                match kind, args with
                | 1, [h; au; SxL clear; SxL enc] =>
                    fin (process_message P s (mk_pmsg (hdr_of_sx h) (bool_of au) (map payload_of clear, map payload_of enc)) tnow)
                | 2, [] => fin (check_retransmission P s tnow)
                | 3, [] => fin (check_dpd P s tnow)
                | 4, [] => fin (check_lifetime P s tnow)
                | 5, [a; b; idx] => fin (process_trigger P s tnow (E_acquire (ts_of a) (ts_of b) (Z_of idx)))
                | 6, [spi; hard] => fin (process_trigger P s tnow (E_expire (bytes_of spi) (bool_of hard)))
                | 7, [newid] =>                           (* the controller registers self.new_ike_sa *)
                    match new_sa (inner P s) with
                    | Some nc =>
                        let s' := with_inner P s ((inner P s) <| new_sa := None |>) in
                        let n := sa_of_core nc in
                        (put_sa (Z_of newid) n (put_sa id s' tbl), SxL [sx_state s'; sx_state n; SxL []])
                    | None => (tbl, SxS "NO-SUCCESSOR")
                    end
                | 8, [] => fin (run_H s delete_child_sas, None)      (* IkeSa.delete_child_sas *)
                | 9, [csec] =>                            (* controller arms the cookie *)
                    let s' := with_inner P s ((inner P s) <| co := (co (inner P s)) <| cookie_secret := Some (bytes_of csec) |> |>) in
                    (put_sa id s' tbl, SxL [sx_state s'; SxNone; SxL []])
                | 10, [d; r; dl] =>                       (* the scenario driver wrote the timers of the real object *)
                    let s' := mk_sa P (inner P s) (is_init P s) (my_spi P s) (my_id P s) (peer_id P s) (last_resp P s)
                                    (req_data P s) (rt_at P s) (rt_n P s) (Z_of d) (Z_of r) (Z_of dl) (dpd_cfg P s)
                                    (pending P s) in
                    (put_sa id s' tbl, SxL [sx_state s'; SxNone; SxL []])
                | _, _ => (tbl, SxS "BAD-CALL")
                end
            end
        end
    | _ => (tbl, SxS "BAD-CALL")
    end.

  Fixpoint steps (confs : list conf) (tbl : list (Z * msa)) (calls : list sx) : list sx :=
    match calls with
    | [] => []
    | c :: r => let '(tbl', out) := step confs tbl c in out :: steps confs tbl' r
    end.
End Run.

(** input: SxL [SxL confs; tables; SxL calls] *)
Definition run_hdl (x : sx) : sx :=
  match x with
  | SxL [SxL confs; tables; SxL calls] => SxL (steps (env_of tables) (map conf_of confs) [] calls)
  | _ => bad_input
  end.

(** [run_hdl_check (SxL [input; SxL expected])] = SxL [] when every call agrees, otherwise the index of the first
    call that differs and the model's output for it.  An expected state written [SxS "SAME"] stands for "the state
    of this IkeSa is what it was after the previous call made on it" (most timer calls change nothing; repeating the
    state would only make the literals larger). *)
Definition call_id (c : sx) : Z := match c with SxL (_ :: SxZ id :: _) => id | _ => -1 end.
Fixpoint prev_state (id : Z) (l : list (Z * sx)) : sx :=
  match l with [] => SxNone | (k, v) :: r => if Z.eqb k id then v else prev_state id r end.
Definition expand (prev : list (Z * sx)) (id : Z) (e : sx) : sx :=
  match e with
  | SxL (SxS "SAME" :: rest) => SxL (prev_state id prev :: rest)
  | _ => e
  end.
Definition state_of (o : sx) : sx := match o with SxL (s :: _) => s | _ => SxNone end.
Fixpoint first_mismatch (calls outs expected : list sx) (prev : list (Z * sx)) (i : Z) : sx :=
  match calls, outs, expected with
  | _, [], [] => SxL []
  | c :: calls', o :: outs', e :: exp' =>
      let id := call_id c in
      if sx_eqb o (expand prev id e) then first_mismatch calls' outs' exp' ((id, state_of o) :: prev) (i + 1)
      else SxL [SxZ i; o]
  | _, o :: _, _ => SxL [SxZ i; o]
  | _, [], _ :: _ => SxL [SxZ i; SxS "MODEL-STOPPED"]
  end.
Definition run_hdl_check (x : sx) : sx :=
  match x with
  | SxL [SxL [confs; tables; SxL calls]; SxL expected] =>
      match run_hdl (SxL [confs; tables; SxL calls]) with
      | SxL outs => first_mismatch calls outs expected [] 0
      | o => o
      end
  | _ => bad_input
  end.
