(** Instance of the controller interface used by the correspondence check: an IkeSa is (creation index, local SPI,
    state, successor, number of kernel SAs) plus the recorded outcomes of its timer methods; the datagram carries
    the recorded outcome of IkeSa.process_message (the environment oracle). *)
From Coq Require Import ZArith Bool List String.
From VLib Require Import Sx.
From IkeSa Require Import Gen.IkeFacts Controller.
Import ListNotations.
Open Scope Z_scope.

Inductive rsa := mk_rsa (cid : nat) (spi st : Z) (succ : option rsa) (nkeys : Z) (cookie : bool)
                        (t_rt t_dpd t_life : Z * bool).   (* timers: (state after, datagram emitted) *)
Definition r_cid (s : rsa) := let '(mk_rsa c _ _ _ _ _ _ _ _) := s in c.
Definition r_spi (s : rsa) := let '(mk_rsa _ p _ _ _ _ _ _ _) := s in p.
Definition r_st (s : rsa) := let '(mk_rsa _ _ t _ _ _ _ _ _) := s in t.
Definition r_succ (s : rsa) := let '(mk_rsa _ _ _ u _ _ _ _ _) := s in u.
Definition r_nkeys (s : rsa) := let '(mk_rsa _ _ _ _ n _ _ _ _) := s in n.
Definition r_cookie (s : rsa) := let '(mk_rsa _ _ _ _ _ k _ _ _) := s in k.

(** recorded outcome of process_message: raised exception class (if any), state, successor, kernel SAs, reply *)
Record pout := mk_pout { po_raised : option exn_class; po_st : Z; po_succ : option rsa; po_nkeys : Z; po_reply : bool }.

Definition keys_of (s : rsa) : list Z := repeat (Z.of_nat (r_cid s)) (Z.to_nat (r_nkeys s)).

Definition RC : ciface := {|
  SA := rsa; D := pout;
  sa_cid := r_cid; sa_my_spi := r_spi; sa_state := r_st; sa_successor := r_succ;
  sa_clear_successor := fun s => let '(mk_rsa c p t _ n k a b d) := s in mk_rsa c p t None n k a b d;
  sa_arm_cookie := fun s => let '(mk_rsa c p t u n _ a b d) := s in mk_rsa c p t u n true a b d;
  sa_kernel_keys := keys_of;
  sa_clear_children := fun s => let '(mk_rsa c p t u _ k a b d) := s in mk_rsa c p t u 0 k a b d;
  sa_process := fun s o =>
    let '(mk_rsa c p _ _ _ k a b d) := s in
    let s' := mk_rsa c p (po_st o) (po_succ o) (po_nkeys o) k a b d in
    match po_raised o with
    | Some e => PRaised s' e
    | None => PDone s' (if po_reply o then Some o else None)
    end;
  sa_check_retransmission := fun s _ =>
    let '(mk_rsa c p _ u n k a b d) := s in (mk_rsa c p (fst a) u n k a b d, if snd a then Some (mk_pout None 0 None 0 true) else None);
  sa_check_dpd := fun s _ =>
    let '(mk_rsa c p _ u n k a b d) := s in (mk_rsa c p (fst b) u n k a b d, if snd b then Some (mk_pout None 0 None 0 true) else None);
  sa_check_lifetime := fun s _ =>
    let '(mk_rsa c p _ u n k a b d) := s in (mk_rsa c p (fst d) u n k a b d, if snd d then Some (mk_pout None 0 None 0 true) else None)
|}.

Definition exn_of_Z (z : Z) : exn_class :=
  match z with
  | 1 => E_IkeSaError | 2 => E_ConfigurationNotFound | 3 => E_OSError | 4 => E_KeyError | 5 => E_gaierror
  | _ => E_Other 0
  end.

Definition tpair_of_sx (x : sx) : Z * bool :=
  match x with SxL [SxZ a; SxZ b] => (a, Z.eqb b 1) | _ => (0, false) end.

Fixpoint rsa_of_sx (fuel : nat) (x : sx) : option rsa :=
  match fuel with
  | O => None
  | S f =>
      match x with
      | SxL [SxZ c; SxZ p; SxZ t; u; SxZ n; a; b; d] =>
          let succ := match u with SxNone => None | _ => rsa_of_sx f u end in
          Some (mk_rsa (Z.to_nat c) p t succ n false (tpair_of_sx a) (tpair_of_sx b) (tpair_of_sx d))
      | SxL [SxZ c; SxZ p; SxZ t; u; SxZ n; a; b; d; SxZ k] =>       (* with the "cookie armed" flag of the entry *)
          let succ := match u with SxNone => None | _ => rsa_of_sx f u end in
          Some (mk_rsa (Z.to_nat c) p t succ n (Z.eqb k 1) (tpair_of_sx a) (tpair_of_sx b) (tpair_of_sx d))
      | _ => None
      end
  end.

Fixpoint table_of_sx (l : list sx) : list rsa :=
  match l with
  | [] => []
  | x :: r => match rsa_of_sx 3 x with Some s => s :: table_of_sx r | None => table_of_sx r end
  end.

Definition sx_of_table (t : list rsa) : sx :=
  SxL (map (fun s => SxL [SxZ (Z.of_nat (r_cid s)); SxZ (r_st s); SxZ (r_nkeys s); sx_bool (r_cookie s);
                          match r_succ s with None => SxNone | Some n => SxZ (Z.of_nat (r_cid n)) end]) t).

(** dispatch: SxL [SxZ 0; SxL table; hparse; newsa; pout]   timers: SxL [SxZ 1; SxL table] *)
Definition run_controller (x : sx) : sx :=
  match x with
  | SxL [SxZ 0; SxL t; hp; mk; SxL [SxZ raised; SxZ st; su; SxZ nk; SxZ rep]] =>
      let table := table_of_sx t in
      let hp' := match hp with
                 | SxL [SxZ exch; SxZ req; SxZ init; SxZ si; SxZ sr] => HOk exch (Z.eqb req 1) (Z.eqb init 1) si sr
                 | SxZ e => HBad (exn_of_Z e)
                 | _ => HBad (E_Other 1)
                 end in
      let mk' := match mk with
                 | SxZ e => NoConf RC (exn_of_Z e)
                 | s => match rsa_of_sx 3 s with Some s0 => Fresh RC s0 | None => NoConf RC (E_Other 2) end
                 end in
      let o := mk_pout (if Z.eqb raised 0 then None else Some (exn_of_Z raised)) st
                       (match su with SxNone => None | _ => rsa_of_sx 3 su end) nk (Z.eqb rep 1) in
      let r := dispatch RC table hp' mk' o in
      SxL [sx_of_table (dr_table RC r);
           sx_bool (match dr_reply RC r with Some _ => true | None => false end);
           sx_bool (match dr_escaped RC r with Some _ => true | None => false end);
           match dr_handled_by RC r with Some c => SxZ (Z.of_nat c) | None => SxNone end;
           SxZ (Z.of_nat (List.length (dr_delsa RC r)))]
  | SxL [SxZ 1; SxL t] =>
      let '(t', out, del) := timers RC (table_of_sx t) 0 in
      SxL [sx_of_table t'; SxZ (Z.of_nat (List.length out)); SxZ (Z.of_nat (List.length del))]
  | _ => bad_input
  end.
