(** C10 / C16 for the whole endpoint (Endpoint.v): the per-IkeSa results of HdlSad.v lifted through the shell
    (Shell.v instantiated with the handlers) and the controller (table, dispatch, finish/teardown, triggers, timer
    sweeps) to one main_loop iteration, and by induction to every history.

    (A) SAD lists up to reordering; (B) what the handlers do to the unregistered successor [new_sa];
    (C) the shell functions: "no handler call ended Stuck" predicates and what one shell call does to the inner state;
    (D) one call on a table entry (enter / call / leave / replace) keeps the endpoint invariant;
    (E) create, finish (registration, teardown), dispatch, acquire, expire, the timer sweeps; (F) one iteration and
    the unbounded fold; (G) the table clauses of C16; (H) concrete runs. *)
From Coq Require Import ZArith NArith Bool List Lia ZifyBool Permutation PeanoNat.
From RecordUpdate Require Import RecordSet.
From VLib Require Import Bytes.
From IkeSa Require Import Gen.IkeFacts Shell Hdl HdlSad HdlAuth HdlTrans Endpoint.
Import ListNotations RecordSetNotations.
Open Scope Z_scope.

(* ------------------------------------------------------------------------------------------------ *)
(** * A. SADs up to reordering *)

Lemma same_elts_refl a : same_elts a a.
Proof. intros k. tauto. Qed.
Lemma same_elts_sym a b : same_elts a b -> same_elts b a.
Proof. intros H k. symmetry. apply H. Qed.
Lemma same_elts_trans a b c : same_elts a b -> same_elts b c -> same_elts a c.
Proof. intros H1 H2 k. rewrite (H1 k). apply H2. Qed.
Lemma same_elts_perm a b : Permutation a b -> same_elts a b.
Proof. intros H k. split; apply Permutation_in; [exact H|apply Permutation_sym; exact H]. Qed.

Lemma faithful_same a b k : same_elts a b -> faithful a k -> faithful b k.
Proof.
  intros H. destruct k as [x ok|d p spi ok]; cbn.
  - intros F Hok Hin. apply (F Hok). apply H. exact Hin.
  - intros F. rewrite F. apply H.
Qed.
Lemma apply_kop_same a b k : same_elts a b -> same_elts (apply_kop a k) (apply_kop b k).
Proof.
  intros H. destruct k as [x [|]|d p spi [|]]; cbn; try exact H.
  - intros k. cbn. rewrite (H k). tauto.
  - intros k. rewrite !sad_del_in, (H k). tauto.
Qed.
Lemma faithful_run_same ks : forall a b, same_elts a b -> faithful_run a ks -> faithful_run b ks.
Proof.
  induction ks as [|k r IH]; intros a b H; cbn; [auto|]. intros [F1 F2].
  split; [eapply faithful_same; eassumption|]. eapply IH; [|exact F2]. apply apply_kop_same. exact H.
Qed.
Lemma apply_kops_same ks : forall a b, same_elts a b -> same_elts (apply_kops a ks) (apply_kops b ks).
Proof.
  induction ks as [|k r IH]; intros a b H; cbn; [exact H|]. apply IH. apply apply_kop_same. exact H.
Qed.
Lemma apply_kop_nodup a k : NoDup a -> faithful a k -> NoDup (apply_kop a k).
Proof.
  intros Hn. destruct k as [x [|]|d p spi [|]]; cbn; intros F; try exact Hn.
  - constructor; [apply F; reflexivity|exact Hn].
  - apply sad_del_nodup. exact Hn.
Qed.
Lemma apply_kops_nodup ks : forall a, NoDup a -> faithful_run a ks -> NoDup (apply_kops a ks).
Proof.
  induction ks as [|k r IH]; intros a Hn; cbn; [auto|]. intros [F1 F2]. apply IH; [|exact F2].
  apply apply_kop_nodup; assumption.
Qed.

(* ------------------------------------------------------------------------------------------------ *)
(** * B. The unregistered successor *)

(** the successor of a table entry holds no CHILD_SA yet; right after a message was processed it may, but then the
    predecessor is REKEYED / DEL_AFTER_REKEY_IKE_SA_REQ_SENT and the controller registers it at once *)
Definition SucE (i : isa) : Prop := forall n, new_sa i = Some n -> children n = [].
Definition SucK (i : isa) : Prop :=
  forall n, new_sa i = Some n ->
    children n = [] \/ st (co i) = ST_DEL_AFTER_REKEY_IKE_SA_REQ_SENT \/ st (co i) = ST_REKEYED.
Lemma SucE_K i : SucE i -> SucK i.
Proof. intros H n Hn. left. exact (H n Hn). Qed.

Definition ob_new (s : isa) : option core := new_sa s.
Lemma keeps_frame_new {A} (m : H A) : keeps ob_frame m -> keeps ob_new m.
Proof. intros h s. specialize (h s). unfold ob_frame in h. unfold ob_new. congruence. Qed.
#[export] Hint Resolve keeps_frame_new : kp.

Section NewSa.
  Variable E : env.
  Lemma create_child_sa_new ch k i : keeps ob_new (create_child_sa ch k i).
  Proof. unfold create_child_sa. keeps_go. Qed.
  Lemma delete_child_sa_new ch : keeps ob_new (delete_child_sa ch).
  Proof. unfold delete_child_sa. keeps_go. Qed.
  Hint Resolve create_child_sa_new delete_child_sa_new : kp.
  Lemma opt_nonce_new x m : keeps ob_new (opt_nonce x m).
  Proof. unfold opt_nonce. keeps_go. Qed.
  Hint Resolve opt_nonce_new : kp.
  Lemma child_nego_req_body_new m : keeps ob_new (child_nego_req_body E m).
  Proof. unfold child_nego_req_body. keeps_go. Qed.
  Hint Resolve child_nego_req_body_new : kp.
  Lemma child_nego_req_new m : keeps ob_new (child_nego_req E m).
  Proof.
    unfold child_nego_req. apply keeps_try; [auto with kp|]. intros e k hk.
    destruct e; cbn in hk; try discriminate hk; injection hk as <-; apply keeps_ret.
  Qed.
  Lemma child_nego_res_new m : keeps ob_new (child_nego_res E m).
  Proof. unfold child_nego_res. keeps_go. Qed.
  Hint Resolve child_nego_req_new child_nego_res_new : kp.
  Lemma delete_spis_new proto spis acc : keeps ob_new (delete_spis proto spis acc).
  Proof. revert acc. induction spis as [|spi r ih]; intros acc; cbn [delete_spis]; keeps_go. Qed.
  Hint Resolve delete_spis_new : kp.
  Lemma delete_loop_new dels acc : keeps ob_new (delete_loop dels acc).
  Proof. revert acc. induction dels as [|d r ih]; intros acc; cbn [delete_loop]; keeps_go. Qed.
  Lemma delete_all_new l : keeps ob_new (delete_all l).
  Proof. induction l as [|c r ih]; cbn [delete_all]; keeps_go. Qed.
  Hint Resolve delete_loop_new delete_all_new : kp.
  Lemma delete_child_sas_new : keeps ob_new delete_child_sas.
  Proof. unfold delete_child_sas. keeps_go. Qed.
End NewSa.

Lemma SucE_nsame i i' : nsame (new_sa i) (new_sa i') -> SucE i -> SucE i'.
Proof.
  intros Hn H n' Hn'. rewrite Hn' in Hn. destruct (new_sa i) as [n|] eqn:En; [|contradiction].
  destruct Hn as (A & _). rewrite A. apply (H n En).
Qed.
Lemma SucE_eq i i' : new_sa i' = new_sa i -> SucE i -> SucE i'.
Proof. intros Heq H n Hn. apply (H n). congruence. Qed.
Lemma SucE_Tr a ks s : Tr a ks s -> SucE a -> SucE s.
Proof. intros [_ (_ & _ & _ & _ & Hn)]. apply SucE_nsame. exact Hn. Qed.
Lemma SucE_SilA a b : SilA a b -> SucE a -> SucE b.
Proof. intros [(_ & _ & _ & _ & Hn) _]. apply SucE_nsame. exact Hn. Qed.
Lemma SucE_Succ a b : Succ a b -> SucE b.
Proof. intros (_ & _ & _ & _ & _ & _ & n & B0 & B1 & _) n' Hn'. rewrite B0 in Hn'. injection Hn' as <-. exact B1. Qed.

Lemma post_keeps_new A (m : H A) (Q : res A -> isa -> Prop) s :
  keeps ob_new m -> (forall r s1, new_sa s1 = new_sa s -> Q r s1) -> post Q (m s).
Proof. intros Hk H. unfold post. apply H. apply (Hk s). Qed.

Section NewSa2.
  Variable E : env.
  Hint Resolve create_child_sa_new delete_child_sa_new opt_nonce_new child_nego_req_body_new child_nego_req_new
    child_nego_res_new delete_spis_new delete_loop_new delete_all_new : kp.

  Lemma gen_delete_child_new ch : keeps ob_new (generate_delete_child_sa_request ch).
  Proof. unfold generate_delete_child_sa_request. keeps_go. Qed.
  Lemma gen_create_child_new ch rk : keeps ob_new (generate_create_child_sa_request ch rk).
  Proof. unfold generate_create_child_sa_request. keeps_go. Qed.
  Lemma gen_dpd_new : keeps ob_new generate_dpd_request.
  Proof. unfold generate_dpd_request. keeps_go. Qed.
  Lemma gen_delete_ike_new : keeps ob_new generate_delete_ike_sa_request.
  Proof. unfold generate_delete_ike_sa_request. keeps_go. Qed.
  Lemma gen_init_new ch : keeps ob_new (generate_ike_sa_init_request ch).
  Proof. unfold generate_ike_sa_init_request. keeps_go. Qed.
  Lemma gen_auth_new : keeps ob_new (generate_ike_auth_request E).
  Proof. unfold generate_ike_auth_request. keeps_go. Qed.
  Hint Resolve gen_delete_child_new gen_create_child_new gen_dpd_new gen_delete_ike_new gen_init_new gen_auth_new : kp.

  Lemma init_request_new m : keeps ob_new (process_ike_sa_init_request E m).
  Proof. unfold process_ike_sa_init_request. keeps_go. Qed.
  Lemma auth_request_new m : keeps ob_new (process_ike_auth_request E m).
  Proof. unfold process_ike_auth_request. keeps_go. Qed.
  Lemma info_request_new m : keeps ob_new (process_informational_request m).
  Proof. unfold process_informational_request. keeps_go. Qed.
  Lemma init_response_new m : keeps ob_new (process_ike_sa_init_response E m).
  Proof. unfold process_ike_sa_init_response. keeps_go. Qed.
  Lemma child_res_guarded_new m after : keeps ob_new after -> keeps ob_new (child_res_guarded E m after).
  Proof.
    intros Ha. unfold child_res_guarded. apply keeps_try; [keeps_go; exact Ha|]. intros e k hk.
    destruct e; cbn in hk; try discriminate hk; injection hk as <-; keeps_go.
  Qed.
  Lemma auth_response_new m : keeps ob_new (process_ike_auth_response E m).
  Proof.
    unfold process_ike_auth_response. keeps_go. apply child_res_guarded_new. apply keeps_ret.
  Qed.
  Lemma info_response_new m : keeps ob_new (process_informational_response m).
  Proof. unfold process_informational_response. keeps_go. Qed.
  Lemma acquire_new a b i : keeps ob_new (process_acquire a b i).
  Proof. unfold process_acquire. keeps_go. Qed.
  Lemma expire_new spi h : keeps ob_new (process_expire spi h).
  Proof. unfold process_expire. keeps_go. Qed.
End NewSa2.

Section Suc.
  Variable E : env.

  Lemma ccsa_request_suc m s :
    SucE s ->
    post (fun r s' => SucE s' \/ exists ps, r = Ok ps /\ st (co s') = ST_REKEYED)
         (process_create_child_sa_request E m s).
  Proof.
    intros Hs. pose proof (Tr_refl s) as Hc0.
    unfold process_create_child_sa_request.
    assert (Hleaf : forall (r : res (list payload)) sx, Tr s [] sx ->
              SucE sx \/ exists ps, r = Ok ps /\ st (co sx) = ST_REKEYED).
    { intros r sx Hx. left. eapply SucE_Tr; eassumption. }
    step; [|name_cur Hx; apply (Hleaf _ _ Hx)|name_cur Hx; apply (Hleaf _ _ Hx)].
    step; [|name_cur Hx; apply (Hleaf _ _ Hx)|name_cur Hx; apply (Hleaf _ _ Hx)].
    step; [|name_cur Hx; apply (Hleaf _ _ Hx)|name_cur Hx; apply (Hleaf _ _ Hx)].
    name_cur Hx. pose proof (SucE_Tr _ _ _ Hx Hs) as Hs1. clear Hx Hleaf.
    destruct (pr_proto a1 =? PROTO_IKE).
    2:{ apply post_keeps_new; [apply child_nego_req_new|]. intros r s' Heq. left. eapply SucE_eq; eassumption. }
    apply post_bind_getc.
    destruct (ike_rekey_while_busy _); [apply post_ret; left; exact Hs1|].
    eapply post_bind; [apply new_core_spec|]. intros r sn [Hs2 Hnc]. destruct r as [nc|e|].
    2:{ left. destruct Hs2 as (_ & _ & _ & _ & _ & Hn). eapply SucE_nsame; eassumption. }
    2:{ left. destruct Hs2 as (_ & _ & _ & _ & _ & Hn). eapply SucE_nsame; eassumption. }
    specialize (Hnc nc eq_refl). destruct Hnc as (N1 & _).
    apply post_bind_modify.
    match goal with |- post _ (_ ?S0) => set (S := S0) end.
    assert (HS : SucE S). { intros n Hn. subst S. cbn in Hn. injection Hn as <-. exact N1. }
    clearbody S. pose proof (Tr_refl S) as Hc0.
    assert (Hleaf : forall (r : res (list payload)) sx, Tr S [] sx ->
              SucE sx \/ exists ps, r = Ok ps /\ st (co sx) = ST_REKEYED).
    { intros r sx Hx. left. eapply SucE_Tr; eassumption. }
    step; [|name_cur Hx; apply (Hleaf _ _ Hx)|name_cur Hx; apply (Hleaf _ _ Hx)].
    step; [|name_cur Hx; apply (Hleaf _ _ Hx)|name_cur Hx; apply (Hleaf _ _ Hx)].
    apply post_bind_modify. apply post_ret. right. eexists. split; reflexivity.
  Qed.

  Lemma ccsa_response_suc m s :
    SucE s ->
    post (fun r s' => SucE s' \/ exists x, r = Ok (Some x) /\ st (co s') = ST_DEL_AFTER_REKEY_IKE_SA_REQ_SENT)
         (process_create_child_sa_response E m s).
  Proof.
    intros Hs. pose proof (Tr_refl s) as Hc0.
    unfold process_create_child_sa_response.
    apply post_bind_check; intros Hmem; [|left; exact Hs].
    apply memZ_open in Hmem; [|reflexivity].
    step; [|name_cur Hx; left; eapply SucE_Tr; eassumption|name_cur Hx; left; eapply SucE_Tr; eassumption].
    apply post_bind_getc.
    name_cur Hx. match type of Hx with Tr _ _ ?y => rename y into s0 end.
    pose proof (SucE_Tr _ _ _ Hx Hs) as Hs0. pose proof (Tr_st _ _ _ Hx) as Hst0.
    assert (Hopen : closing (st (co s0)) = false) by congruence. clear Hx.
    destruct (st (co s0) =? ST_REK_IKE_SA_REQ_SENT) eqn:E13.
    - destruct (nonempty (get_notifies m N_INVALID_KE_PAYLOAD true)).
      { apply post_sil1_open; [sil1_tac|exact Hopen|]. intros r s1 Hsil. left. eapply SucE_SilA; eassumption. }
      destruct (nonempty (get_notifies m N_TEMPORARY_FAILURE true)).
      { apply post_sil1_open; [sil1_tac|exact Hopen|]. intros r s1 Hsil. left. eapply SucE_SilA; eassumption. }
      destruct (nonempty (get_notifies m N_NO_ADDITIONAL_SAS true)).
      { apply post_sil1_open; [sil1_tac|exact Hopen|]. intros r s1 Hsil. left. eapply SucE_SilA; eassumption. }
      pose proof (Tr_refl s0) as Hc1.
      assert (Hleaf : forall (r : res (option (Z * list payload))) sx, Tr s0 [] sx ->
                SucE sx \/ exists x, r = Ok (Some x) /\ st (co sx) = ST_DEL_AFTER_REKEY_IKE_SA_REQ_SENT).
      { intros r sx Hx. left. eapply SucE_Tr; eassumption. }
      apply post_bind_getw_true; [intros n Hn|intros _; left; exact Hs0].
      step; [|name_cur Hx; apply (Hleaf _ _ Hx)|name_cur Hx; apply (Hleaf _ _ Hx)].
      step; [|name_cur Hx; apply (Hleaf _ _ Hx)|name_cur Hx; apply (Hleaf _ _ Hx)].
      step; [|name_cur Hx; apply (Hleaf _ _ Hx)|name_cur Hx; apply (Hleaf _ _ Hx)].
      step; [|name_cur Hx; apply (Hleaf _ _ Hx)|name_cur Hx; apply (Hleaf _ _ Hx)].
      apply post_bind_modify.
      unfold post. cbn. right. eexists. split; reflexivity.
    - destruct (nonempty (get_notifies m N_INVALID_KE_PAYLOAD true)).
      { apply post_sil1_open; [sil1_tac|exact Hopen|]. intros r s1 Hsil. left. eapply SucE_SilA; eassumption. }
      apply post_keeps_new.
      + keeps_go. apply child_res_guarded_new. keeps_go; auto using gen_delete_child_new.
      + intros r s1 Heq. left. eapply SucE_eq; eassumption.
  Qed.

  (** the entry points *)
  Lemma h_request_suc s m :
    SucE s ->
    SucE (fst (h_request E s m))
    \/ exists b, snd (h_request E s m) = HOk b /\ st (co (fst (h_request E s m))) = ST_REKEYED.
  Proof.
    intros Hs. unfold h_request. unfold request_handler.
    assert (Hc : SucE (clear_flags s)) by (eapply SucE_eq; [|exact Hs]; reflexivity).
    assert (Hk : forall f, keeps ob_new (f m) ->
              SucE (fst (match f m (clear_flags s) with
                         | (Ok ps, s') => (s', HOk (body_of (h_exch (p_hdr m)) ps))
                         | (Raise e, s') => (s', HErr (body_of (h_exch (p_hdr m)) [notify_of e]))
                         | (Stuck, s') => (stuck_state s', HErr ([], []))
                         end))).
    { intros f Hf. pose proof (Hf (clear_flags s)) as Heq. unfold ob_new in Heq.
      destruct (f m (clear_flags s)) as [[ps|e|] s']; cbn in *; eapply SucE_eq; try eassumption; exact Heq. }
    destruct (h_exch (p_hdr m) =? EX_IKE_SA_INIT); [left; apply Hk; apply init_request_new|].
    destruct (h_exch (p_hdr m) =? EX_IKE_AUTH); [left; apply Hk; apply auth_request_new|].
    destruct (h_exch (p_hdr m) =? EX_INFORMATIONAL); [left; apply Hk; apply info_request_new|].
    destruct (h_exch (p_hdr m) =? EX_CREATE_CHILD_SA); [|left; exact Hs].
    pose proof (ccsa_request_suc m (clear_flags s) Hc) as H. unfold post in H.
    destruct (process_create_child_sa_request E m (clear_flags s)) as [[ps|e|] s']; cbn in *.
    - destruct H as [H|(ps' & _ & H)]; [left; exact H|right; eexists; split; [reflexivity|exact H]].
    - destruct H as [H|(ps' & H & _)]; [left; exact H|discriminate H].
    - destruct H as [H|(ps' & H & _)]; [left; eapply SucE_eq; [|exact H]; reflexivity|discriminate H].
  Qed.

  Lemma h_response_suc s m :
    SucE s ->
    SucE (fst (h_response E s m))
    \/ exists x r, snd (h_response E s m) = ROk (Some x) r
                   /\ st (co (fst (h_response E s m))) = ST_DEL_AFTER_REKEY_IKE_SA_REQ_SENT.
  Proof.
    intros Hs. unfold h_response. unfold response_handler.
    assert (Hc : SucE (clear_flags s)) by (eapply SucE_eq; [|exact Hs]; reflexivity).
    assert (Hk : forall f, keeps ob_new (f m) ->
              SucE (fst (match f m (clear_flags s) with
                         | (Ok None, s') => (s', ROk None (my_msg_id_reset (co s')))
                         | (Ok (Some (e, ps)), s') => (s', ROk (Some (e, body_of e ps)) (my_msg_id_reset (co s')))
                         | (Raise _, s') => (s', RErr (my_msg_id_reset (co s')))
                         | (Stuck, s') => (stuck_state s', RErr false)
                         end))).
    { intros f Hf. pose proof (Hf (clear_flags s)) as Heq. unfold ob_new in Heq.
      destruct (f m (clear_flags s)) as [[[[x ps]|]|e|] s']; cbn in *; eapply SucE_eq; try eassumption; exact Heq. }
    destruct (h_exch (p_hdr m) =? EX_IKE_SA_INIT); [left; apply Hk; apply init_response_new|].
    destruct (h_exch (p_hdr m) =? EX_IKE_AUTH); [left; apply Hk; apply auth_response_new|].
    destruct (h_exch (p_hdr m) =? EX_CREATE_CHILD_SA).
    2:{ destruct (h_exch (p_hdr m) =? EX_INFORMATIONAL); [left; apply Hk; apply info_response_new|left; exact Hs]. }
    pose proof (ccsa_response_suc m (clear_flags s) Hc) as H. unfold post in H.
    destruct (process_create_child_sa_response E m (clear_flags s)) as [[[[x ps]|]|e|] s']; cbn in *.
    - destruct H as [H|(x' & _ & H)]; [left; exact H|right; do 2 eexists; split; [reflexivity|exact H]].
    - destruct H as [H|(x' & H & _)]; [left; exact H|discriminate H].
    - destruct H as [H|(x' & H & _)]; [left; exact H|discriminate H].
    - destruct H as [H|(x' & H & _)]; [left; eapply SucE_eq; [|exact H]; reflexivity|discriminate H].
  Qed.

  Lemma h_trigger_suc s e : SucE s -> SucE (fst (h_trigger s e)).
  Proof.
    intros Hs. unfold h_trigger.
    assert (Hk : keeps ob_new (match e with E_acquire a b i => process_acquire a b i | E_expire spi h => process_expire spi h end))
      by (destruct e; [apply acquire_new|apply expire_new]).
    pose proof (Hk (clear_flags s)) as Heq. unfold ob_new in Heq.
    destruct ((match e with E_acquire a b i => process_acquire a b i | E_expire spi h => process_expire spi h end)
                (clear_flags s)) as [[[[x ps]|]|e'|] s']; cbn in *; eapply SucE_eq; try eassumption; exact Heq.
  Qed.
  Lemma lift_gen_suc f s : keeps ob_new f -> SucE s -> SucE (fst (lift_gen f s)).
  Proof.
    intros Hk Hs. unfold lift_gen. pose proof (Hk (clear_flags s)) as Heq. unfold ob_new in Heq.
    destruct (f (clear_flags s)) as [[[x ps]|e|] s']; cbn in *; eapply SucE_eq; try eassumption; exact Heq.
  Qed.
  Lemma lift_gen_rekey_suc s :
    SucE s -> st (co (fst (lift_gen generate_rekey_ike_sa_request s))) <> -1 ->
    SucE (fst (lift_gen generate_rekey_ike_sa_request s)).
  Proof.
    intros Hs Hn. destruct (lift_gen_rekey_quiet s) as [[H|(S & H1 & H2)]|H]; [| |contradiction].
    - eapply SucE_SilA; eassumption.
    - eapply SucE_SilA; [exact H2|]. eapply SucE_Succ. exact H1.
  Qed.
End Suc.

(* ------------------------------------------------------------------------------------------------ *)
(** * C. The shell functions *)

Section ShellLevel.
  Variable E : env.
  Notation P := (hdl_iface E).
  Notation sa := (Shell.sa P).

  Definition nst (i : isa) : Prop := st (co i) <> -1.

  (** "no handler call ended Stuck (tape mismatch)": the shell overwrites the stuck marker of a request / response
      handler with DELETED, so the condition has to be stated call by call; these predicates follow the control flow
      of the shell functions up to each handler call *)
  Definition req_ok (s : sa) (m : pmsg body) : Prop :=
    let mid := h_id (p_hdr m) in
    if req_is_retransmission mid (peer_id P s) (my_id P s) then True
    else if req_id_unexpected mid (peer_id P s) (my_id P s) then True
    else if negb (existsb (Z.eqb (h_exch (p_hdr m))) request_exchanges) then True
    else nst (fst (h_request E (inner P s) m)).
  Definition trig_ok (s : sa) (e : Hdl.event) : Prop :=
    if (if ev_is_acquire P e then acquire_must_queue (state P s) else expire_must_queue (state P s)) then True
    else nst (fst (h_trigger (inner P s) e)).
  Fixpoint pend_ok (evs : list Hdl.event) (s : sa) (now : Z) : Prop :=
    match evs with
    | [] => True
    | e :: rest =>
        let s0 := set_pending P s (tl (pending P s)) in
        trig_ok s0 e /\
        match snd (process_trigger P s0 now e) with
        | Some _ => True
        | None => pend_ok rest (fst (process_trigger P s0 now e)) now
        end
    end.
  Definition resp_ok (s : sa) (m : pmsg body) (now : Z) : Prop :=
    let mid := h_id (p_hdr m) in
    if res_id_unexpected mid (peer_id P s) (my_id P s) then True
    else if negb (existsb (Z.eqb (h_exch (p_hdr m))) response_exchanges) then True
    else nst (fst (h_response E (inner P s) m)) /\
         match snd (h_response E (inner P s) m) with
         | ROk None reset =>
             let s1 := with_inner P (set_my_id P s (my_id P s + 1)) (fst (h_response E (inner P s) m)) in
             let s2 := if reset then set_my_id P s1 0 else s1 in
             if Z.eqb (state P s2) ST_ESTABLISHED then pend_ok (pending P s2) s2 now else True
         | _ => True
         end.
  Definition msg_ok (s : sa) (m : pmsg body) (now : Z) : Prop :=
    let h := p_hdr m in
    let '(reset, ret) := process_message_decision (h_init h) (is_init P s) (h_exch h) (h_spi_i h) (h_spi_r h)
                           (spi_i P s) (spi_r P s) (has_keys P (inner P s)) (p_auth m) (negb (h_resp h))
                           (state P s) (h_id h) (peer_id P s) (my_id P s) in
    let s0 := if reset then set_dpd_at P s (now + dpd_cfg P s) else s in
    match ret with
    | RRequest => req_ok s0 m
    | RResponse => resp_ok s0 m now
    | _ => True
    end.

  (** what one shell call does to the handler-owned state *)
  Lemma mark_deleted_trans i : Trans i (i <| co := (co i) <| st := ST_DELETED |> |>).
  Proof. apply Trans_sila. apply SilA_set_state. right. reflexivity. Qed.

  Lemma process_request_tr (s : sa) m :
    req_ok s m ->
    Trans (inner P s) (inner P (fst (process_request P s m)))
    /\ (SucE (inner P s) -> SucK (inner P (fst (process_request P s m)))).
  Proof.
    unfold req_ok, process_request.
    destruct (req_is_retransmission _ _ _); [intros _; split; [apply T_refl|apply SucE_K]|].
    destruct (req_id_unexpected _ _ _); [intros _; split; [apply T_refl|apply SucE_K]|].
    destruct (negb _); [intros _; split; [apply T_refl|apply SucE_K]|].
    change (handle_request P (inner P s) m) with (h_request E (inner P s) m).
    intros Hn. pose proof (h_request_shape E (inner P s) m Hn) as Ht.
    pose proof (h_request_suc E (inner P s) m) as Hs.
    destruct (h_request E (inner P s) m) as [i' out]. cbn [fst snd] in *.
    destruct out as [b|b]; cbn.
    - split; [exact Ht|]. intros H0. destruct (Hs H0) as [H|(b' & _ & H)]; [apply SucE_K; exact H|].
      intros n Hn'. right. right. exact H.
    - split; [eapply Trans_trans; [exact Ht|apply mark_deleted_trans]|].
      intros H0. destruct (Hs H0) as [H|(b' & H & _)]; [|discriminate H].
      apply SucE_K. eapply SucE_eq; [|exact H]. reflexivity.
  Qed.

  Lemma process_trigger_tr (s : sa) now e :
    trig_ok s e ->
    SilA (inner P s) (inner P (fst (process_trigger P s now e)))
    /\ (SucE (inner P s) -> SucE (inner P (fst (process_trigger P s now e)))).
  Proof.
    unfold trig_ok, process_trigger.
    destruct (if ev_is_acquire P e then acquire_must_queue (state P s) else expire_must_queue (state P s)).
    { intros _. cbn. split; [apply SilA_refl|auto]. }
    change (handle_trigger P (inner P s) e) with (h_trigger (inner P s) e).
    intros Hn. pose proof (h_trigger_quiet (inner P s) e) as Hq. pose proof (h_trigger_suc (inner P s) e) as Hs.
    destruct Hq as [Hq|Hq]; [|contradiction].
    destruct (h_trigger (inner P s) e) as [i' r]. cbn [fst] in *.
    destruct r as [[x b]|]; cbn; split; assumption.
  Qed.

  (** the stuck marker survives process_trigger: a result that does not carry it came from a call that was not Stuck *)
  Lemma trig_ok_of_nst (s : sa) now e : nst (inner P (fst (process_trigger P s now e))) -> trig_ok s e.
  Proof.
    unfold trig_ok, process_trigger.
    destruct (if ev_is_acquire P e then acquire_must_queue (state P s) else expire_must_queue (state P s)); [trivial|].
    change (handle_trigger P (inner P s) e) with (h_trigger (inner P s) e).
    destruct (h_trigger (inner P s) e) as [i' r]. cbn [fst]. destruct r as [[x b]|]; cbn; auto.
  Qed.

  Lemma run_pending_tr evs now : forall s : sa,
    pend_ok evs s now ->
    SilA (inner P s) (inner P (fst (run_pending P evs s now)))
    /\ (SucE (inner P s) -> SucE (inner P (fst (run_pending P evs s now)))).
  Proof.
    induction evs as [|e rest IH]; intros s; cbn [run_pending pend_ok].
    - intros _. cbn. split; [apply SilA_refl|auto].
    - intros [Ht Hr].
      pose proof (process_trigger_tr (set_pending P s (tl (pending P s))) now e Ht) as [H1 H2].
      change (inner P (set_pending P s (tl (pending P s)))) with (inner P s) in *.
      destruct (process_trigger P (set_pending P s (tl (pending P s))) now e) as [s1 r]. cbn [fst snd] in *.
      destruct r as [d|]; cbn [fst]; [split; assumption|].
      destruct (IH s1 Hr) as [H3 H4]. split; [eapply SilA_trans; eassumption|auto].
  Qed.

  Lemma process_response_tr (s : sa) m now :
    resp_ok s m now ->
    Trans (inner P s) (inner P (fst (process_response P s m now)))
    /\ (SucE (inner P s) -> SucK (inner P (fst (process_response P s m now)))).
  Proof.
    unfold resp_ok, process_response.
    destruct (res_id_unexpected _ _ _); [intros _; split; [apply T_refl|apply SucE_K]|].
    destruct (negb _); [intros _; split; [apply T_refl|apply SucE_K]|].
    change (inner P (set_my_id P s (my_id P s + 1))) with (inner P s).
    change (handle_response P (inner P s) m) with (h_response E (inner P s) m).
    intros [Hn Hp]. pose proof (h_response_shape E (inner P s) m Hn) as Ht.
    pose proof (h_response_suc E (inner P s) m) as Hs.
    destruct (h_response E (inner P s) m) as [i' out]. cbn [fst snd] in *.
    destruct out as [[[x body]|] reset|reset].
    - assert (Hk : SucE (inner P s) -> SucK i').
      { intros H0. destruct (Hs H0) as [H|(x' & r' & _ & H)]; [apply SucE_K; exact H|].
        intros n Hn'. right. left. exact H. }
      destruct reset; cbn; (split; [exact Ht|exact Hk]).
    - set (s2 := if reset then _ else _) in *.
      assert (H2 : inner P s2 = i') by (unfold s2; destruct reset; reflexivity).
      assert (Hs' : SucE (inner P s) -> SucE i').
      { intros H0. destruct (Hs H0) as [H|(x' & r' & H & _)]; [exact H|discriminate H]. }
      cbv zeta. fold s2.
      destruct (Z.eqb (state P s2) ST_ESTABLISHED).
      + destruct (run_pending_tr (pending P s2) now s2 Hp) as [H3 H4]. rewrite H2 in *.
        split; [eapply Trans_trans; [exact Ht|apply Trans_sila; exact H3]|]. intros H0. apply SucE_K. auto.
      + cbn [fst]. rewrite H2. split; [exact Ht|]. intros H0. apply SucE_K. auto.
    - destruct reset; cbn; (split; [eapply Trans_trans; [exact Ht|apply mark_deleted_trans]|]);
        intros H0; (destruct (Hs H0) as [H|(x' & r' & H & _)]; [|discriminate H]);
        apply SucE_K; (eapply SucE_eq; [|exact H]); reflexivity.
  Qed.

  Lemma process_message_tr (s : sa) m now :
    msg_ok s m now ->
    Trans (inner P s) (inner P (fst (process_message P s m now)))
    /\ (SucE (inner P s) -> SucK (inner P (fst (process_message P s m now)))).
  Proof.
    unfold msg_ok, process_message. cbv zeta.
    destruct (process_message_decision _ _ _ _ _ _ _ _ _ _ _ _ _ _) as [reset ret].
    set (s0 := if reset then _ else _).
    assert (H0 : inner P s0 = inner P s) by (unfold s0; destruct reset; reflexivity).
    destruct ret; cbn [fst]; rewrite <- H0.
    - intros _. split; [apply T_refl|apply SucE_K].
    - intros _. split; [apply T_refl|apply SucE_K].
    - apply process_request_tr.
    - apply process_response_tr.
  Qed.

  Lemma check_retransmission_tr (s : sa) now :
    SilA (inner P s) (inner P (fst (check_retransmission P s now)))
    /\ new_sa (inner P (fst (check_retransmission P s now))) = new_sa (inner P s).
  Proof.
    unfold check_retransmission.
    destruct (rt_states _); [|split; [apply SilA_refl|reflexivity]].
    destruct (rt_due _ _); [|split; [apply SilA_refl|reflexivity]].
    destruct (rt_giveup _); cbn; [|split; [apply SilA_refl|reflexivity]].
    split; [apply SilA_set_state; right; reflexivity|reflexivity].
  Qed.

  Lemma check_dpd_tr (s : sa) now :
    nst (inner P (fst (check_dpd P s now))) ->
    SilA (inner P s) (inner P (fst (check_dpd P s now)))
    /\ (SucE (inner P s) -> SucE (inner P (fst (check_dpd P s now)))).
  Proof.
    unfold check_dpd. destruct (dpd_due _ _ _); [|intros _; split; [apply SilA_refl|auto]].
    change (gen_dpd P (inner P s)) with (lift_gen generate_dpd_request (inner P s)).
    pose proof (lift_gen_quiet generate_dpd_request (inner P s) sila_gen_dpd) as Hq.
    pose proof (lift_gen_suc generate_dpd_request (inner P s) gen_dpd_new) as Hs.
    destruct (lift_gen generate_dpd_request (inner P s)) as [i' [x b]]. cbn in *.
    intros Hn. destruct Hq as [Hq|Hq]; [|contradiction]. split; assumption.
  Qed.

  Lemma check_lifetime_tr (s : sa) now :
    nst (inner P (fst (check_lifetime P s now))) ->
    Trans (inner P s) (inner P (fst (check_lifetime P s now)))
    /\ (SucE (inner P s) -> SucE (inner P (fst (check_lifetime P s now))))
    /\ kops (inner P (fst (check_lifetime P s now))) = kops (inner P s).
  Proof.
    unfold check_lifetime. destruct (Z.eqb (state P s) ST_ESTABLISHED); [|intros _; split; [apply T_refl|auto]].
    destruct (life_delete_due _ _).
    - change (gen_delete_ike P (inner P s)) with (lift_gen generate_delete_ike_sa_request (inner P s)).
      pose proof (lift_gen_quiet generate_delete_ike_sa_request (inner P s) sila_gen_delete_ike) as Hq.
      pose proof (lift_gen_suc generate_delete_ike_sa_request (inner P s) gen_delete_ike_new) as Hs.
      destruct (lift_gen generate_delete_ike_sa_request (inner P s)) as [i' [x b]]. cbn in *.
      intros Hn. destruct Hq as [Hq|Hq]; [|contradiction].
      split; [apply Trans_sila; exact Hq|]. split; [exact Hs|]. destruct Hq as [(A & _) _]. exact A.
    - destruct (life_rekey_due _ _); [|intros _; split; [apply T_refl|auto]].
      change (gen_rekey_ike P (inner P s)) with (lift_gen generate_rekey_ike_sa_request (inner P s)).
      pose proof (lift_gen_rekey_quiet (inner P s)) as Hq.
      pose proof (lift_gen_rekey_suc (inner P s)) as Hs.
      destruct (lift_gen generate_rekey_ike_sa_request (inner P s)) as [i' [x b]]. cbn in *.
      intros Hn. destruct Hq as [[Hq|(S & H1 & H2)]|Hq]; [| |contradiction].
      + split; [apply Trans_sila; exact Hq|]. split; [auto|]. destruct Hq as [(A & _) _]. exact A.
      + split; [eapply T_step; [apply Trans_atom; apply A_succ; exact H1|apply A_sil; exact H2]|].
        split; [auto|]. destruct H1 as (A & _). destruct H2 as [(B & _) _]. congruence.
  Qed.
End ShellLevel.

(* ------------------------------------------------------------------------------------------------ *)
(** * D. The table and one call on one of its entries *)

Lemma NoDup_app_intro {A} (a b : list A) :
  NoDup a -> NoDup b -> (forall x, In x a -> ~ In x b) -> NoDup (a ++ b).
Proof.
  intros Ha Hb Hd. induction a as [|x r IH]; cbn; [exact Hb|]. inversion Ha as [|? ? Hx Hr]; subst.
  constructor.
  - intros Hin. apply in_app_or in Hin. destruct Hin as [Hin|Hin]; [contradiction|].
    apply (Hd x); [left; reflexivity|exact Hin].
  - apply IH; [exact Hr|]. intros y Hy. apply Hd. right. exact Hy.
Qed.
Lemma NoDup_app_l {A} (a b : list A) : NoDup (a ++ b) -> NoDup a.
Proof. induction a as [|x r IH]; cbn; [constructor|]. intros H. inversion H as [|? ? Hx Hr]; subst.
  constructor; [intros Hin; apply Hx; apply in_or_app; left; exact Hin|apply IH; exact Hr]. Qed.
Lemma NoDup_app_r {A} (a b : list A) : NoDup (a ++ b) -> NoDup b.
Proof. induction a as [|x r IH]; cbn; [auto|]. intros H. inversion H; subst. apply IH. assumption. Qed.
Lemma NoDup_app_disj {A} (a b : list A) x : NoDup (a ++ b) -> In x a -> ~ In x b.
Proof.
  induction a as [|y r IH]; cbn; [contradiction|]. intros H. inversion H as [|? ? Hy Hr]; subst.
  intros [->|Hin]; [intros Hb; apply Hy; apply in_or_app; right; exact Hb|apply IH; assumption].
Qed.

Section Table.
  Variable E : env.
  Notation P := (hdl_iface E).
  Notation esa := (Endpoint.esa E).

  Definition tkeys (t : list (nat * esa)) : list key := flat_map (fun x => tracked (inner P (snd x))) t.
  Definition ep_tracked (ep : endpoint E) : list key := tkeys (table E ep).

  (** a table entry: the unregistered successor, if any, has the addresses of the IkeSa and no CHILD_SA yet *)
  Definition EW (i : isa) : Prop :=
    forall n, new_sa i = Some n ->
      my_addr n = my_addr (co i) /\ peer_addr n = peer_addr (co i) /\ children n = [].
  Lemma EW_WF i : EW i -> WF i.
  Proof. intros H n Hn. destruct (H n Hn) as (A & B & C). auto. Qed.
  Lemma EW_SucE i : EW i -> SucE i.
  Proof. intros H n Hn. apply (H n Hn). Qed.
  Lemma WF_SucE_EW i : WF i -> SucE i -> EW i.
  Proof. intros H1 H2 n Hn. destruct (H1 n Hn) as (A & B & _). auto. Qed.

  (** the table part of the invariant, with [WF] only for the entries (what holds between a call and [finish]) *)
  Definition TInv (t : list (nat * esa)) (nc : nat) (sd : sad) : Prop :=
    NoDup sd /\ same_elts sd (tkeys t) /\ NoDup (tkeys t)
    /\ (forall c s, In (c, s) t -> WF (inner P s))
    /\ NoDup (map fst t) /\ (forall c, In c (map fst t) -> (c < nc)%nat)
    /\ (forall c s, In (c, s) t -> Spi4 (inner P s)).
  Definition AllE (t : list (nat * esa)) : Prop := forall c s, In (c, s) t -> EW (inner P s).
  (** the invariant of the endpoint: the kernel SAD is the set of keys of all CHILD_SAs of all table entries *)
  Definition EInv (ep : endpoint E) (sd : sad) : Prop :=
    TInv (table E ep) (next_cid E ep) sd /\ AllE (table E ep).

  (** two handler states with the same IkeSa core and successor *)
  Definition same_core (i j : isa) : Prop := co j = co i /\ new_sa j = new_sa i.
  Lemma same_core_tracked i j : same_core i j -> tracked j = tracked i.
  Proof. intros [A B]. unfold tracked. rewrite A, B. reflexivity. Qed.
  Lemma same_core_WF i j : same_core i j -> WF i -> WF j.
  Proof. intros [A B] H n Hn. rewrite B in Hn. rewrite A. apply (H n Hn). Qed.
  Lemma same_core_EW i j : same_core i j -> EW i -> EW j.
  Proof. intros [A B] H n Hn. rewrite B in Hn. rewrite A. apply (H n Hn). Qed.
  Lemma same_core_Spi4 i j : same_core i j -> Spi4 i -> Spi4 j.
  Proof. intros [A B] [H1 H2]. unfold Spi4. rewrite A, B. auto. Qed.
  Lemma tracked_nil_Spi4 i : tracked i = [] -> Spi4 i.
  Proof.
    unfold tracked. intros H. apply app_eq_nil in H. destruct H as [H1 H2].
    assert (Hk : forall c l, keys_of c l = [] -> l = []).
    { intros c l Hl. destruct l as [|x r]; [reflexivity|discriminate Hl]. }
    split.
    - unfold tracked_keys in H1. rewrite (Hk _ _ H1). constructor.
    - intros n Hn. rewrite Hn in H2. cbn in H2. unfold tracked_keys in H2. rewrite (Hk _ _ H2). constructor.
  Qed.

  Lemma tkeys_app t1 t2 : tkeys (t1 ++ t2) = tkeys t1 ++ tkeys t2.
  Proof. unfold tkeys. apply flat_map_app. Qed.

  Lemma tkeys_mid t1 c s t2 : tkeys (t1 ++ (c, s) :: t2) = tkeys t1 ++ tracked (inner P s) ++ tkeys t2.
  Proof. rewrite tkeys_app. reflexivity. Qed.

  Lemma table_split (t : list (nat * esa)) c s :
    In (c, s) t -> NoDup (map fst t) ->
    exists t1 t2, t = t1 ++ (c, s) :: t2 /\ ~ In c (map fst t1) /\ ~ In c (map fst t2).
  Proof.
    intros Hin Hnd. apply in_split in Hin. destruct Hin as (t1 & t2 & ->). exists t1, t2. split; [reflexivity|].
    rewrite map_app in Hnd. cbn in Hnd. split.
    - intros H. apply (NoDup_app_disj _ _ c Hnd H). left. reflexivity.
    - apply NoDup_app_r in Hnd. inversion Hnd; subst. assumption.
  Qed.
  Lemma replace_split (t1 t2 : list (nat * esa)) c s s' :
    ~ In c (map fst t1) -> replace E (t1 ++ (c, s) :: t2) c s' = t1 ++ (c, s') :: t2.
  Proof.
    induction t1 as [|[c0 x] r IH]; cbn; intros Hn.
    - rewrite Nat.eqb_refl. reflexivity.
    - destruct (Nat.eqb c0 c) eqn:Ec; [apply Nat.eqb_eq in Ec; exfalso; apply Hn; left; exact Ec|].
      f_equal. apply IH. intros H. apply Hn. right. exact H.
  Qed.
  Lemma remove_split (t1 t2 : list (nat * esa)) c s :
    ~ In c (map fst t1) -> remove_cid E (t1 ++ (c, s) :: t2) c = t1 ++ t2.
  Proof.
    induction t1 as [|[c0 x] r IH]; cbn; intros Hn.
    - rewrite Nat.eqb_refl. reflexivity.
    - destruct (Nat.eqb c0 c) eqn:Ec; [apply Nat.eqb_eq in Ec; exfalso; apply Hn; left; exact Ec|].
      f_equal. apply IH. intros H. apply Hn. right. exact H.
  Qed.
  Lemma replace_fst (t : list (nat * esa)) c s' : map fst (replace E t c s') = map fst t.
  Proof.
    induction t as [|[c0 x] r IH]; cbn; [reflexivity|]. destruct (Nat.eqb c0 c); cbn; [reflexivity|]. f_equal. exact IH.
  Qed.

  (** one call on the entry [(c, s)]: the handler-owned state goes from [i0] (= that of [s], fresh kops) to [i'] by
      atomic steps, issuing [ks]; the entry is replaced by [s'] (= [i'] up to the environment fields) *)
  Lemma tinv_call t nc sd c s s' i0 i' :
    TInv t nc sd -> In (c, s) t ->
    same_core (inner P s) i0 -> kops i0 = [] -> Trans i0 i' -> same_core i' (inner P s') ->
    faithful_run sd (kops i') ->
    TInv (replace E t c s') nc (apply_kops sd (kops i')).
  Proof.
    intros (Hnd & Hse & Hnt & Hwf & Hnc & Hlt & Hsp) Hin Hc0 Hk Ht Hc' Hf.
    destruct (table_split t c s Hin Hnc) as (t1 & t2 & -> & Hn1 & Hn2).
    rewrite (replace_split t1 t2 c s s' Hn1).
    rewrite tkeys_app in *. cbn [tkeys flat_map] in *. fold (tkeys t2) in *. cbn [snd] in *.
    set (own := tracked (inner P s)) in *. set (T1 := tkeys t1) in *. set (T2 := tkeys t2) in *.
    assert (Hperm : Permutation (T1 ++ own ++ T2) (own ++ T1 ++ T2)) by apply Permutation_app_swap_app.
    assert (Hinv : Inv i0 own (T1 ++ T2)).
    { split; [eapply Permutation_NoDup; [exact Hperm|exact Hnt]|].
      rewrite (same_core_tracked _ _ Hc0). split; [apply same_elts_refl|].
      apply NoDup_app_r in Hnt. apply NoDup_app_l in Hnt. exact Hnt. }
    assert (Hwf0 : WF i0) by (eapply same_core_WF; [exact Hc0|]; eapply Hwf; apply in_or_app; right; left; reflexivity).
    assert (Hse0 : same_elts sd (own ++ T1 ++ T2)).
    { eapply same_elts_trans; [exact Hse|]. apply same_elts_perm. exact Hperm. }
    pose proof (faithful_run_same _ _ _ Hse0 Hf) as Hf0.
    destruct (trans_main _ _ _ _ Ht Hk Hwf0 Hinv Hf0) as (Hfr & Hwf' & (I1 & I2 & I3)).
    set (own' := apply_kops own (kops i')) in *.
    rewrite <- (same_core_tracked _ _ Hc') in I2, I3. set (tr' := tracked (inner P s')) in *.
    assert (Hnew : NoDup (tr' ++ T1 ++ T2)).
    { apply NoDup_app_intro; [exact I3|apply NoDup_app_r in I1; exact I1|].
      intros k Hk'. apply I2 in Hk'. apply (NoDup_app_disj _ _ k I1 Hk'). }
    assert (Hperm' : Permutation (tr' ++ T1 ++ T2) (T1 ++ tr' ++ T2))
      by (apply Permutation_sym; apply Permutation_app_swap_app).
    unfold TInv. rewrite tkeys_mid. fold T1 T2 tr'.
    split; [apply apply_kops_nodup; assumption|]. split.
    { eapply same_elts_trans; [apply apply_kops_same; exact Hse0|]. rewrite Hfr.
      eapply same_elts_trans; [|apply same_elts_perm; exact Hperm'].
      intros k. rewrite !in_app_iff. rewrite (I2 k). tauto. }
    split; [eapply Permutation_NoDup; [exact Hperm'|exact Hnew]|].
    split.
    { intros c0 s0 Hin0. apply in_app_or in Hin0. destruct Hin0 as [Hin0|[Heq|Hin0]].
      - eapply Hwf. apply in_or_app. left. exact Hin0.
      - injection Heq as <- <-. eapply same_core_WF; [exact Hc'|exact Hwf'].
      - eapply Hwf. apply in_or_app. right. right. exact Hin0. }
    split.
    { rewrite map_app in *. exact Hnc. }
    split.
    { intros c0 Hc0'. apply Hlt. rewrite map_app in *. exact Hc0'. }
    intros c0 s0 Hin0. apply in_app_or in Hin0. destruct Hin0 as [Hin0|[Heq|Hin0]].
    - eapply Hsp. apply in_or_app. left. exact Hin0.
    - injection Heq as <- <-. eapply same_core_Spi4; [exact Hc'|]. eapply trans_spi4; [exact Ht|].
      eapply same_core_Spi4; [exact Hc0|]. eapply Hsp. apply in_or_app. right. left. reflexivity.
    - eapply Hsp. apply in_or_app. right. right. exact Hin0.
  Qed.
End Table.

Section Table2.
  Variable E : env.
  Notation P := (hdl_iface E).
  Notation esa := (Endpoint.esa E).

  (** a new entry without CHILD_SAs *)
  Lemma tinv_append t nc sd (s : esa) :
    TInv E t nc sd -> tracked (inner P s) = [] -> WF (inner P s) -> TInv E (t ++ [(nc, s)]) (S nc) sd.
  Proof.
    intros (Hnd & Hse & Hnt & Hwf & Hnc & Hlt & Hsp) Htr Hw. unfold TInv.
    rewrite tkeys_app. cbn. rewrite Htr. cbn. rewrite app_nil_r.
    split; [exact Hnd|]. split; [exact Hse|]. split; [exact Hnt|]. split.
    { intros c0 s0 Hin. apply in_app_or in Hin. destruct Hin as [Hin|[Heq|[]]]; [eapply Hwf; exact Hin|].
      injection Heq as <- <-. exact Hw. }
    split.
    { rewrite map_app. cbn. apply NoDup_app_intro; [exact Hnc|constructor; [intros []|constructor]|].
      intros x Hx [<-|[]]. apply Hlt in Hx. exact (Nat.lt_irrefl _ Hx). }
    split.
    { intros c0 Hc0. rewrite map_app in Hc0. apply in_app_or in Hc0. destruct Hc0 as [H|[<-|[]]]; [apply Hlt in H; apply Nat.lt_lt_succ_r; exact H|apply Nat.lt_succ_diag_r]. }
    intros c0 s0 Hin. apply in_app_or in Hin. destruct Hin as [Hin|[Heq|[]]]; [eapply Hsp; exact Hin|].
    injection Heq as <- <-. apply tracked_nil_Spi4. exact Htr.
  Qed.

  (** the controller registers the successor of the entry [(c, s)] *)
  Lemma tinv_register t nc sd c (s s' : esa) n :
    TInv E t nc sd -> In (c, s) t -> new_sa (inner P s) = Some n ->
    co (inner P s') = co (inner P s) -> new_sa (inner P s') = None ->
    TInv E (Endpoint.replace E t c s' ++ [(nc, sa_of_core E n)]) (S nc) sd.
  Proof.
    intros (Hnd & Hse & Hnt & Hwf & Hnc & Hlt & Hsp) Hin Hn Hco Hnone.
    pose proof (Hsp c s Hin) as [Hsp1 Hsp2].
    destruct (table_split E t c s Hin Hnc) as (t1 & t2 & -> & Hn1 & Hn2).
    rewrite (replace_split E t1 t2 c s s' Hn1).
    destruct (Hwf c s Hin) with (n := n) as (W1 & W2 & _); [exact Hn|].
    assert (Hts : tracked (inner P s) = tracked_keys (co (inner P s)) ++ tracked_keys n)
      by (unfold tracked; rewrite Hn; reflexivity).
    assert (Hts' : tracked (inner P s') = tracked_keys (co (inner P s)))
      by (unfold tracked; rewrite Hnone, Hco; cbn; apply app_nil_r).
    assert (Htn : tracked (inner P (sa_of_core E n)) = tracked_keys n) by (unfold tracked; cbn; apply app_nil_r).
    unfold TInv. rewrite tkeys_mid in Hse, Hnt. rewrite tkeys_app, tkeys_mid. cbn [tkeys flat_map snd]. rewrite Hts in *. rewrite Hts', Htn, app_nil_r.
    set (A := tracked_keys (co (inner P s))) in *. set (B := tracked_keys n) in *.
    set (T1 := tkeys E t1) in *. set (T2 := tkeys E t2) in *.
    assert (Hperm : Permutation (T1 ++ (A ++ B) ++ T2) ((T1 ++ A ++ T2) ++ B)).
    { rewrite <- !app_assoc. apply Permutation_app_head. apply Permutation_app_head. apply Permutation_app_comm. }
    split; [exact Hnd|]. split; [eapply same_elts_trans; [exact Hse|apply same_elts_perm; exact Hperm]|].
    split; [eapply Permutation_NoDup; [exact Hperm|exact Hnt]|]. split.
    { intros c0 s0 Hin0. apply in_app_or in Hin0. destruct Hin0 as [Hin0|[Heq|[]]].
      - apply in_app_or in Hin0. destruct Hin0 as [Hin0|[Heq|Hin0]].
        + eapply Hwf. apply in_or_app. left. exact Hin0.
        + injection Heq as <- <-. apply WF_no_successor. exact Hnone.
        + eapply Hwf. apply in_or_app. right. right. exact Hin0.
      - injection Heq as <- <-. apply WF_no_successor. reflexivity. }
    assert (Hfst : map fst (t1 ++ (c, s') :: t2) = map fst (t1 ++ (c, s) :: t2)) by (rewrite !map_app; reflexivity).
    split.
    { rewrite map_app, Hfst. cbn. apply NoDup_app_intro; [exact Hnc|constructor; [intros []|constructor]|].
      intros x Hx [<-|[]]. apply Hlt in Hx. exact (Nat.lt_irrefl _ Hx). }
    split.
    { intros c0 Hc0. rewrite map_app, Hfst in Hc0. apply in_app_or in Hc0.
      destruct Hc0 as [H|[<-|[]]]; [apply Hlt in H; apply Nat.lt_lt_succ_r; exact H|apply Nat.lt_succ_diag_r]. }
    intros c0 s0 Hin0. apply in_app_or in Hin0. destruct Hin0 as [Hin0|[Heq|[]]].
    - apply in_app_or in Hin0. destruct Hin0 as [Hin0|[Heq|Hin0]].
      + eapply Hsp. apply in_or_app. left. exact Hin0.
      + injection Heq as <- <-. split; [rewrite Hco; exact Hsp1|]. intros n0 Hn0. rewrite Hnone in Hn0. discriminate Hn0.
      + eapply Hsp. apply in_or_app. right. right. exact Hin0.
    - injection Heq as <- <-. split; [cbn; exact (Hsp2 n Hn)|]. intros n0 Hn0. discriminate Hn0.
  Qed.

  (** delete_child_sas on the entry [(c, s)], then its removal *)
  Lemma tinv_teardown t nc sd c (s : esa) i0 :
    TInv E t nc sd -> In (c, s) t -> EW (inner P s) ->
    same_core (inner P s) i0 -> kops i0 = [] -> fst (delete_child_sas i0) <> Stuck ->
    faithful_run sd (kops (snd (delete_child_sas i0))) ->
    TInv E (remove_cid E t c) nc (apply_kops sd (kops (snd (delete_child_sas i0)))).
  Proof.
    intros (Hnd & Hse & Hnt & Hwf & Hnc & Hlt & Hsp) Hin Hew Hc0 Hk Hns Hf.
    assert (H4 : Forall spi4 (children (co i0))).
    { destruct Hc0 as [Hco _]. rewrite Hco. exact (proj1 (Hsp c s Hin)). }
    destruct (table_split E t c s Hin Hnc) as (t1 & t2 & -> & Hn1 & Hn2).
    rewrite (remove_split E t1 t2 c s Hn1).
    rewrite tkeys_mid in *. set (own := tracked (inner P s)) in *. set (T1 := tkeys E t1) in *. set (T2 := tkeys E t2) in *.
    assert (Hperm : Permutation (T1 ++ own ++ T2) (own ++ T1 ++ T2)) by apply Permutation_app_swap_app.
    assert (Hinv : Inv i0 own (T1 ++ T2)).
    { split; [eapply Permutation_NoDup; [exact Hperm|exact Hnt]|].
      rewrite (same_core_tracked _ _ Hc0). split; [apply same_elts_refl|].
      apply NoDup_app_r in Hnt. apply NoDup_app_l in Hnt. exact Hnt. }
    assert (Hse0 : same_elts sd (own ++ T1 ++ T2)).
    { eapply same_elts_trans; [exact Hse|]. apply same_elts_perm. exact Hperm. }
    pose proof (faithful_run_same _ _ _ Hse0 Hf) as Hf0.
    destruct (teardown_inv i0 own (T1 ++ T2) H4 Hinv Hk Hns Hf0) as (Hfr & _ & Hch & (I1 & I2 & I3) & _).
    assert (Hsucc : succ_keys (new_sa i0) = []).
    { destruct Hc0 as [_ Hn0]. rewrite Hn0. destruct (new_sa (inner P s)) as [n|] eqn:En; [|reflexivity].
      destruct (Hew n En) as (_ & _ & C). cbn. unfold tracked_keys. rewrite C. reflexivity. }
    assert (Hempty : sad_minus own (tracked_keys (co i0)) = []).
    { destruct (sad_minus own (tracked_keys (co i0))) as [|k r] eqn:Em; [reflexivity|]. exfalso.
      assert (Hk' : In k (tracked (snd (delete_child_sas i0)))) by (apply I2; left; reflexivity).
      destruct (teardown_general i0 (own ++ T1 ++ T2) H4 Hk Hns Hf0) as (_ & _ & G3 & G4 & _).
      unfold tracked, tracked_keys in Hk'. rewrite G3, G4, Hsucc in Hk'. exact Hk'. }
    rewrite Hempty in *. cbn [app] in *.
    unfold TInv. rewrite tkeys_app. fold T1 T2.
    split; [apply apply_kops_nodup; assumption|]. split.
    { eapply same_elts_trans; [apply apply_kops_same; exact Hse0|]. rewrite Hfr. apply same_elts_refl. }
    split; [exact I1|]. split.
    { intros c0 s0 Hin0. apply in_app_or in Hin0. destruct Hin0 as [Hin0|Hin0]; eapply Hwf; apply in_or_app;
        [left|right; right]; exact Hin0. }
    rewrite map_app in *. cbn in Hnc, Hlt. split.
    { apply NoDup_app_intro; [apply NoDup_app_l in Hnc; exact Hnc|apply NoDup_app_r in Hnc; inversion Hnc; assumption|].
      intros x Hx Hx2. apply (NoDup_app_disj _ _ x Hnc Hx). right. exact Hx2. }
    split.
    { intros c0 Hc0'. apply Hlt. apply in_app_or in Hc0'. apply in_or_app. destruct Hc0' as [H|H]; [left|right; right]; exact H. }
    intros c0 s0 Hin0. apply in_app_or in Hin0. destruct Hin0 as [Hin0|Hin0]; eapply Hsp; apply in_or_app;
      [left|right; right]; exact Hin0.
  Qed.
End Table2.

Section Table3.
  Variable E : env.
  Notation P := (hdl_iface E).
  Notation esa := (Endpoint.esa E).
  (** removal of an entry without CHILD_SAs (the IkeSa created for an IKE_SA_INIT request that does not parse) *)
  Lemma tinv_remove_empty t nc sd c (s : esa) :
    TInv E t nc sd -> In (c, s) t -> tracked (inner P s) = [] -> TInv E (remove_cid E t c) nc sd.
  Proof.
    intros (Hnd & Hse & Hnt & Hwf & Hnc & Hlt & Hsp) Hin Htr.
    destruct (table_split E t c s Hin Hnc) as (t1 & t2 & -> & Hn1 & Hn2).
    rewrite (remove_split E t1 t2 c s Hn1). rewrite tkeys_mid, Htr in *. cbn [app] in *.
    unfold TInv. rewrite tkeys_app.
    split; [exact Hnd|]. split; [exact Hse|]. split; [exact Hnt|]. split.
    { intros c0 s0 Hin0. apply in_app_or in Hin0. destruct Hin0 as [Hin0|Hin0]; eapply Hwf; apply in_or_app;
        [left|right; right]; exact Hin0. }
    rewrite map_app in *. cbn in Hnc, Hlt. split.
    { apply NoDup_app_intro; [apply NoDup_app_l in Hnc; exact Hnc|apply NoDup_app_r in Hnc; inversion Hnc; assumption|].
      intros x Hx Hx2. apply (NoDup_app_disj _ _ x Hnc Hx). right. exact Hx2. }
    split.
    { intros c0 Hc0'. apply Hlt. apply in_app_or in Hc0'. apply in_or_app. destruct Hc0' as [H|H]; [left|right; right]; exact H. }
    intros c0 s0 Hin0. apply in_app_or in Hin0. destruct Hin0 as [Hin0|Hin0]; eapply Hsp; apply in_or_app;
      [left|right; right]; exact Hin0.
  Qed.
End Table3.

(** ** a message processed by an IkeSa that is still INITIAL (the responder IkeSa the dispatcher has just created):
       no kernel operation, no CHILD_SA, no successor *)
Section Fresh.
  Variable E : env.
  Notation P := (hdl_iface E).
  Notation sa := (Shell.sa P).
  Definition Same3 (i i' : isa) : Prop :=
    kops i' = kops i /\ children (co i') = children (co i) /\ new_sa i' = new_sa i.
  Lemma nochange_Same3 i i' : nochange i i' -> Same3 i i'.
  Proof. intros (A & B & C & _). unfold Same3. auto. Qed.
  Lemma process_message_initial (s : sa) m now :
    st (co (inner P s)) = ST_INITIAL -> Same3 (inner P s) (inner P (fst (process_message P s m now))).
  Proof.
    intros Hi. assert (Hpre : st (co (inner P s)) < ST_ESTABLISHED) by (rewrite Hi; reflexivity).
    assert (Hrefl : Same3 (inner P s) (inner P s)) by (unfold Same3; auto).
    unfold process_message. cbv zeta.
    destruct (process_message_decision _ _ _ _ _ _ _ _ _ _ _ _ _ _) as [reset ret].
    set (s0 := if reset then _ else _).
    assert (H0 : inner P s0 = inner P s) by (unfold s0; destruct reset; reflexivity).
    destruct ret; cbn [fst]; try (rewrite H0; exact Hrefl).
    - unfold process_request.
      destruct (req_is_retransmission _ _ _); [cbn [fst]; rewrite H0; exact Hrefl|].
      destruct (req_id_unexpected _ _ _); [cbn [fst]; rewrite H0; exact Hrefl|].
      destruct (negb _); [cbn [fst]; rewrite H0; exact Hrefl|].
      change (handle_request P (inner P s0) m) with (h_request E (inner P s0) m). rewrite H0.
      pose proof (h_request_pre E (inner P s) m Hpre) as Ho.
      destruct (h_request E (inner P s) m) as [i' out]. cbn [fst] in Ho.
      destruct Ho as [(_ & Ho & _)|Ho]; [rewrite Hi in Ho; discriminate Ho|]. apply nochange_Same3 in Ho.
      destruct out as [b|b]; cbn; exact Ho.
    - unfold process_response.
      destruct (res_id_unexpected _ _ _); [cbn [fst]; rewrite H0; exact Hrefl|].
      destruct (negb _); [cbn [fst]; change (inner P (set_my_id P s0 (my_id P s0 + 1))) with (inner P s0); rewrite H0; exact Hrefl|].
      change (inner P (set_my_id P s0 (my_id P s0 + 1))) with (inner P s0).
      change (handle_response P (inner P s0) m) with (h_response E (inner P s0) m). rewrite H0.
      pose proof (h_response_pre E (inner P s) m Hpre) as Ho.
      destruct (h_response E (inner P s) m) as [i' out]. cbn [fst] in Ho.
      destruct Ho as [(_ & Ho & _)|Ho]; [rewrite Hi in Ho; discriminate Ho|].
      pose proof (nochange_Same3 _ _ Ho) as Hs. destruct Ho as (_ & _ & _ & Hlt).
      destruct out as [[[x body]|] reset'|reset']; [destruct reset'; exact Hs| |destruct reset'; cbn; exact Hs].
      set (s2 := if reset' then _ else _).
      assert (H2 : inner P s2 = i') by (unfold s2; destruct reset'; reflexivity).
      assert (Hne : Z.eqb (state P s2) ST_ESTABLISHED = false).
      { change (state P s2) with (st (co (inner P s2))). rewrite H2. apply Z.eqb_neq. intros Heq. rewrite Heq in Hlt.
        discriminate Hlt. }
      rewrite Hne. cbn [fst]. rewrite H2. exact Hs.
  Qed.
End Fresh.

(* ------------------------------------------------------------------------------------------------ *)
(** * E. The controller *)

Section Controller.
  Variable E : env.
  Notation P := (hdl_iface E).
  Notation esa := (Endpoint.esa E).
  Notation endpoint := (Endpoint.endpoint E).
  Notation table := (Endpoint.table E).
  Notation next_cid := (Endpoint.next_cid E).
  Notation ep_kops := (Endpoint.ep_kops E).
  Notation enter := (Endpoint.enter E).
  Notation leave := (Endpoint.leave E).
  Notation send := (Endpoint.send E).
  Notation replace := (Endpoint.replace E).

  Lemma enter_core ep (s : esa) : same_core (inner P s) (inner P (enter ep s)) /\ kops (inner P (enter ep s)) = [].
  Proof. unfold same_core. cbn. auto. Qed.
  Lemma leave_facts ep (s : esa) :
    same_core (inner P s) (inner P (snd (leave ep s)))
    /\ ep_kops (fst (leave ep s)) = ep_kops ep ++ kops (inner P s)
    /\ table (fst (leave ep s)) = table ep /\ next_cid (fst (leave ep s)) = next_cid ep
    /\ ep_now E (fst (leave ep s)) = ep_now E ep /\ confs E (fst (leave ep s)) = confs E ep
    /\ ep_cookie_secret E (fst (leave ep s)) = ep_cookie_secret E ep.
  Proof. unfold leave, same_core. destruct (rek_push (inner P s)); cbn; repeat split; reflexivity. Qed.
  Lemma send_facts ep d :
    table (send ep d) = table ep /\ next_cid (send ep d) = next_cid ep /\ ep_kops (send ep d) = ep_kops ep
    /\ ep_now E (send ep d) = ep_now E ep /\ ep_tape E (send ep d) = ep_tape E ep /\ confs E (send ep d) = confs E ep.
  Proof. destruct d; cbn; repeat split; reflexivity. Qed.

  Lemma AllE_replace t c (s' : esa) : AllE E t -> EW (inner P s') -> AllE E (replace t c s').
  Proof.
    intros Ha Hs. induction t as [|[c0 x] r IH]; cbn; [exact Ha|].
    assert (Hr : AllE E r) by (intros c1 s1 H1; apply (Ha c1 s1); right; exact H1).
    destruct (Nat.eqb c0 c).
    - intros c1 s1 [H1|H1]; [injection H1 as <- <-; exact Hs|apply (Ha c1 s1); right; exact H1].
    - intros c1 s1 [H1|H1]; [apply (Ha c1 s1); left; exact H1|apply (IH Hr c1 s1 H1)].
  Qed.
  Lemma In_replace t c (s' : esa) c1 s1 :
    In (c1, s1) (replace t c s') -> (c1 = c /\ s1 = s') \/ In (c1, s1) t.
  Proof.
    induction t as [|[c0 x] r IH]; cbn; [auto|]. destruct (Nat.eqb c0 c) eqn:Ec.
    - intros [H|H]; [injection H as <- <-; apply Nat.eqb_eq in Ec; left; auto|right; right; exact H].
    - intros [H|H]; [right; left; exact H|destruct (IH H) as [H1|H1]; [left; exact H1|right; right; exact H1]].
  Qed.

  (** ** the ghost form of the invariant: [sd0] is the SAD when the iteration starts *)
  Variable sd0 : sad.
  Definition cursad (ep : endpoint) : sad := apply_kops sd0 (ep_kops ep).
  Definition TG (ep : endpoint) : Prop :=
    faithful_run sd0 (ep_kops ep) -> TInv E (table ep) (next_cid ep) (cursad ep).
  Definition extends (ep ep' : endpoint) : Prop := exists ks, ep_kops ep' = ep_kops ep ++ ks.
  Lemma extends_refl ep : extends ep ep.
  Proof. exists []. symmetry. apply app_nil_r. Qed.
  Lemma extends_trans a b c : extends a b -> extends b c -> extends a c.
  Proof. intros [k1 H1] [k2 H2]. exists (k1 ++ k2). rewrite H2, H1. symmetry. apply app_assoc. Qed.

  (** enter / call / leave / replace on the entry [(c, s)] *)
  Definition put (ep : endpoint) (c : nat) (s2 : esa) : endpoint :=
    set (Endpoint.table E) (fun _ => replace (table (fst (leave ep s2))) c (snd (leave ep s2))) (fst (leave ep s2)).

  Lemma put_facts ep c (s2 : esa) :
    ep_kops (put ep c s2) = ep_kops ep ++ kops (inner P s2)
    /\ table (put ep c s2) = replace (table ep) c (snd (leave ep s2))
    /\ next_cid (put ep c s2) = next_cid ep /\ ep_now E (put ep c s2) = ep_now E ep
    /\ confs E (put ep c s2) = confs E ep /\ ep_cookie_secret E (put ep c s2) = ep_cookie_secret E ep.
  Proof. unfold put, leave. destruct (rek_push (inner P s2)); cbn; repeat split; reflexivity. Qed.

  Lemma tg_call ep c (s s2 : esa) :
    TG ep -> In (c, s) (table ep) -> Trans (inner P (enter ep s)) (inner P s2) ->
    TG (put ep c s2) /\ extends ep (put ep c s2).
  Proof.
    intros Hg Hin Ht. destruct (leave_facts ep s2) as (L1 & _).
    destruct (put_facts ep c s2) as (P1 & P2 & P3 & _).
    split; [|exists (kops (inner P s2)); exact P1].
    unfold TG, cursad. rewrite P1, P2, P3. intros Hf.
    apply faithful_run_app in Hf. destruct Hf as [Hf1 Hf2]. rewrite apply_kops_app.
    destruct (enter_core ep s) as [C1 C2].
    eapply tinv_call; eauto.
  Qed.

  Lemma AllE_remove t c : AllE E t -> AllE E (remove_cid E t c).
  Proof.
    intros Ha. induction t as [|[c0 x] r IH]; cbn; [exact Ha|].
    assert (Hr : AllE E r) by (intros c1 s1 H1; apply (Ha c1 s1); right; exact H1).
    destruct (Nat.eqb c0 c); [exact Hr|].
    intros c1 s1 [H1|H1]; [apply (Ha c1 s1); left; exact H1|apply (IH Hr c1 s1 H1)].
  Qed.
  Lemma AllE_app t1 t2 : AllE E t1 -> AllE E t2 -> AllE E (t1 ++ t2).
  Proof. intros H1 H2 c s Hin. apply in_app_or in Hin. destruct Hin as [H|H]; [eapply H1|eapply H2]; exact H. Qed.

  (** the state of the endpoint that the lemmas thread: ghost invariant and entry condition *)
  Definition CidOK (t : list (nat * esa)) (nc : nat) : Prop :=
    NoDup (map fst t) /\ forall c, In c (map fst t) -> (c < nc)%nat.
  Lemma cidok_replace t nc c (s' : esa) : CidOK t nc -> CidOK (replace t c s') nc.
  Proof. unfold CidOK. rewrite replace_fst. auto. Qed.
  Lemma cidok_append t nc (s' : esa) : CidOK t nc -> CidOK (t ++ [(nc, s')]) (S nc).
  Proof.
    intros [H1 H2]. unfold CidOK. rewrite map_app. cbn. split.
    - apply NoDup_app_intro; [exact H1|constructor; [intros []|constructor]|].
      intros x Hx [<-|[]]. apply H2 in Hx. exact (Nat.lt_irrefl _ Hx).
    - intros c0 Hc0. apply in_app_or in Hc0.
      destruct Hc0 as [H|[<-|[]]]; [apply H2 in H; apply Nat.lt_lt_succ_r; exact H|apply Nat.lt_succ_diag_r].
  Qed.
  Lemma remove_cid_incl t c x : In x (map fst (remove_cid E t c)) -> In x (map fst t).
  Proof.
    induction t as [|[c0 y] r IH]; cbn; [auto|]. destruct (Nat.eqb c0 c); cbn; [auto|]. intros [H|H]; auto.
  Qed.
  Lemma cidok_remove t nc c : CidOK t nc -> CidOK (remove_cid E t c) nc.
  Proof.
    intros [H1 H2]. split; [|intros x Hx; apply H2; eapply remove_cid_incl; exact Hx].
    induction t as [|[c0 y] r IH]; cbn; [constructor|]. cbn in H1. inversion H1 as [|? ? Hx Hr]; subst.
    destruct (Nat.eqb c0 c); [exact Hr|]. cbn. constructor.
    - intros Hin. apply Hx. eapply remove_cid_incl. exact Hin.
    - apply IH; [exact Hr|]. intros x Hx'. apply H2. right. exact Hx'.
  Qed.

  Definition EG (ep : endpoint) : Prop := TG ep /\ AllE E (table ep) /\ CidOK (table ep) (next_cid ep).

  (** ** IkeSa(...) by the controller *)
  Lemma create_facts ep ii pspi c my peer ep0 cid (s0 : esa) :
    create E ep ii pspi c my peer = Some (ep0, cid, s0) ->
    cid = next_cid ep /\ table ep0 = table ep ++ [(cid, s0)] /\ next_cid ep0 = S (next_cid ep)
    /\ ep_kops ep0 = ep_kops ep /\ children (co (inner P s0)) = [] /\ new_sa (inner P s0) = None
    /\ st (co (inner P s0)) = ST_INITIAL.
  Proof.
    unfold create.
    pose proof (new_core_spec ii pspi (empty_core c my peer)
                  (mk_isa (empty_core c my peer) None None (ep_now E ep) (ep_tape E ep) [])) as Hn.
    unfold post in Hn. destruct Hn as [_ Hn].
    destruct (new_core ii pspi (empty_core c my peer) _) as [[nc|e|] i1] eqn:En; cbn in *; try discriminate.
    intros H. injection H as <- <- <-. destruct (Hn nc eq_refl) as (A & _). cbn.
    repeat split; try reflexivity; try exact A.
    unfold new_core, bind, draw_bytes, draw_num, pop, get, ret in En. cbn in En.
    destruct (ep_tape E ep) as [|[] r]; cbn in En; try discriminate En.
    destruct r as [|[] r']; cbn in En; try discriminate En. injection En as <- _. reflexivity.
  Qed.

  Lemma eg_create ep ii pspi c my peer ep0 cid (s0 : esa) :
    create E ep ii pspi c my peer = Some (ep0, cid, s0) -> EG ep ->
    EG ep0 /\ extends ep ep0 /\ In (cid, s0) (table ep0).
  Proof.
    intros Hc (Hg & Ha & Hci). destruct (create_facts _ _ _ _ _ _ _ _ _ Hc) as (-> & Ht & Hn & Hk & Hch & Hnew & _).
    split; [|split; [exists []; rewrite Hk; symmetry; apply app_nil_r|rewrite Ht; apply in_or_app; right; left; reflexivity]].
    split; [|split; [|rewrite Ht, Hn; apply cidok_append; exact Hci]].
    - unfold TG, cursad. rewrite Hk, Ht, Hn. intros Hf. apply tinv_append; [apply Hg; exact Hf| |].
      + unfold tracked, tracked_keys. rewrite Hch, Hnew. reflexivity.
      + apply WF_no_successor. exact Hnew.
    - rewrite Ht. apply AllE_app; [exact Ha|]. intros c0 s1 [H|[]]. injection H as <- <-.
      intros n Hn'. rewrite Hnew in Hn'. discriminate Hn'.
  Qed.

  (** ** IkeSa.delete_child_sas() + removal *)
  Definition td_ok (ep : endpoint) (s : esa) : Prop := fst (delete_child_sas (inner P (enter ep s))) <> Stuck.

  Lemma teardown_facts ep c (s : esa) :
    ep_kops (teardown E ep c s) = ep_kops ep ++ kops (snd (delete_child_sas (inner P (enter ep s))))
    /\ table (teardown E ep c s) = remove_cid E (table ep) c /\ next_cid (teardown E ep c s) = next_cid ep.
  Proof.
    unfold teardown. destruct (delete_child_sas (inner P (enter ep s))) as [r i'] eqn:Ed. cbn [snd].
    unfold leave. cbn. destruct (rek_push i'); cbn; repeat split; reflexivity.
  Qed.

  Lemma eg_teardown ep c (s : esa) :
    EG ep -> In (c, s) (table ep) -> td_ok ep s ->
    EG (teardown E ep c s) /\ extends ep (teardown E ep c s).
  Proof.
    intros (Hg & Ha & Hci) Hin Hok. destruct (teardown_facts ep c s) as (T1 & T2 & T3).
    split; [|eexists; exact T1]. split; [|split; [rewrite T2; apply AllE_remove; exact Ha|rewrite T2, T3; apply cidok_remove; exact Hci]].
    unfold TG, cursad. rewrite T1, T2, T3. intros Hf.
    apply faithful_run_app in Hf. destruct Hf as [Hf1 Hf2]. rewrite apply_kops_app.
    destruct (enter_core ep s) as [C1 C2].
    eapply tinv_teardown; eauto.
  Qed.

  Lemma trans_WF a b : Trans a b -> WF a -> WF b.
  Proof.
    intros H. induction H as [s|s a b H IH Ha]; [auto|]. intros Hw. specialize (IH Hw).
    destruct Ha as [Hs|Hs|Hs|ch Hs|ch Hs|ch Hs].
    - apply (sila_quiet _ _ Hs IH).
    - apply (succ_quiet _ _ Hs IH).
    - apply (hand_quiet _ _ Hs IH).
    - destruct Hs as (_ & _ & Hr). exact (Rest_WF _ _ Hr IH).
    - destruct Hs as (_ & _ & Hr). exact (Rest_WF _ _ Hr IH).
    - destruct Hs as (_ & _ & _ & Hr). exact (Rest_WF _ _ Hr IH).
  Qed.

  Lemma TG_ext a b :
    table b = table a -> next_cid b = next_cid a -> ep_kops b = ep_kops a -> TG a -> TG b.
  Proof. unfold TG, cursad. intros -> -> ->. auto. Qed.

  Lemma replace_replace t c (s s' : esa) : replace (replace t c s) c s' = replace t c s'.
  Proof.
    induction t as [|[c0 x] r IH]; cbn; [reflexivity|]. destruct (Nat.eqb c0 c) eqn:Ec; cbn; rewrite Ec; [reflexivity|].
    f_equal. exact IH.
  Qed.
  Lemma In_replace_self t c (s' : esa) : In c (map fst t) -> In (c, s') (replace t c s').
  Proof.
    induction t as [|[c0 x] r IH]; cbn; [contradiction|]. destruct (Nat.eqb c0 c) eqn:Ec.
    - apply Nat.eqb_eq in Ec. subst c0. intros _. left. reflexivity.
    - intros [H|H]; [apply Nat.eqb_neq in Ec; contradiction|right; apply IH; exact H].
  Qed.

  (** ** the tail of dispatch_message *)
  Definition with_table (ep : endpoint) (t : list (nat * esa)) : endpoint := set (Endpoint.table E) (fun _ => t) ep.
  Definition finish_pre (ep : endpoint) (cid : nat) (s : esa) : endpoint * esa :=
    match new_sa (inner P s) with
    | Some nc =>
        if dispatch_register_successor (state P s) true then
          let s' := with_inner P s (set new_sa (fun _ => None) (inner P s)) in
          (set (Endpoint.next_cid E) (fun _ => S (next_cid ep))
               (with_table ep (replace (table ep) cid s' ++ [(next_cid ep, sa_of_core E nc)])), s')
        else (with_table ep (replace (table ep) cid s), s)
    | None => (with_table ep (replace (table ep) cid s), s)
    end.
  Lemma finish_eq ep cid s :
    finish E ep cid s =
    if dispatch_remove (state P (snd (finish_pre ep cid s)))
    then teardown E (fst (finish_pre ep cid s)) cid (snd (finish_pre ep cid s)) else fst (finish_pre ep cid s).
  Proof.
    unfold finish, finish_pre. destruct (new_sa (inner P s)); [|reflexivity].
    destruct (dispatch_register_successor (state P s) true); reflexivity.
  Qed.
  Definition finish_ok (ep : endpoint) (cid : nat) (s : esa) : Prop :=
    if dispatch_remove (state P (snd (finish_pre ep cid s)))
    then td_ok (fst (finish_pre ep cid s)) (snd (finish_pre ep cid s)) else True.

  Lemma eg_finish_pre ep cid (s : esa) :
    TG (with_table ep (replace (table ep) cid s)) -> AllE E (table ep) -> CidOK (table ep) (next_cid ep) ->
    In cid (map fst (table ep)) -> WF (inner P s) -> SucK (inner P s) ->
    EG (fst (finish_pre ep cid s)) /\ In (cid, snd (finish_pre ep cid s)) (table (fst (finish_pre ep cid s)))
    /\ ep_kops (fst (finish_pre ep cid s)) = ep_kops ep.
  Proof.
    intros Hg Ha Hci Hin Hwf Hk. unfold finish_pre.
    assert (Hself : In (cid, s) (replace (table ep) cid s)) by (apply In_replace_self; exact Hin).
    assert (Hnoreg : (forall n, new_sa (inner P s) = Some n -> children n = []) ->
              EG (with_table ep (replace (table ep) cid s))
              /\ In (cid, s) (table (with_table ep (replace (table ep) cid s)))
              /\ ep_kops (with_table ep (replace (table ep) cid s)) = ep_kops ep).
    { intros Hch. split; [|split; [exact Hself|reflexivity]]. split; [exact Hg|]. split.
      - apply AllE_replace; [exact Ha|]. apply WF_SucE_EW; assumption.
      - apply cidok_replace. exact Hci. }
    destruct (new_sa (inner P s)) as [nc|] eqn:En; [|apply Hnoreg; intros n Hn; discriminate Hn].
    destruct (dispatch_register_successor (state P s) true) eqn:Er.
    2:{ apply Hnoreg. intros n Hn. injection Hn as <-. destruct (Hk nc En) as [H|[H|H]]; [exact H| |];
        exfalso; unfold dispatch_register_successor in Er; change (state P s) with (st (co (inner P s))) in Er;
        rewrite H in Er; discriminate Er. }
    cbn [fst snd].
    set (s' := with_inner P s (set new_sa (fun _ => None) (inner P s))).
    split; [|split; [cbn; apply in_or_app; left; apply In_replace_self; exact Hin|reflexivity]].
    split; [|split].
    - unfold TG, cursad. cbn. intros Hf. rewrite <- (replace_replace (table ep) cid s s').
      eapply tinv_register; [apply Hg; exact Hf|exact Hself|exact En|reflexivity|reflexivity].
    - cbn. apply AllE_app; [apply AllE_replace; [exact Ha|intros n Hn; discriminate Hn]|].
      intros c0 s1 [H|[]]. injection H as <- <-. intros n Hn. discriminate Hn.
    - cbn. apply cidok_append. apply cidok_replace. exact Hci.
  Qed.

  Lemma eg_finish ep cid (s : esa) :
    TG (with_table ep (replace (table ep) cid s)) -> AllE E (table ep) -> CidOK (table ep) (next_cid ep) ->
    In cid (map fst (table ep)) -> WF (inner P s) -> SucK (inner P s) -> finish_ok ep cid s ->
    EG (finish E ep cid s) /\ exists ks, ep_kops (finish E ep cid s) = ep_kops ep ++ ks.
  Proof.
    intros Hg Ha Hci Hin Hwf Hk Hok. rewrite finish_eq. unfold finish_ok in Hok.
    destruct (eg_finish_pre ep cid s Hg Ha Hci Hin Hwf Hk) as (H1 & H2 & H3).
    destruct (dispatch_remove (state P (snd (finish_pre ep cid s)))).
    - destruct (eg_teardown _ _ _ H1 H2 Hok) as [H4 [ks H5]]. split; [exact H4|]. exists ks. rewrite H5, H3. reflexivity.
    - split; [exact H1|]. exists []. rewrite H3. symmetry. apply app_nil_r.
  Qed.

  Lemma EG_ext a b :
    table b = table a -> next_cid b = next_cid a -> ep_kops b = ep_kops a -> EG a -> EG b.
  Proof. intros H1 H2 H3 (G1 & G2 & G3). split; [eapply TG_ext; eauto|]. rewrite H1, H2. auto. Qed.

  (** ** one shell call on a table entry: enter / call / leave / replace / send *)
  Definition do_call (ep : endpoint) (c : nat) (r : esa * option (dgram body)) : endpoint :=
    send (put ep c (fst r)) (snd r).

  Lemma eg_put ep c (s s2 : esa) :
    EG ep -> In (c, s) (table ep) -> Trans (inner P (enter ep s)) (inner P s2) ->
    (SucE (inner P s) -> SucE (inner P s2)) ->
    EG (put ep c s2) /\ extends ep (put ep c s2).
  Proof.
    intros (Hg & Ha & Hci) Hin Ht Hs. destruct (tg_call ep c s s2 Hg Hin Ht) as [H1 H2].
    split; [|exact H2]. destruct (put_facts ep c s2) as (_ & P2 & P3 & _).
    split; [exact H1|]. rewrite P2, P3. split; [|apply cidok_replace; exact Hci].
    apply AllE_replace; [exact Ha|]. destruct (leave_facts ep s2) as (L1 & _).
    eapply same_core_EW; [exact L1|]. specialize (Ha c s Hin). destruct (enter_core ep s) as [C1 _].
    apply WF_SucE_EW.
    - eapply trans_WF; [exact Ht|]. eapply same_core_WF; [exact C1|]. apply EW_WF. exact Ha.
    - apply Hs. apply EW_SucE. exact Ha.
  Qed.
  Lemma eg_do_call ep c (s : esa) r :
    EG ep -> In (c, s) (table ep) -> Trans (inner P (enter ep s)) (inner P (fst r)) ->
    (SucE (inner P s) -> SucE (inner P (fst r))) ->
    EG (do_call ep c r) /\ extends ep (do_call ep c r).
  Proof.
    intros Hg Hin Ht Hs. destruct (eg_put ep c s (fst r) Hg Hin Ht Hs) as [H1 [ks H2]].
    unfold do_call. destruct (send_facts (put ep c (fst r)) (snd r)) as (S1 & S2 & S3 & _).
    split; [eapply EG_ext; eauto|]. exists ks. etransitivity; [exact S3|exact H2].
  Qed.
  Lemma enter_SucE ep (s : esa) : SucE (inner P s) <-> SucE (inner P (enter ep s)).
  Proof. unfold SucE. cbn. tauto. Qed.

  (** ** process_acquire, process_expire *)
  Definition acquire_target (ep : endpoint) (my peer : Z) : option (endpoint * nat * esa) :=
    match find (fun x => Z.eqb (my_addr (co (inner P (snd x)))) my && Z.eqb (peer_addr (co (inner P (snd x)))) peer
                         && acquire_usable (state P (snd x)))
               (table ep) with
    | Some (cid, s) => Some (ep, cid, s)
    | None => match find_conf E ep my peer with
              | Some c => create E ep true (repeat 0%N 8) c my peer
              | None => None
              end
    end.
  (** the IkeSa that was created for this ACQUIRE: if the trigger started nothing (unknown policy index: it is still
      INITIAL) it is removed from the table again (/repo fix f21), otherwise it is kept like any other entry *)
  Definition acquire_fresh (ep0 : endpoint) (cid : nat) (s : esa) (a b : ts) (i : Z) : endpoint :=
    let r := process_trigger P (enter ep0 s) (ep_now E ep0) (E_acquire a b i) in
    if acquire_drop_unstarted (state P (snd (leave ep0 (fst r))))
    then send (with_table (fst (leave ep0 (fst r))) (remove_cid E (table (fst (leave ep0 (fst r)))) cid)) (snd r)
    else do_call ep0 cid r.
  Lemma acquire_eq ep my peer a b i :
    acquire E ep my peer a b i =
    match find (fun x => Z.eqb (my_addr (co (inner P (snd x)))) my && Z.eqb (peer_addr (co (inner P (snd x)))) peer
                         && acquire_usable (state P (snd x)))
               (table ep) with
    | Some (cid, s) => do_call ep cid (process_trigger P (enter ep s) (ep_now E ep) (E_acquire a b i))
    | None => match find_conf E ep my peer with
              | Some c => match create E ep true (repeat 0%N 8) c my peer with
                          | Some (ep0, cid, s) => acquire_fresh ep0 cid s a b i
                          | None => ep
                          end
              | None => ep
              end
    end.
  Proof.
    unfold acquire, acquire_fresh.
    match goal with |- context [find ?f (table ep)] => destruct (find f (table ep)) as [[cid s]|] end; cbv zeta.
    - destruct (process_trigger P (enter ep s) (ep_now E ep) (E_acquire a b i)) as [s2 reply].
      unfold do_call, put. cbn [fst snd andb]. destruct (leave ep s2) as [ep2 s3]. reflexivity.
    - destruct (find_conf E ep my peer) as [c|]; [|reflexivity].
      destruct (create E ep true (repeat 0%N 8) c my peer) as [[[ep0 cid] s]|]; [|reflexivity].
      destruct (process_trigger P (enter ep0 s) (ep_now E ep0) (E_acquire a b i)) as [s2 reply].
      unfold do_call, put. cbn [fst snd andb]. destruct (leave ep0 s2) as [ep2 s3]. cbn [fst snd].
      destruct (acquire_drop_unstarted (state P s3)); reflexivity.
  Qed.
  Definition acquire_ok (ep : endpoint) (my peer : Z) (a b : ts) (i : Z) : Prop :=
    match acquire_target ep my peer with
    | None => True
    | Some (ep0, cid, s) => trig_ok E (enter ep0 s) (E_acquire a b i)
    end.
  Lemma find_pair_in {A B} (p : A * B -> bool) l c s : find p l = Some (c, s) -> In (c, s) l.
  Proof. intros H. apply find_some in H. apply H. Qed.

  Lemma eg_trigger ep c (s : esa) ev :
    EG ep -> In (c, s) (table ep) -> trig_ok E (enter ep s) ev ->
    EG (do_call ep c (process_trigger P (enter ep s) (ep_now E ep) ev))
    /\ extends ep (do_call ep c (process_trigger P (enter ep s) (ep_now E ep) ev)).
  Proof.
    intros Hg Hin Hok. destruct (process_trigger_tr E (enter ep s) (ep_now E ep) ev Hok) as [H1 H2].
    eapply eg_do_call; [exact Hg|exact Hin|apply Trans_sila; exact H1|].
    intros H0. apply H2. apply enter_SucE. exact H0.
  Qed.

  Lemma eg_acquire ep my peer a b i :
    EG ep -> acquire_ok ep my peer a b i ->
    EG (acquire E ep my peer a b i) /\ extends ep (acquire E ep my peer a b i).
  Proof.
    intros Hg Hok. rewrite acquire_eq. unfold acquire_ok, acquire_target in *.
    match goal with |- context [find ?f (table ep)] => destruct (find f (table ep)) as [[cid s]|] eqn:Ef end.
    - apply eg_trigger; [exact Hg|eapply find_pair_in; exact Ef|exact Hok].
    - destruct (find_conf E ep my peer) as [c|]; [|split; [exact Hg|apply extends_refl]].
      destruct (create E ep true (repeat 0%N 8) c my peer) as [[[ep0 cid] s]|] eqn:Ec; [|split; [exact Hg|apply extends_refl]].
      destruct (eg_create _ _ _ _ _ _ _ _ _ Ec Hg) as (G0 & X0 & I0).
      unfold acquire_fresh. cbv zeta.
      set (r := process_trigger P (enter ep0 s) (ep_now E ep0) (E_acquire a b i)) in *.
      destruct (acquire_drop_unstarted (state P (snd (leave ep0 (fst r))))).
      2:{ destruct (eg_trigger ep0 cid s (E_acquire a b i) G0 I0 Hok) as [G1 X1].
          split; [exact G1|eapply extends_trans; eassumption]. }
      (* the trigger started nothing: no kernel operation (no trigger issues any), and the entry that is dropped is
         the one just created, which tracks nothing *)
      destruct (process_trigger_tr E (enter ep0 s) (ep_now E ep0) (E_acquire a b i) Hok) as [[(K1 & _) _] _]. fold r in K1.
      destruct (create_facts _ _ _ _ _ _ _ _ _ Ec) as (_ & _ & _ & _ & Hch & Hnew & _).
      destruct (enter_core ep0 s) as [_ C2]. rewrite C2 in K1.
      destruct (leave_facts ep0 (fst r)) as (_ & L2 & L3 & L4 & _). rewrite K1, app_nil_r in L2.
      set (ep2 := fst (leave ep0 (fst r))) in *.
      destruct (send_facts (with_table ep2 (remove_cid E (table ep2) cid)) (snd r)) as (S1 & S2 & S3 & _).
      destruct G0 as (G & A & C).
      split; [|eapply extends_trans; [exact X0|]; exists []; rewrite app_nil_r; etransitivity; [exact S3|exact L2]].
      split; [|split].
      + eapply TG_ext; [exact S1|exact S2|exact S3|]. unfold TG. intros Hf.
        change (TInv E (remove_cid E (table ep2) cid) (next_cid ep2) (apply_kops sd0 (ep_kops ep2))).
        change (faithful_run sd0 (ep_kops ep2)) in Hf. rewrite L2 in *. rewrite L3, L4.
        eapply tinv_remove_empty; [apply G; exact Hf|exact I0|].
        unfold tracked, tracked_keys. rewrite Hch, Hnew. reflexivity.
      + rewrite S1. change (table (with_table ep2 (remove_cid E (table ep2) cid))) with (remove_cid E (table ep2) cid).
        rewrite L3. apply AllE_remove. exact A.
      + rewrite S1, S2. change (table (with_table ep2 (remove_cid E (table ep2) cid))) with (remove_cid E (table ep2) cid).
        change (next_cid (with_table ep2 (remove_cid E (table ep2) cid))) with (next_cid ep2).
        rewrite L3, L4. apply cidok_remove. exact C.
  Qed.

  Lemma expire_eq ep spi hard :
    expire E ep spi hard =
    match find (fun x => owns_spi E spi (snd x)) (table ep) with
    | None => ep
    | Some (cid, s) => do_call ep cid (process_trigger P (enter ep s) (ep_now E ep) (E_expire spi hard))
    end.
  Proof.
    unfold expire. match goal with |- context [find ?f (table ep)] => destruct (find f (table ep)) as [[cid s]|] end; [|reflexivity].
    destruct (process_trigger P (enter ep s) (ep_now E ep) (E_expire spi hard)) as [s2 reply].
    unfold do_call, put. cbn [fst snd]. destruct (leave ep s2) as [ep2 s3]. reflexivity.
  Qed.
  Definition expire_ok (ep : endpoint) (spi : bytes) (hard : bool) : Prop :=
    match find (fun x => owns_spi E spi (snd x)) (table ep) with
    | None => True
    | Some (cid, s) => trig_ok E (enter ep s) (E_expire spi hard)
    end.
  Lemma eg_expire ep spi hard :
    EG ep -> expire_ok ep spi hard -> EG (expire E ep spi hard) /\ extends ep (expire E ep spi hard).
  Proof.
    intros Hg Hok. rewrite expire_eq. unfold expire_ok in Hok.
    match goal with |- context [find ?f (table ep)] => destruct (find f (table ep)) as [[cid s]|] eqn:Ef end; [|split; [exact Hg|apply extends_refl]].
    apply eg_trigger; [exact Hg|eapply find_pair_in; exact Ef|exact Hok].
  Qed.

  (** ** dispatch_message *)
  Definition handle (ep : endpoint) (cid : nat) (s : esa) (m : pmsg body) : endpoint :=
    let r := process_message P (enter ep s) m (ep_now E ep) in
    finish E (send (fst (leave ep (fst r))) (snd r)) cid (snd (leave ep (fst r))).
  Definition handle_ok (ep : endpoint) (cid : nat) (s : esa) (m : pmsg body) : Prop :=
    let r := process_message P (enter ep s) m (ep_now E ep) in
    msg_ok E (enter ep s) m (ep_now E ep)
    /\ finish_ok (send (fst (leave ep (fst r))) (snd r)) cid (snd (leave ep (fst r))).

  Lemma eg_handle ep cid (s : esa) m :
    EG ep -> In (cid, s) (table ep) -> handle_ok ep cid s m ->
    EG (handle ep cid s m) /\ extends ep (handle ep cid s m).
  Proof.
    intros (Hg & Ha & Hci) Hin [Hok1 Hok2]. unfold handle in *. cbv zeta in *.
    destruct (process_message_tr E (enter ep s) m (ep_now E ep) Hok1) as [Ht Hs].
    set (r := process_message P (enter ep s) m (ep_now E ep)) in *.
    destruct (leave_facts ep (fst r)) as (L1 & L2 & L3 & L4 & _).
    set (ep2 := fst (leave ep (fst r))) in *. set (s3 := snd (leave ep (fst r))) in *.
    destruct (send_facts ep2 (snd r)) as (S1 & S2 & S3 & _).
    set (ep3 := send ep2 (snd r)) in *.
    destruct (tg_call ep cid s (fst r) Hg Hin Ht) as [Hg' _].
    destruct (put_facts ep cid (fst r)) as (P1 & P2 & P3 & _).
    assert (Hcs : EW (inner P s)) by (eapply Ha; exact Hin).
    destruct (enter_core ep s) as [C1 _].
    assert (Hwf : WF (inner P s3)).
    { eapply same_core_WF; [exact L1|]. eapply trans_WF; [exact Ht|]. eapply same_core_WF; [exact C1|].
      apply EW_WF. exact Hcs. }
    assert (Hk : SucK (inner P s3)).
    { assert (Hk0 : SucK (inner P (fst r))) by (apply Hs; apply enter_SucE; apply EW_SucE; exact Hcs).
      destruct L1 as [La Lb]. intros n Hn. rewrite Lb in Hn. rewrite La. apply (Hk0 n Hn). }
    assert (Hin' : In cid (map fst (table ep3))).
    { rewrite S1, L3. apply in_map_iff. exists (cid, s). auto. }
    destruct (eg_finish ep3 cid s3) as [G1 [ks G2]]; try assumption.
    - eapply TG_ext; [| | |exact Hg'].
      + change (table (with_table ep3 (replace (table ep3) cid s3))) with (replace (table ep3) cid s3).
        rewrite S1, L3, P2. reflexivity.
      + change (next_cid (with_table ep3 (replace (table ep3) cid s3))) with (next_cid ep3). rewrite S2, L4, P3. reflexivity.
      + change (ep_kops (with_table ep3 (replace (table ep3) cid s3))) with (ep_kops ep3). rewrite S3, L2, P1. reflexivity.
    - rewrite S1, L3. exact Ha.
    - rewrite S1, S2, L3, L4. exact Hci.
    - split; [exact G1|]. exists (kops (inner P (fst r)) ++ ks). rewrite G2, S3, L2. symmetry. apply app_assoc.
  Qed.

  Lemma handle_unfold ep cid (s : esa) m :
    (let '(s2, reply) := process_message P (enter ep s) m (ep_now E ep) in
     let '(ep2, s3) := leave ep s2 in finish E (send ep2 reply) cid s3) = handle ep cid s m.
  Proof.
    unfold handle. destruct (process_message P (enter ep s) m (ep_now E ep)) as [s2 reply]. cbn [fst snd].
    destruct (leave ep s2) as [ep2 s3]. reflexivity.
  Qed.

  (** the same on the responder IkeSa that was just created for an IKE_SA_INIT request: if it ignored the request
      (it is still INITIAL) it is removed again, without the teardown (it has nothing) *)
  Definition handle_fresh (ep : endpoint) (cid : nat) (s : esa) (m : pmsg body) : endpoint :=
    let r := process_message P (enter ep s) m (ep_now E ep) in
    if Z.eqb (state P (snd (leave ep (fst r)))) ST_INITIAL
    then send (with_table (fst (leave ep (fst r))) (remove_cid E (table (fst (leave ep (fst r)))) cid)) (snd r)
    else handle ep cid s m.
  Definition handle_fresh_ok (ep : endpoint) (cid : nat) (s : esa) (m : pmsg body) : Prop :=
    let r := process_message P (enter ep s) m (ep_now E ep) in
    if Z.eqb (state P (snd (leave ep (fst r)))) ST_INITIAL then True else handle_ok ep cid s m.
  Lemma handle_fresh_unfold ep cid (s : esa) m :
    (let '(s2, reply) := process_message P (enter ep s) m (ep_now E ep) in
     let '(ep2, s3) := leave ep s2 in
     if Z.eqb (state P s3) ST_INITIAL
     then send (set (Endpoint.table E) (fun _ => remove_cid E (table ep2) cid) ep2) reply
     else finish E (send ep2 reply) cid s3) = handle_fresh ep cid s m.
  Proof.
    unfold handle_fresh, handle. destruct (process_message P (enter ep s) m (ep_now E ep)) as [s2 reply]. cbn [fst snd].
    destruct (leave ep s2) as [ep2 s3]. reflexivity.
  Qed.

  Lemma eg_handle_fresh ep cid (s : esa) m :
    EG ep -> In (cid, s) (table ep) -> st (co (inner P s)) = ST_INITIAL -> tracked (inner P s) = [] ->
    handle_fresh_ok ep cid s m ->
    EG (handle_fresh ep cid s m) /\ extends ep (handle_fresh ep cid s m).
  Proof.
    intros Hg Hin Hst Htr Hok. unfold handle_fresh, handle_fresh_ok in *. cbv zeta in *.
    set (r := process_message P (enter ep s) m (ep_now E ep)) in *.
    destruct (Z.eqb (state P (snd (leave ep (fst r)))) ST_INITIAL); [|apply eg_handle; assumption].
    destruct (process_message_initial E (enter ep s) m (ep_now E ep) Hst) as (K1 & _). fold r in K1.
    destruct (enter_core ep s) as [_ C2]. rewrite C2 in K1.
    destruct (leave_facts ep (fst r)) as (_ & L2 & L3 & L4 & _). rewrite K1, app_nil_r in L2.
    set (ep2 := fst (leave ep (fst r))) in *.
    destruct (send_facts (with_table ep2 (remove_cid E (table ep2) cid)) (snd r)) as (S1 & S2 & S3 & _).
    destruct Hg as (G & A & C).
    split; [|exists []; rewrite app_nil_r; etransitivity; [exact S3|exact L2]].
    split; [|split].
    - eapply TG_ext; [exact S1|exact S2|exact S3|]. unfold TG. intros Hf.
      change (TInv E (remove_cid E (table ep2) cid) (next_cid ep2) (apply_kops sd0 (ep_kops ep2))).
      change (faithful_run sd0 (ep_kops ep2)) in Hf. rewrite L2 in *. rewrite L3, L4.
      eapply tinv_remove_empty; [apply G; exact Hf|exact Hin|exact Htr].
    - rewrite S1. change (table (with_table ep2 (remove_cid E (table ep2) cid))) with (remove_cid E (table ep2) cid).
      rewrite L3. apply AllE_remove. exact A.
    - rewrite S1, S2. change (table (with_table ep2 (remove_cid E (table ep2) cid))) with (remove_cid E (table ep2) cid).
      change (next_cid (with_table ep2 (remove_cid E (table ep2) cid))) with (next_cid ep2).
      rewrite L3, L4. apply cidok_remove. exact C.
  Qed.

  Definition arm (ep0 : endpoint) (s0 : esa) : esa :=
    if dispatch_arm_cookie (halfopen E (table ep0))
    then with_inner P s0 (set co (fun _ => set cookie_secret (fun _ => Some (ep_cookie_secret E ep0)) (co (inner P s0))) (inner P s0))
    else s0.
  Definition routed (ep : endpoint) (cid : nat) : endpoint := set (Endpoint.ep_routed E) (fun _ => Some cid) ep.

  Definition dispatch_ok (ep : endpoint) (d : datagram) : Prop :=
    match d with
    | Dg_bad => True
    | Dg h my peer parsed =>
        if dispatch_is_init_request (h_exch h) (negb (h_resp h)) then
          match find_conf E ep my peer with
          | None => True
          | Some c =>
              match create E ep false (be_encode 8 (Z.to_N (h_spi_i h))) c my peer with
              | None => True
              | Some (ep0, cid, s0) =>
                  match parsed with
                  | None => True
                  | Some m => handle_fresh_ok (routed (with_table ep0 (replace (table ep0) cid (arm ep0 s0))) cid) cid (arm ep0 s0) m
                  end
              end
          end
        else
          match find (fun x => Z.eqb (my_spi P (snd x)) (dispatch_my_spi (h_init h) (h_spi_i h) (h_spi_r h))) (table ep) with
          | None => True
          | Some (cid, s) => match parsed with None => True | Some m => handle_ok (routed ep cid) cid s m end
          end
    end.

  Lemma arm_facts ep0 (s0 : esa) :
    SilA (inner P s0) (inner P (arm ep0 s0)) /\ kops (inner P (arm ep0 s0)) = kops (inner P s0)
    /\ new_sa (inner P (arm ep0 s0)) = new_sa (inner P s0)
    /\ children (co (inner P (arm ep0 s0))) = children (co (inner P s0)).
  Proof.
    unfold arm. destruct (dispatch_arm_cookie _); [|repeat split; try reflexivity; apply SilA_refl].
    split; [split; [unfold Sil1; cbn; repeat split; auto using nsame_refl|cbn; auto]|cbn; repeat split; reflexivity].
  Qed.

  Lemma eg_dispatch ep d :
    EG ep -> dispatch_ok ep d -> EG (dispatch E ep d) /\ extends ep (dispatch E ep d).
  Proof.
    intros Hg Hok. destruct d as [|h my peer parsed]; [split; [exact Hg|apply extends_refl]|].
    unfold dispatch, dispatch_ok in *.
    destruct (dispatch_is_init_request (h_exch h) (negb (h_resp h))).
    - destruct (find_conf E ep my peer) as [c|]; [|split; [exact Hg|apply extends_refl]].
      destruct (create E ep false (be_encode 8 (Z.to_N (h_spi_i h))) c my peer) as [[[ep0 cid] s0]|] eqn:Ec;
        [|split; [exact Hg|apply extends_refl]].
      destruct (eg_create _ _ _ _ _ _ _ _ _ Ec Hg) as ((G0 & A0 & C0) & X0 & I0).
      destruct (create_facts _ _ _ _ _ _ _ _ _ Ec) as (_ & _ & _ & _ & Hch & Hnew & _).
      fold (arm ep0 s0). set (s1 := arm ep0 s0) in *.
      destruct (arm_facts ep0 s0) as (F1 & F2 & F3 & F4). fold s1 in F1, F2, F3, F4.
      assert (Hk0 : kops (inner P s0) = []).
      { unfold create in Ec. destruct (new_core false _ _ _) as [[nc|e|] i1]; try discriminate Ec.
        injection Ec as _ _ <-. reflexivity. }
      set (ep1 := with_table ep0 (replace (table ep0) cid s1)).
      assert (G1 : EG ep1).
      { split; [|split; [cbn; apply AllE_replace; [exact A0|]|cbn; apply cidok_replace; exact C0]].
        - unfold TG. intros Hf.
          change (TInv E (replace (table ep0) cid s1) (next_cid ep0) (apply_kops sd0 (ep_kops ep0))).
          change (faithful_run sd0 (ep_kops ep0)) in Hf.
          replace (apply_kops sd0 (ep_kops ep0)) with (apply_kops (apply_kops sd0 (ep_kops ep0)) (kops (inner P s1)))
            by (rewrite F2, Hk0; reflexivity).
          eapply tinv_call; [apply G0; exact Hf|exact I0|split; reflexivity|exact Hk0|apply Trans_sila; exact F1|split; reflexivity|].
          rewrite F2, Hk0. exact Logic.I.
        - intros n Hn. rewrite F3, Hnew in Hn. discriminate Hn. }
      assert (I1 : In (cid, s1) (table ep1)).
      { cbn. apply In_replace_self. apply in_map_iff. exists (cid, s0). auto. }
      destruct parsed as [m|].
      + match goal with |- context [process_message P (enter ?e ?s) m _] =>
          rewrite (handle_fresh_unfold e cid s m);
          change (handle_fresh e cid s m) with (handle_fresh (routed ep1 cid) cid s1 m) end.
        destruct (create_facts _ _ _ _ _ _ _ _ _ Ec) as (_ & _ & _ & _ & _ & _ & Hst0).
        destruct (eg_handle_fresh (routed ep1 cid) cid s1 m) as [G2 X2];
          [eapply EG_ext; [| | |exact G1]; reflexivity|exact I1
          |unfold s1, arm; destruct (dispatch_arm_cookie _); exact Hst0
          |unfold tracked, tracked_keys; rewrite F3, F4, Hch, Hnew; reflexivity|exact Hok|].
        split; [exact G2|]. eapply extends_trans; [exact X0|]. destruct X2 as [ks X2]. exists ks. exact X2.
      + split; [|destruct X0 as [ks X0]; exists ks; exact X0].
        destruct G1 as (G1 & A1 & C1). split; [|split; [cbn; apply AllE_remove; exact A1|cbn; apply cidok_remove; exact C1]].
        unfold TG. intros Hf.
        change (TInv E (remove_cid E (table (routed ep1 cid)) cid) (next_cid ep1) (cursad ep1)).
        change (faithful_run sd0 (ep_kops ep1)) in Hf.
        eapply tinv_remove_empty; [apply G1; exact Hf|exact I1|].
        unfold tracked, tracked_keys. rewrite F3, F4, Hch, Hnew. reflexivity.
    - match goal with |- context [find ?f (table ep)] => destruct (find f (table ep)) as [[cid s]|] eqn:Ef end;
        [|split; [exact Hg|apply extends_refl]].
      destruct parsed as [m|]; [|split; [eapply EG_ext; [| | |exact Hg]; reflexivity|exists []; symmetry; apply app_nil_r]].
      match goal with |- context [process_message P (enter ?e s) m _] =>
        rewrite (handle_unfold e cid s m); change e with (routed ep cid) end.
      destruct (eg_handle (routed ep cid) cid s m) as [G2 [ks X2]];
        [eapply EG_ext; [| | |exact Hg]; reflexivity|eapply find_pair_in; exact Ef|exact Hok|].
      split; [exact G2|]. exists ks. exact X2.
  Qed.

  (** ** the timer sweeps *)
  Fixpoint rt_ok (fuel : nat) (i : nat) (ep : endpoint) : Prop :=
    match fuel with
    | O => True
    | S fuel' =>
        match nth_error (table ep) i with
        | None => True
        | Some (cid, s) =>
            let r := check_retransmission P (enter ep s) (ep_now E ep) in
            let ep2 := do_call ep cid r in
            let s2 := snd (leave ep (fst r)) in
            if dispatch_remove (state P s2) then td_ok ep2 s2 /\ rt_ok fuel' (S i) (teardown E ep2 cid s2)
            else rt_ok fuel' (S i) ep2
        end
    end.
  Lemma rt_loop_step fuel' i ep cid (s : esa) :
    nth_error (table ep) i = Some (cid, s) ->
    rt_loop E (S fuel') i ep =
    let r := check_retransmission P (enter ep s) (ep_now E ep) in
    let ep2 := do_call ep cid r in
    let s2 := snd (leave ep (fst r)) in
    if dispatch_remove (state P s2) then rt_loop E fuel' (S i) (teardown E ep2 cid s2) else rt_loop E fuel' (S i) ep2.
  Proof.
    intros Hn. cbn [rt_loop]. rewrite Hn.
    destruct (check_retransmission P (enter ep s) (ep_now E ep)) as [s1 o]. cbv zeta. cbn [fst snd].
    unfold do_call, put. cbn [fst snd]. destruct (leave ep s1) as [ep1 s2]. reflexivity.
  Qed.

  Lemma do_call_in ep c r :
    In c (map fst (table ep)) -> In (c, snd (leave ep (fst r))) (table (do_call ep c r)).
  Proof.
    intros Hin. unfold do_call. destruct (send_facts (put ep c (fst r)) (snd r)) as (S1 & _). rewrite S1.
    destruct (put_facts ep c (fst r)) as (_ & P2 & _). rewrite P2. apply In_replace_self. exact Hin.
  Qed.

  Lemma eg_rt fuel : forall i ep,
    EG ep -> rt_ok fuel i ep -> EG (rt_loop E fuel i ep) /\ extends ep (rt_loop E fuel i ep).
  Proof.
    induction fuel as [|fuel' IH]; intros i ep Hg Hok; [split; [exact Hg|apply extends_refl]|].
    cbn [rt_ok] in Hok. destruct (nth_error (table ep) i) as [[cid s]|] eqn:Hn.
    2:{ cbn [rt_loop]. rewrite Hn. split; [exact Hg|apply extends_refl]. }
    rewrite (rt_loop_step fuel' i ep cid s Hn). cbv zeta in *.
    set (r := check_retransmission P (enter ep s) (ep_now E ep)) in *.
    assert (Hin : In (cid, s) (table ep)) by (eapply nth_error_In; exact Hn).
    destruct (check_retransmission_tr E (enter ep s) (ep_now E ep)) as [H1 H2]. fold r in H1, H2.
    destruct (eg_do_call ep cid s r Hg Hin (Trans_sila _ _ H1)) as [G2 X2].
    { intros H0. eapply SucE_eq; [exact H2|]. apply enter_SucE. exact H0. }
    set (ep2 := do_call ep cid r) in *. set (s2 := snd (leave ep (fst r))) in *.
    destruct (dispatch_remove (state P s2)).
    - destruct Hok as [Hok1 Hok2].
      assert (Hin2 : In (cid, s2) (table ep2)).
      { apply do_call_in. apply in_map_iff. exists (cid, s). auto. }
      destruct (eg_teardown ep2 cid s2 G2 Hin2 Hok1) as [G3 X3].
      destruct (IH (S i) _ G3 Hok2) as [G4 X4]. split; [exact G4|].
      eapply extends_trans; [exact X2|]. eapply extends_trans; eassumption.
    - destruct (IH (S i) _ G2 Hok) as [G4 X4]. split; [exact G4|]. eapply extends_trans; eassumption.
  Qed.

  Fixpoint sweep_ok (f : esa -> Z -> esa * option (dgram body)) (cids : list nat) (ep : endpoint) : Prop :=
    match cids with
    | [] => True
    | cid :: r =>
        match find (fun x => Nat.eqb (fst x) cid) (table ep) with
        | None => sweep_ok f r ep
        | Some (_, s) =>
            nst (inner P (fst (f (enter ep s) (ep_now E ep))))
            /\ sweep_ok f r (do_call ep cid (f (enter ep s) (ep_now E ep)))
        end
    end.
  Lemma sweep_step f cid r ep c' (s : esa) :
    find (fun x => Nat.eqb (fst x) cid) (table ep) = Some (c', s) ->
    sweep E f (cid :: r) ep = sweep E f r (do_call ep cid (f (enter ep s) (ep_now E ep))).
  Proof.
    intros Hf. cbn [sweep]. rewrite Hf. destruct (f (enter ep s) (ep_now E ep)) as [s1 o].
    unfold do_call, put. cbn [fst snd]. destruct (leave ep s1) as [ep1 s2]. reflexivity.
  Qed.
  Lemma eg_sweep f :
    (forall (s : esa) now, nst (inner P (fst (f s now))) ->
       Trans (inner P s) (inner P (fst (f s now))) /\ (SucE (inner P s) -> SucE (inner P (fst (f s now))))) ->
    forall cids ep, EG ep -> sweep_ok f cids ep -> EG (sweep E f cids ep) /\ extends ep (sweep E f cids ep).
  Proof.
    intros Hf cids. induction cids as [|cid r IH]; intros ep Hg Hok; [split; [exact Hg|apply extends_refl]|].
    cbn [sweep_ok] in Hok.
    destruct (find (fun x => Nat.eqb (fst x) cid) (table ep)) as [[c' s]|] eqn:Ef.
    2:{ cbn [sweep]. rewrite Ef. apply IH; assumption. }
    rewrite (sweep_step f cid r ep c' s Ef). destruct Hok as [Hn Hok].
    assert (Hin : In (cid, s) (table ep)).
    { pose proof (find_some _ _ Ef) as [Hi He]. cbn in He. apply Nat.eqb_eq in He. subst c'. exact Hi. }
    destruct (Hf (enter ep s) (ep_now E ep) Hn) as [H1 H2].
    destruct (eg_do_call ep cid s (f (enter ep s) (ep_now E ep)) Hg Hin H1) as [G2 X2].
    { intros H0. apply H2. apply enter_SucE. exact H0. }
    destruct (IH _ G2 Hok) as [G3 X3]. split; [exact G3|eapply extends_trans; eassumption].
  Qed.

  Definition timers_ok (ep : endpoint) : Prop :=
    let ep1 := rt_loop E (S (length (table ep))) 0 ep in
    let ep2 := sweep E (check_dpd P) (map fst (table ep1)) ep1 in
    rt_ok (S (length (table ep))) 0 ep
    /\ sweep_ok (check_dpd P) (map fst (table ep1)) ep1
    /\ sweep_ok (check_lifetime P) (map fst (table ep2)) ep2.
  Lemma eg_timers ep : EG ep -> timers_ok ep -> EG (timers E ep) /\ extends ep (timers E ep).
  Proof.
    intros Hg (Hok1 & Hok2 & Hok3). unfold timers.
    destruct (eg_rt _ _ _ Hg Hok1) as [G1 X1].
    destruct (eg_sweep (check_dpd P)) with (cids := map fst (table (rt_loop E (S (length (table ep))) 0 ep)))
                                           (ep := rt_loop E (S (length (table ep))) 0 ep) as [G2 X2];
      [intros s now Hn; destruct (check_dpd_tr E s now Hn) as [A B]; split; [apply Trans_sila; exact A|exact B]
      |exact G1|exact Hok2|].
    destruct (eg_sweep (check_lifetime P)) with (cids := map fst (table (sweep E (check_dpd P) (map fst (table (rt_loop E (S (length (table ep))) 0 ep))) (rt_loop E (S (length (table ep))) 0 ep))))
                                                (ep := sweep E (check_dpd P) (map fst (table (rt_loop E (S (length (table ep))) 0 ep))) (rt_loop E (S (length (table ep))) 0 ep)) as [G3 X3];
      [intros s now Hn; destruct (check_lifetime_tr E s now Hn) as (A & B & _); split; assumption
      |exact G2|exact Hok3|].
    split; [exact G3|]. eapply extends_trans; [exact X1|]. eapply extends_trans; eassumption.
  Qed.

  (** ** one iteration of main_loop *)
  Definition start (ep : endpoint) (tnow : Z) (tp : list draw) : endpoint :=
    set (Endpoint.ep_status E) (fun _ => None)
     (set (Endpoint.ep_routed E) (fun _ => None)
      (set (Endpoint.ep_sent E) (fun _ => [])
         (set (Endpoint.ep_kops E) (fun _ => [])
            (set (Endpoint.ep_tape E) (fun _ => tp) (set (Endpoint.ep_now E) (fun _ => tnow) ep))))).
  Definition event_step (ep0 : endpoint) (e : event) : endpoint :=
    match e with
    | Ev_datagram d => dispatch E ep0 d
    | Ev_acquire my peer a b i => acquire E ep0 my peer a b i
    | Ev_expire spi hard => expire E ep0 spi hard
    | Ev_status => set (Endpoint.ep_status E) (fun _ => Some (map (fun x => Endpoint.status_of E (snd x)) (Endpoint.table E ep0))) ep0
    | Ev_none => ep0
    end.
  Lemma iteration_eq ep tnow tp e : iteration E ep tnow tp e = timers E (event_step (start ep tnow tp) e).
  Proof. reflexivity. Qed.
  Definition iter_ok (ep : endpoint) (tnow : Z) (tp : list draw) (e : event) : Prop :=
    match e with
    | Ev_datagram d => dispatch_ok (start ep tnow tp) d
    | Ev_acquire my peer a b i => acquire_ok (start ep tnow tp) my peer a b i
    | Ev_expire spi hard => expire_ok (start ep tnow tp) spi hard
    | Ev_status => True
    | Ev_none => True
    end /\ timers_ok (event_step (start ep tnow tp) e).

  Lemma eg_iteration ep tnow tp e :
    EG (start ep tnow tp) -> iter_ok ep tnow tp e -> EG (iteration E ep tnow tp e).
  Proof.
    intros Hg [Hok1 Hok2]. rewrite iteration_eq.
    assert (G1 : EG (event_step (start ep tnow tp) e)).
    { destruct e as [d|my peer a b i|spi hard| |]; cbn [event_step].
      - apply (eg_dispatch _ _ Hg Hok1).
      - apply (eg_acquire _ _ _ _ _ _ Hg Hok1).
      - apply (eg_expire _ _ _ Hg Hok1).
      - exact Hg.
      - exact Hg. }
    apply (eg_timers _ G1 Hok2).
  Qed.
End Controller.

(* ------------------------------------------------------------------------------------------------ *)
(** * F. One iteration, and every history *)

Section Whole.
  Variable E : env.
  Notation endpoint := (Endpoint.endpoint E).

  (** C10 for the whole daemon, one main_loop iteration (any event, then the three timer sweeps) *)
  Theorem iteration_sad (ep : endpoint) sd tnow tp e :
    EInv E ep sd -> iter_ok E ep tnow tp e ->
    faithful_run sd (ep_kops E (iteration E ep tnow tp e)) ->
    EInv E (iteration E ep tnow tp e) (apply_kops sd (ep_kops E (iteration E ep tnow tp e))).
  Proof.
    intros [Ht Ha] Hok Hf.
    assert (Hg : EG E sd (start E ep tnow tp)).
    { split; [intros _; exact Ht|]. split; [exact Ha|]. destruct Ht as (_ & _ & _ & _ & H1 & H2 & _). split; assumption. }
    destruct (eg_iteration E sd ep tnow tp e Hg Hok) as (G1 & G2 & _).
    split; [apply G1; exact Hf|exact G2].
  Qed.

  (** every history: the iterations are folded from any endpoint of the invariant (e.g. the empty table with an
      empty SAD); the verdicts of each iteration are faithful w.r.t. the SAD accumulated so far *)
  Definition step_in := (Z * list draw * event)%type.
  Fixpoint run (ep : endpoint) (evs : list step_in) : endpoint :=
    match evs with
    | [] => ep
    | (tnow, tp, e) :: r => run (iteration E ep tnow tp e) r
    end.
  Fixpoint run_sad (ep : endpoint) (sd : sad) (evs : list step_in) : sad :=
    match evs with
    | [] => sd
    | (tnow, tp, e) :: r =>
        run_sad (iteration E ep tnow tp e) (apply_kops sd (ep_kops E (iteration E ep tnow tp e))) r
    end.
  Fixpoint run_ok (ep : endpoint) (sd : sad) (evs : list step_in) : Prop :=
    match evs with
    | [] => True
    | (tnow, tp, e) :: r =>
        iter_ok E ep tnow tp e /\ faithful_run sd (ep_kops E (iteration E ep tnow tp e))
        /\ run_ok (iteration E ep tnow tp e) (apply_kops sd (ep_kops E (iteration E ep tnow tp e))) r
    end.

  Theorem run_inv evs : forall ep sd, EInv E ep sd -> run_ok ep sd evs -> EInv E (run ep evs) (run_sad ep sd evs).
  Proof.
    induction evs as [|[[tnow tp] e] r IH]; intros ep sd Hi Hok; cbn; [exact Hi|].
    destruct Hok as (H1 & H2 & H3). apply IH; [|exact H3]. apply iteration_sad; assumption.
  Qed.

  Lemma run_ok_app evs1 : forall evs2 ep sd, run_ok ep sd (evs1 ++ evs2) -> run_ok ep sd evs1.
  Proof.
    induction evs1 as [|[[tnow tp] e] r IH]; intros evs2 ep sd; cbn; [auto|].
    intros (H1 & H2 & H3). split; [exact H1|]. split; [exact H2|]. eapply IH. exact H3.
  Qed.

  Lemma einv_empty n cf sec tp now ko se ro su : EInv E (mk_ep E [] n cf sec tp now ko se ro su) [].
  Proof.
    split; [|intros c0 s []]. unfold TInv. cbn.
    split; [constructor|]. split; [intros k; tauto|]. split; [constructor|]. split; [intros c0 s []|].
    split; [constructor|]. split; [intros c0 []|intros c0 s []].
  Qed.

  (** after EVERY prefix of EVERY history from the empty table the kernel SAD is exactly the set of keys of the
      CHILD_SAs of the IkeSas in the table (and of their unregistered successors), no key twice *)
  Theorem history_inv cf sec evs1 evs2 :
    let ep0 := mk_ep E [] 0 cf sec [] 0 [] [] None None in
    run_ok ep0 [] (evs1 ++ evs2) -> EInv E (run ep0 evs1) (run_sad ep0 [] evs1).
  Proof.
    intros ep0 Hok. apply run_inv; [apply einv_empty|]. eapply run_ok_app. exact Hok.
  Qed.
End Whole.

(* ------------------------------------------------------------------------------------------------ *)
(** * G. Table clauses (C16) *)

Section TableClauses.
  Variable E : env.
  Notation P := (hdl_iface E).
  Notation endpoint := (Endpoint.endpoint E).
  Notation esa := (Endpoint.esa E).

  (** (a) creation indices are unique and below [next_cid] (part of the invariant) *)
  Theorem cids_unique (ep : endpoint) sd :
    EInv E ep sd -> NoDup (map fst (table E ep)) /\ forall c, In c (map fst (table E ep)) -> (c < next_cid E ep)%nat.
  Proof. intros [(_ & _ & _ & _ & H1 & H2 & _) _]. split; assumption. Qed.

  (** (d) what the dispatcher ignores: a datagram that is not an IKE message, an IKE_SA_INIT request from an
      unconfigured pair of addresses, a message for an unknown SPI - the endpoint is literally unchanged; a message
      for a known SPI whose full parse fails only records the routing *)
  Theorem dispatch_bad (ep : endpoint) : dispatch E ep Dg_bad = ep.
  Proof. reflexivity. Qed.
  Theorem dispatch_unknown_spi (ep : endpoint) h my peer parsed :
    dispatch_is_init_request (h_exch h) (negb (h_resp h)) = false ->
    find (fun x : nat * esa => Z.eqb (my_spi P (snd x)) (dispatch_my_spi (h_init h) (h_spi_i h) (h_spi_r h))) (table E ep) = None ->
    dispatch E ep (Dg h my peer parsed) = ep.
  Proof.
    intros H1 H2. unfold dispatch. rewrite H1. cbv zeta.
    match goal with |- context [find ?f ?l] => assert (Hx : find f l = None) by exact H2; rewrite Hx end. reflexivity.
  Qed.
  Theorem dispatch_unconfigured (ep : endpoint) h my peer parsed :
    dispatch_is_init_request (h_exch h) (negb (h_resp h)) = true -> find_conf E ep my peer = None ->
    dispatch E ep (Dg h my peer parsed) = ep.
  Proof. intros H1 H2. unfold dispatch. rewrite H1, H2. reflexivity. Qed.
  Theorem dispatch_unparsable (ep : endpoint) h my peer cid (s : esa) :
    dispatch_is_init_request (h_exch h) (negb (h_resp h)) = false ->
    find (fun x : nat * esa => Z.eqb (my_spi P (snd x)) (dispatch_my_spi (h_init h) (h_spi_i h) (h_spi_r h))) (table E ep)
      = Some (cid, s) ->
    dispatch E ep (Dg h my peer None) = routed E ep cid.
  Proof.
    intros H1 H2. unfold dispatch. rewrite H1. cbv zeta.
    match goal with |- context [find ?f ?l] => assert (Hx : find f l = Some (cid, s)) by exact H2; rewrite Hx end. reflexivity.
  Qed.

  (** (e) routing: a message that is not an IKE_SA_INIT request is processed (enter / process_message / leave /
      finish = [handle]) on the FIRST table entry whose my_spi is the one the header selects; an IKE_SA_INIT
      request on a freshly created entry with the next creation index *)
  Lemma find_first {A} (p : A -> bool) l x :
    find p l = Some x -> exists l1 l2, l = l1 ++ x :: l2 /\ p x = true /\ forall y, In y l1 -> p y = false.
  Proof.
    induction l as [|a r IH]; cbn; [discriminate|]. destruct (p a) eqn:Ea.
    - intros H. injection H as <-. exists [], r. repeat split; [exact Ea|intros y []].
    - intros H. destruct (IH H) as (l1 & l2 & -> & Hx & Hl). exists (a :: l1), l2. repeat split; [exact Hx|].
      intros y [<-|Hy]; [exact Ea|apply Hl; exact Hy].
  Qed.
  Theorem dispatch_routes (ep : endpoint) h my peer m cid (s : esa) :
    dispatch_is_init_request (h_exch h) (negb (h_resp h)) = false ->
    find (fun x : nat * esa => Z.eqb (my_spi P (snd x)) (dispatch_my_spi (h_init h) (h_spi_i h) (h_spi_r h))) (table E ep)
      = Some (cid, s) ->
    dispatch E ep (Dg h my peer (Some m)) = handle E (routed E ep cid) cid s m
    /\ exists t1 t2, table E ep = t1 ++ (cid, s) :: t2
                     /\ my_spi P s = dispatch_my_spi (h_init h) (h_spi_i h) (h_spi_r h)
                     /\ forall y, In y t1 -> my_spi P (snd y) <> dispatch_my_spi (h_init h) (h_spi_i h) (h_spi_r h).
  Proof.
    intros H1 H2. split.
    - unfold dispatch. rewrite H1. cbv zeta.
      match goal with |- context [find ?f ?l] => assert (Hx : find f l = Some (cid, s)) by exact H2; rewrite Hx end.
      apply (handle_unfold E (routed E ep cid) cid s m).
    - destruct (find_first _ _ _ H2) as (t1 & t2 & Ht & Hx & Hl). exists t1, t2. split; [exact Ht|].
      cbn in Hx. split; [apply Z.eqb_eq; exact Hx|]. intros y Hy. specialize (Hl y Hy). apply Z.eqb_neq. exact Hl.
  Qed.
  Theorem dispatch_init_request (ep : endpoint) h my peer m c ep0 cid (s0 : esa) :
    dispatch_is_init_request (h_exch h) (negb (h_resp h)) = true -> find_conf E ep my peer = Some c ->
    create E ep false (be_encode 8 (Z.to_N (h_spi_i h))) c my peer = Some (ep0, cid, s0) ->
    cid = next_cid E ep /\ table E ep0 = table E ep ++ [(cid, s0)]
    /\ dispatch E ep (Dg h my peer (Some m))
       = handle_fresh E (routed E (with_table E ep0 (Endpoint.replace E (table E ep0) cid (arm E ep0 s0))) cid) cid (arm E ep0 s0) m.
  Proof.
    intros H1 H2 H3. destruct (create_facts E _ _ _ _ _ _ _ _ _ H3) as (A & B & _).
    split; [exact A|]. split; [exact B|]. unfold dispatch. rewrite H1, H2, H3.
    match goal with |- context [process_message P (Endpoint.enter E ?e ?s) m _] => exact (handle_fresh_unfold E e cid s m) end.
  Qed.
  Lemma handle_fresh_def (ep : endpoint) cid (s : esa) m :
    handle_fresh E ep cid s m =
    if Z.eqb (state P (snd (leave E ep (fst (process_message P (enter E ep s) m (ep_now E ep)))))) ST_INITIAL
    then send E (with_table E (fst (leave E ep (fst (process_message P (enter E ep s) m (ep_now E ep)))))
                   (remove_cid E (table E (fst (leave E ep (fst (process_message P (enter E ep s) m (ep_now E ep)))))) cid))
                (snd (process_message P (enter E ep s) m (ep_now E ep)))
    else handle E ep cid s m.
  Proof. reflexivity. Qed.

  (** the fixed behaviour (/repo 73b0c79): an IKE_SA_INIT request that the fresh responder IkeSa ignores (it is still
      INITIAL after process_message: wrong Message ID, initiator flag clear, ...) leaves the table as it was, issues
      no kernel operation, and whatever process_message returned (nothing) is what is sent *)
  Lemma remove_replace_tc (t : list (nat * esa)) c (s : esa) :
    remove_cid E (Endpoint.replace E t c s) c = remove_cid E t c.
  Proof.
    induction t as [|[c0 x] r IH]; cbn; [reflexivity|]. destruct (Nat.eqb c0 c) eqn:Ec; cbn; rewrite Ec; [reflexivity|].
    f_equal. exact IH.
  Qed.
  Lemma remove_fresh (t : list (nat * esa)) cid (s : esa) :
    ~ In cid (map fst t) -> remove_cid E (t ++ [(cid, s)]) cid = t.
  Proof.
    intros Hn. induction t as [|[c0 x] r IH]; cbn; [rewrite Nat.eqb_refl; reflexivity|].
    destruct (Nat.eqb c0 cid) eqn:Ec; [apply Nat.eqb_eq in Ec; exfalso; apply Hn; left; exact Ec|].
    f_equal. apply IH. intros H. apply Hn. right. exact H.
  Qed.
  Theorem ignored_init_request_leaves_nothing (ep : endpoint) h my peer (m : pmsg body) c ep0 cid (s0 : esa) :
    (forall x, In x (map fst (table E ep)) -> (x < next_cid E ep)%nat) ->
    dispatch_is_init_request (h_exch h) (negb (h_resp h)) = true -> find_conf E ep my peer = Some c ->
    create E ep false (be_encode 8 (Z.to_N (h_spi_i h))) c my peer = Some (ep0, cid, s0) ->
    let ep1 := routed E (with_table E ep0 (Endpoint.replace E (table E ep0) cid (arm E ep0 s0))) cid in
    let r := process_message P (enter E ep1 (arm E ep0 s0)) m (ep_now E ep1) in
    state P (fst r) = ST_INITIAL ->
    table E (dispatch E ep (Dg h my peer (Some m))) = table E ep
    /\ ep_kops E (dispatch E ep (Dg h my peer (Some m))) = ep_kops E ep
    /\ ep_sent E (dispatch E ep (Dg h my peer (Some m))) = ep_sent E (send E ep (snd r)).
  Proof.
    intros Hlt H1 H2 H3 ep1 r Hst.
    destruct (dispatch_init_request ep h my peer m c ep0 cid s0 H1 H2 H3) as (A & B & ->).
    destruct (create_facts E _ _ _ _ _ _ _ _ _ H3) as (_ & _ & _ & Hk & _ & _ & Hst0).
    rewrite handle_fresh_def. fold ep1. fold r.
    destruct (leave_facts E ep1 (fst r)) as ([L0 _] & L2 & L3 & _).
    assert (Hs3 : Z.eqb (state P (snd (leave E ep1 (fst r)))) ST_INITIAL = true).
    { change (state P (snd (leave E ep1 (fst r)))) with (st (co (inner P (snd (leave E ep1 (fst r)))))).
      rewrite L0. change (st (co (inner P (fst r)))) with (state P (fst r)). rewrite Hst. reflexivity. }
    rewrite Hs3.
    assert (Hi : st (co (inner P (enter E ep1 (arm E ep0 s0)))) = ST_INITIAL).
    { unfold arm. destruct (dispatch_arm_cookie _); exact Hst0. }
    destruct (process_message_initial E (enter E ep1 (arm E ep0 s0)) m (ep_now E ep1) Hi) as (K1 & _). fold r in K1.
    destruct (send_facts E (with_table E (fst (leave E ep1 (fst r))) (remove_cid E (table E (fst (leave E ep1 (fst r)))) cid)) (snd r))
      as (S1 & _ & S3 & _).
    split; [|split].
    - rewrite S1. change (table E (with_table E (fst (leave E ep1 (fst r))) (remove_cid E (table E (fst (leave E ep1 (fst r)))) cid)))
        with (remove_cid E (table E (fst (leave E ep1 (fst r)))) cid).
      rewrite L3. change (table E ep1) with (Endpoint.replace E (table E ep0) cid (arm E ep0 s0)).
      rewrite remove_replace_tc, B. apply remove_fresh. intros Hin. apply Hlt in Hin. rewrite A in Hin. exact (Nat.lt_irrefl _ Hin).
    - rewrite S3. change (ep_kops E (with_table E (fst (leave E ep1 (fst r))) (remove_cid E (table E (fst (leave E ep1 (fst r)))) cid)))
        with (ep_kops E (fst (leave E ep1 (fst r)))).
      rewrite L2, K1. cbn. rewrite app_nil_r. exact Hk.
    - unfold send, leave. destruct (rek_push (inner P (fst r))); destruct (snd r); cbn; unfold create in H3;
        destruct (new_core false _ _ _) as [[nc|e|] i1]; try discriminate H3; injection H3 as <- _ _; reflexivity.
  Qed.
  (** the same for an ACQUIRE (/repo fix f21): the initiator IkeSa that was created for it and is still INITIAL after
      the trigger (unknown policy index: nothing was started) leaves the table as it was, no kernel operation was
      issued, and whatever process_trigger returned (nothing) is what is sent *)
  Theorem unstarted_acquire_leaves_nothing (ep : endpoint) my peer tsi tsr index c ep0 cid (s0 : esa) :
    (forall x, In x (map fst (table E ep)) -> (x < next_cid E ep)%nat) ->
    find (fun x : nat * esa => Z.eqb (my_addr (co (inner P (snd x)))) my && Z.eqb (peer_addr (co (inner P (snd x)))) peer
                               && acquire_usable (state P (snd x)))
         (table E ep) = None ->
    find_conf E ep my peer = Some c ->
    create E ep true (repeat 0%N 8) c my peer = Some (ep0, cid, s0) ->
    let r := process_trigger P (enter E ep0 s0) (ep_now E ep0) (E_acquire tsi tsr index) in
    state P (fst r) = ST_INITIAL ->
    table E (acquire E ep my peer tsi tsr index) = table E ep
    /\ ep_kops E (acquire E ep my peer tsi tsr index) = ep_kops E ep
    /\ ep_sent E (acquire E ep my peer tsi tsr index) = ep_sent E (send E ep (snd r)).
  Proof.
    intros Hlt H1 H2 H3 r Hst. rewrite acquire_eq.
    match goal with |- context [find ?f ?l] => assert (Hx : find f l = None) by exact H1; rewrite Hx end.
    rewrite H2, H3. unfold acquire_fresh. cbv zeta. fold r.
    destruct (create_facts E _ _ _ _ _ _ _ _ _ H3) as (A & B & _ & Hk & _ & _ & _).
    destruct (leave_facts E ep0 (fst r)) as ([L0 _] & L2 & L3 & _).
    assert (Hs3 : acquire_drop_unstarted (state P (snd (leave E ep0 (fst r)))) = true).
    { unfold acquire_drop_unstarted.
      change (state P (snd (leave E ep0 (fst r)))) with (st (co (inner P (snd (leave E ep0 (fst r)))))).
      rewrite L0. change (st (co (inner P (fst r)))) with (state P (fst r)). rewrite Hst. reflexivity. }
    rewrite Hs3.
    assert (Hn : nst (inner P (fst r))).
    { unfold nst. change (st (co (inner P (fst r)))) with (state P (fst r)). rewrite Hst. discriminate. }
    destruct (process_trigger_tr E (enter E ep0 s0) (ep_now E ep0) (E_acquire tsi tsr index)
                (trig_ok_of_nst E _ _ _ Hn)) as [[(K1 & _) _] _]. fold r in K1.
    destruct (enter_core E ep0 s0) as [_ C2]. rewrite C2 in K1.
    destruct (send_facts E (with_table E (fst (leave E ep0 (fst r))) (remove_cid E (table E (fst (leave E ep0 (fst r)))) cid)) (snd r))
      as (S1 & _ & S3 & _).
    split; [|split].
    - rewrite S1. change (table E (with_table E (fst (leave E ep0 (fst r))) (remove_cid E (table E (fst (leave E ep0 (fst r)))) cid)))
        with (remove_cid E (table E (fst (leave E ep0 (fst r)))) cid).
      rewrite L3, B. apply remove_fresh. intros Hin. apply Hlt in Hin. rewrite A in Hin. exact (Nat.lt_irrefl _ Hin).
    - rewrite S3. change (ep_kops E (with_table E (fst (leave E ep0 (fst r))) (remove_cid E (table E (fst (leave E ep0 (fst r)))) cid)))
        with (ep_kops E (fst (leave E ep0 (fst r)))).
      rewrite L2, K1. rewrite app_nil_r. exact Hk.
    - unfold send, leave. destruct (rek_push (inner P (fst r))); destruct (snd r); cbn; unfold create in H3;
        destruct (new_core true _ _ _) as [[nc|e|] i1]; try discriminate H3; injection H3 as <- _ _; reflexivity.
  Qed.
  Lemma handle_def (ep : endpoint) cid (s : esa) m :
    handle E ep cid s m =
    finish E (send E (fst (leave E ep (fst (process_message P (enter E ep s) m (ep_now E ep)))))
                     (snd (process_message P (enter E ep s) m (ep_now E ep))))
           cid (snd (leave E ep (fst (process_message P (enter E ep s) m (ep_now E ep))))).
  Proof. reflexivity. Qed.
  Lemma routed_of_dispatch_routes (ep : endpoint) cid : ep_routed E (routed E ep cid) = Some cid.
  Proof. reflexivity. Qed.
End TableClauses.


(* ------------------------------------------------------------------------------------------------ *)
(** * C16 (b), (c): an IkeSa that ended is not in the table; a successor is registered exactly once *)

(** a table entry between iterations: not DELETED, and once it is REKEYED / DEL_AFTER_REKEY_IKE_SA_REQ_SENT its
    successor has been registered ([new_sa] cleared) *)
Definition handed (z : Z) : Prop := z = ST_REKEYED \/ z = ST_DEL_AFTER_REKEY_IKE_SA_REQ_SENT.
Definition Qe (i : isa) : Prop := st (co i) <> ST_DELETED /\ (handed (st (co i)) -> new_sa i = None).
(** right after a message was processed: a successor waiting for registration is ESTABLISHED *)
Definition Rg (i : isa) : Prop := handed (st (co i)) -> forall nc, new_sa i = Some nc -> st nc = ST_ESTABLISHED.

Lemma Qe_same i j : same_core i j -> Qe i -> Qe j.
Proof. intros [A B] [H1 H2]. unfold Qe. rewrite A, B. auto. Qed.
Lemma Rg_same i j : same_core i j -> Rg i -> Rg j.
Proof. intros [A B] H. unfold Rg. rewrite A, B. exact H. Qed.
Lemma handed_cases z : handed z -> z <> ST_DELETED /\ z <> -1 /\ z <> ST_ESTABLISHED.
Proof. unfold handed. intros [->| ->]; repeat split; discriminate. Qed.

Section Reg.
  Variable E : env.

  Lemma ccsa_request_keeps m s :
    st (co s) <> ST_ESTABLISHED -> new_sa (snd (process_create_child_sa_request E m s)) = new_sa s.
  Proof.
    intros Hne. change (post (fun _ s' => new_sa s' = new_sa s) (process_create_child_sa_request E m s)).
    unfold process_create_child_sa_request.
    apply post_bind_check; intros Hmem; [|reflexivity].
    unfold get_payload. destruct (get_payloads m K_SA true) as [|psa rest]; [apply post_bind_raise; reflexivity|].
    apply post_bind_ret. unfold first_prop. destruct (sa_props psa) as [|p0 rest']; [apply post_bind_raise; reflexivity|].
    apply post_bind_ret.
    destruct (pr_proto p0 =? PROTO_IKE); [|apply post_keeps_new; [apply child_nego_req_new|auto]].
    apply post_bind_getc. unfold ike_rekey_while_busy.
    destruct (st (co s) =? ST_ESTABLISHED) eqn:Es; [apply Z.eqb_eq in Es; contradiction|].
    cbn. reflexivity.
  Qed.

  Lemma ccsa_request_reg m s :
    st (co s) = ST_ESTABLISHED -> st (co (snd (process_create_child_sa_request E m s))) = ST_REKEYED ->
    exists nc, new_sa (snd (process_create_child_sa_request E m s)) = Some nc /\ st nc = ST_ESTABLISHED.
  Proof.
    intros Hest.
    change (post (fun _ s' => st (co s') = ST_REKEYED -> exists nc, new_sa s' = Some nc /\ st nc = ST_ESTABLISHED)
                 (process_create_child_sa_request E m s)).
    pose proof (Tr_refl s) as Hc0.
    assert (Hleaf : forall a ks sx, Tr a ks sx -> st (co a) = ST_ESTABLISHED ->
              st (co sx) = ST_REKEYED -> exists nc, new_sa sx = Some nc /\ st nc = ST_ESTABLISHED).
    { intros a ks sx Hx Ha Hr. apply Tr_st in Hx. rewrite Hx, Ha in Hr. discriminate Hr. }
    unfold process_create_child_sa_request.
    step; [|name_cur Hx; apply (Hleaf _ _ _ Hx Hest)|name_cur Hx; apply (Hleaf _ _ _ Hx Hest)].
    step; [|name_cur Hx; apply (Hleaf _ _ _ Hx Hest)|name_cur Hx; apply (Hleaf _ _ _ Hx Hest)].
    step; [|name_cur Hx; apply (Hleaf _ _ _ Hx Hest)|name_cur Hx; apply (Hleaf _ _ _ Hx Hest)].
    name_cur Hx. match type of Hx with Tr _ _ ?y => rename y into sq end.
    pose proof (Tr_st _ _ _ Hx) as Hst1. clear Hx.
    destruct (pr_proto a1 =? PROTO_IKE).
    2:{ pose proof (child_nego_req_st E m sq) as Hk. unfold post. unfold ob_st in Hk. rewrite Hk, Hst1, Hest.
        intros H. discriminate H. }
    apply post_bind_getc.
    destruct (ike_rekey_while_busy _); [apply post_ret; rewrite Hst1, Hest; intros H; discriminate H|].
    eapply post_bind; [apply new_core_spec|]. intros r sn [Hs2 Hnc]. destruct r as [nc|e|].
    2:{ destruct Hs2 as (_ & _ & _ & _ & A & _). rewrite A, Hst1, Hest. intros H. discriminate H. }
    2:{ destruct Hs2 as (_ & _ & _ & _ & A & _). rewrite A, Hst1, Hest. intros H. discriminate H. }
    apply post_bind_modify.
    match goal with |- post _ (_ ?S0) => set (S := S0) end.
    assert (HS : st (co S) = ST_ESTABLISHED).
    { destruct Hs2 as (_ & _ & _ & _ & A & _). subst S. cbn. congruence. }
    assert (HnS : new_sa S = Some nc) by reflexivity.
    clearbody S. pose proof (Tr_refl S) as Hc1.
    step; [|name_cur Hx; apply (Hleaf _ _ _ Hx HS)|name_cur Hx; apply (Hleaf _ _ _ Hx HS)].
    step; [|name_cur Hx; apply (Hleaf _ _ _ Hx HS)|name_cur Hx; apply (Hleaf _ _ _ Hx HS)].
    apply post_bind_modify. apply post_ret.
    name_cur Hc3. match type of Hc3 with Tr _ _ ?x => rename x into s5 end.
    destruct Hc3 as [_ (_ & _ & _ & _ & B5)]. rewrite HnS in B5.
    destruct (new_sa s5) as [n|] eqn:En; [|contradiction].
    intros _. cbn. rewrite ?En. cbn. eexists. split; reflexivity.
  Qed.

  Lemma ccsa_response_keeps m s :
    st (co s) <> ST_REK_IKE_SA_REQ_SENT -> new_sa (snd (process_create_child_sa_response E m s)) = new_sa s.
  Proof.
    intros Hne. change (post (fun _ s' => new_sa s' = new_sa s) (process_create_child_sa_response E m s)).
    unfold process_create_child_sa_response.
    apply post_bind_check; intros Hmem; [|reflexivity].
    unfold abort_on_error_notifies. destruct (existsb _ _); [apply post_bind_raise; reflexivity|].
    apply post_bind_ret. apply post_bind_getc.
    destruct (st (co s) =? ST_REK_IKE_SA_REQ_SENT) eqn:Es; [apply Z.eqb_eq in Es; contradiction|].
    apply post_keeps_new; [|auto].
    destruct (nonempty _); [keeps_go|]. keeps_go. apply child_res_guarded_new.
    keeps_go; auto using gen_delete_child_new.
  Qed.

  Lemma ccsa_response_reg m s :
    st (co s) = ST_REK_IKE_SA_REQ_SENT ->
    st (co (snd (process_create_child_sa_response E m s))) = ST_DEL_AFTER_REKEY_IKE_SA_REQ_SENT ->
    exists nc, new_sa (snd (process_create_child_sa_response E m s)) = Some nc /\ st nc = ST_ESTABLISHED.
  Proof.
    intros H13.
    change (post (fun _ s' => st (co s') = ST_DEL_AFTER_REKEY_IKE_SA_REQ_SENT ->
                              exists nc, new_sa s' = Some nc /\ st nc = ST_ESTABLISHED)
                 (process_create_child_sa_response E m s)).
    pose proof (Tr_refl s) as Hc0.
    assert (Hleaf : forall a ks sx z, Tr a ks sx -> st (co a) = z -> z <> ST_DEL_AFTER_REKEY_IKE_SA_REQ_SENT ->
              st (co sx) = ST_DEL_AFTER_REKEY_IKE_SA_REQ_SENT -> exists nc, new_sa sx = Some nc /\ st nc = ST_ESTABLISHED).
    { intros a ks sx z Hx Ha Hz Hr. apply Tr_st in Hx. exfalso. apply Hz. congruence. }
    assert (N13 : ST_REK_IKE_SA_REQ_SENT <> ST_DEL_AFTER_REKEY_IKE_SA_REQ_SENT) by discriminate.
    assert (N10 : ST_ESTABLISHED <> ST_DEL_AFTER_REKEY_IKE_SA_REQ_SENT) by discriminate.
    unfold process_create_child_sa_response.
    step; [|name_cur Hx; apply (Hleaf _ _ _ _ Hx H13 N13)|name_cur Hx; apply (Hleaf _ _ _ _ Hx H13 N13)].
    step; [|name_cur Hx; apply (Hleaf _ _ _ _ Hx H13 N13)|name_cur Hx; apply (Hleaf _ _ _ _ Hx H13 N13)].
    apply post_bind_getc.
    name_cur Hx. match type of Hx with Tr _ _ ?y => rename y into sq end.
    pose proof (Tr_st _ _ _ Hx) as Hst0. clear Hx. rewrite Hst0, H13. cbn [Z.eqb Pos.eqb ST_REK_IKE_SA_REQ_SENT].
    change (13 =? 13) with true. cbv iota.
    pose proof (Tr_refl sq) as Hc1. assert (Hq : st (co sq) = ST_REK_IKE_SA_REQ_SENT) by congruence.
    destruct (nonempty (get_notifies m N_INVALID_KE_PAYLOAD true)).
    { repeat (step; try (name_cur Hx; apply (Hleaf _ _ _ _ Hx Hq N13))). }
    destruct (nonempty (get_notifies m N_TEMPORARY_FAILURE true)).
    { unfold set_state. apply post_bind_modc.
      match goal with |- post _ (_ ?S0) => set (S := S0) end.
      assert (HS : st (co S) = ST_ESTABLISHED) by reflexivity. clearbody S. clear Hc1. pose proof (Tr_refl S) as Hc1.
      repeat (step; try (name_cur Hx; apply (Hleaf _ _ _ _ Hx HS N10))). }
    destruct (nonempty (get_notifies m N_NO_ADDITIONAL_SAS true)).
    { unfold post. cbn. intros H. discriminate H. }
    apply post_bind_getw_true; [intros n Hn|intros _; apply (Hleaf _ _ _ _ Hc1 Hq N13)].
    step; [|name_cur Hx; apply (Hleaf _ _ _ _ Hx Hq N13)|name_cur Hx; apply (Hleaf _ _ _ _ Hx Hq N13)].
    step; [|name_cur Hx; apply (Hleaf _ _ _ _ Hx Hq N13)|name_cur Hx; apply (Hleaf _ _ _ _ Hx Hq N13)].
    step; [|name_cur Hx; apply (Hleaf _ _ _ _ Hx Hq N13)|name_cur Hx; apply (Hleaf _ _ _ _ Hx Hq N13)].
    step; [|name_cur Hx; apply (Hleaf _ _ _ _ Hx Hq N13)|name_cur Hx; apply (Hleaf _ _ _ _ Hx Hq N13)].
    apply post_bind_modify.
    name_cur Hc3. match type of Hc3 with Tr _ _ ?x => rename x into s5 end.
    destruct Hc3 as [_ (_ & _ & _ & _ & B5)]. rewrite Hn in B5.
    destruct (new_sa s5) as [n5|] eqn:En; [|contradiction].
    unfold post. cbn. rewrite ?En. cbn. intros _. eexists. split; reflexivity.
  Qed.
End Reg.

Section RegShell.
  Variable E : env.
  Notation P := (hdl_iface E).
  Notation sa := (Shell.sa P).

  Lemma Qe_clear s : Qe s -> Qe (clear_flags s).
  Proof. intros H. exact H. Qed.
  Lemma Qe_Rg s : Qe s -> Rg s.
  Proof. intros [_ H] Hh nc Hn. rewrite (H Hh) in Hn. discriminate Hn. Qed.
  Lemma rg_of cs s' :
    Qe cs -> new_sa s' = new_sa cs -> (handed (st (co s')) -> st (co s') = st (co cs)) -> Rg s'.
  Proof.
    intros [_ H] Hn Hst Hh nc Hnc. specialize (Hst Hh). rewrite Hst in Hh. rewrite Hn, (H Hh) in Hnc. discriminate Hnc.
  Qed.
  Lemma Rg_stuck s : Rg (stuck_state s).
  Proof. intros Hh. cbn in Hh. destruct Hh as [Hh|Hh]; discriminate Hh. Qed.
  Lemma Qe_stuck s : Qe (stuck_state s).
  Proof. split; cbn; [discriminate|]. intros [Hh|Hh]; discriminate Hh. Qed.
  Lemma Rg_deleted i : Rg (i <| co := (co i) <| st := ST_DELETED |> |>).
  Proof. intros Hh. cbn in Hh. destruct Hh as [Hh|Hh]; discriminate Hh. Qed.

  Ltac hand_tac :=
    unfold handed in *; intros; cbn in *;
    repeat match goal with H : _ /\ _ |- _ => destruct H | H : _ \/ _ |- _ => destruct H end;
    try congruence; try (exfalso; st_lia).

  Lemma h_request_rg s m : Qe s -> Rg (fst (h_request E s m)).
  Proof.
    intros Hq. apply (h_request_post2 E s m (fun s' _ => Rg s')); [intros _; apply Qe_Rg; exact Hq|].
    intros f Hf. unfold request_handler in Hf. pose proof (Qe_clear s Hq) as Hc.
    destruct (Z.eqb (h_exch (p_hdr m)) EX_IKE_SA_INIT).
    { injection Hf as <-. pose proof (init_request_exits E m (clear_flags s)) as H1. pose proof (init_request_new E m (clear_flags s)) as H2.
      unfold wp, ob_new in *. destruct (process_ike_sa_init_request E m (clear_flags s)) as [[a|e|] s1]; cbn in *; intros b;
        try apply Rg_stuck; apply (rg_of (clear_flags s)); auto; hand_tac. }
    destruct (Z.eqb (h_exch (p_hdr m)) EX_IKE_AUTH).
    { injection Hf as <-. pose proof (auth_request_exits E m (clear_flags s)) as H1. pose proof (auth_request_new E m (clear_flags s)) as H2.
      unfold wp, ob_new in *. destruct (process_ike_auth_request E m (clear_flags s)) as [[a|e|] s1]; cbn in *; intros b;
        try apply Rg_stuck; apply (rg_of (clear_flags s)); auto; hand_tac. }
    destruct (Z.eqb (h_exch (p_hdr m)) EX_INFORMATIONAL).
    { injection Hf as <-. pose proof (info_request_exits m (clear_flags s)) as H1. pose proof (info_request_new m (clear_flags s)) as H2.
      unfold wp, ob_new in *. destruct (process_informational_request m (clear_flags s)) as [[a|e|] s1]; cbn in *; intros b;
        try apply Rg_stuck; apply (rg_of (clear_flags s)); auto; hand_tac. }
    destruct (Z.eqb (h_exch (p_hdr m)) EX_CREATE_CHILD_SA); [|discriminate Hf].
    injection Hf as <-. pose proof (ccsa_request_exits E m (clear_flags s)) as H1.
    pose proof (ccsa_request_keeps E m (clear_flags s)) as H2. pose proof (ccsa_request_reg E m (clear_flags s)) as H3.
    unfold wp in *.
    assert (Hr : fst (process_create_child_sa_request E m (clear_flags s)) <> Stuck -> Rg (snd (process_create_child_sa_request E m (clear_flags s)))).
    { intros _. destruct H1 as [H1|(H1 & H1' & _)].
      - intros Hh nc Hn. rewrite H1 in Hh. destruct Hc as [_ Hc]. rewrite H2, (Hc Hh) in Hn; [discriminate Hn|].
        intros He. rewrite He in Hh. destruct Hh as [Hh|Hh]; discriminate Hh.
      - intros _ nc Hn. destruct (H3 H1 H1') as (nc' & Hn' & Hs). congruence. }
    destruct (process_create_child_sa_request E m (clear_flags s)) as [[a|e|] s1]; cbn in *; intros b;
      try apply Rg_stuck; apply Hr; discriminate.
  Qed.

  Lemma h_response_rg s m : Qe s -> Rg (fst (h_response E s m)).
  Proof.
    intros Hq. apply (h_response_post2 E s m (fun s' _ => Rg s')); [intros _; apply Qe_Rg; exact Hq|].
    intros f Hf. unfold response_handler in Hf. pose proof (Qe_clear s Hq) as Hc.
    destruct (Z.eqb (h_exch (p_hdr m)) EX_IKE_SA_INIT).
    { injection Hf as <-. pose proof (init_response_exits E m (clear_flags s)) as H1. pose proof (init_response_new E m (clear_flags s)) as H2.
      unfold wp, ob_new in *. destruct (process_ike_sa_init_response E m (clear_flags s)) as [[a|e|] s1]; cbn in *; [intros n b| |];
        try apply Rg_stuck; apply (rg_of (clear_flags s)); auto; hand_tac. }
    destruct (Z.eqb (h_exch (p_hdr m)) EX_IKE_AUTH).
    { injection Hf as <-. pose proof (auth_response_exits E m (clear_flags s)) as H1. pose proof (auth_response_new E m (clear_flags s)) as H2.
      unfold wp, ob_new in *. destruct (process_ike_auth_response E m (clear_flags s)) as [[a|e|] s1]; cbn in *; [intros n b| |];
        try apply Rg_stuck; apply (rg_of (clear_flags s)); auto; hand_tac. }
    destruct (Z.eqb (h_exch (p_hdr m)) EX_CREATE_CHILD_SA).
    { injection Hf as <-. pose proof (ccsa_response_exits E m (clear_flags s)) as H1.
      pose proof (ccsa_response_keeps E m (clear_flags s)) as H2. pose proof (ccsa_response_reg E m (clear_flags s)) as H3.
      unfold wp in *.
      assert (Hr : Rg (snd (process_create_child_sa_response E m (clear_flags s)))).
      { intros Hh nc Hn.
        destruct (Z.eq_dec (st (co (clear_flags s))) ST_REK_IKE_SA_REQ_SENT) as [H13|H13].
        - destruct H1 as [H1|[H1|H1]].
          + rewrite H1, H13 in Hh. destruct Hh as [Hh|Hh]; discriminate Hh.
          + exfalso. clear - H1 H13. st_lia.
          + destruct H1 as (_ & [H1|[H1|H1]]); try (rewrite H1 in Hh; destruct Hh as [Hh|Hh]; discriminate Hh).
            destruct (H3 H13 H1) as (nc' & Hn' & Hs). congruence.
        - rewrite (H2 H13) in Hn. destruct H1 as [H1|[H1|H1]].
          + rewrite H1 in Hh. destruct Hc as [_ Hc]. rewrite (Hc Hh) in Hn. discriminate Hn.
          + exfalso. clear - H1 Hh. hand_tac.
          + destruct H1 as (H1 & _). contradiction. }
      destruct (process_create_child_sa_response E m (clear_flags s)) as [[a|e|] s1]; cbn in *; [intros n b| |];
        try apply Rg_stuck; exact Hr. }
    destruct (Z.eqb (h_exch (p_hdr m)) EX_INFORMATIONAL); [|discriminate Hf].
    injection Hf as <-. pose proof (info_response_exits m (clear_flags s)) as H1. pose proof (info_response_new m (clear_flags s)) as H2.
    unfold wp, ob_new in *. destruct (process_informational_response m (clear_flags s)) as [[a|e|] s1]; cbn in *; [intros n b| |];
      try apply Rg_stuck; apply (rg_of (clear_flags s)); auto; hand_tac.
  Qed.
End RegShell.

Section RegShell2.
  Variable E : env.
  Notation P := (hdl_iface E).
  Notation sa := (Shell.sa P).

  Lemma h_trigger_q s e : Qe s -> Qe (fst (h_trigger s e)).
  Proof.
    intros [Q1 Q2]. pose proof (h_trigger_exit s e) as Hx. pose proof (h_trigger_suc s e) as _.
    assert (Hn : st (co (fst (h_trigger s e))) = -1 \/ new_sa (fst (h_trigger s e)) = new_sa s).
    { unfold h_trigger.
      assert (Hk : keeps ob_new (match e with E_acquire a b i => process_acquire a b i | E_expire spi h => process_expire spi h end))
        by (destruct e; [apply acquire_new|apply expire_new]).
      pose proof (Hk (clear_flags s)) as Heq. unfold ob_new in Heq.
      destruct ((match e with E_acquire a b i => process_acquire a b i | E_expire spi h => process_expire spi h end)
                  (clear_flags s)) as [[[[x ps]|]|e'|] s']; cbn in *; auto. }
    unfold trigger_exit, STUCK in Hx. split.
    - intros Hd. rewrite Hd in Hx. destruct Hx as [Hx|[Hx|[(_ & Hx)|(_ & [Hx|[Hx|Hx]])]]]; try discriminate Hx.
      apply Q1. symmetry. exact Hx.
    - intros Hh. destruct Hn as [Hn|Hn]; [rewrite Hn in Hh; destruct Hh as [Hh|Hh]; discriminate Hh|].
      rewrite Hn. apply Q2.
      destruct Hx as [Hx|[Hx|[(_ & Hx)|(_ & [Hx|[Hx|Hx]])]]]; rewrite Hx in Hh; try exact Hh;
        destruct Hh as [Hh|Hh]; discriminate Hh.
  Qed.

  Lemma process_trigger_q (s : sa) now e : Qe (inner P s) -> Qe (inner P (fst (process_trigger P s now e))).
  Proof.
    intros Hq. unfold process_trigger.
    destruct (if ev_is_acquire P e then acquire_must_queue (state P s) else expire_must_queue (state P s)); [exact Hq|].
    change (handle_trigger P (inner P s) e) with (h_trigger (inner P s) e).
    pose proof (h_trigger_q (inner P s) e Hq) as H.
    destruct (h_trigger (inner P s) e) as [i' r]. destruct r as [[x b]|]; exact H.
  Qed.
  Lemma run_pending_q evs now : forall s : sa, Qe (inner P s) -> Qe (inner P (fst (run_pending P evs s now))).
  Proof.
    induction evs as [|e rest IH]; intros s Hq; cbn [run_pending]; [exact Hq|].
    pose proof (process_trigger_q (set_pending P s (tl (pending P s))) now e Hq) as H.
    destruct (process_trigger P (set_pending P s (tl (pending P s))) now e) as [s1 r]. cbn [fst] in H.
    destruct r as [d|]; [exact H|apply IH; exact H].
  Qed.

  Lemma process_request_rg (s : sa) m : Qe (inner P s) -> Rg (inner P (fst (process_request P s m))).
  Proof.
    intros Hq. unfold process_request.
    destruct (req_is_retransmission _ _ _); [apply Qe_Rg; exact Hq|].
    destruct (req_id_unexpected _ _ _); [apply Qe_Rg; exact Hq|].
    destruct (negb _); [apply Qe_Rg; exact Hq|].
    change (handle_request P (inner P s) m) with (h_request E (inner P s) m).
    pose proof (h_request_rg E (inner P s) m Hq) as H.
    destruct (h_request E (inner P s) m) as [i' out]. destruct out as [b|b]; cbn; [exact H|apply Rg_deleted].
  Qed.
  Lemma process_response_rg (s : sa) m now : Qe (inner P s) -> Rg (inner P (fst (process_response P s m now))).
  Proof.
    intros Hq. unfold process_response.
    destruct (res_id_unexpected _ _ _); [apply Qe_Rg; exact Hq|].
    destruct (negb _); [apply Qe_Rg; exact Hq|].
    change (inner P (set_my_id P s (my_id P s + 1))) with (inner P s).
    change (handle_response P (inner P s) m) with (h_response E (inner P s) m).
    pose proof (h_response_rg E (inner P s) m Hq) as H.
    destruct (h_response E (inner P s) m) as [i' out]. cbn [fst] in H.
    destruct out as [[[x body]|] reset|]; [destruct reset; exact H| |apply Rg_deleted].
    set (s2 := if reset then _ else _).
    assert (H2 : inner P s2 = i') by (unfold s2; destruct reset; reflexivity).
    destruct (Z.eqb (state P s2) ST_ESTABLISHED) eqn:He; [|cbn [fst]; rewrite H2; exact H].
    apply Z.eqb_eq in He.
    pose proof (run_pending_from E (pending P s2) now s2) as [_ Hr]. specialize (Hr He).
    intros Hh. exfalso. change (Shell.state P (fst (run_pending P (pending P s2) s2 now)))
      with (st (co (inner P (fst (run_pending P (pending P s2) s2 now))))) in Hr.
    unfold after_established, STUCK in Hr. unfold handed in Hh.
    destruct Hr as [Hr|[Hr|[Hr|[Hr|Hr]]]]; rewrite Hr in Hh; destruct Hh as [Hh|Hh]; discriminate Hh.
  Qed.
  Lemma process_message_rg (s : sa) m now : Qe (inner P s) -> Rg (inner P (fst (process_message P s m now))).
  Proof.
    intros Hq. unfold process_message. cbv zeta.
    destruct (process_message_decision _ _ _ _ _ _ _ _ _ _ _ _ _ _) as [reset ret].
    set (s0 := if reset then _ else _).
    assert (H0 : inner P s0 = inner P s) by (unfold s0; destruct reset; reflexivity).
    destruct ret; cbn [fst].
    - rewrite H0. apply Qe_Rg. exact Hq.
    - rewrite H0. apply Qe_Rg. exact Hq.
    - apply process_request_rg. rewrite H0. exact Hq.
    - apply process_response_rg. rewrite H0. exact Hq.
  Qed.

  Lemma check_retransmission_q (s : sa) now :
    Qe (inner P s) ->
    Qe (inner P (fst (check_retransmission P s now))) \/ state P (fst (check_retransmission P s now)) = ST_DELETED.
  Proof.
    intros Hq. unfold check_retransmission.
    destruct (rt_states _); [|left; exact Hq]. destruct (rt_due _ _); [|left; exact Hq].
    destruct (rt_giveup _); [right; reflexivity|left; exact Hq].
  Qed.
  Lemma gen_q (i i' : isa) : st (co i') <> ST_DELETED -> ~ handed (st (co i')) -> Qe i'.
  Proof. intros H1 H2. split; [exact H1|]. intros H. contradiction. Qed.
  Lemma check_dpd_q (s : sa) now : Qe (inner P s) -> Qe (inner P (fst (check_dpd P s now))).
  Proof.
    intros Hq. unfold check_dpd. destruct (dpd_due _ _ _) eqn:Hd; [|exact Hq].
    assert (H10 : st (co (inner P s)) = ST_ESTABLISHED).
    { unfold dpd_due in Hd. change (state P s) with (st (co (inner P s))) in Hd. lia. }
    pose proof (gen_dpd_exit (inner P s) H10) as Hg.
    change (gen_dpd P (inner P s)) with (lift_gen generate_dpd_request (inner P s)).
    destruct (lift_gen generate_dpd_request (inner P s)) as [i' [x b]]. cbn in *.
    apply (gen_q i'); rewrite Hg; [discriminate|]. intros [H|H]; discriminate H.
  Qed.
  Lemma check_lifetime_q (s : sa) now : Qe (inner P s) -> Qe (inner P (fst (check_lifetime P s now))).
  Proof.
    intros Hq. unfold check_lifetime. destruct (Z.eqb (state P s) ST_ESTABLISHED) eqn:Hs; [|exact Hq].
    assert (H10 : st (co (inner P s)) = ST_ESTABLISHED).
    { change (state P s) with (st (co (inner P s))) in Hs. lia. }
    destruct (life_delete_due _ _).
    - pose proof (gen_delete_ike_exit (inner P s) H10) as Hg.
      change (gen_delete_ike P (inner P s)) with (lift_gen generate_delete_ike_sa_request (inner P s)).
      destruct (lift_gen generate_delete_ike_sa_request (inner P s)) as [i' [x b]]. cbn in *.
      apply (gen_q i'); rewrite Hg; [discriminate|]. intros [H|H]; discriminate H.
    - destruct (life_rekey_due _ _); [|exact Hq].
      pose proof (gen_rekey_ike_exit (inner P s) H10) as Hg. cbv zeta in Hg.
      change (gen_rekey_ike P (inner P s)) with (lift_gen generate_rekey_ike_sa_request (inner P s)).
      destruct (lift_gen generate_rekey_ike_sa_request (inner P s)) as [i' [x b]]. cbn in *.
      unfold STUCK in Hg. apply (gen_q i'); destruct Hg as [Hg|Hg]; rewrite Hg; try discriminate;
        intros [H|H]; discriminate H.
  Qed.
End RegShell2.

Section RegEndpoint.
  Variable E : env.
  Notation P := (hdl_iface E).
  Notation esa := (Endpoint.esa E).
  Notation endpoint := (Endpoint.endpoint E).
  Notation table := (Endpoint.table E).

  Definition AllQ (t : list (nat * esa)) : Prop := forall c s, In (c, s) t -> Qe (inner P s).

  Lemma AllQ_replace t c (s' : esa) : AllQ t -> Qe (inner P s') -> AllQ (Endpoint.replace E t c s').
  Proof.
    intros Ha Hs c1 s1 Hin. destruct (In_replace E _ _ _ _ _ Hin) as [[_ ->]|H]; [exact Hs|eapply Ha; exact H].
  Qed.
  Lemma In_remove t c c1 (s1 : esa) : In (c1, s1) (remove_cid E t c) -> In (c1, s1) t.
  Proof.
    induction t as [|[c0 x] r IH]; cbn; [auto|]. destruct (Nat.eqb c0 c); [auto|]. intros [H|H]; auto.
  Qed.
  Lemma AllQ_remove t c : AllQ t -> AllQ (remove_cid E t c).
  Proof. intros Ha c1 s1 Hin. eapply Ha. eapply In_remove. exact Hin. Qed.
  Lemma AllQ_app t1 t2 : AllQ t1 -> AllQ t2 -> AllQ (t1 ++ t2).
  Proof. intros H1 H2 c s Hin. apply in_app_or in Hin. destruct Hin as [H|H]; [eapply H1|eapply H2]; exact H. Qed.
  Lemma remove_replace t c (s : esa) : remove_cid E (Endpoint.replace E t c s) c = remove_cid E t c.
  Proof.
    induction t as [|[c0 x] r IH]; cbn; [reflexivity|]. destruct (Nat.eqb c0 c) eqn:Ec; cbn; rewrite Ec; [reflexivity|].
    f_equal. exact IH.
  Qed.

  Lemma do_call_table ep c (r : esa * option (dgram body)) :
    table (do_call E ep c r) = Endpoint.replace E (table ep) c (snd (Endpoint.leave E ep (fst r))).
  Proof.
    unfold do_call. destruct (send_facts E (put E ep c (fst r)) (snd r)) as (S1 & _).
    destruct (put_facts E ep c (fst r)) as (_ & P2 & _). etransitivity; [exact S1|exact P2].
  Qed.
  Lemma q_do_call ep c (r : esa * option (dgram body)) :
    AllQ (table ep) -> Qe (inner P (fst r)) -> AllQ (table (do_call E ep c r)).
  Proof.
    intros Ha Hq. refine (eq_ind_r AllQ _ (do_call_table ep c r)). apply AllQ_replace; [exact Ha|].
    destruct (leave_facts E ep (fst r)) as (L1 & _). eapply Qe_same; [exact L1|exact Hq].
  Qed.
  Lemma enter_Qe ep (s : esa) : Qe (inner P s) -> Qe (inner P (Endpoint.enter E ep s)).
  Proof. intros H. exact H. Qed.

  Lemma q_teardown ep c (s : esa) : AllQ (table ep) -> AllQ (table (teardown E ep c s)).
  Proof. intros Ha. destruct (teardown_facts E ep c s) as (_ & T2 & _). rewrite T2. apply AllQ_remove. exact Ha. Qed.

  Lemma q_finish ep cid (s : esa) :
    AllQ (table ep) -> Rg (inner P s) -> AllQ (table (finish E ep cid s)).
  Proof.
    intros Ha Hr. rewrite finish_eq.
    assert (Hplain : (handed (st (co (inner P s))) -> new_sa (inner P s) = None) ->
              AllQ (table (if dispatch_remove (state P s)
                           then teardown E (with_table E ep (Endpoint.replace E (table ep) cid s)) cid s
                           else with_table E ep (Endpoint.replace E (table ep) cid s)))).
    { intros Hreg. destruct (dispatch_remove (state P s)) eqn:Ed.
      - destruct (teardown_facts E (with_table E ep (Endpoint.replace E (table ep) cid s)) cid s) as (_ & T2 & _).
        rewrite T2. cbn. rewrite remove_replace. apply AllQ_remove. exact Ha.
      - cbn. apply AllQ_replace; [exact Ha|]. split; [|exact Hreg].
        unfold dispatch_remove in Ed. change (state P s) with (st (co (inner P s))) in Ed. lia. }
    unfold finish_pre. destruct (new_sa (inner P s)) as [nc|] eqn:En; [|apply Hplain; auto].
    destruct (dispatch_register_successor (state P s) true) eqn:Er; cbn [fst snd].
    2:{ apply Hplain. intros Hh. exfalso. unfold dispatch_register_successor in Er.
        change (state P s) with (st (co (inner P s))) in Er. destruct Hh as [Hh|Hh]; rewrite Hh in Er; discriminate Er. }
    assert (Hh : handed (st (co (inner P s)))).
    { unfold dispatch_register_successor in Er. change (state P s) with (st (co (inner P s))) in Er. unfold handed. lia. }
    assert (Hnd : dispatch_remove (state P (with_inner P s (set new_sa (fun _ => None) (inner P s)))) = false).
    { unfold dispatch_remove. change (state P (with_inner P s (set new_sa (fun _ => None) (inner P s))))
        with (st (co (inner P s))). destruct Hh as [Hh|Hh]; rewrite Hh; reflexivity. }
    rewrite Hnd. cbn. apply AllQ_app.
    - apply AllQ_replace; [exact Ha|]. split; cbn; [destruct Hh as [Hh|Hh]; rewrite Hh; discriminate|reflexivity].
    - intros c0 s0 [H|[]]. injection H as <- <-. split; cbn; [rewrite (Hr Hh nc En); discriminate|reflexivity].
  Qed.

  Lemma q_handle ep cid (s : esa) m :
    AllQ (table ep) -> Qe (inner P s) -> AllQ (table (handle E ep cid s m)).
  Proof.
    intros Ha Hq. unfold handle. cbv zeta.
    set (r := process_message P (Endpoint.enter E ep s) m (ep_now E ep)).
    apply q_finish.
    - destruct (send_facts E (fst (Endpoint.leave E ep (fst r))) (snd r)) as (S1 & _). rewrite S1.
      destruct (leave_facts E ep (fst r)) as (_ & _ & L3 & _). rewrite L3. exact Ha.
    - destruct (leave_facts E ep (fst r)) as (L1 & _). eapply Rg_same; [exact L1|].
      apply process_message_rg. exact Hq.
  Qed.

  Lemma q_handle_fresh ep cid (s : esa) m :
    AllQ (table ep) -> Qe (inner P s) -> AllQ (table (handle_fresh E ep cid s m)).
  Proof.
    intros Ha Hq. unfold handle_fresh. cbv zeta.
    set (r := process_message P (Endpoint.enter E ep s) m (ep_now E ep)).
    destruct (Z.eqb _ ST_INITIAL); [|apply q_handle; assumption].
    destruct (send_facts E (with_table E (fst (Endpoint.leave E ep (fst r)))
                              (remove_cid E (table (fst (Endpoint.leave E ep (fst r)))) cid)) (snd r)) as (S1 & _).
    refine (eq_ind_r AllQ _ S1).
    change (AllQ (remove_cid E (table (fst (Endpoint.leave E ep (fst r)))) cid)).
    destruct (leave_facts E ep (fst r)) as (_ & _ & L3 & _). refine (eq_ind_r (fun t => AllQ (remove_cid E t cid)) _ L3).
    apply AllQ_remove. exact Ha.
  Qed.

  Lemma q_create ep ii pspi c my peer ep0 cid (s0 : esa) :
    create E ep ii pspi c my peer = Some (ep0, cid, s0) -> AllQ (table ep) ->
    AllQ (table ep0) /\ Qe (inner P s0).
  Proof.
    intros Hc Ha. destruct (create_facts E _ _ _ _ _ _ _ _ _ Hc) as (_ & Ht & _ & _ & _ & Hnew & Hst).
    assert (Hq : Qe (inner P s0)) by (split; [rewrite Hst; discriminate|intros _; exact Hnew]).
    split; [|exact Hq]. rewrite Ht. apply AllQ_app; [exact Ha|]. intros c0 s1 [H|[]]. injection H as <- <-. exact Hq.
  Qed.

  Lemma q_dispatch ep d : AllQ (table ep) -> AllQ (table (dispatch E ep d)).
  Proof.
    intros Ha. destruct d as [|h my peer parsed]; [exact Ha|]. unfold dispatch.
    destruct (dispatch_is_init_request (h_exch h) (negb (h_resp h))).
    - destruct (find_conf E ep my peer) as [c|]; [|exact Ha].
      destruct (create E ep false (be_encode 8 (Z.to_N (h_spi_i h))) c my peer) as [[[ep0 cid] s0]|] eqn:Ec; [|exact Ha].
      destruct (q_create _ _ _ _ _ _ _ _ _ Ec Ha) as [A0 Q0].
      fold (arm E ep0 s0).
      assert (Q1 : Qe (inner P (arm E ep0 s0))).
      { unfold arm. destruct (dispatch_arm_cookie _); [|exact Q0]. exact Q0. }
      destruct parsed as [m|].
      + match goal with |- context [process_message P (Endpoint.enter E ?e ?s) m _] =>
          rewrite (handle_fresh_unfold E e cid s m) end.
        apply q_handle_fresh; [cbn; apply AllQ_replace; [exact A0|exact Q1]|exact Q1].
      + cbn. apply AllQ_remove. apply AllQ_replace; [exact A0|exact Q1].
    - cbv zeta. match goal with |- context [find ?f (table ep)] => destruct (find f (table ep)) as [[cid s]|] eqn:Ef end; [|exact Ha].
      destruct parsed as [m|]; [|exact Ha].
      match goal with |- context [process_message P (Endpoint.enter E ?e ?s) m _] =>
        rewrite (handle_unfold E e cid s m) end.
      apply q_handle; [exact Ha|]. eapply Ha. eapply find_pair_in. exact Ef.
  Qed.

  Lemma q_acquire ep my peer a b i : AllQ (table ep) -> AllQ (table (acquire E ep my peer a b i)).
  Proof.
    intros Ha. rewrite acquire_eq.
    match goal with |- context [find ?f (table ep)] => destruct (find f (table ep)) as [[cid s]|] eqn:Ef end.
    - apply q_do_call; [exact Ha|]. apply process_trigger_q. apply enter_Qe. eapply Ha. eapply find_pair_in. exact Ef.
    - destruct (find_conf E ep my peer) as [c|]; [|exact Ha].
      destruct (create E ep true (repeat 0%N 8) c my peer) as [[[ep0 cid] s]|] eqn:Ec; [|exact Ha].
      destruct (q_create _ _ _ _ _ _ _ _ _ Ec Ha) as [A0 Q0].
      unfold acquire_fresh. cbv zeta.
      set (r := process_trigger P (Endpoint.enter E ep0 s) (ep_now E ep0) (E_acquire a b i)).
      destruct (acquire_drop_unstarted _).
      + destruct (send_facts E (with_table E (fst (Endpoint.leave E ep0 (fst r)))
                                  (remove_cid E (table (fst (Endpoint.leave E ep0 (fst r)))) cid)) (snd r)) as (S1 & _).
        refine (eq_ind_r AllQ _ S1).
        change (AllQ (remove_cid E (table (fst (Endpoint.leave E ep0 (fst r)))) cid)).
        destruct (leave_facts E ep0 (fst r)) as (_ & _ & L3 & _).
        refine (eq_ind_r (fun t => AllQ (remove_cid E t cid)) _ L3).
        apply AllQ_remove. exact A0.
      + apply q_do_call; [exact A0|]. apply process_trigger_q. apply enter_Qe. exact Q0.
  Qed.
  Lemma q_expire ep spi hard : AllQ (table ep) -> AllQ (table (expire E ep spi hard)).
  Proof.
    intros Ha. rewrite expire_eq.
    match goal with |- context [find ?f (table ep)] => destruct (find f (table ep)) as [[cid s]|] eqn:Ef end; [|exact Ha].
    apply q_do_call; [exact Ha|]. apply process_trigger_q. apply enter_Qe. eapply Ha. eapply find_pair_in. exact Ef.
  Qed.

  Lemma q_rt fuel : forall i ep, AllQ (table ep) -> AllQ (table (rt_loop E fuel i ep)).
  Proof.
    induction fuel as [|fuel' IH]; intros i ep Ha; [exact Ha|].
    destruct (nth_error (table ep) i) as [[cid s]|] eqn:Hn; [|cbn [rt_loop]; rewrite Hn; exact Ha].
    rewrite (rt_loop_step E fuel' i ep cid s Hn). cbv zeta.
    set (r := check_retransmission P (Endpoint.enter E ep s) (ep_now E ep)).
    assert (Hq : Qe (inner P s)) by (eapply Ha; eapply nth_error_In; exact Hn).
    destruct (check_retransmission_q E (Endpoint.enter E ep s) (ep_now E ep) (enter_Qe ep s Hq)) as [H|H]; fold r in H.
    - assert (A2 : AllQ (table (do_call E ep cid r))) by (apply q_do_call; assumption).
      destruct (dispatch_remove _); apply IH; [apply q_teardown|]; exact A2.
    - assert (Hs : Shell.state P (snd (Endpoint.leave E ep (fst r))) = ST_DELETED).
      { destruct (leave_facts E ep (fst r)) as ([L1 _] & _).
        change (Shell.state P (snd (Endpoint.leave E ep (fst r)))) with (st (co (inner P (snd (Endpoint.leave E ep (fst r)))))).
        rewrite L1. exact H. }
      rewrite Hs. change (dispatch_remove ST_DELETED) with true. cbv iota. apply IH.
      destruct (teardown_facts E (do_call E ep cid r) cid (snd (Endpoint.leave E ep (fst r)))) as (_ & T2 & _). rewrite T2.
      refine (eq_ind_r (fun t => AllQ (remove_cid E t cid)) _ (do_call_table ep cid r)).
      rewrite remove_replace. apply AllQ_remove. exact Ha.
  Qed.

  Lemma q_sweep f :
    (forall (s : esa) now, Qe (inner P s) -> Qe (inner P (fst (f s now)))) ->
    forall cids ep, AllQ (table ep) -> AllQ (table (sweep E f cids ep)).
  Proof.
    intros Hf cids. induction cids as [|cid r IH]; intros ep Ha; [exact Ha|].
    destruct (find (fun x => Nat.eqb (fst x) cid) (table ep)) as [[c' s]|] eqn:Ef.
    2:{ cbn [sweep]. rewrite Ef. apply IH. exact Ha. }
    rewrite (sweep_step E f cid r ep c' s Ef). apply IH. apply q_do_call; [exact Ha|].
    apply Hf. apply enter_Qe. eapply Ha. eapply find_pair_in. exact Ef.
  Qed.

  (** C16 (b) and (c), for every iteration, unconditionally (any tape, any verdicts): if no table entry is DELETED
      and every REKEYED / DEL_AFTER_REKEY_IKE_SA_REQ_SENT entry has had its successor registered, the same holds
      afterwards *)
  Theorem iteration_table ep tnow tp e : AllQ (table ep) -> AllQ (table (iteration E ep tnow tp e)).
  Proof.
    intros Ha. rewrite iteration_eq. unfold timers.
    assert (A1 : AllQ (table (event_step E (start E ep tnow tp) e))).
    { destruct e as [d|my peer a b i|spi hard| |]; cbn [event_step];
        [apply q_dispatch|apply q_acquire|apply q_expire| |]; exact Ha. }
    apply q_sweep; [intros s now; apply check_lifetime_q|].
    apply q_sweep; [intros s now; apply check_dpd_q|]. apply q_rt. exact A1.
  Qed.
End RegEndpoint.

(** (b), (c) along every history, and written out *)
Lemma run_table E evs : forall ep : endpoint E, AllQ E (table E ep) -> AllQ E (table E (run E ep evs)).
Proof.
  induction evs as [|[[tnow tp] e] r IH]; intros ep Ha; cbn; [exact Ha|]. apply IH. apply iteration_table. exact Ha.
Qed.
Lemma AllQ_unfold E (t : list (nat * esa E)) :
  AllQ E t <-> forall c s, In (c, s) t ->
                 st (co (inner (hdl_iface E) s)) <> ST_DELETED
                 /\ (st (co (inner (hdl_iface E) s)) = ST_REKEYED
                     \/ st (co (inner (hdl_iface E) s)) = ST_DEL_AFTER_REKEY_IKE_SA_REQ_SENT ->
                     new_sa (inner (hdl_iface E) s) = None).
Proof. reflexivity. Qed.
Lemma AllQ_nil E : AllQ E [].
Proof. intros c s []. Qed.

(** ** what the invariant says, written out *)
Lemma EInv_unfold E (ep : endpoint E) sd :
  EInv E ep sd <->
  (NoDup sd
   /\ (forall k, In k sd <-> In k (flat_map (fun x => tracked (inner (hdl_iface E) (snd x))) (table E ep)))
   /\ NoDup (flat_map (fun x => tracked (inner (hdl_iface E) (snd x))) (table E ep))
   /\ (forall c s, In (c, s) (table E ep) -> WF (inner (hdl_iface E) s))
   /\ NoDup (map fst (table E ep)) /\ (forall c, In c (map fst (table E ep)) -> (c < next_cid E ep)%nat)
   /\ (forall c s, In (c, s) (table E ep) -> Spi4 (inner (hdl_iface E) s)))
  /\ (forall c s, In (c, s) (table E ep) ->
        forall n, new_sa (inner (hdl_iface E) s) = Some n ->
          my_addr n = my_addr (co (inner (hdl_iface E) s)) /\ peer_addr n = peer_addr (co (inner (hdl_iface E) s))
          /\ children n = []).
Proof. reflexivity. Qed.
(** in particular delete_child_sas never meets an outbound SPI that does not fit the netlink field *)
Lemma einv_spi4 E (ep : endpoint E) sd c s ch :
  EInv E ep sd -> In (c, s) (table E ep) -> In ch (children (co (inner (hdl_iface E) s))) -> length (c_out ch) = 4%nat.
Proof.
  intros [(_ & _ & _ & _ & _ & _ & H) _] Hin Hch. destruct (H c s Hin) as [H1 _].
  rewrite Forall_forall in H1. exact (H1 ch Hch).
Qed.
(** every installed key is a key of a CHILD_SA of an IkeSa in the table: an IkeSa that was removed has no kernel SA *)
Lemma einv_owner E (ep : endpoint E) sd k :
  EInv E ep sd -> In k sd -> exists c s, In (c, s) (table E ep) /\ In k (tracked (inner (hdl_iface E) s)).
Proof.
  intros [(_ & H & _) _] Hk. apply H in Hk. unfold tkeys in Hk. apply in_flat_map in Hk.
  destruct Hk as ([c s] & H1 & H2). exists c, s. auto.
Qed.

(* ------------------------------------------------------------------------------------------------ *)
(** * H. Non-vacuity: concrete histories *)
Module EpExample.
  Import HdlSad.Example.
  Definition cfs : list (Z * Z * conf) := [(10, 20, cf0)].
  Definition ep_empty : endpoint E0 := mk_ep E0 [] 0 cfs [9%N] [] 0 [] [] None None.

  (** an ACQUIRE creates an initiator IkeSa (IKE_SA_INIT request sent); a message for an unknown SPI and a datagram
      that is not an IKE message change nothing *)
  Definition tape_acq : list draw :=
    [D_bytes [1;1;1;1;1;1;1;1]%N; D_num 1; D_bytes [0;0;0;5]%N; D_num 16; D_bytes [7%N]; D_dh 14 [1%N] [2%N]].
  Definition hist1 : list (step_in) :=
    [(100, tape_acq, Ev_acquire 10 20 ts0 ts1 1);
     (101, [], Ev_datagram (Dg (mk_hdr 5 6 2 0 EX_IKE_AUTH true false 1) 10 20 None));
     (101, [], Ev_datagram Dg_bad)].
  Ltac ok_tac := vm_compute; repeat split; try exact Logic.I; try discriminate; try (intros; intuition congruence).
  Example hist1_ok : run_ok E0 ep_empty [] hist1.
  Proof. ok_tac. Qed.
  Example hist1_result :
    map (fun x : nat * esa E0 => (fst x, st (co (inner (hdl_iface E0) (snd x))))) (table E0 (run E0 ep_empty hist1))
      = [(0%nat, ST_INIT_REQ_SENT)]
    /\ next_cid E0 (run E0 ep_empty hist1) = 1%nat /\ run_sad E0 ep_empty [] hist1 = [].
  Proof. repeat split; vm_compute; reflexivity. Qed.
  Example hist1_inv : EInv E0 (run E0 ep_empty hist1) (run_sad E0 ep_empty [] hist1).
  Proof. apply (history_inv E0 cfs [9%N] hist1 []). rewrite app_nil_r. exact hist1_ok. Qed.

  (** an endpoint holding one established responder IkeSa with one CHILD_SA (keys installed): a DELETE request for
      the CHILD_SA, then a DELETE request for the IKE_SA; the kernel answers faithfully *)
  Definition ep_one : endpoint E0 :=
    mk_ep E0 [(0%nat, sa_of_core E0 (core0 ST_ESTABLISHED [ch1]))] 1 cfs [9%N] [] 0 [] [] None None.
  Example ep_one_inv : EInv E0 ep_one own1.
  Proof.
    split.
    - unfold TInv. split; [nodup_tac|]. split; [intros k; vm_compute; tauto|]. split; [vm_compute; nodup_tac|].
      split; [intros c s [H|[]]; injection H as <- <-; apply WF_no_successor; reflexivity|].
      split; [cbn; nodup_tac|]. split; [intros c [<-|[]]; cbn; apply Nat.lt_succ_diag_r|].
      intros c s [H|[]]. injection H as <- <-. split; [cbn; repeat constructor|intros n Hn; discriminate Hn].
    - intros c s [H|[]]. injection H as <- <-. intros n Hn. discriminate Hn.
  Qed.
  Definition dg (exch : Z) (id : Z) (ps : list payload) : datagram :=
    Dg (mk_hdr 2 1 2 0 exch false true id) 10 20 (Some (mk_pmsg (mk_hdr 2 1 2 0 exch false true id) true ([], ps))).
  Definition hist2 : list step_in :=
    [(5, [D_verdict true; D_verdict true], Ev_datagram (dg EX_INFORMATIONAL 0 [P_DELETE PROTO_ESP [[0;0;0;2]%N]]));
     (6, [], Ev_datagram (dg EX_INFORMATIONAL 1 [P_DELETE PROTO_IKE []]))].
  Example hist2_ok : run_ok E0 ep_one own1 hist2.
  Proof. ok_tac. Qed.
  Example hist2_result :
    ep_kops E0 (run E0 ep_one (firstn 1 hist2))
      = [K_del 20 50 [0;0;0;2]%N true; K_del 10 50 [0;0;0;1]%N true]
    /\ length (table E0 (run E0 ep_one (firstn 1 hist2))) = 1%nat
    /\ run_sad E0 ep_one own1 (firstn 1 hist2) = []
    /\ table E0 (run E0 ep_one hist2) = [] /\ run_sad E0 ep_one own1 hist2 = [].
  Proof. repeat split; vm_compute; reflexivity. Qed.
  Example hist2_all : EInv E0 ep_one own1 /\ run_ok E0 ep_one own1 hist2.
  Proof. exact (conj ep_one_inv hist2_ok). Qed.
  Example ep_one_table : AllQ E0 (table E0 ep_one).
  Proof. intros c s [H|[]]. injection H as <- <-. split; cbn; [discriminate|reflexivity]. Qed.
  Example hist2_inv : EInv E0 (run E0 ep_one hist2) (run_sad E0 ep_one own1 hist2).
  Proof. apply run_inv; [exact ep_one_inv|exact hist2_ok]. Qed.

  (** an ACQUIRE for a policy index that is not configured: the initiator IkeSa created for it starts nothing and is
      dropped again (the creation index stays consumed) *)
  Definition hist3 : list step_in := [(100, [D_bytes [1;1;1;1;1;1;1;1]%N; D_num 1], Ev_acquire 10 20 ts0 ts1 99)].
  Example hist3_ok : run_ok E0 ep_empty [] hist3.
  Proof. ok_tac. Qed.
  Example hist3_result :
    table E0 (run E0 ep_empty hist3) = [] /\ next_cid E0 (run E0 ep_empty hist3) = 1%nat
    /\ ep_kops E0 (run E0 ep_empty hist3) = [] /\ ep_sent E0 (run E0 ep_empty hist3) = []
    /\ run_sad E0 ep_empty [] hist3 = [].
  Proof. repeat split; vm_compute; reflexivity. Qed.
End EpExample.
