(** Executable model of the "shell" of ikesa.py: IkeSa.process_message, _process_request, _process_response,
    _send_request, process_acquire/process_expire admission and queueing, the three timers.

    It is parametric in everything exchange-specific: the handler-owned part of an IkeSa is an abstract type
    [I] (with its [state] and "has keys" observations) and the exchange handlers are functions given as
    parameters.  Theorems about the shell therefore hold for EVERY behaviour of the handlers; the correspondence
    check instantiates the parameters with what the real handlers did in a recorded run.

    All tests and update expressions come from Gen/IkeFacts.v (regenerated from /repo on every run). *)
From Coq Require Import ZArith Bool List.
From IkeSa Require Import Gen.IkeFacts.
Import ListNotations.
Open Scope Z_scope.

(** IKE header fields the shell stamps or looks at. *)
Record hdr := mk_hdr {
  h_spi_i : Z; h_spi_r : Z; h_major : Z; h_minor : Z; h_exch : Z; h_resp : bool; h_init : bool; h_id : Z }.

Record dgram (B : Type) := mk_dgram { d_hdr : hdr; d_body : B }.
Arguments mk_dgram {B}. Arguments d_hdr {B}. Arguments d_body {B}.

(** A received datagram after Message.parse (parse errors never reach the shell: they escape
    process_message before anything is touched). *)
Record pmsg (B : Type) := mk_pmsg { p_hdr : hdr; p_auth : bool; p_body : B }.
Arguments mk_pmsg {B}. Arguments p_hdr {B}. Arguments p_auth {B}. Arguments p_body {B}.

(** Handler results.  A request handler either returns the payloads of its response or raises; in both cases the
    shell builds a response of the request's exchange type (error notify in the second case) and in the second
    case marks the IkeSa DELETED.  A response handler may return a follow-up request. *)
Inductive hout (B : Type) := HOk (body : B) | HErr (body : B).
Arguments HOk {B}. Arguments HErr {B}.
Inductive rout (B : Type) :=
| ROk (next : option (Z * B)) (reset_id : bool)   (* follow-up request (exchange, payloads); my_msg_id := 0 first *)
| RErr (reset_id : bool).                         (* the handler raised (after my_msg_id := 0 if set) *)
Arguments ROk {B}. Arguments RErr {B}.

(** Everything exchange-specific, as parameters. *)
Record iface := mk_iface {
  I : Type;                      (* handler-owned part of an IkeSa (keys, child SAs, exchange context) *)
  B : Type;                      (* message bodies (payload lists), opaque to the shell *)
  EV : Type;                     (* queued local triggers (acquire / expire with their arguments) *)
  istate : I -> Z;               (* IkeSa.state *)
  set_state : I -> Z -> I;       (* self.state = ... done by the shell (DELETED on errors / give-up) *)
  has_keys : I -> bool;          (* self.peer_crypto is not None *)
  ipeer_spi : I -> Z;            (* self.peer_spi (set by the negotiation handlers) *)
  handle_request : I -> pmsg B -> I * hout B;
  handle_response : I -> pmsg B -> I * rout B;
  handle_trigger : I -> EV -> I * option (Z * B);   (* after the admission test: (new inner, request to send) *)
  gen_dpd : I -> I * (Z * B);                        (* timer-generated requests *)
  gen_delete_ike : I -> I * (Z * B);
  gen_rekey_ike : I -> I * (Z * B);
  ev_is_acquire : EV -> bool }.

Section Shell.
  Variable P : iface.
  Notation I := (I P). Notation B := (B P). Notation EV := (EV P).
  Notation dgram := (dgram B). Notation pmsg := (pmsg B).
  Notation istate := (istate P). Notation set_state := (set_state P). Notation has_keys := (has_keys P).
  Notation ipeer_spi := (ipeer_spi P).
  Notation handle_request := (handle_request P). Notation handle_response := (handle_response P).
  Notation handle_trigger := (handle_trigger P). Notation gen_dpd := (gen_dpd P).
  Notation gen_delete_ike := (gen_delete_ike P). Notation gen_rekey_ike := (gen_rekey_ike P).
  Notation ev_is_acquire := (ev_is_acquire P).

  (** Shell-owned fields. *)
  Record sa := mk_sa {
    inner : I;
    is_init : bool;                       (* self.is_initiator *)
    my_spi : Z;
    my_id : Z; peer_id : Z;
    last_resp : option dgram;             (* last_sent_response_data *)
    req_data : option dgram;              (* request_data: bytes of the outstanding request *)
    rt_at : Z; rt_n : Z;                  (* retransmit_at, retransmissions *)
    dpd_at : Z;                           (* start_dpd_at *)
    rek_at : Z; del_at : Z;               (* rekey_ike_sa_at, delete_ike_sa_at *)
    dpd_cfg : Z;                          (* configuration.dpd *)
    pending : list EV }.

  Definition peer_spi (s : sa) : Z := ipeer_spi (inner s).
  Definition spi_i (s : sa) : Z := if is_init s then my_spi s else peer_spi s.
  Definition spi_r (s : sa) : Z := if is_init s then peer_spi s else my_spi s.

  Definition with_inner (s : sa) (i : I) : sa :=
    mk_sa i (is_init s) (my_spi s) (my_id s) (peer_id s) (last_resp s) (req_data s) (rt_at s) (rt_n s)
          (dpd_at s) (rek_at s) (del_at s) (dpd_cfg s) (pending s).
  Definition with_state (s : sa) (st : Z) : sa := with_inner s (set_state (inner s) st).
  Definition state (s : sa) : Z := istate (inner s).

  (** generate_request / generate_response: what the shell stamps on every message it builds. *)
  Definition stamp_request (s : sa) (exch : Z) : hdr :=
    mk_hdr (spi_i s) (spi_r s) GEN_MAJOR GEN_MINOR exch false (is_init s) (my_id s).
  Definition stamp_response (s : sa) (exch : Z) : hdr :=
    mk_hdr (spi_i s) (spi_r s) GEN_MAJOR GEN_MINOR exch true (is_init s) (peer_id s).

  (** _send_request *)
  Definition send_request (s : sa) (now : Z) (d : dgram) : sa * dgram :=
    (mk_sa (inner s) (is_init s) (my_spi s) (my_id s) (peer_id s) (last_resp s) (Some d)
           (now + RETRANSMISSION_DELAY) 1 (dpd_at s) (rek_at s) (del_at s) (dpd_cfg s) (pending s), d).

  Definition set_my_id (s : sa) (z : Z) : sa :=
    mk_sa (inner s) (is_init s) (my_spi s) z (peer_id s) (last_resp s) (req_data s) (rt_at s) (rt_n s)
          (dpd_at s) (rek_at s) (del_at s) (dpd_cfg s) (pending s).
  Definition set_pending (s : sa) (p : list EV) : sa :=
    mk_sa (inner s) (is_init s) (my_spi s) (my_id s) (peer_id s) (last_resp s) (req_data s) (rt_at s)
          (rt_n s) (dpd_at s) (rek_at s) (del_at s) (dpd_cfg s) p.
  Definition set_dpd_at (s : sa) (z : Z) : sa :=
    mk_sa (inner s) (is_init s) (my_spi s) (my_id s) (peer_id s) (last_resp s) (req_data s) (rt_at s)
          (rt_n s) z (rek_at s) (del_at s) (dpd_cfg s) (pending s).

  (** _process_request *)
  Definition process_request (s : sa) (m : pmsg) : sa * option dgram :=
    let mid := h_id (p_hdr m) in
    if req_is_retransmission mid (peer_id s) (my_id s) then (s, last_resp s)
    else if req_id_unexpected mid (peer_id s) (my_id s) then (s, None)
    else if negb (existsb (Z.eqb (h_exch (p_hdr m))) request_exchanges) then (s, None)
    else
      let '(i', out) := handle_request (inner s) m in
      let s1 := with_inner s i' in
      let '(s2, body) := match out with
                         | HOk b => (s1, b)
                         | HErr b => (with_state s1 ST_DELETED, b)
                         end in
      let d := mk_dgram (stamp_response s2 (h_exch (p_hdr m))) body in
      (mk_sa (inner s2) (is_init s2) (my_spi s2) (my_id s2) (peer_id s2 + 1) (Some d) (req_data s2)
             (rt_at s2) (rt_n s2) (dpd_at s2) (rek_at s2) (del_at s2) (dpd_cfg s2) (pending s2), Some d).

  (** process_acquire / process_expire: admission, queueing, then the trigger-specific part. *)
  Definition process_trigger (s : sa) (now : Z) (e : EV) : sa * option dgram :=
    if (if ev_is_acquire e then acquire_must_queue (state s) else expire_must_queue (state s))
    then (set_pending s (pending s ++ [e]), None)
    else
      let '(i', r) := handle_trigger (inner s) e in
      let s1 := with_inner s i' in
      match r with
      | None => (s1, None)
      | Some (exch, body) =>
          let '(s2, d) := send_request s1 now (mk_dgram (stamp_request s1 exch) body) in (s2, Some d)
      end.

  (** the pending-events loop of _process_response: iterates over a copy of the queue *)
  Fixpoint run_pending (evs : list EV) (s : sa) (now : Z) : sa * option dgram :=
    match evs with
    | [] => (s, None)
    | e :: rest =>
        (* self.pending_events.remove(x): removes the first element equal to x; events are queued in order and
           the loop walks a copy in the same order, so this is the head of the remaining queue *)
        let s0 := set_pending s (tl (pending s)) in
        let '(s1, r) := process_trigger s0 now e in
        match r with
        | Some d => (s1, Some d)
        | None => run_pending rest s1 now
        end
    end.

  (** _process_response *)
  Definition process_response (s : sa) (m : pmsg) (now : Z) : sa * option dgram :=
    let mid := h_id (p_hdr m) in
    if res_id_unexpected mid (peer_id s) (my_id s) then (s, None)
    else
      let s0 := set_my_id s (my_id s + 1) in
      if negb (existsb (Z.eqb (h_exch (p_hdr m))) response_exchanges) then (s0, None)
      else
        let '(i', out) := handle_response (inner s0) m in
        let s1 := with_inner s0 i' in
        match out with
        | RErr reset => (with_state (if reset then set_my_id s1 0 else s1) ST_DELETED, None)
        | ROk (Some (exch, body)) reset =>
            let s2 := if reset then set_my_id s1 0 else s1 in
            let '(s3, d) := send_request s2 now (mk_dgram (stamp_request s2 exch) body) in (s3, Some d)
        | ROk None reset =>
            let s2 := if reset then set_my_id s1 0 else s1 in
            if Z.eqb (state s2) ST_ESTABLISHED then run_pending (pending s2) s2 now else (s2, None)
        end.

  (** process_message, after the parse *)
  Definition process_message (s : sa) (m : pmsg) (now : Z) : sa * option dgram :=
    let h := p_hdr m in
    let '(reset, ret) := process_message_decision (h_init h) (is_init s) (h_exch h) (h_spi_i h) (h_spi_r h)
                           (spi_i s) (spi_r s) (has_keys (inner s)) (p_auth m) (negb (h_resp h))
                           (state s) (h_id h) (peer_id s) (my_id s) in
    let s0 := if reset then set_dpd_at s (now + dpd_cfg s) else s in
    match ret with
    | RNone => (s0, None)
    | RCached => (s0, last_resp s0)
    | RRequest => process_request s0 m
    | RResponse => process_response s0 m now
    end.

  (** check_retransmission_timer *)
  Definition check_retransmission (s : sa) (now : Z) : sa * option dgram :=
    if rt_states (state s) then
      if rt_due (rt_at s) now then
        if rt_giveup (rt_n s) then (with_state s ST_DELETED, None)
        else
          let n := rt_n s + 1 in
          (mk_sa (inner s) (is_init s) (my_spi s) (my_id s) (peer_id s) (last_resp s) (req_data s)
                 (rt_next_at (rt_at s) n) n (dpd_at s) (rek_at s) (del_at s) (dpd_cfg s) (pending s), req_data s)
      else (s, None)
    else (s, None).

  (** check_dead_peer_detection_timer *)
  Definition check_dpd (s : sa) (now : Z) : sa * option dgram :=
    if dpd_due (dpd_at s) now (state s) then
      let '(i', (exch, body)) := gen_dpd (inner s) in
      let s1 := with_inner s i' in
      let '(s2, d) := send_request s1 now (mk_dgram (stamp_request s1 exch) body) in (s2, Some d)
    else (s, None).

  (** check_rekey_ike_sa_timer *)
  Definition check_lifetime (s : sa) (now : Z) : sa * option dgram :=
    if Z.eqb (state s) ST_ESTABLISHED then
      if life_delete_due (del_at s) now then
        let '(i', (exch, body)) := gen_delete_ike (inner s) in
        let s1 := with_inner s i' in
        let '(s2, d) := send_request s1 now (mk_dgram (stamp_request s1 exch) body) in (s2, Some d)
      else if life_rekey_due (rek_at s) now then
        let '(i', (exch, body)) := gen_rekey_ike (inner s) in
        let s1 := with_inner s i' in
        let '(s2, d) := send_request s1 now (mk_dgram (stamp_request s1 exch) body) in (s2, Some d)
      else (s, None)
    else (s, None).

End Shell.
