(** Whole histories of one IKE_SA: every sequence of parsed messages (whatever they contain, replayed, duplicated,
    reordered), local triggers and timer sweeps, for EVERY behaviour of the exchange handlers [P].

    What the window guarantees over a history:
      - the message IDs of the requests whose handler ran are consecutive from the receive counter, hence no
        request ID is ever executed twice;
      - a request that is not executed leaves the handler-owned part of the IKE_SA untouched;
      - the send counter moves only when a response with exactly that ID is taken (by one, or back to 0 when the
        handler restarts IKE_SA_INIT), and every request the endpoint emits carries the send counter of the moment. *)
From Coq Require Import ZArith Bool List Lia ZifyBool.
From IkeSa Require Import Gen.IkeFacts Shell ShellProofs.
Import ListNotations.
Open Scope Z_scope.

Section Trace.
  Variable P : iface.
  Notation sa := (sa P).
  Notation pmsg := (pmsg (B P)).
  Notation dgram := (dgram (B P)).

  Inductive sevent :=
  | SMsg (m : pmsg) (now : Z)          (* IkeSa.process_message on a parsed datagram *)
  | STrigger (e : EV P) (now : Z)      (* process_acquire / process_expire *)
  | STimers (now : Z).                 (* one pass of the three timer loops *)

  Definition sstep_out (s : sa) (e : sevent) : sa * list dgram :=
    match e with
    | SMsg m now => let '(s', o) := process_message P s m now in (s', match o with Some d => [d] | None => [] end)
    | STrigger ev now => let '(s', o) := process_trigger P s now ev in (s', match o with Some d => [d] | None => [] end)
    | STimers now => full_sweep P s now
    end.
  Definition sstep (s : sa) (e : sevent) : sa := fst (sstep_out s e).

  Definition decision (s : sa) (m : pmsg) : bool * pm_ret :=
    let h := p_hdr m in
    process_message_decision (h_init h) (is_init P s) (h_exch h) (h_spi_i h) (h_spi_r h)
      (spi_i P s) (spi_r P s) (has_keys P (inner P s)) (p_auth m) (negb (h_resp h))
      (state P s) (h_id h) (peer_id P s) (my_id P s).

  (** the request handler runs on [m] *)
  Definition executes (s : sa) (m : pmsg) : bool :=
    match snd (decision s m) with
    | RRequest => andb (Z.eqb (h_id (p_hdr m)) (peer_id P s))
                       (existsb (Z.eqb (h_exch (p_hdr m))) request_exchanges)
    | _ => false
    end.

  (** the response [m] is taken (the response handler may run on it) *)
  Definition accepts (s : sa) (m : pmsg) : bool :=
    match snd (decision s m) with
    | RResponse => Z.eqb (h_id (p_hdr m)) (my_id P s)
    | _ => false
    end.

  (* ---------------------------------------------------------------- fields left alone by the building blocks *)
  Lemma send_request_ids s now d :
    peer_id P (fst (send_request P s now d)) = peer_id P s /\ my_id P (fst (send_request P s now d)) = my_id P s /\
    inner P (fst (send_request P s now d)) = inner P s.
  Proof. repeat split; reflexivity. Qed.

  Lemma trigger_ids s now ev :
    peer_id P (fst (process_trigger P s now ev)) = peer_id P s /\
    my_id P (fst (process_trigger P s now ev)) = my_id P s.
  Proof.
    unfold process_trigger.
    destruct (if ev_is_acquire P ev then acquire_must_queue (state P s) else expire_must_queue (state P s));
      [split; reflexivity|].
    destruct (handle_trigger P (inner P s) ev) as [i' [[exch body]|]]; split; reflexivity.
  Qed.

  Lemma trigger_emits_current_id s now ev s' d :
    process_trigger P s now ev = (s', Some d) -> h_id (d_hdr d) = my_id P s' /\ h_resp (d_hdr d) = false.
  Proof.
    unfold process_trigger.
    destruct (if ev_is_acquire P ev then acquire_must_queue (state P s) else expire_must_queue (state P s));
      [discriminate|].
    destruct (handle_trigger P (inner P s) ev) as [i' [[exch body]|]]; [|discriminate].
    cbn. intros H. inversion H. subst. cbn. split; reflexivity.
  Qed.

  Lemma run_pending_ids evs : forall s now,
    peer_id P (fst (run_pending P evs s now)) = peer_id P s /\ my_id P (fst (run_pending P evs s now)) = my_id P s.
  Proof.
    induction evs as [|e r IH]; intros s now; [split; reflexivity|].
    cbn [run_pending].
    pose proof (trigger_ids (set_pending P s (tl (pending P s))) now e) as [H1 H2].
    destruct (process_trigger P (set_pending P s (tl (pending P s))) now e) as [s1 [d|]]; cbn [fst] in *.
    - split; assumption.
    - destruct (IH s1 now) as [A Bq]. rewrite A, Bq, H1, H2. split; reflexivity.
  Qed.

  Lemma run_pending_emits_current_id evs : forall s now s' d,
    run_pending P evs s now = (s', Some d) -> h_id (d_hdr d) = my_id P s' /\ h_resp (d_hdr d) = false.
  Proof.
    induction evs as [|e r IH]; intros s now s' d; [discriminate|].
    cbn [run_pending].
    destruct (process_trigger P (set_pending P s (tl (pending P s))) now e) as [s1 [d1|]] eqn:Ht.
    - intros H. inversion H. subst. exact (trigger_emits_current_id _ _ _ _ _ Ht).
    - apply IH.
  Qed.

  (* ---------------------------------------------------------------- one message *)
  Ltac split_decision :=
    unfold process_message_decision;
    repeat match goal with
           | |- context [Z.eqb ?x ?y] => destruct (Z.eqb x y)
           | |- context [Bool.eqb ?x ?y] => destruct (Bool.eqb x y)
           end;
    repeat match goal with b : bool |- _ => destruct b end; cbn.

  Lemma pmd_request a b c d e f g h i l m n o :
    snd (process_message_decision a b c d e f g h i true l m n o) <> RResponse.
  Proof. split_decision; discriminate. Qed.

  Lemma pmd_response a b c d e f g h i l m n o :
    snd (process_message_decision a b c d e f g h i false l m n o) <> RRequest /\
    snd (process_message_decision a b c d e f g h i false l m n o) <> RCached.
  Proof. split_decision; split; discriminate. Qed.

  Lemma decision_request s m : h_resp (p_hdr m) = false -> snd (decision s m) <> RResponse.
  Proof. intros Hr. unfold decision. rewrite Hr. apply pmd_request. Qed.

  Lemma decision_response s m : h_resp (p_hdr m) = true -> snd (decision s m) <> RRequest /\ snd (decision s m) <> RCached.
  Proof. intros Hr. unfold decision. rewrite Hr. apply pmd_response. Qed.

  Lemma reset_ids (b : bool) s z :
    peer_id P (if b then set_dpd_at P s z else s) = peer_id P s /\
    my_id P (if b then set_dpd_at P s z else s) = my_id P s /\
    inner P (if b then set_dpd_at P s z else s) = inner P s /\
    last_resp P (if b then set_dpd_at P s z else s) = last_resp P s.
  Proof. destruct b; repeat split; reflexivity. Qed.

  Lemma process_request_peer_id s m :
    peer_id P (fst (process_request P s m)) =
      peer_id P s + (if andb (Z.eqb (h_id (p_hdr m)) (peer_id P s))
                             (existsb (Z.eqb (h_exch (p_hdr m))) request_exchanges) then 1 else 0) /\
    my_id P (fst (process_request P s m)) = my_id P s /\
    (andb (Z.eqb (h_id (p_hdr m)) (peer_id P s)) (existsb (Z.eqb (h_exch (p_hdr m))) request_exchanges) = false ->
     inner P (fst (process_request P s m)) = inner P s).
  Proof.
    unfold process_request, req_is_retransmission, req_id_unexpected.
    destruct (Z.eqb (h_id (p_hdr m)) (Z.sub (peer_id P s) 1)) eqn:E1.
    { assert (Z.eqb (h_id (p_hdr m)) (peer_id P s) = false) as -> by lia. cbn. repeat split; lia. }
    destruct (Z.eqb (h_id (p_hdr m)) (peer_id P s)) eqn:E2; cbn [negb andb].
    2:{ cbn. repeat split; lia. }
    destruct (existsb (Z.eqb (h_exch (p_hdr m))) request_exchanges); cbn [negb].
    2:{ cbn. repeat split; lia. }
    destruct (handle_request P (inner P s) m) as [i' [b|b]]; cbn; repeat split; try lia; discriminate.
  Qed.

  Lemma process_response_ids s m now :
    peer_id P (fst (process_response P s m now)) = peer_id P s /\
    (Z.eqb (h_id (p_hdr m)) (my_id P s) = false -> fst (process_response P s m now) = s) /\
    (Z.eqb (h_id (p_hdr m)) (my_id P s) = true ->
     my_id P (fst (process_response P s m now)) = my_id P s + 1 \/ my_id P (fst (process_response P s m now)) = 0).
  Proof.
    unfold process_response, res_id_unexpected.
    destruct (Z.eqb (h_id (p_hdr m)) (my_id P s)) eqn:E; cbn [negb].
    2:{ split; [reflexivity|split; [intros _; reflexivity|discriminate]]. }
    split; [|split; [discriminate|intros _]].
    - destruct (negb (existsb (Z.eqb (h_exch (p_hdr m))) response_exchanges)); [reflexivity|].
      destruct (handle_response P (inner P (set_my_id P s (my_id P s + 1))) m) as [i' [[[exch body]|] reset|reset']].
      + destruct reset; reflexivity.
      + set (s2 := if reset then _ else _).
        assert (Hp : peer_id P s2 = peer_id P s) by (unfold s2; destruct reset; reflexivity).
        destruct (Z.eqb (state P s2) ST_ESTABLISHED); [|exact Hp].
        destruct (run_pending_ids (pending P s2) s2 now) as [A _]. rewrite A. exact Hp.
      + destruct reset'; reflexivity.
    - destruct (negb (existsb (Z.eqb (h_exch (p_hdr m))) response_exchanges)); [left; reflexivity|].
      destruct (handle_response P (inner P (set_my_id P s (my_id P s + 1))) m) as [i' [[[exch body]|] reset|reset']].
      + destruct reset; [right|left]; reflexivity.
      + set (s2 := if reset then _ else _).
        assert (Hm : my_id P s2 = my_id P s + 1 \/ my_id P s2 = 0) by (unfold s2; destruct reset; [right|left]; reflexivity).
        destruct (Z.eqb (state P s2) ST_ESTABLISHED); [|exact Hm].
        destruct (run_pending_ids (pending P s2) s2 now) as [_ Bq]. rewrite Bq. exact Hm.
      + destruct reset'; [right|left]; reflexivity.
  Qed.

  Lemma process_response_emits_current_id s m now s' d :
    process_response P s m now = (s', Some d) -> h_id (d_hdr d) = my_id P s' /\ h_resp (d_hdr d) = false.
  Proof.
    unfold process_response.
    destruct (res_id_unexpected (h_id (p_hdr m)) (peer_id P s) (my_id P s)); [discriminate|].
    destruct (negb (existsb (Z.eqb (h_exch (p_hdr m))) response_exchanges)); [discriminate|].
    destruct (handle_response P (inner P (set_my_id P s (my_id P s + 1))) m) as [i' [[[exch body]|] reset|reset']].
    - destruct reset; cbn; intros H; inversion H; subst; cbn; split; reflexivity.
    - set (s2 := if reset then _ else _). destruct (Z.eqb (state P s2) ST_ESTABLISHED); [|discriminate].
      apply run_pending_emits_current_id.
    - discriminate.
  Qed.

  (** one call of process_message: the receive counter advances exactly when the request handler runs, and then
      the message carried the receive counter's value; the send counter moves only when a response is taken *)
  Lemma message_step s m now :
    peer_id P (fst (process_message P s m now)) = peer_id P s + (if executes s m then 1 else 0) /\
    (executes s m = true -> h_id (p_hdr m) = peer_id P s /\ h_resp (p_hdr m) = false) /\
    (accepts s m = false -> my_id P (fst (process_message P s m now)) = my_id P s) /\
    (accepts s m = true ->
     h_id (p_hdr m) = my_id P s /\ h_resp (p_hdr m) = true /\
     (my_id P (fst (process_message P s m now)) = my_id P s + 1 \/ my_id P (fst (process_message P s m now)) = 0)).
  Proof.
    unfold executes, accepts, process_message.
    change (process_message_decision _ _ _ _ _ _ _ _ _ _ _ _ _ _) with (decision s m).
    pose proof (decision_request s m) as Hreq. pose proof (decision_response s m) as Hres.
    destruct (decision s m) as [reset ret]. cbn [snd] in *.
    destruct (reset_ids reset s (now + dpd_cfg P s)) as (Rp & Rm & Ri & Rl).
    set (s0 := if reset then _ else s) in *.
    destruct ret; cbn [fst].
    - rewrite Rp, Rm. repeat split; try discriminate; lia.
    - rewrite Rp, Rm. repeat split; try discriminate; lia.
    - destruct (process_request_peer_id s0 m) as (A & Bq & _). rewrite A, Bq, Rp, Rm.
      split; [reflexivity|]. split; [|split; [reflexivity|discriminate]].
      intros He. apply andb_prop in He. destruct He as [He _]. split; [lia|].
      destruct (h_resp (p_hdr m)) eqn:Hr; [|reflexivity]. destruct (Hres eq_refl) as [X _]. congruence.
    - destruct (process_response_ids s0 m now) as (A & Bq & Cq). rewrite A, Rp.
      split; [lia|]. split; [discriminate|]. rewrite Rm in *. split.
      + intros E. rewrite (Bq E). exact Rm.
      + intros E. split; [lia|]. split; [|exact (Cq E)].
        destruct (h_resp (p_hdr m)) eqn:Hr; [reflexivity|]. exfalso. exact (Hreq eq_refl eq_refl).
  Qed.

  (** a request whose handler does not run leaves the handler-owned part of the IKE_SA exactly as it was *)
  Lemma unexecuted_request_leaves_inner s m now :
    h_resp (p_hdr m) = false -> executes s m = false -> inner P (fst (process_message P s m now)) = inner P s.
  Proof.
    intros Hr He. unfold executes in He. unfold process_message.
    change (process_message_decision _ _ _ _ _ _ _ _ _ _ _ _ _ _) with (decision s m).
    pose proof (decision_request s m Hr) as Hreq.
    destruct (decision s m) as [reset ret]. cbn [snd] in *.
    destruct (reset_ids reset s (now + dpd_cfg P s)) as (Rp & Rm & Ri & Rl).
    set (s0 := if reset then _ else s) in *.
    destruct ret; cbn [fst]; try exact Ri; [|congruence].
    destruct (process_request_peer_id s0 m) as (_ & _ & Cq). rewrite Cq; [exact Ri|]. rewrite Rp. exact He.
  Qed.

  (* ---------------------------------------------------------------- timers leave both counters alone *)
  Lemma full_sweep_ids s now :
    peer_id P (fst (full_sweep P s now)) = peer_id P s /\ my_id P (fst (full_sweep P s now)) = my_id P s.
  Proof.
    unfold full_sweep.
    assert (H1 : peer_id P (fst (check_retransmission P s now)) = peer_id P s /\
                 my_id P (fst (check_retransmission P s now)) = my_id P s).
    { unfold check_retransmission. destruct (rt_states (state P s)); [|split; reflexivity].
      destruct (rt_due (rt_at P s) now); [|split; reflexivity].
      destruct (rt_giveup (rt_n P s)); split; reflexivity. }
    destruct (check_retransmission P s now) as [s1 o1]. cbn [fst] in H1.
    assert (H2 : peer_id P (fst (check_dpd P s1 now)) = peer_id P s1 /\ my_id P (fst (check_dpd P s1 now)) = my_id P s1).
    { unfold check_dpd. destruct (dpd_due (dpd_at P s1) now (state P s1)); [|split; reflexivity].
      destruct (gen_dpd P (inner P s1)) as [i' [exch body]]. split; reflexivity. }
    destruct (check_dpd P s1 now) as [s2 o2]. cbn [fst] in H2.
    assert (H3 : peer_id P (fst (check_lifetime P s2 now)) = peer_id P s2 /\ my_id P (fst (check_lifetime P s2 now)) = my_id P s2).
    { unfold check_lifetime. destruct (Z.eqb (state P s2) ST_ESTABLISHED); [|split; reflexivity].
      destruct (life_delete_due (del_at P s2) now).
      - destruct (gen_delete_ike P (inner P s2)) as [i' [exch body]]. split; reflexivity.
      - destruct (life_rekey_due (rek_at P s2) now); [|split; reflexivity].
        destruct (gen_rekey_ike P (inner P s2)) as [i' [exch body]]. split; reflexivity. }
    destruct (check_lifetime P s2 now) as [s3 o3]. cbn [fst] in *.
    destruct H1, H2, H3. split; congruence.
  Qed.

  (* ---------------------------------------------------------------- whole histories *)
  Definition executed_id (s : sa) (e : sevent) : list Z :=
    match e with
    | SMsg m _ => if executes s m then [h_id (p_hdr m)] else []
    | _ => []
    end.

  (** message IDs of the requests whose handler ran, in order, over a history *)
  Fixpoint executed_ids (es : list sevent) (s : sa) : list Z :=
    match es with
    | [] => []
    | e :: r => executed_id s e ++ executed_ids r (sstep s e)
    end.

  Lemma step_peer_id s e : peer_id P (sstep s e) = peer_id P s + Z.of_nat (length (executed_id s e)) /\
                           (forall z, In z (executed_id s e) -> z = peer_id P s).
  Proof.
    destruct e as [m now|ev now|now]; unfold sstep, sstep_out, executed_id.
    - destruct (message_step s m now) as (A & Bq & _).
      destruct (process_message P s m now) as [s' o]. cbn [fst] in *. rewrite A.
      destruct (executes s m); cbn; (split; [lia|]); intros z Hz.
      + destruct Hz as [<-|[]]. apply Bq. reflexivity.
      + destruct Hz.
    - destruct (trigger_ids s now ev) as [A _].
      destruct (process_trigger P s now ev) as [s' o]. cbn [fst] in *. rewrite A. cbn. split; [lia|intros z []].
    - destruct (full_sweep_ids s now) as [A _]. rewrite A. cbn. split; [lia|intros z []].
  Qed.

  Fixpoint count_from (z : Z) (n : nat) : list Z :=
    match n with O => [] | S k => z :: count_from (z + 1) k end.

  Lemma count_from_app z n m : count_from z (n + m) = count_from z n ++ count_from (z + Z.of_nat n) m.
  Proof.
    revert z. induction n as [|n IH]; intros z; cbn [count_from Nat.add app].
    - replace (z + Z.of_nat 0) with z by lia. reflexivity.
    - rewrite IH. replace (z + 1 + Z.of_nat n) with (z + Z.of_nat (S n)) by lia. reflexivity.
  Qed.

  Lemma count_from_lt z n x : In x (count_from z n) -> z <= x.
  Proof. revert z. induction n as [|n IH]; intros z; cbn; [tauto|]. intros [<-|H]; [lia|]. apply IH in H. lia. Qed.

  Lemma count_from_nodup z n : NoDup (count_from z n).
  Proof.
    revert z. induction n as [|n IH]; intros z; cbn; constructor; [|apply IH].
    intros H. apply count_from_lt in H. lia.
  Qed.

  (** over every history the executed request IDs are peer_id, peer_id+1, ... and the receive counter ends just
      after the last of them *)
  Lemma executed_ids_consecutive (es : list sevent) : forall s,
    executed_ids es s = count_from (peer_id P s) (length (executed_ids es s)) /\
    peer_id P (fold_left sstep es s) = peer_id P s + Z.of_nat (length (executed_ids es s)).
  Proof.
    induction es as [|e r IH]; intros s; [cbn; split; [reflexivity|lia]|].
    cbn [executed_ids fold_left]. destruct (step_peer_id s e) as [Hp Hin]. destruct (IH (sstep s e)) as [A Bq].
    rewrite app_length, count_from_app. split.
    - rewrite <- Hp, <- A. f_equal.
      destruct e as [m now|ev now|now]; cbn [executed_id] in *; try reflexivity.
      destruct (executes s m); [|reflexivity]. cbn. f_equal. apply Hin. left. reflexivity.
    - rewrite Bq, Hp. lia.
  Qed.

  (** no request ID is executed twice, whatever is replayed, duplicated or reordered *)
  Lemma executed_at_most_once (es : list sevent) (s : sa) : NoDup (executed_ids es s).
  Proof. destruct (executed_ids_consecutive es s) as [-> _]. apply count_from_nodup. Qed.

  (** the send counter over one event *)
  Lemma step_my_id s e :
    my_id P (sstep s e) = my_id P s \/
    (exists m now, e = SMsg m now /\ accepts s m = true /\ h_id (p_hdr m) = my_id P s /\ h_resp (p_hdr m) = true /\
                   (my_id P (sstep s e) = my_id P s + 1 \/ my_id P (sstep s e) = 0)).
  Proof.
    destruct e as [m now|ev now|now]; unfold sstep, sstep_out.
    - destruct (message_step s m now) as (_ & _ & Cq & Dq).
      destruct (process_message P s m now) as [s' o]. cbn [fst] in *.
      destruct (accepts s m) eqn:E; [right|left; apply Cq; reflexivity].
      exists m, now. destruct (Dq eq_refl) as (X & Y & Zq). repeat split; assumption.
    - destruct (trigger_ids s now ev) as [_ A]. destruct (process_trigger P s now ev) as [s' o]. left. exact A.
    - destruct (full_sweep_ids s now) as [_ A]. left. exact A.
  Qed.

  (* ---------------------------------------------------------------- forged messages are invisible (C03) *)
  (** the event is a message that failed the integrity check, arriving at an IKE_SA that has keys *)
  Definition forged (s : sa) (e : sevent) : bool :=
    match e with
    | SMsg m _ => andb (has_keys P (inner P s)) (negb (p_auth m))
    | _ => false
    end.

  (** the history with every forged message struck out (decided against the state of the moment) *)
  Fixpoint run_without_forged (es : list sevent) (s : sa) : sa :=
    match es with
    | [] => s
    | e :: r => if forged s e then run_without_forged r s else run_without_forged r (sstep s e)
    end.

  Lemma forged_step s e : forged s e = true -> sstep s e = s.
  Proof.
    destruct e as [m now|ev now|now]; cbn [forged]; try discriminate.
    intros H. apply andb_prop in H. destruct H as [Hk Ha].
    assert (Ha' : p_auth m = false) by (destruct (p_auth m); [discriminate|reflexivity]).
    unfold sstep, sstep_out.
    destruct (unauthenticated_no_effect P s m now Hk Ha') as [->|[-> _]]; reflexivity.
  Qed.

  (** Whatever an attacker without the keys injects, wherever in the history, the IKE_SA ends in exactly the
      state it would have reached without those datagrams. *)
  Lemma forged_messages_invisible (es : list sevent) : forall s,
    fold_left sstep es s = run_without_forged es s.
  Proof.
    induction es as [|e r IH]; intros s; [reflexivity|].
    cbn [fold_left run_without_forged]. destruct (forged s e) eqn:E.
    - rewrite (forged_step s e E). apply IH.
    - apply IH.
  Qed.

  (** and all they can obtain is nothing, or a copy of the stored IKE_SA_INIT response *)
  Lemma forged_output s e : forged s e = true ->
    snd (sstep_out s e) = [] \/ exists d, last_resp P s = Some d /\ snd (sstep_out s e) = [d].
  Proof.
    destruct e as [m now|ev now|now]; cbn [forged]; try discriminate.
    intros H. apply andb_prop in H. destruct H as [Hk Ha].
    assert (Ha' : p_auth m = false) by (destruct (p_auth m); [discriminate|reflexivity]).
    unfold sstep_out.
    destruct (unauthenticated_no_effect P s m now Hk Ha') as [->|[-> _]]; [left; reflexivity|].
    destruct (last_resp P s) as [d|]; [right; exists d; split; reflexivity|left; reflexivity].
  Qed.

End Trace.

(* -------------------------------------------------------------------- one request outstanding at a time *)
(** the request generators of ikesa.py *)
Definition request_generators : list nat :=
  [FN_generate_ike_sa_init_request; FN_generate_ike_auth_request; FN_generate_rekey_ike_sa_request;
   FN_generate_create_child_sa_request; FN_generate_delete_child_sa_request;
   FN_generate_dead_peer_detection_request; FN_generate_delete_ike_sa_request].

Definition assigned_by (f : nat) : list Z :=
  concat (map (fun '(g, sts) => if Nat.eqb f g then sts else []) assigns).

(** A fresh request is built only where no request is outstanding, and building one makes one outstanding:
    - every generator assigns only states in which the retransmission timer is armed (regenerated table);
    - a local trigger is served only in INITIAL / ESTABLISHED, the DPD and lifetime timers only in ESTABLISHED,
      and in none of these a request is outstanding; every other trigger is queued;
    so together with [step_my_id] consecutive fresh requests carry consecutive message IDs. *)
Lemma one_request_outstanding :
  (forall f, In f request_generators ->
             assigned_by f <> [] /\ forallb rt_states (assigned_by f) = true) /\
  (forall st, acquire_must_queue st = false -> rt_states st = false) /\
  (forall st, expire_must_queue st = false -> rt_states st = false) /\
  (forall at_ now st, dpd_due at_ now st = true -> rt_states st = false) /\
  rt_states ST_ESTABLISHED = false.
Proof.
  split; [|split; [|split; [|split]]].
  - intros f Hf. cbn in Hf.
    repeat (destruct Hf as [<-|Hf]; [split; [discriminate|reflexivity]|]). destruct Hf.
  - intros st. unfold acquire_must_queue, rt_states, ST_INITIAL, ST_ESTABLISHED, ST_NEW_CHILD_REQ_SENT, ST_REKEYED,
      ST_INIT_REQ_SENT, ST_AUTH_REQ_SENT. lia.
  - intros st. unfold expire_must_queue, rt_states, ST_ESTABLISHED, ST_NEW_CHILD_REQ_SENT, ST_REKEYED,
      ST_INIT_REQ_SENT, ST_AUTH_REQ_SENT. lia.
  - intros a n st. unfold dpd_due, rt_states, ST_ESTABLISHED, ST_NEW_CHILD_REQ_SENT, ST_REKEYED,
      ST_INIT_REQ_SENT, ST_AUTH_REQ_SENT. lia.
  - reflexivity.
Qed.

