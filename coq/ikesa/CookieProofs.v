From Coq Require Import ZArith Bool List Lia ZifyBool.
From VLib Require Import Bytes.
From IkeSa Require Import Gen.IkeFacts Cookie Controller.
Import ListNotations.
Open Scope Z_scope.

Lemma bytes_eqb_eq a b : bytes_eqb a b = true <-> a = b.
Proof.
  revert b. induction a as [|x r IH]; intros [|y s]; cbn; split; intros H; try reflexivity; try discriminate.
  - apply andb_true_iff in H. destruct H as [H1 H2]. apply N.eqb_eq in H1. apply IH in H2. now subst.
  - inversion H; subst. apply andb_true_iff. split; [apply N.eqb_refl|apply IH; reflexivity].
Qed.

Section Proofs.
  Variable mac : bytes -> bytes -> bytes.

  Lemma no_cookie_no_work k spi_i nonce addr cookies :
    (cookies = [] \/ exists c r, cookies = c :: r /\ c <> expected_cookie mac k spi_i nonce addr) ->
    request_prefix mac (Some k) true true true spi_i nonce addr cookies
    = (CookieRequired (expected_cookie mac k spi_i nonce addr), O).
  Proof.
    intros H. unfold request_prefix, cookie_reject. cbn [andb negb].
    destruct H as [->|(c & r & -> & Hne)]; cbn [length Z.of_nat]; [reflexivity|].
    destruct (bytes_eqb c (expected_cookie mac k spi_i nonce addr)) eqn:E.
    - apply bytes_eqb_eq in E. contradiction.
    - replace (Z.eqb (Z.of_nat (S (length r))) 0) with false by (symmetry; apply Z.eqb_neq; lia). reflexivity.
  Qed.

  Lemma accepted_cookie_is_bound k has_sa has_nonce has_ke spi_i nonce addr cookies n :
    request_prefix mac (Some k) has_sa has_nonce has_ke spi_i nonce addr cookies = (Proceed, n) ->
    n = O /\ exists r, cookies = expected_cookie mac k spi_i nonce addr :: r.
  Proof.
    unfold request_prefix, cookie_reject.
    destruct (negb (has_sa && has_nonce && has_ke)); [discriminate|].
    destruct cookies as [|c r]; cbn [length Z.of_nat].
    - cbn. discriminate.
    - destruct (bytes_eqb c (expected_cookie mac k spi_i nonce addr)) eqn:E.
      + apply bytes_eqb_eq in E. subst c.
        destruct (orb _ _); intros H; inversion H. split; [reflexivity|]. exists r. reflexivity.
      + rewrite orb_true_r. discriminate.
  Qed.

  Lemma prefix_never_calls_dh secret a b c spi_i nonce addr cookies :
    snd (request_prefix mac secret a b c spi_i nonce addr cookies) = O.
  Proof.
    unfold request_prefix. destruct (negb (a && b && c)); [reflexivity|]. destruct secret; [|reflexivity].
    destruct (cookie_reject _ _); reflexivity.
  Qed.

  Lemma malformed_request_no_work secret a b c spi_i nonce addr cookies :
    a && b && c = false -> request_prefix mac secret a b c spi_i nonce addr cookies = (PayloadMissing, O).
  Proof. intros H. unfold request_prefix. rewrite H. reflexivity. Qed.

End Proofs.

(** the controller arms the cookie secret exactly when more than [cookie_threshold] table entries (the new one
    included) are below ESTABLISHED *)
Lemma threshold_spec (n : Z) : dispatch_arm_cookie n = true <-> n > cookie_threshold.
Proof. unfold dispatch_arm_cookie. rewrite Z.gtb_ltb. split; intros H; [apply Z.ltb_lt in H|apply Z.ltb_lt]; lia. Qed.

Lemma retry_spec {A} (payloads : list A) (cookie : A) :
  fst (cookie_retry payloads cookie) = cookie :: payloads /\ snd (cookie_retry payloads cookie) = 0 /\
  tl (fst (cookie_retry payloads cookie)) = payloads.
Proof. repeat split. Qed.
