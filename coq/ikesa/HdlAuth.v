(** C02 for the concrete handler model of Hdl.v: nothing is established or installed from a pre-established state
    except by the two IKE_AUTH handlers after the peer's AUTH payload verified over the exact octets.

    The first half of the file is a small program logic for the handler monad (weakest preconditions [wp], field
    preservation [keeps]) which HdlTrans.v uses too. *)
From Coq Require Import ZArith NArith Bool List Lia ZifyBool.
From RecordUpdate Require Import RecordSet.
From VLib Require Import Bytes.
From IkeSa Require Import Gen.IkeFacts Shell Hdl.
Import ListNotations RecordSetNotations.
Open Scope Z_scope.

(* ------------------------------------------------------------------------------------------------ *)
(** * Program logic *)

Definition wp {A} (m : H A) (s : isa) (Q : res A -> isa -> Prop) : Prop := Q (fst (m s)) (snd (m s)).

Lemma wp_ret {A} (a : A) s (Q : res A -> isa -> Prop) : Q (Ok a) s -> wp (ret a) s Q.
Proof. exact (fun h => h). Qed.
Lemma wp_raise {A} e s (Q : res A -> isa -> Prop) : Q (Raise e) s -> wp (raise e) s Q.
Proof. exact (fun h => h). Qed.
Lemma wp_stuck {A} s (Q : res A -> isa -> Prop) : Q Stuck s -> wp stuck s Q.
Proof. exact (fun h => h). Qed.
Lemma wp_get s (Q : res isa -> isa -> Prop) : Q (Ok s) s -> wp get s Q.
Proof. exact (fun h => h). Qed.
Lemma wp_getc s (Q : res core -> isa -> Prop) : Q (Ok (co s)) s -> wp getc s Q.
Proof. exact (fun h => h). Qed.
Lemma wp_modify f s (Q : res unit -> isa -> Prop) : Q (Ok tt) (f s) -> wp (modify f) s Q.
Proof. exact (fun h => h). Qed.
Lemma wp_bind {A B} (m : H A) (f : A -> H B) s (Q : res B -> isa -> Prop) :
  wp m s (fun r s1 => match r with Ok a => wp (f a) s1 Q | Raise e => Q (Raise e) s1 | Stuck => Q Stuck s1 end) ->
  wp (bind m f) s Q.
Proof. unfold wp, bind. destruct (m s) as [[a|e|] s1]; cbn [fst snd]; auto. Qed.
Lemma wp_try {A} (m : H A) h s (Q : res A -> isa -> Prop) :
  wp m s (fun r s1 => match r with
                      | Raise e => match h e with Some k => wp k s1 Q | None => Q (Raise e) s1 end
                      | _ => Q r s1
                      end) ->
  wp (try_catch m h) s Q.
Proof. unfold wp, try_catch. destruct (m s) as [[a|e|] s1]; cbn [fst snd]; auto. destruct (h e); auto. Qed.
Lemma wp_conseq {A} (m : H A) s (Q Q' : res A -> isa -> Prop) :
  wp m s Q -> (forall r s1, Q r s1 -> Q' r s1) -> wp m s Q'.
Proof. unfold wp. auto. Qed.
Lemma wp_any {A} (m : H A) s (Q : res A -> isa -> Prop) : (forall r s1, Q r s1) -> wp m s Q.
Proof. unfold wp. auto. Qed.
Lemma wp_of_opt {A} (o : option A) e s (Q : res A -> isa -> Prop) :
  (forall a, o = Some a -> Q (Ok a) s) -> (o = None -> Q (Raise e) s) -> wp (of_opt o e) s Q.
Proof. destruct o; unfold wp; cbn; auto. Qed.
Lemma wp_get_payload m k enc s (Q : res payload -> isa -> Prop) :
  (forall p rest, get_payloads m k enc = p :: rest -> Q (Ok p) s) ->
  (get_payloads m k enc = [] -> Q (Raise X_PayloadNotFound) s) -> wp (get_payload m k enc) s Q.
Proof. unfold get_payload. destruct (get_payloads m k enc); unfold wp; cbn; eauto. Qed.
Lemma wp_check_in_states l s (Q : res unit -> isa -> Prop) :
  (memZ (st (co s)) l = true -> Q (Ok tt) s) -> (memZ (st (co s)) l = false -> Q (Raise X_StateError) s) ->
  wp (check_in_states l) s Q.
Proof. unfold check_in_states, wp, bind, getc. cbn. destruct (memZ (st (co s)) l); cbn; auto. Qed.
Lemma wp_assert_state l s (Q : res unit -> isa -> Prop) :
  (memZ (st (co s)) l = true -> Q (Ok tt) s) -> (memZ (st (co s)) l = false -> Q (Raise X_Other) s) ->
  wp (assert_state l) s Q.
Proof. unfold assert_state, wp, bind, getc. cbn. destruct (memZ (st (co s)) l); cbn; auto. Qed.

(** [keeps p m]: whatever happens (Ok, Raise, Stuck), running [m] leaves the observation [p] of the state alone *)
Definition keeps {X A} (p : isa -> X) (m : H A) : Prop := forall s, p (snd (m s)) = p s.

Section Keeps.
  Context {X : Type} (p : isa -> X).
  Lemma keeps_ret {A} (a : A) : keeps p (ret a). Proof. intro; reflexivity. Qed.
  Lemma keeps_raise {A} e : keeps p (@raise A e). Proof. intro; reflexivity. Qed.
  Lemma keeps_stuck {A} : keeps p (@stuck A). Proof. intro; reflexivity. Qed.
  Lemma keeps_get : keeps p get. Proof. intro; reflexivity. Qed.
  Lemma keeps_getc : keeps p getc. Proof. intro; reflexivity. Qed.
  Lemma keeps_modify f : (forall s, p (f s) = p s) -> keeps p (modify f).
  Proof. intros h s. apply h. Qed.
  Lemma keeps_bind {A B} (m : H A) (f : A -> H B) : keeps p m -> (forall a, keeps p (f a)) -> keeps p (bind m f).
  Proof.
    intros hm hf s. unfold bind. specialize (hm s). destruct (m s) as [[a|e|] s1]; cbn [snd] in *; auto.
    rewrite hf. exact hm.
  Qed.
  Lemma keeps_try {A} (m : H A) h : keeps p m -> (forall e k, h e = Some k -> keeps p k) -> keeps p (try_catch m h).
  Proof.
    intros hm hh s. unfold try_catch. specialize (hm s). destruct (m s) as [[a|e|] s1]; cbn [snd] in *; auto.
    destruct (h e) eqn:He; cbn [snd]; auto. rewrite (hh _ _ He). exact hm.
  Qed.
  Lemma keeps_pop : (forall s t, p (s <| tape := t |>) = p s) -> keeps p pop.
  Proof. intros h s. unfold pop. destruct (tape s); cbn [snd]; auto. Qed.
  Lemma keeps_of_opt {A} (o : option A) e : keeps p (of_opt o e).
  Proof. destruct o; intro; reflexivity. Qed.
  Lemma keeps_get_payload m k enc : keeps p (get_payload m k enc).
  Proof. unfold get_payload. destruct (get_payloads m k enc); intro; reflexivity. Qed.
  Lemma wp_keeps {A} (m : H A) s (Q : res A -> isa -> Prop) :
    keeps p m -> (forall r s1, p s1 = p s -> Q r s1) -> wp m s Q.
  Proof. intros hk hq. unfold wp. apply hq. apply hk. Qed.
End Keeps.

(** the side conditions of [keeps_modify]/[keeps_pop] for a concrete projection *)
Ltac keeps_side :=
  intros;
  first [ reflexivity
        | match goal with w : bool |- _ => destruct w; reflexivity end
        | match goal with s : isa |- _ => destruct s; reflexivity end ].

Create HintDb kp discriminated.

Ltac keeps_step :=
  match goal with
  | |- keeps _ (bind _ _) => apply keeps_bind; [ | intros ]
  | |- keeps _ (ret _) => apply keeps_ret
  | |- keeps _ (raise _) => apply keeps_raise
  | |- keeps _ stuck => apply keeps_stuck
  | |- keeps _ get => apply keeps_get
  | |- keeps _ getc => apply keeps_getc
  | |- keeps _ pop => apply keeps_pop; keeps_side
  | |- keeps _ (of_opt _ _) => apply keeps_of_opt
  | |- keeps _ (get_payload _ _ _) => apply keeps_get_payload
  | |- keeps _ (modify _) => apply keeps_modify; keeps_side
  | |- keeps _ (try_catch _ _) => apply keeps_try; [ | intros ? ? ?Hcatch ]
  | |- keeps _ (if ?b then _ else _) => destruct b
  | |- keeps _ (match ?x with _ => _ end) => destruct x
  | |- keeps _ (let (_, _) := ?x in _) => destruct x
  | |- keeps _ _ => solve [ auto with kp ]
  end.

Ltac keeps_prim :=
  progress unfold draw_bytes, draw_num, draw_dh, draw_verdict, emit, modc, modw, getw, when, set_state, first_prop,
    get_transform, one_ts, select_best, ser_opt, amsg_nonce, req_get, fresh_nonce, my_sk_p, peer_sk_p, set_request,
    assert_state, check_in_states, gen_keys, abort_on_error_notifies, get_ipsec_configuration.

Ltac keeps_go := repeat (first [ keeps_step | progress cbv beta | keeps_prim ]).

(** the observations used below *)
Definition ob_st (s : isa) : Z := st (co s).
Definition ob_frame (s : isa) := (st (co s), children (co s), kops s, new_sa s).
Lemma keeps_frame_st {A} (m : H A) : keeps ob_frame m -> keeps ob_st m.
Proof. intros h s. specialize (h s). unfold ob_frame in h. unfold ob_st. congruence. Qed.

Section HelperFacts.
  Variable E : env.

  Lemma fresh_nonce_frame : keeps ob_frame fresh_nonce. Proof. keeps_go. Qed.
  Lemma gen_auth_frame a b c d e : keeps ob_frame (gen_auth E a b c d e). Proof. unfold gen_auth. keeps_go. Qed.
  Lemma verify_auth_frame a b c d e f : keeps ob_frame (verify_auth E a b c d e f).
  Proof. unfold verify_auth. keeps_go. Qed.
  Lemma check_peer_id_frame a : keeps ob_frame (check_peer_id a). Proof. unfold check_peer_id. keeps_go. Qed.
  Lemma handle_invalid_ke_frame n : keeps ob_frame (handle_invalid_ke n).
  Proof. unfold handle_invalid_ke. keeps_go. Qed.
  Lemma gen_child_nego_req_frame c : keeps ob_frame (gen_child_nego_req c).
  Proof. unfold gen_child_nego_req. keeps_go. Qed.
  Lemma ike_nego_request_frame m enc old : keeps ob_frame (ike_nego_request E false m enc old).
  Proof. unfold ike_nego_request. keeps_go. Qed.
  Lemma ike_nego_response_frame m n enc old : keeps ob_frame (ike_nego_response E false m n enc old).
  Proof. unfold ike_nego_response. keeps_go. Qed.
  Lemma gen_ike_nego_request_frame : keeps ob_frame (gen_ike_nego_request false).
  Proof. unfold gen_ike_nego_request. keeps_go. Qed.
End HelperFacts.

(* ------------------------------------------------------------------------------------------------ *)
(** * C02: the acceptance condition of the IKE_AUTH handlers, made explicit *)

(** first cleartext NONCE payload of a stored IKE_SA_INIT message *)
Definition first_nonce (x : amsg) : option bytes :=
  match filter (fun p => pkind_eqb (kind_of p) K_NONCE) (fst (snd x)) with P_NONCE n :: _ => Some n | _ => None end.

(** the AUTH value [data] of method [meth] is valid for the octets
    [msgdata | nonce | prf(SK_p of the peer, ID body)] under the peer credentials configured in [c] *)
Definition auth_ok (E : env) (c : core) (cp : proposal) (msgdata nonce skp : bytes) (t : Z) (d : bytes)
  (meth : Z) (data : bytes) : Prop :=
  let octets := msgdata ++ nonce ++ e_prf E cp skp (id_bytes t d) in
  let a := cf_peer_auth (cfg c) in
  (meth = AUTH_PSK /\ exists psk, a_psk a = Some psk /\ psk <> [] /\
                                  data = e_prf E cp (e_prf E cp psk KEYPAD) octets)
  \/ (meth = AUTH_RSA /\ a_pub a = true /\ e_verify E data octets = true).

Definition peer_skp_of (c : core) (k : keyring) : bytes := if c_init c then sk_pr k else sk_pi k.

(** responder: IDi and AUTH of the IKE_AUTH request, octets over the IKE_SA_INIT REQUEST this endpoint received and
    the nonce of the IKE_SA_INIT RESPONSE it sent *)
Definition auth_accepts_resp (E : env) (c : core) (m : pmsg body) : Prop :=
  exists t d meth data rq rs nr k cp,
    hd_error (get_payloads m K_IDi true) = Some (P_IDi t d) /\
    t = a_id_type (cf_peer_auth (cfg c)) /\ d = a_id_data (cf_peer_auth (cfg c)) /\
    hd_error (get_payloads m K_AUTH true) = Some (P_AUTH meth data) /\
    init_req c = Some rq /\ init_res c = Some rs /\ first_nonce rs = Some nr /\
    kr c = Some k /\ cprop c = Some cp /\
    auth_ok E c cp (e_ser E rq) nr (peer_skp_of c k) t d meth data.

(** initiator: IDr and AUTH of the IKE_AUTH response, octets over the IKE_SA_INIT RESPONSE this endpoint received
    and the nonce of the IKE_SA_INIT REQUEST it sent *)
Definition auth_accepts_init (E : env) (c : core) (m : pmsg body) : Prop :=
  exists t d meth data rq rs ni k cp,
    hd_error (get_payloads m K_IDr true) = Some (P_IDr t d) /\
    t = a_id_type (cf_peer_auth (cfg c)) /\ d = a_id_data (cf_peer_auth (cfg c)) /\
    hd_error (get_payloads m K_AUTH true) = Some (P_AUTH meth data) /\
    init_req c = Some rq /\ init_res c = Some rs /\ first_nonce rq = Some ni /\
    kr c = Some k /\ cprop c = Some cp /\
    auth_ok E c cp (e_ser E rs) ni (peer_skp_of c k) t d meth data.

Lemma bytes_eqb_true a b : bytes_eqb a b = true -> a = b.
Proof. unfold bytes_eqb. destruct (list_eq_dec N.eq_dec a b); [auto|discriminate]. Qed.
Lemma truthy_some o : truthy o = true -> exists k, o = Some k /\ k <> [].
Proof. destruct o as [[|x k]|]; cbn; try discriminate. intros _. eexists; split; [reflexivity|discriminate]. Qed.

Lemma get_payloads_kind m k enc p rest : get_payloads m k enc = p :: rest -> kind_of p = k.
Proof.
  intros h. assert (hin : In p (get_payloads m k enc)) by (rewrite h; left; reflexivity).
  unfold get_payloads in hin. apply filter_In in hin. destruct hin as [_ hk].
  destruct (kind_of p), k; cbn in hk; congruence.
Qed.

Section AuthSteps.
  Variable E : env.

  Lemma wp_ser_opt o s (Q : res bytes -> isa -> Prop) :
    (forall x, o = Some x -> Q (Ok (e_ser E x)) s) -> (o = None -> Q (Raise X_Other) s) -> wp (ser_opt E o) s Q.
  Proof. destruct o; unfold wp; cbn; auto. Qed.

  Lemma wp_amsg_nonce o s (Q : res bytes -> isa -> Prop) :
    (forall x n, o = Some x -> first_nonce x = Some n -> Q (Ok n) s) -> (forall e, Q (Raise e) s) ->
    wp (amsg_nonce o) s Q.
  Proof.
    intros hok hbad. unfold amsg_nonce. destruct o as [[h [clear enc]]|]; [|apply hbad].
    specialize (hok (h, (clear, enc))). unfold first_nonce in hok. cbn [fst snd] in hok.
    destruct (filter (fun p => pkind_eqb (kind_of p) K_NONCE) clear) as [|[] l]; try apply hbad.
    apply (hok n); reflexivity.
  Qed.

  Lemma wp_peer_sk_p c s (Q : res bytes -> isa -> Prop) :
    (forall k cp, kr c = Some k -> cprop c = Some cp -> Q (Ok (peer_skp_of c k)) s) -> (forall e, Q (Raise e) s) ->
    wp (peer_sk_p c) s Q.
  Proof.
    intros hok hbad. unfold peer_sk_p, peer_skp_of in *. destruct (kr c) as [k|]; [|apply hbad].
    destruct (cprop c) as [cp|]; [|apply hbad]. apply (hok k cp); reflexivity.
  Qed.

  Lemma wp_check_peer_id p s (Q : res (Z * bytes) -> isa -> Prop) :
    (forall t d, p = P_IDi t d \/ p = P_IDr t d -> t = a_id_type (cf_peer_auth (cfg (co s))) ->
                 d = a_id_data (cf_peer_auth (cfg (co s))) -> Q (Ok (t, d)) s) ->
    (forall e, Q (Raise e) s) -> wp (check_peer_id p) s Q.
  Proof.
    intros hok hbad. unfold check_peer_id, wp, bind, getc. cbn [fst snd].
    destruct p; try apply hbad.
    - destruct (Z.eqb t _) eqn:e1; cbn [negb]; [|apply hbad].
      destruct (bytes_eqb d _) eqn:e2; cbn [negb]; [|apply hbad].
      apply hok; [left; reflexivity|lia|apply bytes_eqb_true; exact e2].
    - destruct (Z.eqb t _) eqn:e1; cbn [negb]; [|apply hbad].
      destruct (bytes_eqb d _) eqn:e2; cbn [negb]; [|apply hbad].
      apply hok; [right; reflexivity|lia|apply bytes_eqb_true; exact e2].
  Qed.

  Lemma wp_verify_auth pa msgdata nonce t d skp s (Q : res unit -> isa -> Prop) :
    (forall meth data cp, pa = P_AUTH meth data -> cprop (co s) = Some cp ->
                          auth_ok E (co s) cp msgdata nonce skp t d meth data -> Q (Ok tt) s) ->
    (forall e, Q (Raise e) s) -> wp (verify_auth E pa msgdata nonce t d skp) s Q.
  Proof.
    intros hok hbad. unfold verify_auth, wp, bind, getc. cbn [fst snd].
    destruct (cprop (co s)) as [cp|] eqn:hcp; cbn [of_opt ret raise fst snd]; [|apply hbad].
    destruct pa; try apply hbad.
    destruct (Z.eqb m AUTH_PSK && truthy (a_psk (cf_peer_auth (cfg (co s))))) eqn:e1.
    - apply andb_true_iff in e1. destruct e1 as [e1 e2]. apply truthy_some in e2. destruct e2 as [psk [e2 e3]].
      rewrite e2. destruct (bytes_eqb _ d0) eqn:e4; [|apply hbad]. apply bytes_eqb_true in e4.
      apply (hok m d0 cp eq_refl eq_refl). left. split; [lia|]. exists psk. repeat split; auto.
    - destruct (Z.eqb m AUTH_RSA && a_pub (cf_peer_auth (cfg (co s)))) eqn:e2; [|apply hbad].
      apply andb_true_iff in e2. destruct e2 as [e2 e3].
      destruct (e_verify E d0 _) eqn:e4; [|apply hbad].
      apply (hok m d0 cp eq_refl eq_refl). right. split; [lia|]. split; auto.
  Qed.
End AuthSteps.

Lemma wp_abort m enc ign s (Q : res unit -> isa -> Prop) :
  Q (Ok tt) s -> Q (Raise X_IkeSaError) s -> wp (abort_on_error_notifies m enc ign) s Q.
Proof. intros h1 h2. unfold abort_on_error_notifies. destruct (existsb _ _); assumption. Qed.

(** one step of a handler whose head is a read-only primitive *)
Ltac wp_pure :=
  apply wp_bind;
  first [ apply wp_check_in_states | apply wp_assert_state | apply wp_get_payload | apply wp_getc | apply wp_get
        | apply wp_ser_opt | apply wp_amsg_nonce | apply wp_peer_sk_p | apply wp_check_peer_id | apply wp_verify_auth
        | apply wp_abort | apply wp_of_opt ];
  cbv beta iota.

Definition frame_or (s0 : isa) (P : Prop) {A} : res A -> isa -> Prop := fun _ s' => ob_frame s' = ob_frame s0 \/ P.

Lemma auth_request_gate E m s :
  wp (process_ike_auth_request E m) s
     (frame_or s (st (co s) = ST_INIT_RES_SENT /\ auth_accepts_resp E (co s) m)).
Proof.
  unfold process_ike_auth_request, frame_or.
  wp_pure; [intros hst|intros _; left; reflexivity].
  wp_pure; [intros pid rid hid|intros _; left; reflexivity].
  wp_pure; [intros pa ra hau|intros _; left; reflexivity].
  wp_pure.
  wp_pure; [intros rq hrq|intros _; left; reflexivity].
  wp_pure; [intros rs hrs|intros _; left; reflexivity].
  wp_pure; [intros t d hp ht hd|intros e; left; reflexivity].
  wp_pure; [intros rs' nr hrs' hnr|intros e; left; reflexivity].
  wp_pure; [intros rq' hrq'|intros _; left; reflexivity].
  wp_pure; [intros k cp hk hcp|intros e; left; reflexivity].
  wp_pure; [intros meth data cp' hpa hcp' hok|intros e; left; reflexivity].
  apply wp_any. intros _ s1. right. split.
  - unfold memZ, existsb in hst. lia.
  - cbn [fst snd] in *.
    assert (hkind : kind_of pid = K_IDi) by (eapply get_payloads_kind; eassumption).
    destruct hp as [-> | ->]; [|discriminate hkind].
    subst pa. rewrite hrs in hrs'. injection hrs' as <-. rewrite hrq in hrq'. injection hrq' as <-.
    rewrite hcp in hcp'. injection hcp' as <-.
    exists t, d, meth, data, rq, rs, nr, k, cp.
    rewrite hid, hau. cbn [hd_error]. repeat split; auto.
Qed.

Lemma auth_response_gate E m s :
  wp (process_ike_auth_response E m) s
     (frame_or s (st (co s) = ST_AUTH_REQ_SENT /\ auth_accepts_init E (co s) m)).
Proof.
  unfold process_ike_auth_response, frame_or.
  wp_pure; [intros hst|intros _; left; reflexivity].
  wp_pure; [|left; reflexivity].
  wp_pure; [intros pid rid hid|intros _; left; reflexivity].
  wp_pure; [intros pa ra hau|intros _; left; reflexivity].
  wp_pure; [intros t d hp ht hd|intros e; left; reflexivity].
  wp_pure.
  wp_pure; [intros rq ni hrq hni|intros e; left; reflexivity].
  wp_pure; [intros rs hrs|intros _; left; reflexivity].
  wp_pure; [intros k cp hk hcp|intros e; left; reflexivity].
  wp_pure; [intros meth data cp' hpa hcp' hok|intros e; left; reflexivity].
  apply wp_any. intros _ s1. right. split.
  - unfold memZ, existsb in hst. lia.
  - cbn [fst snd] in *.
    assert (hkind : kind_of pid = K_IDr) by (eapply get_payloads_kind; eassumption).
    destruct hp as [-> | ->]; [discriminate hkind|].
    subst pa. rewrite hcp in hcp'. injection hcp' as <-.
    exists t, d, meth, data, rq, rs, ni, k, cp.
    rewrite hid, hau. cbn [hd_error]. repeat split; auto.
Qed.

(* ------------------------------------------------------------------------------------------------ *)
(** * Entry points from a pre-established state *)

Ltac st_consts :=
  unfold ike_rekey_while_busy, child_request_while_ike_busy, rekey_child_being_deleted, rekey_child_being_rekeyed in *;
  unfold ST_INITIAL, ST_INIT_RES_SENT, ST_INIT_REQ_SENT, ST_AUTH_REQ_SENT, ST_ESTABLISHED, ST_NEW_CHILD_REQ_SENT,
    ST_REK_CHILD_REQ_SENT, ST_REK_IKE_SA_REQ_SENT, ST_DEL_CHILD_REQ_SENT, ST_DEL_IKE_SA_REQ_SENT,
    ST_DEL_AFTER_REKEY_IKE_SA_REQ_SENT, ST_DPD_REQ_SENT, ST_REKEYED, ST_DELETED in *.
Ltac st_lia := unfold memZ, existsb in *; st_consts; lia.

(** nothing was established, installed, added to the CHILD_SAs or prepared as a successor *)
Definition nochange (s s' : isa) : Prop :=
  children (co s') = children (co s) /\ kops s' = kops s /\ new_sa s' = new_sa s /\ st (co s') < ST_ESTABLISHED.

Lemma nochange_of_frame s s' : st (co s) < ST_ESTABLISHED -> ob_frame s' = ob_frame s -> nochange s s'.
Proof. intros hpre h. unfold ob_frame in h. injection h as h1 h2 h3 h4. unfold nochange. rewrite h1. auto. Qed.
Lemma nochange_stuck s s' : nochange s s' -> nochange s (stuck_state s').
Proof. unfold nochange, stuck_state. cbn. intros (h1 & h2 & h3 & h4). repeat split; auto; try st_lia. Qed.
Lemma frame_clear s : ob_frame (clear_flags s) = ob_frame s.
Proof. reflexivity. Qed.
Lemma nochange_clear s s' : nochange (clear_flags s) s' -> nochange s s'.
Proof. exact (fun h => h). Qed.

Lemma memZ_states_range z lo hi : memZ z (states_range lo hi) = true -> lo <= z < hi.
Proof.
  unfold memZ, states_range. intros h. apply existsb_exists in h. destruct h as [x [hin hx]].
  apply filter_In in hin. destruct hin as [_ hr]. lia.
Qed.

(** the exact result of the three wrappers in terms of the handler they run *)
Lemma h_request_post E s m (Q : isa -> Prop) :
  (request_handler E (h_exch (p_hdr m)) = None -> Q s) ->
  (forall f, request_handler E (h_exch (p_hdr m)) = Some f ->
             wp (f m) (clear_flags s) (fun r s' => match r with Stuck => Q (stuck_state s') | _ => Q s' end)) ->
  Q (fst (h_request E s m)).
Proof.
  intros hn hs. unfold h_request. destruct (request_handler E (h_exch (p_hdr m))) as [f|]; [|apply hn; reflexivity].
  specialize (hs f eq_refl). unfold wp in hs. destruct (f m (clear_flags s)) as [[a|e|] s1]; exact hs.
Qed.
Lemma h_response_post E s m (Q : isa -> Prop) :
  (response_handler E (h_exch (p_hdr m)) = None -> Q s) ->
  (forall f, response_handler E (h_exch (p_hdr m)) = Some f ->
             wp (f m) (clear_flags s) (fun r s' => match r with Stuck => Q (stuck_state s') | _ => Q s' end)) ->
  Q (fst (h_response E s m)).
Proof.
  intros hn hs. unfold h_response. destruct (response_handler E (h_exch (p_hdr m))) as [f|]; [|apply hn; reflexivity].
  specialize (hs f eq_refl). unfold wp in hs. destruct (f m (clear_flags s)) as [[[[x ps]|]|e|] s1]; exact hs.
Qed.
Lemma h_trigger_post s ev (Q : isa -> Prop) :
  wp (match ev with E_acquire a b i => process_acquire a b i | E_expire spi h => process_expire spi h end)
     (clear_flags s) (fun r s' => match r with Stuck => Q (stuck_state s') | _ => Q s' end) ->
  Q (fst (h_trigger s ev)).
Proof.
  unfold h_trigger, wp.
  destruct ((match ev with E_acquire a b i => process_acquire a b i | E_expire spi h => process_expire spi h end)
              (clear_flags s)) as [[[[x ps]|]|e|] s1]; auto.
Qed.
Lemma lift_gen_post f s (Q : isa -> Prop) :
  wp f (clear_flags s) (fun r s' => match r with Ok _ => Q s' | _ => Q (stuck_state s') end) ->
  Q (fst (lift_gen f s)).
Proof. unfold lift_gen, wp. destruct (f (clear_flags s)) as [[[x ps]|e|] s1]; auto. Qed.

Section PreEstablished.
  Variable E : env.

  Lemma init_request_nochange m s : st (co s) < ST_ESTABLISHED ->
    wp (process_ike_sa_init_request E m) s (fun _ s' => nochange s s').
  Proof.
    intros hpre. unfold process_ike_sa_init_request.
    wp_pure; [intros _|intros _; apply nochange_of_frame; auto].
    apply wp_bind. apply (wp_keeps ob_frame); [apply ike_nego_request_frame|]. intros r s1 hk.
    destruct r as [ps|e|]; try (apply nochange_of_frame; assumption).
    apply wp_bind. unfold set_state, modc. apply wp_modify. wp_pure.
    apply wp_bind. apply wp_modify. cbv beta iota. apply wp_ret.
    unfold ob_frame in hk. injection hk as h1 h2 h3 h4. unfold nochange. cbn. repeat split; auto; try st_lia.
  Qed.

  Lemma info_request_nochange m s : st (co s) < ST_ESTABLISHED ->
    wp (process_informational_request m) s (fun _ s' => nochange s s').
  Proof.
    intros hpre. unfold process_informational_request.
    wp_pure; [intros h; apply memZ_states_range in h; lia|intros _; apply nochange_of_frame; auto].
  Qed.

  Lemma ccsa_request_nochange m s : st (co s) < ST_ESTABLISHED ->
    wp (process_create_child_sa_request E m) s (fun _ s' => nochange s s').
  Proof.
    intros hpre. unfold process_create_child_sa_request.
    wp_pure; [intros h; apply memZ_states_range in h; lia|intros _; apply nochange_of_frame; auto].
  Qed.

  (** (a) *)
  Definition request_outcome (s : isa) (m : pmsg body) (s' : isa) : Prop :=
    (h_exch (p_hdr m) = EX_IKE_AUTH /\ st (co s) = ST_INIT_RES_SENT /\ auth_accepts_resp E (co s) m) \/ nochange s s'.

  Lemma h_request_pre s m : st (co s) < ST_ESTABLISHED -> request_outcome s m (fst (h_request E s m)).
  Proof.
    intros hpre. apply h_request_post.
    - intros _. right. apply nochange_of_frame; auto.
    - intros f hf. unfold request_handler in hf.
      destruct (Z.eqb (h_exch (p_hdr m)) EX_IKE_SA_INIT) eqn:e1.
      { injection hf as <-. eapply wp_conseq; [apply init_request_nochange; exact hpre|].
        intros r s1 h. destruct r; right; auto using nochange_stuck. }
      destruct (Z.eqb (h_exch (p_hdr m)) EX_IKE_AUTH) eqn:e2.
      { injection hf as <-. eapply wp_conseq; [apply auth_request_gate|].
        intros r s1 h. unfold frame_or in h. destruct h as [h|[h1 h2]].
        - apply (nochange_of_frame (clear_flags s)) in h; auto. destruct r; right; auto using nochange_stuck.
        - assert (hx : request_outcome s m s1) by (left; repeat split; auto; lia).
          destruct r; auto. destruct hx as [hx|hx]; [left; exact hx|right; apply nochange_stuck; exact hx]. }
      destruct (Z.eqb (h_exch (p_hdr m)) EX_INFORMATIONAL) eqn:e3.
      { injection hf as <-. eapply wp_conseq; [apply info_request_nochange; exact hpre|].
        intros r s1 h. destruct r; right; auto using nochange_stuck. }
      destruct (Z.eqb (h_exch (p_hdr m)) EX_CREATE_CHILD_SA) eqn:e4; [|discriminate hf].
      injection hf as <-. eapply wp_conseq; [apply ccsa_request_nochange; exact hpre|].
      intros r s1 h. destruct r; right; auto using nochange_stuck.
  Qed.
End PreEstablished.

(* ------------------------------------------------------------------------------------------------ *)
(** * Symbolic execution of a handler, tracking only [st] *)

Lemma wp_set_state z s (Q : res unit -> isa -> Prop) :
  (forall s1, st (co s1) = z -> Q (Ok tt) s1) -> wp (set_state z) s Q.
Proof. intros h. unfold set_state, modc. apply wp_modify. apply h. reflexivity. Qed.
Lemma wp_modify_st f s (Q : res unit -> isa -> Prop) :
  (forall s1, st (co s1) = st (co (f s)) -> Q (Ok tt) s1) -> wp (modify f) s Q.
Proof. intros h. apply wp_modify. apply h. reflexivity. Qed.

Definition ob_nst (s : isa) := (children (co s), kops s, new_sa s).
Lemma keeps_frame_nst {A} (m : H A) : keeps ob_frame m -> keeps ob_nst m.
Proof. intros h s. specialize (h s). unfold ob_frame in h. unfold ob_nst. congruence. Qed.

#[export] Hint Resolve fresh_nonce_frame gen_auth_frame verify_auth_frame check_peer_id_frame handle_invalid_ke_frame
  gen_child_nego_req_frame ike_nego_request_frame ike_nego_response_frame gen_ike_nego_request_frame : kp.
#[export] Hint Resolve keeps_frame_nst keeps_frame_st : kp.

Ltac wp_keep_block :=
  apply (wp_keeps ob_st);
  [ first [ solve [auto with kp] | solve [keeps_go] ]
  | let r := fresh "r" in let s := fresh "s" in let hk := fresh "hk" in
    intros r s hk; unfold ob_st in hk; destruct r ].

Ltac wp_use lem :=
  eapply wp_conseq;
  [ apply lem
  | let r := fresh "r" in let s := fresh "s" in let hq := fresh "hq" in
    intros r s hq; destruct r; cbv beta iota in hq |- * ].
(** extended below with the exit lemmas of the generators as they are proved *)
Ltac wp_known := fail.

Ltac wp_step :=
  lazymatch goal with
  | |- wp (bind _ _) _ _ => apply wp_bind
  | |- wp (ret _) _ _ => apply wp_ret
  | |- wp (raise _) _ _ => apply wp_raise
  | |- wp stuck _ _ => apply wp_stuck
  | |- wp getc _ _ => apply wp_getc
  | |- wp get _ _ => apply wp_get
  | |- wp (check_in_states _) _ _ => apply wp_check_in_states; intros ?hchk
  | |- wp (assert_state _) _ _ => apply wp_assert_state; intros ?hchk
  | |- wp (set_state _) _ _ => apply wp_set_state; intros ?s ?hst
  | |- wp (set_request _ _) _ _ => unfold set_request
  | |- wp (try_catch _ _) _ _ => apply wp_try
  | |- wp (child_res_guarded _ _ _) _ _ => unfold child_res_guarded
  | |- wp (let _ := _ in _) _ _ => cbv zeta
  | |- wp (if ?b then _ else _) _ _ => destruct b eqn:?hb
  | |- wp (match ?x with _ => _ end) _ _ => destruct x eqn:?hm
  | |- wp (modify _) _ _ =>
      let s := fresh "s" in let hst := fresh "hst" in apply wp_modify_st; intros s hst; cbn in hst
  | |- wp (modc _) _ _ =>
      let s := fresh "s" in let hst := fresh "hst" in unfold modc; apply wp_modify_st; intros s hst; cbn in hst
  | |- wp _ _ _ => first [ wp_known | wp_keep_block ]
  end; cbv beta iota.

Ltac wp_run leaf :=
  repeat (lazymatch goal with
          | |- wp _ _ _ => wp_step
          | |- match match ?e with _ => _ end with _ => _ end =>   (* the handler table of a try_catch *)
              destruct e; cbv beta iota delta [is_ikesa_error]
          | |- _ => fail
          end);
  try leaf.
Ltac st_leaf :=
  solve [ unfold ob_st in *;
          repeat match goal with H : context [if ?c then _ else _] |- _ => destruct c eqn:? end;
          st_lia ].

Lemma generate_ike_auth_request_exits E s :
  wp (generate_ike_auth_request E) s
     (fun r s' => match r with
                  | Ok _ => st (co s) = ST_INIT_REQ_SENT /\ st (co s') = ST_AUTH_REQ_SENT
                  | _ => st (co s') = st (co s)
                  end).
Proof. unfold generate_ike_auth_request. wp_run st_leaf. Qed.

Lemma generate_ike_sa_init_request_exits ch s :
  wp (generate_ike_sa_init_request ch) s
     (fun r s' => match r with
                  | Ok _ => st (co s) = ST_INITIAL /\ st (co s') = ST_INIT_REQ_SENT
                  | _ => st (co s') = st (co s)
                  end).
Proof. unfold generate_ike_sa_init_request. wp_run st_leaf. Qed.

Ltac wp_known ::=
  first [ wp_use generate_ike_auth_request_exits | wp_use generate_ike_sa_init_request_exits ].

Lemma init_request_exits E m s :
  wp (process_ike_sa_init_request E m) s
     (fun r s' => match r with
                  | Ok _ => st (co s) = ST_INITIAL /\ st (co s') = ST_INIT_RES_SENT
                  | _ => st (co s') = st (co s)
                  end).
Proof. unfold process_ike_sa_init_request. wp_run st_leaf. Qed.

Lemma init_response_exits E m s :
  wp (process_ike_sa_init_response E m) s
     (fun r s' => st (co s') = st (co s) \/ (st (co s) = ST_INIT_REQ_SENT /\ st (co s') = ST_AUTH_REQ_SENT)).
Proof. unfold process_ike_sa_init_response. wp_run st_leaf. Qed.

Lemma wp_and {A} (m : H A) s (Q1 Q2 : res A -> isa -> Prop) :
  wp m s Q1 -> wp m s Q2 -> wp m s (fun r s' => Q1 r s' /\ Q2 r s').
Proof. unfold wp. auto. Qed.
Lemma wp_of_keeps {X A} (p : isa -> X) (m : H A) s : keeps p m -> wp m s (fun _ s' => p s' = p s).
Proof. intros h. apply h. Qed.

Lemma nochange_of_nst s s' : ob_nst s' = ob_nst s -> st (co s') < ST_ESTABLISHED -> nochange s s'.
Proof. unfold ob_nst, nochange. intros h1 h2. injection h1 as h3 h4 h5. auto. Qed.

Lemma generate_ike_auth_request_nst E : keeps ob_nst (generate_ike_auth_request E).
Proof. unfold generate_ike_auth_request. keeps_go. Qed.
Lemma generate_ike_sa_init_request_nst ch : keeps ob_nst (generate_ike_sa_init_request ch).
Proof. unfold generate_ike_sa_init_request. keeps_go. Qed.
#[export] Hint Resolve generate_ike_auth_request_nst generate_ike_sa_init_request_nst : kp.
Lemma init_response_nst E m : keeps ob_nst (process_ike_sa_init_response E m).
Proof. unfold process_ike_sa_init_response. keeps_go. Qed.

Section PreEstablished2.
  Variable E : env.

  Lemma init_response_nochange m s : st (co s) < ST_ESTABLISHED ->
    wp (process_ike_sa_init_response E m) s (fun _ s' => nochange s s').
  Proof.
    intros hpre. eapply wp_conseq; [apply wp_and; [apply (wp_of_keeps ob_nst), init_response_nst|apply init_response_exits]|].
    cbv beta. intros _ s1 [h1 h2]. apply nochange_of_nst; [exact h1|st_lia].
  Qed.

  Lemma ccsa_response_nochange m s : st (co s) < ST_ESTABLISHED ->
    wp (process_create_child_sa_response E m) s (fun _ s' => nochange s s').
  Proof.
    intros hpre. unfold process_create_child_sa_response.
    wp_pure; [intros h; st_lia|intros _; apply nochange_of_frame; auto].
  Qed.

  Lemma info_response_nochange m s : st (co s) < ST_ESTABLISHED ->
    wp (process_informational_response m) s (fun _ s' => nochange s s').
  Proof.
    intros hpre. unfold process_informational_response.
    wp_pure; [intros h; st_lia|intros _; apply nochange_of_frame; auto].
  Qed.

  (** (b) *)
  Definition response_outcome (s : isa) (m : pmsg body) (s' : isa) : Prop :=
    (h_exch (p_hdr m) = EX_IKE_AUTH /\ st (co s) = ST_AUTH_REQ_SENT /\ auth_accepts_init E (co s) m) \/ nochange s s'.

  Lemma h_response_pre s m : st (co s) < ST_ESTABLISHED -> response_outcome s m (fst (h_response E s m)).
  Proof.
    intros hpre. apply h_response_post.
    - intros _. right. apply nochange_of_frame; auto.
    - intros f hf. unfold response_handler in hf.
      destruct (Z.eqb (h_exch (p_hdr m)) EX_IKE_SA_INIT) eqn:e1.
      { injection hf as <-. eapply wp_conseq; [apply init_response_nochange; exact hpre|].
        intros r s1 h. destruct r; right; auto using nochange_stuck. }
      destruct (Z.eqb (h_exch (p_hdr m)) EX_IKE_AUTH) eqn:e2.
      { injection hf as <-. eapply wp_conseq; [apply auth_response_gate|].
        intros r s1 h. unfold frame_or in h. destruct h as [h|[h1 h2]].
        - apply (nochange_of_frame (clear_flags s)) in h; auto. destruct r; right; auto using nochange_stuck.
        - assert (hx : response_outcome s m s1) by (left; repeat split; auto; lia).
          destruct r; auto. destruct hx as [hx|hx]; [left; exact hx|right; apply nochange_stuck; exact hx]. }
      destruct (Z.eqb (h_exch (p_hdr m)) EX_CREATE_CHILD_SA) eqn:e3.
      { injection hf as <-. eapply wp_conseq; [apply ccsa_response_nochange; exact hpre|].
        intros r s1 h. destruct r; right; auto using nochange_stuck. }
      destruct (Z.eqb (h_exch (p_hdr m)) EX_INFORMATIONAL) eqn:e4; [|discriminate hf].
      injection hf as <-. eapply wp_conseq; [apply info_response_nochange; exact hpre|].
      intros r s1 h. destruct r; right; auto using nochange_stuck.
  Qed.
End PreEstablished2.

(** exits of the remaining generators *)
Lemma generate_create_child_sa_request_exits ch rk s :
  wp (generate_create_child_sa_request ch rk) s
     (fun r s' => match r with
                  | Ok _ => st (co s) = ST_ESTABLISHED /\
                            st (co s') = match rk with None => ST_NEW_CHILD_REQ_SENT | Some _ => ST_REK_CHILD_REQ_SENT end
                  | _ => st (co s') = st (co s)
                  end).
Proof. unfold generate_create_child_sa_request. wp_run st_leaf. Qed.
Lemma generate_delete_child_sa_request_exits ch s :
  wp (generate_delete_child_sa_request ch) s
     (fun r s' => match r with
                  | Ok _ => st (co s) = ST_ESTABLISHED /\ st (co s') = ST_DEL_CHILD_REQ_SENT
                  | _ => st (co s') = st (co s) /\ st (co s) <> ST_ESTABLISHED
                  end).
Proof. unfold generate_delete_child_sa_request. wp_run st_leaf. Qed.
Lemma generate_dpd_request_exits s :
  wp generate_dpd_request s
     (fun r s' => match r with
                  | Ok _ => st (co s) = ST_ESTABLISHED /\ st (co s') = ST_DPD_REQ_SENT
                  | _ => st (co s') = st (co s) /\ st (co s) <> ST_ESTABLISHED
                  end).
Proof. unfold generate_dpd_request. wp_run st_leaf. Qed.
Lemma generate_delete_ike_sa_request_exits s :
  wp generate_delete_ike_sa_request s
     (fun r s' => match r with
                  | Ok _ => (st (co s) = ST_ESTABLISHED /\ st (co s') = ST_DEL_IKE_SA_REQ_SENT) \/
                            (st (co s) = ST_REKEYED /\ st (co s') = ST_DEL_AFTER_REKEY_IKE_SA_REQ_SENT)
                  | _ => st (co s') = st (co s) /\ st (co s) <> ST_ESTABLISHED /\ st (co s) <> ST_REKEYED
                  end).
Proof. unfold generate_delete_ike_sa_request. wp_run st_leaf. Qed.

Ltac wp_known ::=
  first [ wp_use generate_ike_auth_request_exits | wp_use generate_ike_sa_init_request_exits
        | wp_use generate_create_child_sa_request_exits | wp_use generate_delete_child_sa_request_exits
        | wp_use generate_dpd_request_exits | wp_use generate_delete_ike_sa_request_exits ].

Lemma new_core_st i p c : keeps ob_st (new_core i p c).
Proof. unfold new_core. keeps_go. Qed.
Lemma gen_ike_nego_request_st w : keeps ob_st (gen_ike_nego_request w).
Proof. unfold gen_ike_nego_request. keeps_go. Qed.
Lemma ike_nego_request_st E w m enc old : keeps ob_st (ike_nego_request E w m enc old).
Proof. unfold ike_nego_request. keeps_go. Qed.
Lemma ike_nego_response_st E w m n enc old : keeps ob_st (ike_nego_response E w m n enc old).
Proof. unfold ike_nego_response. keeps_go. Qed.
#[export] Hint Resolve new_core_st gen_ike_nego_request_st ike_nego_request_st ike_nego_response_st : kp.

Lemma generate_rekey_ike_sa_request_exits s :
  wp generate_rekey_ike_sa_request s
     (fun r s' => match r with
                  | Ok _ => st (co s) = ST_ESTABLISHED /\ st (co s') = ST_REK_IKE_SA_REQ_SENT
                  | _ => st (co s') = st (co s)
                  end).
Proof. unfold generate_rekey_ike_sa_request. wp_run st_leaf. Qed.

Lemma process_acquire_exits a b i s :
  wp (process_acquire a b i) s
     (fun _ s' => st (co s') = st (co s) \/ (st (co s) = ST_INITIAL /\ st (co s') = ST_INIT_REQ_SENT)
                  \/ (st (co s) = ST_ESTABLISHED /\ st (co s') = ST_NEW_CHILD_REQ_SENT)).
Proof. unfold process_acquire. wp_run st_leaf. Qed.
Lemma process_expire_exits spi hard s :
  wp (process_expire spi hard) s
     (fun _ s' => st (co s') = st (co s) \/
                  (st (co s) = ST_ESTABLISHED /\
                   (st (co s') = ST_REK_CHILD_REQ_SENT \/ st (co s') = ST_DEL_CHILD_REQ_SENT))).
Proof. unfold process_expire. wp_run st_leaf. Qed.

Lemma generate_create_child_sa_request_nst ch rk : keeps ob_nst (generate_create_child_sa_request ch rk).
Proof. unfold generate_create_child_sa_request. keeps_go. Qed.
Lemma generate_delete_child_sa_request_nst ch : keeps ob_nst (generate_delete_child_sa_request ch).
Proof. unfold generate_delete_child_sa_request. keeps_go. Qed.
Lemma generate_dpd_request_nst : keeps ob_nst generate_dpd_request.
Proof. unfold generate_dpd_request. keeps_go. Qed.
Lemma generate_delete_ike_sa_request_nst : keeps ob_nst generate_delete_ike_sa_request.
Proof. unfold generate_delete_ike_sa_request. keeps_go. Qed.
#[export] Hint Resolve generate_create_child_sa_request_nst generate_delete_child_sa_request_nst
  generate_dpd_request_nst generate_delete_ike_sa_request_nst : kp.
Lemma process_acquire_nst a b i : keeps ob_nst (process_acquire a b i).
Proof. unfold process_acquire. keeps_go. Qed.
Lemma process_expire_nst spi hard : keeps ob_nst (process_expire spi hard).
Proof. unfold process_expire. keeps_go. Qed.

(** (c) local triggers and timer-driven generators from a pre-established state *)
Lemma h_trigger_pre s ev : st (co s) < ST_ESTABLISHED -> nochange s (fst (h_trigger s ev)).
Proof.
  intros hpre. apply h_trigger_post.
  assert (h : wp (match ev with E_acquire a b i => process_acquire a b i | E_expire spi h => process_expire spi h end)
                 (clear_flags s) (fun _ s' => nochange s s')).
  { destruct ev as [a b i|spi hard].
    - eapply wp_conseq; [apply wp_and; [apply (wp_of_keeps ob_nst), process_acquire_nst|apply process_acquire_exits]|].
      cbv beta. intros _ s1 [h1 h2]. apply nochange_clear, nochange_of_nst; [exact h1|]. cbn in h2. st_lia.
    - eapply wp_conseq; [apply wp_and; [apply (wp_of_keeps ob_nst), process_expire_nst|apply process_expire_exits]|].
      cbv beta. intros _ s1 [h1 h2]. apply nochange_clear, nochange_of_nst; [exact h1|]. cbn in h2. st_lia. }
  eapply wp_conseq; [exact h|]. intros r s1 hn. destruct r; auto using nochange_stuck.
Qed.

Lemma gen_dpd_pre s : st (co s) < ST_ESTABLISHED -> nochange s (fst (lift_gen generate_dpd_request s)).
Proof.
  intros hpre. apply lift_gen_post.
  eapply wp_conseq; [apply wp_and; [apply (wp_of_keeps ob_nst), generate_dpd_request_nst|apply generate_dpd_request_exits]|].
  cbv beta. intros r s1 [h1 h2]. cbn in h2.
  destruct r; [st_lia| |]; apply nochange_stuck, nochange_clear, nochange_of_nst; auto; st_lia.
Qed.
Lemma gen_delete_ike_pre s :
  st (co s) < ST_ESTABLISHED -> nochange s (fst (lift_gen generate_delete_ike_sa_request s)).
Proof.
  intros hpre. apply lift_gen_post.
  eapply wp_conseq; [apply wp_and; [apply (wp_of_keeps ob_nst), generate_delete_ike_sa_request_nst
                                   |apply generate_delete_ike_sa_request_exits]|].
  cbv beta. intros r s1 [h1 h2]. cbn in h2.
  destruct r; [st_lia| |]; apply nochange_stuck, nochange_clear, nochange_of_nst; auto; st_lia.
Qed.
Lemma gen_rekey_ike_pre s :
  st (co s) < ST_ESTABLISHED -> nochange s (fst (lift_gen generate_rekey_ike_sa_request s)).
Proof.
  intros hpre. apply lift_gen_post. unfold generate_rekey_ike_sa_request.
  wp_pure; [intros h; cbn in h; st_lia|intros _]. apply nochange_stuck, nochange_of_frame; auto.
Qed.

(* ------------------------------------------------------------------------------------------------ *)
(** * C02, the statements *)

Definition established (z : Z) : Prop := ST_ESTABLISHED <= z < ST_DELETED.
(** the history of kernel operations grew by at least one installation *)
Definition installs (s s' : isa) : Prop := exists l k ok, kops s' = kops s ++ l /\ In (K_add k ok) l.
Definition gains_child (s s' : isa) : Prop := children (co s) = [] /\ children (co s') <> [].
Definition establishes_or_installs (s s' : isa) : Prop :=
  established (st (co s')) \/ installs s s' \/ gains_child s s' \/ new_sa s' <> new_sa s.

Lemma nochange_not_eoi s s' : nochange s s' -> ~ establishes_or_installs s s'.
Proof.
  intros (h1 & h2 & h3 & h4) [he|[hi|[hg|hn]]].
  - unfold established in he. lia.
  - destruct hi as (l & k & ok & hl & hin). rewrite h2 in hl.
    assert (l = []) by (apply (app_inv_head (kops s)); rewrite app_nil_r; auto). subst l. destruct hin.
  - destruct hg as [hg1 hg2]. congruence.
  - contradiction.
Qed.

(** (a) responder *)
Theorem request_establishes_only_after_auth E s m :
  st (co s) < ST_ESTABLISHED -> establishes_or_installs s (fst (h_request E s m)) ->
  h_exch (p_hdr m) = EX_IKE_AUTH /\ st (co s) = ST_INIT_RES_SENT /\ auth_accepts_resp E (co s) m.
Proof.
  intros hpre heoi. destruct (h_request_pre E s m hpre) as [h|h]; [exact h|].
  exfalso. exact (nochange_not_eoi _ _ h heoi).
Qed.

Theorem request_other_exchanges_never_establish E s m :
  st (co s) < ST_ESTABLISHED -> h_exch (p_hdr m) <> EX_IKE_AUTH -> nochange s (fst (h_request E s m)).
Proof. intros hpre hx. destruct (h_request_pre E s m hpre) as [[h _]|h]; [contradiction|exact h]. Qed.

(** (b) initiator *)
Theorem response_establishes_only_after_auth E s m :
  st (co s) < ST_ESTABLISHED -> establishes_or_installs s (fst (h_response E s m)) ->
  h_exch (p_hdr m) = EX_IKE_AUTH /\ st (co s) = ST_AUTH_REQ_SENT /\ auth_accepts_init E (co s) m.
Proof.
  intros hpre heoi. destruct (h_response_pre E s m hpre) as [h|h]; [exact h|].
  exfalso. exact (nochange_not_eoi _ _ h heoi).
Qed.

Theorem response_other_exchanges_never_establish E s m :
  st (co s) < ST_ESTABLISHED -> h_exch (p_hdr m) <> EX_IKE_AUTH -> nochange s (fst (h_response E s m)).
Proof. intros hpre hx. destruct (h_response_pre E s m hpre) as [[h _]|h]; [contradiction|exact h]. Qed.

(** (c) *)
Theorem local_entry_points_never_establish s :
  st (co s) < ST_ESTABLISHED ->
  (forall ev, ~ establishes_or_installs s (fst (h_trigger s ev))) /\
  ~ establishes_or_installs s (fst (lift_gen generate_dpd_request s)) /\
  ~ establishes_or_installs s (fst (lift_gen generate_delete_ike_sa_request s)) /\
  ~ establishes_or_installs s (fst (lift_gen generate_rekey_ike_sa_request s)).
Proof.
  intros hpre. split; [intros ev|split; [|split]]; apply nochange_not_eoi;
    auto using h_trigger_pre, gen_dpd_pre, gen_delete_ike_pre, gen_rekey_ike_pre.
Qed.

(** (d) the three "fails" statements, both roles *)
Lemma accepts_resp_id E c m : auth_accepts_resp E c m ->
  exists t d, hd_error (get_payloads m K_IDi true) = Some (P_IDi t d) /\
              t = a_id_type (cf_peer_auth (cfg c)) /\ d = a_id_data (cf_peer_auth (cfg c)).
Proof. intros (t & d & meth & data & rq & rs & nr & k & cp & h1 & h2 & h3 & _). eauto. Qed.
Lemma accepts_init_id E c m : auth_accepts_init E c m ->
  exists t d, hd_error (get_payloads m K_IDr true) = Some (P_IDr t d) /\
              t = a_id_type (cf_peer_auth (cfg c)) /\ d = a_id_data (cf_peer_auth (cfg c)).
Proof. intros (t & d & meth & data & rq & rs & nr & k & cp & h1 & h2 & h3 & _). eauto. Qed.
Lemma auth_ok_method E c cp a b skp t d meth data : auth_ok E c cp a b skp t d meth data ->
  (meth = AUTH_PSK /\ truthy (a_psk (cf_peer_auth (cfg c))) = true) \/
  (meth = AUTH_RSA /\ a_pub (cf_peer_auth (cfg c)) = true).
Proof.
  intros [[h1 (psk & h2 & h3 & _)]|[h1 [h2 _]]]; [left|right]; split; auto.
  rewrite h2. destruct psk; [contradiction|reflexivity].
Qed.
Lemma accepts_resp_method E c m : auth_accepts_resp E c m ->
  exists meth data, hd_error (get_payloads m K_AUTH true) = Some (P_AUTH meth data) /\
    ((meth = AUTH_PSK /\ truthy (a_psk (cf_peer_auth (cfg c))) = true) \/
     (meth = AUTH_RSA /\ a_pub (cf_peer_auth (cfg c)) = true)).
Proof.
  intros (t & d & meth & data & rq & rs & nr & k & cp & h1 & h2 & h3 & h4 & h5 & h6 & h7 & h8 & h9 & h10).
  exists meth, data. split; [exact h4|]. eapply auth_ok_method; exact h10.
Qed.
Lemma accepts_init_method E c m : auth_accepts_init E c m ->
  exists meth data, hd_error (get_payloads m K_AUTH true) = Some (P_AUTH meth data) /\
    ((meth = AUTH_PSK /\ truthy (a_psk (cf_peer_auth (cfg c))) = true) \/
     (meth = AUTH_RSA /\ a_pub (cf_peer_auth (cfg c)) = true)).
Proof.
  intros (t & d & meth & data & rq & rs & nr & k & cp & h1 & h2 & h3 & h4 & h5 & h6 & h7 & h8 & h9 & h10).
  exists meth, data. split; [exact h4|]. eapply auth_ok_method; exact h10.
Qed.

Theorem wrong_identity_fails E s m :
  st (co s) < ST_ESTABLISHED ->
  (forall t d, hd_error (get_payloads m K_IDi true) = Some (P_IDi t d) ->
               t <> a_id_type (cf_peer_auth (cfg (co s))) \/ d <> a_id_data (cf_peer_auth (cfg (co s)))) ->
  nochange s (fst (h_request E s m)).
Proof.
  intros hpre hid. destruct (h_request_pre E s m hpre) as [[_ [_ h]]|h]; [|exact h].
  apply accepts_resp_id in h. destruct h as (t & d & h1 & h2 & h3). destruct (hid t d h1); contradiction.
Qed.
Theorem wrong_identity_fails_initiator E s m :
  st (co s) < ST_ESTABLISHED ->
  (forall t d, hd_error (get_payloads m K_IDr true) = Some (P_IDr t d) ->
               t <> a_id_type (cf_peer_auth (cfg (co s))) \/ d <> a_id_data (cf_peer_auth (cfg (co s)))) ->
  nochange s (fst (h_response E s m)).
Proof.
  intros hpre hid. destruct (h_response_pre E s m hpre) as [[_ [_ h]]|h]; [|exact h].
  apply accepts_init_id in h. destruct h as (t & d & h1 & h2 & h3). destruct (hid t d h1); contradiction.
Qed.

(** the presented method does not match a configured credential of the peer *)
Theorem wrong_method_fails E s m :
  st (co s) < ST_ESTABLISHED ->
  (forall meth data, hd_error (get_payloads m K_AUTH true) = Some (P_AUTH meth data) ->
     ~ (meth = AUTH_PSK /\ truthy (a_psk (cf_peer_auth (cfg (co s)))) = true) /\
     ~ (meth = AUTH_RSA /\ a_pub (cf_peer_auth (cfg (co s))) = true)) ->
  nochange s (fst (h_request E s m)) /\ nochange s (fst (h_response E s m)).
Proof.
  intros hpre hm. split.
  - destruct (h_request_pre E s m hpre) as [[_ [_ h]]|h]; [|exact h].
    apply accepts_resp_method in h. destruct h as (meth & data & h1 & h2). destruct (hm meth data h1). tauto.
  - destruct (h_response_pre E s m hpre) as [[_ [_ h]]|h]; [|exact h].
    apply accepts_init_method in h. destruct h as (meth & data & h1 & h2). destruct (hm meth data h1). tauto.
Qed.

Theorem no_credential_fails E s m :
  st (co s) < ST_ESTABLISHED ->
  truthy (a_psk (cf_peer_auth (cfg (co s)))) = false -> a_pub (cf_peer_auth (cfg (co s))) = false ->
  nochange s (fst (h_request E s m)) /\ nochange s (fst (h_response E s m)).
Proof.
  intros hpre h1 h2. apply wrong_method_fails; [exact hpre|]. intros meth data _. rewrite h1, h2.
  split; intros [_ h]; discriminate h.
Qed.

(** a PSK value other than prf(prf(psk, pad), octets) over the real exchange is rejected (responder) *)
Theorem wrong_psk_value_fails E s m t d data rq rs nr k cp psk :
  st (co s) < ST_ESTABLISHED ->
  hd_error (get_payloads m K_IDi true) = Some (P_IDi t d) ->
  hd_error (get_payloads m K_AUTH true) = Some (P_AUTH AUTH_PSK data) ->
  init_req (co s) = Some rq -> init_res (co s) = Some rs -> first_nonce rs = Some nr ->
  kr (co s) = Some k -> cprop (co s) = Some cp -> a_psk (cf_peer_auth (cfg (co s))) = Some psk ->
  data <> e_prf E cp (e_prf E cp psk KEYPAD) (e_ser E rq ++ nr ++ e_prf E cp (peer_skp_of (co s) k) (id_bytes t d)) ->
  nochange s (fst (h_request E s m)).
Proof.
  intros hpre h1 h2 h3 h4 h5 h6 h7 h8 hne. destruct (h_request_pre E s m hpre) as [[_ [_ h]]|h]; [|exact h].
  destruct h as (t' & d' & meth & data' & rq' & rs' & nr' & k' & cp' & g1 & g2 & g3 & g4 & g5 & g6 & g7 & g8 & g9 & g10).
  rewrite h1 in g1. injection g1 as <- <-. rewrite h2 in g4. injection g4 as <- <-.
  rewrite h3 in g5. injection g5 as <-. rewrite h4 in g6. injection g6 as <-. rewrite h5 in g7. injection g7 as <-.
  rewrite h6 in g8. injection g8 as <-. rewrite h7 in g9. injection g9 as <-.
  destruct g10 as [[_ (psk' & q1 & _ & q3)]|[q _]]; [|discriminate q].
  rewrite h8 in q1. injection q1 as <-. contradiction.
Qed.

(** the acceptance conditions, written out *)
Lemma auth_accepts_resp_unfold E c m :
  auth_accepts_resp E c m <->
  exists t d meth data rq rs nr k cp,
    hd_error (get_payloads m K_IDi true) = Some (P_IDi t d) /\
    t = a_id_type (cf_peer_auth (cfg c)) /\ d = a_id_data (cf_peer_auth (cfg c)) /\
    hd_error (get_payloads m K_AUTH true) = Some (P_AUTH meth data) /\
    init_req c = Some rq /\ init_res c = Some rs /\ first_nonce rs = Some nr /\
    kr c = Some k /\ cprop c = Some cp /\
    let octets := e_ser E rq ++ nr ++ e_prf E cp (if c_init c then sk_pr k else sk_pi k) (id_bytes t d) in
    ((meth = AUTH_PSK /\ exists psk, a_psk (cf_peer_auth (cfg c)) = Some psk /\ psk <> [] /\
                                      data = e_prf E cp (e_prf E cp psk KEYPAD) octets)
     \/ (meth = AUTH_RSA /\ a_pub (cf_peer_auth (cfg c)) = true /\ e_verify E data octets = true)).
Proof. reflexivity. Qed.
Lemma auth_accepts_init_unfold E c m :
  auth_accepts_init E c m <->
  exists t d meth data rq rs ni k cp,
    hd_error (get_payloads m K_IDr true) = Some (P_IDr t d) /\
    t = a_id_type (cf_peer_auth (cfg c)) /\ d = a_id_data (cf_peer_auth (cfg c)) /\
    hd_error (get_payloads m K_AUTH true) = Some (P_AUTH meth data) /\
    init_req c = Some rq /\ init_res c = Some rs /\ first_nonce rq = Some ni /\
    kr c = Some k /\ cprop c = Some cp /\
    let octets := e_ser E rs ++ ni ++ e_prf E cp (if c_init c then sk_pr k else sk_pi k) (id_bytes t d) in
    ((meth = AUTH_PSK /\ exists psk, a_psk (cf_peer_auth (cfg c)) = Some psk /\ psk <> [] /\
                                      data = e_prf E cp (e_prf E cp psk KEYPAD) octets)
     \/ (meth = AUTH_RSA /\ a_pub (cf_peer_auth (cfg c)) = true /\ e_verify E data octets = true)).
Proof. reflexivity. Qed.
Lemma first_nonce_unfold x :
  first_nonce x = match filter (fun p => pkind_eqb (kind_of p) K_NONCE) (fst (snd x)) with
                  | P_NONCE n :: _ => Some n | _ => None end.
Proof. reflexivity. Qed.
Lemma nochange_unfold s s' :
  nochange s s' <-> children (co s') = children (co s) /\ kops s' = kops s /\ new_sa s' = new_sa s /\
                    st (co s') < ST_ESTABLISHED.
Proof. reflexivity. Qed.
Lemma establishes_or_installs_unfold s s' :
  establishes_or_installs s s' <->
  (ST_ESTABLISHED <= st (co s') < ST_DELETED) \/
  (exists l k ok, kops s' = kops s ++ l /\ In (K_add k ok) l) \/
  (children (co s) = [] /\ children (co s') <> []) \/ new_sa s' <> new_sa s.
Proof. reflexivity. Qed.
Lemma wp_elim {A} (m : H A) s (Q : res A -> isa -> Prop) : wp m s Q -> forall r s', m s = (r, s') -> Q r s'.
Proof. unfold wp. intros h r s' e. rewrite e in h. exact h. Qed.

(* ------------------------------------------------------------------------------------------------ *)
(** * Non-vacuity: a concrete environment, state and IKE_AUTH message on which the handlers DO establish *)
Module Toy.
  Definition toy_env : env :=
    mk_env (fun _ _ _ _ _ _ _ => None)
           (fun _ _ _ _ => Some (mk_ckr [1]%N [2]%N [3]%N [4]%N))
           (fun _ _ _ => None)
           (fun _ k d => k ++ d)
           (fun d => 9%N :: d)
           (fun sg d => bytes_eqb sg (9%N :: d))
           (fun _ => [1]%N)
           (fun _ _ => [])
           (fun _ => []).
  Definition esp : proposal :=
    mk_prop 1 PROTO_ESP [0; 0; 0; 9]%N [mk_tr T_ENCR 12 (Some 128); mk_tr T_INTEG 12 None; mk_tr T_ESN 0 None].
  Definition ikep : proposal := mk_prop 1 PROTO_IKE [] [mk_tr T_PRF 5 None].
  Definition sel : ts := mk_ts 7 0 0 65535 0 100.
  Definition toy_conf : conf :=
    mk_conf ikep [mk_protect 0 esp sel sel MODE_TUNNEL (-1)]
            (mk_authc 2 [8]%N (Some [6]%N) false false)      (* my identity and PSK *)
            (mk_authc 2 [7]%N (Some [5]%N) false false)      (* the peer's *)
            30 3600.
  Definition h0 : hdr := mk_hdr 1 2 2 0 EX_IKE_SA_INIT false true 0.
  Definition toy_kr : keyring := mk_kr [10]%N [0]%N [0]%N [0]%N [0]%N [11]%N [12]%N.
  Definition resp_core : core :=
    mk_core ST_INIT_RES_SENT false [2]%N [1]%N 0 0 toy_conf (Some toy_kr) (Some ikep) (Some ikep) []
            (Some (h0, ([P_NONCE [21]%N], []))) (Some (h0, ([P_NONCE [22]%N], []))) None None None None None None
            0 0 0 false.
  Definition resp_state : isa :=
    mk_isa resp_core None None 0 [D_bytes [0; 0; 0; 1]%N; D_verdict true; D_verdict true] [].
  (** AUTH = prf(prf(psk, pad), ser(request) | Nr | prf(SK_pi, IDi body)) *)
  Definition good_auth : bytes :=
    e_prf toy_env ikep (e_prf toy_env ikep [5]%N KEYPAD) ([1]%N ++ [22]%N ++ e_prf toy_env ikep [11]%N (id_bytes 2 [7]%N)).
  Definition auth_req (a : bytes) : pmsg body :=
    mk_pmsg (mk_hdr 1 2 2 0 EX_IKE_AUTH false true 1) true
            ([], [P_IDi 2 [7]%N; P_AUTH AUTH_PSK a; P_SA [esp]; P_TSi [sel]; P_TSr [sel]]).

  Example responder_establishes :
    let s' := fst (h_request toy_env resp_state (auth_req good_auth)) in
    st (co resp_state) < ST_ESTABLISHED /\ st (co s') = ST_ESTABLISHED /\ length (children (co s')) = 1%nat /\
    exists k1 k2, kops s' = [K_add k1 true; K_add k2 true].
  Proof. vm_compute. repeat split; eauto. Qed.

  Example responder_hypotheses_satisfiable :
    st (co resp_state) < ST_ESTABLISHED /\
    establishes_or_installs resp_state (fst (h_request toy_env resp_state (auth_req good_auth))).
  Proof. split; [reflexivity|]. left. vm_compute. split; [discriminate|reflexivity]. Qed.

  (** one changed octet of the AUTH value: nothing happens *)
  Example responder_rejects_forgery :
    let s' := fst (h_request toy_env resp_state (auth_req (0%N :: good_auth))) in
    st (co s') = ST_INIT_RES_SENT /\ children (co s') = [] /\ kops s' = [].
  Proof. vm_compute. auto. Qed.

  Definition mychild : child := mk_child [0; 0; 0; 3]%N [0; 0; 0; 0]%N esp esp [sel] [sel] MODE_TUNNEL (-1).
  Definition init_core : core :=
    mk_core ST_AUTH_REQ_SENT true [1]%N [2]%N 0 0 toy_conf (Some toy_kr) (Some ikep) (Some ikep) []
            (Some (h0, ([P_NONCE [21]%N], []))) (Some (h0, ([P_NONCE [22]%N], []))) None (Some mychild) None None None
            None 0 0 0 false.
  Definition init_state : isa := mk_isa init_core None None 0 [D_verdict true; D_verdict true] [].
  (** AUTH = prf(prf(psk, pad), ser(response) | Ni | prf(SK_pr, IDr body)) *)
  Definition good_auth_r : bytes :=
    e_prf toy_env ikep (e_prf toy_env ikep [5]%N KEYPAD) ([1]%N ++ [21]%N ++ e_prf toy_env ikep [12]%N (id_bytes 2 [7]%N)).
  Definition auth_res (a : bytes) : pmsg body :=
    mk_pmsg (mk_hdr 1 2 2 0 EX_IKE_AUTH true false 1) true
            ([], [P_IDr 2 [7]%N; P_AUTH AUTH_PSK a; P_SA [esp]; P_TSi [sel]; P_TSr [sel]]).

  Example initiator_establishes :
    let s' := fst (h_response toy_env init_state (auth_res good_auth_r)) in
    st (co init_state) < ST_ESTABLISHED /\ st (co s') = ST_ESTABLISHED /\ length (children (co s')) = 1%nat /\
    exists k1 k2, kops s' = [K_add k1 true; K_add k2 true].
  Proof. vm_compute. repeat split; eauto. Qed.

  Example initiator_rejects_forgery :
    let s' := fst (h_response toy_env init_state (auth_res (0%N :: good_auth_r))) in
    st (co s') = ST_AUTH_REQ_SENT /\ children (co s') = [] /\ kops s' = [].
  Proof. vm_compute. auto. Qed.
End Toy.
