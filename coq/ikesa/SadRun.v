(** Entry point of the C10 correspondence: replay the primitive operations an event performed. *)
From Coq Require Import ZArith Bool List String.
From VLib Require Import Sx.
From IkeSa Require Import Sad.
Import ListNotations.
Open Scope Z_scope.

Fixpoint insert_by {A} (f : A -> Z) (x : A) (l : list A) : list A :=
  match l with
  | [] => [x]
  | y :: r => if Z.leb (f x) (f y) then x :: y :: r else y :: insert_by f x r
  end.
Definition sort_by {A} (f : A -> Z) (l : list A) : list A := fold_right (insert_by f) [] l.

Definition entry_of_sx (x : sx) : option (nat * child) :=
  match x with SxL [SxZ o; SxZ a; SxZ b] => Some (Z.to_nat o, mk_child a b) | _ => None end.
Fixpoint entries_of_sx (l : list sx) : list (nat * child) :=
  match l with [] => [] | x :: r => match entry_of_sx x with Some e => e :: entries_of_sx r | None => entries_of_sx r end end.
Fixpoint keys_of_sx (l : list sx) : list Z :=
  match l with [] => [] | SxZ k :: r => k :: keys_of_sx r | _ :: r => keys_of_sx r end.

Definition op_of_sx (x : sx) : option op :=
  match x with
  | SxL [SxZ 0; SxZ id; SxZ a; SxZ b; SxZ v1; SxZ v2] => Some (RespInstall (Z.to_nat id) (mk_child a b) (Z.eqb v1 1) (Z.eqb v2 1))
  | SxL [SxZ 1; SxZ id; SxZ a; SxZ b; SxZ v1; SxZ v2] => Some (InitInstall (Z.to_nat id) (mk_child a b) (Z.eqb v1 1) (Z.eqb v2 1))
  | SxL [SxZ 2; SxZ id; SxZ a; SxZ b] => Some (DeleteChild (Z.to_nat id) (mk_child a b))
  | SxL [SxZ 3; SxZ o; SxZ n] => Some (Handover (Z.to_nat o) (Z.to_nat n))
  | SxL [SxZ 4; SxZ id] => Some (Teardown (Z.to_nat id))
  | SxL [SxZ 5] => Some Restart
  | _ => None
  end.
Fixpoint ops_of_sx (l : list sx) : option (list op) :=
  match l with
  | [] => Some []
  | x :: r => match op_of_sx x, ops_of_sx r with Some o, Some os => Some (o :: os) | _, _ => None end
  end.

(** input: SxL [SxL tracked; SxL sad; SxL ops]; output: SxL [sorted tracked; sorted sad] *)
Definition run_sad (x : sx) : sx :=
  match x with
  | SxL [SxL t; SxL k; SxL o] =>
      match ops_of_sx o with
      | None => bad_input
      | Some ops =>
          let s := run ops (mk_st (entries_of_sx t) (keys_of_sx k)) in
          SxL [SxL (map (fun oc => SxL [SxZ (Z.of_nat (fst oc)); SxZ (k_out (snd oc)); SxZ (k_in (snd oc))])
                        (sort_by (fun oc => k_out (snd oc)) (tracked s)));
               SxL (map SxZ (sort_by (fun k => k) (sad s)))]
      end
  | _ => bad_input
  end.
