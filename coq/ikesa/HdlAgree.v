(** Two-party composition theorems about the handler model Hdl.v (property C01).

    Two endpoints, each running the handlers of Hdl.v on its own state, its own configuration and its own tape of
    random draws, exchange the payload lists the handlers produce.  Whenever both sides succeed,
      - IKE_SA_INIT and IKE_SA rekey leave IDENTICAL IKE_SA key material on both sides (same keyring, same chosen
        proposal, SPIs crossed, sk_p crossed),
      - every CHILD_SA negotiation (IKE_AUTH, CREATE_CHILD_SA new / rekey, with or without PFS) makes both sides
        hand MIRROR-IMAGE IPsec SAs to their kernels, with the keys the key schedule assigns to each direction.

    The cryptography is an arbitrary [env]; the only hypotheses on it are
      [dh_ok]         Diffie-Hellman is correct on the key pairs that are drawn in the run, and (CHILD_SAs only)
      [ckeys_by_trs]  the CHILD_SA KEYMAT split depends on the protocol and the transforms of the negotiated proposal,
                      not on the SPI written in it (generate_child_sa_key_material reads key sizes only; the two
                      sides hold the proposal with DIFFERENT SPIs, see [child_mirror_needs_ckeys_by_trs]).

    Technique: symbolic execution of the monadic code by inversion lemmas ([bind_ok] and one lemma per primitive). *)
From Coq Require Import ZArith NArith Bool List Lia.
From RecordUpdate Require Import RecordSet.
From VLib Require Import Bytes.
From IkeSa Require Import Gen.IkeFacts Shell Hdl.
Import ListNotations RecordSetNotations.
Open Scope Z_scope.

(* ------------------------------------------------------------------------------------------------ *)
(** * Hypotheses on the environment *)

(** [kp g h pub]: "pub is the public value of the private handle h in group g" *)
Definition tape_ok (kp : Z -> bytes -> bytes -> Prop) (t : list draw) : Prop :=
  forall g h pub, In (D_dh g h pub) t -> kp g h pub.
Definition dh_ok (E : env) (kp : Z -> bytes -> bytes -> Prop) : Prop :=
  forall g h1 pub1 h2 pub2, kp g h1 pub1 -> kp g h2 pub2 -> e_dh_secret E g h1 pub2 = e_dh_secret E g h2 pub1.
Definition ckeys_by_trs (E : env) : Prop :=
  forall cp p p' seed skd, pr_proto p = pr_proto p' -> pr_trs p = pr_trs p' ->
                           e_child_keys E cp p seed skd = e_child_keys E cp p' seed skd.

(* ------------------------------------------------------------------------------------------------ *)
(** * Inversion lemmas for the monad *)

Lemma bind_ok {A B} (m : H A) (f : A -> H B) s b s' :
  bind m f s = (Ok b, s') -> exists a s1, m s = (Ok a, s1) /\ f a s1 = (Ok b, s').
Proof.
  unfold bind. destruct (m s) as [[a| |] s1]; intros Hx; try discriminate. exists a, s1. split; auto.
Qed.
Lemma ret_ok {A} (a b : A) s s' : ret a s = (Ok b, s') -> b = a /\ s' = s.
Proof. unfold ret. intros Hx; inversion Hx; auto. Qed.
Lemma raise_ok {A} e (b : A) s s' : raise e s = (Ok b, s') -> False.
Proof. unfold raise. discriminate. Qed.
Lemma stuck_ok {A} (b : A) s s' : stuck s = (Ok b, s') -> False.
Proof. unfold stuck. discriminate. Qed.
Lemma getc_ok c s s' : getc s = (Ok c, s') -> c = co s /\ s' = s.
Proof. unfold getc. intros Hx; inversion Hx; auto. Qed.
Lemma get_ok a s s' : get s = (Ok a, s') -> a = s /\ s' = s.
Proof. unfold get. intros Hx; inversion Hx; subst; auto. Qed.
Lemma modify_ok f u s s' : modify f s = (Ok u, s') -> s' = f s.
Proof. unfold modify. intros Hx; inversion Hx; auto. Qed.
Lemma modc_ok f u s s' : modc f s = (Ok u, s') -> s' = s <| co := f (co s) |>.
Proof. unfold modc. intros Hx. apply modify_ok in Hx. exact Hx. Qed.
Lemma of_opt_ok {A} (o : option A) e a s s' : of_opt o e s = (Ok a, s') -> o = Some a /\ s' = s.
Proof. destruct o; cbn; unfold ret, raise; intros Hx; inversion Hx; auto. Qed.
Lemma guard_ok (b : bool) e u s s' : (if b then ret tt else raise e) s = (Ok u, s') -> b = true /\ s' = s.
Proof. destruct b; unfold ret, raise; intros Hx; inversion Hx; auto. Qed.
Lemma nguard_ok (b : bool) e u s s' : (if b then raise e else ret tt) s = (Ok u, s') -> b = false /\ s' = s.
Proof. destruct b; unfold ret, raise; intros Hx; inversion Hx; auto. Qed.

Lemma pop_ok d s s' : pop s = (Ok d, s') -> tape s = d :: tape s' /\ s' = s <| tape := tape s' |>.
Proof.
  unfold pop. destruct (tape s) as [|d0 r] eqn:Et; intros Hx; inversion Hx; subst. cbn. auto.
Qed.
Lemma draw_bytes_ok b s s' : draw_bytes s = (Ok b, s') -> exists r, tape s = D_bytes b :: r /\ s' = s <| tape := r |>.
Proof.
  unfold draw_bytes. intros Hx. apply bind_ok in Hx. destruct Hx as (d & s1 & Hp & Hx). apply pop_ok in Hp.
  destruct d; try (apply stuck_ok in Hx; tauto). apply ret_ok in Hx. destruct Hx; subst. exists (tape s1). tauto.
Qed.
Lemma draw_num_ok z s s' : draw_num s = (Ok z, s') -> exists r, tape s = D_num z :: r /\ s' = s <| tape := r |>.
Proof.
  unfold draw_num. intros Hx. apply bind_ok in Hx. destruct Hx as (d & s1 & Hp & Hx). apply pop_ok in Hp.
  destruct d; try (apply stuck_ok in Hx; tauto). apply ret_ok in Hx. destruct Hx; subst. exists (tape s1). tauto.
Qed.
Lemma draw_verdict_ok z s s' :
  draw_verdict s = (Ok z, s') -> exists r, tape s = D_verdict z :: r /\ s' = s <| tape := r |>.
Proof.
  unfold draw_verdict. intros Hx. apply bind_ok in Hx. destruct Hx as (d & s1 & Hp & Hx). apply pop_ok in Hp.
  destruct d; try (apply stuck_ok in Hx; tauto). apply ret_ok in Hx. destruct Hx; subst. exists (tape s1). tauto.
Qed.
Lemma draw_dh_ok g hp s s' :
  draw_dh g s = (Ok hp, s') -> exists r, tape s = D_dh g (fst hp) (snd hp) :: r /\ s' = s <| tape := r |>.
Proof.
  unfold draw_dh. intros Hx. apply bind_ok in Hx. destruct Hx as (d & s1 & Hp & Hx). apply pop_ok in Hp.
  destruct d; try (apply stuck_ok in Hx; tauto).
  - destruct (Z.eqb g g0) eqn:Eg; [|apply stuck_ok in Hx; tauto]. apply Z.eqb_eq in Eg. subst g0.
    apply ret_ok in Hx. destruct Hx; subst. exists (tape s1). cbn. tauto.
  - destruct (Z.eqb g g0); [apply raise_ok in Hx|apply stuck_ok in Hx]; tauto.
Qed.
Lemma fresh_nonce_ok n s s' :
  fresh_nonce s = (Ok n, s') -> exists j r, tape s = D_num j :: D_bytes n :: r /\ s' = s <| tape := r |>.
Proof.
  unfold fresh_nonce. intros Hx. apply bind_ok in Hx. destruct Hx as (j & s1 & Hj & Hx).
  apply draw_num_ok in Hj. destruct Hj as (r1 & Ht1 & ->). apply draw_bytes_ok in Hx. destruct Hx as (r & Ht & ->).
  cbn in Ht. subst r1. exists j, r. split; auto.
Qed.
Lemma emit_ok k u s s' : emit k s = (Ok u, s') -> s' = s <| kops := kops s ++ [k] |>.
Proof. unfold emit. intros Hx. apply modify_ok in Hx. exact Hx. Qed.

Lemma get_payload_ok m k enc p s s' :
  get_payload m k enc s = (Ok p, s') -> hd_error (get_payloads m k enc) = Some p /\ s' = s.
Proof.
  unfold get_payload. destruct (get_payloads m k enc); unfold ret, raise; intros Hx; inversion Hx; auto.
Qed.
Lemma req_get_ok r k p s s' :
  req_get r k s = (Ok p, s') -> hd_error (filter (fun p => pkind_eqb (kind_of p) k) (snd r)) = Some p /\ s' = s.
Proof.
  unfold req_get. destruct (filter _ (snd r)); unfold ret, raise; intros Hx; inversion Hx; auto.
Qed.
Lemma first_prop_ok p x s s' : first_prop p s = (Ok x, s') -> hd_error (sa_props p) = Some x /\ s' = s.
Proof. unfold first_prop. destruct (sa_props p); unfold ret, raise; intros Hx; inversion Hx; auto. Qed.
Lemma get_transform_ok p ty t s s' :
  get_transform p ty s = (Ok t, s') -> hd_error (get_transforms p ty) = Some t /\ s' = s.
Proof. unfold get_transform. destruct (get_transforms p ty); unfold ret, raise; intros Hx; inversion Hx; auto. Qed.
Lemma one_ts_ok l t s s' : one_ts l s = (Ok t, s') -> l = [t] /\ s' = s.
Proof. unfold one_ts. destruct l as [|x [|y r]]; unfold ret, raise; intros Hx; inversion Hx; auto. Qed.
Lemma select_best_ok mine ps i s s' :
  select_best mine ps s = (Ok i, s') ->
  hd_error (flat_map (fun p => match intersection mine p with Some i => [i] | None => [] end) ps) = Some i /\ s' = s.
Proof. unfold select_best. destruct (flat_map _ ps); unfold ret, raise; intros Hx; inversion Hx; auto. Qed.
Lemma check_in_states_ok l u s s' : check_in_states l s = (Ok u, s') -> memZ (st (co s)) l = true /\ s' = s.
Proof.
  unfold check_in_states. intros Hx. apply bind_ok in Hx. destruct Hx as (c & s1 & Hc & Hx).
  apply getc_ok in Hc. destruct Hc; subst. apply guard_ok in Hx. auto.
Qed.
Lemma assert_state_ok l u s s' : assert_state l s = (Ok u, s') -> memZ (st (co s)) l = true /\ s' = s.
Proof.
  unfold assert_state. intros Hx. apply bind_ok in Hx. destruct Hx as (c & s1 & Hc & Hx).
  apply getc_ok in Hc. destruct Hc; subst. apply guard_ok in Hx. auto.
Qed.
Lemma amsg_nonce_ok m n s s' :
  amsg_nonce m s = (Ok n, s') ->
  (exists h clear enc rest, m = Some (h, (clear, enc)) /\
                            filter (fun p => pkind_eqb (kind_of p) K_NONCE) clear = P_NONCE n :: rest) /\ s' = s.
Proof.
  unfold amsg_nonce. destruct m as [[h [clear enc]]|]; [|intros Hx; apply raise_ok in Hx; tauto].
  destruct (filter _ clear) as [|[] rest] eqn:Ef; unfold ret, raise; intros Hx; inversion Hx; subst.
  split; auto. exists h, clear, enc, rest. auto.
Qed.

(** operating on self or on self.new_ike_sa *)
Definition view (w : bool) (s : isa) : option core := if w then new_sa s else Some (co s).
Definition upd (w : bool) (f : core -> core) (s : isa) : isa :=
  if w then s <| new_sa := option_map f (new_sa s) |> else s <| co := f (co s) |>.
Lemma getw_ok w c s s' : getw w s = (Ok c, s') -> view w s = Some c /\ s' = s.
Proof.
  unfold getw, view. intros Hx. apply bind_ok in Hx. destruct Hx as (a & s1 & Ha & Hx). apply get_ok in Ha.
  destruct Ha; subst. destruct w. - apply of_opt_ok in Hx. auto. - apply ret_ok in Hx. destruct Hx; subst; auto.
Qed.
Lemma modw_ok w f u s s' : modw w f s = (Ok u, s') -> s' = upd w f s.
Proof. unfold modw, upd. destruct w; intros Hx. - apply modify_ok in Hx. exact Hx. - apply modc_ok in Hx. exact Hx. Qed.
Lemma gen_keys_ok E w p ni nr si sr sec old u s s' :
  gen_keys E w p ni nr si sr sec old s = (Ok u, s') ->
  exists k, e_ike_keys E p ni nr si sr sec old = Some k /\ s' = upd w (fun c => c <| kr := Some k |> <| cprop := Some p |>) s.
Proof.
  unfold gen_keys. destruct (e_ike_keys E p ni nr si sr sec old) as [k|]; [|intros Hx; apply raise_ok in Hx; tauto].
  intros Hx. apply modw_ok in Hx. exists k. auto.
Qed.
Lemma view_upd w f s : view w (upd w f s) = option_map f (view w s).
Proof. destruct w; reflexivity. Qed.
Lemma view_tape w s r : view w (s <| tape := r |>) = view w s.
Proof. destruct w; reflexivity. Qed.
Lemma upd_frame w f s :
  tape (upd w f s) = tape s /\ kops (upd w f s) = kops s /\ now (upd w f s) = now s /\ rek_push (upd w f s) = rek_push s.
Proof. destruct w; cbn; auto. Qed.

(** one step of symbolic execution of a hypothesis [H : (x <- m ;; k) s = (Ok b, s')] *)
Ltac binv H a s1 Ha := apply bind_ok in H; destruct H as (a & s1 & Ha & H); cbv beta in H.

(* ------------------------------------------------------------------------------------------------ *)
(** * Payload lists *)

Definition has_kind (k : pkind) (p : payload) : bool := pkind_eqb (kind_of p) k.
Definition kfilter (k : pkind) (l : list payload) : list payload := filter (fun p => pkind_eqb (kind_of p) k) l.
Lemma get_payloads_coll m k enc : get_payloads m k enc = kfilter k (coll m enc).
Proof. reflexivity. Qed.
Lemma kfilter_app k a b : kfilter k (a ++ b) = kfilter k a ++ kfilter k b.
Proof. apply filter_app. Qed.
(** payloads that carry none of the kinds in [ks] *)
Definition lacks (ks : list pkind) (l : list payload) : Prop :=
  forall p, In p l -> forall k, In k ks -> pkind_eqb (kind_of p) k = false.
Lemma kfilter_lacks ks k l : lacks ks l -> In k ks -> kfilter k l = [].
Proof.
  intros Hl Hk. unfold kfilter. induction l as [|p l IH]; [reflexivity|]. cbn.
  rewrite (Hl p (or_introl eq_refl) k Hk). apply IH. intros q Hq. apply Hl. right; exact Hq.
Qed.
Lemma lacks_nil ks : lacks ks [].
Proof. intros p []. Qed.
Lemma pkind_eqb_eq a b : pkind_eqb a b = true <-> a = b.
Proof. destruct a, b; cbn; split; intros; try discriminate; try reflexivity. Qed.

(* ------------------------------------------------------------------------------------------------ *)
(** * IKE_SA negotiation (IKE_SA_INIT and IKE_SA rekey share the three functions) *)

Definition IKE_KINDS : list pkind := [K_SA; K_NONCE; K_KE].

Lemma intersection_spi mine p i : intersection mine p = Some i -> pr_spi i = pr_spi p /\ pr_num i = pr_num p.
Proof.
  unfold intersection. destruct (Z.eqb (pr_proto mine) (pr_proto p)); [|discriminate].
  match goal with |- (if ?b then _ else _) = _ -> _ => destruct b end; [|discriminate].
  intros Hx; inversion Hx; subst; cbn; auto.
Qed.

Lemma ike_triple_filter pre post a b c :
  lacks IKE_KINDS pre -> lacks IKE_KINDS post -> kind_of a = K_SA -> kind_of b = K_NONCE -> kind_of c = K_KE ->
  kfilter K_SA (pre ++ [a; b; c] ++ post) = [a] /\ kfilter K_NONCE (pre ++ [a; b; c] ++ post) = [b] /\
  kfilter K_KE (pre ++ [a; b; c] ++ post) = [c].
Proof.
  intros Hpre Hpost Ha Hb Hc. rewrite !kfilter_app.
  rewrite !(kfilter_lacks IKE_KINDS _ pre Hpre), !(kfilter_lacks IKE_KINDS _ post Hpost) by (cbn; tauto).
  unfold kfilter; cbn [filter app]. rewrite Ha, Hb, Hc. cbn. auto.
Qed.

  (** the initiator's request: [SA [my proposal with my SPI]; NONCE; KE] *)
  Lemma gen_ike_nego_request_ok w ps s s' :
    gen_ike_nego_request w s = (Ok ps, s') ->
    exists c n j t h pub r,
      view w s = Some c /\
      hd_error (get_transforms ((cf_prop (cfg c)) <| pr_spi := my_spi_b c |>) T_DH) = Some t /\
      tape s = D_num j :: D_bytes n :: D_dh (tr_id t) h pub :: r /\
      ps = [P_SA [(cf_prop (cfg c)) <| pr_spi := my_spi_b c |>]; P_NONCE n; P_KE (tr_id t) pub] /\
      s' = (upd w (fun c' => c' <| dh := Some (tr_id t, h) |>)
                (upd w (fun c' => c' <| chosen := Some ((cf_prop (cfg c)) <| pr_spi := my_spi_b c |>) |>) s))
             <| tape := r |>.
  Proof.
    unfold gen_ike_nego_request. intros Hx.
    binv Hx c s1 Hc. apply getw_ok in Hc. destruct Hc as [Hv ->].
    binv Hx u1 s2 Hm. apply modw_ok in Hm. subst s2.
    binv Hx n s3 Hn. apply fresh_nonce_ok in Hn. destruct Hn as (j & r1 & Ht1 & ->).
    binv Hx t s4 Ht. apply get_transform_ok in Ht. destruct Ht as [Ht ->].
    binv Hx hp s5 Hd. apply draw_dh_ok in Hd. destruct Hd as (r & Ht2 & ->).
    binv Hx u2 s6 Hm. apply modw_ok in Hm. subst s6.
    apply ret_ok in Hx. destruct Hx as [-> ->].
    exists c, n, j, t, (fst hp), (snd hp), r. split; [exact Hv|]. split; [exact Ht|].
    destruct (upd_frame w (fun c' => c' <| chosen := Some ((cf_prop (cfg c)) <| pr_spi := my_spi_b c |>) |>) s)
      as (Ef & _).
    cbn in Ht2. rewrite Ef in Ht1. rewrite Ht2 in Ht1. split; [exact Ht1|]. split; [reflexivity|].
    destruct w, s; reflexivity.
  Qed.

  (** the responder *)
  Lemma ike_nego_request_ok E w m enc old rps s s' chI n g pub pre post :
    ike_nego_request E w m enc old s = (Ok rps, s') ->
    coll m enc = pre ++ [P_SA [chI]; P_NONCE n; P_KE g pub] ++ post ->
    lacks IKE_KINDS pre -> lacks IKE_KINDS post ->
    exists c ch0 nr j h pubR r secret k,
      view w s = Some c /\
      intersection (cf_prop (cfg c)) chI = Some ch0 /\
      tape s = D_num j :: D_bytes nr :: D_dh g h pubR :: r /\
      e_dh_secret E g h pub = Some secret /\
      e_ike_keys E (if nonempty (pr_spi ch0) then ch0 <| pr_spi := my_spi_b c |> else ch0)
                 n nr (peer_spi_b c) (my_spi_b c) secret old = Some k /\
      rps = [P_SA [if nonempty (pr_spi ch0) then ch0 <| pr_spi := my_spi_b c |> else ch0]; P_NONCE nr; P_KE g pubR] /\
      s' = (upd w (fun c' => c' <| kr := Some k |>
                                <| cprop := Some (if nonempty (pr_spi ch0) then ch0 <| pr_spi := my_spi_b c |> else ch0) |>)
                (upd w (fun c' => c' <| chosen := Some (if nonempty (pr_spi ch0) then ch0 <| pr_spi := my_spi_b c |>
                                                        else ch0) |>) s))
             <| tape := r |>.
  Proof.
    unfold ike_nego_request. intros Hx Hcoll Hpre Hpost.
    destruct (ike_triple_filter pre post (P_SA [chI]) (P_NONCE n) (P_KE g pub) Hpre Hpost eq_refl eq_refl eq_refl)
      as (Fsa & Fn & Fke).
    binv Hx psa s1 Hp. apply get_payload_ok in Hp. destruct Hp as [Hp ->].
    rewrite get_payloads_coll, Hcoll, Fsa in Hp. cbn in Hp. inversion Hp; subst psa; clear Hp.
    binv Hx pn s1 Hp. apply get_payload_ok in Hp. destruct Hp as [Hp ->].
    rewrite get_payloads_coll, Hcoll, Fn in Hp. cbn in Hp. inversion Hp; subst pn; clear Hp.
    binv Hx pke s1 Hp. apply get_payload_ok in Hp. destruct Hp as [Hp ->].
    rewrite get_payloads_coll, Hcoll, Fke in Hp. cbn in Hp. inversion Hp; subst pke; clear Hp.
    binv Hx c s1 Hc. apply getw_ok in Hc. destruct Hc as [Hv ->].
    binv Hx u0 s1 Hck.
    assert (s1 = s) as ->.
    { destruct (cookie_secret c).
      - destruct (get_notifies m N_COOKIE false) as [|[] ?]; try (apply raise_ok in Hck; tauto).
        destruct (bytes_eqb _ _); [apply ret_ok in Hck; tauto | apply raise_ok in Hck; tauto].
      - apply ret_ok in Hck; tauto. }
    clear Hck.
    binv Hx ch0 s1 Hs. apply select_best_ok in Hs. destruct Hs as [Hs ->].
    cbn [sa_props flat_map] in Hs. rewrite app_nil_r in Hs.
    destruct (intersection (cf_prop (cfg c)) chI) as [i|] eqn:Ei; [|discriminate]. cbn in Hs. inversion Hs; subst i; clear Hs.
    set (ch := if nonempty (pr_spi ch0) then ch0 <| pr_spi := my_spi_b c |> else ch0) in *.
    binv Hx u1 s1 Hm. apply modw_ok in Hm. subst s1.
    binv Hx nr s1 Hn. apply fresh_nonce_ok in Hn. destruct Hn as (j & r1 & Ht1 & ->).
    binv Hx dht s1 Ht. apply get_transform_ok in Ht. destruct Ht as [Ht ->].
    cbn [ke_of] in Hx.
    binv Hx u2 s1 Hg. apply guard_ok in Hg. destruct Hg as [Hg ->].
    binv Hx hp s1 Hd. apply draw_dh_ok in Hd. destruct Hd as (r & Ht2 & ->).
    binv Hx secret s1 Ho. apply of_opt_ok in Ho. destruct Ho as [Hsec ->].
    binv Hx u3 s1 Hk. cbn [nonce_of] in Hk. apply gen_keys_ok in Hk. destruct Hk as (k & Hk & ->).
    apply ret_ok in Hx. destruct Hx as [-> ->].
    exists c, ch0, nr, j, (fst hp), (snd hp), r, secret, k. split; [exact Hv|]. split; [exact Ei|].
    destruct (upd_frame w (fun c' => c' <| chosen := Some ch |>) s) as (Ef & _).
    cbn in Ht2. rewrite Ef in Ht1. rewrite Ht2 in Ht1.
    split; [exact Ht1|]. split; [exact Hsec|]. split; [exact Hk|]. split; [reflexivity|].
    destruct w, s; reflexivity.
  Qed.

  (** the initiator on the response *)
  Lemma ike_nego_response_ok E w m nonce enc old u s s' chR nr g pubR pre post :
    ike_nego_response E w m nonce enc old s = (Ok u, s') ->
    coll m enc = pre ++ [P_SA [chR]; P_NONCE nr; P_KE g pubR] ++ post ->
    lacks IKE_KINDS pre -> lacks IKE_KINDS post ->
    exists c ch d secret k,
      view w s = Some c /\ chosen c = Some ch /\ prop_is_subset chR ch = true /\ dh c = Some d /\
      e_dh_secret E (fst d) (snd d) pubR = Some secret /\
      e_ike_keys E chR nonce nr (my_spi_b c)
                 (match old with None => be_encode 8 (Z.to_N (h_spi_r (p_hdr m))) | Some _ => pr_spi chR end)
                 secret old = Some k /\
      s' = upd w (fun c' => c' <| kr := Some k |> <| cprop := Some chR |>)
               (upd w (fun c' => c' <| chosen := Some chR |>
                                    <| peer_spi_b := match old with
                                                     | None => be_encode 8 (Z.to_N (h_spi_r (p_hdr m)))
                                                     | Some _ => pr_spi chR end |>) s).
  Proof.
    unfold ike_nego_response. intros Hx Hcoll Hpre Hpost.
    destruct (ike_triple_filter pre post (P_SA [chR]) (P_NONCE nr) (P_KE g pubR) Hpre Hpost eq_refl eq_refl eq_refl)
      as (Fsa & Fn & Fke).
    binv Hx psa s1 Hp. apply get_payload_ok in Hp. destruct Hp as [Hp ->].
    rewrite get_payloads_coll, Hcoll, Fsa in Hp. cbn in Hp. inversion Hp; subst psa; clear Hp.
    binv Hx pn s1 Hp. apply get_payload_ok in Hp. destruct Hp as [Hp ->].
    rewrite get_payloads_coll, Hcoll, Fn in Hp. cbn in Hp. inversion Hp; subst pn; clear Hp.
    binv Hx pke s1 Hp. apply get_payload_ok in Hp. destruct Hp as [Hp ->].
    rewrite get_payloads_coll, Hcoll, Fke in Hp. cbn in Hp. inversion Hp; subst pke; clear Hp.
    binv Hx c s1 Hc. apply getw_ok in Hc. destruct Hc as [Hv ->].
    binv Hx p0 s1 Hf. apply first_prop_ok in Hf. destruct Hf as [Hf ->]. cbn in Hf. inversion Hf; subst p0; clear Hf.
    binv Hx ch s1 Ho. apply of_opt_ok in Ho. destruct Ho as [Hch ->].
    binv Hx u1 s1 Hg. apply guard_ok in Hg. destruct Hg as [Hsub ->].
    binv Hx u2 s1 Hm. apply modw_ok in Hm. subst s1.
    binv Hx d s1 Ho. apply of_opt_ok in Ho. destruct Ho as [Hd ->].
    binv Hx secret s1 Ho. apply of_opt_ok in Ho. destruct Ho as [Hsec ->]. cbn [ke_of snd] in Hsec.
    cbn [nonce_of] in Hx. apply gen_keys_ok in Hx. destruct Hx as (k & Hk & ->).
    exists c, ch, d, secret, k. repeat (split; [assumption|]). reflexivity.
  Qed.

(** ** Key agreement of one IKE_SA negotiation (generic in "self / self.new_ike_sa", clear / encrypted, old SK_d) *)
Theorem ike_nego_agree E kp wI wR mR encR mI encI old sR0 sR1 sIb sI2 chI nI g hI pubI preR postR rps preI postI
        cIb cR0 u :
  dh_ok E kp -> tape_ok kp (tape sR0) -> kp g hI pubI ->
  coll mR encR = preR ++ [P_SA [chI]; P_NONCE nI; P_KE g pubI] ++ postR ->
  lacks IKE_KINDS preR -> lacks IKE_KINDS postR ->
  view wR sR0 = Some cR0 ->
  ike_nego_request E wR mR encR old sR0 = (Ok rps, sR1) ->
  coll mI encI = preI ++ rps ++ postI -> lacks IKE_KINDS preI -> lacks IKE_KINDS postI ->
  view wI sIb = Some cIb -> dh cIb = Some (g, hI) ->
  peer_spi_b cR0 = my_spi_b cIb ->
  match old with
  | None => be_encode 8 (Z.to_N (h_spi_r (p_hdr mI))) = my_spi_b cR0
  | Some _ => pr_spi chI = my_spi_b cIb /\ my_spi_b cIb <> []
  end ->
  ike_nego_response E wI mI nI encI old sIb = (Ok u, sI2) ->
  exists k p nR hR pubR secret,
    (* both sides ran the key schedule on the same arguments *)
    In (D_dh g hR pubR) (tape sR0) /\
    e_dh_secret E g hI pubR = Some secret /\ e_dh_secret E g hR pubI = Some secret /\
    e_ike_keys E p nI nR (my_spi_b cIb) (my_spi_b cR0) secret old = Some k /\
    view wI sI2 = Some (cIb <| chosen := Some p |> <| peer_spi_b := my_spi_b cR0 |> <| kr := Some k |> <| cprop := Some p |>) /\
    view wR sR1 = Some (cR0 <| chosen := Some p |> <| kr := Some k |> <| cprop := Some p |>) /\
    rps = [P_SA [p]; P_NONCE nR; P_KE g pubR] /\
    kops sI2 = kops sIb /\ kops sR1 = kops sR0 /\
    (wI = true -> co sI2 = co sIb) /\ (wR = true -> co sR1 = co sR0) /\
    (wI = false -> new_sa sI2 = new_sa sIb) /\ (wR = false -> new_sa sR1 = new_sa sR0).
Proof.
  intros Hdh HtR HkI HcollR HpreR HpostR HvR HR HcollI HpreI HpostI HvI HdhI Hspi Hold HI.
  destruct (ike_nego_request_ok E _ _ _ _ _ _ _ _ _ _ _ _ _ HR HcollR HpreR HpostR)
    as (c & ch0 & nR & j & hR & pubR & r & secret & k & Hv & Hint & HtapeR & Hsec & Hk & Hrps & HsR1).
  rewrite HvR in Hv. inversion Hv; subst c; clear Hv.
  set (p := if nonempty (pr_spi ch0) then ch0 <| pr_spi := my_spi_b cR0 |> else ch0) in *.
  rewrite Hrps in HcollI.
  destruct (ike_nego_response_ok E _ _ _ _ _ _ _ _ _ _ _ _ _ _ HI HcollI HpreI HpostI)
    as (c & ch & d & secretI & kI & Hv & Hch & Hsub & Hd & HsecI & HkI' & HsI2).
  rewrite HvI in Hv. inversion Hv; subst c; clear Hv.
  rewrite HdhI in Hd. inversion Hd; subst d; clear Hd. cbn [fst snd] in HsecI.
  assert (HinR : In (D_dh g hR pubR) (tape sR0)) by (rewrite HtapeR; cbn; tauto).
  assert (Hsame : e_dh_secret E g hI pubR = e_dh_secret E g hR pubI) by (apply Hdh; [exact HkI | apply HtR; exact HinR]).
  rewrite Hsame, Hsec in HsecI. inversion HsecI; subst secretI; clear HsecI.
  assert (Hpspi : match old with None => be_encode 8 (Z.to_N (h_spi_r (p_hdr mI))) | Some _ => pr_spi p end = my_spi_b cR0).
  { destruct old as [o|]; [|exact Hold]. destruct Hold as [Hs Hne].
    destruct (intersection_spi _ _ _ Hint) as [Hs0 _]. unfold p. rewrite Hs0, Hs.
    destruct (my_spi_b cIb); [congruence|]. reflexivity. }
  rewrite Hpspi in HkI', HsI2. rewrite <- Hspi in HkI'. rewrite Hk in HkI'. inversion HkI'; subst kI; clear HkI'.
  exists k, p, nR, hR, pubR, secret.
  split; [exact HinR|]. split; [rewrite Hsame; exact Hsec|]. split; [exact Hsec|]. split; [rewrite <- Hspi; exact Hk|].
  split. { rewrite HsI2, !view_upd, HvI. reflexivity. }
  split. { rewrite HsR1, view_tape, !view_upd, HvR. reflexivity. }
  split; [exact Hrps|].
  rewrite HsI2, HsR1. destruct wI, wR; cbn; repeat split; auto; discriminate.
Qed.

(** step tactics: [H : (x <- m ;; k) s = (Ok b, s')] *)
Tactic Notation "bpure" hyp(H) ident(a) ident(Ha) uconstr(lem) :=
  let s1 := fresh "s" in binv H a s1 Ha; apply lem in Ha; destruct Ha as [Ha ->].
Tactic Notation "bupd" hyp(H) uconstr(lem) :=
  let s1 := fresh "s" in let u := fresh "u" in let Hm := fresh "Hm" in
  binv H u s1 Hm; apply lem in Hm; subst s1.

(* ------------------------------------------------------------------------------------------------ *)
(** * IKE_SA_INIT *)

(** what the IKE_SA key agreement talks about *)
Record ike_view := mk_iv { iv_kr : option keyring; iv_chosen : option proposal; iv_cprop : option proposal;
                           iv_my_spi : bytes; iv_peer_spi : bytes; iv_init : bool }.
Definition ikeview (c : core) : ike_view := mk_iv (kr c) (chosen c) (cprop c) (my_spi_b c) (peer_spi_b c) (c_init c).

(** the same IkeSa object at the next call: the shell clears the "message id was reset" flag, nothing else *)
Definition carried (c c' : core) : Prop := c' <| my_msg_id_reset := false |> = c <| my_msg_id_reset := false |>.
Lemma carried_refl c : carried c c. Proof. reflexivity. Qed.
Lemma carried_clear c : carried c (c <| my_msg_id_reset := false |>). Proof. reflexivity. Qed.

Lemma set_request_ok ex ps r s s' :
  set_request ex ps s = (Ok r, s') -> r = (ex, ps) /\ s' = s <| co := (co s) <| request := Some (ex, ps) |> |>.
Proof.
  unfold set_request. intros Hx. bupd Hx modc_ok. apply ret_ok in Hx. destruct Hx as [-> ->]. auto.
Qed.
Lemma set_state_ok z u s s' : set_state z s = (Ok u, s') -> s' = s <| co := (co s) <| st := z |> |>.
Proof. unfold set_state. apply modc_ok. Qed.

Definition child_req_payloads (ch : child) (ke : list payload) : list payload :=
  [P_TSi (c_tsi ch); P_TSr (c_tsr ch); P_SA [(c_prop ch) <| pr_spi := c_in ch |>]] ++ ke
  ++ (if Z.eqb (c_mode ch) MODE_TRANSPORT then [P_NOTIFY PROTO_NONE N_USE_TRANSPORT_MODE [] []] else []).

Lemma gen_child_nego_req_ok ch cps s s' :
  gen_child_nego_req ch s = (Ok cps, s') ->
  (get_transforms ((c_prop ch) <| pr_spi := c_in ch |>) T_DH = [] /\ s' = s /\ cps = child_req_payloads ch []) \/
  (exists t rest h pub r,
      get_transforms ((c_prop ch) <| pr_spi := c_in ch |>) T_DH = t :: rest /\
      tape s = D_dh (tr_id t) h pub :: r /\
      s' = s <| co := (co s) <| dh := Some (tr_id t, h) |> |> <| tape := r |> /\
      cps = child_req_payloads ch [P_KE (tr_id t) pub]).
Proof.
  unfold gen_child_nego_req. intros Hx. binv Hx r0 s1 Hr.
  destruct (get_transforms ((c_prop ch) <| pr_spi := c_in ch |>) T_DH) as [|t rest].
  - apply ret_ok in Hr. destruct Hr as [-> ->]. apply ret_ok in Hx. destruct Hx as [-> ->]. left. auto.
  - binv Hr hp s2 Hd. apply draw_dh_ok in Hd. destruct Hd as (r & Ht & ->).
    bupd Hr modc_ok. apply ret_ok in Hr. destruct Hr as [-> ->]. apply ret_ok in Hx. destruct Hx as [-> ->].
    right. exists t, rest, (fst hp), (snd hp), r. split; [reflexivity|]. split; [exact Ht|].
    split; [destruct s; reflexivity|reflexivity].
Qed.

Lemma my_sk_p_pure c x s s' : my_sk_p c s = (Ok x, s') -> s' = s.
Proof.
  unfold my_sk_p. intros Hx. bpure Hx k Hk of_opt_ok. bpure Hx p Hp of_opt_ok. apply ret_ok in Hx. tauto.
Qed.
Lemma gen_auth_pure E a b t d k x s s' : gen_auth E a b t d k s = (Ok x, s') -> s' = s.
Proof.
  unfold gen_auth. intros Hx. bpure Hx c Hc getc_ok. bpure Hx cp Hp of_opt_ok.
  destruct (a_priv _); [apply ret_ok in Hx; tauto|].
  destruct (truthy _); [apply ret_ok in Hx; tauto|apply raise_ok in Hx; tauto].
Qed.
Lemma ser_opt_pure E m x s s' : ser_opt E m s = (Ok x, s') -> s' = s.
Proof. unfold ser_opt. destruct m; intros Hx; [apply ret_ok in Hx; tauto|apply raise_ok in Hx; tauto]. Qed.

Lemma generate_ike_auth_request_frame E r s s' :
  generate_ike_auth_request E s = (Ok r, s') -> ikeview (co s') = ikeview (co s) /\ kops s' = kops s.
Proof.
  unfold generate_ike_auth_request. intros Hx.
  bpure Hx u0 Hst assert_state_ok. bpure Hx c Hc getc_ok. subst c. bpure Hx cr Hcr of_opt_ok.
  binv Hx cps s1 Hg. binv Hx nr s2 Hn. apply amsg_nonce_ok in Hn. destruct Hn as [_ ->].
  binv Hx rq s2 Hs. apply ser_opt_pure in Hs. subst s2.
  binv Hx skp s2 Hk. apply my_sk_p_pure in Hk. subst s2.
  binv Hx pa s2 Ha. apply gen_auth_pure in Ha. subst s2.
  binv Hx rr s2 Hr. apply set_request_ok in Hr. destruct Hr as [-> ->].
  bupd Hx set_state_ok. apply ret_ok in Hx. destruct Hx as [_ ->].
  destruct (gen_child_nego_req_ok _ _ _ _ Hg) as [(_ & -> & _)|(t & rest & h & pub & r0 & _ & _ & -> & _)];
    cbn; auto.
Qed.

Lemma generate_ike_sa_init_request_ok ch rq s s' :
  generate_ike_sa_init_request ch s = (Ok rq, s') ->
  exists n j t h pub r,
    st (co s) = ST_INITIAL /\
    hd_error (get_transforms ((cf_prop (cfg (co s))) <| pr_spi := my_spi_b (co s) |>) T_DH) = Some t /\
    tape s = D_num j :: D_bytes n :: D_dh (tr_id t) h pub :: r /\
    rq = (EX_IKE_SA_INIT, [P_SA [(cf_prop (cfg (co s))) <| pr_spi := my_spi_b (co s) |>]; P_NONCE n; P_KE (tr_id t) pub;
                           P_VENDOR VENDOR_ID]) /\
    request (co s') = Some rq /\ dh (co s') = Some (tr_id t, h) /\
    chosen (co s') = Some ((cf_prop (cfg (co s))) <| pr_spi := my_spi_b (co s) |>) /\
    st (co s') = ST_INIT_REQ_SENT /\ creating (co s') = Some ch /\
    my_spi_b (co s') = my_spi_b (co s) /\ c_init (co s') = c_init (co s) /\ cfg (co s') = cfg (co s) /\
    kr (co s') = kr (co s) /\ children (co s') = children (co s) /\
    my_addr (co s') = my_addr (co s) /\ peer_addr (co s') = peer_addr (co s) /\ kops s' = kops s /\ tape s' = r.
Proof.
  unfold generate_ike_sa_init_request. intros Hx.
  bpure Hx u0 Hst assert_state_ok.
  binv Hx ps s1 Hg. apply gen_ike_nego_request_ok in Hg.
  destruct Hg as (c & n & j & t & h & pub & r & Hv & Ht & Htape & -> & ->). cbn in Hv. inversion Hv; subst c; clear Hv.
  binv Hx rr s2 Hr. apply set_request_ok in Hr. destruct Hr as [-> ->].
  bupd Hx set_state_ok. bpure Hx c Hc getc_ok. subst c. bupd Hx modc_ok. apply ret_ok in Hx. destruct Hx as [-> ->].
  exists n, j, t, h, pub, r. cbn in Hst. rewrite orb_false_r in Hst. apply Z.eqb_eq in Hst.
  split; [exact Hst|]. split; [exact Ht|]. split; [exact Htape|]. cbn. repeat split; reflexivity.
Qed.

Lemma process_ike_sa_init_request_ok E m ps s s' :
  process_ike_sa_init_request E m s = (Ok ps, s') ->
  exists ps0 s1,
    st (co s) = ST_INITIAL /\ ike_nego_request E false m false None s = (Ok ps0, s1) /\ ps = ps0 ++ [P_VENDOR VENDOR_ID] /\
    ikeview (co s') = ikeview (co s1) /\ kops s' = kops s1 /\ children (co s') = children (co s1) /\
    st (co s') = ST_INIT_RES_SENT /\ init_req (co s') = Some (p_hdr m, p_body m).
Proof.
  unfold process_ike_sa_init_request. intros Hx.
  bpure Hx u0 Hst check_in_states_ok. binv Hx ps0 s1 Hn. bupd Hx set_state_ok. bpure Hx c Hc getc_ok. subst c.
  bupd Hx modc_ok. apply ret_ok in Hx. destruct Hx as [-> ->].
  exists ps0, s1. cbn in Hst. rewrite orb_false_r in Hst. apply Z.eqb_eq in Hst. cbn. repeat split; auto.
Qed.

Lemma spi_roundtrip (b : bytes) : length b = 8%nat -> wf_bytes b -> be_encode 8 (Z.to_N (spiZ b)) = b.
Proof. intros Hl Hw. unfold spiZ. rewrite N2Z.id, <- Hl. apply be_encode_decode. exact Hw. Qed.

(** ** (1) IKE_SA_INIT: both ends hold the same IKE_SA key material *)
Theorem ike_sa_init_agree E kp ch sI0 rq sI1 (mR : pmsg body) sR0 psR sR1 (mI : pmsg body) sI1' nxt sI2 :
  dh_ok E kp -> tape_ok kp (tape sI0) -> tape_ok kp (tape sR0) ->
  c_init (co sI0) = true -> c_init (co sR0) = false ->
  (* initiator: IKE_SA_INIT request *)
  generate_ike_sa_init_request ch sI0 = (Ok rq, sI1) ->
  (* responder: an IkeSa created by the controller for this request (peer_spi = header.spi_i) *)
  fst (p_body mR) = snd rq -> peer_spi_b (co sR0) = my_spi_b (co sI0) ->
  length (my_spi_b (co sR0)) = 8%nat -> wf_bytes (my_spi_b (co sR0)) ->
  process_ike_sa_init_request E mR sR0 = (Ok psR, sR1) ->
  (* initiator: the response carries exactly the responder's payloads and the responder's SPI *)
  fst (p_body mI) = psR -> h_spi_r (p_hdr mI) = spiZ (my_spi_b (co sR1)) ->
  carried (co sI1) (co sI1') ->
  process_ike_sa_init_response E mI sI1' = (Ok nxt, sI2) ->
  exists k p nI nR g hI pubI hR pubR secret,
    kr (co sI2) = Some k /\ kr (co sR1) = Some k /\
    chosen (co sI2) = Some p /\ chosen (co sR1) = Some p /\ cprop (co sI2) = Some p /\ cprop (co sR1) = Some p /\
    peer_spi_b (co sI2) = my_spi_b (co sR1) /\ peer_spi_b (co sR1) = my_spi_b (co sI2) /\
    my_spi_b (co sI2) = my_spi_b (co sI0) /\ my_spi_b (co sR1) = my_spi_b (co sR0) /\
    (* the key schedule was run on the same arguments; the DH secret is shared *)
    In (D_dh g hI pubI) (tape sI0) /\ In (D_dh g hR pubR) (tape sR0) /\
    e_dh_secret E g hI pubR = Some secret /\ e_dh_secret E g hR pubI = Some secret /\
    e_ike_keys E p nI nR (my_spi_b (co sI0)) (my_spi_b (co sR0)) secret None = Some k /\
    (* AUTH keys cross over *)
    (forall s, my_sk_p (co sI2) s = (Ok (sk_pi k), s)) /\ (forall s, peer_sk_p (co sR1) s = (Ok (sk_pi k), s)) /\
    (forall s, my_sk_p (co sR1) s = (Ok (sk_pr k), s)) /\ (forall s, peer_sk_p (co sI2) s = (Ok (sk_pr k), s)) /\
    st (co sR1) = ST_INIT_RES_SENT /\ kops sI2 = kops sI1' /\ kops sR1 = kops sR0.
Proof.
  intros Hdh HtI HtR HiI HiR HgI HbodyR Hspi Hlen Hwf HR HbodyI Hhdr Hcar HI.
  destruct (generate_ike_sa_init_request_ok _ _ _ _ HgI)
    as (nI & j & t & hI & pubI & rI & HstI & HtI0 & HtapeI & -> & Hreq & HdhI & HchI & Hst1 & _ & Hmy1 & Hin1 & _).
  destruct (process_ike_sa_init_request_ok _ _ _ _ _ HR) as (ps0 & sRa & HstR & HnR & -> & HviewR & HkopsR & _ & HstR1 & _).
  (* the fields of the initiator's core at the time of the response *)
  assert (Hreq' : request (co sI1') = request (co sI1)) by (apply (f_equal request) in Hcar; exact Hcar).
  assert (Hdh' : dh (co sI1') = dh (co sI1)) by (apply (f_equal dh) in Hcar; exact Hcar).
  assert (Hmy' : my_spi_b (co sI1') = my_spi_b (co sI1)) by (apply (f_equal my_spi_b) in Hcar; exact Hcar).
  assert (Hin' : c_init (co sI1') = c_init (co sI1)) by (apply (f_equal c_init) in Hcar; exact Hcar).
  (* the response handler: no INVALID_KE_PAYLOAD, no COOKIE *)
  unfold process_ike_sa_init_response in HI.
  bpure HI u0 Hst2 check_in_states_ok.
  assert (HcollI : coll mI false = [] ++ ps0 ++ [P_VENDOR VENDOR_ID]) by (unfold coll; cbv beta iota; exact HbodyI).
  assert (HcollR : coll mR false = [] ++ [P_SA [(cf_prop (cfg (co sI0))) <| pr_spi := my_spi_b (co sI0) |>];
                                          P_NONCE nI; P_KE (tr_id t) pubI] ++ [P_VENDOR VENDOR_ID])
    by (unfold coll; cbv beta iota; exact HbodyR).
  assert (Hlv : lacks IKE_KINDS [P_VENDOR VENDOR_ID]).
  { intros q [<-|[]] k [<-|[<-|[<-|[]]]]; reflexivity. }
  destruct (ike_nego_request_ok E _ _ _ _ _ _ _ _ _ _ _ _ _ HnR HcollR (lacks_nil _) Hlv)
    as (c & ch0 & nR & jR & hR & pubR & rR & secret & k & Hv & Hint & HtapeR & Hsec & Hk & Hps0 & HsRa).
  assert (Hnot : forall ty, get_notifies mI ty false = []).
  { intros ty. unfold get_notifies. rewrite get_payloads_coll, HcollI, Hps0. reflexivity. }
  rewrite !Hnot in HI.
  bpure HI u1 Hab nguard_ok. clear Hab.
  bpure HI c1 Hc getc_ok. subst c1. bpure HI req Hrq of_opt_ok. rewrite Hreq', Hreq in Hrq. inversion Hrq; subst req; clear Hrq.
  bpure HI pn Hpn req_get_ok. cbn in Hpn. inversion Hpn; subst pn; clear Hpn. cbn [nonce_of] in HI.
  binv HI u2 sIa HnI. bupd HI modc_ok. binv HI r sIc Hau. apply ret_ok in HI. destruct HI as [_ ->].
  destruct (generate_ike_auth_request_frame _ _ _ _ Hau) as [Hfr Hko]. cbn in Hfr, Hko.
  (* the generic agreement *)
  assert (HkpI : kp (tr_id t) hI pubI) by (apply HtI; rewrite HtapeI; cbn; tauto).
  destruct (ike_nego_agree E kp false false mR false mI false None sR0 sRa sI1' sIa _ nI (tr_id t) hI pubI
                           [] [P_VENDOR VENDOR_ID] ps0 [] [P_VENDOR VENDOR_ID] (co sI1') (co sR0) u2
                           Hdh HtR HkpI HcollR (lacks_nil _) Hlv eq_refl HnR HcollI (lacks_nil _) Hlv eq_refl)
    as (k' & p & nR' & hR' & pubR' & secret' & HinR & Hs1 & Hs2 & Hks & HvI & HvR & Hrps & HkoI & HkoR & _).
  { rewrite Hdh'. exact HdhI. }
  { rewrite Hmy', Hmy1. exact Hspi. }
  { rewrite Hhdr. assert (Hm : my_spi_b (co sR1) = my_spi_b (co sR0)).
    { apply (f_equal iv_my_spi) in HviewR. cbn in HviewR. rewrite HviewR, HsRa. reflexivity. }
    rewrite Hm. apply spi_roundtrip; assumption. }
  { exact HnI. }
  cbn in HvI, HvR. inversion HvI as [HcI]; clear HvI. inversion HvR as [HcR]; clear HvR.
  assert (EI : ikeview (co sIc) = ikeview ((co sI1') <| chosen := Some p |> <| peer_spi_b := my_spi_b (co sR0) |>
                                                      <| kr := Some k' |> <| cprop := Some p |>)).
  { rewrite Hfr, HcI. reflexivity. }
  assert (ER : ikeview (co sR1) = ikeview ((co sR0) <| chosen := Some p |> <| kr := Some k' |> <| cprop := Some p |>)).
  { rewrite HviewR, HcR. reflexivity. }
  pose proof (f_equal iv_kr EI) as A1. pose proof (f_equal iv_chosen EI) as A2. pose proof (f_equal iv_cprop EI) as A3.
  pose proof (f_equal iv_my_spi EI) as A4. pose proof (f_equal iv_peer_spi EI) as A5. pose proof (f_equal iv_init EI) as A6.
  pose proof (f_equal iv_kr ER) as B1. pose proof (f_equal iv_chosen ER) as B2. pose proof (f_equal iv_cprop ER) as B3.
  pose proof (f_equal iv_my_spi ER) as B4. pose proof (f_equal iv_peer_spi ER) as B5. pose proof (f_equal iv_init ER) as B6.
  cbn in A1, A2, A3, A4, A5, A6, B1, B2, B3, B4, B5, B6.
  rewrite Hmy', Hmy1 in A4. rewrite Hin', Hin1, HiI in A6. rewrite HiR in B6. rewrite Hmy', Hmy1 in Hks.
  exists k', p, nI, nR', (tr_id t), hI, pubI, hR', pubR', secret'.
  split; [exact A1|]. split; [exact B1|]. split; [exact A2|]. split; [exact B2|]. split; [exact A3|]. split; [exact B3|].
  split; [rewrite A5, B4; reflexivity|]. split; [rewrite B5, A4; exact Hspi|]. split; [exact A4|]. split; [exact B4|].
  split; [rewrite HtapeI; cbn; tauto|]. split; [exact HinR|]. split; [exact Hs1|]. split; [exact Hs2|]. split; [exact Hks|].
  split; [intros s; unfold my_sk_p, of_opt, bind, ret; rewrite A1, A3, A6; reflexivity|].
  split; [intros s; unfold peer_sk_p, of_opt, bind, ret; rewrite B1, B3, B6; reflexivity|].
  split; [intros s; unfold my_sk_p, of_opt, bind, ret; rewrite B1, B3, B6; reflexivity|].
  split; [intros s; unfold peer_sk_p, of_opt, bind, ret; rewrite A1, A3, A6; reflexivity|].
  split; [exact HstR1|]. split; [rewrite Hko; cbn; exact HkoI|]. rewrite HkopsR. exact HkoR.
Qed.

(* ------------------------------------------------------------------------------------------------ *)
(** * CHILD_SA negotiation *)

Lemma try_catch_ok {A} (m : H A) h a s s' :
  try_catch m h s = (Ok a, s') ->
  m s = (Ok a, s') \/ exists e s1 k, m s = (Raise e, s1) /\ h e = Some k /\ k s1 = (Ok a, s').
Proof.
  unfold try_catch. destruct (m s) as [[x|e|] s1]; intros Hx.
  - left. exact Hx.
  - destruct (h e) as [k|] eqn:Eh; [|discriminate]. right. exists e, s1, k. auto.
  - discriminate.
Qed.

(** what one endpoint hands to its kernel for one CHILD_SA: [create_child_sa] succeeded iff both verdicts were
    positive, and then exactly two SAs were added: outbound first *)
Definition out_ksa (c : core) (ch : child) (k : ckeyring) (ini : bool) (tsi tsr : ts) (life : Z) : ksa :=
  mk_ksa (c_out ch) (my_addr c) (peer_addr c) (ipsec_proto (c_prop ch)) (c_mode ch) tsi tsr (c_prop ch)
         (if ini then ck_ei k else ck_er k) (if ini then ck_ai k else ck_ar k) life.
Definition in_ksa (c : core) (ch : child) (k : ckeyring) (ini : bool) (tsi tsr : ts) (life : Z) : ksa :=
  mk_ksa (c_in ch) (peer_addr c) (my_addr c) (ipsec_proto (c_prop ch)) (c_mode ch) tsr tsi (c_prop ch)
         (if ini then ck_er k else ck_ei k) (if ini then ck_ar k else ck_ai k) life.

Lemma create_child_sa_ok ch k ini u s s' :
  create_child_sa ch k ini s = (Ok u, s') ->
  exists tsi tsr life,
    c_tsi ch = [tsi] /\ c_tsr ch = [tsr] /\
    (* the lifetime carries a random jitter (or is -1 = unlimited) *)
    ((c_life ch = -1 /\ life = -1) \/ (exists j, In (D_num j) (tape s) /\ life = c_life ch + j)) /\
    kops s' = kops s ++ [K_add (out_ksa (co s) ch k ini tsi tsr life) true; K_add (in_ksa (co s) ch k ini tsi tsr life) true] /\
    co s' = co s /\ new_sa s' = new_sa s.
Proof.
  unfold create_child_sa. intros Hx.
  bpure Hx c Hc getc_ok. subst c. bpure Hx tsi Htsi one_ts_ok. bpure Hx tsr Htsr one_ts_ok.
  binv Hx u1 s1 Hal. assert (s1 = s) as ->.
  { destruct (Z.eqb _ 50); [|apply ret_ok in Hal; tauto].
    bpure Hal t Ht get_transform_ok. apply guard_ok in Hal. tauto. }
  clear Hal. bpure Hx ti Hti get_transform_ok. bpure Hx u2 Hg guard_ok.
  binv Hx life s1 Hl.
  assert (Hlife : ((c_life ch = -1 /\ life = -1) \/ (exists j, In (D_num j) (tape s) /\ life = c_life ch + j)) /\
                  co s1 = co s /\ new_sa s1 = new_sa s /\ kops s1 = kops s).
  { destruct (Z.eqb (c_life ch) (-1)) eqn:El.
    - apply ret_ok in Hl. destruct Hl as [-> ->]. apply Z.eqb_eq in El. auto.
    - binv Hl j s2 Hj. apply draw_num_ok in Hj. destruct Hj as (r & Ht & ->). apply ret_ok in Hl. destruct Hl as [-> ->].
      split; [right; exists j; rewrite Ht; cbn; auto|]. cbn. auto. }
  clear Hl. destruct Hlife as (Hlife & Hco & Hns & Hko).
  assert (Hkeys : (if ini then (ck_ei k, ck_er k, ck_ai k, ck_ar k) else (ck_er k, ck_ei k, ck_ar k, ck_ai k)) =
                  (if ini then ck_ei k else ck_er k, if ini then ck_er k else ck_ei k,
                   if ini then ck_ai k else ck_ar k, if ini then ck_ar k else ck_ai k)) by (destruct ini; reflexivity).
  rewrite Hkeys in Hx. cbv beta iota in Hx.
  bpure Hx u2b Hspi4 guard_ok. clear Hspi4.
  binv Hx v1 s2 Hv. apply draw_verdict_ok in Hv. destruct Hv as (r1 & _ & ->).
  bupd Hx emit_ok. bpure Hx u3 Hv1 guard_ok. subst v1.
  binv Hx v2 s2 Hv. apply draw_verdict_ok in Hv. destruct Hv as (r2 & _ & ->).
  bupd Hx emit_ok. destruct v2.
  - apply ret_ok in Hx. destruct Hx as [_ ->]. exists tsi, tsr, life.
    split; [exact Htsi|]. split; [exact Htsr|]. split; [exact Hlife|]. cbn. rewrite Hko, Hco, Hns, <- app_assoc.
    repeat split; reflexivity.
  - binv Hx v3 s2 Hv. bupd Hx emit_ok. apply raise_ok in Hx. tauto.
Qed.

Definition CHILD_KINDS : list pkind := [K_SA; K_TSi; K_TSr; K_KE].
Definition RES_KINDS : list pkind := [K_SA; K_TSi; K_TSr; K_KE; K_NONCE; K_NOTIFY].
Definition tfilter (ty : Z) (l : list payload) : list payload := filter (fun p => Z.eqb (notify_ty p) ty) (kfilter K_NOTIFY l).
Lemma get_notifies_coll m ty enc : get_notifies m ty enc = tfilter ty (coll m enc).
Proof. reflexivity. Qed.
Lemma tfilter_app ty a b : tfilter ty (a ++ b) = tfilter ty a ++ tfilter ty b.
Proof. unfold tfilter. rewrite kfilter_app. apply filter_app. Qed.
Lemma tfilter_lacks ty ks l : lacks ks l -> In K_NOTIFY ks -> tfilter ty l = [].
Proof. intros Hl Hi. unfold tfilter. rewrite (kfilter_lacks ks K_NOTIFY l Hl Hi). reflexivity. Qed.

Definition transport_notify : payload := P_NOTIFY PROTO_NONE N_USE_TRANSPORT_MODE [] [].
Definition ke_shape (ke : list payload) : Prop := ke = [] \/ exists g pub, ke = [P_KE g pub].
Definition rekey_shape (r0 : list payload) : Prop := r0 = [] \/ exists a b, r0 = [P_NOTIFY a N_REKEY_SA b []].

(** lookups in a request [pre ++ (TSi, TSr, SA, [KE], [USE_TRANSPORT_MODE]) ++ post] *)
Lemma child_req_lookup pre ch ke post :
  lacks CHILD_KINDS pre -> lacks CHILD_KINDS post -> ke_shape ke ->
  tfilter N_USE_TRANSPORT_MODE pre = [] -> tfilter N_USE_TRANSPORT_MODE post = [] ->
  let l := pre ++ child_req_payloads ch ke ++ post in
  kfilter K_SA l = [P_SA [(c_prop ch) <| pr_spi := c_in ch |>]] /\ kfilter K_TSi l = [P_TSi (c_tsi ch)] /\
  kfilter K_TSr l = [P_TSr (c_tsr ch)] /\ kfilter K_KE l = ke /\
  nonempty (tfilter N_USE_TRANSPORT_MODE l) = Z.eqb (c_mode ch) MODE_TRANSPORT.
Proof.
  intros Hpre Hpost Hke Tpre Tpost l. unfold l, child_req_payloads.
  rewrite !kfilter_app, !tfilter_app, Tpre, Tpost.
  rewrite !(kfilter_lacks CHILD_KINDS _ pre Hpre), !(kfilter_lacks CHILD_KINDS _ post Hpost) by (cbn; tauto).
  destruct Hke as [->|(g & pub & ->)]; destruct (Z.eqb (c_mode ch) MODE_TRANSPORT); cbn; auto.
Qed.

(** lookups in a response [REKEY_SA?; NONCE?; USE_TRANSPORT_MODE?; KE?; SA; TSi; TSr] ++ post *)
Lemma child_res_lookup r0 r1 (tr : bool) r3 sa tsi tsr post :
  rekey_shape r0 -> (r1 = [] \/ exists n, r1 = [P_NONCE n]) -> ke_shape r3 -> lacks RES_KINDS post ->
  let l := (r0 ++ r1 ++ (if tr then [transport_notify] else []) ++ r3 ++ [P_SA sa; P_TSi tsi; P_TSr tsr]) ++ post in
  kfilter K_SA l = [P_SA sa] /\ kfilter K_TSi l = [P_TSi tsi] /\ kfilter K_TSr l = [P_TSr tsr] /\
  kfilter K_KE l = r3 /\ kfilter K_NONCE l = r1 /\
  nonempty (tfilter N_USE_TRANSPORT_MODE l) = tr /\
  (forall ty, In ty [N_NO_PROPOSAL_CHOSEN; N_TS_UNACCEPTABLE; N_CHILD_SA_NOT_FOUND; N_TEMPORARY_FAILURE;
                     N_NO_ADDITIONAL_SAS] -> tfilter ty l = []).
Proof.
  intros H0 H1 H3 Hpost l.
  assert (Hty : forall ty, tfilter ty post = []) by (intros ty; apply (tfilter_lacks _ RES_KINDS); [exact Hpost|cbn; tauto]).
  assert (Herr : forall ty, In ty [N_NO_PROPOSAL_CHOSEN; N_TS_UNACCEPTABLE; N_CHILD_SA_NOT_FOUND; N_TEMPORARY_FAILURE;
                                   N_NO_ADDITIONAL_SAS] -> tfilter ty l = []).
  { intros ty Hin. unfold l. rewrite !tfilter_app, Hty.
    destruct H0 as [->|(a & b & ->)]; destruct H1 as [->|(n & ->)]; destruct H3 as [->|(g & pub & ->)]; destruct tr;
      cbn in Hin; repeat (destruct Hin as [<-|Hin]; [reflexivity|]); destruct Hin. }
  split; [|split; [|split; [|split; [|split; [|split; [|exact Herr]]]]]]; unfold l;
    rewrite ?kfilter_app, ?tfilter_app, ?Hty;
    rewrite ?(kfilter_lacks RES_KINDS _ post Hpost) by (cbn; tauto);
    destruct H0 as [->|(a & b & ->)]; destruct H1 as [->|(n & ->)]; destruct H3 as [->|(g & pub & ->)]; destruct tr;
    reflexivity.
Qed.

Lemma child_nego_req_body_of E m rps s s' :
  child_nego_req E m s = (Ok rps, s') -> kfilter K_SA rps <> [] -> child_nego_req_body E m s = (Ok rps, s').
Proof.
  unfold child_nego_req. intros Hx Hsa. apply try_catch_ok in Hx. destruct Hx as [Hx|(e & s1 & k & _ & Hh & Hk)]; [exact Hx|].
  exfalso. apply Hsa.
  destruct e; cbn in Hh; inversion Hh; subst k; apply ret_ok in Hk; destruct Hk as [-> _]; reflexivity.
Qed.

Definition first_nonce (m : option amsg) : option bytes :=
  match m with
  | Some (_, (clear, _)) => match kfilter K_NONCE clear with P_NONCE n :: _ => Some n | _ => None end
  | None => None
  end.
Lemma amsg_nonce_first m n s s' : amsg_nonce m s = (Ok n, s') -> first_nonce m = Some n /\ s' = s.
Proof.
  intros Hx. apply amsg_nonce_ok in Hx. destruct Hx as [(h & clear & enc & rest & -> & Hf) ->]. split; [|reflexivity].
  unfold first_nonce, kfilter. rewrite Hf. reflexivity.
Qed.

Lemma opt_nonce_ok exch m nn s s' :
  opt_nonce exch m s = (Ok nn, s') ->
  co s' = co s /\ kops s' = kops s /\ new_sa s' = new_sa s /\ (forall d, In d (tape s') -> In d (tape s)) /\
  (if Z.eqb exch EX_IKE_AUTH
   then first_nonce (init_req (co s)) = Some (fst (fst nn)) /\ first_nonce (init_res (co s)) = Some (snd (fst nn)) /\
        snd nn = []
   else (exists pn, hd_error (kfilter K_NONCE (coll m true)) = Some pn /\ fst (fst nn) = nonce_of pn) /\
        snd nn = [P_NONCE (snd (fst nn))]).
Proof.
  unfold opt_nonce. intros Hx. bpure Hx c Hc getc_ok. subst c. destruct (Z.eqb exch EX_IKE_AUTH).
  - binv Hx a s1 Ha. apply amsg_nonce_first in Ha. destruct Ha as [Ha ->].
    binv Hx b s1 Hb. apply amsg_nonce_first in Hb. destruct Hb as [Hb ->].
    apply ret_ok in Hx. destruct Hx as [-> ->]. cbn. auto 10.
  - bpure Hx pn Hpn get_payload_ok. binv Hx nr s1 Hn. apply fresh_nonce_ok in Hn. destruct Hn as (j & r & Ht & ->).
    apply ret_ok in Hx. destruct Hx as [-> ->]. cbn. repeat split; auto.
    + intros d Hd. rewrite Ht. cbn. auto.
    + exists pn. auto.
Qed.

(** the responder's side of one CHILD_SA negotiation *)
Lemma child_nego_req_body_ok E m rps s s' pre ch ke post :
  child_nego_req_body E m s = (Ok rps, s') ->
  coll m true = pre ++ child_req_payloads ch ke ++ post ->
  lacks CHILD_KINDS pre -> lacks CHILD_KINDS post -> ke_shape ke ->
  tfilter N_USE_TRANSPORT_MODE pre = [] -> tfilter N_USE_TRANSPORT_MODE post = [] ->
  exists r0 n_req n_res r1 pc ctsr ctsi chR keyseed r3 k cp ck inb life,
    rekey_shape r0 /\
    (if Z.eqb (h_exch (p_hdr m)) EX_IKE_AUTH
     then first_nonce (init_req (co s)) = Some n_req /\ first_nonce (init_res (co s)) = Some n_res /\ r1 = []
     else (exists pn, hd_error (kfilter K_NONCE (coll m true)) = Some pn /\ n_req = nonce_of pn) /\ r1 = [P_NONCE n_res]) /\
    pt_mode pc = (if Z.eqb (c_mode ch) MODE_TRANSPORT then MODE_TRANSPORT else MODE_TUNNEL) /\
    intersection (if Z.eqb (h_exch (p_hdr m)) EX_IKE_AUTH then copy_without_dh (pt_prop pc) else pt_prop pc)
                 ((c_prop ch) <| pr_spi := c_in ch |>) = Some chR /\
    ((get_transforms chR T_DH = [] /\ keyseed = n_req ++ n_res /\ r3 = []) \/
     (exists g pubI hR pubR secret,
         get_transforms chR T_DH <> [] /\ ke = [P_KE g pubI] /\ In (D_dh g hR pubR) (tape s) /\
         e_dh_secret E g hR pubI = Some secret /\ keyseed = secret ++ n_req ++ n_res /\ r3 = [P_KE g pubR])) /\
    kr (co s) = Some k /\ cprop (co s) = Some cp /\ e_child_keys E cp chR keyseed (sk_d k) = Some ck /\
    kops s' = kops s ++
      [K_add (out_ksa (co s) (mk_child inb (c_in ch) (pt_prop pc) chR [ctsr] [ctsi] (pt_mode pc) (pt_life pc)) ck false
                      ctsr ctsi life) true;
       K_add (in_ksa (co s) (mk_child inb (c_in ch) (pt_prop pc) chR [ctsr] [ctsi] (pt_mode pc) (pt_life pc)) ck false
                     ctsr ctsi life) true] /\
    co s' = (co s) <| children := children (co s) ++
                [mk_child inb (c_in ch) (pt_prop pc) (chR <| pr_spi := inb |>) [ctsr] [ctsi] (pt_mode pc) (pt_life pc)] |> /\
    new_sa s' = new_sa s /\
    rps = r0 ++ r1 ++ (if Z.eqb (c_mode ch) MODE_TRANSPORT then [transport_notify] else []) ++ r3
             ++ [P_SA [chR <| pr_spi := inb |>]; P_TSi [ctsi]; P_TSr [ctsr]].
Proof.
  intros HR Hcoll Hpre Hpost Hke Tpre Tpost.
  destruct (child_req_lookup pre ch ke post Hpre Hpost Hke Tpre Tpost) as (Lsa & Ltsi & Ltsr & Lke & Ltr).
  rewrite <- Hcoll in Lsa, Ltsi, Ltsr, Lke, Ltr.
  unfold child_nego_req_body in HR.
  rewrite (get_notifies_coll m N_USE_TRANSPORT_MODE true), Ltr in HR.
  bpure HR psa Hp get_payload_ok. rewrite get_payloads_coll, Lsa in Hp. cbn in Hp. inversion Hp; subst psa; clear Hp.
  bpure HR ptsi Hp get_payload_ok. rewrite get_payloads_coll, Ltsi in Hp. cbn in Hp. inversion Hp; subst ptsi; clear Hp.
  bpure HR ptsr Hp get_payload_ok. rewrite get_payloads_coll, Ltsr in Hp. cbn in Hp. inversion Hp; subst ptsr; clear Hp.
  bpure HR c Hc getc_ok. subst c. bpure HR u0 Hbusy nguard_ok.
  binv HR r0 s1 Hr0.
  assert (Hr0' : rekey_shape r0 /\ s1 = s).
  { destruct (get_notifies m N_REKEY_SA true) as [|[] ?]; try (apply ret_ok in Hr0; destruct Hr0 as [-> ->]; split; [left|]; reflexivity).
    destruct (find_child (children (co s)) spi); [|apply raise_ok in Hr0; tauto].
    destruct (rekey_child_being_deleted _ _); [apply raise_ok in Hr0; tauto|].
    destruct (rekey_child_being_rekeyed _ _); [apply raise_ok in Hr0; tauto|].
    destruct (_ || _); [apply raise_ok in Hr0; tauto|].
    bpure Hr0 p0 Hp0 first_prop_ok. apply ret_ok in Hr0. destruct Hr0 as [-> ->]. split; [right; eauto|reflexivity]. }
  clear Hr0. destruct Hr0' as [Hr0 ->].
  binv HR nn s1 Hnn. apply opt_nonce_ok in Hnn. destruct Hnn as (Hco1 & Hko1 & Hns1 & Htp1 & Hnn).
  destruct nn as [[n_req n_res] r1]. cbn [fst snd] in Hnn. cbv beta iota zeta in HR. cbn [tsl_of sa_props] in HR.
  unfold get_ipsec_configuration in HR. bpure HR sel Hsel of_opt_ok. destruct sel as [[pc ctsr] ctsi]. cbv beta iota in HR.
  bpure HR u1 Hmode guard_ok. apply Z.eqb_eq in Hmode.
  bpure HR chR Hsb select_best_ok. cbn [flat_map] in Hsb. rewrite app_nil_r in Hsb.
  match type of Hsb with hd_error (match ?i with _ => _ end) = _ => destruct i as [i0|] eqn:Hint; [|discriminate] end.
  cbn in Hsb. inversion Hsb; subst i0; clear Hsb.
  binv HR kk s2 Hkk. destruct kk as [keyseed r3]. cbv beta iota in HR.
  assert (Hdh : ((get_transforms chR T_DH = [] /\ keyseed = n_req ++ n_res /\ r3 = []) \/
                 (exists g pubI hR pubR secret,
                     get_transforms chR T_DH <> [] /\ ke = [P_KE g pubI] /\ In (D_dh g hR pubR) (tape s1) /\
                     e_dh_secret E g hR pubI = Some secret /\ keyseed = secret ++ n_req ++ n_res /\ r3 = [P_KE g pubR])) /\
                co s2 = co s1 /\ kops s2 = kops s1 /\ new_sa s2 = new_sa s1).
  { destruct (get_transforms chR T_DH) as [|t0 rest0] eqn:Egt; cbn [nonempty] in Hkk.
    - apply ret_ok in Hkk. destruct Hkk as [Hkk ->]. inversion Hkk. auto 10.
    - bpure Hkk pke Hp get_payload_ok. rewrite get_payloads_coll, Lke in Hp.
      destruct Hke as [->|(g & pubI & ->)]; [discriminate|]. cbn in Hp. inversion Hp; subst pke; clear Hp.
      bpure Hkk dht Hdt get_transform_ok. cbn [ke_of] in Hkk. cbv beta iota in Hkk. bpure Hkk u2 Hg guard_ok.
      binv Hkk hp s3 Hd. apply draw_dh_ok in Hd. destruct Hd as (r & Ht & ->).
      bpure Hkk secret Hsec of_opt_ok. apply ret_ok in Hkk. destruct Hkk as [Hkk ->]. inversion Hkk.
      split; [|cbn; auto]. right. exists g, pubI, (fst hp), (snd hp), secret.
      split; [discriminate|]. split; [reflexivity|]. split; [rewrite Ht; cbn; auto|]. auto. }
  clear Hkk. destruct Hdh as (Hdh & Hco2 & Hko2 & Hns2).
  bpure HR k Hk of_opt_ok. bpure HR cp Hcp of_opt_ok. bpure HR ck Hck of_opt_ok.
  binv HR inb s3 Hd. apply draw_bytes_ok in Hd. destruct Hd as (rb & _ & ->).
  binv HR u3 s3 Hcr. apply create_child_sa_ok in Hcr.
  destruct Hcr as (tsi & tsr & life & Htsi & Htsr & _ & Hko3 & Hco3 & Hns3). cbn in Htsi, Htsr, Hko3, Hco3, Hns3.
  inversion Htsi; subst tsi. inversion Htsr; subst tsr. clear Htsi Htsr.
  bupd HR modc_ok. apply ret_ok in HR. destruct HR as [-> ->].
  destruct (intersection_spi _ _ _ Hint) as [Hspi _]. cbn in Hspi.
  exists r0, n_req, n_res, r1, pc, ctsr, ctsi, chR, keyseed, r3, k, cp, ck, inb, life.
  split; [exact Hr0|].
  split. { destruct (Z.eqb (h_exch (p_hdr m)) EX_IKE_AUTH); tauto. }
  split; [exact Hmode|]. split; [exact Hint|].
  split. { destruct Hdh as [Hd|(g & pubI & hR & pubR & secret & H1 & H2 & H3 & H4)]; [left; exact Hd|].
           right. exists g, pubI, hR, pubR, secret. split; [exact H1|]. split; [exact H2|]. split; [apply Htp1; exact H3|exact H4]. }
  split; [exact Hk|]. split; [exact Hcp|]. split; [exact Hck|].
  cbn. rewrite Hko3, Hko2, Hko1, Hco3, Hco2, Hco1, Hns3, Hns2, Hns1, Hspi, <- Hmode.
  split; [reflexivity|]. split; [reflexivity|]. split; [reflexivity|].
  destruct (Z.eqb (h_exch (p_hdr m)) EX_IKE_AUTH); [destruct Hnn as (_ & _ & Hr1)|destruct Hnn as (_ & Hr1)]; cbn in Hr1;
    subst r1; destruct (Z.eqb (c_mode ch) MODE_TRANSPORT); reflexivity.
Qed.

(** the initiator's side *)
Lemma child_nego_res_ok E m u s s' r0 r1 (tr : bool) r3 chR' ctsi ctsr post :
  child_nego_res E m s = (Ok u, s') ->
  coll m true = (r0 ++ r1 ++ (if tr then [transport_notify] else []) ++ r3 ++ [P_SA [chR']; P_TSi [ctsi]; P_TSr [ctsr]])
                ++ post ->
  rekey_shape r0 -> (r1 = [] \/ exists n, r1 = [P_NONCE n]) -> ke_shape r3 -> lacks RES_KINDS post ->
  exists cr n_req n_res keyseed k cp ck life,
    creating (co s) = Some cr /\
    c_mode cr = (if tr then MODE_TRANSPORT else MODE_TUNNEL) /\
    (if Z.eqb (h_exch (p_hdr m)) EX_IKE_AUTH
     then first_nonce (init_req (co s)) = Some n_req /\ first_nonce (init_res (co s)) = Some n_res
     else (exists req pa, request (co s) = Some req /\ hd_error (kfilter K_NONCE (snd req)) = Some pa /\ n_req = nonce_of pa)
          /\ r1 = [P_NONCE n_res]) /\
    (exists i, intersection (if Z.eqb (h_exch (p_hdr m)) EX_IKE_AUTH then copy_without_dh (c_prop cr) else c_prop cr) chR'
               = Some i /\ prop_eqb i chR' = true) /\
    ((get_transforms chR' T_DH = [] /\ keyseed = n_req ++ n_res) \/
     (exists g pubR d secret,
         get_transforms chR' T_DH <> [] /\ r3 = [P_KE g pubR] /\ dh (co s) = Some d /\
         e_dh_secret E (fst d) (snd d) pubR = Some secret /\ keyseed = secret ++ n_req ++ n_res)) /\
    kr (co s) = Some k /\ cprop (co s) = Some cp /\ e_child_keys E cp chR' keyseed (sk_d k) = Some ck /\
    existsb (ts_is_subset ctsi) (c_tsi cr) = true /\ existsb (ts_is_subset ctsr) (c_tsr cr) = true /\
    kops s' = kops s ++
      [K_add (out_ksa (co s) (cr <| c_out := pr_spi chR' |> <| c_prop := chR' |> <| c_tsi := [ctsi] |> <| c_tsr := [ctsr] |>)
                      ck true ctsi ctsr life) true;
       K_add (in_ksa (co s) (cr <| c_out := pr_spi chR' |> <| c_prop := chR' |> <| c_tsi := [ctsi] |> <| c_tsr := [ctsr] |>)
                     ck true ctsi ctsr life) true] /\
    co s' = (co s) <| creating := Some (cr <| c_out := pr_spi chR' |> <| c_prop := chR' |> <| c_tsi := [ctsi] |>
                                           <| c_tsr := [ctsr] |>) |>
                   <| children := children (co s) ++ [cr <| c_out := pr_spi chR' |> <| c_prop := chR' |>
                                                         <| c_tsi := [ctsi] |> <| c_tsr := [ctsr] |>] |> /\
    new_sa s' = new_sa s.
Proof.
  intros HI Hcoll H0 H1 H3 Hpost.
  destruct (child_res_lookup r0 r1 tr r3 [chR'] [ctsi] [ctsr] post H0 H1 H3 Hpost) as (Lsa & Ltsi & Ltsr & Lke & Lno & Ltr & _).
  rewrite <- Hcoll in Lsa, Ltsi, Ltsr, Lke, Lno, Ltr.
  unfold child_nego_res in HI.
  rewrite (get_notifies_coll m N_USE_TRANSPORT_MODE true), Ltr in HI.
  binv HI u0 s1 Hg. apply nguard_ok in Hg. destruct Hg as [_ ->].
  bpure HI psa Hp get_payload_ok. rewrite get_payloads_coll, Lsa in Hp. cbn in Hp. inversion Hp; subst psa; clear Hp.
  bpure HI ptsi Hp get_payload_ok. rewrite get_payloads_coll, Ltsi in Hp. cbn in Hp. inversion Hp; subst ptsi; clear Hp.
  bpure HI ptsr Hp get_payload_ok. rewrite get_payloads_coll, Ltsr in Hp. cbn in Hp. inversion Hp; subst ptsr; clear Hp.
  cbv beta zeta in HI. bpure HI c Hc getc_ok. subst c.
  binv HI nn s1 Hnn.
  assert (Hnn' : s1 = s /\
                 if Z.eqb (h_exch (p_hdr m)) EX_IKE_AUTH
                 then first_nonce (init_req (co s)) = Some (fst nn) /\ first_nonce (init_res (co s)) = Some (snd nn)
                 else (exists req pa, request (co s) = Some req /\ hd_error (kfilter K_NONCE (snd req)) = Some pa /\
                                      fst nn = nonce_of pa) /\ r1 = [P_NONCE (snd nn)]).
  { destruct (Z.eqb (h_exch (p_hdr m)) EX_IKE_AUTH).
    - binv Hnn a s2 Ha. apply amsg_nonce_first in Ha. destruct Ha as [Ha ->].
      binv Hnn b s2 Hb. apply amsg_nonce_first in Hb. destruct Hb as [Hb ->].
      apply ret_ok in Hnn. destruct Hnn as [-> ->]. auto.
    - bpure Hnn req Hrq of_opt_ok. bpure Hnn a Ha req_get_ok. bpure Hnn b Hb get_payload_ok.
      apply ret_ok in Hnn. destruct Hnn as [-> ->]. split; [reflexivity|]. cbn [fst snd].
      split; [exists req, a; auto|]. rewrite get_payloads_coll, Lno in Hb.
      destruct H1 as [->|(n & ->)]; [discriminate|]. cbn in Hb. inversion Hb; subst b. reflexivity. }
  clear Hnn. destruct Hnn' as [-> Hnn]. destruct nn as [n_req n_res]. cbn [fst snd] in Hnn. cbv beta iota in HI.
  bpure HI cr Hcr of_opt_ok. bpure HI u1 Hmode guard_ok. apply Z.eqb_eq in Hmode.
  bpure HI chx Hf first_prop_ok. cbn in Hf. inversion Hf; subst chx; clear Hf.
  binv HI u2 s1 Hi.
  assert (Hi' : s1 = s /\ exists i, intersection (if Z.eqb (h_exch (p_hdr m)) EX_IKE_AUTH then copy_without_dh (c_prop cr)
                                                   else c_prop cr) chR' = Some i /\ prop_eqb i chR' = true).
  { destruct (intersection _ chR') as [i|]; [|apply raise_ok in Hi; tauto].
    destruct (prop_eqb i chR') eqn:Ep; [|apply raise_ok in Hi; tauto]. apply ret_ok in Hi. destruct Hi as [_ ->]. eauto. }
  clear Hi. destruct Hi' as [-> Hi].
  binv HI keyseed s1 Hks.
  assert (Hks' : s1 = s /\
                 ((get_transforms chR' T_DH = [] /\ keyseed = n_req ++ n_res) \/
                  (exists g pubR d secret,
                      get_transforms chR' T_DH <> [] /\ r3 = [P_KE g pubR] /\ dh (co s) = Some d /\
                      e_dh_secret E (fst d) (snd d) pubR = Some secret /\ keyseed = secret ++ n_req ++ n_res))).
  { destruct (get_transforms chR' T_DH) as [|t0 rest0] eqn:Egt; cbn [nonempty] in Hks.
    - apply ret_ok in Hks. destruct Hks as [-> ->]. auto.
    - bpure Hks pke Hp get_payload_ok. rewrite get_payloads_coll, Lke in Hp.
      destruct H3 as [->|(g & pubR & ->)]; [discriminate|]. cbn in Hp. inversion Hp; subst pke; clear Hp.
      bpure Hks d Hd of_opt_ok. bpure Hks secret Hsec of_opt_ok. cbn [ke_of snd] in Hsec.
      apply ret_ok in Hks. destruct Hks as [-> ->]. split; [reflexivity|]. right.
      exists g, pubR, d, secret. split; [discriminate|]. auto. }
  clear Hks. destruct Hks' as [-> Hks].
  bpure HI k Hk of_opt_ok. bpure HI cp Hcp of_opt_ok. bpure HI ck Hck of_opt_ok.
  cbn [tsl_of] in HI.
  binv HI ctsi' s1 Ht. apply ret_ok in Ht. destruct Ht as [-> ->].
  binv HI ctsr' s1 Ht. apply ret_ok in Ht. destruct Ht as [-> ->].
  bpure HI u3 Hsub guard_ok. apply andb_true_iff in Hsub. destruct Hsub as [Hsub1 Hsub2].
  bupd HI modc_ok. binv HI ucc s1 Hcc. apply create_child_sa_ok in Hcc.
  destruct Hcc as (tsi & tsr & life & Htsi & Htsr & _ & Hko & Hco & Hns). cbn in Htsi, Htsr, Hko, Hco, Hns.
  inversion Htsi; subst tsi. inversion Htsr; subst tsr. clear Htsi Htsr.
  apply modc_ok in HI. subst s'. cbn.
  exists cr, n_req, n_res, keyseed, k, cp, ck, life.
  split; [exact Hcr|]. split; [exact Hmode|]. split; [exact Hnn|]. split; [exact Hi|]. split; [exact Hks|].
  split; [exact Hk|]. split; [exact Hcp|]. split; [exact Hck|]. split; [exact Hsub1|]. split; [exact Hsub2|].
  rewrite Hko, Hco, Hns. repeat split; reflexivity.
Qed.

(** two kernel SAs agree in everything the peers must agree on: SPI, tunnel addresses, IPsec protocol, mode,
    selectors (as source / destination), algorithms (number, protocol and transforms of the proposal), keys.
    NOT compared: the lifetime (each side adds its own random jitter to its own configured value) and the SPI
    field written inside the Proposal object (each side keeps the proposal with the SPI it has to send). *)
Definition ksa_mirror (a b : ksa) : Prop :=
  k_spi a = k_spi b /\ k_src a = k_src b /\ k_dst a = k_dst b /\ k_proto a = k_proto b /\ k_mode a = k_mode b /\
  k_sel_src a = k_sel_src b /\ k_sel_dst a = k_sel_dst b /\
  pr_num (k_prop a) = pr_num (k_prop b) /\ pr_proto (k_prop a) = pr_proto (k_prop b) /\
  pr_trs (k_prop a) = pr_trs (k_prop b) /\ k_enc a = k_enc b /\ k_auth a = k_auth b.

(** ** (2)(3) one CHILD_SA negotiation, any exchange: IKE_AUTH (nonces of IKE_SA_INIT, no PFS) or CREATE_CHILD_SA
       (fresh nonces; new SA or rekey = [pre] carries REKEY_SA; PFS when the proposals contain a DH transform) *)
Theorem child_mirror E kp ch sA cps sB (mR mI : pmsg body) reqps pre post sR0 rps sR1 postI sI u sI2 :
  dh_ok E kp -> ckeys_by_trs E -> tape_ok kp (tape sA) -> tape_ok kp (tape sR0) ->
  (* initiator: built the CHILD_SA part of its request (possibly drawing a DH key pair) *)
  gen_child_nego_req ch sA = (Ok cps, sB) ->
  (* initiator when the response arrives: still creating [ch] with that DH *)
  creating (co sI) = Some ch -> dh (co sI) = dh (co sB) ->
  (* same IKE_SA on both sides, mirrored addresses *)
  kr (co sI) = kr (co sR0) -> cprop (co sI) = cprop (co sR0) ->
  my_addr (co sI) = peer_addr (co sR0) -> peer_addr (co sI) = my_addr (co sR0) ->
  (* the request the responder sees *)
  reqps = pre ++ cps ++ post -> lacks CHILD_KINDS pre -> lacks CHILD_KINDS post ->
  tfilter N_USE_TRANSPORT_MODE pre = [] -> tfilter N_USE_TRANSPORT_MODE post = [] ->
  coll mR true = reqps ->
  (if Z.eqb (h_exch (p_hdr mR)) EX_IKE_AUTH
   then first_nonce (init_req (co sI)) = first_nonce (init_req (co sR0)) /\
        first_nonce (init_res (co sI)) = first_nonce (init_res (co sR0))
   else exists ex, request (co sI) = Some (ex, reqps)) ->
  child_nego_req E mR sR0 = (Ok rps, sR1) ->
  (* the response the initiator sees *)
  coll mI true = rps ++ postI -> lacks RES_KINDS postI -> h_exch (p_hdr mI) = h_exch (p_hdr mR) ->
  child_nego_res E mI sI = (Ok u, sI2) ->
  exists out_I in_I out_R in_R k cp pI pR keyseed ck chI' chR',
    (* each kernel received exactly two SAs, both accepted: outbound first *)
    kops sI2 = kops sI ++ [K_add out_I true; K_add in_I true] /\
    kops sR1 = kops sR0 ++ [K_add out_R true; K_add in_R true] /\
    (* mirror images *)
    ksa_mirror out_I in_R /\ ksa_mirror in_I out_R /\
    k_src out_I = my_addr (co sI) /\ k_dst out_I = peer_addr (co sI) /\
    k_src in_I = peer_addr (co sI) /\ k_dst in_I = my_addr (co sI) /\
    (* the negotiated proposal: same on both sides up to the SPI each side writes into it *)
    k_prop out_I = pI /\ k_prop in_I = pI /\ k_prop out_R = pR /\ k_prop in_R = pR /\
    pI = pR <| pr_spi := k_spi out_I |> /\ pr_spi pR = k_spi in_I /\ k_spi in_I = c_in ch /\
    (* one KEYMAT, split by direction: initiator-to-responder keys first *)
    kr (co sI) = Some k /\ cprop (co sI) = Some cp /\
    e_child_keys E cp pI keyseed (sk_d k) = Some ck /\ e_child_keys E cp pR keyseed (sk_d k) = Some ck /\
    k_enc out_I = ck_ei ck /\ k_auth out_I = ck_ai ck /\ k_enc in_I = ck_er ck /\ k_auth in_I = ck_ar ck /\
    k_enc out_R = ck_er ck /\ k_auth out_R = ck_ar ck /\ k_enc in_R = ck_ei ck /\ k_auth in_R = ck_ai ck /\
    (* the ChildSa records *)
    children (co sI2) = children (co sI) ++ [chI'] /\ children (co sR1) = children (co sR0) ++ [chR'] /\
    c_in chI' = c_out chR' /\ c_out chI' = c_in chR' /\ c_tsi chI' = c_tsr chR' /\ c_tsr chI' = c_tsi chR' /\
    c_mode chI' = c_mode chR' /\ c_prop chI' = c_prop chR' /\
    new_sa sI2 = new_sa sI /\ new_sa sR1 = new_sa sR0.
Proof.
  intros Hdh Hck HtA HtR HgenI Hcreating HdhI Hkr Hcprop Haddr1 Haddr2 Hreqps Hpre Hpost Tpre Tpost HcollR Hnonce HR
         HcollI HpostI Hexch HI.
  (* the initiator's request *)
  assert (Hgen : exists ke, cps = child_req_payloads ch ke /\ ke_shape ke /\
                            forall g pub, ke = [P_KE g pub] -> exists hI, dh (co sB) = Some (g, hI) /\ kp g hI pub).
  { destruct (gen_child_nego_req_ok _ _ _ _ HgenI) as [(_ & _ & ->)|(t & rest & h & pub & r & _ & Ht & -> & ->)].
    - exists []. split; [reflexivity|]. split; [left; reflexivity|]. discriminate.
    - exists [P_KE (tr_id t) pub]. split; [reflexivity|]. split; [right; eauto|].
      intros g pub' Heq. inversion Heq; subst. exists h. split; [reflexivity|]. apply HtA. rewrite Ht. cbn. auto. }
  destruct Hgen as (ke & -> & Hke & HkeI).
  (* the response carries an SA payload, so the responder did not answer with an error notification *)
  assert (Hsa : kfilter K_SA rps <> []).
  { pose proof HI as HI0. unfold child_nego_res in HI0. binv HI0 u0 s1 Hg. apply nguard_ok in Hg. destruct Hg as [_ ->].
    bpure HI0 psa Hp get_payload_ok. rewrite get_payloads_coll, HcollI, kfilter_app in Hp.
    rewrite (kfilter_lacks RES_KINDS K_SA postI HpostI), app_nil_r in Hp by (cbn; tauto).
    intros Hn. rewrite Hn in Hp. discriminate. }
  apply child_nego_req_body_of in HR; [|exact Hsa]. subst reqps.
  destruct (child_nego_req_body_ok E _ _ _ _ _ _ _ _ HR HcollR Hpre Hpost Hke Tpre Tpost)
    as (r0 & n_req & n_res & r1 & pc & ctsr & ctsi & chR & keyseed & r3 & k & cp & ck & inb & lifeR &
        Hr0 & HnR & HmodeR & Hint & HdhR & HkR & HcpR & HckR & HkoR & HcoR & HnsR & Hrps).
  assert (Hr1 : r1 = [] \/ exists n, r1 = [P_NONCE n]).
  { destruct (Z.eqb (h_exch (p_hdr mR)) EX_IKE_AUTH); [destruct HnR as (_ & _ & ->); left; reflexivity|].
    destruct HnR as (_ & ->). right. eauto. }
  assert (Hr3 : ke_shape r3).
  { destruct HdhR as [(_ & _ & ->)|(g & pubI & hR & pubR & secret & _ & _ & _ & _ & _ & ->)]; [left; reflexivity|right; eauto]. }
  rewrite Hrps in HcollI.
  destruct (child_nego_res_ok E _ _ _ _ _ _ _ _ _ _ _ _ HI HcollI Hr0 Hr1 Hr3 HpostI)
    as (cr & n_reqI & n_resI & keyseedI & kI & cpI & ckI & lifeI &
        Hcr & HmodeI & HnI & (i & HintI & HeqI) & HdhI' & HkI & HcpI & HckI & Hsub1 & Hsub2 & HkoI & HcoI & HnsI).
  rewrite Hcreating in Hcr. inversion Hcr; subst cr; clear Hcr.
  rewrite Hkr, HkR in HkI. inversion HkI; subst kI; clear HkI.
  rewrite Hcprop, HcpR in HcpI. inversion HcpI; subst cpI; clear HcpI.
  (* same nonces *)
  rewrite Hexch in HnI.
  assert (Hnn : n_reqI = n_req /\ n_resI = n_res).
  { destruct (Z.eqb (h_exch (p_hdr mR)) EX_IKE_AUTH).
    - destruct Hnonce as [Ha Hb]. destruct HnR as (Ha' & Hb' & _). destruct HnI as (Ha'' & Hb'').
      rewrite Ha, Ha' in Ha''. rewrite Hb, Hb' in Hb''. inversion Ha''. inversion Hb''. auto.
    - destruct Hnonce as (ex & Hrq). destruct HnR as ((pn & Hpn & ->) & Hr1'). destruct HnI as ((req & pa & Hrq' & Hpa & ->) & Hr1'').
      rewrite Hrq in Hrq'. assert (Hreq : req = (ex, pre ++ child_req_payloads ch ke ++ post)) by congruence. subst req.
      change (hd_error (kfilter K_NONCE (pre ++ child_req_payloads ch ke ++ post)) = Some pa) in Hpa. rewrite HcollR, Hpa in Hpn.
      inversion Hpn; subst pa. rewrite Hr1' in Hr1''. inversion Hr1''. auto. }
  destruct Hnn as [-> ->].
  (* same key seed *)
  assert (Hgt : get_transforms (chR <| pr_spi := inb |>) T_DH = get_transforms chR T_DH) by reflexivity.
  rewrite Hgt in HdhI'.
  assert (Hseed : keyseedI = keyseed).
  { destruct HdhR as [(Hn & -> & _)|(g & pubI & hR & pubR & secret & Hne & Hke' & HinR & Hsec & -> & Hr3')];
      destruct HdhI' as [(HnI' & ->)|(g' & pubR' & d & secretI & HneI & Hr3'' & Hd & HsecI & ->)]; try congruence.
    rewrite Hr3' in Hr3''. inversion Hr3''; subst g' pubR'.
    destruct (HkeI g pubI Hke') as (hI & HdB & HkpI). rewrite HdhI, HdB in Hd. inversion Hd; subst d. cbn [fst snd] in HsecI.
    rewrite (Hdh g hI pubI hR pubR HkpI (HtR _ _ _ HinR)), Hsec in HsecI. inversion HsecI. reflexivity. }
  subst keyseedI.
  (* same KEYMAT *)
  assert (HckI' : e_child_keys E cp (chR <| pr_spi := inb |>) keyseed (sk_d k) = e_child_keys E cp chR keyseed (sk_d k))
    by (apply Hck; reflexivity).
  assert (ckI = ck) by (rewrite HckI', HckR in HckI; inversion HckI; reflexivity). subst ckI.
  destruct (intersection_spi _ _ _ Hint) as [Hspi _]. cbn in Hspi.
  (* the transport-mode flag is the one of the initiator's ChildSa *)
  assert (Hm : c_mode ch = pt_mode pc) by (rewrite HmodeI, HmodeR; destruct (Z.eqb (c_mode ch) MODE_TRANSPORT); reflexivity).
  eexists _, _, _, _, k, cp, (chR <| pr_spi := inb |>), chR, keyseed, ck, _, _.
  split; [exact HkoI|]. split; [exact HkoR|].
  split. { unfold ksa_mirror, out_ksa, in_ksa. cbn. rewrite Haddr1, Haddr2, Hm. repeat split; reflexivity. }
  split. { unfold ksa_mirror, out_ksa, in_ksa. cbn. rewrite Haddr1, Haddr2, Hm. repeat split; reflexivity. }
  rewrite HcoI, HcoR, HnsI, HnsR. cbn. rewrite <- Hkr, <- Hcprop in *. rewrite Hspi.
  repeat (split; [first [reflexivity|assumption|congruence]|]). reflexivity.
Qed.

(* ------------------------------------------------------------------------------------------------ *)
(** * (2) CREATE_CHILD_SA: new CHILD_SA and CHILD_SA rekey, with or without PFS *)

(** the same IkeSa object when [child_nego_res] runs inside the response handler: the shell cleared the flag, the
    response handler already wrote [state] *)
Definition carried_st (c c' : core) : Prop :=
  c' <| my_msg_id_reset := false |> <| st := 0 |> = c <| my_msg_id_reset := false |> <| st := 0 |>.
Lemma carried_carried_st c c' : carried c c' -> carried_st c c'.
Proof. unfold carried, carried_st. intros Hc. apply (f_equal (fun x => x <| st := 0 |>)) in Hc. exact Hc. Qed.

Lemma gen_child_nego_req_frame ch cps s s' :
  gen_child_nego_req ch s = (Ok cps, s') ->
  (co s') <| dh := None |> = (co s) <| dh := None |> /\ kops s' = kops s /\ new_sa s' = new_sa s.
Proof.
  intros Hx. destruct (gen_child_nego_req_ok _ _ _ _ Hx) as [(_ & -> & _)|(t & rest & h & pub & r & _ & _ & -> & _)];
    cbn; auto.
Qed.

Definition rekey_notify (rk : option child) : list payload :=
  match rk with Some r => [P_NOTIFY (pr_proto (c_prop r)) N_REKEY_SA (c_in r) []] | None => [] end.

Lemma generate_create_child_sa_request_ok ch rk rq s s' :
  generate_create_child_sa_request ch rk s = (Ok rq, s') ->
  exists sA cps sB n,
    st (co s) = ST_ESTABLISHED /\ tape sA = tape s /\ gen_child_nego_req ch sA = (Ok cps, sB) /\
    rq = (EX_CREATE_CHILD_SA, rekey_notify rk ++ cps ++ [P_NONCE n]) /\
    request (co s') = Some rq /\ creating (co s') = Some ch /\ dh (co s') = dh (co sB) /\
    kr (co s') = kr (co s) /\ cprop (co s') = cprop (co s) /\ my_addr (co s') = my_addr (co s) /\
    peer_addr (co s') = peer_addr (co s) /\ children (co s') = children (co s) /\ kops s' = kops s /\
    st (co s') = match rk with None => ST_NEW_CHILD_REQ_SENT | Some _ => ST_REK_CHILD_REQ_SENT end.
Proof.
  unfold generate_create_child_sa_request. intros Hx.
  bpure Hx u0 Hst assert_state_ok. cbn in Hst. rewrite orb_false_r in Hst. apply Z.eqb_eq in Hst.
  bupd Hx modc_ok. binv Hx cps sB Hg.
  destruct (gen_child_nego_req_frame _ _ _ _ Hg) as (Hfr & Hko & _). cbn in Hfr, Hko.
  binv Hx cps' s2 Hc.
  assert (Hc' : cps' = rekey_notify rk ++ cps /\ (co s2) <| rekeying := None |> = (co sB) <| rekeying := None |> /\
                kops s2 = kops sB /\ tape s2 = tape sB).
  { destruct rk as [r|].
    - bupd Hc modc_ok. apply ret_ok in Hc. destruct Hc as [-> ->]. cbn. auto.
    - apply ret_ok in Hc. destruct Hc as [-> ->]. auto. }
  clear Hc. destruct Hc' as (-> & Hfr2 & Hko2 & _).
  binv Hx n s3 Hn. apply fresh_nonce_ok in Hn. destruct Hn as (j & r & _ & ->).
  binv Hx rr s3 Hr. apply set_request_ok in Hr. destruct Hr as [-> ->]. bupd Hx set_state_ok.
  apply ret_ok in Hx. destruct Hx as [-> ->].
  eexists _, cps, sB, n. split; [exact Hst|]. split; [|split; [exact Hg|]]; [reflexivity|].
  rewrite <- app_assoc. cbn.
  pose proof (f_equal creating Hfr2) as A1. pose proof (f_equal dh Hfr2) as A2. pose proof (f_equal kr Hfr2) as A3.
  pose proof (f_equal cprop Hfr2) as A4. pose proof (f_equal my_addr Hfr2) as A5. pose proof (f_equal peer_addr Hfr2) as A6.
  pose proof (f_equal children Hfr2) as A7.
  pose proof (f_equal creating Hfr) as B1. pose proof (f_equal kr Hfr) as B3.
  pose proof (f_equal cprop Hfr) as B4. pose proof (f_equal my_addr Hfr) as B5. pose proof (f_equal peer_addr Hfr) as B6.
  pose proof (f_equal children Hfr) as B7.
  cbn in A1, A2, A3, A4, A5, A6, A7, B1, B3, B4, B5, B6, B7.
  rewrite A1, A2, A3, A4, A5, A6, A7, B1, B3, B4, B5, B6, B7, Hko2, Hko.
  repeat (split; [reflexivity|]). destruct rk; reflexivity.
Qed.

Lemma lacks_nonce_child n : lacks CHILD_KINDS [P_NONCE n].
Proof. intros q [<-|[]] k [<-|[<-|[<-|[<-|[]]]]]; reflexivity. Qed.
Lemma lacks_rekey_child rk : lacks CHILD_KINDS (rekey_notify rk).
Proof. destruct rk as [r|]; [|apply lacks_nil]. intros q [<-|[]] k [<-|[<-|[<-|[<-|[]]]]]; reflexivity. Qed.

Theorem create_child_sa_mirror E kp ch rk sI0 rq sI1 (mR mI : pmsg body) sR0 rps sR1 sI u sI2 :
  dh_ok E kp -> ckeys_by_trs E -> tape_ok kp (tape sI0) -> tape_ok kp (tape sR0) ->
  (* initiator: CREATE_CHILD_SA request for a new CHILD_SA ([rk] = None) or rekeying [rk] *)
  generate_create_child_sa_request ch rk sI0 = (Ok rq, sI1) ->
  (* same IKE_SA on both sides (conclusion of the IKE_SA theorems), mirrored addresses *)
  kr (co sI0) = kr (co sR0) -> cprop (co sI0) = cprop (co sR0) ->
  my_addr (co sI0) = peer_addr (co sR0) -> peer_addr (co sI0) = my_addr (co sR0) ->
  (* responder: exactly those encrypted payloads in a CREATE_CHILD_SA request *)
  snd (p_body mR) = snd rq -> h_exch (p_hdr mR) = EX_CREATE_CHILD_SA ->
  child_nego_req E mR sR0 = (Ok rps, sR1) ->
  (* initiator: exactly the response payloads *)
  snd (p_body mI) = rps -> h_exch (p_hdr mI) = EX_CREATE_CHILD_SA ->
  carried_st (co sI1) (co sI) ->
  child_nego_res E mI sI = (Ok u, sI2) ->
  exists out_I in_I out_R in_R k cp pI pR keyseed ck chI' chR',
    kops sI2 = kops sI ++ [K_add out_I true; K_add in_I true] /\
    kops sR1 = kops sR0 ++ [K_add out_R true; K_add in_R true] /\
    ksa_mirror out_I in_R /\ ksa_mirror in_I out_R /\
    k_src out_I = my_addr (co sI0) /\ k_dst out_I = peer_addr (co sI0) /\
    k_src in_I = peer_addr (co sI0) /\ k_dst in_I = my_addr (co sI0) /\
    k_prop out_I = pI /\ k_prop in_I = pI /\ k_prop out_R = pR /\ k_prop in_R = pR /\
    pI = pR <| pr_spi := k_spi out_I |> /\ pr_spi pR = k_spi in_I /\ k_spi in_I = c_in ch /\
    kr (co sI0) = Some k /\ cprop (co sI0) = Some cp /\
    e_child_keys E cp pI keyseed (sk_d k) = Some ck /\ e_child_keys E cp pR keyseed (sk_d k) = Some ck /\
    k_enc out_I = ck_ei ck /\ k_auth out_I = ck_ai ck /\ k_enc in_I = ck_er ck /\ k_auth in_I = ck_ar ck /\
    k_enc out_R = ck_er ck /\ k_auth out_R = ck_ar ck /\ k_enc in_R = ck_ei ck /\ k_auth in_R = ck_ai ck /\
    children (co sI2) = children (co sI0) ++ [chI'] /\ children (co sR1) = children (co sR0) ++ [chR'] /\
    c_in chI' = c_out chR' /\ c_out chI' = c_in chR' /\ c_tsi chI' = c_tsr chR' /\ c_tsr chI' = c_tsi chR' /\
    c_mode chI' = c_mode chR' /\ c_prop chI' = c_prop chR'.
Proof.
  intros Hdh Hck HtI HtR Hgen Hkr Hcprop Ha1 Ha2 HbodyR HexR HR HbodyI HexI Hcar HI.
  destruct (generate_create_child_sa_request_ok _ _ _ _ _ Hgen)
    as (sA & cps & sB & n & _ & HtA & Hg & -> & Hrq & Hcr & Hd & Hk1 & Hc1 & Hm1 & Hp1 & Hch1 & _).
  pose proof (f_equal request Hcar) as C1. pose proof (f_equal creating Hcar) as C2. pose proof (f_equal dh Hcar) as C3.
  pose proof (f_equal kr Hcar) as C4. pose proof (f_equal cprop Hcar) as C5. pose proof (f_equal my_addr Hcar) as C6.
  pose proof (f_equal peer_addr Hcar) as C7. pose proof (f_equal children Hcar) as C8.
  cbn in C1, C2, C3, C4, C5, C6, C7, C8.
  assert (HcollR : coll mR true = rekey_notify rk ++ cps ++ [P_NONCE n]) by (unfold coll; cbv beta iota; exact HbodyR).
  assert (HcollI : coll mI true = rps ++ []) by (unfold coll; cbv beta iota; rewrite app_nil_r; exact HbodyI).
  destruct (child_mirror E kp ch sA cps sB mR mI (rekey_notify rk ++ cps ++ [P_NONCE n]) (rekey_notify rk) [P_NONCE n]
                         sR0 rps sR1 [] sI u sI2 Hdh Hck)
    as (out_I & in_I & out_R & in_R & k & cp & pI & pR & keyseed & ck & chI' & chR' & H); try assumption.
  - rewrite HtA. exact HtI.
  - rewrite C2. exact Hcr.
  - rewrite C3. exact Hd.
  - rewrite C4, Hk1. exact Hkr.
  - rewrite C5, Hc1. exact Hcprop.
  - rewrite C6, Hm1. exact Ha1.
  - rewrite C7, Hp1. exact Ha2.
  - reflexivity.
  - apply lacks_rekey_child.
  - apply lacks_nonce_child.
  - destruct rk; reflexivity.
  - reflexivity.
  - rewrite HexR. cbn. exists EX_CREATE_CHILD_SA. rewrite C1. exact Hrq.
  - apply lacks_nil.
  - rewrite HexI, HexR. reflexivity.
  - exists out_I, in_I, out_R, in_R, k, cp, pI, pR, keyseed, ck, chI', chR'.
    rewrite C6, C7, C4, C5, C8, Hm1, Hp1, Hk1, Hc1, Hch1 in H.
    decompose [and] H. repeat (split; [assumption|]). assumption.
Qed.

(* ------------------------------------------------------------------------------------------------ *)
(** * A concrete toy instance: the hypotheses of the theorems are satisfiable and both sides do succeed *)
Module Toy.
  (** [spi_dep]: let the CHILD_SA keys depend on the SPI written in the proposal (to show [ckeys_by_trs] is needed) *)
  Definition toy_env (spi_dep : bool) : env :=
    mk_env (fun p ni nr si sr sec old =>
              Some (mk_kr (sec ++ ni ++ nr) (1%N :: si) (2%N :: sr) (3%N :: sec)
                          (4%N :: match old with Some o => o | None => [] end)
                          (5%N :: map (fun t => Z.to_N (tr_id t)) (pr_trs p)) (6%N :: pr_spi p)))
           (fun cp p seed skd =>
              Some (mk_ckr (1%N :: seed) (2%N :: seed)
                           (3%N :: skd ++ map (fun t => Z.to_N (tr_id t)) (pr_trs p) ++ (if spi_dep then pr_spi p else []))
                           (4%N :: skd ++ map (fun t => Z.to_N (tr_id t)) (pr_trs cp))))
           (fun g h pub => Some [N.add (be_decode h) (be_decode pub); Z.to_N g])
           (fun _ k d => k ++ d) (fun d => d) (fun _ _ => true) (fun _ => []) (fun k d => k ++ d) (fun a => [Z.to_N a]).
  (** toy Diffie-Hellman: the public value is the private handle, the secret is the sum *)
  Definition toy_kp (g : Z) (h pub : bytes) : Prop := pub = h.
  Lemma toy_dh_ok b : dh_ok (toy_env b) toy_kp.
  Proof. intros g h1 pub1 h2 pub2 -> ->. cbn. rewrite N.add_comm. reflexivity. Qed.
  Lemma toy_ckeys : ckeys_by_trs (toy_env false).
  Proof. intros cp p p' seed skd _ Ht. cbn. rewrite Ht. reflexivity. Qed.

  Definition ike_prop :=
    mk_prop 1 PROTO_IKE [] [mk_tr T_ENCR 12 (Some 128); mk_tr T_PRF 5 None; mk_tr T_INTEG 12 None; mk_tr T_DH 14 None].
  Definition esp_prop (pfs : bool) :=
    mk_prop 1 PROTO_ESP [] ([mk_tr T_ENCR 12 (Some 128); mk_tr T_INTEG 12 None]
                            ++ (if pfs then [mk_tr T_DH 14 None] else []) ++ [mk_tr T_ESN 0 None]).
  Definition ts_a := mk_ts 7 0 0 65535 100 100.
  Definition ts_b := mk_ts 7 0 0 65535 200 200.
  Definition auth_a := mk_authc 2 [97]%N (Some [1;2;3]%N) false false.
  Definition auth_b := mk_authc 2 [98]%N (Some [1;2;3]%N) false false.
  Definition conf_I pfs := mk_conf ike_prop [mk_protect 1 (esp_prop pfs) ts_a ts_b MODE_TUNNEL 300] auth_a auth_b 60 900.
  Definition conf_R pfs := mk_conf ike_prop [mk_protect 1 (esp_prop pfs) ts_b ts_a MODE_TUNNEL 400] auth_b auth_a 60 900.
  Definition core0 (ini : bool) (spi pspi : bytes) (c : conf) (my peer : Z) : core :=
    mk_core ST_INITIAL ini spi pspi my peer c None None None [] None None None None None None None None 0 0 0 false.
  Definition spiI : bytes := [1;1;1;1;1;1;1;1]%N.
  Definition spiR : bytes := [2;2;2;2;2;2;2;2]%N.
  Definition spi0 : bytes := [0;0;0;0;0;0;0;0]%N.
  Definition child_I pfs := mk_child [9;9;9;1]%N [0;0;0;0]%N (esp_prop pfs) (esp_prop pfs) [ts_a] [ts_b] MODE_TUNNEL 300.
  Definition msg (h : hdr) (clear enc : list payload) : pmsg body := mk_pmsg h true (clear, enc).
  Definition hdrx (si sr : bytes) (ex : Z) (resp ini : bool) := mk_hdr (spiZ si) (spiZ sr) 2 0 ex resp ini 0.
  Definition val {A} (r : res A * isa) (d : A) : A := match fst r with Ok a => a | _ => d end.
  Definition E0 := toy_env false.

  (** IKE_SA_INIT *)
  Definition iI0 := mk_isa (core0 true spiI spi0 (conf_I false) 10 20) None None 1000
                           [D_num 16; D_bytes [7;7;7]%N; D_dh 14 [5]%N [5]%N] [].
  Definition iR0 := mk_isa (core0 false spiR spiI (conf_R false) 20 10) None None 1000
                           [D_num 16; D_bytes [8;8;8]%N; D_dh 14 [6]%N [6]%N] [].
  Definition iI1 := generate_ike_sa_init_request (child_I false) iI0.
  Definition imR := msg (hdrx spiI spi0 EX_IKE_SA_INIT false true) (snd (val iI1 (0, []))) [].
  Definition iR1 := process_ike_sa_init_request E0 imR iR0.
  Definition imI := msg (hdrx spiI spiR EX_IKE_SA_INIT true false) (val iR1 []) [].
  Definition iI1' := (snd iI1) <| tape := [] |> <| now := 1001 |>.
  Definition iI2 := process_ike_sa_init_response E0 imI iI1'.

  (** CREATE_CHILD_SA (new CHILD_SA, with or without PFS) between two established IKE_SAs *)
  Definition kk := mk_kr [1]%N [2]%N [3]%N [4]%N [5]%N [6]%N [7]%N.
  Definition est (ini : bool) (spi pspi : bytes) (c : conf) (my peer : Z) : core :=
    (core0 ini spi pspi c my peer) <| st := ST_ESTABLISHED |> <| kr := Some kk |> <| cprop := Some ike_prop |>
                                   <| chosen := Some ike_prop |>.
  Definition cI0 pfs := mk_isa (est true spiI spiR (conf_I pfs) 10 20) None None 1000
       ((if pfs then [D_dh 14 [5]%N [5]%N] else []) ++ [D_num 16; D_bytes [7;7;7]%N]) [].
  Definition cR0 pfs := mk_isa (est false spiR spiI (conf_R pfs) 20 10) None None 1000
       ([D_num 16; D_bytes [8;8;8]%N] ++ (if pfs then [D_dh 14 [6]%N [6]%N] else [])
        ++ [D_bytes [4;4;4;2]%N; D_num 3; D_verdict true; D_verdict true]) [].
  Definition cI1 pfs := generate_create_child_sa_request (child_I pfs) None (cI0 pfs).
  Definition cmR pfs := msg (hdrx spiI spiR EX_CREATE_CHILD_SA false true) [] (snd (val (cI1 pfs) (0, []))).
  Definition cR1 E pfs := child_nego_req E (cmR pfs) (cR0 pfs).
  Definition cmI E pfs := msg (hdrx spiI spiR EX_CREATE_CHILD_SA true false) [] (val (cR1 E pfs) []).
  Definition cI1' pfs := (snd (cI1 pfs)) <| co := (co (snd (cI1 pfs))) <| st := ST_ESTABLISHED |> |>
                                         <| tape := [D_num 2; D_verdict true; D_verdict true] |>.
  Definition cI2 E pfs := child_nego_res E (cmI E pfs) (cI1' pfs).

  (** the CHILD_SA of IKE_AUTH, continuing the IKE_SA_INIT run above *)
  Definition aIa := (snd iI2) <| co := (co (snd iI2)) <| st := ST_INIT_REQ_SENT |> |> <| tape := [] |>.
  Definition aIb := generate_ike_auth_request E0 aIa.
  Definition aR0 := (snd iR1) <| tape := [D_bytes [4;4;4;2]%N; D_num 3; D_verdict true; D_verdict true] |>.
  Definition amR := msg (hdrx spiI spiR EX_IKE_AUTH false true) [] (snd (val aIb (0, []))).
  Definition aR1 := process_ike_auth_request E0 amR aR0.
  Definition amI := msg (hdrx spiI spiR EX_IKE_AUTH true false) [] (val aR1 []).
  Definition aI := (snd aIb) <| tape := [D_num 2; D_verdict true; D_verdict true] |>.
  Definition aI2 := child_nego_res E0 amI aI.

  (** IKE_SA rekey between two established IKE_SAs that own one CHILD_SA *)
  Definition old_child := mk_child [9;9;9;1]%N [4;4;4;2]%N (esp_prop false) (esp_prop false) [ts_a] [ts_b] MODE_TUNNEL 300.
  Definition rI0 := mk_isa ((est true spiI spiR (conf_I false) 10 20) <| children := [old_child] |>) None None 1000
     [D_bytes [3;3;3;3;3;3;3;3]%N; D_num 1; D_num 16; D_bytes [7;7]%N; D_dh 14 [5]%N [5]%N] [].
  Definition rR0 := mk_isa ((est false spiR spiI (conf_R false) 20 10) <| children := [old_child] |>) None None 1000
     [D_bytes [4;4;4;4;4;4;4;4]%N; D_num 2; D_num 16; D_bytes [8;8]%N; D_dh 14 [6]%N [6]%N] [].
  Definition rI1 := generate_rekey_ike_sa_request rI0.
  Definition rmR := msg (hdrx spiI spiR EX_CREATE_CHILD_SA false true) [] (snd (val rI1 (0, []))).
  Definition rR1 := process_create_child_sa_request E0 rmR rR0.
  Definition rmI := msg (hdrx spiI spiR EX_CREATE_CHILD_SA true false) [] (val rR1 []).
  Definition rI1' := (snd rI1) <| tape := [] |>.
  Definition rI2 := process_create_child_sa_response E0 rmI rI1'.

  Lemma tape_ok_dec t : (forall g h pub, In (D_dh g h pub) t -> pub = h) -> tape_ok toy_kp t.
  Proof. intros Hx g h pub Hin. exact (Hx g h pub Hin). Qed.
  Ltac toy_tape := apply tape_ok_dec; intros g h pub Hin; vm_compute in Hin;
                   repeat (destruct Hin as [Hin|Hin]; [try discriminate; inversion Hin; reflexivity|]); destruct Hin.
End Toy.

Example ike_sa_init_agree_nonvacuous :
  let E := Toy.E0 in
  exists ch sI0 rq sI1 mR sR0 psR sR1 mI sI1' nxt sI2,
    dh_ok E Toy.toy_kp /\ tape_ok Toy.toy_kp (tape sI0) /\ tape_ok Toy.toy_kp (tape sR0) /\
    c_init (co sI0) = true /\ c_init (co sR0) = false /\
    generate_ike_sa_init_request ch sI0 = (Ok rq, sI1) /\
    fst (p_body mR) = snd rq /\ peer_spi_b (co sR0) = my_spi_b (co sI0) /\
    length (my_spi_b (co sR0)) = 8%nat /\ wf_bytes (my_spi_b (co sR0)) /\
    process_ike_sa_init_request E mR sR0 = (Ok psR, sR1) /\
    fst (p_body mI) = psR /\ h_spi_r (p_hdr mI) = spiZ (my_spi_b (co sR1)) /\
    carried (co sI1) (co sI1') /\
    process_ike_sa_init_response E mI sI1' = (Ok nxt, sI2).
Proof.
  exists (Toy.child_I false), Toy.iI0, (Toy.val Toy.iI1 (0, [])), (snd Toy.iI1), Toy.imR, Toy.iR0, (Toy.val Toy.iR1 []),
         (snd Toy.iR1), Toy.imI, Toy.iI1', (Toy.val Toy.iI2 None), (snd Toy.iI2).
  split; [apply Toy.toy_dh_ok|]. split; [Toy.toy_tape|]. split; [Toy.toy_tape|].
  split; [reflexivity|]. split; [reflexivity|]. split; [vm_compute; reflexivity|]. split; [reflexivity|].
  split; [reflexivity|]. split; [reflexivity|].
  split; [apply wf_bytesb_spec; reflexivity|]. split; [vm_compute; reflexivity|]. split; [reflexivity|].
  split; [vm_compute; reflexivity|]. split; [vm_compute; reflexivity|]. vm_compute; reflexivity.
Qed.

Example create_child_sa_mirror_nonvacuous : forall pfs : bool,
  let E := Toy.E0 in
  exists ch sI0 rq sI1 mR sR0 rps sR1 mI sI u sI2,
    dh_ok E Toy.toy_kp /\ ckeys_by_trs E /\ tape_ok Toy.toy_kp (tape sI0) /\ tape_ok Toy.toy_kp (tape sR0) /\
    generate_create_child_sa_request ch None sI0 = (Ok rq, sI1) /\
    kr (co sI0) = kr (co sR0) /\ cprop (co sI0) = cprop (co sR0) /\
    my_addr (co sI0) = peer_addr (co sR0) /\ peer_addr (co sI0) = my_addr (co sR0) /\
    snd (p_body mR) = snd rq /\ h_exch (p_hdr mR) = EX_CREATE_CHILD_SA /\
    child_nego_req E mR sR0 = (Ok rps, sR1) /\
    snd (p_body mI) = rps /\ h_exch (p_hdr mI) = EX_CREATE_CHILD_SA /\
    carried_st (co sI1) (co sI) /\
    child_nego_res E mI sI = (Ok u, sI2) /\
    (* PFS really happens when asked for *)
    (pfs = true -> exists g pub, In (P_KE g pub) rps).
Proof.
  intros pfs E.
  exists (Toy.child_I pfs), (Toy.cI0 pfs), (Toy.val (Toy.cI1 pfs) (0, [])), (snd (Toy.cI1 pfs)), (Toy.cmR pfs), (Toy.cR0 pfs),
         (Toy.val (Toy.cR1 E pfs) []), (snd (Toy.cR1 E pfs)), (Toy.cmI E pfs), (Toy.cI1' pfs), tt, (snd (Toy.cI2 E pfs)).
  split; [apply Toy.toy_dh_ok|]. split; [apply Toy.toy_ckeys|].
  split; [destruct pfs; Toy.toy_tape|]. split; [destruct pfs; Toy.toy_tape|].
  split; [destruct pfs; vm_compute; reflexivity|].
  split; [reflexivity|]. split; [reflexivity|]. split; [reflexivity|]. split; [reflexivity|].
  split; [reflexivity|]. split; [reflexivity|]. split; [destruct pfs; vm_compute; reflexivity|].
  split; [reflexivity|]. split; [reflexivity|]. split; [destruct pfs; vm_compute; reflexivity|].
  split; [destruct pfs; vm_compute; reflexivity|].
  intros ->. exists 14, [6%N]. vm_compute. auto.
Qed.

(** [ckeys_by_trs] cannot be dropped: for an [env] whose CHILD_SA key derivation looks at the SPI field of the
    proposal, all other hypotheses of [create_child_sa_mirror] hold, both sides succeed, and the initiator's outbound
    SA and the responder's inbound SA carry DIFFERENT encryption keys.  (This is an artefact of [env] being an arbitrary
    function of the whole Proposal object: generate_child_sa_key_material only reads the protocol and key sizes.) *)
Lemma child_mirror_needs_ckeys_by_trs :
  let E := Toy.toy_env true in
  exists ch sI0 rq sI1 mR sR0 rps sR1 mI sI u sI2 out_I in_I out_R in_R,
    dh_ok E Toy.toy_kp /\ tape_ok Toy.toy_kp (tape sI0) /\ tape_ok Toy.toy_kp (tape sR0) /\
    generate_create_child_sa_request ch None sI0 = (Ok rq, sI1) /\
    kr (co sI0) = kr (co sR0) /\ cprop (co sI0) = cprop (co sR0) /\
    my_addr (co sI0) = peer_addr (co sR0) /\ peer_addr (co sI0) = my_addr (co sR0) /\
    snd (p_body mR) = snd rq /\ h_exch (p_hdr mR) = EX_CREATE_CHILD_SA /\
    child_nego_req E mR sR0 = (Ok rps, sR1) /\
    snd (p_body mI) = rps /\ h_exch (p_hdr mI) = EX_CREATE_CHILD_SA /\
    carried_st (co sI1) (co sI) /\
    child_nego_res E mI sI = (Ok u, sI2) /\
    kops sI2 = kops sI ++ [K_add out_I true; K_add in_I true] /\
    kops sR1 = kops sR0 ++ [K_add out_R true; K_add in_R true] /\
    k_enc out_I <> k_enc in_R.
Proof.
  intros E.
  exists (Toy.child_I false), (Toy.cI0 false), (Toy.val (Toy.cI1 false) (0, [])), (snd (Toy.cI1 false)), (Toy.cmR false),
         (Toy.cR0 false), (Toy.val (Toy.cR1 E false) []), (snd (Toy.cR1 E false)), (Toy.cmI E false), (Toy.cI1' false), tt,
         (snd (Toy.cI2 E false)).
  eexists _, _, _, _.
  split; [apply Toy.toy_dh_ok|]. split; [Toy.toy_tape|]. split; [Toy.toy_tape|].
  split; [vm_compute; reflexivity|].
  split; [reflexivity|]. split; [reflexivity|]. split; [reflexivity|]. split; [reflexivity|].
  split; [reflexivity|]. split; [reflexivity|]. split; [vm_compute; reflexivity|].
  split; [reflexivity|]. split; [reflexivity|]. split; [vm_compute; reflexivity|].
  split; [vm_compute; reflexivity|]. split; [vm_compute; reflexivity|]. split; [vm_compute; reflexivity|].
  vm_compute. discriminate.
Qed.

(* ------------------------------------------------------------------------------------------------ *)
(** * (3) the CHILD_SA negotiated inside IKE_AUTH *)

Lemma gen_auth_ok E a b t d k x s s' : gen_auth E a b t d k s = (Ok x, s') -> kind_of x = K_AUTH /\ s' = s.
Proof.
  unfold gen_auth. intros Hx. bpure Hx c Hc getc_ok. bpure Hx cp Hp of_opt_ok.
  destruct (a_priv _); [apply ret_ok in Hx; destruct Hx as [-> ->]; auto|].
  destruct (truthy _); [apply ret_ok in Hx; destruct Hx as [-> ->]; auto|apply raise_ok in Hx; tauto].
Qed.
Lemma peer_sk_p_pure c x s s' : peer_sk_p c s = (Ok x, s') -> s' = s.
Proof.
  unfold peer_sk_p. intros Hx. bpure Hx k Hk of_opt_ok. bpure Hx p Hp of_opt_ok. apply ret_ok in Hx. tauto.
Qed.
Lemma check_peer_id_pure p x s s' : check_peer_id p s = (Ok x, s') -> s' = s.
Proof.
  unfold check_peer_id. intros Hx. bpure Hx c Hc getc_ok.
  destruct p; try (apply raise_ok in Hx; tauto);
    (destruct (negb _); [apply raise_ok in Hx; tauto|]; destruct (negb _); [apply raise_ok in Hx; tauto|];
     apply ret_ok in Hx; tauto).
Qed.
Lemma verify_auth_pure E pa a b t d k x s s' : verify_auth E pa a b t d k s = (Ok x, s') -> s' = s.
Proof.
  unfold verify_auth. intros Hx. bpure Hx c Hc getc_ok. bpure Hx cp Hp of_opt_ok.
  destruct pa; try (apply raise_ok in Hx; tauto).
  destruct (_ && _).
  - destruct (bytes_eqb _ _); [apply ret_ok in Hx; tauto|apply raise_ok in Hx; tauto].
  - destruct (_ && _); [|apply raise_ok in Hx; tauto].
    destruct (e_verify _ _ _); [apply ret_ok in Hx; tauto|apply raise_ok in Hx; tauto].
Qed.

Lemma generate_ike_auth_request_ok E rq s s' :
  generate_ike_auth_request E s = (Ok rq, s') ->
  exists cr cps sB pa,
    creating (co s) = Some cr /\ gen_child_nego_req cr s = (Ok cps, sB) /\ kind_of pa = K_AUTH /\
    rq = (EX_IKE_AUTH, cps ++ [P_IDi (a_id_type (cf_my_auth (cfg (co s)))) (a_id_data (cf_my_auth (cfg (co s)))); pa]) /\
    co s' = (co sB) <| request := Some rq |> <| st := ST_AUTH_REQ_SENT |> /\ kops s' = kops s.
Proof.
  unfold generate_ike_auth_request. intros Hx.
  bpure Hx u0 Hst assert_state_ok. bpure Hx c Hc getc_ok. subst c. bpure Hx cr Hcr of_opt_ok.
  binv Hx cps sB Hg. binv Hx nr s2 Hn. apply amsg_nonce_ok in Hn. destruct Hn as [_ ->].
  binv Hx rqd s2 Hs. apply ser_opt_pure in Hs. subst s2.
  binv Hx skp s2 Hk. apply my_sk_p_pure in Hk. subst s2.
  binv Hx pa s2 Ha. apply gen_auth_ok in Ha. destruct Ha as [Hka ->].
  binv Hx rr s2 Hr. apply set_request_ok in Hr. destruct Hr as [-> ->].
  bupd Hx set_state_ok. apply ret_ok in Hx. destruct Hx as [-> ->].
  exists cr, cps, sB, pa. destruct (gen_child_nego_req_frame _ _ _ _ Hg) as (_ & Hko & _).
  split; [exact Hcr|]. split; [exact Hg|]. split; [exact Hka|]. split; [reflexivity|]. cbn. auto.
Qed.

Lemma process_ike_auth_request_ok E m ps s s' :
  process_ike_auth_request E m s = (Ok ps, s') ->
  exists rps sb pa,
    child_nego_req E m s = (Ok rps, sb) /\ kind_of pa = K_AUTH /\
    ps = rps ++ [P_IDr (a_id_type (cf_my_auth (cfg (co s)))) (a_id_data (cf_my_auth (cfg (co s)))); pa] /\
    co s' = (co sb) <| st := ST_ESTABLISHED |> /\ kops s' = kops sb /\ new_sa s' = new_sa sb.
Proof.
  unfold process_ike_auth_request. intros Hx.
  bpure Hx u0 Hst check_in_states_ok. bpure Hx pid Hpid get_payload_ok. bpure Hx pa0 Hpa get_payload_ok.
  bpure Hx c Hc getc_ok. subst c.
  binv Hx x1 s1 H1. apply ser_opt_pure in H1. subst s1. binv Hx x2 s1 H1. apply ser_opt_pure in H1. subst s1.
  binv Hx idv s1 H1. apply check_peer_id_pure in H1. subst s1.
  binv Hx nres s1 H1. apply amsg_nonce_ok in H1. destruct H1 as [_ ->].
  binv Hx rqd s1 H1. apply ser_opt_pure in H1. subst s1.
  binv Hx pskp s1 H1. apply peer_sk_p_pure in H1. subst s1.
  binv Hx u1 s1 H1. apply verify_auth_pure in H1. subst s1.
  binv Hx rps sb Hc.
  binv Hx nreq s1 H1. apply amsg_nonce_ok in H1. destruct H1 as [_ ->].
  binv Hx resd s1 H1. apply ser_opt_pure in H1. subst s1.
  binv Hx skp s1 H1. apply my_sk_p_pure in H1. subst s1.
  binv Hx pa s1 H1. apply gen_auth_ok in H1. destruct H1 as [Hka ->].
  bupd Hx set_state_ok. apply ret_ok in Hx. destruct Hx as [-> ->].
  exists rps, sb, pa. cbn. auto 10.
Qed.

Theorem ike_auth_child_mirror E kp sIa rq sIb (mR mI : pmsg body) sR0 psR sR1 sI u sI2 :
  dh_ok E kp -> ckeys_by_trs E -> tape_ok kp (tape sIa) -> tape_ok kp (tape sR0) ->
  (* initiator: IKE_AUTH request (generated inside process_ike_sa_init_response) *)
  generate_ike_auth_request E sIa = (Ok rq, sIb) ->
  (* same IKE_SA (conclusion of [ike_sa_init_agree]), same IKE_SA_INIT nonces, mirrored addresses *)
  kr (co sIa) = kr (co sR0) -> cprop (co sIa) = cprop (co sR0) ->
  first_nonce (init_req (co sIa)) = first_nonce (init_req (co sR0)) ->
  first_nonce (init_res (co sIa)) = first_nonce (init_res (co sR0)) ->
  my_addr (co sIa) = peer_addr (co sR0) -> peer_addr (co sIa) = my_addr (co sR0) ->
  (* responder *)
  snd (p_body mR) = snd rq -> h_exch (p_hdr mR) = EX_IKE_AUTH ->
  process_ike_auth_request E mR sR0 = (Ok psR, sR1) ->
  (* initiator on the response *)
  snd (p_body mI) = psR -> h_exch (p_hdr mI) = EX_IKE_AUTH ->
  carried_st (co sIb) (co sI) ->
  child_nego_res E mI sI = (Ok u, sI2) ->
  exists out_I in_I out_R in_R k cp pI pR keyseed ck chI' chR' ch,
    creating (co sIa) = Some ch /\
    kops sI2 = kops sI ++ [K_add out_I true; K_add in_I true] /\
    kops sR1 = kops sR0 ++ [K_add out_R true; K_add in_R true] /\
    ksa_mirror out_I in_R /\ ksa_mirror in_I out_R /\
    k_src out_I = my_addr (co sIa) /\ k_dst out_I = peer_addr (co sIa) /\
    k_src in_I = peer_addr (co sIa) /\ k_dst in_I = my_addr (co sIa) /\
    k_prop out_I = pI /\ k_prop in_I = pI /\ k_prop out_R = pR /\ k_prop in_R = pR /\
    pI = pR <| pr_spi := k_spi out_I |> /\ pr_spi pR = k_spi in_I /\ k_spi in_I = c_in ch /\
    kr (co sIa) = Some k /\ cprop (co sIa) = Some cp /\
    e_child_keys E cp pI keyseed (sk_d k) = Some ck /\ e_child_keys E cp pR keyseed (sk_d k) = Some ck /\
    k_enc out_I = ck_ei ck /\ k_auth out_I = ck_ai ck /\ k_enc in_I = ck_er ck /\ k_auth in_I = ck_ar ck /\
    k_enc out_R = ck_er ck /\ k_auth out_R = ck_ar ck /\ k_enc in_R = ck_ei ck /\ k_auth in_R = ck_ai ck /\
    children (co sI2) = children (co sIa) ++ [chI'] /\ children (co sR1) = children (co sR0) ++ [chR'] /\
    c_in chI' = c_out chR' /\ c_out chI' = c_in chR' /\ c_tsi chI' = c_tsr chR' /\ c_tsr chI' = c_tsi chR' /\
    c_mode chI' = c_mode chR' /\ c_prop chI' = c_prop chR' /\
    st (co sR1) = ST_ESTABLISHED.
Proof.
  intros Hdh Hck HtI HtR Hgen Hkr Hcprop Hn1 Hn2 Ha1 Ha2 HbodyR HexR HR HbodyI HexI Hcar HI.
  destruct (generate_ike_auth_request_ok _ _ _ _ Hgen) as (ch & cps & sB & pa & Hcr & Hg & Hka & -> & HcoB & _).
  destruct (process_ike_auth_request_ok _ _ _ _ _ HR) as (rps & sb & par & HRc & Hkar & -> & HcoR & HkoR & _).
  destruct (gen_child_nego_req_frame _ _ _ _ Hg) as (Hfr & _ & _).
  unfold carried_st in Hcar. rewrite HcoB in Hcar.
  assert (C2 : creating (co sI) = creating (co sIa))
    by (pose proof (f_equal creating Hcar) as X; pose proof (f_equal creating Hfr) as Y; cbn in X, Y; congruence).
  assert (C4 : kr (co sI) = kr (co sIa))
    by (pose proof (f_equal kr Hcar) as X; pose proof (f_equal kr Hfr) as Y; cbn in X, Y; congruence).
  assert (C5 : cprop (co sI) = cprop (co sIa))
    by (pose proof (f_equal cprop Hcar) as X; pose proof (f_equal cprop Hfr) as Y; cbn in X, Y; congruence).
  assert (C6 : my_addr (co sI) = my_addr (co sIa))
    by (pose proof (f_equal my_addr Hcar) as X; pose proof (f_equal my_addr Hfr) as Y; cbn in X, Y; congruence).
  assert (C7 : peer_addr (co sI) = peer_addr (co sIa))
    by (pose proof (f_equal peer_addr Hcar) as X; pose proof (f_equal peer_addr Hfr) as Y; cbn in X, Y; congruence).
  assert (C8 : children (co sI) = children (co sIa))
    by (pose proof (f_equal children Hcar) as X; pose proof (f_equal children Hfr) as Y; cbn in X, Y; congruence).
  assert (C9 : init_req (co sI) = init_req (co sIa))
    by (pose proof (f_equal init_req Hcar) as X; pose proof (f_equal init_req Hfr) as Y; cbn in X, Y; congruence).
  assert (C10 : init_res (co sI) = init_res (co sIa))
    by (pose proof (f_equal init_res Hcar) as X; pose proof (f_equal init_res Hfr) as Y; cbn in X, Y; congruence).
  assert (C3 : dh (co sI) = dh (co sB)) by (pose proof (f_equal dh Hcar) as X; cbn in X; exact X).
  set (idi := P_IDi (a_id_type (cf_my_auth (cfg (co sIa)))) (a_id_data (cf_my_auth (cfg (co sIa))))) in *.
  set (idr := P_IDr (a_id_type (cf_my_auth (cfg (co sR0)))) (a_id_data (cf_my_auth (cfg (co sR0))))) in *.
  assert (HcollR : coll mR true = [] ++ cps ++ [idi; pa]) by (unfold coll; cbv beta iota; exact HbodyR).
  assert (HcollI : coll mI true = rps ++ [idr; par]) by (unfold coll; cbv beta iota; exact HbodyI).
  assert (Hl1 : lacks CHILD_KINDS [idi; pa]).
  { intros q [<-|[<-|[]]] k [<-|[<-|[<-|[<-|[]]]]]; try reflexivity; rewrite Hka; reflexivity. }
  assert (Hl2 : lacks RES_KINDS [idr; par]).
  { intros q [<-|[<-|[]]] k [<-|[<-|[<-|[<-|[<-|[<-|[]]]]]]]; try reflexivity; rewrite Hkar; reflexivity. }
  assert (Ht1 : tfilter N_USE_TRANSPORT_MODE [idi; pa] = []).
  { apply (tfilter_lacks _ [K_NOTIFY]); [|cbn; tauto]. intros q [<-|[<-|[]]] k [<-|[]]; try reflexivity. rewrite Hka. reflexivity. }
  destruct (child_mirror E kp ch sIa cps sB mR mI ([] ++ cps ++ [idi; pa]) [] [idi; pa] sR0 rps sb [idr; par] sI u sI2 Hdh Hck)
    as (out_I & in_I & out_R & in_R & k & cp & pI & pR & keyseed & ck & chI' & chR' & H); try assumption.
  - rewrite C2. exact Hcr.
  - rewrite C4. exact Hkr.
  - rewrite C5. exact Hcprop.
  - rewrite C6. exact Ha1.
  - rewrite C7. exact Ha2.
  - reflexivity.
  - apply lacks_nil.
  - reflexivity.
  - rewrite HexR. cbn. rewrite C9, C10. auto.
  - rewrite HexI, HexR. reflexivity.
  - exists out_I, in_I, out_R, in_R, k, cp, pI, pR, keyseed, ck, chI', chR', ch.
    rewrite C6, C7, C4, C5, C8 in H. rewrite HcoR, HkoR. cbn.
    decompose [and] H. repeat (split; [assumption|]). reflexivity.
Qed.

(* ------------------------------------------------------------------------------------------------ *)
(** * (4) IKE_SA rekey *)

(** what both handlers do once the negotiation has succeeded: the CHILD_SAs move to the successor *)
Definition handover (s : isa) : isa :=
  s <| new_sa := option_map (fun n => n <| children := children (co s) |> <| st := ST_ESTABLISHED |>) (new_sa s) |>
    <| co := (co s) <| children := [] |> <| st := ST_REKEYED |> |>.

Lemma new_core_ok ini pspi c nc s s' :
  new_core ini pspi c s = (Ok nc, s') ->
  exists spi j r,
    tape s = D_bytes spi :: D_num j :: r /\ s' = s <| tape := r |> /\
    my_spi_b nc = spi /\ peer_spi_b nc = pspi /\ c_init nc = ini /\ cfg nc = cfg c /\ children nc = [] /\
    kr nc = None /\ my_addr nc = my_addr c /\ peer_addr nc = peer_addr c /\ cookie_secret nc = None.
Proof.
  unfold new_core. intros Hx.
  binv Hx spi s1 Hb. apply draw_bytes_ok in Hb. destruct Hb as (r1 & Ht1 & ->).
  binv Hx j s1 Hj. apply draw_num_ok in Hj. destruct Hj as (r & Ht & ->). cbn in Ht. subst r1.
  bpure Hx sx Hg get_ok. apply ret_ok in Hx. destruct Hx as [-> ->].
  exists spi, j, r. split; [exact Ht1|]. split; [destruct s; reflexivity|]. cbn. auto 12.
Qed.

Lemma generate_rekey_ike_sa_request_ok rq s s' :
  generate_rekey_ike_sa_request s = (Ok rq, s') ->
  exists nc n t h pub,
    st (co s) = ST_ESTABLISHED /\ In (D_dh (tr_id t) h pub) (tape s) /\
    rq = (EX_CREATE_CHILD_SA, [P_SA [(cf_prop (cfg (co s))) <| pr_spi := my_spi_b nc |>]; P_NONCE n; P_KE (tr_id t) pub]) /\
    new_sa s' = Some nc /\ dh nc = Some (tr_id t, h) /\ c_init nc = true /\ children nc = [] /\
    (exists b r, tape s = D_bytes b :: r /\ my_spi_b nc = b) /\
    co s' = (co s) <| request := Some rq |> <| st := ST_REK_IKE_SA_REQ_SENT |> /\ kops s' = kops s.
Proof.
  unfold generate_rekey_ike_sa_request. intros Hx.
  bpure Hx u0 Hst assert_state_ok. cbn in Hst. rewrite orb_false_r in Hst. apply Z.eqb_eq in Hst.
  bpure Hx c Hc getc_ok. subst c. binv Hx nc0 s1 Hn. apply new_core_ok in Hn.
  destruct Hn as (spi & j & r0 & Ht0 & -> & Hmy & _ & Hin & Hcfg & Hch & _).
  bupd Hx modify_ok. binv Hx ps s2 Hg. apply gen_ike_nego_request_ok in Hg.
  destruct Hg as (c & n & jn & t & h & pub & r & Hv & Ht & Htape & -> & ->). cbn in Hv. inversion Hv; subst c; clear Hv.
  binv Hx rr s3 Hr. apply set_request_ok in Hr. destruct Hr as [-> ->]. bupd Hx set_state_ok.
  apply ret_ok in Hx. destruct Hx as [-> ->]. cbn in Htape.
  exists (nc0 <| chosen := Some ((cf_prop (cfg nc0)) <| pr_spi := my_spi_b nc0 |>) |> <| dh := Some (tr_id t, h) |>), n, t, h, pub.
  split; [exact Hst|]. split; [rewrite Ht0, Htape; cbn; tauto|].
  cbn. rewrite Hcfg. split; [reflexivity|]. split; [reflexivity|]. split; [reflexivity|]. split; [exact Hin|].
  split; [exact Hch|]. split; [exists spi, (D_num j :: r0); auto|]. auto.
Qed.

Lemma ike_triple_lookup a b c :
  kind_of a = K_SA -> kind_of b = K_NONCE -> kind_of c = K_KE ->
  forall k, kfilter k [a; b; c] =
            (if pkind_eqb K_SA k then [a] else []) ++ (if pkind_eqb K_NONCE k then [b] else [])
            ++ (if pkind_eqb K_KE k then [c] else []).
Proof.
  intros Ha Hb Hc k. unfold kfilter. cbn [filter]. rewrite Ha, Hb, Hc.
  destruct (pkind_eqb K_SA k), (pkind_eqb K_NONCE k), (pkind_eqb K_KE k); reflexivity.
Qed.

Lemma generate_delete_ike_sa_request_ok r s s' :
  generate_delete_ike_sa_request s = (Ok r, s') ->
  new_sa s' = new_sa s /\ kops s' = kops s /\ children (co s') = children (co s) /\ ikeview (co s') = ikeview (co s) /\
  st (co s') = (if Z.eqb (st (co s)) ST_ESTABLISHED then ST_DEL_IKE_SA_REQ_SENT else ST_DEL_AFTER_REKEY_IKE_SA_REQ_SENT).
Proof.
  unfold generate_delete_ike_sa_request. intros Hx.
  bpure Hx u0 Hst assert_state_ok. binv Hx rr s1 Hr. apply set_request_ok in Hr. destruct Hr as [-> ->].
  bpure Hx c Hc getc_ok. subst c. bupd Hx set_state_ok. apply ret_ok in Hx. destruct Hx as [-> ->]. cbn. auto.
Qed.

(** the responder answered an IKE_SA rekey request with a proposal *)
Lemma process_create_child_sa_request_ike_ok E m rps s s' chI n g pub :
  process_create_child_sa_request E m s = (Ok rps, s') ->
  coll m true = [P_SA [chI]; P_NONCE n; P_KE g pub] -> kfilter K_SA rps <> [] ->
  exists nc sa sb kold,
    st (co s) = ST_ESTABLISHED /\ pr_proto chI = PROTO_IKE /\ kr (co s) = Some kold /\
    new_sa sa = Some nc /\ co sa = co s /\ kops sa = kops s /\ (forall d, In d (tape sa) -> In d (tape s)) /\
    c_init nc = false /\ peer_spi_b nc = pr_spi chI /\ children nc = [] /\ cookie_secret nc = None /\
    (exists b r, tape s = D_bytes b :: r /\ my_spi_b nc = b) /\
    ike_nego_request E true m true (Some (sk_d kold)) sa = (Ok rps, sb) /\ s' = handover sb.
Proof.
  unfold process_create_child_sa_request. intros Hx Hcoll Hsa.
  pose proof (ike_triple_lookup (P_SA [chI]) (P_NONCE n) (P_KE g pub) eq_refl eq_refl eq_refl) as Lk.
  bpure Hx u0 Hst check_in_states_ok. bpure Hx psa Hp get_payload_ok.
  rewrite get_payloads_coll, Hcoll, Lk in Hp. cbn in Hp. inversion Hp; subst psa; clear Hp.
  bpure Hx p0 Hf first_prop_ok. cbn in Hf. inversion Hf; subst p0; clear Hf.
  destruct (Z.eqb (pr_proto chI) PROTO_IKE) eqn:Epr.
  - apply Z.eqb_eq in Epr. bpure Hx c Hc getc_ok. subst c.
    destruct (ike_rekey_while_busy (st (co s))) eqn:Eb.
    { apply ret_ok in Hx. destruct Hx as [-> _]. exfalso. apply Hsa. reflexivity. }
    unfold ike_rekey_while_busy in Eb. apply negb_false_iff, Z.eqb_eq in Eb.
    binv Hx nc s1 Hn. apply new_core_ok in Hn.
    destruct Hn as (spi & j & r0 & Ht0 & -> & Hmy & Hpeer & Hin & _ & Hch & _ & _ & _ & Hck).
    bupd Hx modify_ok. bpure Hx kold Hk of_opt_ok. binv Hx rps0 sb Hn. bupd Hx modify_ok.
    apply ret_ok in Hx. destruct Hx as [-> ->].
    exists nc, (s <| tape := r0 |> <| new_sa := Some nc |>), sb, kold. split; [exact Eb|]. split; [exact Epr|]. split; [exact Hk|].
    split; [reflexivity|]. split; [reflexivity|]. split; [reflexivity|].
    split; [cbn; intros d Hd; rewrite Ht0; cbn; auto|].
    split; [exact Hin|]. split; [exact Hpeer|]. split; [exact Hch|]. split; [exact Hck|].
    split; [exists spi, (D_num j :: r0); auto|]. split; [exact Hn|]. reflexivity.
  - exfalso. apply child_nego_req_body_of in Hx; [|exact Hsa]. unfold child_nego_req_body in Hx.
    bpure Hx psa Hp get_payload_ok. bpure Hx ptsi Hp2 get_payload_ok.
    rewrite get_payloads_coll, Hcoll, Lk in Hp2. discriminate.
Qed.

(** the initiator on that answer *)
Lemma process_create_child_sa_response_ike_ok E m nxt s s' chR nr g pubR :
  process_create_child_sa_response E m s = (Ok nxt, s') ->
  st (co s) = ST_REK_IKE_SA_REQ_SENT ->
  coll m true = [P_SA [chR]; P_NONCE nr; P_KE g pubR] ->
  exists req pn kold sb u r,
    request (co s) = Some req /\ hd_error (kfilter K_NONCE (snd req)) = Some pn /\ kr (co s) = Some kold /\
    ike_nego_response E true m (nonce_of pn) true (Some (sk_d kold)) s = (Ok u, sb) /\
    generate_delete_ike_sa_request (handover sb) = (Ok r, s').
Proof.
  unfold process_create_child_sa_response. intros Hx Hst Hcoll.
  assert (Hnot : forall ty, get_notifies m ty true = []).
  { intros ty. rewrite get_notifies_coll, Hcoll. reflexivity. }
  rewrite !Hnot in Hx. cbn [nonempty] in Hx.
  bpure Hx u0 Hcs check_in_states_ok. bpure Hx u1 Hab nguard_ok. bpure Hx c Hc getc_ok. subst c.
  rewrite Hst in Hx. cbn [Z.eqb ST_REK_IKE_SA_REQ_SENT Pos.eqb] in Hx.
  binv Hx nc0 s1 Hw. apply getw_ok in Hw. destruct Hw as [_ ->].
  bpure Hx req Hrq of_opt_ok. bpure Hx pn Hpn req_get_ok. bpure Hx kold Hk of_opt_ok.
  binv Hx u2 sb Hn. bupd Hx modify_ok. binv Hx r s2 Hd. apply ret_ok in Hx. destruct Hx as [_ ->].
  exists req, pn, kold, sb, u2, r. auto.
Qed.

Theorem ike_rekey_agree E kp sI0 rq sI1 (mR mI : pmsg body) sR0 rps sR1 sI nxt sI2 :
  dh_ok E kp -> tape_ok kp (tape sI0) -> tape_ok kp (tape sR0) ->
  (* initiator: CREATE_CHILD_SA request rekeying the IKE_SA; the fresh SPI is not the empty string *)
  generate_rekey_ike_sa_request sI0 = (Ok rq, sI1) ->
  (forall b r, tape sI0 = D_bytes b :: r -> b <> []) ->
  (* both ends hold the same current IKE_SA keys *)
  kr (co sI0) = kr (co sR0) ->
  (* responder: exactly those payloads; it answers with a proposal (not with a notification) *)
  snd (p_body mR) = snd rq ->
  process_create_child_sa_request E mR sR0 = (Ok rps, sR1) -> kfilter K_SA rps <> [] ->
  (* initiator: exactly the response payloads *)
  snd (p_body mI) = rps -> carried (co sI1) (co sI) -> new_sa sI = new_sa sI1 ->
  process_create_child_sa_response E mI sI = (Ok nxt, sI2) ->
  exists nI nR k p kold nonI nonR g hI pubI hR pubR secret,
    new_sa sI2 = Some nI /\ new_sa sR1 = Some nR /\
    (* identical successor key material *)
    kr nI = Some k /\ kr nR = Some k /\ chosen nI = Some p /\ chosen nR = Some p /\ cprop nI = Some p /\ cprop nR = Some p /\
    peer_spi_b nI = my_spi_b nR /\ peer_spi_b nR = my_spi_b nI /\ c_init nI = true /\ c_init nR = false /\
    (* derived from the old SK_d and a shared DH secret *)
    kr (co sI0) = Some kold /\
    In (D_dh g hI pubI) (tape sI0) /\ In (D_dh g hR pubR) (tape sR0) /\
    e_dh_secret E g hI pubR = Some secret /\ e_dh_secret E g hR pubI = Some secret /\
    e_ike_keys E p nonI nonR (my_spi_b nI) (my_spi_b nR) secret (Some (sk_d kold)) = Some k /\
    (* the CHILD_SAs are handed over, nothing is sent to the kernel *)
    children nI = children (co sI0) /\ children nR = children (co sR0) /\
    children (co sI2) = [] /\ children (co sR1) = [] /\
    kops sI2 = kops sI /\ kops sR1 = kops sR0 /\
    st nI = ST_ESTABLISHED /\ st nR = ST_ESTABLISHED /\ st (co sR1) = ST_REKEYED /\
    st (co sI2) = ST_DEL_AFTER_REKEY_IKE_SA_REQ_SENT.
Proof.
  intros Hdh HtI HtR Hgen Hne Hkr HbodyR HR Hsa HbodyI Hcar Hns HI.
  destruct (generate_rekey_ike_sa_request_ok _ _ _ Hgen)
    as (nc & nI & t & hI & pubI & HstI & HinI & -> & Hnew & HdhI & HiniI & HchI & (b & r & Htb & Hmyb) & HcoI & HkoI).
  assert (HcollR : coll mR true = [P_SA [(cf_prop (cfg (co sI0))) <| pr_spi := my_spi_b nc |>]; P_NONCE nI; P_KE (tr_id t) pubI])
    by (unfold coll; cbv beta iota; exact HbodyR).
  destruct (process_create_child_sa_request_ike_ok E _ _ _ _ _ _ _ _ HR HcollR Hsa)
    as (ncR & sa & sb & kold & HstR & _ & HkR & HnewR & Hcosa & Hkosa & Htsa & HiniR & HpeerR & HchR & _ & _ & HnR & ->).
  destruct (ike_nego_request_ok E _ _ _ _ _ _ _ _ _ _ _ [] [] HnR HcollR (lacks_nil _) (lacks_nil _))
    as (c & ch0 & nR & jR & hR & pubR & rR & secret & k & Hv & Hint & HtapeR & Hsec & Hk & Hps0 & Hsb).
  assert (HcollI : coll mI true = rps) by (unfold coll; cbv beta iota; exact HbodyI).
  pose proof (f_equal st Hcar) as C1. pose proof (f_equal request Hcar) as C2. pose proof (f_equal kr Hcar) as C3.
  pose proof (f_equal children Hcar) as C4. cbn in C1, C2, C3, C4. rewrite HcoI in C1, C2, C3, C4. cbn in C1, C2, C3, C4.
  rewrite Hps0 in HcollI.
  destruct (process_create_child_sa_response_ike_ok E _ _ _ _ _ _ _ _ HI C1 HcollI)
    as (req & pn & koldI & sIb & u & rd & Hrq & Hpn & HkI & HnI & Hdel).
  rewrite C2 in Hrq. inversion Hrq; subst req; clear Hrq. cbn in Hpn. inversion Hpn; subst pn; clear Hpn. cbn [nonce_of] in HnI.
  rewrite C3, Hkr, HkR in HkI. inversion HkI; subst koldI; clear HkI.
  rewrite <- Hps0 in HcollI.
  assert (HkpI : kp (tr_id t) hI pubI) by (apply HtI; exact HinI).
  assert (HtRa : tape_ok kp (tape sa)) by (intros g0 h0 p0 Hin0; apply HtR, Htsa; exact Hin0).
  destruct (ike_nego_agree E kp true true mR true mI true (Some (sk_d kold)) sa sb sI sIb _ nI (tr_id t) hI pubI
                           [] [] rps [] [] nc ncR u Hdh HtRa HkpI HcollR (lacks_nil _) (lacks_nil _) HnewR HnR)
    as (k' & p & nR' & hR' & pubR' & secret' & HinR & Hs1 & Hs2 & Hks & HvI & HvR & _ & HkoI2 & HkoR2 & HcoI2 & HcoR2 & _).
  { rewrite app_nil_r. exact HcollI. }
  { apply lacks_nil. } { apply lacks_nil. }
  { cbn. rewrite Hns. exact Hnew. }
  { exact HdhI. }
  { rewrite HpeerR. reflexivity. }
  { split; [reflexivity|]. rewrite Hmyb. apply (Hne b r Htb). }
  { exact HnI. }
  cbn in HvI, HvR. specialize (HcoI2 eq_refl). specialize (HcoR2 eq_refl).
  destruct (generate_delete_ike_sa_request_ok _ _ _ Hdel) as (D1 & D2 & D3 & _ & D5).
  exists (nc <| chosen := Some p |> <| peer_spi_b := my_spi_b ncR |> <| kr := Some k' |> <| cprop := Some p |>
             <| children := children (co sIb) |> <| st := ST_ESTABLISHED |>),
         (ncR <| chosen := Some p |> <| kr := Some k' |> <| cprop := Some p |>
              <| children := children (co sb) |> <| st := ST_ESTABLISHED |>),
         k', p, kold, nI, nR', (tr_id t), hI, pubI, hR', pubR', secret'.
  rewrite D1, D2, D3, D5. unfold handover. cbn. rewrite HvI, HvR. cbn.
  split; [reflexivity|]. split; [reflexivity|].
  repeat (split; [reflexivity|]). split; [rewrite HpeerR; reflexivity|]. split; [exact HiniI|]. split; [exact HiniR|].
  split; [rewrite Hkr; exact HkR|]. split; [exact HinI|]. split; [apply Htsa; exact HinR|].
  split; [exact Hs1|]. split; [exact Hs2|]. split; [exact Hks|].
  rewrite HcoI2, HcoR2, C4, Hcosa, HkoI2, HkoR2, Hkosa. repeat (split; [reflexivity|]). reflexivity.
Qed.

Example ike_auth_child_mirror_nonvacuous :
  let E := Toy.E0 in
  exists sIa rq sIb mR mI sR0 psR sR1 sI u sI2,
    dh_ok E Toy.toy_kp /\ ckeys_by_trs E /\ tape_ok Toy.toy_kp (tape sIa) /\ tape_ok Toy.toy_kp (tape sR0) /\
    generate_ike_auth_request E sIa = (Ok rq, sIb) /\
    kr (co sIa) = kr (co sR0) /\ kr (co sIa) <> None /\ cprop (co sIa) = cprop (co sR0) /\
    first_nonce (init_req (co sIa)) = first_nonce (init_req (co sR0)) /\
    first_nonce (init_res (co sIa)) = first_nonce (init_res (co sR0)) /\
    my_addr (co sIa) = peer_addr (co sR0) /\ peer_addr (co sIa) = my_addr (co sR0) /\
    snd (p_body mR) = snd rq /\ h_exch (p_hdr mR) = EX_IKE_AUTH /\
    process_ike_auth_request E mR sR0 = (Ok psR, sR1) /\
    snd (p_body mI) = psR /\ h_exch (p_hdr mI) = EX_IKE_AUTH /\
    carried_st (co sIb) (co sI) /\
    child_nego_res E mI sI = (Ok u, sI2).
Proof.
  exists Toy.aIa, (Toy.val Toy.aIb (0, [])), (snd Toy.aIb), Toy.amR, Toy.amI, Toy.aR0, (Toy.val Toy.aR1 []), (snd Toy.aR1),
         Toy.aI, tt, (snd Toy.aI2).
  split; [apply Toy.toy_dh_ok|]. split; [apply Toy.toy_ckeys|]. split; [Toy.toy_tape|]. split; [Toy.toy_tape|].
  split; [vm_compute; reflexivity|]. split; [vm_compute; reflexivity|]. split; [vm_compute; discriminate|].
  split; [vm_compute; reflexivity|]. split; [vm_compute; reflexivity|]. split; [vm_compute; reflexivity|].
  split; [vm_compute; reflexivity|]. split; [vm_compute; reflexivity|]. split; [vm_compute; reflexivity|]. split; [vm_compute; reflexivity|].
  split; [vm_compute; reflexivity|]. split; [vm_compute; reflexivity|]. split; [vm_compute; reflexivity|]. split; [vm_compute; reflexivity|].
  vm_compute; reflexivity.
Qed.

Example ike_rekey_agree_nonvacuous :
  let E := Toy.E0 in
  exists sI0 rq sI1 mR mI sR0 rps sR1 sI nxt sI2,
    dh_ok E Toy.toy_kp /\ tape_ok Toy.toy_kp (tape sI0) /\ tape_ok Toy.toy_kp (tape sR0) /\
    generate_rekey_ike_sa_request sI0 = (Ok rq, sI1) /\
    (forall b r, tape sI0 = D_bytes b :: r -> b <> []) /\
    kr (co sI0) = kr (co sR0) /\
    snd (p_body mR) = snd rq /\
    process_create_child_sa_request E mR sR0 = (Ok rps, sR1) /\ kfilter K_SA rps <> [] /\
    snd (p_body mI) = rps /\ carried (co sI1) (co sI) /\ new_sa sI = new_sa sI1 /\
    process_create_child_sa_response E mI sI = (Ok nxt, sI2) /\
    children (co sI0) <> [] /\ children (co sR0) <> [].
Proof.
  exists Toy.rI0, (Toy.val Toy.rI1 (0, [])), (snd Toy.rI1), Toy.rmR, Toy.rmI, Toy.rR0, (Toy.val Toy.rR1 []), (snd Toy.rR1),
         Toy.rI1', (Toy.val Toy.rI2 None), (snd Toy.rI2).
  split; [apply Toy.toy_dh_ok|]. split; [Toy.toy_tape|]. split; [Toy.toy_tape|].
  split; [vm_compute; reflexivity|].
  split; [intros b r Hb; vm_compute in Hb; inversion Hb; discriminate|].
  split; [vm_compute; reflexivity|]. split; [vm_compute; reflexivity|]. split; [vm_compute; reflexivity|]. split; [vm_compute; discriminate|].
  split; [vm_compute; reflexivity|]. split; [vm_compute; reflexivity|]. split; [vm_compute; reflexivity|]. split; [vm_compute; reflexivity|].
  split; vm_compute; discriminate.
Qed.

(* ------------------------------------------------------------------------------------------------ *)
(** * (2) with the whole request handler on the responder's side *)

Lemma process_create_child_sa_request_child E m rps s s' p ps rest :
  kfilter K_SA (coll m true) = P_SA (p :: ps) :: rest -> pr_proto p <> PROTO_IKE ->
  process_create_child_sa_request E m s = (Ok rps, s') ->
  memZ (st (co s)) (states_range ST_ESTABLISHED ST_REKEYED) = true /\ child_nego_req E m s = (Ok rps, s').
Proof.
  unfold process_create_child_sa_request. intros Hsa Hp Hx.
  bpure Hx u0 Hst check_in_states_ok. bpure Hx psa Hg get_payload_ok. rewrite get_payloads_coll, Hsa in Hg.
  cbn in Hg. inversion Hg; subst psa; clear Hg. bpure Hx p0 Hf first_prop_ok. cbn in Hf. inversion Hf; subst p0; clear Hf.
  destruct (Z.eqb (pr_proto p) PROTO_IKE) eqn:Ep; [apply Z.eqb_eq in Ep; contradiction|]. auto.
Qed.

Theorem create_child_sa_mirror_handler E kp ch rk sI0 rq sI1 (mR mI : pmsg body) sR0 rps sR1 sI u sI2 :
  dh_ok E kp -> ckeys_by_trs E -> tape_ok kp (tape sI0) -> tape_ok kp (tape sR0) ->
  generate_create_child_sa_request ch rk sI0 = (Ok rq, sI1) ->
  pr_proto (c_prop ch) <> PROTO_IKE ->
  kr (co sI0) = kr (co sR0) -> cprop (co sI0) = cprop (co sR0) ->
  my_addr (co sI0) = peer_addr (co sR0) -> peer_addr (co sI0) = my_addr (co sR0) ->
  snd (p_body mR) = snd rq -> h_exch (p_hdr mR) = EX_CREATE_CHILD_SA ->
  process_create_child_sa_request E mR sR0 = (Ok rps, sR1) ->
  snd (p_body mI) = rps -> h_exch (p_hdr mI) = EX_CREATE_CHILD_SA ->
  carried_st (co sI1) (co sI) ->
  child_nego_res E mI sI = (Ok u, sI2) ->
  exists out_I in_I out_R in_R k cp pI pR keyseed ck,
    kops sI2 = kops sI ++ [K_add out_I true; K_add in_I true] /\
    kops sR1 = kops sR0 ++ [K_add out_R true; K_add in_R true] /\
    ksa_mirror out_I in_R /\ ksa_mirror in_I out_R /\
    k_prop out_I = pI /\ k_prop in_R = pR /\
    kr (co sI0) = Some k /\ cprop (co sI0) = Some cp /\
    e_child_keys E cp pI keyseed (sk_d k) = Some ck /\ e_child_keys E cp pR keyseed (sk_d k) = Some ck /\
    k_enc out_I = ck_ei ck /\ k_auth out_I = ck_ai ck /\ k_enc in_I = ck_er ck /\ k_auth in_I = ck_ar ck.
Proof.
  intros Hdh Hck HtI HtR Hgen Hpr Hkr Hcprop Ha1 Ha2 HbodyR HexR HR HbodyI HexI Hcar HI.
  assert (HR' : child_nego_req E mR sR0 = (Ok rps, sR1)).
  { destruct (generate_create_child_sa_request_ok _ _ _ _ _ Hgen) as (sA & cps & sB & n & _ & _ & Hg & Hrq & _).
    assert (Hgen' : exists ke, cps = child_req_payloads ch ke /\ ke_shape ke).
    { destruct (gen_child_nego_req_ok _ _ _ _ Hg) as [(_ & _ & ->)|(t & rest & h & pub & r & _ & _ & _ & ->)].
      - exists []. split; [reflexivity|left; reflexivity].
      - eexists. split; [reflexivity|right; eauto]. }
    destruct Hgen' as (ke & -> & Hke). subst rq.
    assert (HcollR : coll mR true = rekey_notify rk ++ child_req_payloads ch ke ++ [P_NONCE n])
      by (unfold coll; cbv beta iota; exact HbodyR).
    destruct (child_req_lookup (rekey_notify rk) ch ke [P_NONCE n] (lacks_rekey_child rk) (lacks_nonce_child n) Hke)
      as (Lsa & _); [destruct rk; reflexivity|reflexivity|].
    rewrite <- HcollR in Lsa.
    apply (process_create_child_sa_request_child E mR rps sR0 sR1 _ _ _ Lsa); [exact Hpr|exact HR]. }
  destruct (create_child_sa_mirror E kp ch rk sI0 rq sI1 mR mI sR0 rps sR1 sI u sI2 Hdh Hck HtI HtR Hgen Hkr Hcprop Ha1 Ha2
                                   HbodyR HexR HR' HbodyI HexI Hcar HI)
    as (out_I & in_I & out_R & in_R & k & cp & pI & pR & keyseed & ck & chI' & chR' & H).
  exists out_I, in_I, out_R, in_R, k, cp, pI, pR, keyseed, ck. decompose [and] H. repeat (split; [assumption|]). assumption.
Qed.
