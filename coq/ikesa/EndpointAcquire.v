(** C15, second half: what a kernel ACQUIRE does.
    (A) the handler [Hdl.process_acquire] and the shell's [process_trigger] on it: unknown policy index, busy states,
        ESTABLISHED (CREATE_CHILD_SA request), INITIAL (IKE_SA_INIT request) - exact equations for a given tape, and
        the converse ("whatever request came out has this form");
    (B) the controller [Endpoint.acquire]: which IkeSa processes the trigger (the FIRST table entry of the connection,
        else a new initiator made from the connection's configuration), what happens to the table;
    (C) concrete runs. *)
From Coq Require Import ZArith NArith Bool List Lia PeanoNat.
From RecordUpdate Require Import RecordSet.
From VLib Require Import Bytes.
From IkeSa Require Import Gen.IkeFacts Shell Hdl HdlSad HdlAuth HdlAgree HdlNego Endpoint EndpointSad.
Import ListNotations RecordSetNotations.
Open Scope Z_scope.

(* ------------------------------------------------------------------------------------------------ *)
(** * A. The handler *)

(** the protect entry an ACQUIRE's policy index selects: the FIRST one of the IkeSa's configuration with that index *)
Definition entry_of (index : Z) (c : conf) : option protect :=
  find (fun p => Z.eqb (pt_index p) index) (cf_protect c).

Lemma entry_of_some index c p :
  entry_of index c = Some p <->
  exists l1 l2, cf_protect c = l1 ++ p :: l2 /\ pt_index p = index /\ forall q, In q l1 -> pt_index q <> index.
Proof.
  unfold entry_of. split.
  - intros H. destruct (find_first _ _ _ H) as (l1 & l2 & H1 & H2 & H3). exists l1, l2.
    split; [exact H1|]. split; [apply Z.eqb_eq; exact H2|]. intros q Hq. apply Z.eqb_neq. apply H3. exact Hq.
  - intros (l1 & l2 & -> & H2 & H3). induction l1 as [|a r IH]; cbn.
    + apply Z.eqb_eq in H2. rewrite H2. reflexivity.
    + destruct (Z.eqb (pt_index a) index) eqn:Ea.
      * apply Z.eqb_eq in Ea. exfalso. exact (H3 a (or_introl eq_refl) Ea).
      * apply IH. intros q Hq. apply H3. right. exact Hq.
Qed.
Lemma entry_of_none index c :
  entry_of index c = None <-> forall q, In q (cf_protect c) -> pt_index q <> index.
Proof.
  unfold entry_of. split.
  - intros H q Hq. apply Z.eqb_neq. exact (find_none _ _ H q Hq).
  - intros H. induction (cf_protect c) as [|a r IH]; cbn; [reflexivity|].
    destruct (Z.eqb (pt_index a) index) eqn:Ea.
    + apply Z.eqb_eq in Ea. exfalso. exact (H a (or_introl eq_refl) Ea).
    + apply IH. intros q Hq. apply H. right. exact Hq.
Qed.

(** the CHILD_SA under negotiation that process_acquire builds: fresh inbound SPI, the entry's proposal (twice: as
    configured and as offered), the ACQUIRE's selectors FOLLOWED BY the entry's, the entry's mode and lifetime *)
Definition acquire_child (inb : bytes) (tsi tsr : ts) (p : protect) : child :=
  mk_child inb [0; 0; 0; 0]%N (pt_prop p) (pt_prop p) [tsi; pt_my_ts p] [tsr; pt_peer_ts p] (pt_mode p) (pt_life p).

(** the payloads of the CREATE_CHILD_SA request / of the CHILD_SA part of IKE_AUTH *)
Definition acquire_payloads (inb : bytes) (tsi tsr : ts) (p : protect) (ke : list payload) : list payload :=
  [P_TSi [tsi; pt_my_ts p]; P_TSr [tsr; pt_peer_ts p]; P_SA [(pt_prop p) <| pr_spi := inb |>]] ++ ke
  ++ (if Z.eqb (pt_mode p) MODE_TRANSPORT then [P_NOTIFY PROTO_NONE N_USE_TRANSPORT_MODE [] []] else []).
Lemma acquire_payloads_eq inb tsi tsr p ke :
  acquire_payloads inb tsi tsr p ke = child_req_payloads (acquire_child inb tsi tsr p) ke.
Proof. reflexivity. Qed.

Lemma get_transforms_spi p spi ty : get_transforms (p <| pr_spi := spi |>) ty = get_transforms p ty.
Proof. reflexivity. Qed.

Section Handler.
  Variable E : env.

  (** ** unknown index *)
  Lemma process_acquire_unknown tsi tsr index s :
    entry_of index (cfg (co s)) = None -> process_acquire tsi tsr index s = (Ok None, s).
  Proof. unfold entry_of, process_acquire, bind, getc. intros ->. reflexivity. Qed.

  Lemma h_trigger_unknown tsi tsr index s :
    entry_of index (cfg (co s)) = None -> h_trigger s (E_acquire tsi tsr index) = (clear_flags s, None).
  Proof. intros H. unfold h_trigger. rewrite process_acquire_unknown; [reflexivity|exact H]. Qed.

  (** ** forward steps of the monad *)
  Lemma bind_fw {A B} (m : H A) (f : A -> H B) s a s1 : m s = (Ok a, s1) -> bind m f s = f a s1.
  Proof. unfold bind. intros ->. reflexivity. Qed.
  Lemma draw_bytes_fw b r s : tape s = D_bytes b :: r -> draw_bytes s = (Ok b, s <| tape := r |>).
  Proof. unfold draw_bytes, bind, pop. intros ->. reflexivity. Qed.
  Lemma draw_num_fw z r s : tape s = D_num z :: r -> draw_num s = (Ok z, s <| tape := r |>).
  Proof. unfold draw_num, bind, pop. intros ->. reflexivity. Qed.
  Lemma draw_dh_fw g h pub r s : tape s = D_dh g h pub :: r -> draw_dh g s = (Ok (h, pub), s <| tape := r |>).
  Proof. unfold draw_dh, bind, pop. intros ->. rewrite Z.eqb_refl. reflexivity. Qed.
  Lemma fresh_nonce_fw j n r s : tape s = D_num j :: D_bytes n :: r -> fresh_nonce s = (Ok n, s <| tape := r |>).
  Proof.
    intros Ht. unfold fresh_nonce. rewrite (bind_fw _ _ _ _ _ (draw_num_fw _ _ _ Ht)).
    rewrite (draw_bytes_fw n r); [destruct s; reflexivity|reflexivity].
  Qed.
  Lemma assert_state_fw l s : memZ (st (co s)) l = true -> assert_state l s = (Ok tt, s).
  Proof. unfold assert_state, bind, getc. intros ->. reflexivity. Qed.

  Lemma gen_child_nego_req_nodh ch s :
    get_transforms (c_prop ch) T_DH = [] -> gen_child_nego_req ch s = (Ok (child_req_payloads ch []), s).
  Proof. intros Hd. unfold gen_child_nego_req. rewrite get_transforms_spi, Hd. reflexivity. Qed.
  Lemma gen_child_nego_req_dh ch s t rest h pub r :
    get_transforms (c_prop ch) T_DH = t :: rest -> tape s = D_dh (tr_id t) h pub :: r ->
    gen_child_nego_req ch s
    = (Ok (child_req_payloads ch [P_KE (tr_id t) pub]), s <| tape := r |> <| co := (co s) <| dh := Some (tr_id t, h) |> |>).
  Proof.
    intros Hd Ht. unfold gen_child_nego_req. rewrite get_transforms_spi, Hd.
    rewrite (bind_fw _ _ _ _ _ (bind_fw _ _ _ _ _ (draw_dh_fw _ _ _ _ _ Ht))). reflexivity.
  Qed.

  (** ** ESTABLISHED: exact result for a tape that fits *)

  (** the draws, the payload and the stored DH handle of the optional key exchange: none when the entry's proposal
      has no DH transform, else one key pair of the FIRST DH transform's group *)
  Definition ke_step (p : protect) (kd : list draw) (ke : list payload) (dhv : option (Z * bytes)) : Prop :=
    match get_transforms (pt_prop p) T_DH with
    | [] => kd = [] /\ ke = [] /\ dhv = None
    | t :: _ => exists h pub, kd = [D_dh (tr_id t) h pub] /\ ke = [P_KE (tr_id t) pub] /\ dhv = Some (tr_id t, h)
    end.

  Definition ccsa_request (inb : bytes) (tsi tsr : ts) (p : protect) (ke : list payload) (n : bytes) : Z * list payload :=
    (EX_CREATE_CHILD_SA, acquire_payloads inb tsi tsr p ke ++ [P_NONCE n]).
  Definition established_after (s : isa) (ch : child) (rq : Z * list payload) (dhv : option (Z * bytes)) (r : list draw)
    : isa :=
    s <| co := (co s) <| creating := Some ch |>
                      <| dh := match dhv with Some x => Some x | None => dh (co s) end |>
                      <| request := Some rq |>
                      <| st := ST_NEW_CHILD_REQ_SENT |> |>
      <| tape := r |>.

  Lemma generate_create_child_sa_request_fw ch s cps s1 j n r :
    st (co s) = ST_ESTABLISHED ->
    gen_child_nego_req ch (s <| co := (co s) <| creating := Some ch |> |>) = (Ok cps, s1) ->
    tape s1 = D_num j :: D_bytes n :: r ->
    generate_create_child_sa_request ch None s
    = (Ok (EX_CREATE_CHILD_SA, cps ++ [P_NONCE n]),
       s1 <| tape := r |> <| co := (co s1) <| request := Some (EX_CREATE_CHILD_SA, cps ++ [P_NONCE n]) |>
                                           <| st := ST_NEW_CHILD_REQ_SENT |> |>).
  Proof.
    intros Hst Hg Ht. unfold generate_create_child_sa_request.
    assert (Ha : assert_state [ST_ESTABLISHED] s = (Ok tt, s)) by (apply assert_state_fw; rewrite Hst; reflexivity).
    rewrite (bind_fw _ _ _ _ _ Ha).
    unfold modc at 1, modify at 1, bind at 1.
    rewrite (bind_fw _ _ _ _ _ Hg). unfold ret at 1, bind at 1.
    rewrite (bind_fw _ _ _ _ _ (fresh_nonce_fw _ _ _ _ Ht)).
    unfold set_request, set_state, modc, modify, bind, ret. destruct s1; reflexivity.
  Qed.

  Theorem process_acquire_established tsi tsr index s p inb kd ke dhv j n r :
    st (co s) = ST_ESTABLISHED -> entry_of index (cfg (co s)) = Some p ->
    ke_step p kd ke dhv ->
    tape s = D_bytes inb :: kd ++ D_num j :: D_bytes n :: r ->
    process_acquire tsi tsr index s =
    (Ok (Some (ccsa_request inb tsi tsr p ke n)),
     established_after s (acquire_child inb tsi tsr p) (ccsa_request inb tsi tsr p ke n) dhv r).
  Proof.
    intros Hst Hp Hke Ht. unfold entry_of in Hp.
    unfold process_acquire, bind at 1, getc. rewrite Hp, Hst.
    rewrite (bind_fw _ _ _ _ _ (draw_bytes_fw _ _ _ Ht)). fold (acquire_child inb tsi tsr p).
    change (ST_ESTABLISHED =? ST_INITIAL) with false. cbv iota.
    set (ch := acquire_child inb tsi tsr p). set (s0 := s <| tape := kd ++ D_num j :: D_bytes n :: r |>).
    unfold ke_step in Hke. change (pt_prop p) with (c_prop ch) in Hke.
    destruct (get_transforms (c_prop ch) T_DH) as [|t rest] eqn:Hdh.
    - destruct Hke as (-> & -> & ->).
      pose proof (gen_child_nego_req_nodh ch (s0 <| co := (co s0) <| creating := Some ch |> |>) Hdh) as Hg.
      rewrite (bind_fw _ _ _ _ _ (generate_create_child_sa_request_fw ch s0 _ _ j n r Hst Hg eq_refl)).
      destruct s; reflexivity.
    - destruct Hke as (h & pub & -> & -> & ->).
      pose proof (gen_child_nego_req_dh ch (s0 <| co := (co s0) <| creating := Some ch |> |>) t rest h pub
                    (D_num j :: D_bytes n :: r) Hdh eq_refl) as Hg.
      rewrite (bind_fw _ _ _ _ _ (generate_create_child_sa_request_fw ch s0 _ _ j n r Hst Hg eq_refl)).
      destruct s; reflexivity.
  Qed.

  (** ** INITIAL: exact result for a tape that fits *)
  Definition init_request (c : core) (n : bytes) (t : transform) (pub : bytes) : Z * list payload :=
    (EX_IKE_SA_INIT, [P_SA [(cf_prop (cfg c)) <| pr_spi := my_spi_b c |>]; P_NONCE n; P_KE (tr_id t) pub; P_VENDOR VENDOR_ID]).
  Definition initial_after (s : isa) (ch : child) (rq : Z * list payload) (t : transform) (h : bytes) (r : list draw)
    : isa :=
    s <| co := (co s) <| chosen := Some ((cf_prop (cfg (co s))) <| pr_spi := my_spi_b (co s) |>) |>
                      <| dh := Some (tr_id t, h) |>
                      <| request := Some rq |>
                      <| st := ST_INIT_REQ_SENT |>
                      <| init_req := Some (hdr_of (co s) EX_IKE_SA_INIT false 0, (snd rq, [])) |>
                      <| creating := Some ch |> |>
      <| tape := r |>.

  Lemma gen_ike_nego_request_fw s j n t h pub r :
    hd_error (get_transforms (cf_prop (cfg (co s))) T_DH) = Some t ->
    tape s = D_num j :: D_bytes n :: D_dh (tr_id t) h pub :: r ->
    gen_ike_nego_request false s
    = (Ok [P_SA [(cf_prop (cfg (co s))) <| pr_spi := my_spi_b (co s) |>]; P_NONCE n; P_KE (tr_id t) pub],
       s <| co := (co s) <| chosen := Some ((cf_prop (cfg (co s))) <| pr_spi := my_spi_b (co s) |>) |>
                         <| dh := Some (tr_id t, h) |> |> <| tape := r |>).
  Proof.
    intros Hd Ht. unfold gen_ike_nego_request, getw, modw. unfold get at 1, bind at 2, bind at 1, ret at 1.
    unfold modc at 1, modify at 1, bind at 1.
    set (s1 := s <| co := _ |>).
    assert (Ht1 : tape s1 = D_num j :: D_bytes n :: D_dh (tr_id t) h pub :: r) by exact Ht.
    rewrite (bind_fw _ _ _ _ _ (fresh_nonce_fw _ _ _ _ Ht1)).
    unfold get_transform. rewrite get_transforms_spi.
    destruct (get_transforms (cf_prop (cfg (co s))) T_DH) as [|t0 rest]; [discriminate Hd|]. injection Hd as ->.
    unfold ret at 1, bind at 1.
    assert (Ht2 : tape (s1 <| tape := D_dh (tr_id t) h pub :: r |>) = D_dh (tr_id t) h pub :: r) by reflexivity.
    rewrite (bind_fw _ _ _ _ _ (draw_dh_fw _ _ _ _ _ Ht2)).
    unfold modc, modify, bind, ret. destruct s; reflexivity.
  Qed.

  Theorem process_acquire_initial tsi tsr index s p inb j n t h pub r :
    st (co s) = ST_INITIAL -> entry_of index (cfg (co s)) = Some p ->
    hd_error (get_transforms (cf_prop (cfg (co s))) T_DH) = Some t ->
    tape s = D_bytes inb :: D_num j :: D_bytes n :: D_dh (tr_id t) h pub :: r ->
    process_acquire tsi tsr index s =
    (Ok (Some (init_request (co s) n t pub)),
     initial_after s (acquire_child inb tsi tsr p) (init_request (co s) n t pub) t h r).
  Proof.
    intros Hst Hp Hd Ht. unfold entry_of in Hp.
    unfold process_acquire, bind at 1, getc. rewrite Hp, Hst.
    rewrite (bind_fw _ _ _ _ _ (draw_bytes_fw _ _ _ Ht)). fold (acquire_child inb tsi tsr p).
    change (ST_INITIAL =? ST_INITIAL) with true. cbv iota.
    set (ch := acquire_child inb tsi tsr p). set (s0 := s <| tape := D_num j :: D_bytes n :: D_dh (tr_id t) h pub :: r |>).
    unfold generate_ike_sa_init_request.
    assert (Ha : assert_state [ST_INITIAL] s0 = (Ok tt, s0)) by (apply assert_state_fw; change (st (co s0)) with (st (co s)); rewrite Hst; reflexivity).
    unfold bind at 1. rewrite (bind_fw _ _ _ _ _ Ha).
    assert (Hg := gen_ike_nego_request_fw s0 j n t h pub r Hd eq_refl).
    rewrite (bind_fw _ _ _ _ _ Hg).
    unfold set_request, set_state, getc, modc, modify, bind, ret. destruct s; reflexivity.
  Qed.

  (** ** the converse: whatever request process_acquire returned came about in one of these two ways *)
  Theorem process_acquire_some_inv tsi tsr index s rq s' :
    process_acquire tsi tsr index s = (Ok (Some rq), s') ->
    exists p inb,
      entry_of index (cfg (co s)) = Some p /\
      ((st (co s) = ST_ESTABLISHED /\
        exists kd ke dhv j n r,
          ke_step p kd ke dhv /\ tape s = D_bytes inb :: kd ++ D_num j :: D_bytes n :: r /\
          rq = ccsa_request inb tsi tsr p ke n /\
          s' = established_after s (acquire_child inb tsi tsr p) rq dhv r)
       \/
       (st (co s) = ST_INITIAL /\
        exists j n t h pub r,
          hd_error (get_transforms (cf_prop (cfg (co s))) T_DH) = Some t /\
          tape s = D_bytes inb :: D_num j :: D_bytes n :: D_dh (tr_id t) h pub :: r /\
          rq = init_request (co s) n t pub /\
          s' = initial_after s (acquire_child inb tsi tsr p) rq t h r)).
  Proof.
    intros H. pose proof H as H0. unfold process_acquire in H.
    binv H c s1 Hc. apply getc_ok in Hc. destruct Hc as [-> ->].
    change (find (fun p => Z.eqb (pt_index p) index) (cf_protect (cfg (co s)))) with (entry_of index (cfg (co s))) in H.
    destruct (entry_of index (cfg (co s))) as [p|] eqn:Hp; [|apply ret_ok in H; destruct H as [H _]; discriminate H].
    binv H inb s2 Hd. apply draw_bytes_ok in Hd. destruct Hd as (r0 & Ht0 & ->).
    fold (acquire_child inb tsi tsr p) in H. set (ch := acquire_child inb tsi tsr p) in *.
    binv H rq0 s3 Hg. apply ret_ok in H. destruct H as [H ->]. injection H as ->.
    exists p, inb. split; [reflexivity|].
    destruct (Z.eqb (st (co s)) ST_INITIAL) eqn:Ei.
    - right. apply Z.eqb_eq in Ei. split; [exact Ei|].
      destruct (generate_ike_sa_init_request_ok _ _ _ _ Hg) as (n & j & t & h & pub & r & _ & Hd & Htp & _).
      cbn [tape co] in Htp, Hd. change (tape (s <| tape := r0 |>)) with r0 in Htp. subst r0.
      change (co (s <| tape := D_num j :: D_bytes n :: D_dh (tr_id t) h pub :: r |>)) with (co s) in Hd.
      rewrite get_transforms_spi in Hd.
      rewrite (process_acquire_initial tsi tsr index s p inb j n t h pub r Ei Hp Hd Ht0) in H0.
      injection H0 as H1 H2. exists j, n, t, h, pub, r. subst rq0. auto.
    - left. unfold generate_create_child_sa_request in Hg.
      bpure Hg u0 Hst assert_state_ok. cbn in Hst. rewrite orb_false_r in Hst. apply Z.eqb_eq in Hst.
      change (st (co (s <| tape := r0 |>))) with (st (co s)) in Hst. split; [exact Hst|].
      bupd Hg modc_ok. binv Hg cps sB Hgg. binv Hg cps' s4 Hc. apply ret_ok in Hc. destruct Hc as [-> ->].
      binv Hg n s5 Hn. apply fresh_nonce_ok in Hn. destruct Hn as (j & r & Htb & ->). clear Hg.
      destruct (gen_child_nego_req_ok _ _ _ _ Hgg) as [(Hdh & -> & _)|(t & rest & h & pub & r1 & Hdh & Ht1 & -> & _)].
      + change (tape (s <| tape := r0 |> <| co := (co (s <| tape := r0 |>)) <| creating := Some ch |> |>)) with r0 in Htb.
        subst r0. rewrite get_transforms_spi in Hdh.
        assert (Hke : ke_step p [] [] None) by (unfold ke_step; change (pt_prop p) with (c_prop ch); rewrite Hdh; auto).
        rewrite (process_acquire_established tsi tsr index s p inb [] [] None j n r Hst Hp Hke Ht0) in H0.
        injection H0 as H1 H2. exists [], [], None, j, n, r. subst rq0. auto.
      + change (tape (s <| tape := r0 |> <| co := (co (s <| tape := r0 |>)) <| creating := Some ch |> |>)) with r0 in Ht1.
        subst r0. cbn [tape] in Htb. change (tape (_ <| tape := r1 |>)) with r1 in Htb. subst r1.
        rewrite get_transforms_spi in Hdh.
        assert (Hke : ke_step p [D_dh (tr_id t) h pub] [P_KE (tr_id t) pub] (Some (tr_id t, h))).
        { unfold ke_step. change (pt_prop p) with (c_prop ch). rewrite Hdh. exists h, pub. auto. }
        rewrite (process_acquire_established tsi tsr index s p inb _ _ _ j n r Hst Hp Hke Ht0) in H0.
        injection H0 as H1 H2. exists [D_dh (tr_id t) h pub], [P_KE (tr_id t) pub], (Some (tr_id t, h)), j, n, r.
        subst rq0. auto.
  Qed.

  (** ** what an ACQUIRE never touches, whatever the state, the index and the tape *)
  Definition ob_acq (s : isa) :=
    (cfg (co s), my_addr (co s), peer_addr (co s), c_init (co s), my_spi_b (co s), peer_spi_b (co s), children (co s),
     kr (co s), cprop (co s), kops s, new_sa s, rek_push s, now s).
  Lemma ob_acq_eq a b :
    ob_acq a = ob_acq b ->
    cfg (co a) = cfg (co b) /\ my_addr (co a) = my_addr (co b) /\ peer_addr (co a) = peer_addr (co b) /\
    c_init (co a) = c_init (co b) /\ my_spi_b (co a) = my_spi_b (co b) /\ peer_spi_b (co a) = peer_spi_b (co b) /\
    children (co a) = children (co b) /\ kr (co a) = kr (co b) /\ cprop (co a) = cprop (co b) /\ kops a = kops b /\
    new_sa a = new_sa b /\ rek_push a = rek_push b /\ now a = now b.
  Proof. unfold ob_acq. intros H. inversion H. repeat split; assumption. Qed.
  Lemma process_acquire_keeps a b i : keeps ob_acq (process_acquire a b i).
  Proof.
    unfold process_acquire, generate_ike_sa_init_request, generate_create_child_sa_request, gen_child_nego_req,
      gen_ike_nego_request. keeps_go.
  Qed.

  (** ** h_trigger (the handler as the shell calls it: flags cleared first; a raise / a tape mismatch yield no request) *)
  Lemma h_trigger_established tsi tsr index s p inb kd ke dhv j n r :
    st (co s) = ST_ESTABLISHED -> entry_of index (cfg (co s)) = Some p -> ke_step p kd ke dhv ->
    tape s = D_bytes inb :: kd ++ D_num j :: D_bytes n :: r ->
    h_trigger s (E_acquire tsi tsr index)
    = (established_after (clear_flags s) (acquire_child inb tsi tsr p) (ccsa_request inb tsi tsr p ke n) dhv r,
       Some (EX_CREATE_CHILD_SA, ([], acquire_payloads inb tsi tsr p ke ++ [P_NONCE n]))).
  Proof.
    intros Hst Hp Hke Ht. unfold h_trigger.
    rewrite (process_acquire_established tsi tsr index (clear_flags s) p inb kd ke dhv j n r Hst Hp Hke Ht). reflexivity.
  Qed.
  Lemma h_trigger_initial tsi tsr index s p inb j n t h pub r :
    st (co s) = ST_INITIAL -> entry_of index (cfg (co s)) = Some p ->
    hd_error (get_transforms (cf_prop (cfg (co s))) T_DH) = Some t ->
    tape s = D_bytes inb :: D_num j :: D_bytes n :: D_dh (tr_id t) h pub :: r ->
    h_trigger s (E_acquire tsi tsr index)
    = (initial_after (clear_flags s) (acquire_child inb tsi tsr p) (init_request (co s) n t pub) t h r,
       Some (EX_IKE_SA_INIT, (snd (init_request (co s) n t pub), []))).
  Proof.
    intros Hst Hp Hd Ht. unfold h_trigger.
    rewrite (process_acquire_initial tsi tsr index (clear_flags s) p inb j n t h pub r Hst Hp Hd Ht). reflexivity.
  Qed.
  Lemma h_trigger_some_inv tsi tsr index s s' x b :
    h_trigger s (E_acquire tsi tsr index) = (s', Some (x, b)) ->
    exists ps, process_acquire tsi tsr index (clear_flags s) = (Ok (Some (x, ps)), s') /\ b = body_of x ps.
  Proof.
    unfold h_trigger. destruct (process_acquire tsi tsr index (clear_flags s)) as [[[[x0 ps]|]|e|] s1]; intros H;
      try discriminate H.
    injection H as <- <- <-. exists ps. auto.
  Qed.
  Lemma h_trigger_keeps tsi tsr index s :
    ob_acq (fst (h_trigger s (E_acquire tsi tsr index))) = ob_acq s.
  Proof.
    unfold h_trigger. pose proof (process_acquire_keeps tsi tsr index (clear_flags s)) as Hk.
    destruct (process_acquire tsi tsr index (clear_flags s)) as [[[[x0 ps]|]|e|] s1]; cbn [fst snd] in *;
      exact Hk.
  Qed.
End Handler.

(* ------------------------------------------------------------------------------------------------ *)
(** * A'. The shell's process_trigger on an ACQUIRE *)
Section ShellAcq.
  Variable E : env.
  Notation P := (hdl_iface E).
  Notation sa := (Shell.sa P).

  Lemma must_queue_false z : acquire_must_queue z = false <-> z = ST_INITIAL \/ z = ST_ESTABLISHED.
  Proof.
    unfold acquire_must_queue. rewrite negb_false_iff, orb_true_iff, !Z.eqb_eq. tauto.
  Qed.

  (** _send_request on a request the trigger produced *)
  Definition sent_request (s : sa) (i' : isa) (now : Z) (x : Z) (b : body) : sa * option (dgram body) :=
    let d := mk_dgram (stamp_request P (with_inner P s i') x) b in
    (mk_sa P i' (is_init P s) (my_spi P s) (my_id P s) (peer_id P s) (last_resp P s) (Some d)
           (now + RETRANSMISSION_DELAY) 1 (dpd_at P s) (rek_at P s) (del_at P s) (dpd_cfg P s) (pending P s), Some d).

  Lemma process_trigger_acquire_eq (s : sa) now tsi tsr index :
    process_trigger P s now (E_acquire tsi tsr index) =
    if acquire_must_queue (state P s) then (set_pending P s (pending P s ++ [E_acquire tsi tsr index]), None)
    else match h_trigger (inner P s) (E_acquire tsi tsr index) with
         | (i', None) => (with_inner P s i', None)
         | (i', Some (x, b)) => sent_request s i' now x b
         end.
  Proof.
    unfold process_trigger. cbn [ev_is_acquire hdl_iface]. destruct (acquire_must_queue (state P s)); [reflexivity|].
    change (handle_trigger P (inner P s) (E_acquire tsi tsr index)) with (h_trigger (inner P s) (E_acquire tsi tsr index)).
    destruct (h_trigger (inner P s) (E_acquire tsi tsr index)) as [i' [[x b]|]]; reflexivity.
  Qed.

  (** busy: the ACQUIRE is queued, nothing else *)
  Theorem trigger_queued (s : sa) now tsi tsr index :
    acquire_must_queue (state P s) = true ->
    process_trigger P s now (E_acquire tsi tsr index)
    = (set_pending P s (pending P s ++ [E_acquire tsi tsr index]), None).
  Proof. intros H. rewrite process_trigger_acquire_eq, H. reflexivity. Qed.

  (** unknown index: in a busy state it is queued like any other; otherwise nothing at all happens (the shell has
      cleared the "message id was reset" flag before the call) *)
  Theorem trigger_unknown_index (s : sa) now tsi tsr index :
    entry_of index (cfg (co (inner P s))) = None ->
    process_trigger P s now (E_acquire tsi tsr index)
    = if acquire_must_queue (state P s) then (set_pending P s (pending P s ++ [E_acquire tsi tsr index]), None)
      else (with_inner P s (clear_flags (inner P s)), None).
  Proof.
    intros H. rewrite process_trigger_acquire_eq. destruct (acquire_must_queue (state P s)); [reflexivity|].
    rewrite (h_trigger_unknown tsi tsr index (inner P s) H). reflexivity.
  Qed.

  (** ESTABLISHED, known index, a tape that fits: CREATE_CHILD_SA request sent *)
  Theorem trigger_established (s : sa) now tsi tsr index p inb kd ke dhv j n r :
    state P s = ST_ESTABLISHED -> entry_of index (cfg (co (inner P s))) = Some p -> ke_step p kd ke dhv ->
    tape (inner P s) = D_bytes inb :: kd ++ D_num j :: D_bytes n :: r ->
    process_trigger P s now (E_acquire tsi tsr index)
    = sent_request s (established_after (clear_flags (inner P s)) (acquire_child inb tsi tsr p)
                                        (ccsa_request inb tsi tsr p ke n) dhv r)
                   now EX_CREATE_CHILD_SA ([], acquire_payloads inb tsi tsr p ke ++ [P_NONCE n]).
  Proof.
    intros Hst Hp Hke Ht. rewrite process_trigger_acquire_eq, Hst.
    change (acquire_must_queue ST_ESTABLISHED) with false. cbv iota.
    rewrite (h_trigger_established tsi tsr index (inner P s) p inb kd ke dhv j n r Hst Hp Hke Ht). reflexivity.
  Qed.

  (** INITIAL, known index, a tape that fits: IKE_SA_INIT request sent *)
  Theorem trigger_initial (s : sa) now tsi tsr index p inb j n t h pub r :
    state P s = ST_INITIAL -> entry_of index (cfg (co (inner P s))) = Some p ->
    hd_error (get_transforms (cf_prop (cfg (co (inner P s)))) T_DH) = Some t ->
    tape (inner P s) = D_bytes inb :: D_num j :: D_bytes n :: D_dh (tr_id t) h pub :: r ->
    process_trigger P s now (E_acquire tsi tsr index)
    = sent_request s (initial_after (clear_flags (inner P s)) (acquire_child inb tsi tsr p)
                                    (init_request (co (inner P s)) n t pub) t h r)
                   now EX_IKE_SA_INIT (snd (init_request (co (inner P s)) n t pub), []).
  Proof.
    intros Hst Hp Hd Ht. rewrite process_trigger_acquire_eq, Hst.
    change (acquire_must_queue ST_INITIAL) with false. cbv iota.
    rewrite (h_trigger_initial tsi tsr index (inner P s) p inb j n t h pub r Hst Hp Hd Ht). reflexivity.
  Qed.

  (** what no ACQUIRE touches, whatever the state, the index and the tape: configuration, addresses, SPIs, keys, the
      CHILD_SAs, the kernel (no operation is issued), the successor, and the shell's identifiers and timers *)
  Theorem trigger_acquire_frame (s : sa) now tsi tsr index :
    let s2 := fst (process_trigger P s now (E_acquire tsi tsr index)) in
    ob_acq (inner P s2) = ob_acq (inner P s) /\
    is_init P s2 = is_init P s /\ my_spi P s2 = my_spi P s /\ my_id P s2 = my_id P s /\ peer_id P s2 = peer_id P s /\
    last_resp P s2 = last_resp P s /\ dpd_at P s2 = dpd_at P s /\ rek_at P s2 = rek_at P s /\ del_at P s2 = del_at P s /\
    dpd_cfg P s2 = dpd_cfg P s.
  Proof.
    cbv zeta. rewrite process_trigger_acquire_eq. destruct (acquire_must_queue (state P s)).
    { cbn. repeat split; reflexivity. }
    pose proof (h_trigger_keeps tsi tsr index (inner P s)) as Hk.
    destruct (h_trigger (inner P s) (E_acquire tsi tsr index)) as [i' [[x b]|]]; cbn [fst] in Hk; cbn;
      repeat split; try reflexivity; exact Hk.
  Qed.

  (** when no request comes out, the retransmission data stay as they were too *)
  Theorem trigger_acquire_none (s : sa) now tsi tsr index s2 :
    process_trigger P s now (E_acquire tsi tsr index) = (s2, None) ->
    req_data P s2 = req_data P s /\ rt_at P s2 = rt_at P s /\ rt_n P s2 = rt_n P s /\
    (pending P s2 = pending P s \/
     acquire_must_queue (state P s) = true /\ pending P s2 = pending P s ++ [E_acquire tsi tsr index] /\
     inner P s2 = inner P s).
  Proof.
    rewrite process_trigger_acquire_eq. destruct (acquire_must_queue (state P s)).
    { intros H. injection H as <-. cbn. repeat split; try reflexivity. right. auto. }
    destruct (h_trigger (inner P s) (E_acquire tsi tsr index)) as [i' [[x b]|]]; intros H; [discriminate H|].
    injection H as <-. cbn. repeat split; try reflexivity. left. reflexivity.
  Qed.

  (** the converse of the two "request sent" theorems: whatever datagram an ACQUIRE makes an IkeSa send is one of the
      two, built from the FIRST protect entry with the ACQUIRE's index *)
  Theorem trigger_request_shape (s : sa) now tsi tsr index s2 d :
    process_trigger P s now (E_acquire tsi tsr index) = (s2, Some d) ->
    exists p inb,
      entry_of index (cfg (co (inner P s))) = Some p /\
      creating (co (inner P s2)) = Some (acquire_child inb tsi tsr p) /\
      pending P s2 = pending P s /\ req_data P s2 = Some d /\ rt_at P s2 = now + RETRANSMISSION_DELAY /\ rt_n P s2 = 1 /\
      ((state P s = ST_ESTABLISHED /\ state P s2 = ST_NEW_CHILD_REQ_SENT /\
        exists kd ke dhv j n r,
          ke_step p kd ke dhv /\ tape (inner P s) = D_bytes inb :: kd ++ D_num j :: D_bytes n :: r /\
          tape (inner P s2) = r /\
          request (co (inner P s2)) = Some (ccsa_request inb tsi tsr p ke n) /\
          d = mk_dgram (stamp_request P s EX_CREATE_CHILD_SA) ([], acquire_payloads inb tsi tsr p ke ++ [P_NONCE n]))
       \/
       (state P s = ST_INITIAL /\ state P s2 = ST_INIT_REQ_SENT /\
        exists j n t h pub r,
          hd_error (get_transforms (cf_prop (cfg (co (inner P s)))) T_DH) = Some t /\
          tape (inner P s) = D_bytes inb :: D_num j :: D_bytes n :: D_dh (tr_id t) h pub :: r /\
          tape (inner P s2) = r /\
          request (co (inner P s2)) = Some (init_request (co (inner P s)) n t pub) /\
          d = mk_dgram (stamp_request P s EX_IKE_SA_INIT) (snd (init_request (co (inner P s)) n t pub), []))).
  Proof.
    rewrite process_trigger_acquire_eq. destruct (acquire_must_queue (state P s)); [discriminate|].
    destruct (h_trigger (inner P s) (E_acquire tsi tsr index)) as [i' [[x b]|]] eqn:Eh; [|discriminate].
    destruct (h_trigger_some_inv _ _ _ _ _ _ _ Eh) as (ps & Hpa & ->).
    destruct (process_acquire_some_inv _ _ _ _ _ _ Hpa) as (p & inb & Hp & Hcase).
    change (cfg (co (clear_flags (inner P s)))) with (cfg (co (inner P s))) in Hp.
    intros H. exists p, inb. split; [exact Hp|].
    destruct Hcase as [(Hst & kd & ke & dhv & j & n & r & Hke & Ht & Hrq & ->)|(Hst & j & n & t & h & pub & r & Hd & Ht & Hrq & ->)];
      injection Hrq as -> ->; unfold sent_request in H; injection H as <- <-.
    - split; [reflexivity|]. do 4 (split; [reflexivity|]). left.
      split; [exact Hst|]. split; [reflexivity|]. exists kd, ke, dhv, j, n, r. repeat split; try assumption; reflexivity.
    - split; [reflexivity|]. do 4 (split; [reflexivity|]). right.
      split; [exact Hst|]. split; [reflexivity|]. exists j, n, t, h, pub, r. repeat split; try assumption; reflexivity.
  Qed.
End ShellAcq.

Lemma acquire_usable_def z :
  acquire_usable z = negb (Z.eqb z ST_REKEYED || Z.eqb z ST_DEL_AFTER_REKEY_IKE_SA_REQ_SENT
                           || Z.eqb z ST_DEL_IKE_SA_REQ_SENT || Z.eqb z ST_DELETED).
Proof. reflexivity. Qed.
Lemma acquire_usable_false z :
  acquire_usable z = false <->
  z = ST_REKEYED \/ z = ST_DEL_AFTER_REKEY_IKE_SA_REQ_SENT \/ z = ST_DEL_IKE_SA_REQ_SENT \/ z = ST_DELETED.
Proof. unfold acquire_usable. rewrite negb_false_iff, !orb_true_iff, !Z.eqb_eq. tauto. Qed.

(* ------------------------------------------------------------------------------------------------ *)
(** * B. The controller *)
Section Ctl.
  Variable E : env.
  Notation P := (hdl_iface E).
  Notation esa := (Endpoint.esa E).
  Notation endpoint := (Endpoint.endpoint E).

  (** "this table entry belongs to the connection (my, peer)" *)
  Definition of_connection (my peer : Z) (s : esa) : Prop :=
    my_addr (co (inner P s)) = my /\ peer_addr (co (inner P s)) = peer.
  (** "this IkeSa may be handed an ACQUIRE": it is not on its way out (REKEYED, DEL_AFTER_REKEY_IKE_SA_REQ_SENT,
      DEL_IKE_SA_REQ_SENT, DELETED) - fix of finding F22 *)
  Definition usable (s : esa) : Prop := acquire_usable (state P s) = true.
  (** "this table entry serves the connection (my, peer)": it belongs to it and is usable *)
  Definition serves (my peer : Z) (s : esa) : Prop := of_connection my peer s /\ usable s.
  Definition conn_test (my peer : Z) (x : nat * esa) : bool :=
    Z.eqb (my_addr (co (inner P (snd x)))) my && Z.eqb (peer_addr (co (inner P (snd x)))) peer
    && acquire_usable (state P (snd x)).
  Lemma conn_test_true my peer x : conn_test my peer x = true <-> serves my peer (snd x).
  Proof. unfold conn_test, serves, of_connection, usable. rewrite !andb_true_iff, !Z.eqb_eq. tauto. Qed.
  Lemma conn_test_false my peer x : conn_test my peer x = false <-> ~ serves my peer (snd x).
  Proof. rewrite <- conn_test_true. destruct (conn_test my peer x); split; intros; try discriminate; tauto. Qed.
  Lemma not_serves my peer (s : esa) :
    ~ serves my peer s <-> ~ of_connection my peer s \/ acquire_usable (state P s) = false.
  Proof.
    unfold serves, usable. destruct (acquire_usable (state P s)); split.
    - intros H. left. intros Hc. apply H. auto.
    - intros [H|H] [Hc _]; [exact (H Hc)|discriminate H].
    - intros _. right. reflexivity.
    - intros _ [_ H]. discriminate H.
  Qed.

  Lemma find_none_of {A} (f : A -> bool) l : (forall x, In x l -> f x = false) -> find f l = None.
  Proof.
    induction l as [|a r IH]; cbn; intros H; [reflexivity|]. rewrite (H a (or_introl eq_refl)). apply IH.
    intros x Hx. apply H. right. exact Hx.
  Qed.
  Lemma find_conn_none ep my peer :
    (forall c x, In (c, x) (table E ep) -> ~ serves my peer x) -> find (conn_test my peer) (table E ep) = None.
  Proof. intros H. apply find_none_of. intros [c x] Hx. apply conn_test_false. exact (H c x Hx). Qed.
  Lemma find_conn_some ep my peer :
    (exists c x, In (c, x) (table E ep) /\ serves my peer x) ->
    exists t1 cid s t2,
      find (conn_test my peer) (table E ep) = Some (cid, s) /\ table E ep = t1 ++ (cid, s) :: t2 /\
      serves my peer s /\ forall c x, In (c, x) t1 -> ~ serves my peer x.
  Proof.
    intros (c & x & Hin & Hx).
    destruct (find (conn_test my peer) (table E ep)) as [[cid s]|] eqn:Ef.
    - destruct (find_first _ _ _ Ef) as (t1 & t2 & Ht & Hs & Hl). exists t1, cid, s, t2.
      split; [reflexivity|]. split; [exact Ht|]. split; [apply (conn_test_true my peer (cid, s)); exact Hs|].
      intros c0 x0 H0. apply (conn_test_false my peer (c0, x0)). apply Hl. exact H0.
    - exfalso. pose proof (find_none _ _ Ef (c, x) Hin) as Hf. apply conn_test_false in Hf. exact (Hf Hx).
  Qed.

  Definition optlist {A} (o : option A) : list A := match o with Some x => [x] | None => [] end.
  Lemma send_sent (ep : endpoint) d : ep_sent E (send E ep d) = ep_sent E ep ++ optlist d.
  Proof. destruct d; cbn; [reflexivity|symmetry; apply app_nil_r]. Qed.
  Lemma send_tape (ep : endpoint) d : ep_tape E (send E ep d) = ep_tape E ep.
  Proof. destruct d; reflexivity. Qed.
  Lemma leave_more (ep : endpoint) (s : esa) :
    ep_sent E (fst (leave E ep s)) = ep_sent E ep /\ ep_tape E (fst (leave E ep s)) = tape (inner P s)
    /\ ep_routed E (fst (leave E ep s)) = ep_routed E ep /\ ep_status E (fst (leave E ep s)) = ep_status E ep.
  Proof. unfold leave. destruct (rek_push (inner P s)); cbn; auto. Qed.
  (** the handler-owned part as the controller stores it between two calls *)
  Definition stored (ep : endpoint) (i : isa) : isa := mk_isa (co i) (new_sa i) None (ep_now E ep) [] [].
  Lemma leave_snd (ep : endpoint) (s : esa) :
    rek_push (inner P s) = None -> snd (leave E ep s) = with_inner P s ((stored ep (inner P s)) <| now := now (inner P s) |>).
  Proof. unfold leave. intros ->. destruct s as [i a b c d e f g h k l m n o]. destruct i. reflexivity. Qed.

  (** ** 1. no IkeSa and no configuration for the connection: nothing happens *)
  Theorem acquire_unknown_peer (ep : endpoint) my peer tsi tsr index :
    (forall c x, In (c, x) (table E ep) -> ~ serves my peer x) -> find_conf E ep my peer = None ->
    acquire E ep my peer tsi tsr index = ep.
  Proof.
    intros H1 H2. rewrite acquire_eq.
    match goal with |- context [find ?f ?l] =>
      assert (Hx : find f l = None) by exact (find_conn_none ep my peer H1); rewrite Hx end.
    rewrite H2. reflexivity.
  Qed.

  (** ** 2. an IkeSa of the connection exists: the FIRST one processes the trigger *)
  Theorem acquire_reuses_first (ep : endpoint) my peer tsi tsr index :
    (exists c x, In (c, x) (table E ep) /\ serves my peer x) ->
    exists t1 cid s t2,
      table E ep = t1 ++ (cid, s) :: t2 /\ serves my peer s /\
      (forall c x, In (c, x) t1 -> ~ serves my peer x) /\
      let r := process_trigger P (enter E ep s) (ep_now E ep) (E_acquire tsi tsr index) in
      table E (acquire E ep my peer tsi tsr index) = replace E (table E ep) cid (snd (leave E ep (fst r))) /\
      (~ In cid (map fst t1) ->
       table E (acquire E ep my peer tsi tsr index) = t1 ++ (cid, snd (leave E ep (fst r))) :: t2) /\
      next_cid E (acquire E ep my peer tsi tsr index) = next_cid E ep /\
      confs E (acquire E ep my peer tsi tsr index) = confs E ep /\
      ep_kops E (acquire E ep my peer tsi tsr index) = ep_kops E ep /\
      ep_sent E (acquire E ep my peer tsi tsr index) = ep_sent E ep ++ optlist (snd r) /\
      ep_tape E (acquire E ep my peer tsi tsr index) = tape (inner P (fst r)).
  Proof.
    intros Hex. destruct (find_conn_some ep my peer Hex) as (t1 & cid & s & t2 & Hf & Ht & Hs & Hl).
    exists t1, cid, s, t2. split; [exact Ht|]. split; [exact Hs|]. split; [exact Hl|]. cbv zeta.
    rewrite acquire_eq.
    match goal with |- context [find ?f ?l] => assert (Hx : find f l = Some (cid, s)) by exact Hf; rewrite Hx end.
    set (r := process_trigger P (enter E ep s) (ep_now E ep) (E_acquire tsi tsr index)).
    unfold do_call. destruct (put_facts E ep cid (fst r)) as (P1 & P2 & P3 & _ & P5 & _).
    destruct (send_facts E (put E ep cid (fst r)) (snd r)) as (S1 & S2 & S3 & _ & _ & S6).
    destruct (trigger_acquire_frame E (enter E ep s) (ep_now E ep) tsi tsr index) as (Hob & _). fold r in Hob.
    assert (Hk : kops (inner P (fst r)) = []).
    { destruct (ob_acq_eq _ _ Hob) as (_ & _ & _ & _ & _ & _ & _ & _ & _ & Hk & _). exact Hk. }
    split; [exact (eq_trans S1 P2)|].
    split; [intros Hn; refine (eq_trans S1 (eq_trans P2 _)); rewrite Ht; apply replace_split; exact Hn|].
    split; [exact (eq_trans S2 P3)|]. split; [exact (eq_trans S6 P5)|].
    split; [refine (eq_trans S3 (eq_trans P1 _)); rewrite Hk; apply app_nil_r|].
    destruct (leave_more ep (fst r)) as (L1 & L2 & _).
    split; [refine (eq_trans (send_sent _ _) _); f_equal; exact L1|].
    refine (eq_trans (send_tape _ _) _). exact L2.
  Qed.

  (** ** 3. no IkeSa of the connection, a configuration for it: a new initiator *)

  (** IkeSa.__init__ as the controller calls it: os.urandom(8) and the rekey jitter are the two draws *)
  Definition fresh_core (ep : endpoint) (ii : bool) (pspi : bytes) (c : conf) (my peer : Z) (spi : bytes) (j : Z) : core :=
    mk_core ST_INITIAL ii spi pspi my peer c None None None [] None None None None None None None None
            (ep_now E ep + cf_dpd c) (ep_now E ep + cf_life c + j) (ep_now E ep + cf_life c + j + DELETE_AFTER) false.
  Definition created (ep : endpoint) (s0 : esa) (r : list draw) : endpoint :=
    set (Endpoint.table E) (fun _ => table E ep ++ [(next_cid E ep, s0)])
        (set (Endpoint.next_cid E) (fun _ => S (next_cid E ep)) (set (Endpoint.ep_tape E) (fun _ => r) ep)).

  Lemma create_some (ep : endpoint) ii pspi c my peer spi j r :
    ep_tape E ep = D_bytes spi :: D_num j :: r ->
    create E ep ii pspi c my peer
    = Some (created ep (sa_of_core E (fresh_core ep ii pspi c my peer spi j)) r, next_cid E ep,
            sa_of_core E (fresh_core ep ii pspi c my peer spi j)).
  Proof.
    intros Ht. unfold create, new_core, bind, draw_bytes, draw_num, pop, get, ret. cbn [tape]. rewrite Ht. reflexivity.
  Qed.
  Lemma create_inv (ep : endpoint) ii pspi c my peer ep0 cid s0 :
    create E ep ii pspi c my peer = Some (ep0, cid, s0) -> exists spi j r, ep_tape E ep = D_bytes spi :: D_num j :: r.
  Proof.
    unfold create, new_core, bind, draw_bytes, draw_num, pop, get, ret. cbn [tape].
    destruct (ep_tape E ep) as [|[b|z|g h pub|g|v] [|[b'|z'|g' h' pub'|g'|v'] r]]; cbn; try discriminate.
    intros _. exists b, z', r. reflexivity.
  Qed.
  Lemma create_none (ep : endpoint) ii pspi c my peer :
    create E ep ii pspi c my peer = None <-> forall spi j r, ep_tape E ep <> D_bytes spi :: D_num j :: r.
  Proof.
    split.
    - intros H spi j r Ht. rewrite (create_some ep ii pspi c my peer spi j r Ht) in H. discriminate H.
    - intros H. destruct (create E ep ii pspi c my peer) as [[[ep0 cid] s0]|] eqn:Ec; [|reflexivity].
      destruct (create_inv _ _ _ _ _ _ _ _ _ Ec) as (spi & j & r & Ht). exfalso. exact (H spi j r Ht).
  Qed.

  (** what the new IkeSa is *)
  Lemma fresh_initiator_facts (ep : endpoint) c my peer spi j :
    let s0 := sa_of_core E (fresh_core ep true (repeat 0%N 8) c my peer spi j) in
    is_init P s0 = true /\ cfg (co (inner P s0)) = c /\ of_connection my peer s0 /\ usable s0 /\ state P s0 = ST_INITIAL /\
    my_spi P s0 = spiZ spi /\ my_spi_b (co (inner P s0)) = spi /\ peer_spi_b (co (inner P s0)) = repeat 0%N 8 /\
    my_id P s0 = 0 /\ peer_id P s0 = 0 /\ pending P s0 = [] /\ children (co (inner P s0)) = [] /\
    kr (co (inner P s0)) = None /\ new_sa (inner P s0) = None /\ req_data P s0 = None /\ last_resp P s0 = None.
  Proof. cbv zeta. unfold of_connection, usable. cbn. repeat split; reflexivity. Qed.

  Theorem acquire_creates_initiator (ep : endpoint) my peer tsi tsr index c :
    (forall c x, In (c, x) (table E ep) -> ~ serves my peer x) -> find_conf E ep my peer = Some c ->
    ((forall spi j r, ep_tape E ep <> D_bytes spi :: D_num j :: r) /\ acquire E ep my peer tsi tsr index = ep)
    \/
    exists spi j r,
      ep_tape E ep = D_bytes spi :: D_num j :: r /\
      let s0 := sa_of_core E (fresh_core ep true (repeat 0%N 8) c my peer spi j) in
      let ep0 := created ep s0 r in
      let rr := process_trigger P (enter E ep0 s0) (ep_now E ep) (E_acquire tsi tsr index) in
      create E ep true (repeat 0%N 8) c my peer = Some (ep0, next_cid E ep, s0) /\
      ((forall x, In x (map fst (table E ep)) -> (x < next_cid E ep)%nat) ->
       table E (acquire E ep my peer tsi tsr index)
       = (if acquire_drop_unstarted (state P (fst rr)) then table E ep
          else table E ep ++ [(next_cid E ep, snd (leave E ep0 (fst rr)))])) /\
      next_cid E (acquire E ep my peer tsi tsr index) = S (next_cid E ep) /\
      confs E (acquire E ep my peer tsi tsr index) = confs E ep /\
      ep_kops E (acquire E ep my peer tsi tsr index) = ep_kops E ep /\
      ep_sent E (acquire E ep my peer tsi tsr index) = ep_sent E ep ++ optlist (snd rr) /\
      ep_tape E (acquire E ep my peer tsi tsr index) = tape (inner P (fst rr)).
  Proof.
    intros H1 H2. rewrite acquire_eq.
    match goal with |- context [find ?f ?l] =>
      assert (Hx : find f l = None) by exact (find_conn_none ep my peer H1); rewrite Hx end.
    rewrite H2.
    assert (Hc : (forall spi j r, ep_tape E ep <> D_bytes spi :: D_num j :: r)
                 \/ exists spi j r, ep_tape E ep = D_bytes spi :: D_num j :: r).
    { destruct (create E ep true (repeat 0%N 8) c my peer) as [[[ep0 cid] s0]|] eqn:Ec.
      - right. exact (create_inv _ _ _ _ _ _ _ _ _ Ec).
      - left. apply (create_none ep true (repeat 0%N 8) c my peer). exact Ec. }
    destruct Hc as [Hn|(spi & j & r & Ht)].
    { left. split; [exact Hn|]. apply (create_none ep true (repeat 0%N 8) c my peer) in Hn. rewrite Hn. reflexivity. }
    right. exists spi, j, r. split; [exact Ht|].
    rewrite (create_some ep true (repeat 0%N 8) c my peer spi j r Ht).
    cbv zeta. split; [reflexivity|].
    set (s0 := sa_of_core E (fresh_core ep true (repeat 0%N 8) c my peer spi j)).
    set (ep0 := created ep s0 r).
    unfold acquire_fresh. cbv zeta. change (ep_now E ep0) with (ep_now E ep).
    set (rr := process_trigger P (enter E ep0 s0) (ep_now E ep) (E_acquire tsi tsr index)).
    destruct (trigger_acquire_frame E (enter E ep0 s0) (ep_now E ep) tsi tsr index) as (Hob & _). fold rr in Hob.
    assert (Hk : kops (inner P (fst rr)) = []).
    { destruct (ob_acq_eq _ _ Hob) as (_ & _ & _ & _ & _ & _ & _ & _ & _ & Hk & _). exact Hk. }
    destruct (leave_facts E ep0 (fst rr)) as ([L0 _] & L2 & L3 & L4 & _ & L6 & _).
    destruct (leave_more ep0 (fst rr)) as (M1 & M2 & _).
    assert (Hst3 : state P (snd (leave E ep0 (fst rr))) = state P (fst rr)).
    { change (st (co (inner P (snd (leave E ep0 (fst rr))))) = st (co (inner P (fst rr)))). rewrite L0. reflexivity. }
    rewrite Hst3.
    assert (Hnin : (forall x, In x (map fst (table E ep)) -> (x < next_cid E ep)%nat) ->
                   ~ In (next_cid E ep) (map fst (table E ep))).
    { intros Hlt Hin. apply Hlt in Hin. exact (Nat.lt_irrefl _ Hin). }
    destruct (acquire_drop_unstarted (state P (fst rr))).
    - set (ep2 := fst (leave E ep0 (fst rr))) in *.
      destruct (send_facts E (with_table E ep2 (remove_cid E (table E ep2) (next_cid E ep))) (snd rr))
        as (S1 & S2 & S3 & _ & _ & S6).
      split; [intros Hlt; refine (eq_trans S1 _); change (remove_cid E (table E ep2) (next_cid E ep) = table E ep);
              rewrite L3; apply remove_fresh; exact (Hnin Hlt)|].
      split; [refine (eq_trans S2 _); exact L4|]. split; [refine (eq_trans S6 _); exact L6|].
      split; [refine (eq_trans S3 _); refine (eq_trans L2 _); rewrite Hk; apply app_nil_r|].
      split; [refine (eq_trans (send_sent _ _) _); f_equal; exact M1|].
      refine (eq_trans (send_tape _ _) _). exact M2.
    - unfold do_call. destruct (put_facts E ep0 (next_cid E ep) (fst rr)) as (P1 & P2 & P3 & _ & P5 & _).
      destruct (send_facts E (put E ep0 (next_cid E ep) (fst rr)) (snd rr)) as (S1 & S2 & S3 & _ & _ & S6).
      split; [intros Hlt; refine (eq_trans S1 (eq_trans P2 _));
              change (table E ep0) with (table E ep ++ [(next_cid E ep, s0)]); apply replace_split; exact (Hnin Hlt)|].
      split; [exact (eq_trans S2 P3)|]. split; [exact (eq_trans S6 P5)|].
      split; [refine (eq_trans S3 (eq_trans P1 _)); rewrite Hk; apply app_nil_r|].
      split; [refine (eq_trans (send_sent _ _) _); f_equal; exact M1|].
      refine (eq_trans (send_tape _ _) _). exact M2.
  Qed.

  (** ** the three outcomes on an existing IkeSa of the connection, and the two on a new one *)
  Definition first_of_connection (ep : endpoint) (my peer : Z) (cid : nat) (s : esa) (t1 t2 : list (nat * esa)) : Prop :=
    table E ep = t1 ++ (cid, s) :: t2 /\ serves my peer s /\ forall c x, In (c, x) t1 -> ~ serves my peer x.
  Lemma find_conn_first ep my peer cid s t1 t2 :
    first_of_connection ep my peer cid s t1 t2 -> find (conn_test my peer) (table E ep) = Some (cid, s).
  Proof.
    intros (-> & Hs & Hl). induction t1 as [|[c0 x0] r IH]; cbn [app find].
    - apply (conn_test_true my peer (cid, s)) in Hs. rewrite Hs. reflexivity.
    - assert (Hf : conn_test my peer (c0, x0) = false) by (apply conn_test_false; apply (Hl c0 x0); left; reflexivity).
      rewrite Hf. apply IH. intros c x Hx. apply (Hl c x). right. exact Hx.
  Qed.

  Lemma acquire_existing_facts (ep : endpoint) my peer tsi tsr index cid s t1 t2 :
    first_of_connection ep my peer cid s t1 t2 ->
    let r := process_trigger P (enter E ep s) (ep_now E ep) (E_acquire tsi tsr index) in
    table E (acquire E ep my peer tsi tsr index) = replace E (table E ep) cid (snd (leave E ep (fst r))) /\
    (~ In cid (map fst t1) ->
     table E (acquire E ep my peer tsi tsr index) = t1 ++ (cid, snd (leave E ep (fst r))) :: t2) /\
    next_cid E (acquire E ep my peer tsi tsr index) = next_cid E ep /\
    confs E (acquire E ep my peer tsi tsr index) = confs E ep /\
    ep_kops E (acquire E ep my peer tsi tsr index) = ep_kops E ep /\
    ep_sent E (acquire E ep my peer tsi tsr index) = ep_sent E ep ++ optlist (snd r) /\
    ep_tape E (acquire E ep my peer tsi tsr index) = tape (inner P (fst r)).
  Proof.
    intros Hfc. pose proof (find_conn_first _ _ _ _ _ _ _ Hfc) as Hf. destruct Hfc as (Ht & Hs & Hl). cbv zeta.
    rewrite acquire_eq.
    match goal with |- context [find ?f ?l] => assert (Hx : find f l = Some (cid, s)) by exact Hf; rewrite Hx end.
    set (r := process_trigger P (enter E ep s) (ep_now E ep) (E_acquire tsi tsr index)).
    unfold do_call. destruct (put_facts E ep cid (fst r)) as (P1 & P2 & P3 & _ & P5 & _).
    destruct (send_facts E (put E ep cid (fst r)) (snd r)) as (S1 & S2 & S3 & _ & _ & S6).
    destruct (trigger_acquire_frame E (enter E ep s) (ep_now E ep) tsi tsr index) as (Hob & _). fold r in Hob.
    assert (Hk : kops (inner P (fst r)) = []).
    { destruct (ob_acq_eq _ _ Hob) as (_ & _ & _ & _ & _ & _ & _ & _ & _ & Hk & _). exact Hk. }
    split; [exact (eq_trans S1 P2)|].
    split; [intros Hn; refine (eq_trans S1 (eq_trans P2 _)); rewrite Ht; apply replace_split; exact Hn|].
    split; [exact (eq_trans S2 P3)|]. split; [exact (eq_trans S6 P5)|].
    split; [refine (eq_trans S3 (eq_trans P1 _)); rewrite Hk; apply app_nil_r|].
    destruct (leave_more ep (fst r)) as (L1 & L2 & _).
    split; [refine (eq_trans (send_sent _ _) _); f_equal; exact L1|].
    refine (eq_trans (send_tape _ _) _). exact L2.
  Qed.

  (** 5. busy: queued, nothing else *)
  Theorem acquire_queued (ep : endpoint) my peer tsi tsr index cid s t1 t2 :
    first_of_connection ep my peer cid s t1 t2 -> acquire_must_queue (state P s) = true ->
    let s' := set_pending P (with_inner P s (stored ep (inner P s))) (pending P s ++ [E_acquire tsi tsr index]) in
    table E (acquire E ep my peer tsi tsr index) = replace E (table E ep) cid s' /\
    (~ In cid (map fst t1) -> table E (acquire E ep my peer tsi tsr index) = t1 ++ (cid, s') :: t2) /\
    next_cid E (acquire E ep my peer tsi tsr index) = next_cid E ep /\
    ep_kops E (acquire E ep my peer tsi tsr index) = ep_kops E ep /\
    ep_sent E (acquire E ep my peer tsi tsr index) = ep_sent E ep /\
    ep_tape E (acquire E ep my peer tsi tsr index) = ep_tape E ep.
  Proof.
    intros Hfc Hq. destruct (acquire_existing_facts ep my peer tsi tsr index cid s t1 t2 Hfc) as (A1 & A2 & A3 & _ & A5 & A6 & A7).
    rewrite (trigger_queued E (enter E ep s) (ep_now E ep) tsi tsr index Hq) in A1, A2, A6, A7. cbv zeta.
    split; [exact A1|]. split; [exact A2|]. split; [exact A3|]. split; [exact A5|].
    split; [refine (eq_trans A6 _); apply app_nil_r|exact A7].
  Qed.

  (** 4. unknown index, IkeSa idle: nothing (the IkeSa is stored back with the flag cleared) *)
  Theorem acquire_unknown_index_existing (ep : endpoint) my peer tsi tsr index cid s t1 t2 :
    first_of_connection ep my peer cid s t1 t2 -> acquire_must_queue (state P s) = false ->
    entry_of index (cfg (co (inner P s))) = None ->
    let s' := with_inner P s (stored ep (clear_flags (inner P s))) in
    table E (acquire E ep my peer tsi tsr index) = replace E (table E ep) cid s' /\
    (~ In cid (map fst t1) -> table E (acquire E ep my peer tsi tsr index) = t1 ++ (cid, s') :: t2) /\
    next_cid E (acquire E ep my peer tsi tsr index) = next_cid E ep /\
    ep_kops E (acquire E ep my peer tsi tsr index) = ep_kops E ep /\
    ep_sent E (acquire E ep my peer tsi tsr index) = ep_sent E ep /\
    ep_tape E (acquire E ep my peer tsi tsr index) = ep_tape E ep.
  Proof.
    intros Hfc Hq Hp. destruct (acquire_existing_facts ep my peer tsi tsr index cid s t1 t2 Hfc) as (A1 & A2 & A3 & _ & A5 & A6 & A7).
    assert (Hr : process_trigger P (enter E ep s) (ep_now E ep) (E_acquire tsi tsr index)
                 = (with_inner P (enter E ep s) (clear_flags (inner P (enter E ep s))), None)).
    { rewrite (trigger_unknown_index E (enter E ep s) (ep_now E ep) tsi tsr index Hp).
      change (state P (enter E ep s)) with (state P s). rewrite Hq. reflexivity. }
    rewrite Hr in A1, A2, A6, A7. cbv zeta.
    split; [exact A1|]. split; [exact A2|]. split; [exact A3|]. split; [exact A5|].
    split; [refine (eq_trans A6 _); apply app_nil_r|exact A7].
  Qed.

  (** 4. (F21) unknown index and no IkeSa of the connection: the table, the kernel and the sockets see nothing *)
  Theorem acquire_unknown_index_no_ike_sa (ep : endpoint) my peer tsi tsr index :
    (forall c x, In (c, x) (table E ep) -> ~ serves my peer x) ->
    (forall c, find_conf E ep my peer = Some c -> entry_of index c = None) ->
    (forall x, In x (map fst (table E ep)) -> (x < next_cid E ep)%nat) ->
    table E (acquire E ep my peer tsi tsr index) = table E ep /\
    confs E (acquire E ep my peer tsi tsr index) = confs E ep /\
    ep_kops E (acquire E ep my peer tsi tsr index) = ep_kops E ep /\
    ep_sent E (acquire E ep my peer tsi tsr index) = ep_sent E ep.
  Proof.
    intros H1 H2 Hlt. destruct (find_conf E ep my peer) as [c|] eqn:Hc.
    2:{ rewrite (acquire_unknown_peer ep my peer tsi tsr index H1 Hc). auto. }
    specialize (H2 c eq_refl).
    destruct (acquire_creates_initiator ep my peer tsi tsr index c H1 Hc) as [[_ ->]|(spi & j & r & Ht & Hx)]; [auto|].
    cbv zeta in Hx. destruct Hx as (_ & B1 & _ & B3 & B4 & B5 & _). specialize (B1 Hlt).
    set (s0 := sa_of_core E (fresh_core ep true (repeat 0%N 8) c my peer spi j)) in *.
    set (ep0 := created ep s0 r) in *.
    assert (Hr : process_trigger P (enter E ep0 s0) (ep_now E ep) (E_acquire tsi tsr index)
                 = (with_inner P (enter E ep0 s0) (clear_flags (inner P (enter E ep0 s0))), None)).
    { rewrite (trigger_unknown_index E (enter E ep0 s0) (ep_now E ep) tsi tsr index H2). reflexivity. }
    rewrite Hr in B1, B5. split; [exact B1|]. split; [exact B3|]. split; [exact B4|].
    refine (eq_trans B5 _). apply app_nil_r.
  Qed.

  Lemma leave_snd_sent (ep : endpoint) (s : esa) (i' : isa) now x b :
    rek_push i' = None ->
    snd (leave E ep (fst (sent_request E s i' now x b))) =
    mk_sa P (i' <| tape := [] |> <| kops := [] |> <| rek_push := None |>) (is_init P s) (my_spi P s) (my_id P s) (peer_id P s)
          (last_resp P s) (Some (mk_dgram (stamp_request P (with_inner P s i') x) b)) (now + RETRANSMISSION_DELAY) 1
          (dpd_at P s) (rek_at P s) (del_at P s) (dpd_cfg P s) (pending P s).
  Proof. intros H. unfold sent_request, leave. cbn [fst inner]. rewrite H. reflexivity. Qed.

  (** 6. ESTABLISHED, known index: a CREATE_CHILD_SA request leaves *)
  Theorem acquire_established (ep : endpoint) my peer tsi tsr index cid s t1 t2 p inb kd ke dhv j n r :
    first_of_connection ep my peer cid s t1 t2 -> state P s = ST_ESTABLISHED ->
    entry_of index (cfg (co (inner P s))) = Some p -> ke_step p kd ke dhv ->
    ep_tape E ep = D_bytes inb :: kd ++ D_num j :: D_bytes n :: r ->
    let d := mk_dgram (stamp_request P s EX_CREATE_CHILD_SA) ([], acquire_payloads inb tsi tsr p ke ++ [P_NONCE n]) in
    let s' := mk_sa P (stored ep (established_after (clear_flags (inner P s)) (acquire_child inb tsi tsr p)
                                                    (ccsa_request inb tsi tsr p ke n) dhv []))
                    (is_init P s) (my_spi P s) (my_id P s) (peer_id P s) (last_resp P s) (Some d)
                    (ep_now E ep + RETRANSMISSION_DELAY) 1 (dpd_at P s) (rek_at P s) (del_at P s) (dpd_cfg P s)
                    (pending P s) in
    table E (acquire E ep my peer tsi tsr index) = replace E (table E ep) cid s' /\
    (~ In cid (map fst t1) -> table E (acquire E ep my peer tsi tsr index) = t1 ++ (cid, s') :: t2) /\
    next_cid E (acquire E ep my peer tsi tsr index) = next_cid E ep /\
    ep_kops E (acquire E ep my peer tsi tsr index) = ep_kops E ep /\
    ep_sent E (acquire E ep my peer tsi tsr index) = ep_sent E ep ++ [d] /\
    ep_tape E (acquire E ep my peer tsi tsr index) = r.
  Proof.
    intros Hfc Hst Hp Hke Ht.
    destruct (acquire_existing_facts ep my peer tsi tsr index cid s t1 t2 Hfc) as (A1 & A2 & A3 & _ & A5 & A6 & A7).
    rewrite (trigger_established E (enter E ep s) (ep_now E ep) tsi tsr index p inb kd ke dhv j n r Hst Hp Hke Ht)
      in A1, A2, A6, A7. cbv zeta.
    set (i' := established_after (clear_flags (inner P (enter E ep s))) (acquire_child inb tsi tsr p)
                                 (ccsa_request inb tsi tsr p ke n) dhv r) in *.
    set (b := ([], acquire_payloads inb tsi tsr p ke ++ [P_NONCE n]) : body) in *.
    assert (Hh : stamp_request P (with_inner P (enter E ep s) i') EX_CREATE_CHILD_SA = stamp_request P s EX_CREATE_CHILD_SA)
      by reflexivity.
    assert (Hi : i' <| tape := [] |> <| kops := [] |> <| rek_push := None |>
                 = stored ep (established_after (clear_flags (inner P s)) (acquire_child inb tsi tsr p)
                                                (ccsa_request inb tsi tsr p ke n) dhv [])) by reflexivity.
    pose proof (leave_snd_sent ep (enter E ep s) i' (ep_now E ep) EX_CREATE_CHILD_SA b eq_refl) as HL.
    rewrite Hh, Hi in HL. change (is_init P (enter E ep s)) with (is_init P s) in HL.
    match type of A1 with _ = replace _ _ _ ?x => assert (HX : x = _) by exact HL; rewrite HX in A1, A2 end.
    split; [exact A1|]. split; [exact A2|]. split; [exact A3|]. split; [exact A5|].
    split; [|exact A7]. refine (eq_trans A6 _). unfold sent_request. cbn [snd optlist]. rewrite Hh. reflexivity.
  Qed.

  (** 7. no IkeSa of the connection, known index: the new initiator sends its IKE_SA_INIT request and stays *)
  Lemma acquire_fresh_started (ep0 : endpoint) cid (s0 : esa) tsi tsr index p inb j n t h pub r :
    state P s0 = ST_INITIAL -> entry_of index (cfg (co (inner P s0))) = Some p ->
    hd_error (get_transforms (cf_prop (cfg (co (inner P s0)))) T_DH) = Some t ->
    ep_tape E ep0 = D_bytes inb :: D_num j :: D_bytes n :: D_dh (tr_id t) h pub :: r ->
    let rq := init_request (co (inner P s0)) n t pub in
    let d := mk_dgram (stamp_request P s0 EX_IKE_SA_INIT) (snd rq, []) in
    let s' := mk_sa P (stored ep0 (initial_after (clear_flags (inner P s0)) (acquire_child inb tsi tsr p) rq t h []))
                    (is_init P s0) (my_spi P s0) (my_id P s0) (peer_id P s0) (last_resp P s0) (Some d)
                    (ep_now E ep0 + RETRANSMISSION_DELAY) 1 (dpd_at P s0) (rek_at P s0) (del_at P s0) (dpd_cfg P s0)
                    (pending P s0) in
    table E (acquire_fresh E ep0 cid s0 tsi tsr index) = replace E (table E ep0) cid s' /\
    next_cid E (acquire_fresh E ep0 cid s0 tsi tsr index) = next_cid E ep0 /\
    ep_kops E (acquire_fresh E ep0 cid s0 tsi tsr index) = ep_kops E ep0 /\
    ep_sent E (acquire_fresh E ep0 cid s0 tsi tsr index) = ep_sent E ep0 ++ [d] /\
    ep_tape E (acquire_fresh E ep0 cid s0 tsi tsr index) = r.
  Proof.
    intros Hst Hp Hd Ht. cbv zeta. unfold acquire_fresh. cbv zeta.
    rewrite (trigger_initial E (enter E ep0 s0) (ep_now E ep0) tsi tsr index p inb j n t h pub r Hst Hp Hd Ht).
    set (i' := initial_after (clear_flags (inner P (enter E ep0 s0))) (acquire_child inb tsi tsr p)
                             (init_request (co (inner P (enter E ep0 s0))) n t pub) t h r).
    set (b := (snd (init_request (co (inner P (enter E ep0 s0))) n t pub), []) : body).
    assert (Hh : stamp_request P (with_inner P (enter E ep0 s0) i') EX_IKE_SA_INIT = stamp_request P s0 EX_IKE_SA_INIT)
      by reflexivity.
    assert (Hi : i' <| tape := [] |> <| kops := [] |> <| rek_push := None |>
                 = stored ep0 (initial_after (clear_flags (inner P s0)) (acquire_child inb tsi tsr p)
                                             (init_request (co (inner P s0)) n t pub) t h [])) by reflexivity.
    pose proof (leave_snd_sent ep0 (enter E ep0 s0) i' (ep_now E ep0) EX_IKE_SA_INIT b eq_refl) as HL.
    rewrite Hh, Hi in HL. change (is_init P (enter E ep0 s0)) with (is_init P s0) in HL.
    set (rr := sent_request E (enter E ep0 s0) i' (ep_now E ep0) EX_IKE_SA_INIT b) in *.
    match goal with |- context [acquire_drop_unstarted ?x] => assert (Hdrop : acquire_drop_unstarted x = false) end.
    { destruct (leave_facts E ep0 (fst rr)) as ([L0 _] & _).
      change (acquire_drop_unstarted (st (co (inner P (snd (leave E ep0 (fst rr)))))) = false). rewrite L0. reflexivity. }
    rewrite Hdrop. unfold do_call.
    destruct (put_facts E ep0 cid (fst rr)) as (P1 & P2 & P3 & _).
    destruct (send_facts E (put E ep0 cid (fst rr)) (snd rr)) as (S1 & S2 & S3 & _).
    destruct (leave_more ep0 (fst rr)) as (M1 & M2 & _).
    split; [refine (eq_trans S1 (eq_trans P2 _)); rewrite HL; reflexivity|].
    split; [exact (eq_trans S2 P3)|].
    split; [refine (eq_trans S3 (eq_trans P1 _)); apply app_nil_r|].
    split; [refine (eq_trans (send_sent _ _) _); unfold rr, sent_request; cbn [snd optlist]; rewrite Hh; f_equal; exact M1|].
    refine (eq_trans (send_tape _ _) _). exact M2.
  Qed.

  Theorem acquire_starts_ike_sa_init (ep : endpoint) my peer tsi tsr index c p spi j0 inb j n t h pub r :
    (forall c x, In (c, x) (table E ep) -> ~ serves my peer x) -> find_conf E ep my peer = Some c ->
    (forall x, In x (map fst (table E ep)) -> (x < next_cid E ep)%nat) ->
    entry_of index c = Some p -> hd_error (get_transforms (cf_prop c) T_DH) = Some t ->
    ep_tape E ep = D_bytes spi :: D_num j0 :: D_bytes inb :: D_num j :: D_bytes n :: D_dh (tr_id t) h pub :: r ->
    let s0 := sa_of_core E (fresh_core ep true (repeat 0%N 8) c my peer spi j0) in
    let rq := init_request (co (inner P s0)) n t pub in
    let d := mk_dgram (stamp_request P s0 EX_IKE_SA_INIT) (snd rq, []) in
    let s' := mk_sa P (stored ep (initial_after (clear_flags (inner P s0)) (acquire_child inb tsi tsr p) rq t h []))
                    (is_init P s0) (my_spi P s0) (my_id P s0) (peer_id P s0) (last_resp P s0) (Some d)
                    (ep_now E ep + RETRANSMISSION_DELAY) 1 (dpd_at P s0) (rek_at P s0) (del_at P s0) (dpd_cfg P s0)
                    (pending P s0) in
    table E (acquire E ep my peer tsi tsr index) = table E ep ++ [(next_cid E ep, s')] /\
    next_cid E (acquire E ep my peer tsi tsr index) = S (next_cid E ep) /\
    ep_kops E (acquire E ep my peer tsi tsr index) = ep_kops E ep /\
    ep_sent E (acquire E ep my peer tsi tsr index) = ep_sent E ep ++ [d] /\
    ep_tape E (acquire E ep my peer tsi tsr index) = r.
  Proof.
    intros H1 Hc Hlt Hp Hd Ht. cbv zeta. rewrite acquire_eq.
    match goal with |- context [find ?f ?l] =>
      assert (Hx : find f l = None) by exact (find_conn_none ep my peer H1); rewrite Hx end.
    rewrite Hc, (create_some ep true (repeat 0%N 8) c my peer spi j0 _ Ht).
    generalize (fresh_initiator_facts ep c my peer spi j0). cbv zeta.
    generalize (sa_of_core E (fresh_core ep true (repeat 0%N 8) c my peer spi j0)). intros s0 Hs0.
    destruct Hs0 as (_ & Hcfg & _ & _ & Hst0 & _).
    rewrite <- Hcfg in Hp, Hd.
    destruct (acquire_fresh_started (created ep s0 (D_bytes inb :: D_num j :: D_bytes n :: D_dh (tr_id t) h pub :: r))
                (next_cid E ep) s0 tsi tsr index p inb j n t h pub r Hst0 Hp Hd eq_refl) as (B1 & B2 & B3 & B4 & B5).
    cbv zeta in B1, B4.
    split; [refine (eq_trans B1 _); change (table E (created ep s0 _)) with (table E ep ++ [(next_cid E ep, s0)]);
            apply replace_split; intros Hin; apply Hlt in Hin; exact (Nat.lt_irrefl _ Hin)|].
    split; [exact B2|]. split; [exact B3|]. split; [exact B4|exact B5].
  Qed.

  (** ** every case at once: an ACQUIRE issues no kernel operation, leaves the configurations alone, and sends at most
      one datagram: a CREATE_CHILD_SA request of the first IkeSa of the connection if that is ESTABLISHED, or the
      IKE_SA_INIT request of the IkeSa that serves it while INITIAL (the one just created from the connection's
      configuration) - both built from the FIRST protect entry with the ACQUIRE's index *)
  Theorem acquire_outcome (ep : endpoint) my peer tsi tsr index :
    ep_kops E (acquire E ep my peer tsi tsr index) = ep_kops E ep /\
    confs E (acquire E ep my peer tsi tsr index) = confs E ep /\
    (ep_sent E (acquire E ep my peer tsi tsr index) = ep_sent E ep \/
     exists s p inb d,
       ep_sent E (acquire E ep my peer tsi tsr index) = ep_sent E ep ++ [d] /\
       ((exists cid t1 t2, first_of_connection ep my peer cid s t1 t2) \/
        ((forall c x, In (c, x) (table E ep) -> ~ serves my peer x) /\
         exists c spi j r, find_conf E ep my peer = Some c /\ ep_tape E ep = D_bytes spi :: D_num j :: r /\
                           s = sa_of_core E (fresh_core ep true (repeat 0%N 8) c my peer spi j))) /\
       serves my peer s /\ entry_of index (cfg (co (inner P s))) = Some p /\
       ((state P s = ST_ESTABLISHED /\
         exists kd ke dhv n, ke_step p kd ke dhv /\
           d = mk_dgram (stamp_request P s EX_CREATE_CHILD_SA) ([], acquire_payloads inb tsi tsr p ke ++ [P_NONCE n]))
        \/
        (state P s = ST_INITIAL /\
         exists n t pub, hd_error (get_transforms (cf_prop (cfg (co (inner P s)))) T_DH) = Some t /\
           d = mk_dgram (stamp_request P s EX_IKE_SA_INIT) (snd (init_request (co (inner P s)) n t pub), [])))).
  Proof.
    destruct (find (conn_test my peer) (table E ep)) as [[cid s]|] eqn:Ef.
    - destruct (find_first _ _ _ Ef) as (t1 & t2 & Ht & Hs & Hl).
      assert (Hfc : first_of_connection ep my peer cid s t1 t2).
      { split; [exact Ht|]. split; [apply (conn_test_true my peer (cid, s)); exact Hs|].
        intros c0 x0 H0. apply (conn_test_false my peer (c0, x0)). apply Hl. exact H0. }
      destruct (acquire_existing_facts ep my peer tsi tsr index cid s t1 t2 Hfc) as (_ & _ & _ & A4 & A5 & A6 & _).
      split; [exact A5|]. split; [exact A4|].
      destruct (process_trigger P (enter E ep s) (ep_now E ep) (E_acquire tsi tsr index)) as [s2 [d|]] eqn:Er.
      2:{ left. refine (eq_trans A6 _). apply app_nil_r. }
      right. destruct (trigger_request_shape E _ _ _ _ _ _ _ Er) as (p & inb & Hp & _ & _ & _ & _ & _ & Hcase).
      exists s, p, inb, d. split; [exact A6|]. split; [left; exists cid, t1, t2; exact Hfc|].
      split; [destruct Hfc as (_ & Hc & _); exact Hc|]. split; [exact Hp|].
      destruct Hcase as [(Hst & _ & kd & ke & dhv & j & n & r & Hke & _ & _ & _ & Hd)|(Hst & _ & j & n & t & h & pub & r & Hdh & _ & _ & _ & Hd)].
      + left. split; [exact Hst|]. exists kd, ke, dhv, n. split; [exact Hke|exact Hd].
      + right. split; [exact Hst|]. exists n, t, pub. split; [exact Hdh|exact Hd].
    - assert (H1 : forall c x, In (c, x) (table E ep) -> ~ serves my peer x).
      { intros c x Hin. apply (conn_test_false my peer (c, x)). exact (find_none _ _ Ef (c, x) Hin). }
      destruct (find_conf E ep my peer) as [c|] eqn:Hc.
      2:{ rewrite (acquire_unknown_peer ep my peer tsi tsr index H1 Hc). auto. }
      destruct (acquire_creates_initiator ep my peer tsi tsr index c H1 Hc) as [[_ ->]|(spi & j & r & Ht & Hx)]; [auto|].
      cbv zeta in Hx. destruct Hx as (_ & _ & _ & B3 & B4 & B5 & _).
      split; [exact B4|]. split; [exact B3|].
      set (s0 := sa_of_core E (fresh_core ep true (repeat 0%N 8) c my peer spi j)) in *.
      set (ep0 := created ep s0 r) in *.
      destruct (process_trigger P (enter E ep0 s0) (ep_now E ep) (E_acquire tsi tsr index)) as [s2 [d|]] eqn:Er.
      2:{ left. refine (eq_trans B5 _). apply app_nil_r. }
      right. destruct (trigger_request_shape E _ _ _ _ _ _ _ Er) as (p & inb & Hp & _ & _ & _ & _ & _ & Hcase).
      exists s0, p, inb, d. split; [exact B5|].
      split; [right; split; [exact H1|]; exists c, spi, j, r; auto|].
      split; [split; [split; reflexivity|reflexivity]|]. split; [exact Hp|].
      destruct Hcase as [(Hst & _ & kd & ke & dhv & j' & n & r' & Hke & _ & _ & _ & Hd)|(Hst & _ & j' & n & t & h & pub & r' & Hdh & _ & _ & _ & Hd)].
      + left. split; [exact Hst|]. exists kd, ke, dhv, n. split; [exact Hke|exact Hd].
      + right. split; [exact Hst|]. exists n, t, pub. split; [exact Hdh|exact Hd].
  Qed.

  (** ** IkeSas of other connections - in particular one with the same peer but another local address (F18) - are
      neither used nor touched *)
  Theorem acquire_leaves_other_connections (ep : endpoint) my peer tsi tsr index c x :
    NoDup (map fst (table E ep)) -> (forall y, In y (map fst (table E ep)) -> (y < next_cid E ep)%nat) ->
    In (c, x) (table E ep) -> ~ serves my peer x ->
    In (c, x) (table E (acquire E ep my peer tsi tsr index)).
  Proof.
    intros Hnd Hlt Hin Hx.
    destruct (find (conn_test my peer) (table E ep)) as [[cid s]|] eqn:Ef.
    - destruct (find_first _ _ _ Ef) as (t1 & t2 & Ht & Hs & Hl).
      assert (Hfc : first_of_connection ep my peer cid s t1 t2).
      { split; [exact Ht|]. split; [apply (conn_test_true my peer (cid, s)); exact Hs|].
        intros c0 x0 H0. apply (conn_test_false my peer (c0, x0)). apply Hl. exact H0. }
      destruct (acquire_existing_facts ep my peer tsi tsr index cid s t1 t2 Hfc) as (_ & A2 & _).
      assert (Hn : ~ In cid (map fst t1)).
      { rewrite Ht, map_app in Hnd. cbn in Hnd. apply NoDup_remove_2 in Hnd. intros H. apply Hnd. apply in_or_app. left. exact H. }
      rewrite (A2 Hn). rewrite Ht in Hin. apply in_app_or in Hin. apply in_or_app.
      destruct Hin as [H|[H|H]]; [left; exact H| |right; right; exact H].
      exfalso. injection H as <- <-. apply Hx. apply (conn_test_true my peer (cid, s)). exact Hs.
    - assert (H1 : forall c x, In (c, x) (table E ep) -> ~ serves my peer x).
      { intros c0 x0 H0. apply (conn_test_false my peer (c0, x0)). exact (find_none _ _ Ef (c0, x0) H0). }
      destruct (find_conf E ep my peer) as [cf|] eqn:Hc.
      2:{ rewrite (acquire_unknown_peer ep my peer tsi tsr index H1 Hc). exact Hin. }
      destruct (acquire_creates_initiator ep my peer tsi tsr index cf H1 Hc) as [[_ ->]|(spi & j & r & Ht & Hy)]; [exact Hin|].
      cbv zeta in Hy. destruct Hy as (_ & B1 & _). rewrite (B1 Hlt).
      destruct (acquire_drop_unstarted _); [exact Hin|apply in_or_app; left; exact Hin].
  Qed.

  (** ** (F22) IkeSas on their way out are passed over: the IkeSa that is handed the ACQUIRE is usable, and whatever
      precedes it in the table is of another connection or in one of the four closing states *)
  Theorem acquire_passes_over_closing (ep : endpoint) my peer tsi tsr index :
    (exists c x, In (c, x) (table E ep) /\ of_connection my peer x /\ acquire_usable (state P x) = true) ->
    exists t1 cid s t2,
      table E ep = t1 ++ (cid, s) :: t2 /\ of_connection my peer s /\ acquire_usable (state P s) = true /\
      (forall c x, In (c, x) t1 -> ~ of_connection my peer x \/ acquire_usable (state P x) = false) /\
      let r := process_trigger P (enter E ep s) (ep_now E ep) (E_acquire tsi tsr index) in
      table E (acquire E ep my peer tsi tsr index) = replace E (table E ep) cid (snd (leave E ep (fst r))) /\
      ep_sent E (acquire E ep my peer tsi tsr index) = ep_sent E ep ++ optlist (snd r).
  Proof.
    intros (c & x & Hin & Hc & Hu).
    destruct (acquire_reuses_first ep my peer tsi tsr index) as (t1 & cid & s & t2 & Ht & [Hs Hus] & Hl & Hr).
    { exists c, x. split; [exact Hin|]. split; assumption. }
    exists t1, cid, s, t2. split; [exact Ht|]. split; [exact Hs|]. split; [exact Hus|].
    split; [intros c0 x0 H0; apply not_serves; exact (Hl c0 x0 H0)|].
    cbv zeta in *. destruct Hr as (R1 & _ & _ & _ & _ & R6 & _). split; [exact R1|exact R6].
  Qed.
  Theorem closing_ike_sa_untouched (ep : endpoint) my peer tsi tsr index c x :
    NoDup (map fst (table E ep)) -> (forall y, In y (map fst (table E ep)) -> (y < next_cid E ep)%nat) ->
    In (c, x) (table E ep) -> acquire_usable (state P x) = false ->
    In (c, x) (table E (acquire E ep my peer tsi tsr index)).
  Proof.
    intros Hnd Hlt Hin Hu. apply acquire_leaves_other_connections; try assumption. apply not_serves. right. exact Hu.
  Qed.

  (** the rekey window: the old IkeSa (REKEYED / DEL_AFTER_REKEY_IKE_SA_REQ_SENT) precedes its ESTABLISHED successor -
      the successor processes the trigger *)
  Theorem established_ike_sa_is_used (ep : endpoint) my peer tsi tsr index t1 cid s t2 :
    table E ep = t1 ++ (cid, s) :: t2 -> of_connection my peer s -> state P s = ST_ESTABLISHED ->
    (forall c x, In (c, x) t1 -> of_connection my peer x -> acquire_usable (state P x) = false) ->
    first_of_connection ep my peer cid s t1 t2 /\
    let r := process_trigger P (enter E ep s) (ep_now E ep) (E_acquire tsi tsr index) in
    table E (acquire E ep my peer tsi tsr index) = replace E (table E ep) cid (snd (leave E ep (fst r))) /\
    (~ In cid (map fst t1) ->
     table E (acquire E ep my peer tsi tsr index) = t1 ++ (cid, snd (leave E ep (fst r))) :: t2) /\
    next_cid E (acquire E ep my peer tsi tsr index) = next_cid E ep /\
    confs E (acquire E ep my peer tsi tsr index) = confs E ep /\
    ep_kops E (acquire E ep my peer tsi tsr index) = ep_kops E ep /\
    ep_sent E (acquire E ep my peer tsi tsr index) = ep_sent E ep ++ optlist (snd r) /\
    ep_tape E (acquire E ep my peer tsi tsr index) = tape (inner P (fst r)).
  Proof.
    intros Ht Hs Hst Hl.
    assert (Hfc : first_of_connection ep my peer cid s t1 t2).
    { split; [exact Ht|]. split; [split; [exact Hs|unfold usable; rewrite Hst; reflexivity]|].
      intros c x Hin [Hc Hu]. unfold usable in Hu. rewrite (Hl c x Hin Hc) in Hu. discriminate Hu. }
    split; [exact Hfc|]. exact (acquire_existing_facts ep my peer tsi tsr index cid s t1 t2 Hfc).
  Qed.
End Ctl.

(* ------------------------------------------------------------------------------------------------ *)
(** * B'. What the request carries *)

Lemma ke_step_ke p kd ke dhv :
  ke_step p kd ke dhv ->
  (ke = [] <-> get_transforms (pt_prop p) T_DH = []) /\
  (forall q, In q ke -> exists t rest pub, get_transforms (pt_prop p) T_DH = t :: rest /\ q = P_KE (tr_id t) pub).
Proof.
  unfold ke_step. destruct (get_transforms (pt_prop p) T_DH) as [|t rest].
  - intros (_ & -> & _). split; [tauto|intros q []].
  - intros (h & pub & _ & -> & _). split; [split; discriminate|].
    intros q [<-|[]]. exists t, rest, pub. auto.
Qed.

(** SA = the entry's proposal with the fresh inbound SPI; TSi = [the ACQUIRE's source selector; the entry's local
    selector], TSr = [the ACQUIRE's destination selector; the entry's remote selector]; USE_TRANSPORT_MODE iff the
    entry's mode is transport; KE iff the entry's proposal has a DH transform (group of the first one) *)
Lemma acquire_payloads_content inb tsi tsr p kd ke dhv :
  ke_step p kd ke dhv ->
  kfilter K_SA (acquire_payloads inb tsi tsr p ke) = [P_SA [(pt_prop p) <| pr_spi := inb |>]] /\
  kfilter K_TSi (acquire_payloads inb tsi tsr p ke) = [P_TSi [tsi; pt_my_ts p]] /\
  kfilter K_TSr (acquire_payloads inb tsi tsr p ke) = [P_TSr [tsr; pt_peer_ts p]] /\
  kfilter K_KE (acquire_payloads inb tsi tsr p ke) = ke /\
  kfilter K_NOTIFY (acquire_payloads inb tsi tsr p ke)
  = (if Z.eqb (pt_mode p) MODE_TRANSPORT then [P_NOTIFY PROTO_NONE N_USE_TRANSPORT_MODE [] []] else []) /\
  kfilter K_NONCE (acquire_payloads inb tsi tsr p ke) = [].
Proof.
  unfold ke_step, acquire_payloads, kfilter. destruct (get_transforms (pt_prop p) T_DH) as [|t rest].
  - intros (_ & -> & _). destruct (Z.eqb (pt_mode p) MODE_TRANSPORT); cbn; repeat split; reflexivity.
  - intros (h & pub & _ & -> & _). destruct (Z.eqb (pt_mode p) MODE_TRANSPORT); cbn; repeat split; reflexivity.
Qed.

(** the selectors that are offered lie inside the entry's as soon as the ACQUIRE's do (the kernel derives them from
    the packet that matched the policy; the daemon does not check) *)
Lemma offered_selectors_inside inb tsi tsr p :
  ts_is_subset tsi (pt_my_ts p) = true -> ts_is_subset tsr (pt_peer_ts p) = true ->
  (forall x, In x (c_tsi (acquire_child inb tsi tsr p)) -> ts_is_subset x (pt_my_ts p) = true) /\
  (forall x, In x (c_tsr (acquire_child inb tsi tsr p)) -> ts_is_subset x (pt_peer_ts p) = true).
Proof.
  intros H1 H2. split; intros x [<-|[<-|[]]]; try assumption; apply ts_is_subset_refl.
Qed.

(* ------------------------------------------------------------------------------------------------ *)
(** * B''. The definitions used in the statements, spelled out *)
Lemma entry_of_def index c : entry_of index c = find (fun p => Z.eqb (pt_index p) index) (cf_protect c).
Proof. reflexivity. Qed.
Lemma acquire_child_def inb tsi tsr p :
  acquire_child inb tsi tsr p
  = mk_child inb [0; 0; 0; 0]%N (pt_prop p) (pt_prop p) [tsi; pt_my_ts p] [tsr; pt_peer_ts p] (pt_mode p) (pt_life p).
Proof. reflexivity. Qed.
Lemma acquire_payloads_def inb tsi tsr p ke :
  acquire_payloads inb tsi tsr p ke
  = [P_TSi [tsi; pt_my_ts p]; P_TSr [tsr; pt_peer_ts p]; P_SA [mk_prop (pr_num (pt_prop p)) (pr_proto (pt_prop p)) inb (pr_trs (pt_prop p))]]
    ++ ke ++ (if Z.eqb (pt_mode p) MODE_TRANSPORT then [P_NOTIFY PROTO_NONE N_USE_TRANSPORT_MODE [] []] else []).
Proof. reflexivity. Qed.
Lemma ke_step_def p kd ke dhv :
  ke_step p kd ke dhv <->
  match get_transforms (pt_prop p) T_DH with
  | [] => kd = [] /\ ke = [] /\ dhv = None
  | t :: _ => exists h pub, kd = [D_dh (tr_id t) h pub] /\ ke = [P_KE (tr_id t) pub] /\ dhv = Some (tr_id t, h)
  end.
Proof. reflexivity. Qed.
Lemma ccsa_request_def inb tsi tsr p ke n :
  ccsa_request inb tsi tsr p ke n = (EX_CREATE_CHILD_SA, acquire_payloads inb tsi tsr p ke ++ [P_NONCE n]).
Proof. reflexivity. Qed.
Lemma established_after_def s ch rq dhv r :
  established_after s ch rq dhv r
  = mk_isa ((co s) <| creating := Some ch |> <| dh := match dhv with Some x => Some x | None => dh (co s) end |>
                   <| request := Some rq |> <| st := ST_NEW_CHILD_REQ_SENT |>)
           (new_sa s) (rek_push s) (now s) r (kops s).
Proof. reflexivity. Qed.
Lemma init_request_def c n t pub :
  init_request c n t pub
  = (EX_IKE_SA_INIT, [P_SA [mk_prop (pr_num (cf_prop (cfg c))) (pr_proto (cf_prop (cfg c))) (my_spi_b c) (pr_trs (cf_prop (cfg c)))];
                      P_NONCE n; P_KE (tr_id t) pub; P_VENDOR VENDOR_ID]).
Proof. reflexivity. Qed.
Lemma initial_after_def s ch rq t h r :
  initial_after s ch rq t h r
  = mk_isa ((co s) <| chosen := Some (mk_prop (pr_num (cf_prop (cfg (co s)))) (pr_proto (cf_prop (cfg (co s)))) (my_spi_b (co s))
                                              (pr_trs (cf_prop (cfg (co s))))) |>
                   <| dh := Some (tr_id t, h) |> <| request := Some rq |> <| st := ST_INIT_REQ_SENT |>
                   <| init_req := Some (hdr_of (co s) EX_IKE_SA_INIT false 0, (snd rq, [])) |> <| creating := Some ch |>)
           (new_sa s) (rek_push s) (now s) r (kops s).
Proof. reflexivity. Qed.
Lemma sent_request_def E (s : sa (hdl_iface E)) i' now x b :
  sent_request E s i' now x b
  = (mk_sa (hdl_iface E) i' (is_init _ s) (my_spi _ s) (my_id _ s) (peer_id _ s) (last_resp _ s)
           (Some (mk_dgram (stamp_request (hdl_iface E) (with_inner _ s i') x) b)) (now + RETRANSMISSION_DELAY) 1
           (dpd_at _ s) (rek_at _ s) (del_at _ s) (dpd_cfg _ s) (pending _ s),
     Some (mk_dgram (stamp_request (hdl_iface E) (with_inner _ s i') x) b)).
Proof. reflexivity. Qed.
Lemma of_connection_def E my peer (s : esa E) :
  of_connection E my peer s <-> my_addr (co (inner (hdl_iface E) s)) = my /\ peer_addr (co (inner (hdl_iface E) s)) = peer.
Proof. reflexivity. Qed.
Lemma usable_def E (s : esa E) : usable E s <-> acquire_usable (state (hdl_iface E) s) = true.
Proof. reflexivity. Qed.
Lemma serves_def E my peer (s : esa E) : serves E my peer s <-> of_connection E my peer s /\ usable E s.
Proof. reflexivity. Qed.
Lemma first_of_connection_def E (ep : endpoint E) my peer cid s t1 t2 :
  first_of_connection E ep my peer cid s t1 t2 <->
  table E ep = t1 ++ (cid, s) :: t2 /\ serves E my peer s /\ forall c x, In (c, x) t1 -> ~ serves E my peer x.
Proof. reflexivity. Qed.
Lemma stored_def E (ep : endpoint E) i : stored E ep i = mk_isa (co i) (new_sa i) None (ep_now E ep) [] [].
Proof. reflexivity. Qed.
Lemma fresh_core_def E (ep : endpoint E) ii pspi c my peer spi j :
  fresh_core E ep ii pspi c my peer spi j
  = mk_core ST_INITIAL ii spi pspi my peer c None None None [] None None None None None None None None
            (ep_now E ep + cf_dpd c) (ep_now E ep + cf_life c + j) (ep_now E ep + cf_life c + j + DELETE_AFTER) false.
Proof. reflexivity. Qed.
Lemma created_def E (ep : endpoint E) s0 r :
  created E ep s0 r
  = mk_ep E (table E ep ++ [(next_cid E ep, s0)]) (S (next_cid E ep)) (confs E ep) (ep_cookie_secret E ep) r (ep_now E ep)
          (ep_kops E ep) (ep_sent E ep) (ep_routed E ep) (ep_status E ep).
Proof. reflexivity. Qed.
Lemma optlist_def {A} (o : option A) : optlist o = match o with Some x => [x] | None => [] end.
Proof. reflexivity. Qed.
Lemma ob_acq_def s :
  ob_acq s = (cfg (co s), my_addr (co s), peer_addr (co s), c_init (co s), my_spi_b (co s), peer_spi_b (co s),
              children (co s), kr (co s), cprop (co s), kops s, new_sa s, rek_push s, now s).
Proof. reflexivity. Qed.

(* ------------------------------------------------------------------------------------------------ *)
(** * C. Non-vacuity: concrete runs *)
Module AcqExample.
  Import HdlSad.Example.
  Notation P0 := (hdl_iface E0).
  Definition tsA : ts := mk_ts 7 6 80 80 150 150.           (* inside ts0 *)
  Definition tsB : ts := mk_ts 7 6 1024 1024 350 350.       (* inside ts1 *)
  Definition tsX : ts := mk_ts 7 6 80 80 999 999.           (* outside ts0 *)
  Definition cfs : list (Z * Z * conf) := [(10, 20, cf0)].
  Definition est : esa E0 := sa_of_core E0 (core0 ST_ESTABLISHED [ch1]).
  Definition ep_est (tp : list draw) : endpoint E0 := mk_ep E0 [(0%nat, est)] 1 cfs [9%N] tp 50 [] [] None None.
  Definition tape_child : list draw := [D_bytes [0;0;0;7]%N; D_num 16; D_bytes [5%N]].
  Definition pt0 : protect := mk_protect 1 (esp_prop []) ts0 ts1 MODE_TUNNEL (-1).
  Definition view (ep : endpoint E0) :=
    (map (fun x : nat * esa E0 => (fst x, state P0 (snd x), creating (co (inner P0 (snd x))), pending P0 (snd x))) (table E0 ep),
     next_cid E0 ep, ep_kops E0 ep, ep_sent E0 ep, ep_tape E0 ep).

  (** 1. known index, the connection's IkeSa is ESTABLISHED: CREATE_CHILD_SA request with the entry's proposal (fresh
      SPI), TSi = [ACQUIRE's; entry's], TSr likewise, no transport notify (tunnel), no KE (no DH transform) *)
  Definition d_child : dgram body :=
    mk_dgram (mk_hdr 2 1 2 0 EX_CREATE_CHILD_SA false false 0)
             ([], [P_TSi [tsA; ts0]; P_TSr [tsB; ts1]; P_SA [esp_prop [0;0;0;7]%N]; P_NONCE [5%N]]).
  Example ex_established :
    view (acquire E0 (ep_est tape_child) 10 20 tsA tsB 1)
    = ([(0%nat, ST_NEW_CHILD_REQ_SENT,
         Some (mk_child [0;0;0;7]%N [0;0;0;0]%N (esp_prop []) (esp_prop []) [tsA; ts0] [tsB; ts1] MODE_TUNNEL (-1)), [])],
       1%nat, [], [d_child], []).
  Proof. vm_compute. reflexivity. Qed.
  (** ... and this run satisfies the hypotheses of [acquire_established] *)
  Example ex_established_hyps :
    first_of_connection E0 (ep_est tape_child) 10 20 0%nat est [] [] /\ state P0 est = ST_ESTABLISHED /\
    entry_of 1 (cfg (co (inner P0 est))) = Some pt0 /\ ke_step pt0 [] [] None /\
    ep_tape E0 (ep_est tape_child) = D_bytes [0;0;0;7]%N :: [] ++ D_num 16 :: D_bytes [5%N] :: [].
  Proof.
    split; [split; [reflexivity|split; [split; [split; reflexivity|reflexivity]|intros c x []]]|].
    split; [reflexivity|]. split; [reflexivity|]. split; [|reflexivity]. unfold ke_step. cbn. auto.
  Qed.

  (** 2. unknown index, IkeSa of the connection exists: nothing is sent, nothing is drawn, the IkeSa stays as it is *)
  Example ex_unknown_index_existing :
    view (acquire E0 (ep_est tape_child) 10 20 tsA tsB 99) = ([(0%nat, ST_ESTABLISHED, None, [])], 1%nat, [], [], tape_child)
    /\ map (fun x : nat * esa E0 => status_of E0 (snd x)) (table E0 (acquire E0 (ep_est tape_child) 10 20 tsA tsB 99))
       = map (fun x : nat * esa E0 => status_of E0 (snd x)) (table E0 (ep_est tape_child)).
  Proof. split; vm_compute; reflexivity. Qed.

  (** 3. unknown index, no IkeSa of the connection: the initiator made for it is dropped again (F21); unknown
      connection: the endpoint is literally unchanged *)
  Definition ep_none (tp : list draw) : endpoint E0 := mk_ep E0 [] 0 cfs [9%N] tp 50 [] [] None None.
  Example ex_unknown_index_no_ike_sa :
    view (acquire E0 (ep_none [D_bytes [1;1;1;1;1;1;1;1]%N; D_num 1]) 10 20 tsA tsB 99) = ([], 1%nat, [], [], []).
  Proof. vm_compute. reflexivity. Qed.
  Example ex_unknown_connection tp : acquire E0 (ep_none tp) 10 21 tsA tsB 1 = ep_none tp.
  Proof. reflexivity. Qed.

  (** 4. known index, no IkeSa of the connection: a new initiator (creation index = next_cid) sends IKE_SA_INIT and
      remembers the CHILD_SA to negotiate in IKE_AUTH *)
  Definition tape_init : list draw :=
    [D_bytes [1;1;1;1;1;1;1;1]%N; D_num 1; D_bytes [0;0;0;7]%N; D_num 16; D_bytes [5%N]; D_dh 14 [1%N] [2%N]].
  Definition d_init : dgram body :=
    mk_dgram (mk_hdr 72340172838076673 0 2 0 EX_IKE_SA_INIT false true 0)
             ([P_SA [mk_prop 1 PROTO_IKE [1;1;1;1;1;1;1;1]%N (pr_trs ike_prop)]; P_NONCE [5%N]; P_KE 14 [2%N];
               P_VENDOR VENDOR_ID], []).
  Example ex_initial :
    view (acquire E0 (ep_none tape_init) 10 20 tsA tsB 1)
    = ([(0%nat, ST_INIT_REQ_SENT,
         Some (mk_child [0;0;0;7]%N [0;0;0;0]%N (esp_prop []) (esp_prop []) [tsA; ts0] [tsB; ts1] MODE_TUNNEL (-1)), [])],
       1%nat, [], [d_init], []).
  Proof. vm_compute. reflexivity. Qed.

  (** 5. two connections that share the peer address (F18): the ACQUIRE of (10, 20) is served by the IkeSa of
      (10, 20) although an IkeSa of (11, 20) comes first in the table, and that one is untouched; when only the IkeSa
      of (11, 20) exists a new initiator is created for (10, 20) *)
  Definition cfs2 : list (Z * Z * conf) := [(10, 20, cf0); (11, 20, cf0)].
  Definition est11 : esa E0 := sa_of_core E0 ((core0 ST_ESTABLISHED []) <| my_addr := 11 |> <| my_spi_b := [3%N] |>).
  Definition ep_two (t : list (nat * esa E0)) (n : nat) (tp : list draw) : endpoint E0 :=
    mk_ep E0 t n cfs2 [9%N] tp 50 [] [] None None.
  Example ex_shared_peer_existing :
    let ep' := acquire E0 (ep_two [(0%nat, est11); (1%nat, est)] 2 tape_child) 10 20 tsA tsB 1 in
    nth_error (table E0 ep') 0 = Some (0%nat, est11) /\
    map (fun x : nat * esa E0 => (fst x, state P0 (snd x))) (table E0 ep')
    = [(0%nat, ST_ESTABLISHED); (1%nat, ST_NEW_CHILD_REQ_SENT)] /\
    next_cid E0 ep' = 2%nat /\ ep_sent E0 ep' = [d_child].
  Proof. cbv zeta. repeat split; vm_compute; reflexivity. Qed.
  Example ex_shared_peer_new :
    let ep' := acquire E0 (ep_two [(0%nat, est11)] 1 tape_init) 10 20 tsA tsB 1 in
    nth_error (table E0 ep') 0 = Some (0%nat, est11) /\
    map (fun x : nat * esa E0 => (fst x, state P0 (snd x), is_init P0 (snd x), my_addr (co (inner P0 (snd x))),
                                  peer_addr (co (inner P0 (snd x))))) (table E0 ep')
    = [(0%nat, ST_ESTABLISHED, false, 11, 20); (1%nat, ST_INIT_REQ_SENT, true, 10, 20)] /\
    next_cid E0 ep' = 2%nat /\ ep_sent E0 ep' = [d_init].
  Proof. cbv zeta. repeat split; vm_compute; reflexivity. Qed.

  (** 6. two protect entries with the same index: the first one (tunnel) is used, not the second (transport) *)
  Definition cf_dup : conf :=
    mk_conf ike_prop [pt0; mk_protect 1 (esp_prop []) ts0 ts1 MODE_TRANSPORT 100] au0 au0 60 3600.
  Definition est_dup : esa E0 := sa_of_core E0 ((core0 ST_ESTABLISHED []) <| cfg := cf_dup |>).
  Example ex_first_entry_of_index :
    let ep' := acquire E0 (mk_ep E0 [(0%nat, est_dup)] 1 cfs [9%N] tape_child 50 [] [] None None) 10 20 tsA tsB 1 in
    ep_sent E0 ep' = [d_child] /\
    map (fun x : nat * esa E0 => option_map (fun c => (c_mode c, c_life c)) (creating (co (inner P0 (snd x))))) (table E0 ep')
    = [Some (MODE_TUNNEL, -1)].
  Proof. cbv zeta. split; vm_compute; reflexivity. Qed.

  (** 7. busy IkeSa: queued, nothing sent, no draw *)
  Definition busy : esa E0 := sa_of_core E0 (core0 ST_NEW_CHILD_REQ_SENT [ch1]).
  Example ex_queued :
    view (acquire E0 (mk_ep E0 [(0%nat, busy)] 1 cfs [9%N] tape_child 50 [] [] None None) 10 20 tsA tsB 1)
    = ([(0%nat, ST_NEW_CHILD_REQ_SENT, None, [E_acquire tsA tsB 1])], 1%nat, [], [], tape_child).
  Proof. vm_compute. reflexivity. Qed.

  (** 8. (F22, fixed) after an IKE_SA rekey the old IkeSa (REKEYED, about to be deleted) precedes its successor in the
      table: it is passed over, the ESTABLISHED successor processes the ACQUIRE and sends the CREATE_CHILD_SA request *)
  Definition old_rekeyed : esa E0 := sa_of_core E0 (core0 ST_REKEYED []).
  Definition successor : esa E0 := sa_of_core E0 ((core0 ST_ESTABLISHED [ch1]) <| my_spi_b := [4%N] |>).
  Definition ep_rekey : endpoint E0 :=
    mk_ep E0 [(0%nat, old_rekeyed); (1%nat, successor)] 2 cfs [9%N] tape_child 50 [] [] None None.
  Definition d_child_succ : dgram body :=
    mk_dgram (mk_hdr 2 4 2 0 EX_CREATE_CHILD_SA false false 0)
             ([], [P_TSi [tsA; ts0]; P_TSr [tsB; ts1]; P_SA [esp_prop [0;0;0;7]%N]; P_NONCE [5%N]]).
  Example ex_acquire_during_rekey :
    let ep' := acquire E0 ep_rekey 10 20 tsA tsB 1 in
    view ep'
    = ([(0%nat, ST_REKEYED, None, []);
        (1%nat, ST_NEW_CHILD_REQ_SENT,
         Some (mk_child [0;0;0;7]%N [0;0;0;0]%N (esp_prop []) (esp_prop []) [tsA; ts0] [tsB; ts1] MODE_TUNNEL (-1)), [])],
       2%nat, [], [d_child_succ], [])
    /\ nth_error (table E0 ep') 0 = Some (0%nat, old_rekeyed).
  Proof. cbv zeta. split; vm_compute; reflexivity. Qed.
  (** ... and this is an instance of [established_ike_sa_is_used] *)
  Example ex_acquire_during_rekey_hyps :
    table E0 ep_rekey = [(0%nat, old_rekeyed)] ++ (1%nat, successor) :: [] /\ of_connection E0 10 20 successor /\
    state P0 successor = ST_ESTABLISHED /\
    (forall c x, In (c, x) [(0%nat, old_rekeyed)] -> of_connection E0 10 20 x -> acquire_usable (state P0 x) = false).
  Proof.
    split; [reflexivity|]. split; [split; reflexivity|]. split; [reflexivity|].
    intros c x [H|[]] _. injection H as <- <-. reflexivity.
  Qed.

  (** 9. (observation) the ACQUIRE's own selectors are offered as they come: nothing checks that they lie inside the
      entry's (the kernel produced them from a packet that matched the policy) *)
  Example ex_selectors_not_checked :
    ts_is_subset tsX (pt_my_ts pt0) = false /\
    exists d, ep_sent E0 (acquire E0 (ep_est tape_child) 10 20 tsX tsB 1) = [d] /\
              In (P_TSi [tsX; ts0]) (snd (d_body d)).
  Proof. split; [reflexivity|]. eexists. split; [vm_compute; reflexivity|]. left. reflexivity. Qed.

End AcqExample.
