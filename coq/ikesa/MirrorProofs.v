From Coq Require Import ZArith Bool List.
From IkeSa Require Import Gen.IkeFacts Mirror.
Import ListNotations.

Section Proofs.
  Variable V : Type.

  (** The two ChildSa objects of one successful negotiation mirror each other: the initiator's outbound SPI is the
      responder's inbound one and vice versa, selectors are swapped, proposal equal. *)
  Lemma children_mirror (creating dflt : childsa V) (e : resp_env V) :
    req_spi V e = c_in V creating ->            (* the initiator put its inbound SPI into the request *)
    let r := responder_child V dflt e in
    let i := initiator_child V creating (response_of V e r) in
    c_out V i = c_in V r /\ c_in V i = c_out V r /\ c_tsi V i = c_tsr V r /\ c_tsr V i = c_tsi V r /\
    c_prop V i = c_prop V r /\ c_in V r = fresh_spi V e /\ c_mode V r = req_mode V e /\ c_mode V i = c_mode V creating.
  Proof. intros H. cbn. rewrite H. repeat split; reflexivity. Qed.

  (** With the same keyring on both sides, each kernel SA one endpoint installs is exactly the one the other
      endpoint installs in the opposite direction. *)
  Lemma kernel_sas_mirror (creating dflt : childsa V) (e : resp_env V) (k : keyring V) (addr_i addr_r : V) :
    req_spi V e = c_in V creating ->
    c_mode V creating = req_mode V e ->           (* the initiator refuses a response in another mode *)
    let r := responder_child V dflt e in
    let i := initiator_child V creating (response_of V e r) in
    let '(out_i, in_i) := create_child_sa V i k true addr_i addr_r in
    let '(out_r, in_r) := create_child_sa V r k false addr_r addr_i in
    out_i = in_r /\ in_i = out_r.
  Proof. intros H Hm. cbn. rewrite H, Hm. split; reflexivity. Qed.

  (** direction keys: the outbound SA of the exchange initiator carries (SK_ei, SK_ai), its inbound SA
      (SK_er, SK_ar); the exchange responder the other way round *)
  Lemma direction_keys (c : childsa V) (k : keyring V) (a b : V) :
    p_ekey V (fst (create_child_sa V c k true a b)) = sk_ei V k /\
    p_akey V (fst (create_child_sa V c k true a b)) = sk_ai V k /\
    p_ekey V (snd (create_child_sa V c k true a b)) = sk_er V k /\
    p_akey V (snd (create_child_sa V c k true a b)) = sk_ar V k /\
    p_ekey V (fst (create_child_sa V c k false a b)) = sk_er V k /\
    p_akey V (fst (create_child_sa V c k false a b)) = sk_ar V k /\
    p_ekey V (snd (create_child_sa V c k false a b)) = sk_ei V k /\
    p_akey V (snd (create_child_sa V c k false a b)) = sk_ai V k.
  Proof. cbn. repeat split; reflexivity. Qed.

  (** addressing: outbound from me to the peer with my selectors as source; inbound the reverse *)
  Lemma addressing (c : childsa V) (k : keyring V) (ini : bool) (me peer : V) :
    let '(o, i) := create_child_sa V c k ini me peer in
    p_src V o = me /\ p_dst V o = peer /\ p_spi V o = c_out V c /\ p_src_sel V o = c_tsi V c /\ p_dst_sel V o = c_tsr V c /\
    p_src V i = peer /\ p_dst V i = me /\ p_spi V i = c_in V c /\ p_src_sel V i = c_tsr V c /\ p_dst_sel V i = c_tsi V c.
  Proof. destruct ini; cbn; repeat split; reflexivity. Qed.

  (** IKE_SA keys: both roles call the key derivation with the same arguments (translator-checked wiring), so with a
      commutative Diffie-Hellman they hold the same keyring, and each side's my_crypto is the other's peer_crypto *)
  Variable kdf : V -> V -> V -> V -> V -> V -> V.     (* proposal, Ni, Nr, SPIi, SPIr, shared secret -> keyring *)
  Variable dh : V -> V -> V.                          (* my private value, peer public value -> shared secret *)
  Variable pub : V -> V.
  Hypothesis dh_commutes : forall a b, dh a (pub b) = dh b (pub a).

  Lemma ike_keys_agree prop ni nr spi_i spi_r a b :
    kdf prop ni nr spi_i spi_r (dh a (pub b)) = kdf prop ni nr spi_i spi_r (dh b (pub a)).
  Proof. rewrite dh_commutes. reflexivity. Qed.

End Proofs.
