(** The kernel SAs the handler model installs are the ones the wiring model of Mirror.v builds from the tables
    regenerated from xfrm.py / ikesa.py (which argument of create_child_sa goes into which parameter of the two
    create_sa calls; which key serves which direction for which role): a change of that wiring in the source changes
    Gen/IkeFacts.v and breaks this file. *)
From Coq Require Import ZArith Bool List.
From VLib Require Import Bytes.
From IkeSa Require Import Gen.IkeFacts Shell Hdl Mirror HdlAgree.
Import ListNotations.
Open Scope Z_scope.

Inductive val := VB (b : bytes) | VT (t : ts) | VP (p : proposal) | VZ (z : Z).

Definition m_child (ch : child) (tsi tsr : ts) : Mirror.childsa val :=
  Mirror.mk_childsa val (VB (Hdl.c_in ch)) (VB (Hdl.c_out ch)) (VP (Hdl.c_prop ch)) (VT tsi) (VT tsr) (VZ (Hdl.c_mode ch)).
Definition m_keys (k : ckeyring) : Mirror.keyring val :=
  Mirror.mk_keyring val (VB (ck_ei k)) (VB (ck_er k)) (VB (ck_ai k)) (VB (ck_ar k)).
Definition m_params (a : ksa) : Mirror.sa_params val :=
  Mirror.mk_sa_params val (VT (k_sel_src a)) (VT (k_sel_dst a)) (VB (k_spi a)) (VZ (k_mode a)) (VZ (k_src a)) (VZ (k_dst a))
                      (VB (k_enc a)) (VB (k_auth a)) (VP (k_prop a)).

Lemma wiring_agrees : forall (c : core) (ch : child) (k : ckeyring) (ini : bool) (tsi tsr : ts) (life : Z),
  Mirror.create_child_sa val (m_child ch tsi tsr) (m_keys k) ini (VZ (my_addr c)) (VZ (peer_addr c))
  = (m_params (out_ksa c ch k ini tsi tsr life), m_params (in_ksa c ch k ini tsi tsr life)).
Proof. intros. destruct ini; reflexivity. Qed.

(** every successful Xfrm.create_child_sa of the handler model issues exactly the two NEWSA requests of the
    regenerated wiring *)
Theorem create_child_sa_refines_wiring : forall ch k ini u s s',
  Hdl.create_child_sa ch k ini s = (Ok u, s') ->
  exists tsi tsr a b,
    Hdl.c_tsi ch = [tsi] /\ Hdl.c_tsr ch = [tsr] /\
    kops s' = kops s ++ [K_add a true; K_add b true] /\
    Mirror.create_child_sa val (m_child ch tsi tsr) (m_keys k) ini (VZ (my_addr (co s))) (VZ (peer_addr (co s)))
    = (m_params a, m_params b).
Proof.
  intros ch k ini u s s' H. destruct (create_child_sa_ok ch k ini u s s' H) as (tsi & tsr & life & Hi & Hr & _ & Hk & _).
  exists tsi, tsr, (out_ksa (co s) ch k ini tsi tsr life), (in_ksa (co s) ch k ini tsi tsr life).
  repeat split; try assumption. apply wiring_agrees.
Qed.
