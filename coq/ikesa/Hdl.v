(** Executable model of the exchange handlers of ikesa.py (everything the "shell" of Shell.v leaves abstract):
    the twelve process_* / generate_* handlers, the CHILD_SA negotiation of both roles, the IKE_SA negotiation of
    both roles, the AUTH exchange, INVALID_KE_PAYLOAD / COOKIE retries, the collision rules, the kernel operations.

    Conventions
    - messages are abstract: an IKE header (Shell.hdr) and two payload lists (clear, encrypted); the codec is the
      business of the codec cluster.  A handler sees the parsed message and returns payload lists.
    - Python exceptions: [res] = Ok | Raise e | Stuck; the state survives a Raise (partial updates stay visible, as
      in Python).  [Stuck] only means "the environment tape did not match the call" and is excluded by theorems
      and flagged by the correspondence.
    - everything the code does not decide is the environment: cryptographic functions are the fields of [env]
      (arbitrary functions in the theorems, tables recorded from the real run in the correspondence), random
      draws / fresh DH key pairs / kernel verdicts are popped from a tape in call order.
    - value semantics; the aliasing that matters (CHILD_SAs handed to the successor, ChildSa objects compared
      with ==) is reproduced explicitly.  See DESIGN.md section 11 for the list of abstractions.
    No proofs in this file. *)
From Coq Require Import ZArith NArith Bool List.
From RecordUpdate Require Import RecordSet.
From VLib Require Import Bytes.
From IkeSa Require Import Gen.IkeFacts Shell.
Import ListNotations RecordSetNotations.
Open Scope Z_scope.

(* ------------------------------------------------------------------------------------------------ *)
(** * Data *)

Definition bytes_eqb (a b : bytes) : bool := if list_eq_dec N.eq_dec a b then true else false.

Record transform := mk_tr { tr_type : Z; tr_id : Z; tr_keylen : option Z }.
Definition optZ_eqb (a b : option Z) : bool :=
  match a, b with Some x, Some y => Z.eqb x y | None, None => true | _, _ => false end.
(** Transform.__eq__: equal hashes of (type, id, keylen) *)
Definition tr_eqb (a b : transform) : bool :=
  Z.eqb (tr_type a) (tr_type b) && Z.eqb (tr_id a) (tr_id b) && optZ_eqb (tr_keylen a) (tr_keylen b).

Record proposal := mk_prop { pr_num : Z; pr_proto : Z; pr_spi : bytes; pr_trs : list transform }.
#[export] Instance eta_prop : Settable _ := settable! mk_prop <pr_num; pr_proto; pr_spi; pr_trs>.

Definition T_ENCR := 1. Definition T_PRF := 2. Definition T_INTEG := 3. Definition T_DH := 4. Definition T_ESN := 5.
Definition PROTO_NONE := 0. Definition PROTO_IKE := 1. Definition PROTO_AH := 2. Definition PROTO_ESP := 3.

Definition memZ (x : Z) (l : list Z) : bool := existsb (Z.eqb x) l.
Definition subsetZ (a b : list Z) : bool := forallb (fun x => memZ x b) a.

(** Proposal.intersection: one transform per type, mine, in my order of first match; num and SPI of the other *)
Fixpoint isect_loop (mine other : list transform) (sel : list transform) : list transform :=
  match mine with
  | [] => sel
  | m :: r =>
      if existsb (tr_eqb m) other && negb (memZ (tr_type m) (map tr_type sel))
      then isect_loop r other (sel ++ [m]) else isect_loop r other sel
  end.
Definition intersection (self other : proposal) : option proposal :=
  if Z.eqb (pr_proto self) (pr_proto other) then
    let sel := isect_loop (pr_trs self) (pr_trs other) [] in
    if subsetZ (map tr_type sel) (map tr_type (pr_trs self)) && subsetZ (map tr_type (pr_trs self)) (map tr_type sel)
    then Some (mk_prop (pr_num other) (pr_proto self) (pr_spi other) sel) else None
  else None.
(** Proposal.__eq__: protocol and the SET of transforms *)
Definition trs_subset (a b : list transform) : bool := forallb (fun x => existsb (tr_eqb x) b) a.
Definition prop_eqb (a b : proposal) : bool :=
  Z.eqb (pr_proto a) (pr_proto b) && trs_subset (pr_trs a) (pr_trs b) && trs_subset (pr_trs b) (pr_trs a).
Definition prop_is_subset (self other : proposal) : bool :=
  match intersection self other with Some i => prop_eqb i self | None => false end.
Definition copy_without_dh (p : proposal) : proposal :=
  p <| pr_trs := filter (fun t => negb (Z.eqb (tr_type t) T_DH)) (pr_trs p) |>.
Definition get_transforms (p : proposal) (ty : Z) : list transform :=
  filter (fun t => Z.eqb (tr_type t) ty) (pr_trs p).

Record ts := mk_ts { ts_type : Z; ts_proto : Z; ts_sport : Z; ts_eport : Z; ts_saddr : Z; ts_eaddr : Z }.
Definition ts_eqb (a b : ts) : bool :=
  Z.eqb (ts_type a) (ts_type b) && Z.eqb (ts_proto a) (ts_proto b) && Z.eqb (ts_sport a) (ts_sport b)
  && Z.eqb (ts_eport a) (ts_eport b) && Z.eqb (ts_saddr a) (ts_saddr b) && Z.eqb (ts_eaddr a) (ts_eaddr b).
Definition ts_is_subset (self other : ts) : bool :=
  if negb (Z.eqb (ts_type self) (ts_type other)) then false
  else if negb (Z.eqb (ts_proto other) 0) && negb (Z.eqb (ts_proto self) (ts_proto other)) then false
  else if (ts_sport self <? ts_sport other) || (ts_eport self >? ts_eport other) then false
  else if (ts_saddr self <? ts_saddr other) || (ts_eaddr self >? ts_eaddr other) then false
  else true.
Fixpoint tsl_eqb (a b : list ts) : bool :=
  match a, b with
  | [], [] => true
  | x :: a', y :: b' => ts_eqb x y && tsl_eqb a' b'
  | _, _ => false
  end.

Inductive payload :=
| P_SA (ps : list proposal)
| P_KE (g : Z) (d : bytes)
| P_NONCE (n : bytes)
| P_NOTIFY (proto : Z) (ty : Z) (spi : bytes) (data : bytes)
| P_DELETE (proto : Z) (spis : list bytes)
| P_TSi (l : list ts)
| P_TSr (l : list ts)
| P_IDi (t : Z) (d : bytes)
| P_IDr (t : Z) (d : bytes)
| P_AUTH (m : Z) (d : bytes)
| P_VENDOR (d : bytes)
| P_OTHER (ty : Z).

Inductive pkind := K_SA | K_KE | K_NONCE | K_NOTIFY | K_DELETE | K_TSi | K_TSr | K_IDi | K_IDr | K_AUTH | K_VENDOR
                 | K_OTHER.
Definition kind_of (p : payload) : pkind :=
  match p with
  | P_SA _ => K_SA | P_KE _ _ => K_KE | P_NONCE _ => K_NONCE | P_NOTIFY _ _ _ _ => K_NOTIFY
  | P_DELETE _ _ => K_DELETE | P_TSi _ => K_TSi | P_TSr _ => K_TSr | P_IDi _ _ => K_IDi | P_IDr _ _ => K_IDr
  | P_AUTH _ _ => K_AUTH | P_VENDOR _ => K_VENDOR | P_OTHER _ => K_OTHER
  end.
Definition pkind_eqb (a b : pkind) : bool :=
  match a, b with
  | K_SA, K_SA | K_KE, K_KE | K_NONCE, K_NONCE | K_NOTIFY, K_NOTIFY | K_DELETE, K_DELETE | K_TSi, K_TSi
  | K_TSr, K_TSr | K_IDi, K_IDi | K_IDr, K_IDr | K_AUTH, K_AUTH | K_VENDOR, K_VENDOR | K_OTHER, K_OTHER => true
  | _, _ => false
  end.

(** message bodies: (payloads, encrypted_payloads) *)
Definition body := (list payload * list payload)%type.
Definition amsg := (hdr * body)%type.
Definition body_of (exch : Z) (ps : list payload) : body := if Z.eqb exch EX_IKE_SA_INIT then (ps, []) else ([], ps).

(** notification types used by the handlers (message.PayloadNOTIFY.Type; checked against the source by the
    correspondence: the harness passes notifications by NUMBER) *)
Definition N_UNSUPPORTED_CRITICAL_PAYLOAD := 1. Definition N_INVALID_SYNTAX := 7.
Definition N_NO_PROPOSAL_CHOSEN := 14. Definition N_INVALID_KE_PAYLOAD := 17.
Definition N_AUTHENTICATION_FAILED := 24. Definition N_SINGLE_PAIR_REQUIRED := 34.
Definition N_NO_ADDITIONAL_SAS := 35. Definition N_INTERNAL_ADDRESS_FAILURE := 36.
Definition N_FAILED_CP_REQUIRED := 37. Definition N_TS_UNACCEPTABLE := 38.
Definition N_TEMPORARY_FAILURE := 43. Definition N_CHILD_SA_NOT_FOUND := 44.
Definition N_USE_TRANSPORT_MODE := 16391. Definition N_REKEY_SA := 16393.
Definition MODE_TRANSPORT := 0. Definition MODE_TUNNEL := 1.

Record keyring := mk_kr { sk_d : bytes; sk_ai : bytes; sk_ar : bytes; sk_ei : bytes; sk_er : bytes;
                          sk_pi : bytes; sk_pr : bytes }.
Record ckeyring := mk_ckr { ck_ai : bytes; ck_ar : bytes; ck_ei : bytes; ck_er : bytes }.

Record child := mk_child { c_in : bytes; c_out : bytes; c_orig : proposal; c_prop : proposal;
                           c_tsi : list ts; c_tsr : list ts; c_mode : Z; c_life : Z }.
#[export] Instance eta_child : Settable _ :=
  settable! mk_child <c_in; c_out; c_orig; c_prop; c_tsi; c_tsr; c_mode; c_life>.
(** namedtuple ==, field by field *)
Definition child_eqb (a b : child) : bool :=
  bytes_eqb (c_in a) (c_in b) && bytes_eqb (c_out a) (c_out b) && prop_eqb (c_orig a) (c_orig b)
  && prop_eqb (c_prop a) (c_prop b) && tsl_eqb (c_tsi a) (c_tsi b) && tsl_eqb (c_tsr a) (c_tsr b)
  && Z.eqb (c_mode a) (c_mode b) && Z.eqb (c_life a) (c_life b).

(** configuration.IkeConfiguration as the handlers see it *)
Record protect := mk_protect { pt_index : Z; pt_prop : proposal; pt_my_ts : ts; pt_peer_ts : ts; pt_mode : Z;
                               pt_life : Z }.
Record authc := mk_authc { a_id_type : Z; a_id_data : bytes; a_psk : option bytes; a_priv : bool; a_pub : bool }.
Record conf := mk_conf { cf_prop : proposal; cf_protect : list protect; cf_my_auth : authc; cf_peer_auth : authc;
                         cf_dpd : Z; cf_life : Z }.
Definition truthy (b : option bytes) : bool := match b with Some (_ :: _) => true | _ => false end.

(** kernel operations, in the order they were issued, with the verdict the kernel gave *)
Record ksa := mk_ksa { k_spi : bytes; k_src : Z; k_dst : Z; k_proto : Z; k_mode : Z; k_sel_src : ts; k_sel_dst : ts;
                       k_prop : proposal; k_enc : bytes; k_auth : bytes; k_life : Z }.
Inductive kop := K_add (s : ksa) (ok : bool) | K_del (daddr : Z) (proto : Z) (spi : bytes) (ok : bool).

(** the environment tape *)
Inductive draw :=
| D_bytes (b : bytes)                       (* os.urandom *)
| D_num (z : Z)                             (* randrange / uniform / randint *)
| D_dh (g : Z) (h : bytes) (pub : bytes)    (* DiffieHellman.from_group(g): handle and public value *)
| D_dhfail (g : Z)                          (* from_group raised (unknown group) *)
| D_verdict (ok : bool).                    (* the kernel's answer to the next netlink request *)

(** the handler-owned part of a "new_ike_sa" that is not registered yet: it has its own timers *)
Record core := mk_core {
  st : Z; c_init : bool; my_spi_b : bytes; peer_spi_b : bytes; my_addr : Z; peer_addr : Z; cfg : conf;
  kr : option keyring; chosen : option proposal; cprop : option proposal;   (* proposal behind my/peer_crypto *)
  children : list child;
  init_req : option amsg; init_res : option amsg;
  request : option (Z * list payload);                 (* self.request: exchange type and payloads *)
  creating : option child; rekeying : option child; deleting : option child;
  dh : option (Z * bytes);                             (* self.dh: group and handle *)
  cookie_secret : option bytes;
  dpd0 : Z; rek0 : Z; del0 : Z;                        (* timers set by __init__ (used when registered) *)
  my_msg_id_reset : bool }.                            (* self.my_msg_id = 0 executed by a handler *)
#[export] Instance eta_core : Settable _ :=
  settable! mk_core <st; c_init; my_spi_b; peer_spi_b; my_addr; peer_addr; cfg; kr; chosen; cprop; children;
                     init_req; init_res; request; creating; rekeying; deleting; dh; cookie_secret; dpd0; rek0; del0;
                     my_msg_id_reset>.

Record isa := mk_isa {
  co : core;
  new_sa : option core;                                (* self.new_ike_sa *)
  rek_push : option Z;                                 (* rekey_ike_sa_at rewritten by a handler *)
  now : Z;                                             (* time.time() during this call *)
  tape : list draw;
  kops : list kop }.                                   (* kernel operations issued so far (history) *)
#[export] Instance eta_isa : Settable _ := settable! mk_isa <co; new_sa; rek_push; now; tape; kops>.

Inductive exn :=
| X_NoProposalChosen | X_InvalidKe (g : Z) | X_CookieRequired (c : bytes) | X_AuthFailed | X_PayloadNotFound
| X_TemporaryFailure | X_TsUnacceptable | X_ChildSaNotFound (spi : bytes) (proto : Z) | X_IkeSaError | X_InvalidSyntax
| X_StateError | X_ChildRejected | X_Netlink | X_Other.
Definition is_ikesa_error (e : exn) : bool :=
  match e with X_StateError | X_ChildRejected | X_Netlink | X_Other => false | _ => true end.

Inductive res (A : Type) := Ok (a : A) | Raise (e : exn) | Stuck.
Arguments Ok {A}. Arguments Raise {A}. Arguments Stuck {A}.

(** cryptography and serialisation: the parameters of the model *)
Record env := mk_env {
  e_ike_keys : proposal -> bytes -> bytes -> bytes -> bytes -> bytes -> option bytes -> option keyring;
  e_child_keys : proposal -> proposal -> bytes -> bytes -> option ckeyring;
  e_dh_secret : Z -> bytes -> bytes -> option bytes;
  e_prf : proposal -> bytes -> bytes -> bytes;
  e_sign : bytes -> bytes;
  e_verify : bytes -> bytes -> bool;
  e_ser : amsg -> bytes;
  e_cookie : bytes -> bytes -> bytes;
  e_addr_packed : Z -> bytes }.

(* ------------------------------------------------------------------------------------------------ *)
(** * The handler monad *)

Definition H (A : Type) := isa -> res A * isa.
Definition ret {A} (a : A) : H A := fun s => (Ok a, s).
Definition bind {A B} (m : H A) (f : A -> H B) : H B :=
  fun s => match m s with
           | (Ok a, s') => f a s'
           | (Raise e, s') => (Raise e, s')
           | (Stuck, s') => (Stuck, s')
           end.
Definition raise {A} (e : exn) : H A := fun s => (Raise e, s).
Definition stuck {A} : H A := fun s => (Stuck, s).
Definition get : H isa := fun s => (Ok s, s).
Definition modify (f : isa -> isa) : H unit := fun s => (Ok tt, f s).
Definition modc (f : core -> core) : H unit := modify (fun s => s <| co := f (co s) |>).
Definition getc : H core := fun s => (Ok (co s), s).
(** try: m except <classes selected by h>: handler *)
Definition try_catch {A} (m : H A) (h : exn -> option (H A)) : H A :=
  fun s => match m s with
           | (Raise e, s') => match h e with Some k => k s' | None => (Raise e, s') end
           | r => r
           end.
Notation "x <- m ;; f" := (bind m (fun x => f)) (at level 61, m at next level, right associativity).
Notation "m ;;; f" := (bind m (fun _ => f)) (at level 61, right associativity).
Definition when (b : bool) (m : H unit) : H unit := if b then m else ret tt.
Definition of_opt {A} (o : option A) (e : exn) : H A := match o with Some a => ret a | None => raise e end.

Definition pop : H draw :=
  fun s => match tape s with [] => (Stuck, s) | d :: r => (Ok d, s <| tape := r |>) end.
Definition draw_bytes : H bytes := d <- pop ;; match d with D_bytes b => ret b | _ => stuck end.
Definition draw_num : H Z := d <- pop ;; match d with D_num z => ret z | _ => stuck end.
Definition draw_dh (g : Z) : H (bytes * bytes) :=
  d <- pop ;; match d with
              | D_dh g' h pub => if Z.eqb g g' then ret (h, pub) else stuck
              | D_dhfail g' => if Z.eqb g g' then raise X_Other else stuck
              | _ => stuck
              end.
Definition draw_verdict : H bool := d <- pop ;; match d with D_verdict b => ret b | _ => stuck end.
Definition emit (k : kop) : H unit := modify (fun s => s <| kops := kops s ++ [k] |>).

(* ------------------------------------------------------------------------------------------------ *)
(** * Message accessors *)

Definition coll (m : pmsg body) (encrypted : bool) : list payload :=
  if encrypted then snd (p_body m) else fst (p_body m).
Definition get_payloads (m : pmsg body) (k : pkind) (encrypted : bool) : list payload :=
  filter (fun p => pkind_eqb (kind_of p) k) (coll m encrypted).
Definition get_payload (m : pmsg body) (k : pkind) (encrypted : bool) : H payload :=
  match get_payloads m k encrypted with p :: _ => ret p | [] => raise X_PayloadNotFound end.
Definition notify_ty (p : payload) : Z := match p with P_NOTIFY _ ty _ _ => ty | _ => -1 end.
Definition get_notifies (m : pmsg body) (ty : Z) (encrypted : bool) : list payload :=
  filter (fun p => Z.eqb (notify_ty p) ty) (get_payloads m K_NOTIFY encrypted).
Definition nonempty {A} (l : list A) : bool := match l with [] => false | _ => true end.

(** the same accessors on a stored request (self.request) *)
Definition req_coll (r : Z * list payload) : list payload := snd r.
Definition req_get (r : Z * list payload) (k : pkind) : H payload :=
  match filter (fun p => pkind_eqb (kind_of p) k) (snd r) with p :: _ => ret p | [] => raise X_PayloadNotFound end.
Definition amsg_nonce (m : option amsg) : H bytes :=
  match m with
  | None => raise X_Other                      (* Message.parse(None) *)
  | Some (_, (clear, _)) =>
      match filter (fun p => pkind_eqb (kind_of p) K_NONCE) clear with
      | P_NONCE n :: _ => ret n
      | _ => raise X_PayloadNotFound
      end
  end.

Definition sa_props (p : payload) : list proposal := match p with P_SA ps => ps | _ => [] end.
Definition first_prop (p : payload) : H proposal :=
  match sa_props p with x :: _ => ret x | [] => raise X_Other end.     (* proposals[0]: IndexError *)
Definition get_transform (p : proposal) (ty : Z) : H transform :=
  match get_transforms p ty with t :: _ => ret t | [] => raise X_Other end.     (* next(): StopIteration *)

(** PayloadNOTIFY.from_exception *)
Definition notify_of (e : exn) : payload :=
  match e with
  | X_NoProposalChosen => P_NOTIFY PROTO_NONE N_NO_PROPOSAL_CHOSEN [] []
  | X_InvalidKe g => P_NOTIFY PROTO_NONE N_INVALID_KE_PAYLOAD [] (be_encode 2 (Z.to_N g))
  | X_CookieRequired c => P_NOTIFY PROTO_NONE N_COOKIE [] c
  | X_AuthFailed => P_NOTIFY PROTO_NONE N_AUTHENTICATION_FAILED [] []
  | X_TemporaryFailure => P_NOTIFY PROTO_NONE N_TEMPORARY_FAILURE [] []
  | X_TsUnacceptable => P_NOTIFY PROTO_NONE N_TS_UNACCEPTABLE [] []
  | X_ChildSaNotFound spi proto => P_NOTIFY proto N_CHILD_SA_NOT_FOUND spi []
  | _ => P_NOTIFY PROTO_NONE N_INVALID_SYNTAX [] []
  end.

(** The admission lists of the handlers (_check_in_states / assert).  They are NOTATIONS (the handlers below contain the
    literal lists); HdlFacts.v proves each of them equal to the list regenerated from the source (admissions table). *)
Notation ADM_process_ike_sa_init_request := [ST_INITIAL] (only parsing).
Notation ADM_process_ike_auth_request := [ST_INIT_RES_SENT] (only parsing).
Notation ADM_process_ike_sa_init_response := [ST_INIT_REQ_SENT] (only parsing).
Notation ADM_process_ike_auth_response := [ST_AUTH_REQ_SENT] (only parsing).
Notation ADM_process_create_child_sa_response :=
  [ST_NEW_CHILD_REQ_SENT; ST_REK_CHILD_REQ_SENT; ST_REK_IKE_SA_REQ_SENT] (only parsing).
Notation ADM_process_informational_response :=
  [ST_DEL_CHILD_REQ_SENT; ST_DEL_IKE_SA_REQ_SENT; ST_DPD_REQ_SENT; ST_DEL_AFTER_REKEY_IKE_SA_REQ_SENT] (only parsing).
Notation ADM_generate_established := [ST_ESTABLISHED] (only parsing).
Notation ADM_generate_delete_ike_sa_request := [ST_ESTABLISHED; ST_REKEYED] (only parsing).
Notation ADM_generate_ike_sa_init_request := [ST_INITIAL] (only parsing).
Notation ADM_generate_ike_auth_request := [ST_INIT_REQ_SENT] (only parsing).

(* ------------------------------------------------------------------------------------------------ *)
Section Handlers.
  Variable E : env.

  Definition spi_i_of (c : core) : bytes := if c_init c then my_spi_b c else peer_spi_b c.
  Definition spi_r_of (c : core) : bytes := if c_init c then peer_spi_b c else my_spi_b c.

  (** IkeSa.__init__ (the handler-owned part): os.urandom(8), time.time(), random.uniform(0, 5) *)
  Definition new_core (is_init : bool) (peer_spi : bytes) (c : core) : H core :=
    spi <- draw_bytes ;;
    j <- draw_num ;;
    s <- get ;;
    ret (mk_core ST_INITIAL is_init spi peer_spi (my_addr c) (peer_addr c) (cfg c) None None None [] None None None
                 None None None None None (now s + cf_dpd (cfg c)) (now s + cf_life (cfg c) + j)
                 (now s + cf_life (cfg c) + j + DELETE_AFTER) false).

  Definition check_in_states (l : list Z) : H unit :=
    c <- getc ;; if memZ (st c) l then ret tt else raise X_StateError.
  Definition assert_state (l : list Z) : H unit :=
    c <- getc ;; if memZ (st c) l then ret tt else raise X_Other.
  Definition set_state (z : Z) : H unit := modc (fun c => c <| st := z |>).

  (** generate_ike_sa_key_material on a core: keyring, my_crypto, peer_crypto *)
  Definition gen_ike_keys (c : core) (p : proposal) (ni nr spi_i spi_r secret : bytes) (old : option bytes)
    : res core :=
    match e_ike_keys E p ni nr spi_i spi_r secret old with
    | None => Raise X_Other
    | Some k => Ok (c <| kr := Some k |> <| cprop := Some p |>)
    end.

  Definition select_best (mine : proposal) (ps : list proposal) : H proposal :=
    match flat_map (fun p => match intersection mine p with Some i => [i] | None => [] end) ps with
    | i :: _ => ret i
    | [] => raise X_NoProposalChosen
    end.


  (** operate on self ([w] = false) or on self.new_ike_sa ([w] = true; AttributeError when it is None) *)
  Definition getw (w : bool) : H core := s <- get ;; if w then of_opt (new_sa s) X_Other else ret (co s).
  Definition modw (w : bool) (f : core -> core) : H unit :=
    if w then modify (fun s => s <| new_sa := option_map f (new_sa s) |>) else modc f.

  (** PayloadNONCE(): SystemRandom().randrange(16, 256), os.urandom(length) *)
  Definition fresh_nonce : H bytes := _ <- draw_num ;; draw_bytes.

  Definition spiZ (b : bytes) : Z := Z.of_N (be_decode b).
  Definition hdr_of (c : core) (exch : Z) (resp : bool) (id : Z) : hdr :=
    mk_hdr (spiZ (spi_i_of c)) (spiZ (spi_r_of c)) GEN_MAJOR GEN_MINOR exch resp (c_init c) id.

  Definition VENDOR_ID : bytes := [112; 121; 105; 107; 101; 118; 50; 45; 48; 46; 49]%N.   (* b'pyikev2-0.1' *)

  Definition gen_keys (w : bool) (p : proposal) (ni nr spi_i spi_r secret : bytes) (old : option bytes) : H unit :=
    match e_ike_keys E p ni nr spi_i spi_r secret old with
    | None => raise X_Other
    | Some k => modw w (fun c => c <| kr := Some k |> <| cprop := Some p |>)
    end.

  Definition nonce_of (p : payload) : bytes := match p with P_NONCE n => n | _ => [] end.
  Definition ke_of (p : payload) : Z * bytes := match p with P_KE g d => (g, d) | _ => (0, []) end.
  Definition tsl_of (p : payload) : list ts := match p with P_TSi l => l | P_TSr l => l | _ => [] end.

  (** _process_ike_sa_negotiation_request *)
  Definition ike_nego_request (w : bool) (m : pmsg body) (encrypted : bool) (old : option bytes)
    : H (list payload) :=
    psa <- get_payload m K_SA encrypted ;;
    pn <- get_payload m K_NONCE encrypted ;;
    pke <- get_payload m K_KE encrypted ;;
    c <- getw w ;;
    match cookie_secret c with
     | Some sec =>
         let expected := e_cookie E sec (be_encode 8 (Z.to_N (h_spi_i (p_hdr m))) ++ nonce_of pn
                                         ++ e_addr_packed E (peer_addr c)) in
         match get_notifies m N_COOKIE false with
         | P_NOTIFY _ _ _ d :: _ => if bytes_eqb d expected then ret tt else raise (X_CookieRequired expected)
         | _ => raise (X_CookieRequired expected)
         end
     | None => ret tt
     end ;;;
    ch0 <- select_best (cf_prop (cfg c)) (sa_props psa) ;;
    let ch := if nonempty (pr_spi ch0) then ch0 <| pr_spi := my_spi_b c |> else ch0 in
    modw w (fun c => c <| chosen := Some ch |>) ;;;
    nr <- fresh_nonce ;;
    dht <- get_transform ch T_DH ;;
    let '(ke_g, ke_d) := ke_of pke in
    (if Z.eqb (tr_id dht) ke_g then ret tt else raise (X_InvalidKe (tr_id dht))) ;;;
    hp <- draw_dh ke_g ;;
    secret <- of_opt (e_dh_secret E ke_g (fst hp) ke_d) X_Other ;;
    gen_keys w ch (nonce_of pn) nr (peer_spi_b c) (my_spi_b c) secret old ;;;
    ret [P_SA [ch]; P_NONCE nr; P_KE ke_g (snd hp)].

  (** _generate_ike_sa_negotiation_request *)
  Definition gen_ike_nego_request (w : bool) : H (list payload) :=
    c <- getw w ;;
    let ch := (cf_prop (cfg c)) <| pr_spi := my_spi_b c |> in
    modw w (fun c => c <| chosen := Some ch |>) ;;;
    n <- fresh_nonce ;;
    dht <- get_transform ch T_DH ;;
    hp <- draw_dh (tr_id dht) ;;
    modw w (fun c => c <| dh := Some (tr_id dht, fst hp) |>) ;;;
    ret [P_SA [ch]; P_NONCE n; P_KE (tr_id dht) (snd hp)].

  (** process_ike_sa_negotiation_response *)
  Definition ike_nego_response (w : bool) (m : pmsg body) (nonce : bytes) (encrypted : bool) (old : option bytes)
    : H unit :=
    psa <- get_payload m K_SA encrypted ;;
    pn <- get_payload m K_NONCE encrypted ;;
    pke <- get_payload m K_KE encrypted ;;
    c <- getw w ;;
    p0 <- first_prop psa ;;
    ch <- of_opt (chosen c) X_Other ;;
    (if prop_is_subset p0 ch then ret tt else raise X_NoProposalChosen) ;;;
    let pspi := match old with None => be_encode 8 (Z.to_N (h_spi_r (p_hdr m))) | Some _ => pr_spi p0 end in
    modw w (fun c => c <| chosen := Some p0 |> <| peer_spi_b := pspi |>) ;;;
    d <- of_opt (dh c) X_Other ;;
    secret <- of_opt (e_dh_secret E (fst d) (snd d) (snd (ke_of pke))) X_Other ;;
    gen_keys w p0 nonce (nonce_of pn) (my_spi_b c) pspi secret old.

  Definition abort_on_error_notifies (m : pmsg body) (encrypted : bool) (ignore : list Z) : H unit :=
    if existsb (fun p => (notify_ty p <? 16384) && negb (memZ (notify_ty p) ignore))
               (get_payloads m K_NOTIFY encrypted)
    then raise X_IkeSaError else ret tt.

  (** AUTH *)
  Definition id_bytes (t : Z) (d : bytes) : bytes := [Z.to_N t; 0; 0; 0]%N ++ d.
  Definition my_sk_p (c : core) : H bytes :=
    k <- of_opt (kr c) X_Other ;; _ <- of_opt (cprop c) X_Other ;; ret (if c_init c then sk_pi k else sk_pr k).
  Definition peer_sk_p (c : core) : H bytes :=
    k <- of_opt (kr c) X_Other ;; _ <- of_opt (cprop c) X_Other ;; ret (if c_init c then sk_pr k else sk_pi k).
  Definition signed_octets (cp : proposal) (msgdata nonce : bytes) (idt : Z) (idd : bytes) (skp : bytes) : bytes :=
    msgdata ++ nonce ++ e_prf E cp skp (id_bytes idt idd).
  Definition psk_auth (cp : proposal) (psk octets : bytes) : bytes := e_prf E cp (e_prf E cp psk KEYPAD) octets.
  Definition gen_auth (msgdata nonce : bytes) (idt : Z) (idd : bytes) (skp : bytes) : H payload :=
    c <- getc ;;
    cp <- of_opt (cprop c) X_Other ;;
    let octets := signed_octets cp msgdata nonce idt idd skp in
    let a := cf_my_auth (cfg c) in
    if a_priv a then ret (P_AUTH AUTH_RSA (e_sign E octets))
    else if truthy (a_psk a) then
      ret (P_AUTH AUTH_PSK (psk_auth cp (match a_psk a with Some k => k | None => [] end) octets))
    else raise X_AuthFailed.
  Definition verify_auth (pa : payload) (msgdata nonce : bytes) (idt : Z) (idd : bytes) (skp : bytes) : H unit :=
    c <- getc ;;
    cp <- of_opt (cprop c) X_Other ;;
    let octets := signed_octets cp msgdata nonce idt idd skp in
    let a := cf_peer_auth (cfg c) in
    match pa with
    | P_AUTH meth data =>
        if Z.eqb meth AUTH_PSK && truthy (a_psk a) then
          if bytes_eqb (psk_auth cp (match a_psk a with Some k => k | None => [] end) octets) data
          then ret tt else raise X_AuthFailed
        else if Z.eqb meth AUTH_RSA && a_pub a then
          if e_verify E data octets then ret tt else raise X_AuthFailed
        else raise X_AuthFailed
    | _ => raise X_Other
    end.
  Definition ser_opt (m : option amsg) : H bytes :=
    match m with Some x => ret (e_ser E x) | None => raise X_Other end.
  Definition check_peer_id (p : payload) : H (Z * bytes) :=
    c <- getc ;;
    let a := cf_peer_auth (cfg c) in
    match p with
    | P_IDi t d | P_IDr t d =>
        if negb (Z.eqb t (a_id_type a)) then raise X_AuthFailed
        else if negb (bytes_eqb d (a_id_data a)) then raise X_AuthFailed
        else ret (t, d)
    | _ => raise X_Other
    end.

  (** kernel *)
  Definition ipsec_proto (p : proposal) : Z := if Z.eqb (pr_proto p) PROTO_ESP then 50 else 51.
  Definition one_ts (l : list ts) : H ts := match l with [t] => ret t | _ => raise X_Other end.
  Definition create_child_sa (ch : child) (k : ckeyring) (is_init : bool) : H unit :=
    c <- getc ;;
    tsi <- one_ts (c_tsi ch) ;;
    tsr <- one_ts (c_tsr ch) ;;
    let proto := ipsec_proto (c_prop ch) in
    (if Z.eqb proto 50 then
       t <- get_transform (c_prop ch) T_ENCR ;; if Z.eqb (tr_id t) 12 then ret tt else raise X_Other
     else ret tt) ;;;
    ti <- get_transform (c_prop ch) T_INTEG ;;
    (if memZ (tr_id ti) [1; 2; 12; 14] then ret tt else raise X_Other) ;;;
    life <- (if Z.eqb (c_life ch) (-1) then ret (-1) else (j <- draw_num ;; ret (c_life ch + j))) ;;
    let '(kei, ker, kai, kar) :=
      if is_init then (ck_ei k, ck_er k, ck_ai k, ck_ar k) else (ck_er k, ck_ei k, ck_ar k, ck_ai k) in
    (* the peer's SPI goes into a 4-byte ctypes field: any other length raises TypeError before a request is built *)
    (if Nat.eqb (length (c_out ch)) 4 then ret tt else raise X_Other) ;;;
    v1 <- draw_verdict ;;
    emit (K_add (mk_ksa (c_out ch) (my_addr c) (peer_addr c) proto (c_mode ch) tsi tsr (c_prop ch) kei kai life) v1) ;;;
    (if v1 then ret tt else raise X_Netlink) ;;;
    v2 <- draw_verdict ;;
    emit (K_add (mk_ksa (c_in ch) (peer_addr c) (my_addr c) proto (c_mode ch) tsr tsi (c_prop ch) ker kar life) v2) ;;;
    if v2 then ret tt
    else (v3 <- draw_verdict ;; emit (K_del (peer_addr c) proto (c_out ch) v3) ;;; raise X_Netlink).
  Definition delete_child_sa (ch : child) : H unit :=
    c <- getc ;;
    let proto := ipsec_proto (c_prop ch) in
    (if Nat.eqb (length (c_out ch)) 4 then ret tt else raise X_Other) ;;;
    v1 <- draw_verdict ;; emit (K_del (peer_addr c) proto (c_out ch) v1) ;;;
    v2 <- draw_verdict ;; emit (K_del (my_addr c) proto (c_in ch) v2).

  Definition find_child (l : list child) (spi : bytes) : option child :=
    find (fun x => bytes_eqb spi (c_in x) || bytes_eqb spi (c_out x)) l.
  Fixpoint remove_child (l : list child) (x : child) : list child :=
    match l with [] => [] | y :: r => if child_eqb y x then r else y :: remove_child r x end.
  Definition child_in (x : child) (l : list child) : bool := existsb (fun y => child_eqb y x) l.
  Definition opt_child_eqb (a : child) (b : option child) : bool :=
    match b with Some y => child_eqb a y | None => false end.

  (** _get_ipsec_configuration *)
  Fixpoint find_larger (tsi tsr : ts) (l : list protect) : option protect :=
    match l with
    | [] => None
    | p :: r => if ts_is_subset tsi (pt_peer_ts p) && ts_is_subset tsr (pt_my_ts p) then Some p else find_larger tsi tsr r
    end.
  Fixpoint find_smaller (tsi tsr : ts) (l : list protect) : option protect :=
    match l with
    | [] => None
    | p :: r => if ts_is_subset (pt_peer_ts p) tsi && ts_is_subset (pt_my_ts p) tsr then Some p else find_smaller tsi tsr r
    end.
  Fixpoint conf_for_tsr (l : list protect) (tsi : ts) (tsrs : list ts) : option (protect * ts * ts) :=
    match tsrs with
    | [] => None
    | tsr :: r =>
        match find_larger tsi tsr l with
        | Some p => Some (p, tsr, tsi)
        | None => match find_smaller tsi tsr l with
                  | Some p => Some (p, pt_my_ts p, pt_peer_ts p)
                  | None => conf_for_tsr l tsi r
                  end
        end
    end.
  Fixpoint conf_for_tsi (l : list protect) (tsis tsrs : list ts) : option (protect * ts * ts) :=
    match tsis with
    | [] => None
    | tsi :: r => match conf_for_tsr l tsi tsrs with Some x => Some x | None => conf_for_tsi l r tsrs end
    end.
  Definition get_ipsec_configuration (l : list protect) (tsis tsrs : list ts) : H (protect * ts * ts) :=
    of_opt (conf_for_tsi l (rev tsis) (rev tsrs)) X_TsUnacceptable.

  Definition opt_nonce (exch : Z) (m : pmsg body) : H (bytes * bytes * list payload) :=
    c <- getc ;;
    if Z.eqb exch EX_IKE_AUTH then
      a <- amsg_nonce (init_req c) ;; b <- amsg_nonce (init_res c) ;; ret (a, b, [])
    else
      pn <- get_payload m K_NONCE true ;; nr <- fresh_nonce ;; ret (nonce_of pn, nr, [P_NONCE nr]).

  (** the body of _process_create_child_sa_negotiation_req (inside its try) *)
  Definition child_nego_req_body (m : pmsg body) : H (list payload) :=
    let exch := h_exch (p_hdr m) in
    psa <- get_payload m K_SA true ;;
    ptsi <- get_payload m K_TSi true ;;
    ptsr <- get_payload m K_TSr true ;;
    c <- getc ;;
    (if child_request_while_ike_busy (st c) then raise X_TemporaryFailure else ret tt) ;;;
    r0 <- match get_notifies m N_REKEY_SA true with
          | P_NOTIFY nproto _ nspi _ :: _ =>
              match find_child (children c) nspi with
              | None => raise (X_ChildSaNotFound nspi nproto)
              | Some rk =>
                  if rekey_child_being_deleted (st c) (opt_child_eqb rk (deleting c)) then raise X_TemporaryFailure
                  else if rekey_child_being_rekeyed (st c) (opt_child_eqb rk (rekeying c)) then raise X_TemporaryFailure
                  else if negb (tsl_eqb (tsl_of ptsi) (c_tsr rk)) || negb (tsl_eqb (tsl_of ptsr) (c_tsi rk))
                  then raise X_TsUnacceptable
                  else p0 <- first_prop psa ;; ret [P_NOTIFY (pr_proto p0) N_REKEY_SA (c_in rk) []]
              end
          | _ => ret []
          end ;;
    nn <- opt_nonce exch m ;;
    let '(n_req, n_res, r1) := nn in
    sel <- get_ipsec_configuration (cf_protect (cfg c)) (tsl_of ptsi) (tsl_of ptsr) ;;
    let '(pc, chosen_tsr, chosen_tsi) := sel in
    let transport := nonempty (get_notifies m N_USE_TRANSPORT_MODE true) in
    let mode := if transport then MODE_TRANSPORT else MODE_TUNNEL in
    let r2 := if transport then [P_NOTIFY PROTO_NONE N_USE_TRANSPORT_MODE [] []] else [] in
    (if Z.eqb (pt_mode pc) mode then ret tt else raise X_TsUnacceptable) ;;;
    let mine := if Z.eqb exch EX_IKE_AUTH then copy_without_dh (pt_prop pc) else pt_prop pc in
    ch <- select_best mine (sa_props psa) ;;
    kk <- (if nonempty (get_transforms ch T_DH) then
             pke <- get_payload m K_KE true ;;
             dht <- get_transform ch T_DH ;;
             let '(ke_g, ke_d) := ke_of pke in
             (if Z.eqb (tr_id dht) ke_g then ret tt else raise (X_InvalidKe (tr_id dht))) ;;;
             hp <- draw_dh ke_g ;;
             secret <- of_opt (e_dh_secret E ke_g (fst hp) ke_d) X_Other ;;
             ret (secret ++ n_req ++ n_res, [P_KE ke_g (snd hp)])
           else ret (n_req ++ n_res, [])) ;;
    let '(keyseed, r3) := kk in
    k <- of_opt (kr c) X_Other ;;
    cp <- of_opt (cprop c) X_Other ;;
    ck <- of_opt (e_child_keys E cp ch keyseed (sk_d k)) X_Other ;;
    inb <- draw_bytes ;;
    let child0 := mk_child inb (pr_spi ch) (pt_prop pc) ch [chosen_tsr] [chosen_tsi] mode (pt_life pc) in
    create_child_sa child0 ck false ;;;
    let ch' := ch <| pr_spi := inb |> in
    modc (fun c => c <| children := children c ++ [child0 <| c_prop := ch' |>] |>) ;;;
    ret (r0 ++ r1 ++ r2 ++ r3 ++ [P_SA [ch']; P_TSi [chosen_tsi]; P_TSr [chosen_tsr]]).

  (** _process_create_child_sa_negotiation_req: the two except clauses *)
  Definition child_nego_req (m : pmsg body) : H (list payload) :=
    try_catch (child_nego_req_body m)
      (fun e => match e with
                | X_TsUnacceptable | X_NoProposalChosen | X_ChildSaNotFound _ _ | X_TemporaryFailure | X_InvalidKe _ =>
                    Some (ret [notify_of e])
                | X_Netlink => Some (ret [P_NOTIFY PROTO_NONE N_NO_PROPOSAL_CHOSEN [] []])
                | _ => if is_ikesa_error e then Some (ret [P_NOTIFY PROTO_NONE N_NO_PROPOSAL_CHOSEN [] []]) else None
                end).

  (** _generate_child_sa_negotiation_req *)
  Definition gen_child_nego_req (ch : child) : H (list payload) :=
    let p := (c_prop ch) <| pr_spi := c_in ch |> in
    r <- match get_transforms p T_DH with
         | [] => ret []
         | t :: _ => hp <- draw_dh (tr_id t) ;;
                     modc (fun c => c <| dh := Some (tr_id t, fst hp) |>) ;;;
                     ret [P_KE (tr_id t) (snd hp)]
         end ;;
    ret ([P_TSi (c_tsi ch); P_TSr (c_tsr ch); P_SA [p]] ++ r
         ++ (if Z.eqb (c_mode ch) MODE_TRANSPORT then [P_NOTIFY PROTO_NONE N_USE_TRANSPORT_MODE [] []] else [])).

  Definition set_request (exch : Z) (ps : list payload) : H (Z * list payload) :=
    modc (fun c => c <| request := Some (exch, ps) |>) ;;; ret (exch, ps).

  Definition generate_delete_child_sa_request (ch : child) : H (Z * list payload) :=
    assert_state ADM_generate_established ;;;
    r <- set_request EX_INFORMATIONAL [P_DELETE (pr_proto (c_prop ch)) [c_in ch]] ;;
    modc (fun c => c <| st := ST_DEL_CHILD_REQ_SENT |> <| deleting := Some ch |>) ;;;
    ret r.

  Definition generate_create_child_sa_request (ch : child) (rekeyed : option child) : H (Z * list payload) :=
    assert_state ADM_generate_established ;;;
    modc (fun c => c <| creating := Some ch |>) ;;;
    cps <- gen_child_nego_req ch ;;
    cps' <- match rekeyed with
            | Some rk => modc (fun c => c <| rekeying := Some rk |>) ;;;
                         ret (P_NOTIFY (pr_proto (c_prop rk)) N_REKEY_SA (c_in rk) [] :: cps)
            | None => ret cps
            end ;;
    n <- fresh_nonce ;;
    r <- set_request EX_CREATE_CHILD_SA (cps' ++ [P_NONCE n]) ;;
    set_state (match rekeyed with None => ST_NEW_CHILD_REQ_SENT | Some _ => ST_REK_CHILD_REQ_SENT end) ;;;
    ret r.

  Definition generate_dpd_request : H (Z * list payload) :=
    assert_state ADM_generate_established ;;;
    r <- set_request EX_INFORMATIONAL [] ;;
    set_state ST_DPD_REQ_SENT ;;; ret r.

  Definition generate_delete_ike_sa_request : H (Z * list payload) :=
    assert_state ADM_generate_delete_ike_sa_request ;;;
    r <- set_request EX_INFORMATIONAL [P_DELETE PROTO_IKE []] ;;
    c <- getc ;;
    set_state (if Z.eqb (st c) ST_ESTABLISHED then ST_DEL_IKE_SA_REQ_SENT else ST_DEL_AFTER_REKEY_IKE_SA_REQ_SENT) ;;;
    ret r.

  Definition generate_ike_sa_init_request (ch : child) : H (Z * list payload) :=
    assert_state ADM_generate_ike_sa_init_request ;;;
    ps <- gen_ike_nego_request false ;;
    r <- set_request EX_IKE_SA_INIT (ps ++ [P_VENDOR VENDOR_ID]) ;;
    set_state ST_INIT_REQ_SENT ;;;
    c <- getc ;;
    modc (fun c' => c' <| init_req := Some (hdr_of c EX_IKE_SA_INIT false 0, body_of EX_IKE_SA_INIT (snd r)) |>
                       <| creating := Some ch |>) ;;;
    ret r.

  Definition generate_rekey_ike_sa_request : H (Z * list payload) :=
    assert_state ADM_generate_established ;;;
    c <- getc ;;
    nc <- new_core true [] c ;;
    modify (fun s => s <| new_sa := Some nc |>) ;;;
    ps <- gen_ike_nego_request true ;;
    r <- set_request EX_CREATE_CHILD_SA ps ;;
    set_state ST_REK_IKE_SA_REQ_SENT ;;; ret r.

  Definition generate_ike_auth_request : H (Z * list payload) :=
    assert_state ADM_generate_ike_auth_request ;;;
    c <- getc ;;
    cr <- of_opt (creating c) X_Other ;;
    cps <- gen_child_nego_req cr ;;
    let a := cf_my_auth (cfg c) in
    nonce_r <- amsg_nonce (init_res c) ;;
    reqd <- ser_opt (init_req c) ;;
    skp <- my_sk_p c ;;
    pa <- gen_auth reqd nonce_r (a_id_type a) (a_id_data a) skp ;;
    r <- set_request EX_IKE_AUTH (cps ++ [P_IDi (a_id_type a) (a_id_data a); pa]) ;;
    set_state ST_AUTH_REQ_SENT ;;; ret r.

  (** handle_invalid_ke: returns the new DH and the regenerated request (same payload objects, KE rewritten) *)
  Fixpoint replace_ke (ps : list payload) (g : Z) (pub : bytes) : list payload :=
    match ps with
    | [] => []
    | P_KE _ _ :: r => P_KE g pub :: r
    | p :: r => p :: replace_ke r g pub
    end.
  Definition handle_invalid_ke (nots : list payload) : H ((Z * bytes) * (Z * list payload)) :=
    c <- getc ;;
    req <- of_opt (request c) X_Other ;;
    psa <- req_get req K_SA ;;
    mine <- first_prop psa ;;
    data <- match nots with P_NOTIFY _ _ _ d :: _ => ret d | _ => raise X_Other end ;;
    (if Nat.eqb (length data) 2 then ret tt else raise X_Other) ;;;
    let g := Z.of_N (be_decode data) in
    (if memZ g (map tr_id (get_transforms mine T_DH)) then ret tt else raise X_NoProposalChosen) ;;;
    hp <- draw_dh g ;;
    _ <- req_get req K_KE ;;
    let ps' := replace_ke (snd req) g (snd hp) in
    modc (fun c => c <| request := Some (fst req, ps') |>) ;;;
    ret ((g, fst hp), (fst req, ps')).

  (** _process_create_child_sa_negotiation_res *)
  Definition child_nego_res (m : pmsg body) : H unit :=
    let exch := h_exch (p_hdr m) in
    (if existsb (fun ty => nonempty (get_notifies m ty true))
                [N_NO_PROPOSAL_CHOSEN; N_TS_UNACCEPTABLE; N_CHILD_SA_NOT_FOUND; N_TEMPORARY_FAILURE; N_NO_ADDITIONAL_SAS]
     then raise X_ChildRejected else ret tt) ;;;
    psa <- get_payload m K_SA true ;;
    ptsi <- get_payload m K_TSi true ;;
    ptsr <- get_payload m K_TSr true ;;
    let transport := nonempty (get_notifies m N_USE_TRANSPORT_MODE true) in
    c <- getc ;;
    nn <- (if Z.eqb exch EX_IKE_AUTH then
             a <- amsg_nonce (init_req c) ;; b <- amsg_nonce (init_res c) ;; ret (a, b)
           else
             req <- of_opt (request c) X_Other ;;
             a <- req_get req K_NONCE ;; b <- get_payload m K_NONCE true ;; ret (nonce_of a, nonce_of b)) ;;
    let '(n_req, n_res) := nn in
    cr <- of_opt (creating c) X_Other ;;
    let mode := if transport then MODE_TRANSPORT else MODE_TUNNEL in
    (if Z.eqb (c_mode cr) mode then ret tt else raise X_TsUnacceptable) ;;;
    let mine := if Z.eqb exch EX_IKE_AUTH then copy_without_dh (c_prop cr) else c_prop cr in
    ch <- first_prop psa ;;
    (match intersection mine ch with
     | Some i => if prop_eqb i ch then ret tt else raise X_NoProposalChosen
     | None => raise X_NoProposalChosen
     end) ;;;
    keyseed <- (if nonempty (get_transforms ch T_DH) then
                  pke <- get_payload m K_KE true ;;
                  d <- of_opt (dh c) X_Other ;;
                  secret <- of_opt (e_dh_secret E (fst d) (snd d) (snd (ke_of pke))) X_Other ;;
                  ret (secret ++ n_req ++ n_res)
                else ret (n_req ++ n_res)) ;;
    k <- of_opt (kr c) X_Other ;;
    cp <- of_opt (cprop c) X_Other ;;
    ck <- of_opt (e_child_keys E cp ch keyseed (sk_d k)) X_Other ;;
    ctsi <- match tsl_of ptsi with t :: _ => ret t | [] => raise X_Other end ;;
    ctsr <- match tsl_of ptsr with t :: _ => ret t | [] => raise X_Other end ;;
    (if existsb (ts_is_subset ctsi) (c_tsi cr) && existsb (ts_is_subset ctsr) (c_tsr cr) then ret tt
     else raise X_TsUnacceptable) ;;;
    let cr' := cr <| c_out := pr_spi ch |> <| c_prop := ch |> <| c_tsi := [ctsi] |> <| c_tsr := [ctsr] |> in
    modc (fun c => c <| creating := Some cr' |>) ;;;
    create_child_sa cr' ck true ;;;
    modc (fun c => c <| children := children c ++ [cr'] |>).

  (* ---------------------------------------------------------------------------------------------- *)
  (** ** Request handlers *)

  Definition process_ike_sa_init_request (m : pmsg body) : H (list payload) :=
    check_in_states ADM_process_ike_sa_init_request ;;;
    ps <- ike_nego_request false m false None ;;
    let ps' := ps ++ [P_VENDOR VENDOR_ID] in
    set_state ST_INIT_RES_SENT ;;;
    c <- getc ;;
    modc (fun c' => c' <| init_req := Some (p_hdr m, p_body m) |>
                       <| init_res := Some (hdr_of c EX_IKE_SA_INIT true (h_id (p_hdr m)),
                                            body_of EX_IKE_SA_INIT ps') |>) ;;;
    ret ps'.

  Definition process_ike_auth_request (m : pmsg body) : H (list payload) :=
    check_in_states ADM_process_ike_auth_request ;;;
    pid <- get_payload m K_IDi true ;;
    pa <- get_payload m K_AUTH true ;;
    c <- getc ;;
    _ <- ser_opt (init_req c) ;; _ <- ser_opt (init_res c) ;;
    id <- check_peer_id pid ;;
    nonce_res <- amsg_nonce (init_res c) ;;
    reqd <- ser_opt (init_req c) ;;
    pskp <- peer_sk_p c ;;
    verify_auth pa reqd nonce_res (fst id) (snd id) pskp ;;;
    rps <- child_nego_req m ;;
    let a := cf_my_auth (cfg c) in
    nonce_req <- amsg_nonce (init_req c) ;;
    resd <- ser_opt (init_res c) ;;
    skp <- my_sk_p c ;;
    pauth <- gen_auth resd nonce_req (a_id_type a) (a_id_data a) skp ;;
    set_state ST_ESTABLISHED ;;;
    ret (rps ++ [P_IDr (a_id_type a) (a_id_data a); pauth]).

  Definition states_range (lo hi : Z) : list Z := filter (fun z => (lo <=? z) && (z <? hi)) all_states.

  Fixpoint delete_spis (proto : Z) (spis : list bytes) (acc : list payload) : H (list payload) :=
    match spis with
    | [] => ret acc
    | spi :: r =>
        c <- getc ;;
        match find_child (children c) spi with
        | Some ch =>
            if Z.eqb (pr_proto (c_prop ch)) proto then
              delete_child_sa ch ;;;
              modc (fun c => c <| children := remove_child (children c) ch |>) ;;;
              delete_spis proto r (acc ++ [P_DELETE proto [c_in ch]])
            else delete_spis proto r acc
        | None => delete_spis proto r acc
        end
    end.
  Fixpoint delete_loop (dels : list payload) (acc : list payload) : H (list payload) :=
    match dels with
    | [] => ret acc
    | P_DELETE proto spis :: r =>
        if Z.eqb proto PROTO_IKE then set_state ST_DELETED ;;; ret []
        else if Z.eqb proto PROTO_AH || Z.eqb proto PROTO_ESP then
          acc' <- delete_spis proto spis acc ;; delete_loop r acc'
        else delete_loop r acc
    | _ :: r => delete_loop r acc
    end.
  Definition process_informational_request (m : pmsg body) : H (list payload) :=
    check_in_states (states_range ST_ESTABLISHED (ST_REKEYED + 1)) ;;;
    delete_loop (get_payloads m K_DELETE true) [].

  Definition process_create_child_sa_request (m : pmsg body) : H (list payload) :=
    check_in_states (states_range ST_ESTABLISHED ST_REKEYED) ;;;
    psa <- get_payload m K_SA true ;;
    p0 <- first_prop psa ;;
    if Z.eqb (pr_proto p0) PROTO_IKE then
      c <- getc ;;
      if ike_rekey_while_busy (st c) then ret [notify_of X_TemporaryFailure]
      else
        nc <- new_core false (pr_spi p0) c ;;
        modify (fun s => s <| new_sa := Some nc |>) ;;;
        k <- of_opt (kr c) X_Other ;;
        rps <- ike_nego_request true m true (Some (sk_d k)) ;;
        modify (fun s => s <| new_sa := option_map (fun n => n <| children := children (co s) |>
                                                                   <| st := ST_ESTABLISHED |>) (new_sa s) |>
                           <| co := (co s) <| children := [] |> <| st := ST_REKEYED |> |>) ;;;
        ret rps
    else child_nego_req m.

  (* ---------------------------------------------------------------------------------------------- *)
  (** ** Response handlers: the result is the follow-up request, if any *)

  Definition process_ike_sa_init_response (m : pmsg body) : H (option (Z * list payload)) :=
    check_in_states ADM_process_ike_sa_init_response ;;;
    match get_notifies m N_INVALID_KE_PAYLOAD false with
    | (_ :: _) as nots =>
        modc (fun c => c <| my_msg_id_reset := true |>) ;;;
        r <- handle_invalid_ke nots ;;
        c <- getc ;;
        modc (fun c' => c' <| dh := Some (fst r) |>
                           <| init_req := Some (hdr_of c EX_IKE_SA_INIT false 0, body_of (fst (snd r)) (snd (snd r))) |>) ;;;
        ret (Some (snd r))
    | [] =>
        match get_notifies m N_COOKIE false with
        | ck :: _ =>
            c <- getc ;;
            req <- of_opt (request c) X_Other ;;
            let ps' := ck :: snd req in
            modc (fun c' => c' <| request := Some (fst req, ps') |>
                               <| init_req := Some (hdr_of c (fst req) false 0, body_of (fst req) ps') |>
                               <| my_msg_id_reset := true |>) ;;;
            ret (Some (fst req, ps'))
        | [] =>
            abort_on_error_notifies m false [] ;;;
            c <- getc ;;
            req <- of_opt (request c) X_Other ;;
            pn <- req_get req K_NONCE ;;
            ike_nego_response false m (nonce_of pn) false None ;;;
            modc (fun c => c <| init_res := Some (p_hdr m, p_body m) |>) ;;;
            r <- generate_ike_auth_request ;;
            ret (Some r)
        end
    end.

  Definition child_res_guarded (m : pmsg body) (after : H (option (Z * list payload)))
    : H (option (Z * list payload)) :=
    try_catch (child_nego_res m ;;; after)
      (fun e => match e with
                | X_ChildRejected => Some (ret None)
                | _ => if is_ikesa_error e then
                         Some (c <- getc ;; cr <- of_opt (creating c) X_Other ;;
                               r <- generate_delete_child_sa_request cr ;; ret (Some r))
                       else None
                end).

  Definition process_ike_auth_response (m : pmsg body) : H (option (Z * list payload)) :=
    check_in_states ADM_process_ike_auth_response ;;;
    abort_on_error_notifies m true [N_NO_PROPOSAL_CHOSEN; N_TS_UNACCEPTABLE] ;;;
    pid <- get_payload m K_IDr true ;;
    pa <- get_payload m K_AUTH true ;;
    id <- check_peer_id pid ;;
    c <- getc ;;
    nonce_req <- amsg_nonce (init_req c) ;;
    resd <- ser_opt (init_res c) ;;
    pskp <- peer_sk_p c ;;
    verify_auth pa resd nonce_req (fst id) (snd id) pskp ;;;
    r <- child_res_guarded m (ret None) ;;
    match r with
    | Some x => ret (Some x)
    | None => set_state ST_ESTABLISHED ;;; ret None
    end.

  Definition CCSA_IGNORE : list Z :=
    [N_TS_UNACCEPTABLE; N_NO_PROPOSAL_CHOSEN; N_NO_ADDITIONAL_SAS; N_SINGLE_PAIR_REQUIRED; N_CHILD_SA_NOT_FOUND;
     N_TEMPORARY_FAILURE; N_INTERNAL_ADDRESS_FAILURE; N_FAILED_CP_REQUIRED; N_INVALID_KE_PAYLOAD; N_INVALID_KE_PAYLOAD].

  Definition process_create_child_sa_response (m : pmsg body) : H (option (Z * list payload)) :=
    check_in_states ADM_process_create_child_sa_response ;;;
    abort_on_error_notifies m true CCSA_IGNORE ;;;
    c <- getc ;;
    let inv := get_notifies m N_INVALID_KE_PAYLOAD true in
    if Z.eqb (st c) ST_REK_IKE_SA_REQ_SENT then
      if nonempty inv then
        r <- handle_invalid_ke inv ;;
        _ <- getw true ;;
        modw true (fun n => n <| dh := Some (fst r) |>) ;;;
        ret (Some (snd r))
      else if nonempty (get_notifies m N_TEMPORARY_FAILURE true) then
        set_state ST_ESTABLISHED ;;;
        j <- draw_num ;;
        modify (fun s => s <| rek_push := Some (now s + j) |>) ;;;
        ret None
      else if nonempty (get_notifies m N_NO_ADDITIONAL_SAS true) then
        set_state ST_ESTABLISHED ;;;
        r <- generate_delete_ike_sa_request ;; ret (Some r)
      else
        _ <- getw true ;;
        req <- of_opt (request c) X_Other ;;
        pn <- req_get req K_NONCE ;;
        k <- of_opt (kr c) X_Other ;;
        ike_nego_response true m (nonce_of pn) true (Some (sk_d k)) ;;;
        modify (fun s => s <| new_sa := option_map (fun n => n <| children := children (co s) |>
                                                                   <| st := ST_ESTABLISHED |>) (new_sa s) |>
                           <| co := (co s) <| children := [] |> <| st := ST_REKEYED |> |>) ;;;
        r <- generate_delete_ike_sa_request ;; ret (Some r)
    else
      if nonempty inv then
        r <- handle_invalid_ke inv ;;
        modc (fun c => c <| dh := Some (fst r) |>) ;;;
        ret (Some (snd r))
      else
        let prev := st c in
        set_state ST_ESTABLISHED ;;;
        child_res_guarded m
          (if Z.eqb prev ST_REK_CHILD_REQ_SENT then
             c' <- getc ;;
             match rekeying c' with
             | Some rk => if child_in rk (children c') then
                            r <- generate_delete_child_sa_request rk ;; ret (Some r)
                          else ret None
             | None => ret None
             end
           else ret None).

  Definition process_informational_response (m : pmsg body) : H (option (Z * list payload)) :=
    check_in_states ADM_process_informational_response ;;;
    abort_on_error_notifies m true [] ;;;
    c <- getc ;;
    if Z.eqb (st c) ST_DEL_CHILD_REQ_SENT then
      match deleting c with
      | Some d =>
          (if child_in d (children c) then
             delete_child_sa d ;;; modc (fun c => c <| children := remove_child (children c) d |>)
           else ret tt) ;;;
          set_state ST_ESTABLISHED ;;; ret None
      | None => set_state ST_ESTABLISHED ;;; ret None
      end
    else if Z.eqb (st c) ST_DEL_IKE_SA_REQ_SENT || Z.eqb (st c) ST_DEL_AFTER_REKEY_IKE_SA_REQ_SENT then
      set_state ST_DELETED ;;; ret None
    else if Z.eqb (st c) ST_DPD_REQ_SENT then set_state ST_ESTABLISHED ;;; ret None
    else ret None.

  (* ---------------------------------------------------------------------------------------------- *)
  (** ** Local triggers (after the admission test of the shell) *)

  Inductive event := E_acquire (tsi tsr : ts) (index : Z) | E_expire (spi : bytes) (hard : bool).

  Definition process_acquire (tsi tsr : ts) (index : Z) : H (option (Z * list payload)) :=
    c <- getc ;;
    match find (fun p => Z.eqb (pt_index p) index) (cf_protect (cfg c)) with
    | None => ret None
    | Some pc =>
        inb <- draw_bytes ;;
        let ch := mk_child inb [0; 0; 0; 0]%N (pt_prop pc) (pt_prop pc) [tsi; pt_my_ts pc] [tsr; pt_peer_ts pc]
                           (pt_mode pc) (pt_life pc) in
        r <- (if Z.eqb (st c) ST_INITIAL then generate_ike_sa_init_request ch
              else generate_create_child_sa_request ch None) ;;
        ret (Some r)
    end.

  Definition process_expire (spi : bytes) (hard : bool) : H (option (Z * list payload)) :=
    c <- getc ;;
    match find_child (children c) spi with
    | None => ret None
    | Some ch =>
        if hard then r <- generate_delete_child_sa_request ch ;; ret (Some r)
        else
          inb <- draw_bytes ;;
          let nch := mk_child inb [0; 0; 0; 0]%N (c_orig ch) (c_orig ch) (c_tsi ch) (c_tsr ch) (c_mode ch) (c_life ch) in
          r <- generate_create_child_sa_request nch (Some ch) ;; ret (Some r)
    end.

  (** IkeSa.delete_child_sas (called by the controller when an IKE_SA is removed) *)
  Fixpoint delete_all (l : list child) : H unit :=
    match l with [] => ret tt | ch :: r => delete_child_sa ch ;;; delete_all r end.
  Definition delete_child_sas : H unit :=
    c <- getc ;; delete_all (children c) ;;; modc (fun c => c <| children := [] |>).

  (* ---------------------------------------------------------------------------------------------- *)
  (** ** The interface of Shell.v, instantiated *)

  Definition stuck_state (s : isa) : isa := s <| co := (co s) <| st := -1 |> |>.   (* visibly outside all_states *)

  Definition request_handler (exch : Z) : option (pmsg body -> H (list payload)) :=
    if Z.eqb exch EX_IKE_SA_INIT then Some process_ike_sa_init_request
    else if Z.eqb exch EX_IKE_AUTH then Some process_ike_auth_request
    else if Z.eqb exch EX_INFORMATIONAL then Some process_informational_request
    else if Z.eqb exch EX_CREATE_CHILD_SA then Some process_create_child_sa_request
    else None.
  Definition response_handler (exch : Z) : option (pmsg body -> H (option (Z * list payload))) :=
    if Z.eqb exch EX_IKE_SA_INIT then Some process_ike_sa_init_response
    else if Z.eqb exch EX_IKE_AUTH then Some process_ike_auth_response
    else if Z.eqb exch EX_CREATE_CHILD_SA then Some process_create_child_sa_response
    else if Z.eqb exch EX_INFORMATIONAL then Some process_informational_response
    else None.

  Definition clear_flags (s : isa) : isa := s <| co := (co s) <| my_msg_id_reset := false |> |>.

  Definition h_request (s : isa) (m : pmsg body) : isa * hout body :=
    let exch := h_exch (p_hdr m) in
    match request_handler exch with
    | None => (s, HErr ([], []))
    | Some f =>
        match f m (clear_flags s) with
        | (Ok ps, s') => (s', HOk (body_of exch ps))
        | (Raise e, s') => (s', HErr (body_of exch [notify_of e]))
        | (Stuck, s') => (stuck_state s', HErr ([], []))
        end
    end.
  Definition h_response (s : isa) (m : pmsg body) : isa * rout body :=
    match response_handler (h_exch (p_hdr m)) with
    | None => (s, RErr false)
    | Some f =>
        match f m (clear_flags s) with
        | (Ok None, s') => (s', ROk None (my_msg_id_reset (co s')))
        | (Ok (Some (e, ps)), s') => (s', ROk (Some (e, body_of e ps)) (my_msg_id_reset (co s')))
        | (Raise _, s') => (s', RErr (my_msg_id_reset (co s')))
        | (Stuck, s') => (stuck_state s', RErr false)
        end
    end.
  Definition lift_gen (f : H (Z * list payload)) (s : isa) : isa * (Z * body) :=
    match f (clear_flags s) with
    | (Ok (e, ps), s') => (s', (e, body_of e ps))
    | (_, s') => (stuck_state s', (0, ([], [])))
    end.
  Definition h_trigger (s : isa) (e : event) : isa * option (Z * body) :=
    match (match e with E_acquire a b i => process_acquire a b i | E_expire spi h => process_expire spi h end)
            (clear_flags s) with
    | (Ok None, s') => (s', None)
    | (Ok (Some (x, ps)), s') => (s', Some (x, body_of x ps))
    | (Raise _, s') => (s', None)
    | (Stuck, s') => (stuck_state s', None)
    end.

  Definition hdl_iface : iface :=
    mk_iface isa body event
             (fun s => st (co s))
             (fun s z => s <| co := (co s) <| st := z |> |>)
             (fun s => match cprop (co s) with Some _ => true | None => false end)
             (fun s => spiZ (peer_spi_b (co s)))
             h_request h_response h_trigger
             (lift_gen generate_dpd_request) (lift_gen generate_delete_ike_sa_request)
             (lift_gen generate_rekey_ike_sa_request)
             (fun e => match e with E_acquire _ _ _ => true | E_expire _ _ => false end).
End Handlers.
