(** Instance of the shell interface used by the correspondence check: the handler-owned part is (state, has keys)
    plus a script of recorded handler outcomes, consumed one per handler invocation (the "environment oracle"). *)
From Coq Require Import ZArith Bool List String.
From VLib Require Import Sx.
From IkeSa Require Import Gen.IkeFacts Shell.
Import ListNotations.
Open Scope Z_scope.

Record outcome := mk_outcome {
  o_st : Z; o_keys : bool; o_peer : Z; o_ok : bool; o_next : option Z; o_reset : bool; o_body : Z }.
Record rinner := mk_rinner { r_st : Z; r_keys : bool; r_peer : Z; r_script : list outcome }.

Definition pop (i : rinner) : rinner * outcome :=
  match r_script i with
  | o :: r => (mk_rinner (o_st o) (o_keys o) (o_peer o) r, o)
  | [] => (i, mk_outcome (r_st i) (r_keys i) (r_peer i) false None false (-1))
  end.

Definition RP : iface := {|
  I := rinner; B := Z; EV := bool;
  istate := r_st;
  set_state := fun i z => mk_rinner z (r_keys i) (r_peer i) (r_script i);
  has_keys := r_keys;
  ipeer_spi := r_peer;
  handle_request := fun i _ => let '(i', o) := pop i in (i', if o_ok o then HOk (o_body o) else HErr (o_body o));
  handle_response := fun i _ =>
    let '(i', o) := pop i in
    (i', if o_ok o then ROk (match o_next o with Some e => Some (e, o_body o) | None => None end) (o_reset o)
         else RErr (o_reset o));
  handle_trigger := fun i _ =>
    let '(i', o) := pop i in (i', match o_next o with Some e => Some (e, o_body o) | None => None end);
  gen_dpd := fun i => let '(i', o) := pop i in (i', (match o_next o with Some e => e | None => -1 end, o_body o));
  gen_delete_ike := fun i => let '(i', o) := pop i in (i', (match o_next o with Some e => e | None => -1 end, o_body o));
  gen_rekey_ike := fun i => let '(i', o) := pop i in (i', (match o_next o with Some e => e | None => -1 end, o_body o));
  ev_is_acquire := fun b => b |}.

Definition hdr_of_sx (x : sx) : option hdr :=
  match x with
  | SxL [SxZ a; SxZ b; SxZ c; SxZ d; SxZ e; SxZ f; SxZ g; SxZ h] =>
      Some (mk_hdr a b c d e (Z.eqb f 1) (Z.eqb g 1) h)
  | _ => None
  end.
Definition sx_of_hdr (h : hdr) : list sx :=
  [SxZ (h_spi_i h); SxZ (h_spi_r h); SxZ (h_major h); SxZ (h_minor h); SxZ (h_exch h); sx_bool (h_resp h);
   sx_bool (h_init h); SxZ (h_id h)].
Definition dgram_of_sx (x : sx) : option (option (dgram Z)) :=
  match x with
  | SxNone => Some None
  | SxL [h; SxZ body] => match hdr_of_sx h with Some h' => Some (Some (mk_dgram h' body)) | None => None end
  | _ => None
  end.
Definition sx_of_dgram (d : option (dgram Z)) : sx :=
  match d with None => SxNone | Some d => SxL [SxL (sx_of_hdr (d_hdr d)); SxZ (d_body d)] end.

Definition outcome_of_sx (x : sx) : option outcome :=
  match x with
  | SxL [SxZ st; SxZ k; SxZ peer; SxZ ok; SxZ hasnext; SxZ nx; SxZ reset; SxZ body] =>
      Some (mk_outcome st (Z.eqb k 1) peer (Z.eqb ok 1) (if Z.eqb hasnext 1 then Some nx else None) (Z.eqb reset 1) body)
  | _ => None
  end.
Fixpoint outcomes_of_sx (l : list sx) : option (list outcome) :=
  match l with
  | [] => Some []
  | x :: r => match outcome_of_sx x, outcomes_of_sx r with Some o, Some os => Some (o :: os) | _, _ => None end
  end.
Fixpoint bools_of_sx (l : list sx) : list bool :=
  match l with [] => [] | SxZ z :: r => Z.eqb z 1 :: bools_of_sx r | _ :: r => bools_of_sx r end.

Definition sa_of_sx (x : sx) (script : list outcome) : option (sa RP) :=
  match x with
  | SxL [SxZ st; SxZ k; SxZ ini; SxZ myspi; SxZ peerspi; SxZ myid; SxZ peerid; lr; rd; SxZ rtat; SxZ rtn;
         SxZ dpdat; SxZ rekat; SxZ delat; SxZ dpdcfg; SxL pend] =>
      match dgram_of_sx lr, dgram_of_sx rd with
      | Some lr', Some rd' =>
          Some (mk_sa RP (mk_rinner st (Z.eqb k 1) peerspi script) (Z.eqb ini 1) myspi myid peerid lr' rd' rtat rtn
                      dpdat rekat delat dpdcfg (bools_of_sx pend))
      | _, _ => None
      end
  | _ => None
  end.

Definition sx_of_result (r : sa RP * option (dgram Z)) : sx :=
  let s := fst r in
  SxL [SxZ (r_st (inner RP s)); sx_bool (r_keys (inner RP s)); SxZ (r_peer (inner RP s)); SxZ (my_id RP s); SxZ (peer_id RP s);
       SxZ (rt_at RP s); SxZ (rt_n RP s); SxZ (dpd_at RP s); SxZ (Z.of_nat (List.length (pending RP s)));
       sx_of_dgram (last_resp RP s); sx_of_dgram (req_data RP s); sx_of_dgram (snd r);
       SxZ (Z.of_nat (List.length (r_script (inner RP s))))].

(** input: SxL [SxZ kind; sa; SxL args; SxL script] *)
Definition run_shell (x : sx) : sx :=
  match x with
  | SxL [SxZ kind; sax; SxL args; SxL script] =>
      match outcomes_of_sx script with
      | None => bad_input
      | Some sc =>
          match sa_of_sx sax sc with
          | None => bad_input
          | Some s =>
              match kind, args with
              | 0, [h; SxZ auth; SxZ now] =>
                  match hdr_of_sx h with
                  | Some h' => sx_of_result (process_message RP s (mk_pmsg h' (Z.eqb auth 1) 0) now)
                  | None => bad_input
                  end
              | 1, [SxZ now] => sx_of_result (check_retransmission RP s now)
              | 2, [SxZ now] => sx_of_result (check_dpd RP s now)
              | 3, [SxZ now] => sx_of_result (check_lifetime RP s now)
              | 4, [SxZ now; SxZ acq] => sx_of_result (process_trigger RP s now (Z.eqb acq 1))
              | _, _ => bad_input
              end
          end
      end
  | _ => bad_input
  end.
