(** C10 model: the bookkeeping of CHILD_SAs against the kernel SAD.

    State: the CHILD_SAs the endpoint tracks, each tagged with the IkeSa object that holds it (table entries and
    not-yet-registered rekey successors alike), and the kernel SAD as the list of installed keys.  A CHILD_SA owns a
    pair of kernel keys (outbound, inbound); a kernel key stands for (destination address, protocol, SPI).

    Operations = the primitive call sites of the code that touch child_sas or the kernel SAD:
      Xfrm.create_child_sa + append (in the order each role uses), Xfrm.delete_child_sa + remove, the hand-over at
      IKE_SA rekey, IkeSa.delete_child_sas + removal of the IKE_SA, the start-up flush.
    The kernel's verdict on every NEWSA is an input (fault injection); NEWSA of a key that is already installed is
    refused (EEXIST); DELSA of a missing key is an error that Xfrm.delete_sa ignores. *)
From Coq Require Import ZArith Bool List.
Import ListNotations.
Open Scope Z_scope.

Definition key := Z.
Record child := mk_child { k_out : key; k_in : key }.
Record st := mk_st { tracked : list (nat * child); sad : list key }.

Definition keys_of_child (c : child) : list key := [k_out c; k_in c].
Definition tracked_keys (s : st) : list key := flat_map (fun oc => keys_of_child (snd oc)) (tracked s).

(** kernel *)
Definition installed (k : key) (sad : list key) : bool := existsb (Z.eqb k) sad.
Definition newsa (k : key) (verdict : bool) (sad : list key) : bool * list key :=
  if installed k sad then (false, sad)                    (* EEXIST *)
  else if verdict then (true, k :: sad) else (false, sad).
Definition delsa (k : key) (sad : list key) : list key := filter (fun x => negb (Z.eqb x k)) sad.

Definition child_eqb (a b : child) : bool := Z.eqb (k_out a) (k_out b) && Z.eqb (k_in a) (k_in b).

(** Xfrm.create_child_sa: outbound first, then inbound; if the inbound one is refused the outbound one is deleted
    again (fix cf7eb06); returns whether both were installed *)
Definition create_child_sa (c : child) (v1 v2 : bool) (sad : list key) : bool * list key :=
  let '(ok1, sad1) := newsa (k_out c) v1 sad in
  if ok1 then
    let '(ok2, sad2) := newsa (k_in c) v2 sad1 in
    if ok2 then (true, sad2) else (false, delsa (k_out c) sad2)
  else (false, sad1).

(** Xfrm.delete_child_sa *)
Definition delete_child_sa (c : child) (sad : list key) : list key := delsa (k_in c) (delsa (k_out c) sad).

(** IkeSa.delete_child_sas followed by the removal of the IKE_SA *)
Definition teardown (s : st) (id : nat) : st :=
  let mine := filter (fun oc => Nat.eqb (fst oc) id) (tracked s) in
  mk_st (filter (fun oc => negb (Nat.eqb (fst oc) id)) (tracked s))
        (fold_left (fun sd oc => delete_child_sa (snd oc) sd) mine (sad s)).

Inductive op :=
| RespInstall (id : nat) (c : child) (v1 v2 : bool)     (* responder: install, then track (only if installed) *)
| InitInstall (id : nat) (c : child) (v1 v2 : bool)     (* initiator: install, then track (only if installed, fix
                                                           d8244e2); a refusal is a generic exception: the IKE_SA
                                                           becomes DELETED and is torn down *)
| DeleteChild (id : nat) (c : child)                    (* delete request / response: DELSA x2, then untrack *)
| Handover (old new : nat)                              (* IKE_SA rekey: the successor takes the list, no kernel call *)
| Teardown (id : nat)                                   (* the IKE_SA ended: delete_child_sas + table removal *)
| Restart.                                              (* a new controller: FLUSHSA, empty table *)

Definition step (s : st) (o : op) : st :=
  match o with
  | RespInstall id c v1 v2 =>
      let '(ok, sad') := create_child_sa c v1 v2 (sad s) in
      if ok then mk_st (tracked s ++ [(id, c)]) sad' else mk_st (tracked s) sad'
  | InitInstall id c v1 v2 =>
      let '(ok, sad') := create_child_sa c v1 v2 (sad s) in
      if ok then mk_st (tracked s ++ [(id, c)]) sad' else teardown (mk_st (tracked s) sad') id
  | DeleteChild id c =>
      mk_st (filter (fun oc => negb (Nat.eqb (fst oc) id && child_eqb (snd oc) c)) (tracked s))
            (delete_child_sa c (sad s))
  | Handover old new =>
      mk_st (map (fun oc => if Nat.eqb (fst oc) old then (new, snd oc) else oc) (tracked s)) (sad s)
  | Teardown id => teardown s id
  | Restart => mk_st [] []
  end.

Definition run (ops : list op) (s : st) : st := fold_left step ops s.

(** what an operation needs in order to be one the code can perform in state [s] *)
Definition op_ok (s : st) (o : op) : Prop :=
  match o with
  | InitInstall _ c _ _ =>
      (* the SPIs of a CHILD_SA being created are fresh (random inbound SPI; outbound SPI chosen by the peer) *)
      ~ In (k_out c) (tracked_keys s) /\ ~ In (k_in c) (tracked_keys s)
  | DeleteChild id c => In (id, c) (tracked s)        (* the code looks the CHILD_SA up in child_sas first *)
  | _ => True
  end.

Fixpoint run_ok (ops : list op) (s : st) : Prop :=
  match ops with
  | [] => True
  | o :: r => op_ok s o /\ run_ok r (step s o)
  end.

Definition Inv (s : st) : Prop :=
  NoDup (tracked_keys s) /\ forall k, In k (sad s) <-> In k (tracked_keys s).
