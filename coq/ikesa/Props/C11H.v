(** C11 on the handler model - algorithm negotiation never selects anything outside both offers (property theorems only).
    Vocabulary (HdlNego.v), each term written out by a [*_def_*] theorem below.  [E] (cryptography), the state, the
    message and the tape are arbitrary. *)
From Coq Require Import ZArith NArith Bool List.
From RecordUpdate Require Import RecordSet.
From VLib Require Import Bytes.
From IkeSa Require Import Gen.IkeFacts Shell Hdl HdlAuth HdlAgree HdlNego.
Import ListNotations RecordSetNotations.
Open Scope Z_scope.

Theorem C11H_def_offer_of :
  forall exch p,
  offer_of exch p = if Z.eqb exch EX_IKE_AUTH then copy_without_dh p else p.
Proof. exact def_offer_of. Qed.
Print Assumptions C11H_def_offer_of.

Theorem C11H_def_first_ok :
  forall mine other ty,
  first_ok mine other ty = find (fun m => Z.eqb (tr_type m) ty && existsb (tr_eqb m) other) mine.
Proof. exact def_first_ok. Qed.
Print Assumptions C11H_def_first_ok.

Theorem C11H_def_all_types_match :
  forall mine peer,
  all_types_match mine peer <->
  forall ty, In ty (map tr_type (pr_trs mine)) -> first_ok (pr_trs mine) (pr_trs peer) ty <> None.
Proof. exact def_all_types_match. Qed.
Print Assumptions C11H_def_all_types_match.

Theorem C11H_def_sel_first :
  forall mine ps,
  sel_first mine ps = match ps with
  | [] => None
  | p :: r => match intersection mine p with Some i => Some i | None => sel_first mine r end
  end.
Proof. exact def_sel_first. Qed.
Print Assumptions C11H_def_sel_first.

Theorem C11H_def_ke_gate :
  forall m ch,
  ke_gate m ch <->
  match get_transforms ch T_DH with
  | [] => True
  | dht :: _ => exists pke, hd_error (get_payloads m K_KE true) = Some pke /\ fst (ke_of pke) = tr_id dht
  end.
Proof. exact def_ke_gate. Qed.
Print Assumptions C11H_def_ke_gate.

Theorem C11H_def_req_mode :
  forall m,
  req_mode m = if nonempty (get_notifies m N_USE_TRANSPORT_MODE true) then MODE_TRANSPORT else MODE_TUNNEL.
Proof. exact def_req_mode. Qed.
Print Assumptions C11H_def_req_mode.

Theorem C11H_def_rekey_gate :
  forall m c psa ptsi ptsr r0,
  rekey_gate m c psa ptsi ptsr r0 <->
  match get_notifies m N_REKEY_SA true with
  | [] => r0 = []
  | n :: _ => exists nproto nspi d rk p0,
  n = P_NOTIFY nproto N_REKEY_SA nspi d /\ find_child (children c) nspi = Some rk /\
  rekey_child_being_deleted (st c) (opt_child_eqb rk (deleting c)) = false /\
  rekey_child_being_rekeyed (st c) (opt_child_eqb rk (rekeying c)) = false /\
  tsl_of ptsi = c_tsr rk /\ tsl_of ptsr = c_tsi rk /\
  hd_error (sa_props psa) = Some p0 /\ r0 = [P_NOTIFY (pr_proto p0) N_REKEY_SA (c_in rk) []]
  end.
Proof. exact def_rekey_gate. Qed.
Print Assumptions C11H_def_rekey_gate.

Theorem C11H_def_resp_pre0 :
  forall m s psa ptsi ptsr r0 nn s1,
  resp_pre0 m s psa ptsi ptsr r0 nn s1 <->
  hd_error (get_payloads m K_SA true) = Some psa /\
  hd_error (get_payloads m K_TSi true) = Some ptsi /\
  hd_error (get_payloads m K_TSr true) = Some ptsr /\
  child_request_while_ike_busy (st (co s)) = false /\
  rekey_gate m (co s) psa ptsi ptsr r0 /\
  opt_nonce (h_exch (p_hdr m)) m s = (Ok nn, s1).
Proof. exact def_resp_pre0. Qed.
Print Assumptions C11H_def_resp_pre0.

Theorem C11H_def_resp_pre :
  forall m s psa ptsi ptsr r0 nn s1 pc ctsr ctsi,
  resp_pre m s psa ptsi ptsr r0 nn s1 pc ctsr ctsi <->
  resp_pre0 m s psa ptsi ptsr r0 nn s1 /\
  conf_for_tsi (cf_protect (cfg (co s))) (rev (tsl_of ptsi)) (rev (tsl_of ptsr)) = Some (pc, ctsr, ctsi).
Proof. exact def_resp_pre. Qed.
Print Assumptions C11H_def_resp_pre.

Theorem C11H_def_conf_for_tsi :
  forall l tsis tsrs x,
  conf_for_tsi l (rev tsis) (rev tsrs) = Some x <->
  forall s, get_ipsec_configuration l tsis tsrs s = (Ok x, s).
Proof. exact def_conf_for_tsi. Qed.
Print Assumptions C11H_def_conf_for_tsi.

Theorem C11H_def_ike_choice :
  forall c psa,
  ike_choice c psa = match sel_first (cf_prop (cfg c)) (sa_props psa) with
  | Some ch0 => Some (if nonempty (pr_spi ch0) then ch0 <| pr_spi := my_spi_b c |> else ch0)
  | None => None
  end.
Proof. exact def_ike_choice. Qed.
Print Assumptions C11H_def_ike_choice.

Theorem C11H_def_set_chosen :
  forall ch c,
  set_chosen ch c = c <| chosen := Some ch |>.
Proof. exact def_set_chosen. Qed.
Print Assumptions C11H_def_set_chosen.

Theorem C11H_def_view_upd :
  forall w f s,
  view w s = (if w then new_sa s else Some (co s)) /\
  upd w f s = (if w then s <| new_sa := option_map f (new_sa s) |> else s <| co := f (co s) |>).
Proof. exact def_view_upd. Qed.
Print Assumptions C11H_def_view_upd.

Theorem C11H_def_cookie_block :
  forall E m pn c,
  cookie_block E m pn c =
  match cookie_secret c with
  | Some sec =>
  let expected := e_cookie E sec (be_encode 8 (Z.to_N (h_spi_i (p_hdr m))) ++ nonce_of pn
  ++ e_addr_packed E (peer_addr c)) in
  match get_notifies m N_COOKIE false with
  | P_NOTIFY _ _ _ d :: _ => if bytes_eqb d expected then ret tt else raise (X_CookieRequired expected)
  | _ => raise (X_CookieRequired expected)
  end
  | None => ret tt
  end.
Proof. exact def_cookie_block. Qed.
Print Assumptions C11H_def_cookie_block.

Theorem C11H_def_rejected :
  forall m,
  rejected m = existsb (fun ty => nonempty (get_notifies m ty true))
  [N_NO_PROPOSAL_CHOSEN; N_TS_UNACCEPTABLE; N_CHILD_SA_NOT_FOUND; N_TEMPORARY_FAILURE; N_NO_ADDITIONAL_SAS].
Proof. exact def_rejected. Qed.
Print Assumptions C11H_def_rejected.

Theorem C11H_def_init_pre :
  forall m s psa ptsi ptsr nn cr,
  init_pre m s psa ptsi ptsr nn cr <->
  rejected m = false /\
  hd_error (get_payloads m K_SA true) = Some psa /\
  hd_error (get_payloads m K_TSi true) = Some ptsi /\
  hd_error (get_payloads m K_TSr true) = Some ptsr /\
  res_nonces m (co s) s = (Ok nn, s) /\
  creating (co s) = Some cr.
Proof. exact def_init_pre. Qed.
Print Assumptions C11H_def_init_pre.

Theorem C11H_def_res_nonces :
  forall m c,
  res_nonces m c =
  if Z.eqb (h_exch (p_hdr m)) EX_IKE_AUTH then
  a <- amsg_nonce (init_req c) ;; b <- amsg_nonce (init_res c) ;; ret (a, b)
  else
  req <- of_opt (request c) X_Other ;;
  a <- req_get req K_NONCE ;; b <- get_payload m K_NONCE true ;; ret (nonce_of a, nonce_of b).
Proof. exact def_res_nonces. Qed.
Print Assumptions C11H_def_res_nonces.

Theorem C11H_tr_eqb_eq :
  forall a b,
  tr_eqb a b = true <-> a = b.
Proof. exact tr_eqb_eq. Qed.
Print Assumptions C11H_tr_eqb_eq.

Theorem C11H_intersection_some :
  forall mine peer r,
  intersection mine peer = Some r ->
  pr_proto mine = pr_proto peer /\ pr_proto r = pr_proto mine /\ pr_num r = pr_num peer /\ pr_spi r = pr_spi peer /\
  (forall t, In t (pr_trs r) ->
  In t (pr_trs mine) /\ In t (pr_trs peer) /\ first_ok (pr_trs mine) (pr_trs peer) (tr_type t) = Some t) /\
  NoDup (map tr_type (pr_trs r)) /\
  (forall ty, In ty (map tr_type (pr_trs r)) <-> In ty (map tr_type (pr_trs mine))) /\
  (forall ty, In ty (map tr_type (pr_trs mine)) ->
  exists t, first_ok (pr_trs mine) (pr_trs peer) ty = Some t /\ In t (pr_trs r)) /\
  subseq (pr_trs r) (pr_trs mine).
Proof. exact intersection_some. Qed.
Print Assumptions C11H_intersection_some.

Theorem C11H_intersection_some_iff :
  forall mine peer,
  (exists r, intersection mine peer = Some r) <-> pr_proto mine = pr_proto peer /\ all_types_match mine peer.
Proof. exact intersection_some_iff. Qed.
Print Assumptions C11H_intersection_some_iff.

Theorem C11H_intersection_none_iff :
  forall mine peer,
  intersection mine peer = None <->
  pr_proto mine <> pr_proto peer \/
  exists ty, In ty (map tr_type (pr_trs mine)) /\
  forall m, In m (pr_trs mine) -> tr_type m = ty -> ~ In m (pr_trs peer).
Proof. exact intersection_none_iff. Qed.
Print Assumptions C11H_intersection_none_iff.

Theorem C11H_prop_eqb_iff :
  forall a b,
  prop_eqb a b = true <-> pr_proto a = pr_proto b /\ incl (pr_trs a) (pr_trs b) /\ incl (pr_trs b) (pr_trs a).
Proof. exact prop_eqb_iff. Qed.
Print Assumptions C11H_prop_eqb_iff.

Theorem C11H_accepted_answer :
  forall mine ch i,
  intersection mine ch = Some i -> prop_eqb i ch = true ->
  pr_proto ch = pr_proto mine /\
  (forall t, In t (pr_trs ch) -> In t (pr_trs mine)) /\
  (forall ty, In ty (map tr_type (pr_trs ch)) <-> In ty (map tr_type (pr_trs mine))) /\
  (forall t1 t2, In t1 (pr_trs ch) -> In t2 (pr_trs ch) -> tr_type t1 = tr_type t2 -> t1 = t2).
Proof. exact accepted_answer. Qed.
Print Assumptions C11H_accepted_answer.

Theorem C11H_prop_is_subset_iff :
  forall p q,
  prop_is_subset p q = true <->
  pr_proto p = pr_proto q /\ (forall t, In t (pr_trs p) -> In t (pr_trs q)) /\
  (forall t1 t2, In t1 (pr_trs p) -> In t2 (pr_trs p) -> tr_type t1 = tr_type t2 -> t1 = t2).
Proof. exact prop_is_subset_iff. Qed.
Print Assumptions C11H_prop_is_subset_iff.

Theorem C11H_select_best_ok_iff :
  forall mine ps i s s',
  select_best mine ps s = (Ok i, s') <->
  s' = s /\ exists pre p post, ps = pre ++ p :: post /\ (forall q, In q pre -> intersection mine q = None) /\
  intersection mine p = Some i.
Proof. exact select_best_ok_iff. Qed.
Print Assumptions C11H_select_best_ok_iff.

Theorem C11H_select_best_raise_iff :
  forall mine ps e s s',
  select_best mine ps s = (Raise e, s') <->
  s' = s /\ e = X_NoProposalChosen /\ forall q, In q ps -> intersection mine q = None.
Proof. exact select_best_raise_iff. Qed.
Print Assumptions C11H_select_best_raise_iff.

Theorem C11H_select_best_not_stuck :
  forall mine ps s,
  fst (select_best mine ps s) <> Stuck.
Proof. exact select_best_not_stuck. Qed.
Print Assumptions C11H_select_best_not_stuck.

Theorem C11H_sel_first_some :
  forall mine ps i,
  sel_first mine ps = Some i <->
  exists pre p post, ps = pre ++ p :: post /\ (forall q, In q pre -> intersection mine q = None) /\
  intersection mine p = Some i.
Proof. exact sel_first_some. Qed.
Print Assumptions C11H_sel_first_some.

Theorem C11H_sel_first_none :
  forall mine ps,
  sel_first mine ps = None <-> forall q, In q ps -> intersection mine q = None.
Proof. exact sel_first_none. Qed.
Print Assumptions C11H_sel_first_none.

Theorem C11H_responder_algorithms :
  forall E m s r s' ks,
  child_nego_req E m s = (r, s') -> kops s' = kops s ++ ks ->
  (exists x ok, In (K_add x ok) ks) \/ children (co s') <> children (co s) ->
  exists psa pc p ch,
  hd_error (get_payloads m K_SA true) = Some psa /\ In pc (cf_protect (cfg (co s))) /\ In p (sa_props psa) /\
  intersection (offer_of (h_exch (p_hdr m)) (pt_prop pc)) p = Some ch /\
  sel_first (offer_of (h_exch (p_hdr m)) (pt_prop pc)) (sa_props psa) = Some ch /\
  (forall t, In t (pr_trs ch) ->
  In t (pr_trs (pt_prop pc)) /\ In t (pr_trs p) /\ (h_exch (p_hdr m) = EX_IKE_AUTH -> tr_type t <> T_DH)) /\
  NoDup (map tr_type (pr_trs ch)) /\
  (forall ty, In ty (map tr_type (pr_trs ch)) <->
  In ty (map tr_type (pr_trs (offer_of (h_exch (p_hdr m)) (pt_prop pc))))) /\
  ke_gate m ch /\
  (forall x ok, In (K_add x ok) ks -> k_prop x = ch) /\
  (forall c, In c (children (co s')) ->
  In c (children (co s)) \/
  (pr_trs (c_prop c) = pr_trs ch /\ pr_proto (c_prop c) = pr_proto ch /\ pr_num (c_prop c) = pr_num ch /\
  c_orig c = pt_prop pc)).
Proof. exact resp_algorithms. Qed.
Print Assumptions C11H_responder_algorithms.

Theorem C11H_responder_no_proposal :
  forall E m s psa ptsi ptsr r0 nn s1 pc ctsr ctsi,
  resp_pre m s psa ptsi ptsr r0 nn s1 pc ctsr ctsi -> pt_mode pc = req_mode m ->
  (forall p, In p (sa_props psa) -> intersection (offer_of (h_exch (p_hdr m)) (pt_prop pc)) p = None) ->
  child_nego_req_body E m s = (Raise X_NoProposalChosen, s1) /\
  child_nego_req E m s = (Ok [P_NOTIFY PROTO_NONE N_NO_PROPOSAL_CHOSEN [] []], s1) /\
  kops s1 = kops s /\ co s1 = co s /\ new_sa s1 = new_sa s.
Proof. exact resp_no_proposal. Qed.
Print Assumptions C11H_responder_no_proposal.

Theorem C11H_responder_invalid_ke :
  forall E m s psa ptsi ptsr r0 nn s1 pc ctsr ctsi ch dht pke,
  resp_pre m s psa ptsi ptsr r0 nn s1 pc ctsr ctsi -> pt_mode pc = req_mode m ->
  sel_first (offer_of (h_exch (p_hdr m)) (pt_prop pc)) (sa_props psa) = Some ch ->
  hd_error (get_transforms ch T_DH) = Some dht ->
  hd_error (get_payloads m K_KE true) = Some pke -> fst (ke_of pke) <> tr_id dht ->
  child_nego_req_body E m s = (Raise (X_InvalidKe (tr_id dht)), s1) /\
  child_nego_req E m s =
  (Ok [P_NOTIFY PROTO_NONE N_INVALID_KE_PAYLOAD [] (be_encode 2 (Z.to_N (tr_id dht)))], s1) /\
  kops s1 = kops s /\ co s1 = co s /\ new_sa s1 = new_sa s /\
  (tape s1 = tape s \/ exists j, tape s = D_num j :: D_bytes (snd (fst nn)) :: tape s1).
Proof. exact resp_invalid_ke. Qed.
Print Assumptions C11H_responder_invalid_ke.

Theorem C11H_ike_nego_request_ok :
  forall E w m enc old s rps s',
  ike_nego_request E w m enc old s = (Ok rps, s') ->
  exists psa pke c ch dht nr pub,
  hd_error (get_payloads m K_SA enc) = Some psa /\ hd_error (get_payloads m K_KE enc) = Some pke /\
  view w s = Some c /\ ike_choice c psa = Some ch /\
  hd_error (get_transforms ch T_DH) = Some dht /\ tr_id dht = fst (ke_of pke) /\
  rps = [P_SA [ch]; P_NONCE nr; P_KE (tr_id dht) pub] /\
  option_map chosen (view w s') = Some (Some ch) /\ option_map cprop (view w s') = Some (Some ch) /\
  kops s' = kops s.
Proof. exact ike_nego_request_ok. Qed.
Print Assumptions C11H_ike_nego_request_ok.

Theorem C11H_ike_choice_sound :
  forall c psa ch,
  ike_choice c psa = Some ch ->
  exists p i, In p (sa_props psa) /\ intersection (cf_prop (cfg c)) p = Some i /\
  pr_trs ch = pr_trs i /\ pr_proto ch = pr_proto i /\ pr_num ch = pr_num i /\
  (forall t, In t (pr_trs ch) -> In t (pr_trs (cf_prop (cfg c))) /\ In t (pr_trs p)).
Proof. exact ike_choice_sound. Qed.
Print Assumptions C11H_ike_choice_sound.

Theorem C11H_ike_nego_request_no_proposal :
  forall E w m enc old s s',
  ike_nego_request E w m enc old s = (Raise X_NoProposalChosen, s') ->
  s' = s /\ exists psa c, hd_error (get_payloads m K_SA enc) = Some psa /\ view w s = Some c /\
  forall p, In p (sa_props psa) -> intersection (cf_prop (cfg c)) p = None.
Proof. exact ike_nego_request_no_proposal. Qed.
Print Assumptions C11H_ike_nego_request_no_proposal.

Theorem C11H_ike_nego_request_invalid_ke_raised :
  forall E w m enc old s g s',
  ike_nego_request E w m enc old s = (Raise (X_InvalidKe g), s') ->
  exists psa pke c ch dht j n,
  hd_error (get_payloads m K_SA enc) = Some psa /\ hd_error (get_payloads m K_KE enc) = Some pke /\
  view w s = Some c /\ ike_choice c psa = Some ch /\
  hd_error (get_transforms ch T_DH) = Some dht /\ g = tr_id dht /\ fst (ke_of pke) <> g /\
  tape s = D_num j :: D_bytes n :: tape s' /\
  s' = (upd w (set_chosen ch) s) <| tape := tape s' |>.
Proof. exact ike_nego_request_invalid_ke_raised. Qed.
Print Assumptions C11H_ike_nego_request_invalid_ke_raised.

Theorem C11H_ike_nego_request_invalid_ke :
  forall E w m enc old s psa pn pke c ch dht j n r,
  hd_error (get_payloads m K_SA enc) = Some psa -> hd_error (get_payloads m K_NONCE enc) = Some pn ->
  hd_error (get_payloads m K_KE enc) = Some pke -> view w s = Some c ->
  cookie_block E m pn c s = (Ok tt, s) -> ike_choice c psa = Some ch ->
  tape s = D_num j :: D_bytes n :: r ->
  hd_error (get_transforms ch T_DH) = Some dht -> fst (ke_of pke) <> tr_id dht ->
  ike_nego_request E w m enc old s = (Raise (X_InvalidKe (tr_id dht)), (upd w (set_chosen ch) s) <| tape := r |>).
Proof. exact ike_nego_request_invalid_ke. Qed.
Print Assumptions C11H_ike_nego_request_invalid_ke.

Theorem C11H_initiator_algorithms :
  forall E m s r s' ks,
  child_nego_res E m s = (r, s') -> kops s' = kops s ++ ks ->
  (exists u, r = Ok u) \/ (exists x ok, In (K_add x ok) ks) \/ children (co s') <> children (co s) ->
  exists psa cr ch i,
  hd_error (get_payloads m K_SA true) = Some psa /\ creating (co s) = Some cr /\ hd_error (sa_props psa) = Some ch /\
  intersection (offer_of (h_exch (p_hdr m)) (c_prop cr)) ch = Some i /\ prop_eqb i ch = true /\
  pr_proto ch = pr_proto (c_prop cr) /\
  (forall t, In t (pr_trs ch) -> In t (pr_trs (c_prop cr)) /\ (h_exch (p_hdr m) = EX_IKE_AUTH -> tr_type t <> T_DH)) /\
  (forall ty, In ty (map tr_type (pr_trs ch)) <->
  In ty (map tr_type (pr_trs (offer_of (h_exch (p_hdr m)) (c_prop cr))))) /\
  (forall t1 t2, In t1 (pr_trs ch) -> In t2 (pr_trs ch) -> tr_type t1 = tr_type t2 -> t1 = t2) /\
  (forall x ok, In (K_add x ok) ks -> k_prop x = ch) /\
  (forall c, In c (children (co s')) -> In c (children (co s)) \/ c_prop c = ch).
Proof. exact init_algorithms. Qed.
Print Assumptions C11H_initiator_algorithms.

Theorem C11H_initiator_no_proposal_untouched :
  forall E m s s',
  child_nego_res E m s = (Raise X_NoProposalChosen, s') ->
  s' = s /\
  exists psa cr ch, hd_error (get_payloads m K_SA true) = Some psa /\ creating (co s) = Some cr /\
  c_mode cr = req_mode m /\ hd_error (sa_props psa) = Some ch /\
  forall i, intersection (offer_of (h_exch (p_hdr m)) (c_prop cr)) ch = Some i -> prop_eqb i ch = false.
Proof. exact init_no_proposal_untouched. Qed.
Print Assumptions C11H_initiator_no_proposal_untouched.

Theorem C11H_initiator_refuses_proposal :
  forall E m s psa ptsi ptsr nn cr ch,
  init_pre m s psa ptsi ptsr nn cr -> c_mode cr = req_mode m -> hd_error (sa_props psa) = Some ch ->
  (forall i, intersection (offer_of (h_exch (p_hdr m)) (c_prop cr)) ch = Some i -> prop_eqb i ch = false) ->
  child_nego_res E m s = (Raise X_NoProposalChosen, s).
Proof. exact init_refuses_proposal. Qed.
Print Assumptions C11H_initiator_refuses_proposal.

Theorem C11H_ike_nego_response_ok :
  forall E w m nonce enc old u s s',
  ike_nego_response E w m nonce enc old s = (Ok u, s') ->
  exists psa c p0 ch,
  hd_error (get_payloads m K_SA enc) = Some psa /\ view w s = Some c /\ hd_error (sa_props psa) = Some p0 /\
  chosen c = Some ch /\ prop_is_subset p0 ch = true /\
  pr_proto p0 = pr_proto ch /\ (forall t, In t (pr_trs p0) -> In t (pr_trs ch)) /\
  (forall t1 t2, In t1 (pr_trs p0) -> In t2 (pr_trs p0) -> tr_type t1 = tr_type t2 -> t1 = t2) /\
  option_map chosen (view w s') = Some (Some p0) /\ option_map cprop (view w s') = Some (Some p0) /\ kops s' = kops s.
Proof. exact ike_nego_response_ok. Qed.
Print Assumptions C11H_ike_nego_response_ok.

Theorem C11H_ike_nego_response_not_subset :
  forall E w m nonce enc old s psa pn pke c p0 ch,
  hd_error (get_payloads m K_SA enc) = Some psa -> hd_error (get_payloads m K_NONCE enc) = Some pn ->
  hd_error (get_payloads m K_KE enc) = Some pke -> view w s = Some c -> hd_error (sa_props psa) = Some p0 ->
  chosen c = Some ch -> prop_is_subset p0 ch = false ->
  ike_nego_response E w m nonce enc old s = (Raise X_NoProposalChosen, s).
Proof. exact ike_nego_response_not_subset. Qed.
Print Assumptions C11H_ike_nego_response_not_subset.

Theorem C11H_handle_invalid_ke_ok :
  forall nots s g h ex ps' s',
  handle_invalid_ke nots s = (Ok ((g, h), (ex, ps')), s') ->
  exists req psa mine a b c d pub pre g0 d0 post,
  request (co s) = Some req /\ hd_error (kfilter K_SA (snd req)) = Some psa /\
  hd_error (sa_props psa) = Some mine /\ hd_error nots = Some (P_NOTIFY a b c d) /\ length d = 2%nat /\
  g = Z.of_N (be_decode d) /\ In g (map tr_id (get_transforms mine T_DH)) /\
  tape s = D_dh g h pub :: tape s' /\
  snd req = pre ++ P_KE g0 d0 :: post /\ kfilter K_KE pre = [] /\
  ex = fst req /\ ps' = pre ++ P_KE g pub :: post /\ ps' = replace_ke (snd req) g pub /\
  s' = (s <| tape := tape s' |>) <| co := (co s) <| request := Some (fst req, ps') |> |>.
Proof. exact handle_invalid_ke_ok. Qed.
Print Assumptions C11H_handle_invalid_ke_ok.

Theorem C11H_handle_invalid_ke_no_proposal :
  forall nots s s',
  handle_invalid_ke nots s = (Raise X_NoProposalChosen, s') ->
  s' = s /\
  exists req psa mine a b c d,
  request (co s) = Some req /\ hd_error (kfilter K_SA (snd req)) = Some psa /\
  hd_error (sa_props psa) = Some mine /\ hd_error nots = Some (P_NOTIFY a b c d) /\ length d = 2%nat /\
  ~ In (Z.of_N (be_decode d)) (map tr_id (get_transforms mine T_DH)).
Proof. exact handle_invalid_ke_no_proposal. Qed.
Print Assumptions C11H_handle_invalid_ke_no_proposal.

Theorem C11H_handle_invalid_ke_foreign_group :
  forall nots s req psa mine a b c d rest,
  request (co s) = Some req -> hd_error (kfilter K_SA (snd req)) = Some psa -> hd_error (sa_props psa) = Some mine ->
  nots = P_NOTIFY a b c d :: rest -> length d = 2%nat ->
  ~ In (Z.of_N (be_decode d)) (map tr_id (get_transforms mine T_DH)) ->
  handle_invalid_ke nots s = (Raise X_NoProposalChosen, s).
Proof. exact handle_invalid_ke_foreign_group. Qed.
Print Assumptions C11H_handle_invalid_ke_foreign_group.

(** ** non-vacuity: concrete instances (toy environment of HdlAgree.Toy) *)
Import HdlAgree.Toy NegoToy.

Theorem C11H_nonvacuous_intersection_example :
  intersection mine peer =
  Some (mk_prop 3 PROTO_ESP [9]%N [mk_tr T_ENCR 12 (Some 256); mk_tr T_INTEG 12 None; mk_tr T_ESN 0 None]).
Proof. exact NegoToy.intersection_example. Qed.
Print Assumptions C11H_nonvacuous_intersection_example.

Theorem C11H_nonvacuous_intersection_none_example :
  intersection mine peer_bad = None /\ intersection mine (peer <| pr_proto := PROTO_AH |>) = None.
Proof. exact NegoToy.intersection_none_example. Qed.
Print Assumptions C11H_nonvacuous_intersection_none_example.

Theorem C11H_nonvacuous_select_best_example :
  forall s,
  select_best mine [peer_bad; peer; peer <| pr_num := 4 |>] s = (Ok (the (intersection mine peer) mine), s) /\
  select_best mine [peer_bad; peer_bad] s = (Raise X_NoProposalChosen, s).
Proof. exact NegoToy.select_best_example. Qed.
Print Assumptions C11H_nonvacuous_select_best_example.

Theorem C11H_nonvacuous_responder_installs :
  forall pfs : bool,
  let s := cR0 pfs in let r := cR1 E0 pfs in
  exists a b, kops (snd r) = kops s ++ [K_add a true; K_add b true] /\
  k_sel_src a = ts_b /\ k_sel_dst a = ts_a /\ k_sel_src b = ts_a /\ k_sel_dst b = ts_b /\
  k_mode a = MODE_TUNNEL /\ pr_trs (k_prop a) = pr_trs (esp_prop pfs) /\
  length (children (co (snd r))) = 1%nat.
Proof. exact NegoToy.responder_installs. Qed.
Print Assumptions C11H_nonvacuous_responder_installs.

Theorem C11H_resp_no_proposal_nonvacuous :
  let m := m_noprop in let s := cR0 false in
  w_pre m s /\ pt_mode (w_pc m s) = req_mode m /\
  (forall p, In p (sa_props (w_psa m)) -> intersection (offer_of (h_exch (p_hdr m)) (pt_prop (w_pc m s))) p = None) /\
  child_nego_req E0 m s = (Ok [P_NOTIFY PROTO_NONE N_NO_PROPOSAL_CHOSEN [] []], w_s1 m s) /\ kops (w_s1 m s) = [] /\
  children (co (w_s1 m s)) = [].
Proof. exact NegoToy.resp_no_proposal_nonvacuous. Qed.
Print Assumptions C11H_resp_no_proposal_nonvacuous.

Theorem C11H_resp_invalid_ke_nonvacuous :
  let m := m_badke in let s := cR0 true in
  w_pre m s /\ pt_mode (w_pc m s) = req_mode m /\
  sel_first (offer_of (h_exch (p_hdr m)) (pt_prop (w_pc m s))) (sa_props (w_psa m))
  = Some ((esp_prop true) <| pr_spi := [9;9;9;1]%N |>) /\
  hd_error (get_transforms (esp_prop true) T_DH) = Some (mk_tr T_DH 14 None) /\
  hd_error (get_payloads m K_KE true) = Some (P_KE 15 [5]%N) /\
  child_nego_req E0 m s = (Ok [P_NOTIFY PROTO_NONE N_INVALID_KE_PAYLOAD [] [0; 14]%N], w_s1 m s) /\ kops (w_s1 m s) = [] /\
  tape (w_s1 m s) = [D_dh 14 [6]%N [6]%N; D_bytes [4;4;4;2]%N; D_num 3; D_verdict true; D_verdict true].
Proof. exact NegoToy.resp_invalid_ke_nonvacuous. Qed.
Print Assumptions C11H_resp_invalid_ke_nonvacuous.

Theorem C11H_nonvacuous_initiator_installs :
  forall pfs : bool,
  let s := cI1' pfs in let r := cI2 E0 pfs in
  fst r = Ok tt /\ exists a b, kops (snd r) = kops s ++ [K_add a true; K_add b true] /\
  k_sel_src a = ts_a /\ k_sel_dst a = ts_b /\ k_sel_src b = ts_b /\ k_sel_dst b = ts_a.
Proof. exact NegoToy.initiator_installs. Qed.
Print Assumptions C11H_nonvacuous_initiator_installs.

Theorem C11H_nonvacuous_initiator_refuses_foreign_transform :
  let m := res_with (fun p => match p with
  | P_SA [q] => [P_SA [q <| pr_trs := [mk_tr T_ENCR 12 (Some 256); mk_tr T_INTEG 12 None; mk_tr T_ESN 0 None] |>]]
  | _ => [p] end) in
  child_nego_res E0 m (cI1' false) = (Raise X_NoProposalChosen, cI1' false).
Proof. exact NegoToy.initiator_refuses_foreign_transform. Qed.
Print Assumptions C11H_nonvacuous_initiator_refuses_foreign_transform.

Theorem C11H_nonvacuous_initiator_refuses_missing_type :
  let m := res_with (fun p => match p with
  | P_SA [q] => [P_SA [q <| pr_trs := [mk_tr T_ENCR 12 (Some 128); mk_tr T_INTEG 12 None] |>]]
  | _ => [p] end) in
  child_nego_res E0 m (cI1' false) = (Raise X_NoProposalChosen, cI1' false).
Proof. exact NegoToy.initiator_refuses_missing_type. Qed.
Print Assumptions C11H_nonvacuous_initiator_refuses_missing_type.

Theorem C11H_nonvacuous_ike_invalid_ke_example :
  let r := ike_nego_request E0 false im_badke false None iR0 in
  fst r = Raise (X_InvalidKe 14) /\ tape (snd r) = [D_dh 14 [6]%N [6]%N] /\ kr (co (snd r)) = None /\
  chosen (co (snd r)) = Some (ike_prop <| pr_spi := spiR |>).
Proof. exact NegoToy.ike_invalid_ke_example. Qed.
Print Assumptions C11H_nonvacuous_ike_invalid_ke_example.

Theorem C11H_nonvacuous_ike_nego_ok_example :
  let r := ike_nego_request E0 false imR false None iR0 in
  exists nr pub, fst r = Ok [P_SA [ike_prop <| pr_spi := spiR |>]; P_NONCE nr; P_KE 14 pub] /\
  chosen (co (snd r)) = Some (ike_prop <| pr_spi := spiR |>).
Proof. exact NegoToy.ike_nego_ok_example. Qed.
Print Assumptions C11H_nonvacuous_ike_nego_ok_example.

Theorem C11H_nonvacuous_handle_invalid_ke_example :
  let r := handle_invalid_ke [P_NOTIFY PROTO_NONE N_INVALID_KE_PAYLOAD [] [0; 14]%N] hik_state in
  exists rest, fst r = Ok ((14, [9]%N), (EX_IKE_SA_INIT, rest)) /\ In (P_KE 14 [9]%N) rest /\ tape (snd r) = [].
Proof. exact NegoToy.handle_invalid_ke_example. Qed.
Print Assumptions C11H_nonvacuous_handle_invalid_ke_example.

Theorem C11H_nonvacuous_handle_invalid_ke_foreign_example :
  handle_invalid_ke [P_NOTIFY PROTO_NONE N_INVALID_KE_PAYLOAD [] [0; 19]%N] hik_state = (Raise X_NoProposalChosen, hik_state).
Proof. exact NegoToy.handle_invalid_ke_foreign_example. Qed.
Print Assumptions C11H_nonvacuous_handle_invalid_ke_foreign_example.

Theorem C11H_responder_kops_extends :
  forall E m s r s', child_nego_req E m s = (r, s') -> exists ks, kops s' = kops s ++ ks.
Proof. exact resp_kops_extends. Qed.
Print Assumptions C11H_responder_kops_extends.

Theorem C11H_initiator_kops_extends :
  forall E m s r s', child_nego_res E m s = (r, s') -> exists ks, kops s' = kops s ++ ks.
Proof. exact init_kops_extends. Qed.
Print Assumptions C11H_initiator_kops_extends.

(** observation (not a violation of the theorems above): [is_subset], the IKE_SA initiator's test, accepts an answer
    that omits transform types of the offer; the CHILD_SA initiator's test does not *)
Theorem C11H_observation_is_subset_accepts_missing_types :
  prop_is_subset ike_short ike_prop = true /\
  (forall i, intersection ike_prop ike_short = Some i -> prop_eqb i ike_short = false).
Proof. exact NegoToy.is_subset_accepts_missing_types. Qed.
Print Assumptions C11H_observation_is_subset_accepts_missing_types.
