(** C16 - datagrams reach the right IKE_SA and the table stays exact (property theorems only).
    [C] ranges over every IkeSa behaviour; the hypotheses are the object-identity laws of the interface. *)
From Coq Require Import ZArith Bool List.
From IkeSa Require Import Gen.IkeFacts Controller ControllerProofs.
Import ListNotations.
Open Scope Z_scope.

Theorem C16_unknown_spi_dropped : forall (C : ciface) (t : table C) exch req init spi_i spi_r mk data,
  dispatch_is_init_request exch req = false ->
  find (fun s => Z.eqb (sa_my_spi C s) (dispatch_my_spi init spi_i spi_r)) t = None ->
  dispatch C t (HOk exch req init spi_i spi_r) mk data = mk_dres C t None None None [].
Proof. exact dispatch_unknown_spi. Qed.
Print Assumptions C16_unknown_spi_dropped.

Theorem C16_routing : forall (C : ciface),
  (forall s d s' r, sa_process C s d = PDone s' r -> sa_cid C s' = sa_cid C s) ->
  (forall s d s' e, sa_process C s d = PRaised s' e -> sa_cid C s' = sa_cid C s) ->
  (forall s, sa_cid C (sa_clear_successor C s) = sa_cid C s) ->
  forall (t : table C) exch req init spi_i spi_r mk data c,
  dispatch_is_init_request exch req = false ->
  dr_handled_by C (dispatch C t (HOk exch req init spi_i spi_r) mk data) = Some c ->
  exists pre s post, t = pre ++ s :: post /\ sa_cid C s = c /\
    sa_my_spi C s = (if init then spi_r else spi_i) /\
    (forall x, In x pre -> sa_my_spi C x <> (if init then spi_r else spi_i)).
Proof. exact dispatch_routes. Qed.
Print Assumptions C16_routing.

Theorem C16_table_step : forall (C : ciface),
  (forall s d s' r, sa_process C s d = PDone s' r -> sa_cid C s' = sa_cid C s) ->
  (forall s d s' e, sa_process C s d = PRaised s' e -> sa_cid C s' = sa_cid C s) ->
  (forall s, sa_cid C (sa_clear_successor C s) = sa_cid C s) ->
  (forall s, sa_state C (sa_clear_successor C s) = sa_state C s) ->
  (forall s, sa_successor C (sa_clear_successor C s) = None) ->
  (forall s, sa_kernel_keys C (sa_clear_successor C s) = sa_kernel_keys C s) ->
  (forall s, sa_cid C (sa_arm_cookie C s) = sa_cid C s) ->
  forall (t : table C) hp mk data,
  NoDup (cids C t) ->
  (forall s0, mk = Fresh C s0 -> ~ In (sa_cid C s0) (cids C t)) ->
  (forall s d s2 r n, sa_process C s d = PDone s2 r -> sa_successor C s2 = Some n ->
                      ~ In (sa_cid C n) (cids C t) /\ (forall s0, mk = Fresh C s0 -> sa_cid C n <> sa_cid C s0)) ->
  let r := dispatch C t hp mk data in
  NoDup (cids C (dr_table C r)) /\
  (forall x, In x t -> Some (sa_cid C x) <> dr_handled_by C r -> In x (dr_table C r)).
Proof. exact dispatch_table_step. Qed.
Print Assumptions C16_table_step.

(** an IKE_SA that ended leaves the table together with its kernel SAs; one that lives stays exactly once; the
    successor of a rekey is added when the state says so and its reference is dropped (so it is added once) *)
Theorem C16_ended_ike_sa_removed : forall (C : ciface),
  (forall s, sa_cid C (sa_clear_successor C s) = sa_cid C s) ->
  (forall s, sa_state C (sa_clear_successor C s) = sa_state C s) ->
  (forall s, sa_successor C (sa_clear_successor C s) = None) ->
  (forall s, sa_kernel_keys C (sa_clear_successor C s) = sa_kernel_keys C s) ->
  forall (t : table C) (s : SA C) (reply : option (D C)),
  NoDup (cids C t) -> In (sa_cid C s) (cids C t) ->
  (forall n, sa_successor C s = Some n -> ~ In (sa_cid C n) (cids C t)) ->
  sa_state C s = ST_DELETED ->
  ~ In (sa_cid C s) (cids C (dr_table C (finish C t s reply))) /\
  dr_delsa C (finish C t s reply) = sa_kernel_keys C s.
Proof. exact finish_deleted. Qed.
Print Assumptions C16_ended_ike_sa_removed.

Theorem C16_living_ike_sa_kept_once : forall (C : ciface),
  (forall s, sa_cid C (sa_clear_successor C s) = sa_cid C s) ->
  (forall s, sa_state C (sa_clear_successor C s) = sa_state C s) ->
  (forall s, sa_successor C (sa_clear_successor C s) = None) ->
  (forall s, sa_kernel_keys C (sa_clear_successor C s) = sa_kernel_keys C s) ->
  forall (t : table C) (s : SA C) (reply : option (D C)),
  NoDup (cids C t) -> In (sa_cid C s) (cids C t) ->
  (forall n, sa_successor C s = Some n -> ~ In (sa_cid C n) (cids C t)) ->
  sa_state C s <> ST_DELETED ->
  In (sa_cid C s) (cids C (dr_table C (finish C t s reply))) /\ dr_delsa C (finish C t s reply) = [] /\
  NoDup (cids C (dr_table C (finish C t s reply))).
Proof.
  intros C H1 H2 H3 H4 t s reply Hnd Hin Hf Hst.
  destruct (finish_alive C H1 H2 H3 H4 t s reply Hnd Hin Hf Hst) as [A B].
  split; [exact A|]. split; [exact B|]. exact (finish_nodup C H1 H2 H3 H4 t s reply Hnd Hin Hf).
Qed.
Print Assumptions C16_living_ike_sa_kept_once.

Theorem C16_successor_registered_once : forall (C : ciface),
  (forall s, sa_cid C (sa_clear_successor C s) = sa_cid C s) ->
  (forall s, sa_state C (sa_clear_successor C s) = sa_state C s) ->
  (forall s, sa_successor C (sa_clear_successor C s) = None) ->
  (forall s, sa_kernel_keys C (sa_clear_successor C s) = sa_kernel_keys C s) ->
  forall (t : table C) (s : SA C) (reply : option (D C)),
  NoDup (cids C t) -> In (sa_cid C s) (cids C t) ->
  (forall n, sa_successor C s = Some n -> ~ In (sa_cid C n) (cids C t)) ->
  forall n, sa_successor C s = Some n ->
  dispatch_register_successor (sa_state C s) true = true ->
  In (sa_cid C n) (cids C (dr_table C (finish C t s reply))) /\
  NoDup (cids C (dr_table C (finish C t s reply))) /\
  (sa_state C s <> ST_DELETED ->
   exists s', In s' (dr_table C (finish C t s reply)) /\ sa_cid C s' = sa_cid C s /\ sa_successor C s' = None).
Proof.
  intros C H1 H2 H3 H4 t s reply Hnd Hin Hf n Hn Hr.
  destruct (finish_registers C H1 H2 H3 H4 t s reply Hnd Hin Hf n Hn Hr) as [A B].
  split; [exact A|]. split; [exact (finish_nodup C H1 H2 H3 H4 t s reply Hnd Hin Hf)|exact B].
Qed.
Print Assumptions C16_successor_registered_once.

(** the timer loops (with Python's remove-while-iterating semantics) keep the table duplicate-free and never add
    an entry *)
Theorem C16_timers_keep_table_exact : forall (C : ciface),
  (forall s now, sa_cid C (fst (sa_check_retransmission C s now)) = sa_cid C s) ->
  (forall s now, sa_cid C (fst (sa_check_dpd C s now)) = sa_cid C s) ->
  (forall s now, sa_cid C (fst (sa_check_lifetime C s now)) = sa_cid C s) ->
  forall (t : table C) (now : Z),
  NoDup (cids C t) ->
  NoDup (cids C (fst (fst (timers C t now)))) /\
  (forall c, In c (cids C (fst (fst (timers C t now)))) -> In c (cids C t)).
Proof. exact timers_table. Qed.
Print Assumptions C16_timers_keep_table_exact.

(** Every reachable table: over ANY sequence of events of the loop (datagrams, whatever they contain and whatever
    the IkeSa does with them, interleaved with timer sweeps at any times) the table never holds an IKE_SA twice -
    by induction over the run.  [fresh_run] is Python object identity: an IkeSa object created while an event is
    handled (new responder, rekey successor) is not one that is already in the table. *)
Theorem C16_table_exact_over_every_run : forall (C : ciface),
  (forall s d s' r, sa_process C s d = PDone s' r -> sa_cid C s' = sa_cid C s) ->
  (forall s d s' e, sa_process C s d = PRaised s' e -> sa_cid C s' = sa_cid C s) ->
  (forall s, sa_cid C (sa_clear_successor C s) = sa_cid C s) ->
  (forall s, sa_state C (sa_clear_successor C s) = sa_state C s) ->
  (forall s, sa_successor C (sa_clear_successor C s) = None) ->
  (forall s, sa_kernel_keys C (sa_clear_successor C s) = sa_kernel_keys C s) ->
  (forall s, sa_cid C (sa_arm_cookie C s) = sa_cid C s) ->
  (forall s now, sa_cid C (fst (sa_check_retransmission C s now)) = sa_cid C s) ->
  (forall s now, sa_cid C (fst (sa_check_dpd C s now)) = sa_cid C s) ->
  (forall s now, sa_cid C (fst (sa_check_lifetime C s now)) = sa_cid C s) ->
  forall (es : list (cevent C)) (t : table C),
  NoDup (cids C t) -> fresh_run C t es -> NoDup (cids C (fold_left (cstep C) es t)).
Proof. exact run_table_nodup. Qed.
Print Assumptions C16_table_exact_over_every_run.
