(** C03 - unprotected or forged messages cannot affect an IKE_SA that has keys (property theorems only). *)
From Coq Require Import ZArith Bool List.
From IkeSa Require Import Gen.IkeFacts Shell ShellProofs ShellTrace.
Open Scope Z_scope.

(** For every IkeSa value [s] that has keys (any state, either role, any counters, any handler behaviour [P]) and
    every parsed datagram that did not pass the integrity check of the encrypted payload (whatever its exchange
    type, flags, SPIs and Message ID), process_message leaves EVERY field of [s] as it was -- state, both message
    counters, CHILD_SAs and exchange context (inside [inner]), liveness timer, caches, queue -- invokes no handler,
    and returns nothing, except that a retransmitted IKE_SA_INIT request gets the stored IKE_SA_INIT response. *)
Theorem C03_no_effect : forall (P : iface) (s : sa P) (m : pmsg (B P)) (now : Z),
  has_keys P (inner P s) = true -> p_auth m = false ->
  process_message P s m now = (s, None) \/
  (process_message P s m now = (s, last_resp P s) /\
   h_exch (p_hdr m) = EX_IKE_SA_INIT /\ h_resp (p_hdr m) = false /\ state P s = ST_INIT_RES_SENT /\
   h_id (p_hdr m) = peer_id P s - 1).
Proof. exact unauthenticated_no_effect. Qed.
Print Assumptions C03_no_effect.

(** Over EVERY history (messages, triggers, timer passes, in any order): the IKE_SA ends in exactly the state it
    reaches when every message that failed the integrity check (while keys exist) is struck out of the history.
    [forged] / [run_without_forged] are defined in ShellTrace.v. *)
Theorem C03_forged_messages_invisible_in_every_history : forall (P : iface) (es : list (sevent P)) (s : sa P),
  fold_left (sstep P) es s = run_without_forged P es s.
Proof. exact forged_messages_invisible. Qed.
Print Assumptions C03_forged_messages_invisible_in_every_history.

(** and all such a message can obtain is nothing, or a copy of the stored response *)
Theorem C03_forged_message_output : forall (P : iface) (s : sa P) (e : sevent P),
  forged P s e = true ->
  snd (sstep_out P s e) = nil \/ exists d, last_resp P s = Some d /\ snd (sstep_out P s e) = cons d nil.
Proof. exact forged_output. Qed.
Print Assumptions C03_forged_message_output.
