(** C01: the kernel SAs installed by the handler model follow the wiring regenerated from the source (property theorems only). *)
From Coq Require Import ZArith Bool List.
From VLib Require Import Bytes.
From IkeSa Require Import Gen.IkeFacts Shell Hdl Mirror HdlAgree HdlMirror.
Import ListNotations.
Open Scope Z_scope.

(** Every successful Xfrm.create_child_sa of the handler model issues exactly two NEWSA requests whose parameters are
    the ones the wiring model builds from the regenerated tables [out_call], [in_call], [keys_init], [keys_resp]
    (which field of the CHILD_SA / which key of the key ring goes into which parameter of which create_sa call). *)
Theorem C01W_installed_sas_follow_the_regenerated_wiring : forall ch k ini u s s',
  Hdl.create_child_sa ch k ini s = (Ok u, s') ->
  exists tsi tsr a b,
    Hdl.c_tsi ch = [tsi] /\ Hdl.c_tsr ch = [tsr] /\
    kops s' = kops s ++ [K_add a true; K_add b true] /\
    Mirror.create_child_sa val (m_child ch tsi tsr) (m_keys k) ini (VZ (my_addr (co s))) (VZ (peer_addr (co s)))
    = (m_params a, m_params b).
Proof. exact create_child_sa_refines_wiring. Qed.
Print Assumptions C01W_installed_sas_follow_the_regenerated_wiring.
