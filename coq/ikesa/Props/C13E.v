(** C13 for the whole daemon: the timer section of main_loop over a table of several IkeSas (property theorems only;
    proofs in EndpointTimers.v).  Props/C13.v has the timer clauses for ONE IkeSa in isolation; here: what the other
    entries of the table do to them.

    Vocabulary (all defined in EndpointTimers.v, written out by the C13E_def_ theorems below):
    - [timers E ep] = retransmission sweep ([after_rt E ep] = rt_loop with fuel length+1 from index 0), then the DPD
      sweep over the creation indices of the table of that moment ([after_dpd]), then the lifetime sweep likewise.
      [pre_timers E ep tnow tape ev] is the endpoint when the timer section of the iteration begins (event handled,
      clock = tnow), so [iteration E ep tnow tape ev = timers E (pre_timers E ep tnow tape ev)].
    - [cids E ep] = the creation indices of the table in table order; [idx c l] = first position of [c] in [l].
    - [rt_visits E ep] = the visits of the retransmission sweep in order, each with its position in the table of that
      moment, its creation index, the endpoint and the entry just before the visit; [rt_visited E ep cid].
    - [rt_visit E ep cid s] = the endpoint after the loop body ran on the entry (cid, s): check_retransmission_timer,
      entry written back, datagram sent, and - if [rt_gone E now s] (the result is DELETED) - delete_child_sas and
      removal from the table.
    - [call_result E f ep s] = the entry after one call of the timer function [f] from the endpoint [ep];
      [settle E t s] = [s] with the four environment fields of the handler state reset (what enter..leave does around
      a call that does nothing; [enter] overwrites these fields before every call).
    - [rt_pat], [rt_vis], [rt_tab] = visited-flags, visited entries and resulting table of the retransmission sweep
      as functions of the table before the sweep (closed form, valid when creation indices are unique). *)
From Coq Require Import ZArith NArith Bool List.
From RecordUpdate Require Import RecordSet.
From VLib Require Import Bytes.
From IkeSa Require Import Gen.IkeFacts Shell ShellProofs Hdl HdlSad Endpoint EndpointSad EndpointTimers.
Import ListNotations RecordSetNotations.
Open Scope Z_scope.

(* ---------------------------------------------------------------------------------------------------------------- *)
(** * Definitions written out *)

Theorem C13E_def_timers : forall E (ep : endpoint E),
  after_rt E ep = rt_loop E (S (length (table E ep))) 0 ep
  /\ after_dpd E ep = sweep E (check_dpd (hdl_iface E)) (map fst (table E (after_rt E ep))) (after_rt E ep)
  /\ timers E ep = sweep E (check_lifetime (hdl_iface E)) (map fst (table E (after_dpd E ep))) (after_dpd E ep)
  /\ rt_visits E ep = rt_log E (S (length (table E ep))) 0 ep
  /\ (forall cid, rt_visited E ep cid <-> In cid (map (v_cid E) (rt_visits E ep)))
  /\ cids E ep = map fst (table E ep).
Proof. exact timers_parts. Qed.
Print Assumptions C13E_def_timers.

Theorem C13E_def_pre_timers : forall E (ep : endpoint E) tnow tp e,
  iteration E ep tnow tp e = timers E (pre_timers E ep tnow tp e)
  /\ ep_now E (pre_timers E ep tnow tp e) = tnow
  /\ pre_timers E ep tnow tp e = event_step E (start E ep tnow tp) e
  /\ table E (pre_timers E ep tnow tp Ev_none) = table E ep.
Proof. exact pre_timers_def. Qed.
Print Assumptions C13E_def_pre_timers.

Theorem C13E_def_call_result : forall E (f : esa E -> Z -> esa E * option (dgram body)) (ep : endpoint E) (s : esa E),
  call_result E f ep s = snd (leave E ep (fst (f (enter E ep s) (ep_now E ep)))).
Proof. exact call_result_def. Qed.
Print Assumptions C13E_def_call_result.

Theorem C13E_def_settle : forall E (t : Z) (s : esa E),
  settle E t s = with_inner (hdl_iface E) s
                   ((inner (hdl_iface E) s) <| now := t |> <| tape := [] |> <| kops := [] |> <| rek_push := None |>)
  /\ forall ep : endpoint E, snd (leave E ep (enter E ep s)) = settle E (ep_now E ep) s.
Proof. exact settle_def. Qed.
Print Assumptions C13E_def_settle.

(** [settle] touches nothing but those four fields *)
Theorem C13E_settle_keeps : forall E (t : Z) (s : esa E),
  co (inner (hdl_iface E) (settle E t s)) = co (inner (hdl_iface E) s)
  /\ new_sa (inner (hdl_iface E) (settle E t s)) = new_sa (inner (hdl_iface E) s)
  /\ state (hdl_iface E) (settle E t s) = state (hdl_iface E) s
  /\ is_init (hdl_iface E) (settle E t s) = is_init (hdl_iface E) s
  /\ my_spi (hdl_iface E) (settle E t s) = my_spi (hdl_iface E) s
  /\ my_id (hdl_iface E) (settle E t s) = my_id (hdl_iface E) s
  /\ peer_id (hdl_iface E) (settle E t s) = peer_id (hdl_iface E) s
  /\ last_resp (hdl_iface E) (settle E t s) = last_resp (hdl_iface E) s
  /\ req_data (hdl_iface E) (settle E t s) = req_data (hdl_iface E) s
  /\ rt_at (hdl_iface E) (settle E t s) = rt_at (hdl_iface E) s
  /\ rt_n (hdl_iface E) (settle E t s) = rt_n (hdl_iface E) s
  /\ dpd_at (hdl_iface E) (settle E t s) = dpd_at (hdl_iface E) s
  /\ rek_at (hdl_iface E) (settle E t s) = rek_at (hdl_iface E) s
  /\ del_at (hdl_iface E) (settle E t s) = del_at (hdl_iface E) s
  /\ dpd_cfg (hdl_iface E) (settle E t s) = dpd_cfg (hdl_iface E) s
  /\ pending (hdl_iface E) (settle E t s) = pending (hdl_iface E) s.
Proof. exact settle_fields. Qed.
Print Assumptions C13E_settle_keeps.

(** the loop body removes the entry iff the retransmission check left it DELETED: it was DELETED, or it had a
    request outstanding, the deadline had passed and the retransmissions were used up *)
Theorem C13E_def_rt_gone : forall E (t : Z) (s : esa E),
  rt_gone E t s = true <->
  state (hdl_iface E) s = ST_DELETED
  \/ (rt_states (state (hdl_iface E) s) = true /\ rt_at (hdl_iface E) s < t
      /\ rt_n (hdl_iface E) s >= MAX_RETRANSMISSIONS).
Proof. exact rt_gone_iff. Qed.
Print Assumptions C13E_def_rt_gone.

Theorem C13E_def_rt_visit : forall E (ep : endpoint E) cid (s : esa E),
  rt_visit E ep cid s =
  (if rt_gone E (ep_now E ep) s
   then teardown E (do_call E ep cid (check_retransmission (hdl_iface E) (enter E ep s) (ep_now E ep))) cid
                 (call_result E (check_retransmission (hdl_iface E)) ep s)
   else do_call E ep cid (check_retransmission (hdl_iface E) (enter E ep s) (ep_now E ep)))
  /\ rt_gone E (ep_now E ep) s
     = dispatch_remove (state (hdl_iface E) (call_result E (check_retransmission (hdl_iface E)) ep s)).
Proof. exact rt_visit_def. Qed.
Print Assumptions C13E_def_rt_visit.

Theorem C13E_def_rt_log : forall E fuel i (ep : endpoint E),
  rt_log E 0 i ep = []
  /\ rt_log E (S fuel) i ep = match nth_error (table E ep) i with
                              | None => []
                              | Some (cid, s) => (i, cid, ep, s) :: rt_log E fuel (S i) (rt_visit E ep cid s)
                              end.
Proof. exact rt_log_def. Qed.
Print Assumptions C13E_def_rt_log.

Theorem C13E_def_sweep_log : forall E (f : esa E -> Z -> esa E * option (dgram body)) cid r (ep : endpoint E),
  sweep_log E f [] ep = []
  /\ sweep_log E f (cid :: r) ep =
     match find (fun x => Nat.eqb (fst x) cid) (table E ep) with
     | None => sweep_log E f r ep
     | Some (_, s) => (cid, ep, s) :: sweep_log E f r (do_call E ep cid (f (enter E ep s) (ep_now E ep)))
     end.
Proof. exact sweep_log_def. Qed.
Print Assumptions C13E_def_sweep_log.

Theorem C13E_def_swept : forall E (f : esa E -> Z -> esa E * option (dgram body)) t (x y : nat * esa E),
  swept E f t x y <-> fst y = fst x /\ exists ep', ep_now E ep' = t /\ snd y = call_result E f ep' (snd x).
Proof. exact swept_def. Qed.
Print Assumptions C13E_def_swept.

Theorem C13E_def_idx : forall c l,
  (idx c l <= length l)%nat /\ (In c l <-> (idx c l < length l)%nat)
  /\ (In c l -> nth_error l (idx c l) = Some c)
  /\ (NoDup l -> forall i, nth_error l i = Some c -> idx c l = i).
Proof. exact idx_spec. Qed.
Print Assumptions C13E_def_idx.

(** [subseq a b]: [a] is [b] with some elements deleted (order kept) *)
Theorem C13E_subseq_facts : forall (a b : list nat),
  subseq a b -> incl a b /\ (length a <= length b)%nat /\ (NoDup b -> NoDup a).
Proof. exact (@subseq_facts nat). Qed.
Print Assumptions C13E_subseq_facts.

(** the closed form: [skip] = the head is passed over because its predecessor was removed *)
Theorem C13E_def_closed_form : forall E t c (s : esa E) (r : list (nat * esa E)),
  (rt_pat E t false [] = [] /\ rt_pat E t true [] = []
   /\ rt_pat E t true ((c, s) :: r) = false :: rt_pat E t false r
   /\ rt_pat E t false ((c, s) :: r) = true :: rt_pat E t (rt_gone E t s) r)
  /\ (rt_vis E t false [] = [] /\ rt_vis E t true [] = []
      /\ rt_vis E t true ((c, s) :: r) = rt_vis E t false r
      /\ rt_vis E t false ((c, s) :: r) = (c, s) :: rt_vis E t (rt_gone E t s) r)
  /\ (rt_tab E t false [] = [] /\ rt_tab E t true [] = []
      /\ rt_tab E t true ((c, s) :: r) = (c, s) :: rt_tab E t false r
      /\ rt_tab E t false ((c, s) :: r)
         = if rt_gone E t s then rt_tab E t true r
           else (c, settle E t (fst (check_retransmission (hdl_iface E) s t))) :: rt_tab E t false r).
Proof. exact rt_closed_defs. Qed.
Print Assumptions C13E_def_closed_form.

(* ---------------------------------------------------------------------------------------------------------------- *)
(** * 1. Which positions the retransmission sweep visits *)

(** one step of the loop: the entry at index i of the CURRENT table is visited, the loop goes on at index i+1 of the
    NEW table - so if the visit removed the entry, the entry that followed it (now at index i) is not visited *)
Theorem C13E_rt_loop_step : forall E fuel i (ep : endpoint E),
  rt_loop E (S fuel) i ep =
  match nth_error (table E ep) i with
  | Some (cid, s) => rt_loop E fuel (S i) (rt_visit E ep cid s)
  | None => ep
  end.
Proof. exact rt_loop_unfold. Qed.
Print Assumptions C13E_rt_loop_step.

(** what one visit does to the endpoint: the entry is removed or replaced by the result of the shell's
    check_retransmission on it ([settle]d); clock and next creation index stay; kernel operations are appended only by
    the teardown of a removed entry *)
Theorem C13E_rt_visit : forall E (ep : endpoint E) cid (s : esa E),
  table E (rt_visit E ep cid s)
  = (if rt_gone E (ep_now E ep) s then remove_cid E (table E ep) cid
     else replace E (table E ep) cid (settle E (ep_now E ep) (fst (check_retransmission (hdl_iface E) s (ep_now E ep)))))
  /\ next_cid E (rt_visit E ep cid s) = next_cid E ep /\ ep_now E (rt_visit E ep cid s) = ep_now E ep
  /\ ep_kops E (rt_visit E ep cid s)
     = ep_kops E ep ++
       (if rt_gone E (ep_now E ep) s
        then kops (snd (delete_child_sas
               (inner (hdl_iface E)
                  (enter E (do_call E ep cid (check_retransmission (hdl_iface E) (enter E ep s) (ep_now E ep)))
                           (call_result E (check_retransmission (hdl_iface E)) ep s)))))
        else []).
Proof. exact rt_visit_facts. Qed.
Print Assumptions C13E_rt_visit.

(** the loop as a relation [rt_run i ep visits ep']: nothing at index i - it ends; an entry at index i - it is visited
    and the run continues at i+1 from the endpoint the visit left *)
Theorem C13E_def_rt_run : forall E i (ep : endpoint E) (log : list (visit E)) (ep' : endpoint E),
  rt_run E i ep log ep' <->
  match nth_error (table E ep) i with
  | Some (cid, s) => exists log', log = (i, cid, ep, s) :: log' /\ rt_run E (S i) (rt_visit E ep cid s) log' ep'
  | None => log = [] /\ ep' = ep
  end.
Proof. exact rt_run_iff. Qed.
Print Assumptions C13E_def_rt_run.

(** the specification of rt_loop: with enough fuel it IS that run - the fuel never cuts it short ... *)
Theorem C13E_rt_loop_spec : forall E fuel i (ep : endpoint E),
  (length (table E ep) <= fuel + i)%nat -> rt_run E i ep (rt_log E fuel i ep) (rt_loop E fuel i ep).
Proof. exact rt_loop_run. Qed.
Print Assumptions C13E_rt_loop_spec.
(** ... in particular with the fuel [timers] gives, from position 0 *)
Theorem C13E_rt_loop_spec_timers : forall E (ep : endpoint E), rt_run E 0 ep (rt_visits E ep) (after_rt E ep).
Proof. exact after_rt_run. Qed.
Print Assumptions C13E_rt_loop_spec_timers.

(** during the run: same clock, same next creation index, creation indices only disappear (order kept) *)
Theorem C13E_rt_run_invariants : forall E i (ep : endpoint E) (log : list (visit E)) (ep' : endpoint E),
  rt_run E i ep log ep' ->
  ep_now E ep' = ep_now E ep /\ next_cid E ep' = next_cid E ep /\ subseq (cids E ep') (cids E ep)
  /\ Forall (fun v => ep_now E (v_ep E v) = ep_now E ep) log.
Proof. exact rt_run_invariants. Qed.
Print Assumptions C13E_rt_run_invariants.

(** closed form of the whole timer section when creation indices are unique (they are: C13E_cids_unique_always):
    the table after the retransmission sweep and the entries it visited (each as it was when the sweep began) are the
    functions [rt_tab] / [rt_vis] of the table before; then every entry gets one DPD call and one lifetime call *)
Theorem C13E_timers_closed_form : forall E (ep : endpoint E),
  NoDup (cids E ep) ->
  table E (after_rt E ep) = rt_tab E (ep_now E ep) false (table E ep)
  /\ map (fun v => (v_cid E v, v_sa E v)) (rt_visits E ep) = rt_vis E (ep_now E ep) false (table E ep)
  /\ exists t2, Forall2 (swept E (check_dpd (hdl_iface E)) (ep_now E ep)) (table E (after_rt E ep)) t2
                /\ Forall2 (swept E (check_lifetime (hdl_iface E)) (ep_now E ep)) t2 (table E (timers E ep)).
Proof. exact timers_closed. Qed.
Print Assumptions C13E_timers_closed_form.

(** the pattern of visits: position 0 is visited; position p+1 is passed over EXACTLY WHEN position p was visited and
    its entry removed; the visited entries are those with flag true; a passed-over entry is literally unchanged, a
    visited one is the shell's result or (removed) gone *)
Theorem C13E_rt_pattern : forall E (t : Z) (l : list (nat * esa E)),
  length (rt_pat E t false l) = length l
  /\ (l <> [] -> nth_error (rt_pat E t false l) 0 = Some true)
  /\ (forall p c (s : esa E) a b, nth_error l p = Some (c, s) -> nth_error (rt_pat E t false l) p = Some a ->
        nth_error (rt_pat E t false l) (S p) = Some b -> b = negb (a && rt_gone E t s))
  /\ (forall c (s : esa E), In (c, s) (rt_vis E t false l) <->
        exists p, nth_error l p = Some (c, s) /\ nth_error (rt_pat E t false l) p = Some true)
  /\ (forall p c (s : esa E) a, nth_error l p = Some (c, s) -> nth_error (rt_pat E t false l) p = Some a ->
        (a = false -> In (c, s) (rt_tab E t false l))
        /\ (a = true -> rt_gone E t s = false ->
              In (c, settle E t (fst (check_retransmission (hdl_iface E) s t))) (rt_tab E t false l))
        /\ (a = true -> rt_gone E t s = true -> NoDup (map fst l) -> ~ In c (map fst (rt_tab E t false l)))).
Proof. exact rt_pattern_spec. Qed.
Print Assumptions C13E_rt_pattern.

(** the entry at the head of the table is always visited *)
Theorem C13E_head_always_visited : forall E (ep : endpoint E) cid (s : esa E) r,
  table E ep = (cid, s) :: r -> rt_visited E ep cid.
Proof. exact head_always_visited. Qed.
Print Assumptions C13E_head_always_visited.

(** the entry after one that stays in the table is always visited *)
Theorem C13E_successor_of_kept_is_visited : forall E (ep : endpoint E) p c (s : esa E) c2 (s2 : esa E),
  NoDup (cids E ep) -> nth_error (table E ep) p = Some (c, s) -> rt_gone E (ep_now E ep) s = false ->
  nth_error (table E ep) (S p) = Some (c2, s2) -> rt_visited E ep c2.
Proof. exact successor_of_kept_is_visited. Qed.
Print Assumptions C13E_successor_of_kept_is_visited.

(** the entry after one that was visited and removed is passed over *)
Theorem C13E_removed_skips_next : forall E (ep : endpoint E) p c (s : esa E) c2 (s2 : esa E),
  NoDup (cids E ep) -> nth_error (table E ep) p = Some (c, s) -> rt_visited E ep c ->
  rt_gone E (ep_now E ep) s = true -> nth_error (table E ep) (S p) = Some (c2, s2) -> ~ rt_visited E ep c2.
Proof. exact removed_skips_next. Qed.
Print Assumptions C13E_removed_skips_next.

(** the visits are of table entries as they were when the sweep began, all at the clock of the iteration *)
Theorem C13E_visits_original : forall E (ep : endpoint E) (v : visit E),
  NoDup (cids E ep) -> In v (rt_visits E ep) ->
  In (v_cid E v, v_sa E v) (table E ep) /\ ep_now E (v_ep E v) = ep_now E ep.
Proof. exact visits_original. Qed.
Print Assumptions C13E_visits_original.

(* ---------------------------------------------------------------------------------------------------------------- *)
(** * 2. Frame: a call on one entry and the others; timers that are not due *)

(** enter / call / leave / write back / send on the entry [c]: every OTHER entry keeps its position and its value, the
    creation indices and their order stay, the entry itself becomes what [leave] returns *)
Theorem C13E_frame : forall E (ep : endpoint E) c (r : esa E * option (dgram body)),
  cids E (do_call E ep c r) = cids E ep
  /\ (forall j c' (s : esa E), nth_error (table E ep) j = Some (c', s) -> c' <> c ->
        nth_error (table E (do_call E ep c r)) j = Some (c', s))
  /\ (forall j (s : esa E), NoDup (cids E ep) -> nth_error (table E ep) j = Some (c, s) ->
        nth_error (table E (do_call E ep c r)) j = Some (c, snd (leave E ep (fst r)))).
Proof. exact call_frame. Qed.
Print Assumptions C13E_frame.

(** a visit of the retransmission loop (which may remove its entry): the other entries are exactly those before *)
Theorem C13E_frame_rt_visit : forall E (ep : endpoint E) cid (s : esa E) c' (s' : esa E),
  c' <> cid -> (In (c', s') (table E (rt_visit E ep cid s)) <-> In (c', s') (table E ep)).
Proof. exact rt_visit_frame. Qed.
Print Assumptions C13E_frame_rt_visit.

(** a timer that is not due leaves its own entry untouched too (up to [settle]) and sends nothing *)
Theorem C13E_retransmission_not_due : forall E (ep : endpoint E) (s : esa E),
  rt_states (state (hdl_iface E) s) = false \/ ep_now E ep <= rt_at (hdl_iface E) s ->
  check_retransmission (hdl_iface E) (enter E ep s) (ep_now E ep) = (enter E ep s, None)
  /\ call_result E (check_retransmission (hdl_iface E)) ep s = settle E (ep_now E ep) s.
Proof. exact rt_not_due. Qed.
Print Assumptions C13E_retransmission_not_due.
Theorem C13E_dpd_not_due : forall E (ep : endpoint E) (s : esa E),
  state (hdl_iface E) s <> ST_ESTABLISHED \/ ep_now E ep <= dpd_at (hdl_iface E) s ->
  check_dpd (hdl_iface E) (enter E ep s) (ep_now E ep) = (enter E ep s, None)
  /\ call_result E (check_dpd (hdl_iface E)) ep s = settle E (ep_now E ep) s.
Proof. exact dpd_not_due. Qed.
Print Assumptions C13E_dpd_not_due.
Theorem C13E_lifetime_not_due : forall E (ep : endpoint E) (s : esa E),
  state (hdl_iface E) s <> ST_ESTABLISHED
  \/ (ep_now E ep <= del_at (hdl_iface E) s /\ ep_now E ep <= rek_at (hdl_iface E) s) ->
  check_lifetime (hdl_iface E) (enter E ep s) (ep_now E ep) = (enter E ep s, None)
  /\ call_result E (check_lifetime (hdl_iface E)) ep s = settle E (ep_now E ep) s.
Proof. exact lifetime_not_due. Qed.
Print Assumptions C13E_lifetime_not_due.

(** the retransmission check does not look at the environment: on a table entry it is the shell function of
    Props/C13.v, so C13_retransmission_is_stored_request, C13_schedule, ... speak about the visited entry *)
Theorem C13E_retransmission_is_the_shell_function : forall E (ep : endpoint E) (s : esa E) t,
  check_retransmission (hdl_iface E) (enter E ep s) t
  = (enter E ep (fst (check_retransmission (hdl_iface E) s t)), snd (check_retransmission (hdl_iface E) s t)).
Proof. exact rt_enter. Qed.
Print Assumptions C13E_retransmission_is_the_shell_function.
Theorem C13E_retransmission_result : forall E (ep : endpoint E) (s : esa E),
  call_result E (check_retransmission (hdl_iface E)) ep s
  = settle E (ep_now E ep) (fst (check_retransmission (hdl_iface E) s (ep_now E ep))).
Proof. exact rt_call_result. Qed.
Print Assumptions C13E_retransmission_result.

(** a VISITED entry whose retransmission is due retransmits in this very timer section: the stored request is among
    the datagrams sent, counter and deadline advance as in C13 *)
Theorem C13E_visited_due_is_retransmitted : forall E (ep : endpoint E) cid (s : esa E) (d : dgram body),
  NoDup (cids E ep) -> In (cid, s) (table E ep) -> rt_visited E ep cid ->
  rt_states (state (hdl_iface E) s) = true -> rt_at (hdl_iface E) s < ep_now E ep ->
  rt_n (hdl_iface E) s < MAX_RETRANSMISSIONS -> req_data (hdl_iface E) s = Some d ->
  In d (ep_sent E (timers E ep))
  /\ exists s', In (cid, s') (table E (after_rt E ep)) /\ rt_n (hdl_iface E) s' = rt_n (hdl_iface E) s + 1
                /\ rt_at (hdl_iface E) s' = rt_at (hdl_iface E) s + (rt_n (hdl_iface E) s + 1) * RETRANSMISSION_DELAY
                /\ req_data (hdl_iface E) s' = Some d /\ state (hdl_iface E) s' = state (hdl_iface E) s.
Proof. exact visited_due_is_retransmitted. Qed.
Print Assumptions C13E_visited_due_is_retransmitted.

(* ---------------------------------------------------------------------------------------------------------------- *)
(** * 3. Giving up: the exhausted entry is removed with its kernel SAs *)

(** link to C13_unanswered_request_ends_the_ike_sa: budget exhausted and last deadline passed - the shell marks the
    IkeSa DELETED, which is what makes the loop remove the entry *)
Theorem C13E_give_up_is_gone : forall E (t : Z) (s : esa E),
  rt_states (state (hdl_iface E) s) = true -> rt_at (hdl_iface E) s < t ->
  rt_n (hdl_iface E) s >= MAX_RETRANSMISSIONS ->
  check_retransmission (hdl_iface E) s t = (with_state (hdl_iface E) s ST_DELETED, None) /\ rt_gone E t s = true.
Proof. exact give_up_gone. Qed.
Print Assumptions C13E_give_up_is_gone.
(** on the schedule of C13_schedule: request first sent at t0, all retransmissions made, later than t0 + 20 s *)
Theorem C13E_budget_exhausted_is_gone : forall E (t0 t : Z) (s : esa E),
  on_schedule (hdl_iface E) t0 s -> rt_states (state (hdl_iface E) s) = true ->
  rt_n (hdl_iface E) s = MAX_RETRANSMISSIONS -> t0 + RETRANSMISSION_DELAY * 10 < t -> rt_gone E t s = true.
Proof. exact budget_exhausted_gone. Qed.
Print Assumptions C13E_budget_exhausted_is_gone.
(** conversely, in a table without DELETED entries (C16E: every table between iterations) removal by the sweep IS
    giving up *)
Theorem C13E_gone_is_give_up : forall E (t : Z) c (s : esa E) (tb : list (nat * esa E)),
  AllQ E tb -> In (c, s) tb ->
  (rt_gone E t s = true <->
   rt_states (state (hdl_iface E) s) = true /\ rt_at (hdl_iface E) s < t /\ rt_n (hdl_iface E) s >= MAX_RETRANSMISSIONS).
Proof. exact gone_is_give_up. Qed.
Print Assumptions C13E_gone_is_give_up.

(** (a) the visited entry that gave up is in the table neither after the retransmission sweep nor after the timer
    section *)
Theorem C13E_give_up_removes : forall E (ep : endpoint E) cid (s : esa E),
  NoDup (cids E ep) -> In (cid, s) (table E ep) -> rt_visited E ep cid -> rt_gone E (ep_now E ep) s = true ->
  ~ In cid (cids E (after_rt E ep)) /\ ~ In cid (cids E (timers E ep)).
Proof. exact give_up_removes. Qed.
Print Assumptions C13E_give_up_removes.
(** ... while a visited entry that did not give up, and a passed-over entry, stay (the latter literally unchanged) *)
Theorem C13E_kept_stays : forall E (ep : endpoint E) cid (s : esa E),
  NoDup (cids E ep) -> In (cid, s) (table E ep) ->
  (rt_visited E ep cid -> rt_gone E (ep_now E ep) s = false ->
     In (cid, settle E (ep_now E ep) (fst (check_retransmission (hdl_iface E) s (ep_now E ep)))) (table E (after_rt E ep)))
  /\ (~ rt_visited E ep cid -> In (cid, s) (table E (after_rt E ep))).
Proof. exact kept_stays. Qed.
Print Assumptions C13E_kept_stays.

(** the handler state delete_child_sas runs on when the visit [v] removes its entry, and what it issues *)
Theorem C13E_def_rt_teardown : forall E (v : visit E),
  rt_teardown_state E v
  = inner (hdl_iface E)
      (enter E (do_call E (v_ep E v) (v_cid E v)
                  (check_retransmission (hdl_iface E) (enter E (v_ep E v) (v_sa E v)) (ep_now E (v_ep E v))))
               (call_result E (check_retransmission (hdl_iface E)) (v_ep E v) (v_sa E v)))
  /\ rt_teardown_kops E v = kops (snd (delete_child_sas (rt_teardown_state E v)))
  /\ children (co (rt_teardown_state E v)) = children (co (inner (hdl_iface E) (v_sa E v)))
  /\ my_addr (co (rt_teardown_state E v)) = my_addr (co (inner (hdl_iface E) (v_sa E v)))
  /\ peer_addr (co (rt_teardown_state E v)) = peer_addr (co (inner (hdl_iface E) (v_sa E v)))
  /\ new_sa (rt_teardown_state E v) = new_sa (inner (hdl_iface E) (v_sa E v))
  /\ kops (rt_teardown_state E v) = [].
Proof. exact rt_teardown_def. Qed.
Print Assumptions C13E_def_rt_teardown.

(** (b) the kernel operations of the timer section contain those of delete_child_sas on the removed entry; when its
    outbound SPIs fit the netlink field (C10E_spi_fits) and the tape held the verdicts, these are, for every CHILD_SA
    the entry tracked, in order, a DELSA for the outbound and a DELSA for the inbound SA ([DelOps], HdlSad.v) *)
Theorem C13E_give_up_deletes_kernel_sas : forall E (ep : endpoint E) (v : visit E),
  In v (rt_visits E ep) -> rt_gone E (ep_now E (v_ep E v)) (v_sa E v) = true ->
  (exists ks2, ep_kops E (timers E ep) = ep_kops E (v_ep E v) ++ rt_teardown_kops E v ++ ks2)
  /\ (Forall spi4 (children (co (inner (hdl_iface E) (v_sa E v)))) ->
      fst (delete_child_sas (rt_teardown_state E v)) <> Stuck ->
      DelOps (co (inner (hdl_iface E) (v_sa E v))) (children (co (inner (hdl_iface E) (v_sa E v))))
             (rt_teardown_kops E v)).
Proof. exact give_up_kops. Qed.
Print Assumptions C13E_give_up_deletes_kernel_sas.

(** (c) with the SAD invariant of C10E: after the iteration in which a visited entry gave up, the invariant holds, no
    entry has its creation index, and every installed kernel SA belongs to an entry that is still in the table *)
Theorem C13E_give_up_iteration : forall E (ep : endpoint E) sd tnow tp e cid (s : esa E),
  EInv E ep sd -> iter_ok E ep tnow tp e -> faithful_run sd (ep_kops E (iteration E ep tnow tp e)) ->
  In (cid, s) (table E (pre_timers E ep tnow tp e)) -> rt_visited E (pre_timers E ep tnow tp e) cid ->
  rt_gone E tnow s = true ->
  EInv E (iteration E ep tnow tp e) (apply_kops sd (ep_kops E (iteration E ep tnow tp e)))
  /\ ~ In cid (cids E (iteration E ep tnow tp e))
  /\ forall k, In k (apply_kops sd (ep_kops E (iteration E ep tnow tp e))) ->
       exists c s', c <> cid /\ In (c, s') (table E (iteration E ep tnow tp e))
                    /\ In k (tracked (inner (hdl_iface E) s')).
Proof. exact give_up_iteration. Qed.
Print Assumptions C13E_give_up_iteration.

(* ---------------------------------------------------------------------------------------------------------------- *)
(** * 4. A passed-over entry is served later; the DPD and lifetime sweeps pass over nothing *)

(** an entry the retransmission sweep passed over: it is still in the table, literally unchanged by that sweep; the
    entry just before it was visited and removed; and it is now STRICTLY closer to the head of the table *)
Theorem C13E_skipped_is_served_later : forall E (ep : endpoint E) cid (s : esa E),
  NoDup (cids E ep) -> In (cid, s) (table E ep) -> ~ rt_visited E ep cid ->
  In (cid, s) (table E (after_rt E ep))
  /\ (exists p c' s', nth_error (table E ep) p = Some (c', s') /\ nth_error (table E ep) (S p) = Some (cid, s)
                      /\ rt_visited E ep c' /\ rt_gone E (ep_now E ep) s' = true /\ ~ In c' (cids E (timers E ep)))
  /\ In cid (cids E (timers E ep))
  /\ (idx cid (cids E (timers E ep)) < idx cid (cids E ep))%nat.
Proof. exact skipped_moves_up. Qed.
Print Assumptions C13E_skipped_is_served_later.

(** the bound, for EVERY history (any events, tapes, verdicts): an entry at position p of the table is visited by the
    retransmission sweep of one of the next p+1 iterations, or has left the table before *)
Theorem C13E_served_within : forall E (evs : list step_in) (ep : endpoint E) cid,
  CidOK E (table E ep) (next_cid E ep) -> In cid (cids E ep) -> (idx cid (cids E ep) < length evs)%nat ->
  exists k tnow tp e,
    (k <= idx cid (cids E ep))%nat /\ nth_error evs k = Some (tnow, tp, e)
    /\ (rt_visited E (pre_timers E (run E ep (firstn k evs)) tnow tp e) cid
        \/ ~ In cid (cids E (pre_timers E (run E ep (firstn k evs)) tnow tp e))).
Proof. exact served_within. Qed.
Print Assumptions C13E_served_within.

(** DPD and lifetime sweeps (any timer function [f]) over the snapshot of the creation indices: one call per creation
    index, in table order; the indices stay; with unique indices the calls are on the entries as they were when the
    sweep began and the resulting table is, entry by entry, the result of that ONE call *)
Theorem C13E_dpd_lifetime_visit_all : forall E (f : esa E -> Z -> esa E * option (dgram body)) (ep : endpoint E),
  map (c_cid E) (sweep_log E f (cids E ep) ep) = cids E ep
  /\ cids E (sweep E f (cids E ep) ep) = cids E ep
  /\ (NoDup (cids E ep) ->
      map (fun v => (c_cid E v, c_sa E v)) (sweep_log E f (cids E ep) ep) = table E ep
      /\ Forall2 (swept E f (ep_now E ep)) (table E ep) (table E (sweep E f (cids E ep) ep))).
Proof. exact sweep_visits_all. Qed.
Print Assumptions C13E_dpd_lifetime_visit_all.

(** so every entry of the table after the retransmission sweep - visited or passed over - gets its DPD check and then
    its lifetime check in the SAME timer section *)
Theorem C13E_timers_entry : forall E (ep : endpoint E) cid (s1 : esa E),
  NoDup (cids E ep) -> In (cid, s1) (table E (after_rt E ep)) ->
  exists ep2 ep3, ep_now E ep2 = ep_now E ep /\ ep_now E ep3 = ep_now E ep
    /\ In (cid, call_result E (check_lifetime (hdl_iface E)) ep3 (call_result E (check_dpd (hdl_iface E)) ep2 s1))
          (table E (timers E ep)).
Proof. exact timers_entry. Qed.
Print Assumptions C13E_timers_entry.

(* ---------------------------------------------------------------------------------------------------------------- *)
(** * 5. The timer section never adds an entry or a creation index *)

Theorem C13E_timers_total_and_cids : forall E (ep : endpoint E),
  subseq (cids E (timers E ep)) (cids E ep) /\ cids E (timers E ep) = cids E (after_rt E ep)
  /\ next_cid E (timers E ep) = next_cid E ep /\ ep_now E (timers E ep) = ep_now E ep
  /\ (length (table E (timers E ep)) <= length (table E ep))%nat
  /\ incl (cids E (timers E ep)) (cids E ep)
  /\ (NoDup (cids E ep) -> NoDup (cids E (timers E ep)))
  /\ (forall n, CidOK E (table E ep) n -> CidOK E (table E (timers E ep)) n).
Proof. exact timers_total_and_cids. Qed.
Print Assumptions C13E_timers_total_and_cids.

(** unique creation indices below next_cid are an invariant of EVERY iteration - no condition on tape or verdicts
    (C10E has it as part of EInv, under iter_ok) *)
Theorem C13E_cids_unique_always : forall E (ep : endpoint E) tnow tp e,
  CidOK E (table E ep) (next_cid E ep) ->
  CidOK E (table E (pre_timers E ep tnow tp e)) (next_cid E (pre_timers E ep tnow tp e))
  /\ CidOK E (table E (iteration E ep tnow tp e)) (next_cid E (iteration E ep tnow tp e)).
Proof. exact cidok_iteration. Qed.
Print Assumptions C13E_cids_unique_always.

(* ---------------------------------------------------------------------------------------------------------------- *)
(** * 6. Non-vacuity and what is false *)

(** three IkeSas with outstanding requests; A (creation index 0, one CHILD_SA installed) has used up its
    retransmissions.  The sweep at t = 100: A is visited and removed, its two kernel SAs deleted; B (index 1) is passed
    over - its retransmission, due since t = 10, is not sent, its counter stays 1; C (index 2) is visited and
    retransmits *)
Theorem C13E_example_first_iteration :
  map (v_cid Example.E0) (rt_visits Example.E0 (pre_timers Example.E0 TimersExample.ep3 100 TimersExample.tp1 Ev_none))
    = [0%nat; 2%nat]
  /\ TimersExample.obs TimersExample.it1
     = [(1%nat, ST_NEW_CHILD_REQ_SENT, 1, 10); (2%nat, ST_NEW_CHILD_REQ_SENT, 3, 16)]
  /\ ep_sent Example.E0 TimersExample.it1 = [TimersExample.rq 8]
  /\ ep_kops Example.E0 TimersExample.it1 = [K_del 20 50 [0;0;0;2]%N true; K_del 10 50 [0;0;0;1]%N true]
  /\ apply_kops Example.own1 (ep_kops Example.E0 TimersExample.it1) = [].
Proof. exact TimersExample.first_iteration. Qed.
Print Assumptions C13E_example_first_iteration.

(** the next iteration: B, now at the head, is visited and retransmits *)
Theorem C13E_example_second_iteration :
  map (v_cid Example.E0) (rt_visits Example.E0 (pre_timers Example.E0 TimersExample.it1 101 [] Ev_none))
    = [1%nat; 2%nat]
  /\ TimersExample.obs TimersExample.it2
     = [(1%nat, ST_NEW_CHILD_REQ_SENT, 2, 14); (2%nat, ST_NEW_CHILD_REQ_SENT, 4, 24)]
  /\ ep_sent Example.E0 TimersExample.it2 = [TimersExample.rq 7; TimersExample.rq 8]
  /\ ep_kops Example.E0 TimersExample.it2 = [].
Proof. exact TimersExample.second_iteration. Qed.
Print Assumptions C13E_example_second_iteration.

(** the hypotheses of C13E_give_up_iteration hold for A in that first iteration *)
Theorem C13E_example_hypotheses :
  EInv Example.E0 TimersExample.ep3 Example.own1
  /\ iter_ok Example.E0 TimersExample.ep3 100 TimersExample.tp1 Ev_none
  /\ faithful_run Example.own1 (ep_kops Example.E0 (iteration Example.E0 TimersExample.ep3 100 TimersExample.tp1 Ev_none))
  /\ In (0%nat, TimersExample.sA) (table Example.E0 (pre_timers Example.E0 TimersExample.ep3 100 TimersExample.tp1 Ev_none))
  /\ rt_visited Example.E0 (pre_timers Example.E0 TimersExample.ep3 100 TimersExample.tp1 Ev_none) 0
  /\ rt_gone Example.E0 100 TimersExample.sA = true.
Proof. exact TimersExample.ep3_all. Qed.
Print Assumptions C13E_example_hypotheses.

(** B in that first iteration: in the table, creation indices unique, request outstanding, deadline passed, budget
    left, request stored - and passed over, its request not among the datagrams sent *)
Theorem C13E_example_skipped :
  NoDup (cids Example.E0 (pre_timers Example.E0 TimersExample.ep3 100 TimersExample.tp1 Ev_none))
  /\ In (1%nat, TimersExample.sB) (table Example.E0 (pre_timers Example.E0 TimersExample.ep3 100 TimersExample.tp1 Ev_none))
  /\ ~ rt_visited Example.E0 (pre_timers Example.E0 TimersExample.ep3 100 TimersExample.tp1 Ev_none) 1
  /\ rt_states (state (hdl_iface Example.E0) TimersExample.sB) = true
  /\ rt_at (hdl_iface Example.E0) TimersExample.sB < 100
  /\ rt_n (hdl_iface Example.E0) TimersExample.sB < MAX_RETRANSMISSIONS
  /\ req_data (hdl_iface Example.E0) TimersExample.sB = Some (TimersExample.rq 7)
  /\ ~ In (TimersExample.rq 7)
          (ep_sent Example.E0 (timers Example.E0 (pre_timers Example.E0 TimersExample.ep3 100 TimersExample.tp1 Ev_none))).
Proof. exact TimersExample.ep3_skipped. Qed.
Print Assumptions C13E_example_skipped.

(** the bound of C13E_served_within is attained: C at position 2 is passed over in two consecutive iterations (first
    B, then A gives up just in front of it) and visited in the third *)
Theorem C13E_example_bound_is_tight :
  idx 2 (cids Example.E0 TimersExample.ep3b) = 2%nat
  /\ map (v_cid Example.E0) (rt_visits Example.E0 (pre_timers Example.E0 TimersExample.ep3b 100 [] Ev_none))
     = [0%nat; 1%nat]
  /\ map (v_cid Example.E0)
         (rt_visits Example.E0 (pre_timers Example.E0 (run Example.E0 TimersExample.ep3b (firstn 1 TimersExample.hist3b))
                                           101 [] Ev_none)) = [0%nat]
  /\ map (v_cid Example.E0)
         (rt_visits Example.E0 (pre_timers Example.E0 (run Example.E0 TimersExample.ep3b (firstn 2 TimersExample.hist3b))
                                           102 [] Ev_none)) = [2%nat]
  /\ cids Example.E0 (run Example.E0 TimersExample.ep3b TimersExample.hist3b) = [2%nat]
  /\ ep_sent Example.E0 (run Example.E0 TimersExample.ep3b TimersExample.hist3b) = [TimersExample.rq 8].
Proof. exact TimersExample.bound_is_tight. Qed.
Print Assumptions C13E_example_bound_is_tight.

(** FALSE of the model (and of main_loop, whose loop it models): that the retransmission sweep of an iteration visits
    every entry ... *)
Theorem C13E_every_entry_visited_refuted :
  ~ (forall (E : env) (ep : endpoint E) (cid : nat),
       NoDup (cids E ep) -> In cid (cids E ep) -> rt_visited E ep cid).
Proof. exact TimersExample.every_entry_visited_refuted. Qed.
Print Assumptions C13E_every_entry_visited_refuted.

(** ... and that a retransmission that is due is sent in the iteration that finds it due (true for VISITED entries:
    C13E_visited_due_is_retransmitted; an entry passed over waits for a later iteration: C13E_served_within) *)
Theorem C13E_due_retransmission_sent_refuted :
  ~ (forall (E : env) (ep : endpoint E) (cid : nat) (s : esa E) (d : dgram body),
       NoDup (cids E ep) -> In (cid, s) (table E ep) ->
       rt_states (state (hdl_iface E) s) = true -> rt_at (hdl_iface E) s < ep_now E ep ->
       rt_n (hdl_iface E) s < MAX_RETRANSMISSIONS -> req_data (hdl_iface E) s = Some d ->
       In d (ep_sent E (timers E ep))).
Proof. exact TimersExample.due_retransmission_sent_refuted. Qed.
Print Assumptions C13E_due_retransmission_sent_refuted.
