(** C10 on the handler model - the kernel SAD always equals the CHILD_SAs the daemon tracks (property theorems only).

    Vocabulary (HdlSad.v): a [key] is (destination address, IPsec protocol 50/51, SPI); [apply_kops sad kops] replays
    the kernel operations a handler issued (successful NEWSA adds its key, successful DELSA removes it);
    [faithful_run sad kops]: every verdict is one a real kernel can give (NEWSA accepted only if the key is absent -
    it may be refused for any other reason as well; DELSA succeeds iff the key is present);
    [tracked s]: the outbound key (peer address, protocol, outbound SPI) and the inbound key (my address, protocol,
    inbound SPI) of every CHILD_SA of the IKE_SA and of its not-yet-registered rekey successor;
    [own]: the installed keys of this IKE_SA, [others]: the keys of the other IKE_SAs of the endpoint (frame).
    [E] (cryptography), the message, the configuration inside the state and the tape (random draws, kernel verdicts)
    are arbitrary; [st <> -1] excludes only runs whose tape did not match the calls (model artefact). *)
From Coq Require Import ZArith NArith Bool List.
From RecordUpdate Require Import RecordSet.
From VLib Require Import Bytes.
From IkeSa Require Import Gen.IkeFacts Shell Hdl HdlSad.
Import ListNotations RecordSetNotations.
Open Scope Z_scope.

(** ** what the definitions say *)
Theorem C10H_def_invariant : forall s own others,
  Inv s own others <->
  NoDup (own ++ others) /\ (forall k, In k own <-> In k (tracked s)) /\ NoDup (tracked s).
Proof. exact Inv_unfold. Qed.
Print Assumptions C10H_def_invariant.

Theorem C10H_def_tracked : forall s,
  tracked s =
  flat_map (fun ch => [(peer_addr (co s), ipsec_proto (c_prop ch), c_out ch);
                       (my_addr (co s), ipsec_proto (c_prop ch), c_in ch)]) (children (co s))
  ++ match new_sa s with
     | Some n => flat_map (fun ch => [(peer_addr n, ipsec_proto (c_prop ch), c_out ch);
                                      (my_addr n, ipsec_proto (c_prop ch), c_in ch)]) (children n)
     | None => []
     end.
Proof. exact tracked_unfold. Qed.
Print Assumptions C10H_def_tracked.

(** the side condition on a successor that is not registered yet: it has the addresses of its predecessor and holds
    CHILD_SAs only once the predecessor is REKEYED / DEL_AFTER_REKEY_IKE_SA_REQ_SENT / DELETED *)
Theorem C10H_def_wellformed : forall s,
  WF s <-> forall n, new_sa s = Some n ->
             my_addr n = my_addr (co s) /\ peer_addr n = peer_addr (co s)
             /\ (children n = [] \/ st (co s) = ST_DEL_AFTER_REKEY_IKE_SA_REQ_SENT \/ st (co s) = ST_REKEYED
                 \/ st (co s) = ST_DELETED).
Proof. exact WF_unfold. Qed.
Print Assumptions C10H_def_wellformed.

(** the kernel of the simulator (NEWSA accepted iff the key is absent) is a faithful kernel *)
Theorem C10H_strict_kernel_is_faithful : forall l s, faithful_strict_run s l -> faithful_run s l.
Proof. exact faithful_strict_run_weaken. Qed.
Print Assumptions C10H_strict_kernel_is_faithful.

(** ** where it starts *)
Theorem C10H_initially : forall s others,
  children (co s) = [] -> new_sa s = None -> NoDup others -> Inv s [] others /\ WF s.
Proof. exact initially. Qed.
Print Assumptions C10H_initially.

(** ** the invariant, entry point by entry point (all of them) *)

(** every request handler (IKE_SA_INIT, IKE_AUTH, INFORMATIONAL, CREATE_CHILD_SA; answered or raising alike) *)
Theorem C10H_request : forall (E : env) (s : isa) (m : pmsg body) (own others : sad),
  Inv s own others -> WF s -> kops s = [] ->
  st (co (fst (h_request E s m))) <> -1 ->
  faithful_run (own ++ others) (kops (fst (h_request E s m))) ->
  apply_kops (own ++ others) (kops (fst (h_request E s m)))
    = apply_kops own (kops (fst (h_request E s m))) ++ others
  /\ WF (fst (h_request E s m))
  /\ Inv (fst (h_request E s m)) (apply_kops own (kops (fst (h_request E s m)))) others.
Proof. exact h_request_sad. Qed.
Print Assumptions C10H_request.

(** every response handler (returning a follow-up request, nothing, or raising alike) *)
Theorem C10H_response : forall (E : env) (s : isa) (m : pmsg body) (own others : sad),
  Inv s own others -> WF s -> kops s = [] ->
  st (co (fst (h_response E s m))) <> -1 ->
  faithful_run (own ++ others) (kops (fst (h_response E s m))) ->
  apply_kops (own ++ others) (kops (fst (h_response E s m)))
    = apply_kops own (kops (fst (h_response E s m))) ++ others
  /\ WF (fst (h_response E s m))
  /\ Inv (fst (h_response E s m)) (apply_kops own (kops (fst (h_response E s m)))) others.
Proof. exact h_response_sad. Qed.
Print Assumptions C10H_response.

(** ACQUIRE and EXPIRE: no kernel operation at all *)
Theorem C10H_trigger : forall (s : isa) (e : event) (own others : sad),
  Inv s own others -> WF s -> st (co (fst (h_trigger s e))) <> -1 ->
  kops (fst (h_trigger s e)) = kops s /\ WF (fst (h_trigger s e)) /\ Inv (fst (h_trigger s e)) own others.
Proof. exact h_trigger_sad. Qed.
Print Assumptions C10H_trigger.

(** the three timer-generated requests: no kernel operation at all *)
Theorem C10H_gen_dpd : forall (s : isa) (own others : sad),
  Inv s own others -> WF s -> st (co (fst (lift_gen generate_dpd_request s))) <> -1 ->
  kops (fst (lift_gen generate_dpd_request s)) = kops s /\ WF (fst (lift_gen generate_dpd_request s))
  /\ Inv (fst (lift_gen generate_dpd_request s)) own others.
Proof. exact gen_dpd_sad. Qed.
Print Assumptions C10H_gen_dpd.

Theorem C10H_gen_delete_ike : forall (s : isa) (own others : sad),
  Inv s own others -> WF s -> st (co (fst (lift_gen generate_delete_ike_sa_request s))) <> -1 ->
  kops (fst (lift_gen generate_delete_ike_sa_request s)) = kops s
  /\ WF (fst (lift_gen generate_delete_ike_sa_request s))
  /\ Inv (fst (lift_gen generate_delete_ike_sa_request s)) own others.
Proof. exact gen_delete_ike_sad. Qed.
Print Assumptions C10H_gen_delete_ike.

Theorem C10H_gen_rekey_ike : forall (s : isa) (own others : sad),
  Inv s own others -> WF s -> st (co (fst (lift_gen generate_rekey_ike_sa_request s))) <> -1 ->
  kops (fst (lift_gen generate_rekey_ike_sa_request s)) = kops s
  /\ WF (fst (lift_gen generate_rekey_ike_sa_request s))
  /\ Inv (fst (lift_gen generate_rekey_ike_sa_request s)) own others.
Proof. exact gen_rekey_ike_sad. Qed.
Print Assumptions C10H_gen_rekey_ike.

(** the shell marks the IKE_SA DELETED (a handler raised, retransmissions exhausted) *)
Theorem C10H_mark_deleted : forall s own others,
  Inv s own others -> WF s ->
  Inv (s <| co := (co s) <| st := ST_DELETED |> |>) own others /\ WF (s <| co := (co s) <| st := ST_DELETED |> |>).
Proof. exact mark_deleted_inv. Qed.
Print Assumptions C10H_mark_deleted.

(** ** removing an IKE_SA for any reason removes all its kernel SAs *)

(** IkeSa.delete_child_sas from ANY state whose CHILD_SAs have four-byte outbound SPIs (all states the handlers
    produce, C10H_spi4_* below) and any SAD: exactly the keys of the CHILD_SAs of this IKE_SA go *)
Theorem C10H_teardown_any_state : forall (s : isa) (sd : sad),
  Forall spi4 (children (co s)) ->
  kops s = [] -> fst (delete_child_sas s) <> Stuck ->
  faithful_run sd (kops (snd (delete_child_sas s))) ->
  fst (delete_child_sas s) = Ok tt
  /\ apply_kops sd (kops (snd (delete_child_sas s))) = sad_minus sd (tracked_keys (co s))
  /\ children (co (snd (delete_child_sas s))) = []
  /\ succ_keys (new_sa (snd (delete_child_sas s))) = succ_keys (new_sa s)
  /\ Rest s (snd (delete_child_sas s)).
Proof. exact teardown_general. Qed.
Print Assumptions C10H_teardown_any_state.

(** ... from a state of the invariant: the other IKE_SAs keep theirs, what remains of [own] is exactly what a
    successor that is not registered yet holds (nothing if there is none) *)
Theorem C10H_teardown : forall (s : isa) (own others : sad),
  Forall spi4 (children (co s)) ->
  Inv s own others -> kops s = [] -> fst (delete_child_sas s) <> Stuck ->
  faithful_run (own ++ others) (kops (snd (delete_child_sas s))) ->
  apply_kops (own ++ others) (kops (snd (delete_child_sas s))) = sad_minus own (tracked_keys (co s)) ++ others
  /\ (forall k, In k (tracked_keys (co s)) ->
                ~ In k (apply_kops (own ++ others) (kops (snd (delete_child_sas s)))))
  /\ children (co (snd (delete_child_sas s))) = []
  /\ Inv (snd (delete_child_sas s)) (sad_minus own (tracked_keys (co s))) others
  /\ (new_sa s = None -> sad_minus own (tracked_keys (co s)) = []).
Proof. exact teardown_inv. Qed.
Print Assumptions C10H_teardown.

(** the remaining case (no handler produces it): a tracked CHILD_SA whose outbound SPI is not four bytes long makes
    delete_child_sas raise the generic exception at that CHILD_SA; the ones before it got their DELSAs, nothing else
    was issued and the list of CHILD_SAs is not cleared *)
Theorem C10H_teardown_bad_spi : forall (s : isa),
  ~ Forall spi4 (children (co s)) -> kops s = [] -> fst (delete_child_sas s) <> Stuck ->
  fst (delete_child_sas s) = Raise X_Other
  /\ children (co (snd (delete_child_sas s))) = children (co s)
  /\ Rest s (snd (delete_child_sas s))
  /\ exists l1 ch l2, children (co s) = l1 ++ ch :: l2 /\ Forall spi4 l1 /\ ~ spi4 ch
                      /\ DelOps (co s) l1 (kops (snd (delete_child_sas s))).
Proof. exact teardown_bad_spi. Qed.
Print Assumptions C10H_teardown_bad_spi.

(** ** the SPI the peer chose must fit the four-byte netlink field *)

(** create_child_sa with an outbound SPI that is not four bytes long: the generic exception (TypeError) before the
    first netlink request - no kernel operation; the state is unchanged except that the jitter of a finite lifetime
    may already have been drawn from the tape ([Stuck] only if that draw found no number) *)
Theorem C10H_create_child_sa_bad_spi : forall (ch : child) (k : ckeyring) (ini : bool) (s : isa),
  length (c_out ch) <> 4%nat ->
  exists r s', create_child_sa ch k ini s = (r, s')
    /\ (r = Raise X_Other \/ r = Stuck)
    /\ kops s' = kops s /\ s' = s <| tape := tape s' |>
    /\ (tape s' = tape s \/ (c_life ch <> -1 /\ exists d, tape s = d :: tape s'))
    /\ (r = Stuck -> c_life ch <> -1 /\ forall j, hd_error (tape s) <> Some (D_num j)).
Proof. exact create_child_sa_bad_spi. Qed.
Print Assumptions C10H_create_child_sa_bad_spi.

(** delete_child_sa likewise: nothing issued, nothing consumed, nothing changed *)
Theorem C10H_delete_child_sa_bad_spi : forall (ch : child) (s : isa),
  length (c_out ch) <> 4%nat -> delete_child_sa ch s = (Raise X_Other, s).
Proof. exact delete_child_sa_bad_spi. Qed.
Print Assumptions C10H_delete_child_sa_bad_spi.

(** hence every tracked CHILD_SA (of the IKE_SA and of its unregistered successor) has a four-byte outbound SPI:
    the property holds initially and every entry point keeps it *)
Theorem C10H_def_spi4 : forall s,
  Spi4 s <->
  (forall ch, In ch (children (co s)) -> length (c_out ch) = 4%nat)
  /\ (forall n, new_sa s = Some n -> forall ch, In ch (children n) -> length (c_out ch) = 4%nat).
Proof. exact Spi4_unfold. Qed.
Print Assumptions C10H_def_spi4.
Theorem C10H_spi4_initially : forall s, children (co s) = [] -> new_sa s = None -> Spi4 s.
Proof. exact Spi4_no_children. Qed.
Print Assumptions C10H_spi4_initially.
Theorem C10H_spi4_request : forall (E : env) (s : isa) (m : pmsg body),
  Spi4 s -> st (co (fst (h_request E s m))) <> -1 -> Spi4 (fst (h_request E s m)).
Proof. exact h_request_spi4. Qed.
Print Assumptions C10H_spi4_request.
Theorem C10H_spi4_response : forall (E : env) (s : isa) (m : pmsg body),
  Spi4 s -> st (co (fst (h_response E s m))) <> -1 -> Spi4 (fst (h_response E s m)).
Proof. exact h_response_spi4. Qed.
Print Assumptions C10H_spi4_response.
Theorem C10H_spi4_trigger : forall (s : isa) (e : event),
  Spi4 s -> st (co (fst (h_trigger s e))) <> -1 -> Spi4 (fst (h_trigger s e)).
Proof. exact h_trigger_spi4. Qed.
Print Assumptions C10H_spi4_trigger.
Theorem C10H_spi4_gen_dpd : forall (s : isa),
  Spi4 s -> st (co (fst (lift_gen generate_dpd_request s))) <> -1 -> Spi4 (fst (lift_gen generate_dpd_request s)).
Proof. exact gen_dpd_spi4. Qed.
Print Assumptions C10H_spi4_gen_dpd.
Theorem C10H_spi4_gen_delete_ike : forall (s : isa),
  Spi4 s -> st (co (fst (lift_gen generate_delete_ike_sa_request s))) <> -1 ->
  Spi4 (fst (lift_gen generate_delete_ike_sa_request s)).
Proof. exact gen_delete_ike_spi4. Qed.
Print Assumptions C10H_spi4_gen_delete_ike.
Theorem C10H_spi4_gen_rekey_ike : forall (s : isa),
  Spi4 s -> st (co (fst (lift_gen generate_rekey_ike_sa_request s))) <> -1 ->
  Spi4 (fst (lift_gen generate_rekey_ike_sa_request s)).
Proof. exact gen_rekey_ike_spi4. Qed.
Print Assumptions C10H_spi4_gen_rekey_ike.

(** ** (a) IKE_SA rekey hands the CHILD_SAs over without touching the kernel *)
Theorem C10H_handover_responder : forall (E : env) (m : pmsg body) (s : isa),
  WF s -> ike_rekey_request m = true -> fst (process_create_child_sa_request E m s) <> Stuck ->
  kops (snd (process_create_child_sa_request E m s)) = kops s
  /\ tracked (snd (process_create_child_sa_request E m s)) = tracked s
  /\ WF (snd (process_create_child_sa_request E m s))
  /\ (forall ps, fst (process_create_child_sa_request E m s) = Ok ps -> st (co s) = ST_ESTABLISHED ->
      Moved s (snd (process_create_child_sa_request E m s))
      /\ st (co (snd (process_create_child_sa_request E m s))) = ST_REKEYED).
Proof. exact ike_rekey_request_handover. Qed.
Print Assumptions C10H_handover_responder.

Theorem C10H_handover_initiator : forall (E : env) (m : pmsg body) (s : isa),
  WF s -> st (co s) = ST_REK_IKE_SA_REQ_SENT -> fst (process_create_child_sa_response E m s) <> Stuck ->
  kops (snd (process_create_child_sa_response E m s)) = kops s
  /\ tracked (snd (process_create_child_sa_response E m s)) = tracked s
  /\ WF (snd (process_create_child_sa_response E m s))
  /\ (nonempty (get_notifies m N_INVALID_KE_PAYLOAD true) = false ->
      nonempty (get_notifies m N_TEMPORARY_FAILURE true) = false ->
      nonempty (get_notifies m N_NO_ADDITIONAL_SAS true) = false ->
      forall x, fst (process_create_child_sa_response E m s) = Ok x ->
      Moved s (snd (process_create_child_sa_response E m s))).
Proof. exact ike_rekey_response_handover. Qed.
Print Assumptions C10H_handover_initiator.

Theorem C10H_def_moved : forall s s',
  Moved s s' <->
  children (co s') = [] /\
  exists n', new_sa s' = Some n' /\ children n' = children (co s)
             /\ my_addr n' = my_addr (co s) /\ peer_addr n' = peer_addr (co s).
Proof. exact Moved_unfold. Qed.
Print Assumptions C10H_def_moved.

(** ** (b) a kernel refusal leaves neither a tracked-but-absent nor an installed-but-untracked SA *)
Theorem C10H_refusal_responder : forall (E : env) (m : pmsg body) (s : isa) (ks : list kop) (x : ksa),
  fst (child_nego_req E m s) <> Stuck ->
  kops (snd (child_nego_req E m s)) = kops s ++ ks -> In (K_add x false) ks ->
  children (co (snd (child_nego_req E m s))) = children (co s)
  /\ Rest s (snd (child_nego_req E m s))
  /\ forall sd, faithful_run sd ks -> apply_kops sd ks = sd.
Proof. exact responder_refusal_leaves_nothing. Qed.
Print Assumptions C10H_refusal_responder.

Theorem C10H_refusal_create_child_sa_request : forall (E : env) (m : pmsg body) (s : isa) (ks : list kop) (x : ksa),
  fst (process_create_child_sa_request E m s) <> Stuck ->
  kops (snd (process_create_child_sa_request E m s)) = kops s ++ ks -> In (K_add x false) ks ->
  children (co (snd (process_create_child_sa_request E m s))) = children (co s)
  /\ forall sd, faithful_run sd ks -> apply_kops sd ks = sd.
Proof. exact ccsa_request_refusal. Qed.
Print Assumptions C10H_refusal_create_child_sa_request.

Theorem C10H_refusal_ike_auth_request : forall (E : env) (m : pmsg body) (s : isa) (ks : list kop) (x : ksa),
  fst (process_ike_auth_request E m s) <> Stuck ->
  kops (snd (process_ike_auth_request E m s)) = kops s ++ ks -> In (K_add x false) ks ->
  children (co (snd (process_ike_auth_request E m s))) = children (co s)
  /\ forall sd, faithful_run sd ks -> apply_kops sd ks = sd.
Proof. exact auth_request_refusal. Qed.
Print Assumptions C10H_refusal_ike_auth_request.

Theorem C10H_refusal_initiator : forall (E : env) (m : pmsg body) (s : isa) (ks : list kop) (x : ksa),
  fst (child_nego_res E m s) <> Stuck ->
  kops (snd (child_nego_res E m s)) = kops s ++ ks -> In (K_add x false) ks ->
  children (co (snd (child_nego_res E m s))) = children (co s)
  /\ Rest s (snd (child_nego_res E m s))
  /\ forall sd, faithful_run sd ks -> apply_kops sd ks = sd.
Proof. exact initiator_refusal_leaves_nothing. Qed.
Print Assumptions C10H_refusal_initiator.

(** ** (c) CHILD_SA deletion removes exactly the pairs of the deleted CHILD_SAs *)
Theorem C10H_delete_exact : forall (s : isa) (m : pmsg body) (own others : sad),
  Inv s own others -> WF s -> kops s = [] ->
  fst (process_informational_request m s) <> Stuck ->
  faithful_run (own ++ others) (kops (snd (process_informational_request m s))) ->
  exists dels,
    (forall ch, In ch dels -> exists y, In y (children (co s)) /\ child_eqb y ch = true)
    /\ DelOps (co s) dels (kops (snd (process_informational_request m s)))
    /\ children (co (snd (process_informational_request m s))) = fold_left remove_child dels (children (co s))
    /\ succ_keys (new_sa (snd (process_informational_request m s))) = succ_keys (new_sa s)
    /\ apply_kops (own ++ others) (kops (snd (process_informational_request m s)))
       = sad_minus own (keys_of (co s) dels) ++ others
    /\ Inv (snd (process_informational_request m s)) (sad_minus own (keys_of (co s) dels)) others.
Proof. exact info_request_deletes_exactly. Qed.
Print Assumptions C10H_delete_exact.

Theorem C10H_def_sad_minus : forall sd ks k, In k (sad_minus sd ks) <-> In k sd /\ ~ In k ks.
Proof. exact sad_minus_in. Qed.
Print Assumptions C10H_def_sad_minus.

(** ** non-vacuity: concrete runs (computed), and the main theorem applied to one of them *)
Theorem C10H_example_delete :
  let s' := fst (h_request Example.E0 Example.s_del Example.m_del) in
  st (co s') <> -1 /\ faithful_run (Example.own1 ++ Example.others1) (kops s') /\
  kops s' = [K_del 20 50 [0;0;0;2]%N true; K_del 10 50 [0;0;0;1]%N true] /\
  apply_kops Example.own1 (kops s') = [] /\
  apply_kops (Example.own1 ++ Example.others1) (kops s') = Example.others1 /\ children (co s') = [].
Proof. exact Example.ex_delete_run. Qed.
Print Assumptions C10H_example_delete.

Theorem C10H_example_delete_invariant :
  Inv Example.s_del Example.own1 Example.others1 /\ WF Example.s_del /\
  apply_kops (Example.own1 ++ Example.others1) (kops (fst (h_request Example.E0 Example.s_del Example.m_del)))
    = [] ++ Example.others1
  /\ WF (fst (h_request Example.E0 Example.s_del Example.m_del))
  /\ Inv (fst (h_request Example.E0 Example.s_del Example.m_del)) [] Example.others1.
Proof. exact Example.ex_delete_all. Qed.
Print Assumptions C10H_example_delete_invariant.

Theorem C10H_example_refused_spi_of_other_ike_sa :
  let s' := fst (h_request Example.E0 (Example.s_new [D_verdict false]) (Example.m_new [0;0;0;9]%N)) in
  st (co s') <> -1 /\ faithful_run (Example.own1 ++ Example.others1) (kops s') /\
  ~ faithful_run (Example.own1 ++ Example.others1)
      (kops (fst (h_request Example.E0 (Example.s_new [D_verdict true; D_verdict true]) (Example.m_new [0;0;0;9]%N)))) /\
  apply_kops (Example.own1 ++ Example.others1) (kops s') = Example.own1 ++ Example.others1 /\
  children (co s') = [Example.ch1].
Proof. exact Example.ex_refused_run. Qed.
Print Assumptions C10H_example_refused_spi_of_other_ike_sa.

(** an SPI that does not fit the four-byte netlink field: generic exception before any netlink request (answer
    INVALID_SYNTAX), nothing issued, nothing tracked; and a state tracking such a CHILD_SA - which no handler
    produces - is where delete_child_sas would stop half-way *)
Theorem C10H_example_bad_spi :
  let r := h_request Example.E0 (Example.s_new []) (Example.m_new [0;0;8]%N) in
  st (co (fst r)) <> -1 /\ kops (fst r) = [] /\ children (co (fst r)) = [Example.ch1] /\
  snd r = HErr ([], [P_NOTIFY PROTO_NONE N_INVALID_SYNTAX [] []]) /\ Spi4 (fst r).
Proof. exact Example.ex_bad_spi_run. Qed.
Print Assumptions C10H_example_bad_spi.
Theorem C10H_example_bad_spi_teardown :
  let bad := Example.ch1 <| c_out := [7]%N |> <| c_in := [0;0;0;3]%N |> in
  let s0 := mk_isa (Example.core0 ST_ESTABLISHED [Example.ch1; bad]) None None 0 [D_verdict true; D_verdict true] [] in
  fst (delete_child_sas s0) = Raise X_Other /\
  kops (snd (delete_child_sas s0)) = [K_del 20 50 [0;0;0;2]%N true; K_del 10 50 [0;0;0;1]%N true] /\
  children (co (snd (delete_child_sas s0))) = [Example.ch1; bad] /\ ~ Spi4 s0.
Proof. exact Example.ex_bad_spi_teardown. Qed.
Print Assumptions C10H_example_bad_spi_teardown.

Theorem C10H_example_rekey :
  let s' := fst (h_request Example.E0 Example.s_rekey Example.m_rekey) in
  st (co s') = ST_REKEYED /\ kops s' = [] /\ children (co s') = [] /\
  option_map children (new_sa s') = Some [Example.ch1] /\ tracked s' = tracked Example.s_rekey /\
  ike_rekey_request Example.m_rekey = true.
Proof. exact Example.ex_rekey_run. Qed.
Print Assumptions C10H_example_rekey.

(** why "install, then track" matters (the order of the initiator before the fix d8244e2 of /repo): tracking first, a
    NEWSA refused with EEXIST because the peer proposed an SPI installed for ANOTHER IKE_SA leaves a
    tracked-but-absent CHILD_SA, and the teardown that follows deletes the other IKE_SA's kernel SA *)
Theorem C10H_old_order_refuted :
  let s1 := snd (Example.track_then_install Example.ch9 (mk_ckr [] [] [] []) (Example.s_est [D_verdict false])) in
  let s2 := snd (delete_child_sas (s1 <| kops := [] |>
                                      <| tape := [D_verdict true; D_verdict true; D_verdict true; D_verdict false] |>)) in
  faithful_run (Example.own1 ++ Example.others1) (kops s1) /\
  apply_kops (Example.own1 ++ Example.others1) (kops s1) = Example.own1 ++ Example.others1 /\
  In (20, 50, [0;0;0;9]%N) (tracked s1) /\ ~ In (20, 50, [0;0;0;9]%N) Example.own1 /\
  faithful_run (Example.own1 ++ Example.others1) (kops s2) /\ Example.others1 = [(20, 50, [0;0;0;9]%N)] /\
  apply_kops (Example.own1 ++ Example.others1) (kops s2) = [].
Proof. exact Example.old_order_refuted. Qed.
Print Assumptions C10H_old_order_refuted.
