(** C08 - message-ID window (property theorems only).  [P] ranges over every behaviour of the exchange handlers. *)
From Coq Require Import ZArith Bool List.
From IkeSa Require Import Gen.IkeFacts Shell ShellProofs ShellTrace.
Import ListNotations.
Open Scope Z_scope.

(** a copy of the immediately preceding request is answered with the stored response and nothing changes *)
Theorem C08_replay_answered_from_cache : forall (P : iface) (s : sa P) (m : pmsg (B P)),
  h_id (p_hdr m) = peer_id P s - 1 -> process_request P s m = (s, last_resp P s).
Proof. exact request_replay_cached. Qed.
Print Assumptions C08_replay_answered_from_cache.

(** any other ID is dropped without effect *)
Theorem C08_other_id_dropped : forall (P : iface) (s : sa P) (m : pmsg (B P)),
  h_id (p_hdr m) <> peer_id P s -> h_id (p_hdr m) <> peer_id P s - 1 -> process_request P s m = (s, None).
Proof. exact request_other_id_dropped. Qed.
Print Assumptions C08_other_id_dropped.

(** the next expected request is executed exactly once, the window advances by one, the response is stored and
    carries version 2.0, the IKE_SA's SPIs, the request's exchange type, the R flag, the sender's role and the
    request's Message ID *)
Theorem C08_next_request_executed_once : forall (P : iface),
  (forall i z, ipeer_spi P (set_state P i z) = ipeer_spi P i) ->
  forall (s : sa P) (m : pmsg (B P)),
  h_id (p_hdr m) = peer_id P s -> existsb (Z.eqb (h_exch (p_hdr m))) request_exchanges = true ->
  exists s' d,
    process_request P s m = (s', Some d) /\
    peer_id P s' = peer_id P s + 1 /\ my_id P s' = my_id P s /\
    last_resp P s' = Some d /\ req_data P s' = req_data P s /\
    rt_at P s' = rt_at P s /\ rt_n P s' = rt_n P s /\ dpd_at P s' = dpd_at P s /\ pending P s' = pending P s /\
    same_identity P s s' /\
    inner P s' = (match snd (handle_request P (inner P s) m) with
                  | HOk _ => fst (handle_request P (inner P s) m)
                  | HErr _ => set_state P (fst (handle_request P (inner P s) m)) ST_DELETED
                  end) /\
    d_body d = (match snd (handle_request P (inner P s) m) with HOk b => b | HErr b => b end) /\
    d_hdr d = mk_hdr (spi_i P s') (spi_r P s') 2 0 (h_exch (p_hdr m)) true (is_init P s) (peer_id P s).
Proof. exact request_next_executed_once. Qed.
Print Assumptions C08_next_request_executed_once.

Theorem C08_unknown_exchange_ignored : forall (P : iface) (s : sa P) (m : pmsg (B P)),
  h_id (p_hdr m) = peer_id P s -> existsb (Z.eqb (h_exch (p_hdr m))) request_exchanges = false ->
  process_request P s m = (s, None).
Proof. exact request_unknown_exchange_dropped. Qed.
Print Assumptions C08_unknown_exchange_ignored.

(** a response is accepted only for the single outstanding request *)
Theorem C08_response_only_for_outstanding : forall (P : iface) (s : sa P) (m : pmsg (B P)) (now : Z),
  h_id (p_hdr m) <> my_id P s -> process_response P s m now = (s, None).
Proof. exact response_other_id_dropped. Qed.
Print Assumptions C08_response_only_for_outstanding.

(** every request the endpoint builds carries version 2.0, its SPIs, its role, no R flag and the current send
    counter; sending it stores exactly those bytes as the outstanding request *)
Theorem C08_request_stamp : forall (P : iface) (s : sa P) (exch : Z),
  stamp_request P s exch = mk_hdr (spi_i P s) (spi_r P s) 2 0 exch false (is_init P s) (my_id P s).
Proof. exact stamp_request_spec. Qed.
Print Assumptions C08_request_stamp.

Theorem C08_send_stores_request : forall (P : iface) (s : sa P) (now : Z) (d : dgram (B P)),
  let '(s', d') := send_request P s now d in
  d' = d /\ req_data P s' = Some d /\ rt_n P s' = 1 /\ rt_at P s' = now + RETRANSMISSION_DELAY /\
  inner P s' = inner P s /\ my_id P s' = my_id P s /\ peer_id P s' = peer_id P s /\
  last_resp P s' = last_resp P s /\ dpd_at P s' = dpd_at P s /\ pending P s' = pending P s /\ same_identity P s s'.
Proof. exact send_request_spec. Qed.
Print Assumptions C08_send_stores_request.

(** ------------------------------------------------------------------ whole histories
    [sevent]: a parsed message (anything: replayed, duplicated, reordered, forged), a local trigger, or a pass of
    the timer loops; [sstep] is what the IKE_SA does with it; [executes s m] says that the request handler runs
    on [m] in [s]; [accepts s m] that the response [m] is taken. *)

(** Over EVERY history the IDs of the requests whose handler ran are peer_id, peer_id+1, peer_id+2, ... and the
    receive counter ends right after the last of them. *)
Theorem C08_executed_requests_are_consecutive : forall (P : iface) (es : list (sevent P)) (s : sa P),
  executed_ids P es s = count_from (peer_id P s) (length (executed_ids P es s)) /\
  peer_id P (fold_left (sstep P) es s) = peer_id P s + Z.of_nat (length (executed_ids P es s)).
Proof. exact executed_ids_consecutive. Qed.
Print Assumptions C08_executed_requests_are_consecutive.

(** ... hence no request ID is executed twice, whatever is replayed *)
Theorem C08_no_request_executed_twice : forall (P : iface) (es : list (sevent P)) (s : sa P),
  NoDup (executed_ids P es s).
Proof. exact executed_at_most_once. Qed.
Print Assumptions C08_no_request_executed_twice.

(** a request that is not executed leaves the handler-owned part of the IKE_SA (keys, CHILD_SAs, state) as it was *)
Theorem C08_unexecuted_request_changes_nothing_inside : forall (P : iface) (s : sa P) (m : pmsg (B P)) (now : Z),
  h_resp (p_hdr m) = false -> executes P s m = false -> inner P (fst (process_message P s m now)) = inner P s.
Proof. exact unexecuted_request_leaves_inner. Qed.
Print Assumptions C08_unexecuted_request_changes_nothing_inside.

(** the send counter moves only when a response carrying exactly its value is taken: then by one (or back to 0
    when the handler restarts IKE_SA_INIT after a COOKIE / INVALID_KE_PAYLOAD answer) *)
Theorem C08_send_counter_moves_only_on_matching_response : forall (P : iface) (s : sa P) (e : sevent P),
  my_id P (sstep P s e) = my_id P s \/
  (exists m now, e = SMsg P m now /\ accepts P s m = true /\ h_id (p_hdr m) = my_id P s /\ h_resp (p_hdr m) = true /\
                 (my_id P (sstep P s e) = my_id P s + 1 \/ my_id P (sstep P s e) = 0)).
Proof. exact step_my_id. Qed.
Print Assumptions C08_send_counter_moves_only_on_matching_response.

(** the follow-up request sent after a response, and a request built for a local trigger, carry the send counter *)
Theorem C08_followup_request_carries_send_counter : forall (P : iface) (s : sa P) (m : pmsg (B P)) (now : Z) s' d,
  process_response P s m now = (s', Some d) -> h_id (d_hdr d) = my_id P s' /\ h_resp (d_hdr d) = false.
Proof. exact process_response_emits_current_id. Qed.
Print Assumptions C08_followup_request_carries_send_counter.

Theorem C08_trigger_request_carries_send_counter : forall (P : iface) (s : sa P) (now : Z) (ev : EV P) s' d,
  process_trigger P s now ev = (s', Some d) -> h_id (d_hdr d) = my_id P s' /\ h_resp (d_hdr d) = false.
Proof. exact trigger_emits_current_id. Qed.
Print Assumptions C08_trigger_request_carries_send_counter.

(** one request outstanding at a time (regenerated tables of ikesa.py): generators enter request-outstanding
    states only; triggers and timers build a request only in states where none is outstanding *)
Theorem C08_one_request_outstanding :
  (forall f, In f request_generators ->
             assigned_by f <> [] /\ forallb rt_states (assigned_by f) = true) /\
  (forall st, acquire_must_queue st = false -> rt_states st = false) /\
  (forall st, expire_must_queue st = false -> rt_states st = false) /\
  (forall at_ now st, dpd_due at_ now st = true -> rt_states st = false) /\
  rt_states ST_ESTABLISHED = false.
Proof. exact one_request_outstanding. Qed.
Print Assumptions C08_one_request_outstanding.
