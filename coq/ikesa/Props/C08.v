(** C08 - message-ID window (property theorems only).  [P] ranges over every behaviour of the exchange handlers. *)
From Coq Require Import ZArith Bool List.
From IkeSa Require Import Gen.IkeFacts Shell ShellProofs.
Import ListNotations.
Open Scope Z_scope.

(** a copy of the immediately preceding request is answered with the stored response and nothing changes *)
Theorem C08_replay_answered_from_cache : forall (P : iface) (s : sa P) (m : pmsg (B P)),
  h_id (p_hdr m) = peer_id P s - 1 -> process_request P s m = (s, last_resp P s).
Proof. exact request_replay_cached. Qed.
Print Assumptions C08_replay_answered_from_cache.

(** any other ID is dropped without effect *)
Theorem C08_other_id_dropped : forall (P : iface) (s : sa P) (m : pmsg (B P)),
  h_id (p_hdr m) <> peer_id P s -> h_id (p_hdr m) <> peer_id P s - 1 -> process_request P s m = (s, None).
Proof. exact request_other_id_dropped. Qed.
Print Assumptions C08_other_id_dropped.

(** the next expected request is executed exactly once, the window advances by one, the response is stored and
    carries version 2.0, the IKE_SA's SPIs, the request's exchange type, the R flag, the sender's role and the
    request's Message ID *)
Theorem C08_next_request_executed_once : forall (P : iface),
  (forall i z, ipeer_spi P (set_state P i z) = ipeer_spi P i) ->
  forall (s : sa P) (m : pmsg (B P)),
  h_id (p_hdr m) = peer_id P s -> existsb (Z.eqb (h_exch (p_hdr m))) request_exchanges = true ->
  exists s' d,
    process_request P s m = (s', Some d) /\
    peer_id P s' = peer_id P s + 1 /\ my_id P s' = my_id P s /\
    last_resp P s' = Some d /\ req_data P s' = req_data P s /\
    rt_at P s' = rt_at P s /\ rt_n P s' = rt_n P s /\ dpd_at P s' = dpd_at P s /\ pending P s' = pending P s /\
    same_identity P s s' /\
    inner P s' = (match snd (handle_request P (inner P s) m) with
                  | HOk _ => fst (handle_request P (inner P s) m)
                  | HErr _ => set_state P (fst (handle_request P (inner P s) m)) ST_DELETED
                  end) /\
    d_body d = (match snd (handle_request P (inner P s) m) with HOk b => b | HErr b => b end) /\
    d_hdr d = mk_hdr (spi_i P s') (spi_r P s') 2 0 (h_exch (p_hdr m)) true (is_init P s) (peer_id P s).
Proof. exact request_next_executed_once. Qed.
Print Assumptions C08_next_request_executed_once.

Theorem C08_unknown_exchange_ignored : forall (P : iface) (s : sa P) (m : pmsg (B P)),
  h_id (p_hdr m) = peer_id P s -> existsb (Z.eqb (h_exch (p_hdr m))) request_exchanges = false ->
  process_request P s m = (s, None).
Proof. exact request_unknown_exchange_dropped. Qed.
Print Assumptions C08_unknown_exchange_ignored.

(** a response is accepted only for the single outstanding request *)
Theorem C08_response_only_for_outstanding : forall (P : iface) (s : sa P) (m : pmsg (B P)) (now : Z),
  h_id (p_hdr m) <> my_id P s -> process_response P s m now = (s, None).
Proof. exact response_other_id_dropped. Qed.
Print Assumptions C08_response_only_for_outstanding.

(** every request the endpoint builds carries version 2.0, its SPIs, its role, no R flag and the current send
    counter; sending it stores exactly those bytes as the outstanding request *)
Theorem C08_request_stamp : forall (P : iface) (s : sa P) (exch : Z),
  stamp_request P s exch = mk_hdr (spi_i P s) (spi_r P s) 2 0 exch false (is_init P s) (my_id P s).
Proof. exact stamp_request_spec. Qed.
Print Assumptions C08_request_stamp.

Theorem C08_send_stores_request : forall (P : iface) (s : sa P) (now : Z) (d : dgram (B P)),
  let '(s', d') := send_request P s now d in
  d' = d /\ req_data P s' = Some d /\ rt_n P s' = 1 /\ rt_at P s' = now + RETRANSMISSION_DELAY /\
  inner P s' = inner P s /\ my_id P s' = my_id P s /\ peer_id P s' = peer_id P s /\
  last_resp P s' = last_resp P s /\ dpd_at P s' = dpd_at P s /\ pending P s' = pending P s /\ same_identity P s s'.
Proof. exact send_request_spec. Qed.
Print Assumptions C08_send_stores_request.
