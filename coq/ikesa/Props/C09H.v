(** C09 for the concrete handlers (Hdl.v) under the concrete shell (Shell.v instantiated with [hdl_iface E]): every
    transition of IkeSa.state made by an entry point is one the state machine of Transitions.v allows, the entry points
    are total functions whose result state is a state of the machine (the stuck marker -1 = "environment tape did not
    match / a timer-driven generator raised" is listed explicitly where it can occur), DELETED is final, REKEYED only
    waits for its deletion, and the RFC 7296 2.25 collision answers (property theorems only).
    [step_ok a b] := allowed a b = true /\ In b all_states. *)
From Coq Require Import ZArith NArith Bool List.
From RecordUpdate Require Import RecordSet.
From VLib Require Import Bytes.
From IkeSa Require Import Gen.IkeFacts Shell Hdl Transitions HdlAuth HdlTrans.
Import ListNotations RecordSetNotations.
Open Scope Z_scope.

Theorem C09H_step_ok : forall a b, step_ok a b <-> allowed a b = true /\ In b all_states.
Proof. exact (fun a b => iff_refl _). Qed.
Print Assumptions C09H_step_ok.

(** _process_request with the concrete handlers: one allowed step, never stuck, whatever the handler did (a handler
    exception or a tape mismatch ends in DELETED) *)
Theorem C09H_process_request_step : forall E (s : sa (hdl_iface E)) m,
  In (state (hdl_iface E) s) all_states ->
  step_ok (state (hdl_iface E) s) (state (hdl_iface E) (fst (process_request (hdl_iface E) s m))).
Proof. exact process_request_step. Qed.
Print Assumptions C09H_process_request_step.

(** _process_response: one allowed step; or, when the handler closes the exchange in ESTABLISHED and local triggers
    are queued, that step followed by the step of the first queued trigger that starts an exchange *)
Theorem C09H_process_response_step : forall E (s : sa (hdl_iface E)) m now,
  In (state (hdl_iface E) s) all_states ->
  let b := state (hdl_iface E) (fst (process_response (hdl_iface E) s m now)) in
  step_ok (state (hdl_iface E) s) b \/
  (step_ok (state (hdl_iface E) s) ST_ESTABLISHED /\ pending (hdl_iface E) s <> [] /\
   (b = ST_ESTABLISHED \/ b = ST_NEW_CHILD_REQ_SENT \/ b = ST_REK_CHILD_REQ_SENT \/ b = ST_DEL_CHILD_REQ_SENT \/
    b = STUCK)).
Proof. exact process_response_step. Qed.
Print Assumptions C09H_process_response_step.

(** ... and the single-step reading is false for _process_response (witness: DPD_REQ_SENT with a queued acquire,
    INFORMATIONAL response: 17 -> 10 -> 11 in one call) *)
Theorem C09H_process_response_single_step_refuted :
  exists E (s : sa (hdl_iface E)) m now,
    In (state (hdl_iface E) s) all_states /\
    allowed (state (hdl_iface E) s) (state (hdl_iface E) (fst (process_response (hdl_iface E) s m now))) = false.
Proof. exact process_response_single_step_refuted. Qed.
Print Assumptions C09H_process_response_single_step_refuted.

(** a response handler that raised ([RErr r]; also: no handler for the exchange type, tape mismatch): for a response
    with the expected Message ID and a known exchange type the IkeSa ends DELETED and nothing is sent, whatever the
    flag [r] ("the handler had already executed self.my_msg_id = 0") says; the handler-owned state is what the
    handler left, [r] only decides what the Message ID counter of the dead IkeSa reads *)
Theorem C09H_response_error_ends_the_ike_sa : forall E (s : sa (hdl_iface E)) (m : pmsg body) (now : Z) (r : bool),
  res_id_unexpected (h_id (p_hdr m)) (peer_id (hdl_iface E) s) (my_id (hdl_iface E) s) = false ->
  existsb (Z.eqb (h_exch (p_hdr m))) response_exchanges = true ->
  snd (h_response E (inner (hdl_iface E) s) m) = RErr r ->
  state (hdl_iface E) (fst (process_response (hdl_iface E) s m now)) = ST_DELETED
  /\ snd (process_response (hdl_iface E) s m now) = None
  /\ inner (hdl_iface E) (fst (process_response (hdl_iface E) s m now))
     = (fst (h_response E (inner (hdl_iface E) s) m))
         <| co := (co (fst (h_response E (inner (hdl_iface E) s) m))) <| st := ST_DELETED |> |>
  /\ my_id (hdl_iface E) (fst (process_response (hdl_iface E) s m now))
     = (if r then 0 else my_id (hdl_iface E) s + 1).
Proof. exact response_error_ends_the_ike_sa. Qed.
Print Assumptions C09H_response_error_ends_the_ike_sa.

Theorem C09H_process_message_step : forall E (s : sa (hdl_iface E)) m now,
  In (state (hdl_iface E) s) all_states ->
  let b := state (hdl_iface E) (fst (process_message (hdl_iface E) s m now)) in
  step_ok (state (hdl_iface E) s) b \/
  (step_ok (state (hdl_iface E) s) ST_ESTABLISHED /\ pending (hdl_iface E) s <> [] /\
   (b = ST_ESTABLISHED \/ b = ST_NEW_CHILD_REQ_SENT \/ b = ST_REK_CHILD_REQ_SENT \/ b = ST_DEL_CHILD_REQ_SENT \/
    b = STUCK)).
Proof. exact process_message_step. Qed.
Print Assumptions C09H_process_message_step.

Theorem C09H_process_trigger_step : forall E (s : sa (hdl_iface E)) now ev,
  In (state (hdl_iface E) s) all_states ->
  let b := state (hdl_iface E) (fst (process_trigger (hdl_iface E) s now ev)) in
  (b = STUCK /\ (state (hdl_iface E) s = ST_INITIAL \/ state (hdl_iface E) s = ST_ESTABLISHED)) \/
  step_ok (state (hdl_iface E) s) b.
Proof. exact process_trigger_step. Qed.
Print Assumptions C09H_process_trigger_step.

Theorem C09H_check_retransmission_step : forall E (s : sa (hdl_iface E)) now,
  In (state (hdl_iface E) s) all_states ->
  step_ok (state (hdl_iface E) s) (state (hdl_iface E) (fst (check_retransmission (hdl_iface E) s now))).
Proof. exact check_retransmission_step. Qed.
Print Assumptions C09H_check_retransmission_step.

Theorem C09H_check_dpd_step : forall E (s : sa (hdl_iface E)) now,
  In (state (hdl_iface E) s) all_states ->
  step_ok (state (hdl_iface E) s) (state (hdl_iface E) (fst (check_dpd (hdl_iface E) s now))).
Proof. exact check_dpd_step. Qed.
Print Assumptions C09H_check_dpd_step.

Theorem C09H_check_lifetime_step : forall E (s : sa (hdl_iface E)) now,
  In (state (hdl_iface E) s) all_states ->
  let b := state (hdl_iface E) (fst (check_lifetime (hdl_iface E) s now)) in
  (b = STUCK /\ state (hdl_iface E) s = ST_ESTABLISHED) \/ step_ok (state (hdl_iface E) s) b.
Proof. exact check_lifetime_step. Qed.
Print Assumptions C09H_check_lifetime_step.

(** handler level: whatever the outcome of a handler (return, ANY exception, tape mismatch) the state it leaves is an
    allowed successor of the state it was entered in - also before the shell assigns DELETED *)
Theorem C09H_request_handlers_step_ok : forall E x f m s r s',
  request_handler E x = Some f -> In (st (co s)) all_states -> f m s = (r, s') ->
  step_ok (st (co s)) (st (co s')).
Proof. exact request_handlers_step_ok. Qed.
Print Assumptions C09H_request_handlers_step_ok.

Theorem C09H_response_handlers_step_ok : forall E x f m s r s',
  response_handler E x = Some f -> In (st (co s)) all_states -> f m s = (r, s') ->
  step_ok (st (co s)) (st (co s')).
Proof. exact response_handlers_step_ok. Qed.
Print Assumptions C09H_response_handlers_step_ok.

Theorem C09H_ccsa_response_transitions : forall E m s r s',
  process_create_child_sa_response E m s = (r, s') ->
  st (co s') = st (co s) \/
  ((st (co s) = ST_NEW_CHILD_REQ_SENT \/ st (co s) = ST_REK_CHILD_REQ_SENT) /\
   (st (co s') = ST_ESTABLISHED \/ st (co s') = ST_DEL_CHILD_REQ_SENT)) \/
  (st (co s) = ST_REK_IKE_SA_REQ_SENT /\
   (st (co s') = ST_ESTABLISHED \/ st (co s') = ST_DEL_IKE_SA_REQ_SENT \/
    st (co s') = ST_DEL_AFTER_REKEY_IKE_SA_REQ_SENT)).
Proof. exact ccsa_response_transitions. Qed.
Print Assumptions C09H_ccsa_response_transitions.

Theorem C09H_generators_transitions : forall s,
  (forall r s', generate_dpd_request s = (r, s') ->
     match r with Ok _ => st (co s) = ST_ESTABLISHED /\ st (co s') = ST_DPD_REQ_SENT
             | _ => st (co s') = st (co s) /\ st (co s) <> ST_ESTABLISHED end) /\
  (forall r s', generate_delete_ike_sa_request s = (r, s') ->
     match r with
     | Ok _ => (st (co s) = ST_ESTABLISHED /\ st (co s') = ST_DEL_IKE_SA_REQ_SENT) \/
               (st (co s) = ST_REKEYED /\ st (co s') = ST_DEL_AFTER_REKEY_IKE_SA_REQ_SENT)
     | _ => st (co s') = st (co s) /\ st (co s) <> ST_ESTABLISHED /\ st (co s) <> ST_REKEYED end) /\
  (forall r s', generate_rekey_ike_sa_request s = (r, s') ->
     match r with Ok _ => st (co s) = ST_ESTABLISHED /\ st (co s') = ST_REK_IKE_SA_REQ_SENT
             | _ => st (co s') = st (co s) end) /\
  (forall ch rk r s', generate_create_child_sa_request ch rk s = (r, s') ->
     match r with
     | Ok _ => st (co s) = ST_ESTABLISHED /\
               st (co s') = match rk with None => ST_NEW_CHILD_REQ_SENT | Some _ => ST_REK_CHILD_REQ_SENT end
     | _ => st (co s') = st (co s) end) /\
  (forall ch r s', generate_delete_child_sa_request ch s = (r, s') ->
     match r with Ok _ => st (co s) = ST_ESTABLISHED /\ st (co s') = ST_DEL_CHILD_REQ_SENT
             | _ => st (co s') = st (co s) /\ st (co s) <> ST_ESTABLISHED end).
Proof. exact generators_transitions. Qed.
Print Assumptions C09H_generators_transitions.

(** the generator generate_delete_ike_sa_request taken alone moves REKEYED -> DEL_AFTER_REKEY_IKE_SA_REQ_SENT, which
    [allowed] does not list (the specification counts REK_IKE_SA_REQ_SENT -> 16 as ONE step, and that is what the only
    caller in REKEYED, process_create_child_sa_response, does: C09H_ccsa_response_transitions) *)
Theorem C09H_generator_delete_ike_from_rekeyed_refuted :
  exists s, In (st (co s)) all_states /\
            allowed (st (co s)) (st (co (snd (generate_delete_ike_sa_request s)))) = false.
Proof. exact generator_delete_ike_from_rekeyed_refuted. Qed.
Print Assumptions C09H_generator_delete_ike_from_rekeyed_refuted.

Theorem C09H_deleted_is_final : forall E (s : sa (hdl_iface E)) m now ev,
  state (hdl_iface E) s = ST_DELETED ->
  state (hdl_iface E) (fst (process_request (hdl_iface E) s m)) = ST_DELETED /\
  state (hdl_iface E) (fst (process_response (hdl_iface E) s m now)) = ST_DELETED /\
  state (hdl_iface E) (fst (process_message (hdl_iface E) s m now)) = ST_DELETED /\
  state (hdl_iface E) (fst (process_trigger (hdl_iface E) s now ev)) = ST_DELETED /\
  state (hdl_iface E) (fst (check_retransmission (hdl_iface E) s now)) = ST_DELETED /\
  state (hdl_iface E) (fst (check_dpd (hdl_iface E) s now)) = ST_DELETED /\
  state (hdl_iface E) (fst (check_lifetime (hdl_iface E) s now)) = ST_DELETED.
Proof. exact deleted_is_final. Qed.
Print Assumptions C09H_deleted_is_final.

(** no entry point moves a REKEYED IKE_SA anywhere but to DELETED (and the only other assignment made in REKEYED is
    the generator's DEL_AFTER_REKEY_IKE_SA_REQ_SENT, above) *)
Theorem C09H_rekeyed_only_waits : forall E (s : sa (hdl_iface E)) m now ev,
  state (hdl_iface E) s = ST_REKEYED ->
  let ok b := b = ST_REKEYED \/ b = ST_DELETED in
  ok (state (hdl_iface E) (fst (process_request (hdl_iface E) s m))) /\
  ok (state (hdl_iface E) (fst (process_response (hdl_iface E) s m now))) /\
  ok (state (hdl_iface E) (fst (process_message (hdl_iface E) s m now))) /\
  ok (state (hdl_iface E) (fst (process_trigger (hdl_iface E) s now ev))) /\
  ok (state (hdl_iface E) (fst (check_retransmission (hdl_iface E) s now))) /\
  ok (state (hdl_iface E) (fst (check_dpd (hdl_iface E) s now))) /\
  ok (state (hdl_iface E) (fst (check_lifetime (hdl_iface E) s now))).
Proof. exact rekeyed_only_waits. Qed.
Print Assumptions C09H_rekeyed_only_waits.

(** RFC 7296 2.25, concrete handler.  [child_sa_request m]: first proposal of the SA payload is not an IKE proposal
    and TSi, TSr are present; the result state is exactly [clear_flags s]: no kernel operation, CHILD_SAs untouched *)
Theorem C09H_child_sa_request : forall m,
  child_sa_request m <->
  (exists psa rest p0 props, get_payloads m K_SA true = psa :: rest /\ sa_props psa = p0 :: props /\
                             pr_proto p0 <> PROTO_IKE) /\
  get_payloads m K_TSi true <> [] /\ get_payloads m K_TSr true <> [].
Proof. exact (fun m => iff_refl _). Qed.
Print Assumptions C09H_child_sa_request.

Theorem C09H_clear_flags_untouched : forall s,
  kops (clear_flags s) = kops s /\ children (co (clear_flags s)) = children (co s) /\
  st (co (clear_flags s)) = st (co s) /\ new_sa (clear_flags s) = new_sa s.
Proof. exact clear_flags_untouched. Qed.
Print Assumptions C09H_clear_flags_untouched.

Theorem C09H_collision_child_request_while_ike_busy : forall E s m,
  st (co s) = ST_REK_IKE_SA_REQ_SENT \/ st (co s) = ST_DEL_IKE_SA_REQ_SENT ->
  h_exch (p_hdr m) = EX_CREATE_CHILD_SA -> child_sa_request m ->
  h_request E s m = (clear_flags s, HOk ([], [P_NOTIFY PROTO_NONE N_TEMPORARY_FAILURE [] []])).
Proof. exact collision_child_request_while_ike_busy. Qed.
Print Assumptions C09H_collision_child_request_while_ike_busy.

Theorem C09H_collision_ike_rekey_while_busy : forall E s m,
  In (st (co s)) all_states -> ST_ESTABLISHED < st (co s) < ST_REKEYED ->
  h_exch (p_hdr m) = EX_CREATE_CHILD_SA ->
  (exists psa rest p0 props, get_payloads m K_SA true = psa :: rest /\ sa_props psa = p0 :: props /\
                             pr_proto p0 = PROTO_IKE) ->
  h_request E s m = (clear_flags s, HOk ([], [P_NOTIFY PROTO_NONE N_TEMPORARY_FAILURE [] []])).
Proof. exact collision_ike_rekey_while_busy. Qed.
Print Assumptions C09H_collision_ike_rekey_while_busy.

Theorem C09H_collision_rekey_unknown_child : forall E s m nproto nty nspi nd rest,
  In (st (co s)) all_states -> ST_ESTABLISHED <= st (co s) < ST_REKEYED ->
  st (co s) <> ST_REK_IKE_SA_REQ_SENT -> st (co s) <> ST_DEL_IKE_SA_REQ_SENT ->
  h_exch (p_hdr m) = EX_CREATE_CHILD_SA -> child_sa_request m ->
  get_notifies m N_REKEY_SA true = P_NOTIFY nproto nty nspi nd :: rest ->
  find_child (children (co s)) nspi = None ->
  h_request E s m = (clear_flags s, HOk ([], [P_NOTIFY nproto N_CHILD_SA_NOT_FOUND nspi []])).
Proof. exact collision_rekey_unknown_child. Qed.
Print Assumptions C09H_collision_rekey_unknown_child.

Theorem C09H_collision_rekey_child_in_use : forall E s m nproto nty nspi nd rest rk,
  (st (co s) = ST_DEL_CHILD_REQ_SENT /\ opt_child_eqb rk (deleting (co s)) = true) \/
  (st (co s) = ST_REK_CHILD_REQ_SENT /\ opt_child_eqb rk (rekeying (co s)) = true) ->
  h_exch (p_hdr m) = EX_CREATE_CHILD_SA -> child_sa_request m ->
  get_notifies m N_REKEY_SA true = P_NOTIFY nproto nty nspi nd :: rest ->
  find_child (children (co s)) nspi = Some rk ->
  h_request E s m = (clear_flags s, HOk ([], [P_NOTIFY PROTO_NONE N_TEMPORARY_FAILURE [] []])).
Proof. exact collision_rekey_child_in_use. Qed.
Print Assumptions C09H_collision_rekey_child_in_use.
