(** C13 for the concrete IkeSa model: the hard lifetime deadline (delete_ike_sa_at) is never written after creation,
    whatever message, trigger or timer is processed and whatever the handlers do (the only shell-owned timer a handler
    writes is rekey_ike_sa_at, modelled by [rek_push] and applied by the caller).  Property theorems only. *)
From Coq Require Import ZArith Bool List.
From VLib Require Import Bytes.
From IkeSa Require Import Gen.IkeFacts Shell Hdl HdlShell.
Open Scope Z_scope.

Theorem C13H_hard_deadline_never_moves_message : forall (E : env) (s : sa (hdl_iface E)) (m : pmsg body) (now : Z),
  del_at (hdl_iface E) (fst (process_message (hdl_iface E) s m now)) = del_at (hdl_iface E) s.
Proof. exact del_at_process_message. Qed.
Print Assumptions C13H_hard_deadline_never_moves_message.

Theorem C13H_hard_deadline_never_moves_trigger : forall (E : env) (s : sa (hdl_iface E)) (now : Z) (e : event),
  del_at (hdl_iface E) (fst (process_trigger (hdl_iface E) s now e)) = del_at (hdl_iface E) s.
Proof. exact del_at_process_trigger. Qed.
Print Assumptions C13H_hard_deadline_never_moves_trigger.

Theorem C13H_hard_deadline_never_moves_timers : forall (E : env) (s : sa (hdl_iface E)) (now : Z),
  del_at (hdl_iface E) (fst (check_retransmission (hdl_iface E) s now)) = del_at (hdl_iface E) s /\
  del_at (hdl_iface E) (fst (check_dpd (hdl_iface E) s now)) = del_at (hdl_iface E) s /\
  del_at (hdl_iface E) (fst (check_lifetime (hdl_iface E) s now)) = del_at (hdl_iface E) s.
Proof. exact del_at_timers. Qed.
Print Assumptions C13H_hard_deadline_never_moves_timers.
