(** C16 on the whole-endpoint model (Endpoint.v): the table clauses, as theorems about [iteration] / [dispatch].
    (b) and (c) need no hypothesis on the tape or on the kernel verdicts. *)
From Coq Require Import ZArith NArith Bool List.
From RecordUpdate Require Import RecordSet.
From VLib Require Import Bytes.
From IkeSa Require Import Gen.IkeFacts Shell Hdl HdlSad Endpoint EndpointSad.
Import ListNotations RecordSetNotations.
Open Scope Z_scope.

(** (a) creation indices are unique and below next_cid (part of the endpoint invariant, which every iteration
    preserves: C10E_iteration) *)
Theorem C16E_creation_indices : forall E (ep : endpoint E) sd,
  EInv E ep sd -> NoDup (map fst (table E ep)) /\ forall c, In c (map fst (table E ep)) -> (c < next_cid E ep)%nat.
Proof. exact cids_unique. Qed.
Print Assumptions C16E_creation_indices.

(** (b) + (c): what [AllQ] says *)
Theorem C16E_def_table_clause : forall E (t : list (nat * esa E)),
  AllQ E t <-> forall c s, In (c, s) t ->
                 st (co (inner (hdl_iface E) s)) <> ST_DELETED
                 /\ (st (co (inner (hdl_iface E) s)) = ST_REKEYED
                     \/ st (co (inner (hdl_iface E) s)) = ST_DEL_AFTER_REKEY_IKE_SA_REQ_SENT ->
                     new_sa (inner (hdl_iface E) s) = None).
Proof. exact AllQ_unfold. Qed.
Print Assumptions C16E_def_table_clause.

(** (b) an IkeSa that ends (delete exchange, fatal error, retransmission give-up) is removed in the same iteration:
    no table entry is DELETED afterwards; (c) the successor of a rekeyed IkeSa is registered exactly once: an entry
    that is REKEYED / DEL_AFTER_REKEY_IKE_SA_REQ_SENT no longer has a [new_sa] - for every event, tape and verdicts *)
Theorem C16E_iteration_table : forall E (ep : endpoint E) tnow tp e,
  AllQ E (table E ep) -> AllQ E (table E (iteration E ep tnow tp e)).
Proof. exact iteration_table. Qed.
Print Assumptions C16E_iteration_table.

Theorem C16E_history_table : forall E evs (ep : endpoint E),
  AllQ E (table E ep) -> AllQ E (table E (run E ep evs)).
Proof. exact run_table. Qed.
Print Assumptions C16E_history_table.

Theorem C16E_empty_table : forall E, AllQ E [].
Proof. exact AllQ_nil. Qed.
Print Assumptions C16E_empty_table.

(** (b), second half: the kernel SAs of an IkeSa that was removed are gone - every installed key belongs to an
    IkeSa that is in the table *)
Theorem C16E_removed_leaves_no_kernel_sa : forall E (ep : endpoint E) sd k,
  EInv E ep sd -> In k sd -> exists c s, In (c, s) (table E ep) /\ In k (tracked (inner (hdl_iface E) s)).
Proof. exact einv_owner. Qed.
Print Assumptions C16E_removed_leaves_no_kernel_sa.

(** (d) what the dispatcher ignores *)
Theorem C16E_not_an_ike_message : forall E (ep : endpoint E), dispatch E ep Dg_bad = ep.
Proof. exact dispatch_bad. Qed.
Print Assumptions C16E_not_an_ike_message.

Theorem C16E_unknown_spi : forall E (ep : endpoint E) h my peer parsed,
  dispatch_is_init_request (h_exch h) (negb (h_resp h)) = false ->
  find (fun x : nat * esa E => Z.eqb (my_spi (hdl_iface E) (snd x)) (dispatch_my_spi (h_init h) (h_spi_i h) (h_spi_r h)))
       (table E ep) = None ->
  dispatch E ep (Dg h my peer parsed) = ep.
Proof. exact dispatch_unknown_spi. Qed.
Print Assumptions C16E_unknown_spi.

Theorem C16E_unconfigured_peer : forall E (ep : endpoint E) h my peer parsed,
  dispatch_is_init_request (h_exch h) (negb (h_resp h)) = true -> find_conf E ep my peer = None ->
  dispatch E ep (Dg h my peer parsed) = ep.
Proof. exact dispatch_unconfigured. Qed.
Print Assumptions C16E_unconfigured_peer.

Theorem C16E_unparsable_for_known_spi : forall E (ep : endpoint E) h my peer cid (s : esa E),
  dispatch_is_init_request (h_exch h) (negb (h_resp h)) = false ->
  find (fun x : nat * esa E => Z.eqb (my_spi (hdl_iface E) (snd x)) (dispatch_my_spi (h_init h) (h_spi_i h) (h_spi_r h)))
       (table E ep) = Some (cid, s) ->
  dispatch E ep (Dg h my peer None) = routed E ep cid.
Proof. exact dispatch_unparsable. Qed.
Print Assumptions C16E_unparsable_for_known_spi.

(** (e) routing: process_message runs ([handle] = enter / process_message / leave / finish) on the FIRST entry whose
    my_spi is the SPI the header selects ... *)
Theorem C16E_routing : forall E (ep : endpoint E) h my peer m cid (s : esa E),
  dispatch_is_init_request (h_exch h) (negb (h_resp h)) = false ->
  find (fun x : nat * esa E => Z.eqb (my_spi (hdl_iface E) (snd x)) (dispatch_my_spi (h_init h) (h_spi_i h) (h_spi_r h)))
       (table E ep) = Some (cid, s) ->
  dispatch E ep (Dg h my peer (Some m)) = handle E (routed E ep cid) cid s m
  /\ exists t1 t2, table E ep = t1 ++ (cid, s) :: t2
                   /\ my_spi (hdl_iface E) s = dispatch_my_spi (h_init h) (h_spi_i h) (h_spi_r h)
                   /\ forall y, In y t1 -> my_spi (hdl_iface E) (snd y) <> dispatch_my_spi (h_init h) (h_spi_i h) (h_spi_r h).
Proof. exact dispatch_routes. Qed.
Print Assumptions C16E_routing.

(** ... or, for an IKE_SA_INIT request, on a freshly created entry carrying the next creation index *)
Theorem C16E_routing_init_request : forall E (ep : endpoint E) h my peer m c ep0 cid (s0 : esa E),
  dispatch_is_init_request (h_exch h) (negb (h_resp h)) = true -> find_conf E ep my peer = Some c ->
  create E ep false (be_encode 8 (Z.to_N (h_spi_i h))) c my peer = Some (ep0, cid, s0) ->
  cid = next_cid E ep /\ table E ep0 = table E ep ++ [(cid, s0)]
  /\ dispatch E ep (Dg h my peer (Some m))
     = handle_fresh E (routed E (with_table E ep0 (Endpoint.replace E (table E ep0) cid (arm E ep0 s0))) cid) cid (arm E ep0 s0) m.
Proof. exact dispatch_init_request. Qed.
Print Assumptions C16E_routing_init_request.

(** [handle_fresh]: as [handle], but a fresh IkeSa that is still INITIAL after process_message (it ignored the
    request) is removed again at once (fix 73b0c79 of /repo) *)
Theorem C16E_def_handle_fresh : forall E (ep : endpoint E) cid (s : esa E) m,
  handle_fresh E ep cid s m =
  if Z.eqb (state (hdl_iface E) (snd (leave E ep (fst (process_message (hdl_iface E) (enter E ep s) m (ep_now E ep))))))
           ST_INITIAL
  then send E (with_table E (fst (leave E ep (fst (process_message (hdl_iface E) (enter E ep s) m (ep_now E ep)))))
                 (remove_cid E (table E (fst (leave E ep (fst (process_message (hdl_iface E) (enter E ep s) m (ep_now E ep)))))) cid))
              (snd (process_message (hdl_iface E) (enter E ep s) m (ep_now E ep)))
  else handle E ep cid s m.
Proof. exact handle_fresh_def. Qed.
Print Assumptions C16E_def_handle_fresh.

(** a freshly created responder IkeSa never stays in the table in ST_INITIAL: if it ignored the IKE_SA_INIT request
    (it is still INITIAL after process_message) the table is the old table again, no kernel operation was issued,
    and what is sent is whatever process_message returned *)
Theorem C16E_ignored_init_request_leaves_nothing :
  forall E (ep : endpoint E) h my peer (m : pmsg body) c ep0 cid (s0 : esa E),
  (forall x, In x (map fst (table E ep)) -> (x < next_cid E ep)%nat) ->
  dispatch_is_init_request (h_exch h) (negb (h_resp h)) = true -> find_conf E ep my peer = Some c ->
  create E ep false (be_encode 8 (Z.to_N (h_spi_i h))) c my peer = Some (ep0, cid, s0) ->
  let ep1 := routed E (with_table E ep0 (Endpoint.replace E (table E ep0) cid (arm E ep0 s0))) cid in
  let r := process_message (hdl_iface E) (enter E ep1 (arm E ep0 s0)) m (ep_now E ep1) in
  state (hdl_iface E) (fst r) = ST_INITIAL ->
  table E (dispatch E ep (Dg h my peer (Some m))) = table E ep
  /\ ep_kops E (dispatch E ep (Dg h my peer (Some m))) = ep_kops E ep
  /\ ep_sent E (dispatch E ep (Dg h my peer (Some m))) = ep_sent E (send E ep (snd r)).
Proof. exact ignored_init_request_leaves_nothing. Qed.
Print Assumptions C16E_ignored_init_request_leaves_nothing.

(** likewise an initiator IkeSa created for an ACQUIRE never stays in the table in ST_INITIAL (/repo fix f21): when no
    usable table entry matches the address pair, a configuration exists, and the created IkeSa is still INITIAL after
    process_trigger (unknown policy index: nothing was started), the table is the old table again, no kernel
    operation was issued, and what is sent is whatever process_trigger returned *)
Theorem C16E_unstarted_acquire_leaves_nothing :
  forall E (ep : endpoint E) my peer tsi tsr index c ep0 cid (s0 : esa E),
  (forall x, In x (map fst (table E ep)) -> (x < next_cid E ep)%nat) ->
  find (fun x : nat * esa E => Z.eqb (my_addr (co (inner (hdl_iface E) (snd x)))) my
                               && Z.eqb (peer_addr (co (inner (hdl_iface E) (snd x)))) peer
                               && acquire_usable (state (hdl_iface E) (snd x))) (table E ep) = None ->
  find_conf E ep my peer = Some c ->
  create E ep true (repeat 0%N 8) c my peer = Some (ep0, cid, s0) ->
  let r := process_trigger (hdl_iface E) (enter E ep0 s0) (ep_now E ep0) (E_acquire tsi tsr index) in
  state (hdl_iface E) (fst r) = ST_INITIAL ->
  table E (acquire E ep my peer tsi tsr index) = table E ep
  /\ ep_kops E (acquire E ep my peer tsi tsr index) = ep_kops E ep
  /\ ep_sent E (acquire E ep my peer tsi tsr index) = ep_sent E (send E ep (snd r)).
Proof. exact unstarted_acquire_leaves_nothing. Qed.
Print Assumptions C16E_unstarted_acquire_leaves_nothing.

(** non-vacuity: an ACQUIRE for a policy index that is not configured, from the empty table *)
Theorem C16E_example_unstarted_acquire :
  run_ok Example.E0 EpExample.ep_empty [] EpExample.hist3
  /\ table Example.E0 (run Example.E0 EpExample.ep_empty EpExample.hist3) = []
  /\ next_cid Example.E0 (run Example.E0 EpExample.ep_empty EpExample.hist3) = 1%nat
  /\ ep_kops Example.E0 (run Example.E0 EpExample.ep_empty EpExample.hist3) = []
  /\ ep_sent Example.E0 (run Example.E0 EpExample.ep_empty EpExample.hist3) = []
  /\ run_sad Example.E0 EpExample.ep_empty [] EpExample.hist3 = [].
Proof. exact (conj EpExample.hist3_ok EpExample.hist3_result). Qed.
Print Assumptions C16E_example_unstarted_acquire.

Theorem C16E_def_handle : forall E (ep : endpoint E) cid (s : esa E) m,
  handle E ep cid s m =
  finish E (send E (fst (leave E ep (fst (process_message (hdl_iface E) (enter E ep s) m (ep_now E ep)))))
                   (snd (process_message (hdl_iface E) (enter E ep s) m (ep_now E ep))))
         cid (snd (leave E ep (fst (process_message (hdl_iface E) (enter E ep s) m (ep_now E ep))))).
Proof. exact handle_def. Qed.
Print Assumptions C16E_def_handle.

(** non-vacuity *)
Theorem C16E_example : AllQ Example.E0 (table Example.E0 EpExample.ep_one).
Proof. exact EpExample.ep_one_table. Qed.
Print Assumptions C16E_example.
