(** C01 on the handler model (Hdl.v): two-party composition theorems (property theorems only; proofs in HdlAgree.v).
    Two endpoints run the handlers of Hdl.v, each on its own state / configuration / tape of random draws, and
    exchange exactly the payload lists the handlers produce.  [env] (all cryptography) is arbitrary except for
    [dh_ok] (Diffie-Hellman agrees on the key pairs drawn in the run) and, for CHILD_SAs, [ckeys_by_trs] (the KEYMAT
    split does not look at the SPI field of the proposal; shown necessary by C01H_child_mirror_needs_ckeys_by_trs). *)
From Coq Require Import ZArith NArith Bool List.
From RecordUpdate Require Import RecordSet.
From VLib Require Import Bytes.
From IkeSa Require Import Gen.IkeFacts Shell Hdl HdlAgree.
Import ListNotations RecordSetNotations.
Open Scope Z_scope.

Theorem C01H_ike_nego_agree :
  forall E kp wI wR mR encR mI encI old sR0 sR1 sIb sI2 chI nI g hI pubI preR postR rps preI postI
        cIb cR0 u,

  dh_ok E kp -> tape_ok kp (tape sR0) -> kp g hI pubI ->
  coll mR encR = preR ++ [P_SA [chI]; P_NONCE nI; P_KE g pubI] ++ postR ->
  lacks IKE_KINDS preR -> lacks IKE_KINDS postR ->
  view wR sR0 = Some cR0 ->
  ike_nego_request E wR mR encR old sR0 = (Ok rps, sR1) ->
  coll mI encI = preI ++ rps ++ postI -> lacks IKE_KINDS preI -> lacks IKE_KINDS postI ->
  view wI sIb = Some cIb -> dh cIb = Some (g, hI) ->
  peer_spi_b cR0 = my_spi_b cIb ->
  match old with
  | None => be_encode 8 (Z.to_N (h_spi_r (p_hdr mI))) = my_spi_b cR0
  | Some _ => pr_spi chI = my_spi_b cIb /\ my_spi_b cIb <> []
  end ->
  ike_nego_response E wI mI nI encI old sIb = (Ok u, sI2) ->
  exists k p nR hR pubR secret,
    (* both sides ran the key schedule on the same arguments *)
    In (D_dh g hR pubR) (tape sR0) /\
    e_dh_secret E g hI pubR = Some secret /\ e_dh_secret E g hR pubI = Some secret /\
    e_ike_keys E p nI nR (my_spi_b cIb) (my_spi_b cR0) secret old = Some k /\
    view wI sI2 = Some (cIb <| chosen := Some p |> <| peer_spi_b := my_spi_b cR0 |> <| kr := Some k |> <| cprop := Some p |>) /\
    view wR sR1 = Some (cR0 <| chosen := Some p |> <| kr := Some k |> <| cprop := Some p |>) /\
    rps = [P_SA [p]; P_NONCE nR; P_KE g pubR] /\
    kops sI2 = kops sIb /\ kops sR1 = kops sR0 /\
    (wI = true -> co sI2 = co sIb) /\ (wR = true -> co sR1 = co sR0) /\
    (wI = false -> new_sa sI2 = new_sa sIb) /\ (wR = false -> new_sa sR1 = new_sa sR0).
Proof. exact ike_nego_agree. Qed.
Print Assumptions C01H_ike_nego_agree.

Theorem C01H_ike_sa_init_agree :
  forall E kp ch sI0 rq sI1 (mR : pmsg body) sR0 psR sR1 (mI : pmsg body) sI1' nxt sI2,

  dh_ok E kp -> tape_ok kp (tape sI0) -> tape_ok kp (tape sR0) ->
  c_init (co sI0) = true -> c_init (co sR0) = false ->
  (* initiator: IKE_SA_INIT request *)
  generate_ike_sa_init_request ch sI0 = (Ok rq, sI1) ->
  (* responder: an IkeSa created by the controller for this request (peer_spi = header.spi_i) *)
  fst (p_body mR) = snd rq -> peer_spi_b (co sR0) = my_spi_b (co sI0) ->
  length (my_spi_b (co sR0)) = 8%nat -> wf_bytes (my_spi_b (co sR0)) ->
  process_ike_sa_init_request E mR sR0 = (Ok psR, sR1) ->
  (* initiator: the response carries exactly the responder's payloads and the responder's SPI *)
  fst (p_body mI) = psR -> h_spi_r (p_hdr mI) = spiZ (my_spi_b (co sR1)) ->
  carried (co sI1) (co sI1') ->
  process_ike_sa_init_response E mI sI1' = (Ok nxt, sI2) ->
  exists k p nI nR g hI pubI hR pubR secret,
    kr (co sI2) = Some k /\ kr (co sR1) = Some k /\
    chosen (co sI2) = Some p /\ chosen (co sR1) = Some p /\ cprop (co sI2) = Some p /\ cprop (co sR1) = Some p /\
    peer_spi_b (co sI2) = my_spi_b (co sR1) /\ peer_spi_b (co sR1) = my_spi_b (co sI2) /\
    my_spi_b (co sI2) = my_spi_b (co sI0) /\ my_spi_b (co sR1) = my_spi_b (co sR0) /\
    (* the key schedule was run on the same arguments; the DH secret is shared *)
    In (D_dh g hI pubI) (tape sI0) /\ In (D_dh g hR pubR) (tape sR0) /\
    e_dh_secret E g hI pubR = Some secret /\ e_dh_secret E g hR pubI = Some secret /\
    e_ike_keys E p nI nR (my_spi_b (co sI0)) (my_spi_b (co sR0)) secret None = Some k /\
    (* AUTH keys cross over *)
    (forall s, my_sk_p (co sI2) s = (Ok (sk_pi k), s)) /\ (forall s, peer_sk_p (co sR1) s = (Ok (sk_pi k), s)) /\
    (forall s, my_sk_p (co sR1) s = (Ok (sk_pr k), s)) /\ (forall s, peer_sk_p (co sI2) s = (Ok (sk_pr k), s)) /\
    st (co sR1) = ST_INIT_RES_SENT /\ kops sI2 = kops sI1' /\ kops sR1 = kops sR0.
Proof. exact ike_sa_init_agree. Qed.
Print Assumptions C01H_ike_sa_init_agree.

Theorem C01H_child_mirror :
  forall E kp ch sA cps sB (mR mI : pmsg body) reqps pre post sR0 rps sR1 postI sI u sI2,

  dh_ok E kp -> ckeys_by_trs E -> tape_ok kp (tape sA) -> tape_ok kp (tape sR0) ->
  (* initiator: built the CHILD_SA part of its request (possibly drawing a DH key pair) *)
  gen_child_nego_req ch sA = (Ok cps, sB) ->
  (* initiator when the response arrives: still creating [ch] with that DH *)
  creating (co sI) = Some ch -> dh (co sI) = dh (co sB) ->
  (* same IKE_SA on both sides, mirrored addresses *)
  kr (co sI) = kr (co sR0) -> cprop (co sI) = cprop (co sR0) ->
  my_addr (co sI) = peer_addr (co sR0) -> peer_addr (co sI) = my_addr (co sR0) ->
  (* the request the responder sees *)
  reqps = pre ++ cps ++ post -> lacks CHILD_KINDS pre -> lacks CHILD_KINDS post ->
  tfilter N_USE_TRANSPORT_MODE pre = [] -> tfilter N_USE_TRANSPORT_MODE post = [] ->
  coll mR true = reqps ->
  (if Z.eqb (h_exch (p_hdr mR)) EX_IKE_AUTH
   then first_nonce (init_req (co sI)) = first_nonce (init_req (co sR0)) /\
        first_nonce (init_res (co sI)) = first_nonce (init_res (co sR0))
   else exists ex, request (co sI) = Some (ex, reqps)) ->
  child_nego_req E mR sR0 = (Ok rps, sR1) ->
  (* the response the initiator sees *)
  coll mI true = rps ++ postI -> lacks RES_KINDS postI -> h_exch (p_hdr mI) = h_exch (p_hdr mR) ->
  child_nego_res E mI sI = (Ok u, sI2) ->
  exists out_I in_I out_R in_R k cp pI pR keyseed ck chI' chR',
    (* each kernel received exactly two SAs, both accepted: outbound first *)
    kops sI2 = kops sI ++ [K_add out_I true; K_add in_I true] /\
    kops sR1 = kops sR0 ++ [K_add out_R true; K_add in_R true] /\
    (* mirror images *)
    ksa_mirror out_I in_R /\ ksa_mirror in_I out_R /\
    k_src out_I = my_addr (co sI) /\ k_dst out_I = peer_addr (co sI) /\
    k_src in_I = peer_addr (co sI) /\ k_dst in_I = my_addr (co sI) /\
    (* the negotiated proposal: same on both sides up to the SPI each side writes into it *)
    k_prop out_I = pI /\ k_prop in_I = pI /\ k_prop out_R = pR /\ k_prop in_R = pR /\
    pI = pR <| pr_spi := k_spi out_I |> /\ pr_spi pR = k_spi in_I /\ k_spi in_I = c_in ch /\
    (* one KEYMAT, split by direction: initiator-to-responder keys first *)
    kr (co sI) = Some k /\ cprop (co sI) = Some cp /\
    e_child_keys E cp pI keyseed (sk_d k) = Some ck /\ e_child_keys E cp pR keyseed (sk_d k) = Some ck /\
    k_enc out_I = ck_ei ck /\ k_auth out_I = ck_ai ck /\ k_enc in_I = ck_er ck /\ k_auth in_I = ck_ar ck /\
    k_enc out_R = ck_er ck /\ k_auth out_R = ck_ar ck /\ k_enc in_R = ck_ei ck /\ k_auth in_R = ck_ai ck /\
    (* the ChildSa records *)
    children (co sI2) = children (co sI) ++ [chI'] /\ children (co sR1) = children (co sR0) ++ [chR'] /\
    c_in chI' = c_out chR' /\ c_out chI' = c_in chR' /\ c_tsi chI' = c_tsr chR' /\ c_tsr chI' = c_tsi chR' /\
    c_mode chI' = c_mode chR' /\ c_prop chI' = c_prop chR' /\
    new_sa sI2 = new_sa sI /\ new_sa sR1 = new_sa sR0.
Proof. exact child_mirror. Qed.
Print Assumptions C01H_child_mirror.

Theorem C01H_create_child_sa_mirror :
  forall E kp ch rk sI0 rq sI1 (mR mI : pmsg body) sR0 rps sR1 sI u sI2,

  dh_ok E kp -> ckeys_by_trs E -> tape_ok kp (tape sI0) -> tape_ok kp (tape sR0) ->
  (* initiator: CREATE_CHILD_SA request for a new CHILD_SA ([rk] = None) or rekeying [rk] *)
  generate_create_child_sa_request ch rk sI0 = (Ok rq, sI1) ->
  (* same IKE_SA on both sides (conclusion of the IKE_SA theorems), mirrored addresses *)
  kr (co sI0) = kr (co sR0) -> cprop (co sI0) = cprop (co sR0) ->
  my_addr (co sI0) = peer_addr (co sR0) -> peer_addr (co sI0) = my_addr (co sR0) ->
  (* responder: exactly those encrypted payloads in a CREATE_CHILD_SA request *)
  snd (p_body mR) = snd rq -> h_exch (p_hdr mR) = EX_CREATE_CHILD_SA ->
  child_nego_req E mR sR0 = (Ok rps, sR1) ->
  (* initiator: exactly the response payloads *)
  snd (p_body mI) = rps -> h_exch (p_hdr mI) = EX_CREATE_CHILD_SA ->
  carried_st (co sI1) (co sI) ->
  child_nego_res E mI sI = (Ok u, sI2) ->
  exists out_I in_I out_R in_R k cp pI pR keyseed ck chI' chR',
    kops sI2 = kops sI ++ [K_add out_I true; K_add in_I true] /\
    kops sR1 = kops sR0 ++ [K_add out_R true; K_add in_R true] /\
    ksa_mirror out_I in_R /\ ksa_mirror in_I out_R /\
    k_src out_I = my_addr (co sI0) /\ k_dst out_I = peer_addr (co sI0) /\
    k_src in_I = peer_addr (co sI0) /\ k_dst in_I = my_addr (co sI0) /\
    k_prop out_I = pI /\ k_prop in_I = pI /\ k_prop out_R = pR /\ k_prop in_R = pR /\
    pI = pR <| pr_spi := k_spi out_I |> /\ pr_spi pR = k_spi in_I /\ k_spi in_I = c_in ch /\
    kr (co sI0) = Some k /\ cprop (co sI0) = Some cp /\
    e_child_keys E cp pI keyseed (sk_d k) = Some ck /\ e_child_keys E cp pR keyseed (sk_d k) = Some ck /\
    k_enc out_I = ck_ei ck /\ k_auth out_I = ck_ai ck /\ k_enc in_I = ck_er ck /\ k_auth in_I = ck_ar ck /\
    k_enc out_R = ck_er ck /\ k_auth out_R = ck_ar ck /\ k_enc in_R = ck_ei ck /\ k_auth in_R = ck_ai ck /\
    children (co sI2) = children (co sI0) ++ [chI'] /\ children (co sR1) = children (co sR0) ++ [chR'] /\
    c_in chI' = c_out chR' /\ c_out chI' = c_in chR' /\ c_tsi chI' = c_tsr chR' /\ c_tsr chI' = c_tsi chR' /\
    c_mode chI' = c_mode chR' /\ c_prop chI' = c_prop chR'.
Proof. exact create_child_sa_mirror. Qed.
Print Assumptions C01H_create_child_sa_mirror.

Theorem C01H_create_child_sa_mirror_handler :
  forall E kp ch rk sI0 rq sI1 (mR mI : pmsg body) sR0 rps sR1 sI u sI2,

  dh_ok E kp -> ckeys_by_trs E -> tape_ok kp (tape sI0) -> tape_ok kp (tape sR0) ->
  generate_create_child_sa_request ch rk sI0 = (Ok rq, sI1) ->
  pr_proto (c_prop ch) <> PROTO_IKE ->
  kr (co sI0) = kr (co sR0) -> cprop (co sI0) = cprop (co sR0) ->
  my_addr (co sI0) = peer_addr (co sR0) -> peer_addr (co sI0) = my_addr (co sR0) ->
  snd (p_body mR) = snd rq -> h_exch (p_hdr mR) = EX_CREATE_CHILD_SA ->
  process_create_child_sa_request E mR sR0 = (Ok rps, sR1) ->
  snd (p_body mI) = rps -> h_exch (p_hdr mI) = EX_CREATE_CHILD_SA ->
  carried_st (co sI1) (co sI) ->
  child_nego_res E mI sI = (Ok u, sI2) ->
  exists out_I in_I out_R in_R k cp pI pR keyseed ck,
    kops sI2 = kops sI ++ [K_add out_I true; K_add in_I true] /\
    kops sR1 = kops sR0 ++ [K_add out_R true; K_add in_R true] /\
    ksa_mirror out_I in_R /\ ksa_mirror in_I out_R /\
    k_prop out_I = pI /\ k_prop in_R = pR /\
    kr (co sI0) = Some k /\ cprop (co sI0) = Some cp /\
    e_child_keys E cp pI keyseed (sk_d k) = Some ck /\ e_child_keys E cp pR keyseed (sk_d k) = Some ck /\
    k_enc out_I = ck_ei ck /\ k_auth out_I = ck_ai ck /\ k_enc in_I = ck_er ck /\ k_auth in_I = ck_ar ck.
Proof. exact create_child_sa_mirror_handler. Qed.
Print Assumptions C01H_create_child_sa_mirror_handler.

Theorem C01H_ike_auth_child_mirror :
  forall E kp sIa rq sIb (mR mI : pmsg body) sR0 psR sR1 sI u sI2,

  dh_ok E kp -> ckeys_by_trs E -> tape_ok kp (tape sIa) -> tape_ok kp (tape sR0) ->
  (* initiator: IKE_AUTH request (generated inside process_ike_sa_init_response) *)
  generate_ike_auth_request E sIa = (Ok rq, sIb) ->
  (* same IKE_SA (conclusion of [ike_sa_init_agree]), same IKE_SA_INIT nonces, mirrored addresses *)
  kr (co sIa) = kr (co sR0) -> cprop (co sIa) = cprop (co sR0) ->
  first_nonce (init_req (co sIa)) = first_nonce (init_req (co sR0)) ->
  first_nonce (init_res (co sIa)) = first_nonce (init_res (co sR0)) ->
  my_addr (co sIa) = peer_addr (co sR0) -> peer_addr (co sIa) = my_addr (co sR0) ->
  (* responder *)
  snd (p_body mR) = snd rq -> h_exch (p_hdr mR) = EX_IKE_AUTH ->
  process_ike_auth_request E mR sR0 = (Ok psR, sR1) ->
  (* initiator on the response *)
  snd (p_body mI) = psR -> h_exch (p_hdr mI) = EX_IKE_AUTH ->
  carried_st (co sIb) (co sI) ->
  child_nego_res E mI sI = (Ok u, sI2) ->
  exists out_I in_I out_R in_R k cp pI pR keyseed ck chI' chR' ch,
    creating (co sIa) = Some ch /\
    kops sI2 = kops sI ++ [K_add out_I true; K_add in_I true] /\
    kops sR1 = kops sR0 ++ [K_add out_R true; K_add in_R true] /\
    ksa_mirror out_I in_R /\ ksa_mirror in_I out_R /\
    k_src out_I = my_addr (co sIa) /\ k_dst out_I = peer_addr (co sIa) /\
    k_src in_I = peer_addr (co sIa) /\ k_dst in_I = my_addr (co sIa) /\
    k_prop out_I = pI /\ k_prop in_I = pI /\ k_prop out_R = pR /\ k_prop in_R = pR /\
    pI = pR <| pr_spi := k_spi out_I |> /\ pr_spi pR = k_spi in_I /\ k_spi in_I = c_in ch /\
    kr (co sIa) = Some k /\ cprop (co sIa) = Some cp /\
    e_child_keys E cp pI keyseed (sk_d k) = Some ck /\ e_child_keys E cp pR keyseed (sk_d k) = Some ck /\
    k_enc out_I = ck_ei ck /\ k_auth out_I = ck_ai ck /\ k_enc in_I = ck_er ck /\ k_auth in_I = ck_ar ck /\
    k_enc out_R = ck_er ck /\ k_auth out_R = ck_ar ck /\ k_enc in_R = ck_ei ck /\ k_auth in_R = ck_ai ck /\
    children (co sI2) = children (co sIa) ++ [chI'] /\ children (co sR1) = children (co sR0) ++ [chR'] /\
    c_in chI' = c_out chR' /\ c_out chI' = c_in chR' /\ c_tsi chI' = c_tsr chR' /\ c_tsr chI' = c_tsi chR' /\
    c_mode chI' = c_mode chR' /\ c_prop chI' = c_prop chR' /\
    st (co sR1) = ST_ESTABLISHED.
Proof. exact ike_auth_child_mirror. Qed.
Print Assumptions C01H_ike_auth_child_mirror.

Theorem C01H_ike_rekey_agree :
  forall E kp sI0 rq sI1 (mR mI : pmsg body) sR0 rps sR1 sI nxt sI2,

  dh_ok E kp -> tape_ok kp (tape sI0) -> tape_ok kp (tape sR0) ->
  (* initiator: CREATE_CHILD_SA request rekeying the IKE_SA; the fresh SPI is not the empty string *)
  generate_rekey_ike_sa_request sI0 = (Ok rq, sI1) ->
  (forall b r, tape sI0 = D_bytes b :: r -> b <> []) ->
  (* both ends hold the same current IKE_SA keys *)
  kr (co sI0) = kr (co sR0) ->
  (* responder: exactly those payloads; it answers with a proposal (not with a notification) *)
  snd (p_body mR) = snd rq ->
  process_create_child_sa_request E mR sR0 = (Ok rps, sR1) -> kfilter K_SA rps <> [] ->
  (* initiator: exactly the response payloads *)
  snd (p_body mI) = rps -> carried (co sI1) (co sI) -> new_sa sI = new_sa sI1 ->
  process_create_child_sa_response E mI sI = (Ok nxt, sI2) ->
  exists nI nR k p kold nonI nonR g hI pubI hR pubR secret,
    new_sa sI2 = Some nI /\ new_sa sR1 = Some nR /\
    (* identical successor key material *)
    kr nI = Some k /\ kr nR = Some k /\ chosen nI = Some p /\ chosen nR = Some p /\ cprop nI = Some p /\ cprop nR = Some p /\
    peer_spi_b nI = my_spi_b nR /\ peer_spi_b nR = my_spi_b nI /\ c_init nI = true /\ c_init nR = false /\
    (* derived from the old SK_d and a shared DH secret *)
    kr (co sI0) = Some kold /\
    In (D_dh g hI pubI) (tape sI0) /\ In (D_dh g hR pubR) (tape sR0) /\
    e_dh_secret E g hI pubR = Some secret /\ e_dh_secret E g hR pubI = Some secret /\
    e_ike_keys E p nonI nonR (my_spi_b nI) (my_spi_b nR) secret (Some (sk_d kold)) = Some k /\
    (* the CHILD_SAs are handed over, nothing is sent to the kernel *)
    children nI = children (co sI0) /\ children nR = children (co sR0) /\
    children (co sI2) = [] /\ children (co sR1) = [] /\
    kops sI2 = kops sI /\ kops sR1 = kops sR0 /\
    st nI = ST_ESTABLISHED /\ st nR = ST_ESTABLISHED /\ st (co sR1) = ST_REKEYED /\
    st (co sI2) = ST_DEL_AFTER_REKEY_IKE_SA_REQ_SENT.
Proof. exact ike_rekey_agree. Qed.
Print Assumptions C01H_ike_rekey_agree.

Theorem C01H_ike_sa_init_agree_nonvacuous :
  let E := Toy.E0 in
  exists ch sI0 rq sI1 mR sR0 psR sR1 mI sI1' nxt sI2,
    dh_ok E Toy.toy_kp /\ tape_ok Toy.toy_kp (tape sI0) /\ tape_ok Toy.toy_kp (tape sR0) /\
    c_init (co sI0) = true /\ c_init (co sR0) = false /\
    generate_ike_sa_init_request ch sI0 = (Ok rq, sI1) /\
    fst (p_body mR) = snd rq /\ peer_spi_b (co sR0) = my_spi_b (co sI0) /\
    length (my_spi_b (co sR0)) = 8%nat /\ wf_bytes (my_spi_b (co sR0)) /\
    process_ike_sa_init_request E mR sR0 = (Ok psR, sR1) /\
    fst (p_body mI) = psR /\ h_spi_r (p_hdr mI) = spiZ (my_spi_b (co sR1)) /\
    carried (co sI1) (co sI1') /\
    process_ike_sa_init_response E mI sI1' = (Ok nxt, sI2).
Proof. exact ike_sa_init_agree_nonvacuous. Qed.
Print Assumptions C01H_ike_sa_init_agree_nonvacuous.

Theorem C01H_create_child_sa_mirror_nonvacuous :
  forall pfs : bool,
  let E := Toy.E0 in
  exists ch sI0 rq sI1 mR sR0 rps sR1 mI sI u sI2,
    dh_ok E Toy.toy_kp /\ ckeys_by_trs E /\ tape_ok Toy.toy_kp (tape sI0) /\ tape_ok Toy.toy_kp (tape sR0) /\
    generate_create_child_sa_request ch None sI0 = (Ok rq, sI1) /\
    kr (co sI0) = kr (co sR0) /\ cprop (co sI0) = cprop (co sR0) /\
    my_addr (co sI0) = peer_addr (co sR0) /\ peer_addr (co sI0) = my_addr (co sR0) /\
    snd (p_body mR) = snd rq /\ h_exch (p_hdr mR) = EX_CREATE_CHILD_SA /\
    child_nego_req E mR sR0 = (Ok rps, sR1) /\
    snd (p_body mI) = rps /\ h_exch (p_hdr mI) = EX_CREATE_CHILD_SA /\
    carried_st (co sI1) (co sI) /\
    child_nego_res E mI sI = (Ok u, sI2) /\
    (* PFS really happens when asked for *)
    (pfs = true -> exists g pub, In (P_KE g pub) rps).
Proof. exact create_child_sa_mirror_nonvacuous. Qed.
Print Assumptions C01H_create_child_sa_mirror_nonvacuous.

Theorem C01H_ike_auth_child_mirror_nonvacuous :
  let E := Toy.E0 in
  exists sIa rq sIb mR mI sR0 psR sR1 sI u sI2,
    dh_ok E Toy.toy_kp /\ ckeys_by_trs E /\ tape_ok Toy.toy_kp (tape sIa) /\ tape_ok Toy.toy_kp (tape sR0) /\
    generate_ike_auth_request E sIa = (Ok rq, sIb) /\
    kr (co sIa) = kr (co sR0) /\ kr (co sIa) <> None /\ cprop (co sIa) = cprop (co sR0) /\
    first_nonce (init_req (co sIa)) = first_nonce (init_req (co sR0)) /\
    first_nonce (init_res (co sIa)) = first_nonce (init_res (co sR0)) /\
    my_addr (co sIa) = peer_addr (co sR0) /\ peer_addr (co sIa) = my_addr (co sR0) /\
    snd (p_body mR) = snd rq /\ h_exch (p_hdr mR) = EX_IKE_AUTH /\
    process_ike_auth_request E mR sR0 = (Ok psR, sR1) /\
    snd (p_body mI) = psR /\ h_exch (p_hdr mI) = EX_IKE_AUTH /\
    carried_st (co sIb) (co sI) /\
    child_nego_res E mI sI = (Ok u, sI2).
Proof. exact ike_auth_child_mirror_nonvacuous. Qed.
Print Assumptions C01H_ike_auth_child_mirror_nonvacuous.

Theorem C01H_ike_rekey_agree_nonvacuous :
  let E := Toy.E0 in
  exists sI0 rq sI1 mR mI sR0 rps sR1 sI nxt sI2,
    dh_ok E Toy.toy_kp /\ tape_ok Toy.toy_kp (tape sI0) /\ tape_ok Toy.toy_kp (tape sR0) /\
    generate_rekey_ike_sa_request sI0 = (Ok rq, sI1) /\
    (forall b r, tape sI0 = D_bytes b :: r -> b <> []) /\
    kr (co sI0) = kr (co sR0) /\
    snd (p_body mR) = snd rq /\
    process_create_child_sa_request E mR sR0 = (Ok rps, sR1) /\ kfilter K_SA rps <> [] /\
    snd (p_body mI) = rps /\ carried (co sI1) (co sI) /\ new_sa sI = new_sa sI1 /\
    process_create_child_sa_response E mI sI = (Ok nxt, sI2) /\
    children (co sI0) <> [] /\ children (co sR0) <> [].
Proof. exact ike_rekey_agree_nonvacuous. Qed.
Print Assumptions C01H_ike_rekey_agree_nonvacuous.

Theorem C01H_child_mirror_needs_ckeys_by_trs :
  let E := Toy.toy_env true in
  exists ch sI0 rq sI1 mR sR0 rps sR1 mI sI u sI2 out_I in_I out_R in_R,
    dh_ok E Toy.toy_kp /\ tape_ok Toy.toy_kp (tape sI0) /\ tape_ok Toy.toy_kp (tape sR0) /\
    generate_create_child_sa_request ch None sI0 = (Ok rq, sI1) /\
    kr (co sI0) = kr (co sR0) /\ cprop (co sI0) = cprop (co sR0) /\
    my_addr (co sI0) = peer_addr (co sR0) /\ peer_addr (co sI0) = my_addr (co sR0) /\
    snd (p_body mR) = snd rq /\ h_exch (p_hdr mR) = EX_CREATE_CHILD_SA /\
    child_nego_req E mR sR0 = (Ok rps, sR1) /\
    snd (p_body mI) = rps /\ h_exch (p_hdr mI) = EX_CREATE_CHILD_SA /\
    carried_st (co sI1) (co sI) /\
    child_nego_res E mI sI = (Ok u, sI2) /\
    kops sI2 = kops sI ++ [K_add out_I true; K_add in_I true] /\
    kops sR1 = kops sR0 ++ [K_add out_R true; K_add in_R true] /\
    k_enc out_I <> k_enc in_R.
Proof. exact child_mirror_needs_ckeys_by_trs. Qed.
Print Assumptions C01H_child_mirror_needs_ckeys_by_trs.
