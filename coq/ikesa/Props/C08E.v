(** C08 on the whole-endpoint model (Endpoint.v): the Message-ID window as theorems about [dispatch] (and the other call
    sites of the endpoint) - for every environment, endpoint, table, tape and kernel verdicts.  [AllQ] is the table
    invariant of C16E (preserved by every iteration), [CidOK] the uniqueness of creation indices (C16E_creation_indices).
    Property theorems only; the proofs are in EndpointWindow.v.  See Props/C03E.v for [selects], [settle], [olist]. *)
From Coq Require Import ZArith NArith Bool List.
From RecordUpdate Require Import RecordSet.
From VLib Require Import Bytes.
From IkeSa Require Import Gen.IkeFacts Shell ShellTrace Hdl HdlSad Endpoint EndpointSad EndpointTimers EndpointWindow.
Import ListNotations RecordSetNotations.
Open Scope Z_scope.

(** [decision]: the generated decision function of process_message applied to an IkeSa and a parsed message
    (re-arm the liveness timer?, what to do); [touch]: the one write process_message makes before the window tests;
    [window_reply]: what a message that is turned away can obtain; [addressed]: initiator flag and SPIs fit *)
Theorem C08E_def_decision : forall (P : iface) (s : sa P) (m : pmsg (B P)),
  decision P s m
  = process_message_decision (h_init (p_hdr m)) (is_init P s) (h_exch (p_hdr m)) (h_spi_i (p_hdr m)) (h_spi_r (p_hdr m))
      (spi_i P s) (spi_r P s) (has_keys P (inner P s)) (p_auth m) (negb (h_resp (p_hdr m))) (state P s) (h_id (p_hdr m))
      (peer_id P s) (my_id P s).
Proof. exact decision_def. Qed.
Print Assumptions C08E_def_decision.
Theorem C08E_def_touch : forall (P : iface) (s : sa P) (m : pmsg (B P)) now,
  touch P s m now = if fst (decision P s m) then set_dpd_at P s (now + dpd_cfg P s) else s.
Proof. exact touch_def. Qed.
Print Assumptions C08E_def_touch.
Theorem C08E_def_window_reply : forall (P : iface) (s : sa P) (m : pmsg (B P)),
  window_reply P s m
  = match snd (decision P s m) with
    | RCached => last_resp P s
    | RRequest => if Z.eqb (h_id (p_hdr m)) (peer_id P s - 1) then last_resp P s else None
    | _ => None
    end.
Proof. exact window_reply_def. Qed.
Print Assumptions C08E_def_window_reply.
Theorem C08E_def_addressed : forall (P : iface) (s : sa P) (m : pmsg (B P)),
  addressed P s m
  = (negb (Bool.eqb (h_init (p_hdr m)) (is_init P s))
     && (Z.eqb (h_exch (p_hdr m)) EX_IKE_SA_INIT
         || (Z.eqb (h_spi_i (p_hdr m)) (spi_i P s) && Z.eqb (h_spi_r (p_hdr m)) (spi_r P s))))%bool.
Proof. exact addressed_def. Qed.
Print Assumptions C08E_def_addressed.

Theorem C08E_def_fresh : forall (P : iface) (s : sa P) (m : pmsg (B P)),
  fresh P s m = Z.eqb (h_id (p_hdr m)) (if h_resp (p_hdr m) then my_id P s else peer_id P s).
Proof. exact fresh_def. Qed.
Print Assumptions C08E_def_fresh.

(** for an authentic message the decision is: addressed to this IkeSa (then go to the request / response window, and
    re-arm the liveness timer iff the message is FRESH: it carries the receive counter / the send counter) or not
    (then nothing) *)
Theorem C08E_decision_of_authentic_message : forall (P : iface) (s : sa P) (m : pmsg (B P)),
  p_auth m = true ->
  decision P s m
  = if addressed P s m then (fresh P s m, if h_resp (p_hdr m) then RResponse else RRequest) else (false, RNone).
Proof. exact decision_authentic. Qed.
Print Assumptions C08E_decision_of_authentic_message.

(** the generated decision function says "re-arm the liveness timer" exactly when the message is let through (authentic,
    or the IkeSa has no keys yet), addressed to the IkeSa (initiator flag and SPIs fit) and fresh *)
Theorem C08E_liveness_timer_rearm_condition : forall (P : iface) (s : sa P) (m : pmsg (B P)),
  fst (decision P s m) = true
  <-> ((has_keys P (inner P s) = false \/ p_auth m = true) /\ addressed P s m = true /\ fresh P s m = true).
Proof. exact decision_rearm_iff. Qed.
Print Assumptions C08E_liveness_timer_rearm_condition.

(** The general form.  A datagram that is not an IKE_SA_INIT request, routed to the entry [(cid, s)], whose request
    handler does not run ([executes] = false: not the expected ID, or an unknown exchange, or not let through) and
    which is not taken as a response ([accepts] = false): the endpoint afterwards is GIVEN, field by field - the entry
    is [s] with at most the liveness deadline re-armed (settled), every other entry, the creation counter, the tape
    (nothing consumed), the kernel log (no kernel operation) are what they were, and what is sent grows by
    [window_reply] (the stored response or nothing).  No handler runs. *)
Theorem C08E_message_turned_away : forall E (ep : endpoint E) h my peer (m : pmsg body) cid (s : esa E),
  dispatch_is_init_request (h_exch h) (negb (h_resp h)) = false ->
  find (selects E h) (table E ep) = Some (cid, s) -> Qe (inner (hdl_iface E) s) ->
  executes (hdl_iface E) s m = false -> accepts (hdl_iface E) s m = false ->
  dispatch E ep (Dg h my peer (Some m))
  = mk_ep E (Endpoint.replace E (table E ep) cid (settle E (ep_now E ep) (touch (hdl_iface E) s m (ep_now E ep))))
          (next_cid E ep) (confs E ep) (ep_cookie_secret E ep) (ep_tape E ep) (ep_now E ep) (ep_kops E ep)
          (ep_sent E ep ++ olist (window_reply (hdl_iface E) s m)) (Some cid) (ep_status E ep).
Proof. exact dispatch_turned_away. Qed.
Print Assumptions C08E_message_turned_away.

(** what is left of the entry: everything but the liveness deadline (and the environment fields) *)
Theorem C08E_touched_entry : forall E (s : esa E) (m : pmsg body) t,
  let s' := settle E t (touch (hdl_iface E) s m t) in
  co (inner (hdl_iface E) s') = co (inner (hdl_iface E) s) /\ new_sa (inner (hdl_iface E) s') = new_sa (inner (hdl_iface E) s)
  /\ is_init (hdl_iface E) s' = is_init (hdl_iface E) s /\ my_spi (hdl_iface E) s' = my_spi (hdl_iface E) s
  /\ my_id (hdl_iface E) s' = my_id (hdl_iface E) s /\ peer_id (hdl_iface E) s' = peer_id (hdl_iface E) s
  /\ last_resp (hdl_iface E) s' = last_resp (hdl_iface E) s /\ req_data (hdl_iface E) s' = req_data (hdl_iface E) s
  /\ rt_at (hdl_iface E) s' = rt_at (hdl_iface E) s /\ rt_n (hdl_iface E) s' = rt_n (hdl_iface E) s
  /\ rek_at (hdl_iface E) s' = rek_at (hdl_iface E) s /\ del_at (hdl_iface E) s' = del_at (hdl_iface E) s
  /\ dpd_cfg (hdl_iface E) s' = dpd_cfg (hdl_iface E) s /\ pending (hdl_iface E) s' = pending (hdl_iface E) s
  /\ dpd_at (hdl_iface E) s'
     = (if fst (decision (hdl_iface E) s m) then t + dpd_cfg (hdl_iface E) s else dpd_at (hdl_iface E) s).
Proof. exact settle_touch_fields. Qed.
Print Assumptions C08E_touched_entry.
Theorem C08E_touch_of_authentic_message : forall E (s : esa E) (m : pmsg body) t,
  p_auth m = true ->
  touch (hdl_iface E) s m t
  = if (addressed (hdl_iface E) s m && fresh (hdl_iface E) s m)%bool
    then set_dpd_at (hdl_iface E) s (t + dpd_cfg (hdl_iface E) s) else s.
Proof. exact touch_authentic. Qed.
Print Assumptions C08E_touch_of_authentic_message.

(** a message that is turned away and is not fresh (the decision function does not re-arm): the entry becomes exactly
    [settle now s]; with unique creation indices and an entry stored as of this clock value the table is literally
    the old table *)
Theorem C08E_nonfresh_message_turned_away : forall E (ep : endpoint E) h my peer (m : pmsg body) cid (s : esa E),
  dispatch_is_init_request (h_exch h) (negb (h_resp h)) = false ->
  find (selects E h) (table E ep) = Some (cid, s) -> AllQ E (table E ep) ->
  fst (decision (hdl_iface E) s m) = false -> executes (hdl_iface E) s m = false -> accepts (hdl_iface E) s m = false ->
  dispatch E ep (Dg h my peer (Some m))
  = mk_ep E (Endpoint.replace E (table E ep) cid (settle E (ep_now E ep) s)) (next_cid E ep) (confs E ep)
          (ep_cookie_secret E ep) (ep_tape E ep) (ep_now E ep) (ep_kops E ep)
          (ep_sent E ep ++ olist (window_reply (hdl_iface E) s m)) (Some cid) (ep_status E ep)
  /\ (NoDup (map fst (table E ep)) -> settle E (ep_now E ep) s = s ->
      table E (dispatch E ep (Dg h my peer (Some m))) = table E ep).
Proof. exact dispatch_turned_away_unchanged. Qed.
Print Assumptions C08E_nonfresh_message_turned_away.

(** 1. A request, authentic or not, whose Message ID is neither the expected one nor the one before: dropped.  The entry
    becomes exactly [settle now s] - no field of [s] changes, the liveness deadline included -, every other entry, the
    creation counter, the tape (nothing drawn), the kernel log (no kernel operation) are what they were, nothing is
    sent; with unique creation indices and a stored entry the table is literally unchanged.  (Before fix F23 of /repo
    the liveness deadline was re-armed by such a message.) *)
Theorem C08E_stale_request_leaves_entry_unchanged :
  forall E (ep : endpoint E) h my peer (m : pmsg body) cid (s : esa E),
  dispatch_is_init_request (h_exch h) (negb (h_resp h)) = false ->
  find (selects E h) (table E ep) = Some (cid, s) -> AllQ E (table E ep) ->
  h_resp (p_hdr m) = false -> h_id (p_hdr m) <> peer_id (hdl_iface E) s -> h_id (p_hdr m) <> peer_id (hdl_iface E) s - 1 ->
  dispatch E ep (Dg h my peer (Some m))
  = mk_ep E (Endpoint.replace E (table E ep) cid (settle E (ep_now E ep) s)) (next_cid E ep) (confs E ep)
          (ep_cookie_secret E ep) (ep_tape E ep) (ep_now E ep) (ep_kops E ep) (ep_sent E ep ++ []) (Some cid)
          (ep_status E ep)
  /\ (NoDup (map fst (table E ep)) -> settle E (ep_now E ep) s = s ->
      table E (dispatch E ep (Dg h my peer (Some m))) = table E ep).
Proof. exact stale_request. Qed.
Print Assumptions C08E_stale_request_leaves_entry_unchanged.
Theorem C08E_stale_request_dropped : forall E (ep : endpoint E) h my peer (m : pmsg body) cid (s : esa E),
  dispatch_is_init_request (h_exch h) (negb (h_resp h)) = false ->
  find (selects E h) (table E ep) = Some (cid, s) -> AllQ E (table E ep) ->
  h_resp (p_hdr m) = false -> h_id (p_hdr m) <> peer_id (hdl_iface E) s -> h_id (p_hdr m) <> peer_id (hdl_iface E) s - 1 ->
  dispatch E ep (Dg h my peer (Some m))
  = mk_ep E (Endpoint.replace E (table E ep) cid (settle E (ep_now E ep) s)) (next_cid E ep) (confs E ep)
          (ep_cookie_secret E ep) (ep_tape E ep) (ep_now E ep) (ep_kops E ep) (ep_sent E ep ++ []) (Some cid)
          (ep_status E ep).
Proof. exact stale_request_dropped. Qed.
Print Assumptions C08E_stale_request_dropped.

(** 2. An authentic copy of the previous request (ID = peer_id - 1), addressed to the IkeSa: answered from the cache -
    what is sent grows by exactly the stored response [last_resp] (byte for byte; nothing if none is stored), the
    handlers are NOT run: the entry becomes exactly [settle now s] (handler state, CHILD_SAs, both counters, caches,
    every deadline unchanged), no kernel operation is issued and the endpoint's tape is not consumed *)
Theorem C08E_retransmitted_request_answered_from_cache :
  forall E (ep : endpoint E) h my peer (m : pmsg body) cid (s : esa E),
  dispatch_is_init_request (h_exch h) (negb (h_resp h)) = false ->
  find (selects E h) (table E ep) = Some (cid, s) -> AllQ E (table E ep) ->
  h_resp (p_hdr m) = false -> h_id (p_hdr m) = peer_id (hdl_iface E) s - 1 -> p_auth m = true ->
  addressed (hdl_iface E) s m = true ->
  dispatch E ep (Dg h my peer (Some m))
  = mk_ep E (Endpoint.replace E (table E ep) cid (settle E (ep_now E ep) s))
          (next_cid E ep) (confs E ep) (ep_cookie_secret E ep) (ep_tape E ep) (ep_now E ep) (ep_kops E ep)
          (ep_sent E ep ++ olist (last_resp (hdl_iface E) s)) (Some cid) (ep_status E ep)
  /\ (NoDup (map fst (table E ep)) -> settle E (ep_now E ep) s = s ->
      table E (dispatch E ep (Dg h my peer (Some m))) = table E ep).
Proof. exact retransmitted_request. Qed.
Print Assumptions C08E_retransmitted_request_answered_from_cache.

(** without the hypotheses "authentic" and "addressed": the same frame, the reply is the stored response or nothing *)
Theorem C08E_retransmitted_request_never_executed :
  forall E (ep : endpoint E) h my peer (m : pmsg body) cid (s : esa E),
  dispatch_is_init_request (h_exch h) (negb (h_resp h)) = false ->
  find (selects E h) (table E ep) = Some (cid, s) -> AllQ E (table E ep) ->
  h_resp (p_hdr m) = false -> h_id (p_hdr m) = peer_id (hdl_iface E) s - 1 ->
  exists o,
    dispatch E ep (Dg h my peer (Some m))
    = mk_ep E (Endpoint.replace E (table E ep) cid (settle E (ep_now E ep) s))
            (next_cid E ep) (confs E ep) (ep_cookie_secret E ep) (ep_tape E ep) (ep_now E ep) (ep_kops E ep)
            (ep_sent E ep ++ olist o) (Some cid) (ep_status E ep)
    /\ (o = None \/ o = last_resp (hdl_iface E) s).
Proof. exact retransmitted_request_any. Qed.
Print Assumptions C08E_retransmitted_request_never_executed.

(** 3. A response (authentic or not) whose Message ID is not the send counter of the IkeSa: dropped, the entry becomes
    exactly [settle now s], nothing sent (the test of _process_response is on the ID alone; it does not ask whether a
    request is outstanding) *)
Theorem C08E_stale_response_dropped : forall E (ep : endpoint E) h my peer (m : pmsg body) cid (s : esa E),
  dispatch_is_init_request (h_exch h) (negb (h_resp h)) = false ->
  find (selects E h) (table E ep) = Some (cid, s) -> AllQ E (table E ep) ->
  h_resp (p_hdr m) = true -> h_id (p_hdr m) <> my_id (hdl_iface E) s ->
  dispatch E ep (Dg h my peer (Some m))
  = mk_ep E (Endpoint.replace E (table E ep) cid (settle E (ep_now E ep) s))
          (next_cid E ep) (confs E ep) (ep_cookie_secret E ep) (ep_tape E ep) (ep_now E ep) (ep_kops E ep)
          (ep_sent E ep ++ []) (Some cid) (ep_status E ep)
  /\ (NoDup (map fst (table E ep)) -> settle E (ep_now E ep) s = s ->
      table E (dispatch E ep (Dg h my peer (Some m))) = table E ep).
Proof. exact stale_response. Qed.
Print Assumptions C08E_stale_response_dropped.

(** after the whole iteration (event, then the three timer sweeps; unique creation indices): a message that is turned
    away and is not fresh - each of the three cases above - leaves the table, the creation counter, the tape and the
    kernel operations EXACTLY those of the iteration without any event; only the reply, if any, is sent in addition *)
Theorem C08E_turned_away_message_invisible_after_the_iteration :
  forall E (ep : endpoint E) tnow tp h my peer (m : pmsg body) cid (s : esa E),
  dispatch_is_init_request (h_exch h) (negb (h_resp h)) = false ->
  find (selects E h) (table E ep) = Some (cid, s) -> AllQ E (table E ep) -> NoDup (map fst (table E ep)) ->
  fst (decision (hdl_iface E) s m) = false -> executes (hdl_iface E) s m = false -> accepts (hdl_iface E) s m = false ->
  let a := iteration E ep tnow tp (Ev_datagram (Dg h my peer (Some m))) in
  let b := iteration E ep tnow tp Ev_none in
  table E a = table E b /\ next_cid E a = next_cid E b /\ ep_tape E a = ep_tape E b /\ ep_kops E a = ep_kops E b
  /\ ep_sent E a = olist (window_reply (hdl_iface E) s m) ++ ep_sent E b.
Proof. exact turned_away_iteration. Qed.
Print Assumptions C08E_turned_away_message_invisible_after_the_iteration.

(** The liveness (DPD) deadline of the routed entry, for EVERY parsed datagram that is not an IKE_SA_INIT request and
    whatever the handlers do with it: if the entry is still in the table after [dispatch], its deadline is the old one
    or - exactly when the generated decision function says "re-arm" - the clock plus the configured delay ... *)
Theorem C08E_liveness_deadline_after_dispatch :
  forall E (ep : endpoint E) h my peer (m : pmsg body) cid (s x : esa E),
  dispatch_is_init_request (h_exch h) (negb (h_resp h)) = false ->
  find (selects E h) (table E ep) = Some (cid, s) -> CidOK E (table E ep) (next_cid E ep) ->
  In (cid, x) (table E (dispatch E ep (Dg h my peer (Some m)))) ->
  dpd_at (hdl_iface E) x
  = if fst (decision (hdl_iface E) s m) then ep_now E ep + dpd_cfg (hdl_iface E) s else dpd_at (hdl_iface E) s.
Proof. exact liveness_deadline_after_dispatch. Qed.
Print Assumptions C08E_liveness_deadline_after_dispatch.

(** ... hence it differs from before ONLY IF the message was authentic (or the IkeSa has no keys yet), addressed to the
    IkeSa (initiator flag and SPIs fit) and fresh: its Message ID is the receive counter [peer_id] (request) / the send
    counter [my_id] (response).  A replayed, stale or forged message cannot postpone dead-peer detection. *)
Theorem C08E_liveness_timer_rearmed_only_by_fresh_message :
  forall E (ep : endpoint E) h my peer (m : pmsg body) cid (s x : esa E),
  dispatch_is_init_request (h_exch h) (negb (h_resp h)) = false ->
  find (selects E h) (table E ep) = Some (cid, s) -> CidOK E (table E ep) (next_cid E ep) ->
  In (cid, x) (table E (dispatch E ep (Dg h my peer (Some m)))) -> dpd_at (hdl_iface E) x <> dpd_at (hdl_iface E) s ->
  dpd_at (hdl_iface E) x = ep_now E ep + dpd_cfg (hdl_iface E) s /\ fst (decision (hdl_iface E) s m) = true
  /\ (has_keys (hdl_iface E) (inner (hdl_iface E) s) = false \/ p_auth m = true) /\ addressed (hdl_iface E) s m = true
  /\ h_id (p_hdr m) = (if h_resp (p_hdr m) then my_id (hdl_iface E) s else peer_id (hdl_iface E) s).
Proof. exact liveness_timer_rearmed_only_by_fresh_message. Qed.
Print Assumptions C08E_liveness_timer_rearmed_only_by_fresh_message.

(** 4. For ANY datagram - authentic or not, whatever it contains, whatever the handlers do with it - either the endpoint
    is literally unchanged, or the dispatcher called process_message on ONE entry [cid] (recorded in [ep_routed]) and
    the entries other than [cid] that existed before (creation index below the old [next_cid]) are, in the same
    order, exactly the old entries other than [cid]: nothing else is changed, moved or removed; all that can be new
    has a fresh creation index (the responder created for an IKE_SA_INIT request, a successor registered by a rekey) *)
Theorem C08E_def_other : forall E cid (x : nat * esa E), other E cid x = negb (Nat.eqb (fst x) cid).
Proof. exact other_def. Qed.
Print Assumptions C08E_def_other.
Theorem C08E_def_other_old : forall E cid bound (x : nat * esa E),
  other_old E cid bound x = (negb (Nat.eqb (fst x) cid) && Nat.ltb (fst x) bound)%bool.
Proof. exact other_old_def. Qed.
Print Assumptions C08E_def_other_old.
Theorem C08E_only_routed_entry_may_change : forall E (ep : endpoint E) d,
  CidOK E (table E ep) (next_cid E ep) ->
  dispatch E ep d = ep
  \/ exists cid, ep_routed E (dispatch E ep d) = Some cid
                 /\ filter (other_old E cid (next_cid E ep)) (table E (dispatch E ep d)) = filter (other E cid) (table E ep).
Proof. exact only_routed_entry_may_change. Qed.
Print Assumptions C08E_only_routed_entry_may_change.
(** entry by entry *)
Theorem C08E_other_entries_unchanged : forall E (ep : endpoint E) d cid,
  CidOK E (table E ep) (next_cid E ep) -> ep_routed E (dispatch E ep d) = Some cid \/ dispatch E ep d = ep ->
  forall c (s : esa E), c <> cid ->
    (In (c, s) (table E ep) <-> In (c, s) (table E (dispatch E ep d)) /\ (c < next_cid E ep)%nat).
Proof. exact other_entries_unchanged. Qed.
Print Assumptions C08E_other_entries_unchanged.

(** 5. Request numbering, per call site.  (a) The dispatcher: what a datagram routed to [(cid, s)] makes the endpoint send
    is what process_message returned, and that is (1) the stored response to a copy of the previous request, or
    (2) the response to the request just executed, carrying its Message ID (the old receive counter) and now the
    stored response, or (3) a REQUEST: it carries the send counter [my_id] of the IkeSa as it is written back and is
    recorded as its outstanding request; it is emitted only on a response with the previous send counter *)
Theorem C08E_request_ids_dispatch : forall E (ep : endpoint E) h my peer (m : pmsg body) cid (s : esa E),
  dispatch_is_init_request (h_exch h) (negb (h_resp h)) = false ->
  find (selects E h) (table E ep) = Some (cid, s) ->
  let r := process_message (hdl_iface E) (enter E ep s) m (ep_now E ep) in
  let s' := snd (leave E (routed E ep cid) (fst r)) in
  ep_sent E (dispatch E ep (Dg h my peer (Some m))) = ep_sent E ep ++ olist (snd r)
  /\ forall d, snd r = Some d ->
       (last_resp (hdl_iface E) s = Some d /\ last_resp (hdl_iface E) s' = Some d /\ h_resp (p_hdr m) = false
        /\ h_id (p_hdr m) = peer_id (hdl_iface E) s - 1
        /\ my_id (hdl_iface E) s' = my_id (hdl_iface E) s /\ peer_id (hdl_iface E) s' = peer_id (hdl_iface E) s)
       \/ (last_resp (hdl_iface E) s' = Some d /\ h_resp (d_hdr d) = true /\ h_id (d_hdr d) = peer_id (hdl_iface E) s
           /\ h_resp (p_hdr m) = false /\ h_id (p_hdr m) = peer_id (hdl_iface E) s
           /\ peer_id (hdl_iface E) s' = peer_id (hdl_iface E) s + 1
           /\ my_id (hdl_iface E) s' = my_id (hdl_iface E) s /\ req_data (hdl_iface E) s' = req_data (hdl_iface E) s)
       \/ (h_resp (d_hdr d) = false /\ h_id (d_hdr d) = my_id (hdl_iface E) s' /\ req_data (hdl_iface E) s' = Some d
           /\ h_resp (p_hdr m) = true /\ h_id (p_hdr m) = my_id (hdl_iface E) s
           /\ (my_id (hdl_iface E) s' = my_id (hdl_iface E) s + 1 \/ my_id (hdl_iface E) s' = 0)
           /\ peer_id (hdl_iface E) s' = peer_id (hdl_iface E) s
           /\ last_resp (hdl_iface E) s' = last_resp (hdl_iface E) s).
Proof. exact dispatch_emits. Qed.
Print Assumptions C08E_request_ids_dispatch.

(** (b) a kernel EXPIRE: the entry is written back, and the request sent for it carries the send counter of the entry
    as written back and is its outstanding request *)
Theorem C08E_request_ids_expire : forall E (ep : endpoint E) spi hard cid (s : esa E),
  find (fun x : nat * esa E => owns_spi E spi (snd x)) (table E ep) = Some (cid, s) ->
  let r := process_trigger (hdl_iface E) (enter E ep s) (ep_now E ep) (E_expire spi hard) in
  let s' := snd (leave E ep (fst r)) in
  table E (expire E ep spi hard) = Endpoint.replace E (table E ep) cid s'
  /\ ep_sent E (expire E ep spi hard) = ep_sent E ep ++ olist (snd r)
  /\ forall d, snd r = Some d ->
       h_resp (d_hdr d) = false /\ h_id (d_hdr d) = my_id (hdl_iface E) s' /\ req_data (hdl_iface E) s' = Some d
       /\ my_id (hdl_iface E) s' = my_id (hdl_iface E) s.
Proof. exact expire_emits. Qed.
Print Assumptions C08E_request_ids_expire.

(** (c) one call of a timer check on an entry (every visit of the three sweeps of the timer section is such a call,
    C13E): the liveness and lifetime checks emit a request carrying the send counter of the entry as written back,
    recorded as its outstanding request; the retransmission check emits the outstanding request again, byte for byte *)
Theorem C08E_request_ids_timer_call :
  forall E (ep : endpoint E) cid (s : esa E) (f : esa E -> Z -> esa E * option (dgram body)),
  let r := f (enter E ep s) (ep_now E ep) in
  let s' := snd (leave E ep (fst r)) in
  table E (do_call E ep cid r) = Endpoint.replace E (table E ep) cid s'
  /\ ep_sent E (do_call E ep cid r) = ep_sent E ep ++ olist (snd r)
  /\ forall d, snd r = Some d ->
       (f = check_dpd (hdl_iface E) \/ f = check_lifetime (hdl_iface E) ->
        h_resp (d_hdr d) = false /\ h_id (d_hdr d) = my_id (hdl_iface E) s' /\ req_data (hdl_iface E) s' = Some d
        /\ my_id (hdl_iface E) s' = my_id (hdl_iface E) s)
       /\ (f = check_retransmission (hdl_iface E) ->
           req_data (hdl_iface E) s = Some d /\ req_data (hdl_iface E) s' = Some d
           /\ my_id (hdl_iface E) s' = my_id (hdl_iface E) s).
Proof. exact timer_call_emits. Qed.
Print Assumptions C08E_request_ids_timer_call.

(** the shell-level fact behind (a), for every behaviour of the handlers *)
Theorem C08E_process_message_output : forall (P : iface) (s : sa P) (m : pmsg (B P)) (now : Z) s' d,
  process_message P s m now = (s', Some d) ->
  (last_resp P s = Some d /\ last_resp P s' = Some d /\ h_resp (p_hdr m) = false /\ h_id (p_hdr m) = peer_id P s - 1
   /\ my_id P s' = my_id P s /\ peer_id P s' = peer_id P s /\ inner P s' = inner P s)
  \/ (last_resp P s' = Some d /\ h_resp (d_hdr d) = true /\ h_id (d_hdr d) = peer_id P s
      /\ h_resp (p_hdr m) = false /\ h_id (p_hdr m) = peer_id P s /\ peer_id P s' = peer_id P s + 1
      /\ my_id P s' = my_id P s /\ req_data P s' = req_data P s)
  \/ (h_resp (d_hdr d) = false /\ h_id (d_hdr d) = my_id P s' /\ req_data P s' = Some d
      /\ h_resp (p_hdr m) = true /\ h_id (p_hdr m) = my_id P s /\ (my_id P s' = my_id P s + 1 \/ my_id P s' = 0)
      /\ peer_id P s' = peer_id P s /\ last_resp P s' = last_resp P s).
Proof. exact process_message_output. Qed.
Print Assumptions C08E_process_message_output.

(** 6. A concrete endpoint (two established IkeSas): the same authentic CREATE_CHILD_SA request in two successive
    iterations (t = 5, t = 6, the same tape offered).  The first is executed: two NEWSA, a second CHILD_SA, receive
    counter 1, liveness deadline 5 + 60.  The second is answered with the byte-identical response: the list of
    datagrams sent is the same, no kernel operation, no third CHILD_SA (the handler states [co] of all entries are the
    same), the tape is handed back whole, the receive counter and the liveness deadline (65) stay.  [view]: per entry
    (cid, state, my_id, peer_id, liveness deadline, number of CHILD_SAs), kernel log, number of datagrams sent, tape
    left, routing, next_cid. *)
Theorem C08E_example_replayed_create_child :
  WindowExample.view WindowExample.once
  = ([(0%nat, ST_ESTABLISHED, 0, 1, 65, 2%nat); (1%nat, ST_ESTABLISHED, 0, 0, 1000, 0%nat)],
     ep_kops HdlSad.Example.E0 WindowExample.once, 1%nat, [], Some 0%nat, 2%nat)
  /\ length (ep_kops HdlSad.Example.E0 WindowExample.once) = 2%nat
  /\ WindowExample.view WindowExample.twice
     = ([(0%nat, ST_ESTABLISHED, 0, 1, 65, 2%nat); (1%nat, ST_ESTABLISHED, 0, 0, 1000, 0%nat)],
        [], 1%nat, WindowExample.tape_new, Some 0%nat, 2%nat)
  /\ ep_sent HdlSad.Example.E0 WindowExample.twice = ep_sent HdlSad.Example.E0 WindowExample.once
  /\ map (fun x : nat * esa HdlSad.Example.E0 => co (inner (hdl_iface HdlSad.Example.E0) (snd x)))
         (table HdlSad.Example.E0 WindowExample.twice)
     = map (fun x : nat * esa HdlSad.Example.E0 => co (inner (hdl_iface HdlSad.Example.E0) (snd x)))
           (table HdlSad.Example.E0 WindowExample.once).
Proof. exact WindowExample.replayed_create_child. Qed.
Print Assumptions C08E_example_replayed_create_child.

(** a stale authentic request after that (Message ID 7 when 1 is expected): nothing sent, no kernel operation, tape
    whole, the liveness deadline of the entry stays 65, every field of every entry (up to the environment fields) is
    what it was; and the same datagram on the stored two-IkeSa endpoint leaves it literally unchanged but for the
    routing record *)
Theorem C08E_example_stale_request_changes_nothing :
  WindowExample.view (dispatch HdlSad.Example.E0 (start HdlSad.Example.E0 WindowExample.once 6 WindowExample.tape_new)
                               WindowExample.stale)
  = ([(0%nat, ST_ESTABLISHED, 0, 1, 65, 2%nat); (1%nat, ST_ESTABLISHED, 0, 0, 1000, 0%nat)],
     [], 0%nat, WindowExample.tape_new, Some 0%nat, 2%nat)
  /\ map (fun x : nat * esa HdlSad.Example.E0 => dpd_at _ (snd x))
         (table HdlSad.Example.E0 (start HdlSad.Example.E0 WindowExample.once 6 WindowExample.tape_new)) = [65; 1000]
  /\ map (fun x : nat * esa HdlSad.Example.E0 => WindowExample.fields (fst x, settle HdlSad.Example.E0 0 (snd x)))
         (table HdlSad.Example.E0
            (dispatch HdlSad.Example.E0 (start HdlSad.Example.E0 WindowExample.once 6 WindowExample.tape_new)
                      WindowExample.stale))
     = map (fun x : nat * esa HdlSad.Example.E0 => WindowExample.fields (fst x, settle HdlSad.Example.E0 0 (snd x)))
           (table HdlSad.Example.E0 (start HdlSad.Example.E0 WindowExample.once 6 WindowExample.tape_new))
  /\ dispatch HdlSad.Example.E0 (WindowExample.ep_two WindowExample.tape_new) WindowExample.stale
     = mk_ep HdlSad.Example.E0 [(0%nat, WindowExample.sa_a); (1%nat, WindowExample.sa_b)] 2 EpExample.cfs [9%N]
             WindowExample.tape_new 0 [] [] (Some 0%nat) None.
Proof. exact WindowExample.stale_request_changes_nothing. Qed.
Print Assumptions C08E_example_stale_request_changes_nothing.
